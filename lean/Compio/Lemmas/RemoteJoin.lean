/-
Invariant of the remote-join LTS (Compio.Model.RemoteJoin) and the theorems of C04 about the
remote JoinHandle: slot / storage exclusivity, wake delivery, exactly-once accounting.
-/
import Compio.Model.RemoteJoin
namespace Compio.RemoteJoin
open Compio.TaskWord Compio.Gen

/-! What every function regenerated from task/state.rs does on a word given by its fields. These
are `rfl`: they stop checking when a mask in state.rs changes, which is intended. -/
section gen
variable (w : Word)
@[simp, grind =] theorem g_new2 : TaskState.new 2 = ⟨false, false, true, false, false, false, true, 2⟩ := rfl
@[simp, grind =] theorem g_unschedule : TaskState.unschedule w = { w with scheduled := false } := rfl
@[simp, grind =] theorem g_finishRunning : TaskState.finishRunning w = { w with completed := true, hasResult := true } := rfl
@[simp, grind =] theorem g_setDropped : TaskState.setDropped w = { w with hasWaker := false, notCancelled := false } := rfl
@[simp, grind =] theorem g_startSettingWaker : TaskState.startSettingWaker w = { w with notSettingWaker := false } := rfl
@[simp, grind =] theorem g_finishSettingWakerTrue : TaskState.finishSettingWakerTrue w = { w with notSettingWaker := true, hasWaker := true } := rfl
@[simp, grind =] theorem g_finishSettingWakerFalse : TaskState.finishSettingWakerFalse w = { w with notSettingWaker := true } := rfl
@[simp, grind =] theorem g_setHasResultFalse : TaskState.setHasResultFalse w = { w with hasResult := false } := rfl
@[simp, grind =] theorem g_setCancelled : TaskState.setCancelled w = { w with notCancelled := false } := rfl
@[simp, grind =] theorem g_startScheduling : TaskState.startScheduling w = { w with scheduled := true, scheduling := true } := rfl
@[simp, grind =] theorem g_finishScheduling : TaskState.finishScheduling w = { w with scheduling := false } := rfl
@[simp, grind =] theorem g_dec : TaskState.dec w = { w with count := w.count - 1 } := rfl
@[simp, grind =] theorem g_load : TaskState.load w = w := rfl
@[simp, grind =] theorem g_isCancelled : TaskState.isCancelled w = !w.notCancelled := rfl
@[simp, grind =] theorem g_isCompleted : TaskState.isCompleted w = w.completed := rfl
@[simp, grind =] theorem g_hasResult : TaskState.hasResult w = w.hasResult := rfl
@[simp, grind =] theorem g_hasWaker : TaskState.hasWaker w = w.hasWaker := rfl
@[simp, grind =] theorem g_isSettingWaker : TaskState.isSettingWaker w = !w.notSettingWaker := rfl
@[simp, grind =] theorem g_isScheduled : TaskState.isScheduled w = w.scheduled := rfl
@[simp, grind =] theorem g_count : TaskState.count w = w.count := rfl
end gen

/-- The inductive invariant of the FIXED program (tested with a BFS over the reachable states with two
waker ids before being proved). Groups: allocation (`uaf0`…`hLast`), the word's monotone flags against
the program counters (`sect`…`completed`), future/result storage (`futStorage`…`resLe`), waker slot against
HAS_WAKER and the snapshots the threads decided on (`acc`…`cmpSnap`, `ft`…`ed2`, `wakeSnap`), the waker-leak
characterisation F040 (`hc2`…`lk4`), the handle's return value (`hret*`), delivery (`d1`…`d4`). -/
structure Inv (s : RState) : Prop where
  uaf0 : s.uaf = 0
  bad0 : s.bad = 0
  deallocLe : s.deallocs ≤ 1
  dealloc1 : s.deallocs = 1 ↔ (s.epc = .done ∧ s.hpc = .done)
  count : s.word.count = (if s.epc = .last ∨ s.epc = .done then 0 else 1) + (if s.hpc = .last ∨ s.hpc = .done then 0 else 1)
  eLast : s.epc = .last → s.hpc = .done ∧ s.esnap.hasResult = s.word.hasResult ∧ s.esnap.hasWaker = s.word.hasWaker
  hLast : s.hpc = .last → s.epc = .done ∧ s.hsnap.hasResult = s.word.hasResult ∧ s.hsnap.hasWaker = s.word.hasWaker
  sect : s.word.notSettingWaker = false ↔ (s.hpc = .finishFalse ∨ s.hpc = .compare ∨ s.hpc = .write ∨ s.hpc = .finishTrue)
  cancelled : s.word.notCancelled = false ↔ (s.hcancelled = true ∨ s.epc = .clearShared ∨ s.epc = .dropFuture ∨ s.epc = .dropSlot ∨ s.epc = .dec ∨ s.epc = .last ∨ s.epc = .done)
  routeRun : (s.epc = .idle ∨ s.epc = .poll) ↔ s.eroute = .running
  routeFin : s.epc = .finishRunning ∨ s.epc = .wake → s.eroute = .completed
  completed : s.word.completed = true ↔ (s.eroute = .completed ∧ s.epc ≠ .finishRunning)
  futStorage : s.storage = .future ↔ (s.eroute = .running ∨ (s.eroute ≠ .completed ∧ (s.epc = .setDropped ∨ s.epc = .clearShared ∨ s.epc = .dropFuture)))
  futDrops : s.futDrops = if s.storage = .future then 0 else 1
  preResult : s.epc = .finishRunning → s.storage = .result
  clearSharedSnap : s.epc = .clearShared → (s.esnap.completed = true ↔ s.eroute = .completed)
  dropFutureRoute : s.epc = .dropFuture → s.eroute ≠ .completed
  r1 : s.word.completed = false → s.word.hasResult = false ∧ s.resTaken + s.resDrops = 0
  r2 : s.word.hasResult = true → s.deallocs = 0 → s.storage = .result ∧ s.resTaken + s.resDrops = 0
  r3 : s.word.completed = true → s.word.hasResult = false →
      ((s.hpc = .takeResult ∨ s.hpc = .cancelDrop) ∧ s.storage = .result ∧ s.resTaken + s.resDrops = 0) ∨
      ((s.hpc = .dec ∨ s.hpc = .last ∨ s.hpc = .done) ∧ s.storage = .empty ∧ s.resTaken + s.resDrops = 1)
  r4 : s.hpc = .clearResult ∨ s.hpc = .cancelClear → s.word.hasResult = true
  r5 : s.hpc = .takeResult ∨ s.hpc = .cancelDrop → s.word.completed = true ∧ s.word.hasResult = false
  r6 : s.deallocs = 1 → s.word.completed = true → s.resTaken + s.resDrops = 1
  resLe : s.resTaken + s.resDrops ≤ 1
  acc : s.slotSets = s.slotDrops + (if s.slot.isSome then 1 else 0)
  w1 : s.word.hasWaker = true → s.deallocs = 0 → s.slot.isSome = true
  w2 : s.hpc = .compare → s.slot.isSome = true
  w4 : s.hpc = .write → (s.hsnap.hasWaker = true ↔ s.slot.isSome = true)
  w5 : ¬ (s.epc = .clearShared ∨ s.epc = .dropFuture ∨ s.epc = .dropSlot ∨ s.epc = .dec ∨ s.epc = .last ∨ s.epc = .done) →
      s.hpc ≠ .write → s.hpc ≠ .finishTrue → (s.slot.isSome = true ↔ s.word.hasWaker = true)
  cmpSnap : s.hpc = .compare → s.hsnap.hasWaker = true
  wakeSnap : s.epc = .wake → s.esnap.hasWaker = true ∧ s.esnap.notSettingWaker = true
  hc2 : s.hcancelled = true → s.hpc ≠ .startSetting ∧ s.hpc ≠ .finishFalse ∧ s.hpc ≠ .compare ∧ s.hpc ≠ .write ∧ s.hpc ≠ .finishTrue
  ff : s.hpc = .finishFalse → s.word.notCancelled = true → s.word.completed = true
  ffc : s.hpc = .finishFalse → s.hsnap.hasResult = false → s.word.notCancelled = false
  lk3 : ∀ w, s.slot = some w → ePastWake s = true → s.hpc = .startSetting ∨ s.hpc = .finishFalse → w ∈ s.woken
  lk : ∀ w, s.slot = some w → s.word.hasWaker = false → s.deallocs = 0 →
      (s.hpc = .compare ∨ s.hpc = .write ∨ s.hpc = .finishTrue) ∨
      ((s.epc = .clearShared ∨ s.epc = .dropFuture ∨ s.epc = .dropSlot) ∧ s.esnap.notSettingWaker = true ∧ s.esnap.hasWaker = true) ∨
      (s.eroute = .completed ∧ w ∈ s.woken ∧ s.word.notCancelled = false)
  lk4 : ∀ w, s.slot = some w → s.deallocs = 1 → s.eroute = .completed ∧ w ∈ s.woken
  hretT : s.hret = some true ↔ s.resTaken = 1
  hretF : s.hret = some false → s.word.notCancelled = false
  hretG : s.hret ≠ none → s.hpc = .dec ∨ s.hpc = .last ∨ s.hpc = .done
  ft : s.hpc = .finishTrue → s.slot = some s.hw
  s3 : s.epc = .wake → s.slot.isSome = true ∧ ¬ (s.hpc = .compare ∨ s.hpc = .write ∨ s.hpc = .finishTrue)
  ed1 : s.epc = .dropSlot → s.esnap.hasWaker = true ∧ s.esnap.notSettingWaker = true
  ed2 : (s.epc = .clearShared ∨ s.epc = .dropFuture ∨ s.epc = .dropSlot) → s.esnap.notSettingWaker = true →
      s.word.hasWaker = false ∧ ¬ (s.hpc = .compare ∨ s.hpc = .write ∨ s.hpc = .finishTrue) ∧ (s.esnap.hasWaker = true → s.slot.isSome = true)
  d1 : s.parked.isSome = true → s.hpc = .idle ∨ s.hpc = .schedShared ∨ s.hpc = .schedFinish ∨ s.hpc = .setCancelled
  d5 : s.hpc = .schedShared ∨ s.hpc = .schedFinish ∨ s.hpc = .setCancelled → s.hdrop = true → s.parked = none
  d2 : ∀ w, s.parked = some w → s.word.completed = false →
      ¬ (s.epc = .clearShared ∨ s.epc = .dropFuture ∨ s.epc = .dropSlot ∨ s.epc = .dec ∨ s.epc = .last ∨ s.epc = .done) →
      s.slot = some w ∧ s.word.hasWaker = true
  d3 : ∀ w, s.parked = some w → s.epc = .wake → s.slot = some w
  d4 : ∀ w, s.parked = some w → ePastWake s = true → w ∈ s.woken

theorem touch_eq {s : RState} (h : s.deallocs = 0) : touch s = s := by simp [touch, h]

theorem Inv.dealloc0 {s : RState} (h : Inv s) (hh : s.epc ≠ .done ∨ s.hpc ≠ .done) : s.deallocs = 0 := by
  have := h.deallocLe; have := h.dealloc1
  grind

theorem inv_init : Inv init := by
  constructor <;> simp [init, ePastWake]

/-- close `Inv s'` for an explicit successor: one `grind` per conjunct -/
macro "inv_close" h:ident hs:ident : tactic => `(tactic| (
    obtain ⟨uaf0, bad0, deallocLe, dealloc1, count, eLast, hLast, sect, cancelled, routeRun, routeFin, completed, futStorage, futDrops, preResult, clearSharedSnap, dropFutureRoute, r1, r2, r3, r4, r5, r6, resLe, acc, w1, w2, w4, w5, cmpSnap, wakeSnap, hc2, ff, ffc, lk3, lk, lk4, hretT, hretF, hretG, ft, s3, ed1, ed2, d1, d5, d2, d3, d4⟩ := $h
    cases $hs:ident; constructor <;> (try dsimp only) <;> grind [ePastWake]))

macro "inv_step_tac" : tactic => `(tactic| (
  intro h hs
  simp only [step?] at hs
  split at hs
  · rename_i hg
    try rw [touch_eq (h.dealloc0 (by simp [hg]))] at hs
    try simp only [hLoop, hAfterFinishTrue, afterDecE, afterDecH, wakeSlotOf, dropSlotOf, dropResultOf,
      eAfterShared, eAfterFuture] at hs
    (repeat' (split at hs)) <;> inv_close h hs
  · cases hs))

theorem step_eUnschedule {s s' : RState} : Inv s → step? true s .eUnschedule = some s' → Inv s' := by inv_step_tac
theorem step_ePollPending {s s' : RState} : Inv s → step? true s .ePollPending = some s' → Inv s' := by inv_step_tac
theorem step_ePollReady {s s' : RState} : Inv s → step? true s .ePollReady = some s' → Inv s' := by inv_step_tac
theorem step_eFinishRunning {s s' : RState} : Inv s → step? true s .eFinishRunning = some s' → Inv s' := by inv_step_tac
theorem step_eWake {s s' : RState} : Inv s → step? true s .eWake = some s' → Inv s' := by inv_step_tac
theorem step_eClear {s s' : RState} : Inv s → step? true s .eClear = some s' → Inv s' := by inv_step_tac
theorem step_eSetDropped {s s' : RState} : Inv s → step? true s .eSetDropped = some s' → Inv s' := by inv_step_tac
theorem step_eClearShared {s s' : RState} : Inv s → step? true s .eClearShared = some s' → Inv s' := by inv_step_tac
theorem step_eDropFuture {s s' : RState} : Inv s → step? true s .eDropFuture = some s' → Inv s' := by inv_step_tac
theorem step_eDropSlot {s s' : RState} : Inv s → step? true s .eDropSlot = some s' → Inv s' := by inv_step_tac
theorem step_eDec {s s' : RState} : Inv s → step? true s .eDec = some s' → Inv s' := by inv_step_tac
theorem step_hClearResult {s s' : RState} : Inv s → step? true s .hClearResult = some s' → Inv s' := by inv_step_tac
theorem step_hTakeResult {s s' : RState} : Inv s → step? true s .hTakeResult = some s' → Inv s' := by inv_step_tac
theorem step_hStartSetting {s s' : RState} : Inv s → step? true s .hStartSetting = some s' → Inv s' := by inv_step_tac
theorem step_hFinishFalse {s s' : RState} : Inv s → step? true s .hFinishFalse = some s' → Inv s' := by inv_step_tac
theorem step_hCompare {s s' : RState} : Inv s → step? true s .hCompare = some s' → Inv s' := by inv_step_tac
theorem step_hWrite {s s' : RState} : Inv s → step? true s .hWrite = some s' → Inv s' := by inv_step_tac
theorem step_hFinishTrue {s s' : RState} : Inv s → step? true s .hFinishTrue = some s' → Inv s' := by inv_step_tac
theorem step_hReload {s s' : RState} : Inv s → step? true s .hReload = some s' → Inv s' := by inv_step_tac
theorem step_hSchedShared {s s' : RState} : Inv s → step? true s .hSchedShared = some s' → Inv s' := by inv_step_tac
theorem step_hSchedFinish {s s' : RState} : Inv s → step? true s .hSchedFinish = some s' → Inv s' := by inv_step_tac
theorem step_hSetCancelled {s s' : RState} : Inv s → step? true s .hSetCancelled = some s' → Inv s' := by inv_step_tac
theorem step_hCancelClear {s s' : RState} : Inv s → step? true s .hCancelClear = some s' → Inv s' := by inv_step_tac
theorem step_hCancelDrop {s s' : RState} : Inv s → step? true s .hCancelDrop = some s' → Inv s' := by inv_step_tac
theorem step_hDetach {s s' : RState} : Inv s → step? true s .hDetach = some s' → Inv s' := by inv_step_tac
theorem step_hDec {s s' : RState} : Inv s → step? true s .hDec = some s' → Inv s' := by inv_step_tac
theorem step_hPoll {s s' : RState} {w : Nat} : Inv s → step? true s (.hPoll w) = some s' → Inv s' := by inv_step_tac
theorem step_hCancel {s s' : RState} {b : Bool} : Inv s → step? true s (.hCancel b) = some s' → Inv s' := by inv_step_tac

set_option maxHeartbeats 1000000 in
theorem step_eLast {s s' : RState} : Inv s → step? true s .eLast = some s' → Inv s' := by
  intro h hs
  simp only [step?] at hs
  split at hs
  · rename_i hg
    rw [touch_eq (h.dealloc0 (by simp [hg]))] at hs
    have hd := h.dealloc0 (Or.inl (by simp [hg]))
    obtain ⟨hhd, e1, e2⟩ := h.eLast hg
    have hw := h.w1; have hr := h.r2
    simp only [lastOf, dropSlotOf, dropResultOf, g_hasResult, g_hasWaker, e1, e2] at hs
    by_cases c1 : s.word.hasResult = true <;> by_cases c2 : s.word.hasWaker = true
    · simp only [c1, c2, if_true, hw c2 hd, (hr c1 hd).1] at hs
      inv_close h hs
    · simp only [c1, c2, if_true, (hr c1 hd).1] at hs
      inv_close h hs
    · simp only [c1, c2, if_true] at hs
      inv_close h hs
    · simp only [c1, c2] at hs
      inv_close h hs
  · cases hs

set_option maxHeartbeats 1000000 in
theorem step_hLast {s s' : RState} : Inv s → step? true s .hLast = some s' → Inv s' := by
  intro h hs
  simp only [step?] at hs
  split at hs
  · rename_i hg
    rw [touch_eq (h.dealloc0 (by simp [hg]))] at hs
    have hd := h.dealloc0 (Or.inr (by simp [hg]))
    obtain ⟨hhd, e1, e2⟩ := h.hLast hg
    have hw := h.w1; have hr := h.r2
    simp only [lastOf, dropSlotOf, dropResultOf, g_hasResult, g_hasWaker, e1, e2] at hs
    by_cases c1 : s.word.hasResult = true <;> by_cases c2 : s.word.hasWaker = true
    · simp only [c1, c2, if_true, hw c2 hd, (hr c1 hd).1] at hs
      inv_close h hs
    · simp only [c1, c2, if_true, (hr c1 hd).1] at hs
      inv_close h hs
    · simp only [c1, c2, if_true] at hs
      inv_close h hs
    · simp only [c1, c2] at hs
      inv_close h hs
  · cases hs

theorem inv_step {s s' : RState} {l : Label} (h : Inv s) (hs : Step true s l s') : Inv s' := by
  unfold Step at hs
  cases l
  case eUnschedule => exact step_eUnschedule h hs
  case ePollPending => exact step_ePollPending h hs
  case ePollReady => exact step_ePollReady h hs
  case eFinishRunning => exact step_eFinishRunning h hs
  case eWake => exact step_eWake h hs
  case eClear => exact step_eClear h hs
  case eSetDropped => exact step_eSetDropped h hs
  case eClearShared => exact step_eClearShared h hs
  case eDropFuture => exact step_eDropFuture h hs
  case eDropSlot => exact step_eDropSlot h hs
  case eDec => exact step_eDec h hs
  case eLast => exact step_eLast h hs
  case hPoll w => exact step_hPoll h hs
  case hClearResult => exact step_hClearResult h hs
  case hTakeResult => exact step_hTakeResult h hs
  case hStartSetting => exact step_hStartSetting h hs
  case hFinishFalse => exact step_hFinishFalse h hs
  case hCompare => exact step_hCompare h hs
  case hWrite => exact step_hWrite h hs
  case hFinishTrue => exact step_hFinishTrue h hs
  case hReload => exact step_hReload h hs
  case hCancel b => exact step_hCancel h hs
  case hSchedShared => exact step_hSchedShared h hs
  case hSchedFinish => exact step_hSchedFinish h hs
  case hSetCancelled => exact step_hSetCancelled h hs
  case hCancelClear => exact step_hCancelClear h hs
  case hCancelDrop => exact step_hCancelDrop h hs
  case hDetach => exact step_hDetach h hs
  case hDec => exact step_hDec h hs
  case hLast => exact step_hLast h hs

theorem inv_reachable {s : RState} (h : Reachable true s) : Inv s := by
  induction h with
  | init => exact inv_init
  | step _ hs ih => exact inv_step ih hs

/-! ## `run` and `Trace`, `Reachable` -/

theorem trace_of_run {fixed : Bool} {ls : List Label} {s s' : RState} (h : run fixed s ls = some s') :
    Trace fixed s ls s' := by
  induction ls generalizing s with
  | nil => simp [run] at h; subst h; exact Trace.nil _
  | cons l ls ih =>
    simp only [run] at h
    split at h
    · rename_i s1 h1; exact Trace.cons h1 (ih h)
    · cases h

theorem run_of_trace {fixed : Bool} {ls : List Label} {s s' : RState} (h : Trace fixed s ls s') :
    run fixed s ls = some s' := by
  induction h with
  | nil => rfl
  | cons h1 _ ih => unfold Step at h1; simp [run, h1, ih]

theorem reachable_of_trace {fixed : Bool} {ls : List Label} {s s' : RState} (hr : Reachable fixed s)
    (h : Trace fixed s ls s') : Reachable fixed s' := by
  induction h with
  | nil => exact hr
  | cons h1 _ ih => exact ih (Reachable.step hr h1)

theorem reachable_of_run {fixed : Bool} {ls : List Label} {s' : RState} (h : run fixed init ls = some s') :
    Reachable fixed s' := reachable_of_trace Reachable.init (trace_of_run h)

theorem trace_snoc {fixed : Bool} {ls : List Label} {s s' s'' : RState} {l : Label}
    (h : Trace fixed s ls s') (hs : Step fixed s' l s'') : Trace fixed s (ls ++ [l]) s'' := by
  induction h with
  | nil => exact Trace.cons hs (Trace.nil _)
  | cons h1 _ ih => exact Trace.cons h1 (ih hs)

theorem reachable_iff_trace {fixed : Bool} {s : RState} :
    Reachable fixed s ↔ ∃ ls : List Label, Trace fixed init ls s := by
  constructor
  · intro h
    induction h with
    | init => exact ⟨[], Trace.nil _⟩
    | step _ hs ih =>
      obtain ⟨ls, hl⟩ := ih
      exact ⟨ls ++ [_], trace_snoc hl hs⟩
  · rintro ⟨ls, hl⟩; exact reachable_of_trace Reachable.init hl

/-! ## (i) exclusive access to the waker slot and to the future/result storage -/

/-- the waker slot is never the target of the next access of both threads -/
theorem slot_exclusive {s : RState} (h : Reachable true s) :
    ¬ (eAccessesSlot s = true ∧ hAccessesSlot s = true) := by
  have i := inv_reachable h
  obtain ⟨uaf0, bad0, deallocLe, dealloc1, count, eLast, hLast, sect, cancelled, routeRun, routeFin, completed, futStorage, futDrops, preResult, clearSharedSnap, dropFutureRoute, r1, r2, r3, r4, r5, r6, resLe, acc, w1, w2, w4, w5, cmpSnap, wakeSnap, hc2, ff, ffc, lk3, lk, lk4, hretT, hretF, hretG, ft, s3, ed1, ed2, d1, d5, d2, d3, d4⟩ := i
  simp only [eAccessesSlot, hAccessesSlot]
  grind

/-- section form, executor side: when E is about to read or drop the slot, H is not at `will_wake`, at
the write, nor before `finish_setting_waker::<true>` (if H is inside a SETTING_WAKER section at all,
it is one that started after the task finished and that leaves through `finish_setting_waker::<false>`
without touching the slot); E decided on a snapshot with HAS_WAKER and without SETTING_WAKER; the
last-holder access happens when H is gone.
NOTE: "the word has NOT_SETTING_WAKER whenever E is at a slot access" is FALSE and not needed: H may
execute `start_setting_waker` while E sits between `finish_running` and `wake_by_ref`
(see `example` `executor_at_wake_while_section_open` in Cex/C04.lean). -/
theorem slot_section_executor {s : RState} (h : Reachable true s) (he : eAccessesSlot s = true) :
    (s.hpc ≠ .compare ∧ s.hpc ≠ .write ∧ s.hpc ≠ .finishTrue) ∧
    (s.epc = .wake ∨ s.epc = .dropSlot →
      TaskState.hasWaker s.esnap = true ∧ TaskState.isSettingWaker s.esnap = false) ∧
    (s.epc = .last → s.hpc = .done) := by
  have i := inv_reachable h
  obtain ⟨uaf0, bad0, deallocLe, dealloc1, count, eLast, hLast, sect, cancelled, routeRun, routeFin, completed, futStorage, futDrops, preResult, clearSharedSnap, dropFutureRoute, r1, r2, r3, r4, r5, r6, resLe, acc, w1, w2, w4, w5, cmpSnap, wakeSnap, hc2, ff, ffc, lk3, lk, lk4, hretT, hretF, hretG, ft, s3, ed1, ed2, d1, d5, d2, d3, d4⟩ := i
  simp only [eAccessesSlot] at he
  simp only [g_hasWaker, g_isSettingWaker]
  grind

/-- section form, handle side: H compares / writes the slot only inside its SETTING_WAKER section
and then E is not at a slot access -/
theorem slot_section_handle {s : RState} (h : Reachable true s) (hh : s.hpc = .compare ∨ s.hpc = .write) :
    TaskState.isSettingWaker s.word = true ∧ eAccessesSlot s = false := by
  have i := inv_reachable h
  obtain ⟨uaf0, bad0, deallocLe, dealloc1, count, eLast, hLast, sect, cancelled, routeRun, routeFin, completed, futStorage, futDrops, preResult, clearSharedSnap, dropFutureRoute, r1, r2, r3, r4, r5, r6, resLe, acc, w1, w2, w4, w5, cmpSnap, wakeSnap, hc2, ff, ffc, lk3, lk, lk4, hretT, hretF, hretG, ft, s3, ed1, ed2, d1, d5, d2, d3, d4⟩ := i
  simp only [eAccessesSlot, g_hasWaker, g_isSettingWaker]
  grind

/-- the SETTING_WAKER bit is exactly "H is between `start_setting_waker` and `finish_setting_waker`" -/
theorem setting_waker_iff_in_section {s : RState} (h : Reachable true s) :
    TaskState.isSettingWaker s.word = hInSection s := by
  have i := inv_reachable h
  obtain ⟨uaf0, bad0, deallocLe, dealloc1, count, eLast, hLast, sect, cancelled, routeRun, routeFin, completed, futStorage, futDrops, preResult, clearSharedSnap, dropFutureRoute, r1, r2, r3, r4, r5, r6, resLe, acc, w1, w2, w4, w5, cmpSnap, wakeSnap, hc2, ff, ffc, lk3, lk, lk4, hretT, hretF, hretG, ft, s3, ed1, ed2, d1, d5, d2, d3, d4⟩ := i
  simp only [hInSection, g_isSettingWaker]
  grind

/-- the future/result storage is never the target of the next access of both threads -/
theorem storage_exclusive {s : RState} (h : Reachable true s) :
    ¬ (eAccessesStorage s = true ∧ hAccessesStorage s = true) := by
  have i := inv_reachable h
  obtain ⟨uaf0, bad0, deallocLe, dealloc1, count, eLast, hLast, sect, cancelled, routeRun, routeFin, completed, futStorage, futDrops, preResult, clearSharedSnap, dropFutureRoute, r1, r2, r3, r4, r5, r6, resLe, acc, w1, w2, w4, w5, cmpSnap, wakeSnap, hc2, ff, ffc, lk3, lk, lk4, hretT, hretF, hretG, ft, s3, ed1, ed2, d1, d5, d2, d3, d4⟩ := i
  simp only [eAccessesStorage, hAccessesStorage]
  grind

/-- no read or drop of an uninitialised slot, no access to the storage in the wrong variant
(poll / drop of a future that is not there, take / drop of a result that is not there) -/
theorem no_bad_access {s : RState} (h : Reachable true s) : s.bad = 0 := (inv_reachable h).bad0

/-! ## (ii) delivery of the wake-up -/

/-- FIXED program: if the handle's last poll returned Pending with waker `w` and the task has completed and
the executor is past `Task::run`'s wake decision, `w` has been woken -/
theorem delivery {s : RState} (h : Reachable true s) : deliveryStatement s := by
  intro w hp _ he
  exact (inv_reachable h).d4 w hp he

/-- while the handle is parked with `w` and the task has neither completed nor been dropped by the
executor, `w` is the waker in the slot, HAS_WAKER is set and no section is open -/
theorem pending_means_slot {s : RState} (h : Reachable true s) (w : Nat) (hp : s.parked = some w)
    (hc : TaskState.isCompleted s.word = false)
    (hd : s.epc = .idle ∨ s.epc = .poll ∨ s.epc = .finishRunning ∨ s.epc = .wake ∨ s.epc = .setDropped) :
    s.slot = some w ∧ TaskState.hasWaker s.word = true ∧ TaskState.isSettingWaker s.word = false := by
  have i := inv_reachable h
  obtain ⟨uaf0, bad0, deallocLe, dealloc1, count, eLast, hLast, sect, cancelled, routeRun, routeFin, completed, futStorage, futDrops, preResult, clearSharedSnap, dropFutureRoute, r1, r2, r3, r4, r5, r6, resLe, acc, w1, w2, w4, w5, cmpSnap, wakeSnap, hc2, ff, ffc, lk3, lk, lk4, hretT, hretF, hretG, ft, s3, ed1, ed2, d1, d5, d2, d3, d4⟩ := i
  simp only [g_hasWaker, g_isSettingWaker, g_isCompleted] at *
  have := d2 w hp hc (by grind)
  have := d1 (by simp [hp])
  grind

/-- when the executor reads the slot to wake and the handle is parked with `w`, it is `w` that is woken -/
theorem wake_reads_parked_waker {s : RState} (h : Reachable true s) (w : Nat) (hp : s.parked = some w)
    (he : s.epc = .wake) : s.slot = some w := (inv_reachable h).d3 w hp he

/-! ## (iii) exactly-once accounting -/

/-- the output is taken or dropped at most once; after deallocation exactly once iff the task completed -/
theorem result_once {s : RState} (h : Reachable true s) :
    s.resTaken + s.resDrops ≤ 1 ∧
    (s.deallocs = 1 → (s.resTaken + s.resDrops = 1 ↔ TaskState.isCompleted s.word = true)) := by
  have i := inv_reachable h
  obtain ⟨uaf0, bad0, deallocLe, dealloc1, count, eLast, hLast, sect, cancelled, routeRun, routeFin, completed, futStorage, futDrops, preResult, clearSharedSnap, dropFutureRoute, r1, r2, r3, r4, r5, r6, resLe, acc, w1, w2, w4, w5, cmpSnap, wakeSnap, hc2, ff, ffc, lk3, lk, lk4, hretT, hretF, hretG, ft, s3, ed1, ed2, d1, d5, d2, d3, d4⟩ := i
  simp only [g_isCompleted]
  grind

/-- the join handle's final poll returned `Ready(Some(_))` iff it took the output; `Ready(None)` only if cancelled -/
theorem join_result {s : RState} (h : Reachable true s) :
    (s.hret = some true ↔ s.resTaken = 1) ∧ (s.hret = some false → TaskState.isCancelled s.word = true) := by
  have i := inv_reachable h
  obtain ⟨uaf0, bad0, deallocLe, dealloc1, count, eLast, hLast, sect, cancelled, routeRun, routeFin, completed, futStorage, futDrops, preResult, clearSharedSnap, dropFutureRoute, r1, r2, r3, r4, r5, r6, resLe, acc, w1, w2, w4, w5, cmpSnap, wakeSnap, hc2, ff, ffc, lk3, lk, lk4, hretT, hretF, hretG, ft, s3, ed1, ed2, d1, d5, d2, d3, d4⟩ := i
  simp only [g_isCancelled]
  grind

/-- the future is dropped at most once, and exactly once when the executor is through `Task::drop` -/
theorem future_once {s : RState} (h : Reachable true s) :
    s.futDrops ≤ 1 ∧ (s.epc = .dec ∨ s.epc = .last ∨ s.epc = .done → s.futDrops = 1) ∧
    (s.futDrops = 0 ↔ s.storage = .future) := by
  have i := inv_reachable h
  obtain ⟨uaf0, bad0, deallocLe, dealloc1, count, eLast, hLast, sect, cancelled, routeRun, routeFin, completed, futStorage, futDrops, preResult, clearSharedSnap, dropFutureRoute, r1, r2, r3, r4, r5, r6, resLe, acc, w1, w2, w4, w5, cmpSnap, wakeSnap, hc2, ff, ffc, lk3, lk, lk4, hretT, hretF, hretG, ft, s3, ed1, ed2, d1, d5, d2, d3, d4⟩ := i
  grind

/-- the future is polled only while it is there (neither finished nor dropped) -/
theorem poll_only_future {s : RState} (h : Reachable true s) (hp : s.epc = .poll) :
    s.storage = .future ∧ TaskState.isCompleted s.word = false := by
  have i := inv_reachable h
  obtain ⟨uaf0, bad0, deallocLe, dealloc1, count, eLast, hLast, sect, cancelled, routeRun, routeFin, completed, futStorage, futDrops, preResult, clearSharedSnap, dropFutureRoute, r1, r2, r3, r4, r5, r6, resLe, acc, w1, w2, w4, w5, cmpSnap, wakeSnap, hc2, ff, ffc, lk3, lk, lk4, hretT, hretF, hretG, ft, s3, ed1, ed2, d1, d5, d2, d3, d4⟩ := i
  simp only [g_isCompleted]
  grind

/-- deallocation happens at most once, exactly when both holders are done; nothing is accessed afterwards -/
theorem dealloc_once {s : RState} (h : Reachable true s) :
    s.deallocs ≤ 1 ∧ (s.deallocs = 1 ↔ (s.epc = .done ∧ s.hpc = .done)) ∧ s.uaf = 0 := by
  have i := inv_reachable h
  exact ⟨i.deallocLe, i.dealloc1, i.uaf0⟩

/-- the reference count is the number of holders that have not released -/
theorem count_is_holders {s : RState} (h : Reachable true s) :
    TaskState.count s.word = (if s.epc = .last ∨ s.epc = .done then 0 else 1) +
      (if s.hpc = .last ∨ s.hpc = .done then 0 else 1) := (inv_reachable h).count

/-- every waker written into the slot is dropped from it, except the one that is in it -/
theorem waker_slot_accounting {s : RState} (h : Reachable true s) :
    s.slotSets = s.slotDrops + (if s.slot.isSome then 1 else 0) := (inv_reachable h).acc

/-- HAS_WAKER and the slot: (a) HAS_WAKER ⇒ the slot is occupied (while allocated); (b) before the
executor's `set_dropped` and with H not between its write and `finish_setting_waker::<true>`,
HAS_WAKER ⇔ occupied; (c) an occupied slot without HAS_WAKER is either being handled by H (inside its
section, before `finish<true>` re-asserts the bit), or about to be dropped by E (`Task::drop` saw
HAS_WAKER ∧ ¬SETTING_WAKER), or it is the LEAK: the task completed, that waker has been woken, and
`set_dropped` cleared HAS_WAKER while H was in a section that left through `finish<false>`. -/
theorem waker_flag_slot {s : RState} (h : Reachable true s) :
    (TaskState.hasWaker s.word = true → s.deallocs = 0 → s.slot.isSome = true) ∧
    ((s.epc = .idle ∨ s.epc = .poll ∨ s.epc = .finishRunning ∨ s.epc = .wake ∨ s.epc = .setDropped) →
      s.hpc ≠ .write → s.hpc ≠ .finishTrue → (s.slot.isSome = true ↔ TaskState.hasWaker s.word = true)) ∧
    (∀ w : Nat, s.slot = some w → TaskState.hasWaker s.word = false → s.deallocs = 0 →
      (s.hpc = .compare ∨ s.hpc = .write ∨ s.hpc = .finishTrue) ∨
      ((s.epc = .clearShared ∨ s.epc = .dropFuture ∨ s.epc = .dropSlot) ∧
        TaskState.isSettingWaker s.esnap = false ∧ TaskState.hasWaker s.esnap = true) ∨
      (s.eroute = .completed ∧ w ∈ s.woken ∧ TaskState.isCancelled s.word = true)) := by
  have i := inv_reachable h
  obtain ⟨uaf0, bad0, deallocLe, dealloc1, count, eLast, hLast, sect, cancelled, routeRun, routeFin, completed, futStorage, futDrops, preResult, clearSharedSnap, dropFutureRoute, r1, r2, r3, r4, r5, r6, resLe, acc, w1, w2, w4, w5, cmpSnap, wakeSnap, hc2, ff, ffc, lk3, lk, lk4, hretT, hretF, hretG, ft, s3, ed1, ed2, d1, d5, d2, d3, d4⟩ := i
  simp only [g_hasWaker, g_isSettingWaker, g_isCancelled]
  refine ⟨w1, ?_, ?_⟩
  · intro he; exact w5 (by grind)
  · intro w hw hf hd
    have := lk w hw hf hd
    grind

/-
FULL statement (FALSE on the current code, see `waker_leak_counterexample` in Cex/C04.lean, finding F040):
  theorem slot_dropped_at_dealloc {s} (h : Reachable true s) : s.deallocs = 1 → s.slot = none
What holds: a waker still in the slot at deallocation (never dropped: leaked) occurs only on the
completion path, and that waker has been woken; on the cancellation / executor-drop paths the slot is
always empty at deallocation.
-/
theorem slot_dropped_at_dealloc_partial {s : RState} (h : Reachable true s) (hd : s.deallocs = 1) :
    (∀ w : Nat, s.slot = some w → s.eroute = .completed ∧ w ∈ s.woken) ∧
    (s.eroute ≠ .completed → s.slot = none ∧ s.slotSets = s.slotDrops) := by
  have i := inv_reachable h
  obtain ⟨uaf0, bad0, deallocLe, dealloc1, count, eLast, hLast, sect, cancelled, routeRun, routeFin, completed, futStorage, futDrops, preResult, clearSharedSnap, dropFutureRoute, r1, r2, r3, r4, r5, r6, resLe, acc, w1, w2, w4, w5, cmpSnap, wakeSnap, hc2, ff, ffc, lk3, lk, lk4, hretT, hretF, hretG, ft, s3, ed1, ed2, d1, d5, d2, d3, d4⟩ := i
  refine ⟨fun w hw => lk4 w hw hd, fun hr => ?_⟩
  have : s.slot = none := by
    cases hs : s.slot with
    | none => rfl
    | some w => exact absurd (lk4 w hs hd).1 hr
  simp [this] at acc
  exact ⟨this, acc⟩

/-! ## transitions that drop or poll the future belong to the executor thread (any program, any state) -/

theorem touch_ghost (s : RState) : (touch s).futDrops = s.futDrops ∧ (touch s).polls = s.polls ∧
    (touch s).resTaken = s.resTaken := by
  unfold touch; split <;> simp

/-- every transition that drops the future or polls it is a transition of the executor thread -/
theorem future_dropped_by_executor_only {fixed : Bool} {s s' : RState} {l : Label}
    (hs : Step fixed s l s') (hne : s'.futDrops ≠ s.futDrops ∨ s'.polls ≠ s.polls) : l.actor = .E := by
  unfold Step at hs
  have ht := touch_ghost s
  cases l <;> first
    | rfl
    | (exfalso
       simp only [step?] at hs
       split at hs
       · try simp only [hLoop, hAfterFinishTrue, afterDecH, lastOf, dropSlotOf, dropResultOf] at hs
         (repeat' (split at hs)) <;> (cases hs; simp [ht] at hne)
       · cases hs)

/-- the output is taken only by the handle thread -/
theorem result_taken_by_handle_only {fixed : Bool} {s s' : RState} {l : Label}
    (hs : Step fixed s l s') (hne : s'.resTaken ≠ s.resTaken) : l.actor = .H := by
  unfold Step at hs
  have ht := touch_ghost s
  cases l <;> first
    | rfl
    | (exfalso
       simp only [step?] at hs
       split at hs
       · try simp only [afterDecE, lastOf, dropSlotOf, dropResultOf, wakeSlotOf, eAfterShared, eAfterFuture] at hs
         (repeat' (split at hs)) <;> (cases hs; simp [ht] at hne)
       · cases hs)

/-- a concrete run as a witness: the final state is reachable through that trace and satisfies `p` -/
theorem run_witness {fixed : Bool} {ls : List Label} {p : RState → Bool}
    (h : (run fixed init ls).any p = true) :
    ∃ s : RState, Trace fixed init ls s ∧ Reachable fixed s ∧ p s = true := by
  cases hr : run fixed init ls with
  | none => simp [hr] at h
  | some s => exact ⟨s, trace_of_run hr, reachable_of_run hr, by simpa [hr] using h⟩

end Compio.RemoteJoin
