/- helper lemmas for the C17 model (Compio/Model/AsyncifyPool.lean): counting over point-updated
functions, one inversion lemma per transition, and the inductive invariant `Inv` with its preservation. -/
import Compio.Model.AsyncifyPool

namespace Compio.Asyncify

/-! ## point updates and counting -/

@[simp] theorem upd_same {α : Type} (f : Nat → α) (i : Nat) (x : α) : upd f i x i = x := by
  simp [upd]

theorem upd_ne {α : Type} (f : Nat → α) {i k : Nat} (x : α) (h : k ≠ i) : upd f i x k = f k := by
  simp [upd, h]

theorem cnt_succ {α : Type} (f : Nat → α) (p : α → Bool) (n : Nat) :
    cnt f p (n + 1) = cnt f p n + (p (f n)).toNat := by
  cases h : p (f n) <;> simp [cnt, h]

/-- `cnt` without index `i` -/
def cntEx {α : Type} (f : Nat → α) (p : α → Bool) (i : Nat) : Nat → Nat
  | 0 => 0
  | n + 1 => cntEx f p i n + (if n = i then 0 else (p (f n)).toNat)

theorem cnt_split_ge {α : Type} (f : Nat → α) (p : α → Bool) {i : Nat} :
    ∀ {n : Nat}, n ≤ i → cnt f p n = cntEx f p i n
  | 0, _ => rfl
  | n + 1, h => by
    rw [cnt_succ, cntEx, cnt_split_ge f p (show n ≤ i by omega), if_neg (by omega)]

theorem cnt_split {α : Type} (f : Nat → α) (p : α → Bool) {i : Nat} :
    ∀ {n : Nat}, i < n → cnt f p n = cntEx f p i n + (p (f i)).toNat
  | 0, h => by omega
  | n + 1, h => by
    rw [cnt_succ, cntEx]
    by_cases hn : n = i
    · subst hn
      rw [if_pos rfl, cnt_split_ge f p (Nat.le_refl _)]
      omega
    · rw [if_neg hn, cnt_split f p (show i < n by omega)]
      omega

@[simp] theorem cntEx_upd {α : Type} (f : Nat → α) (p : α → Bool) (i : Nat) (x : α) :
    ∀ n : Nat, cntEx (upd f i x) p i n = cntEx f p i n
  | 0 => rfl
  | n + 1 => by
    rw [cntEx, cntEx, cntEx_upd f p i x n]
    by_cases hn : n = i
    · rw [if_pos hn, if_pos hn]
    · rw [if_neg hn, if_neg hn, upd_ne f x hn]

/-- an update at or beyond the range is invisible -/
theorem cnt_upd_ge {α : Type} (f : Nat → α) (p : α → Bool) {i n : Nat} (x : α) (h : n ≤ i) :
    cnt (upd f i x) p n = cnt f p n := by
  rw [cnt_split_ge _ p h, cnt_split_ge f p h, cntEx_upd]

/-- a new element appended at index `n` -/
theorem cnt_push {α : Type} (f : Nat → α) (p : α → Bool) (n : Nat) (x : α) :
    cnt (upd f n x) p (n + 1) = cnt f p n + (p x).toNat := by
  rw [cnt_succ, cnt_upd_ge f p x (Nat.le_refl n), upd_same]

theorem cnt_le {α : Type} (f : Nat → α) (p : α → Bool) : ∀ n : Nat, cnt f p n ≤ n
  | 0 => Nat.le_refl 0
  | n + 1 => by
    have := cnt_le f p n
    rw [cnt_succ]
    cases p (f n) <;> simp <;> omega

theorem cnt_mono {α : Type} (f : Nat → α) (p q : α → Bool) (h : ∀ a, p a = true → q a = true) :
    ∀ n : Nat, cnt f p n ≤ cnt f q n
  | 0 => Nat.le_refl 0
  | n + 1 => by
    have ih := cnt_mono f p q h n
    rw [cnt_succ, cnt_succ]
    cases hp : p (f n)
    · simp; omega
    · rw [h _ hp]; omega

/-- `r` is the disjoint union of `p` and `q` -/
theorem cnt_add {α : Type} (f : Nat → α) (p q r : α → Bool)
    (h : ∀ a, (r a).toNat = (p a).toNat + (q a).toNat) :
    ∀ n : Nat, cnt f r n = cnt f p n + cnt f q n
  | 0 => rfl
  | n + 1 => by
    rw [cnt_succ, cnt_succ, cnt_succ, cnt_add f p q r h n, h]
    omega

theorem cnt_pos {α : Type} (f : Nat → α) (p : α → Bool) {i n : Nat} (hi : i < n) (hp : p (f i) = true) :
    1 ≤ cnt f p n := by
  rw [cnt_split f p hi, hp]
  simp

theorem cnt_zero_of {α : Type} (f : Nat → α) (p : α → Bool) :
    ∀ n : Nat, (∀ i, i < n → p (f i) = false) → cnt f p n = 0
  | 0, _ => rfl
  | n + 1, h => by
    rw [cnt_succ, cnt_zero_of f p n (fun i hi => h i (by omega)), h n (by omega)]
    rfl

theorem of_cnt_zero {α : Type} (f : Nat → α) (p : α → Bool) {n : Nat} (h : cnt f p n = 0) {i : Nat}
    (hi : i < n) : p (f i) = false := by
  cases hp : p (f i)
  · rfl
  · have := cnt_pos f p hi hp
    omega

/-! ## one inversion lemma per transition -/

theorem doSubmit_some {s s' : State} {d : Nat} {k : Kind} (h : doSubmit s d k = some s') :
    d < s.nd ∧ s.disp d = .idle ∧
    s' = { s with disp := upd s.disp d (.trying s.njobs), njobs := s.njobs + 1,
                  kind := upd s.kind s.njobs k, owner := upd s.owner s.njobs d } := by
  unfold doSubmit at h
  split at h
  · rename_i hd
    split at h
    · rename_i hi
      exact ⟨hd, hi, (Option.some.inj h).symm⟩
    · cases h
  · cases h

theorem doTrySend_some {s s' : State} {d : Nat} (h : doTrySend s d = some s') :
    d < s.nd ∧ ∃ j, s.disp d = .trying j ∧
      ((∃ w rest, s.waiting = w :: rest ∧
          s' = { s with disp := upd s.disp d .idle, wrk := upd s.wrk w (.handed j), waiting := rest }) ∨
       (s.waiting = [] ∧ s' = { s with disp := upd s.disp d (.full j) })) := by
  unfold doTrySend at h
  split at h
  · rename_i hd
    split at h
    · rename_i j hj
      refine ⟨hd, j, hj, ?_⟩
      split at h
      · rename_i w rest hw
        exact .inl ⟨w, rest, hw, (Option.some.inj h).symm⟩
      · rename_i hw
        exact .inr ⟨hw, (Option.some.inj h).symm⟩
    · cases h
  · cases h

theorem doLoad_some {s s' : State} {d : Nat} (h : doLoad s d = some s') :
    d < s.nd ∧ ∃ j, s.disp d = .full j ∧
      ((s.limit = 0 ∧ s' = { s with disp := upd s.disp d (.panicked j) }) ∨
       (s.limit ≠ 0 ∧ s.limit ≤ s.counter ∧ s' = { s with disp := upd s.disp d (.refused j) }) ∨
       (s.limit ≠ 0 ∧ s.counter < s.limit ∧ s.reserve = true ∧
          s' = { s with disp := upd s.disp d (.spawning j), counter := s.counter + 1 }) ∨
       (s.limit ≠ 0 ∧ s.counter < s.limit ∧ s.reserve = false ∧
          s' = { s with disp := upd s.disp d (.spawning j) })) := by
  unfold doLoad at h
  split at h
  · rename_i hd
    split at h
    · rename_i j hj
      refine ⟨hd, j, hj, ?_⟩
      split at h
      · rename_i h0
        exact .inl ⟨h0, (Option.some.inj h).symm⟩
      · rename_i h0
        split at h
        · rename_i hc
          exact .inr (.inl ⟨h0, hc, (Option.some.inj h).symm⟩)
        · rename_i hc
          split at h
          · rename_i hr
            exact .inr (.inr (.inl ⟨h0, by omega, hr, (Option.some.inj h).symm⟩))
          · rename_i hr
            exact .inr (.inr (.inr ⟨h0, by omega, by simpa using hr, (Option.some.inj h).symm⟩))
    · cases h
  · cases h

theorem doSpawn_some {s s' : State} {d : Nat} (h : doSpawn s d = some s') :
    d < s.nd ∧ ∃ j, s.disp d = .spawning j ∧
      s' = { s with disp := upd s.disp d (.sending j), wrk := upd s.wrk s.nw .starting, nw := s.nw + 1 } := by
  unfold doSpawn at h
  split at h
  · rename_i hd
    split at h
    · rename_i j hj
      exact ⟨hd, j, hj, (Option.some.inj h).symm⟩
    · cases h
  · cases h

theorem doSend_some {s s' : State} {d : Nat} (h : doSend s d = some s') :
    d < s.nd ∧ ∃ j, s.disp d = .sending j ∧
      ((∃ w rest, s.waiting = w :: rest ∧
          s' = { s with disp := upd s.disp d .idle, wrk := upd s.wrk w (.handed j), waiting := rest }) ∨
       (s.waiting = [] ∧ s' = { s with disp := upd s.disp d .blocked, sendq := s.sendq ++ [(d, j)] })) := by
  unfold doSend at h
  split at h
  · rename_i hd
    split at h
    · rename_i j hj
      refine ⟨hd, j, hj, ?_⟩
      split at h
      · rename_i w rest hw
        exact .inl ⟨w, rest, hw, (Option.some.inj h).symm⟩
      · rename_i hw
        exact .inr ⟨hw, (Option.some.inj h).symm⟩
    · cases h
  · cases h

theorem doRetry_some {s s' : State} {d : Nat} (h : doRetry s d = some s') :
    d < s.nd ∧ ∃ j, s.disp d = .refused j ∧ s' = { s with disp := upd s.disp d (.trying j) } := by
  unfold doRetry at h
  split at h
  · rename_i hd
    split at h
    · rename_i j hj
      exact ⟨hd, j, hj, (Option.some.inj h).symm⟩
    · cases h
  · cases h

theorem doGiveUp_some {s s' : State} {d : Nat} (h : doGiveUp s d = some s') :
    d < s.nd ∧ ∃ j,
      ((s.disp d = .refused j ∧ s' = { s with disp := upd s.disp d .idle, returned := j :: s.returned }) ∨
       (s.disp d = .panicked j ∧ s' = { s with disp := upd s.disp d .idle, dropped := j :: s.dropped })) := by
  unfold doGiveUp at h
  split at h
  · rename_i hd
    split at h
    · rename_i j hj
      exact ⟨hd, j, .inl ⟨hj, (Option.some.inj h).symm⟩⟩
    · rename_i j hj
      exact ⟨hd, j, .inr ⟨hj, (Option.some.inj h).symm⟩⟩
    · cases h
  · cases h

theorem doReap_some {s s' : State} {d : Nat} (h : doReap s d = some s') :
    ∃ e rest, takeOwned d s.completed = some (e, rest) ∧
      s' = { s with completed := rest, delivered := e :: s.delivered } := by
  unfold doReap at h
  split at h
  · rename_i e rest he
    exact ⟨e, rest, he, (Option.some.inj h).symm⟩
  · cases h

theorem doCount_some {s s' : State} {w : Nat} (h : doCount s w = some s') :
    w < s.nw ∧ s.wrk w = .starting ∧
      ((s.reserve = true ∧ s' = { s with wrk := upd s.wrk w .ready }) ∨
       (s.reserve = false ∧ s' = { s with wrk := upd s.wrk w .ready, counter := s.counter + 1 })) := by
  unfold doCount at h
  split at h
  · rename_i hw
    split at h
    · rename_i hs
      refine ⟨hw, hs, ?_⟩
      split at h
      · rename_i hr
        exact .inl ⟨hr, (Option.some.inj h).symm⟩
      · rename_i hr
        exact .inr ⟨by simpa using hr, (Option.some.inj h).symm⟩
    · cases h
  · cases h

theorem doRecv_some {s s' : State} {w : Nat} (h : doRecv s w = some s') :
    w < s.nw ∧ s.wrk w = .ready ∧
      ((∃ d j rest, s.sendq = (d, j) :: rest ∧
          s' = { s with wrk := upd s.wrk w (.running j), sendq := rest, disp := upd s.disp d .idle,
                        ran := s.ran ++ [(j, w)] }) ∨
       (s.sendq = [] ∧ s' = { s with wrk := upd s.wrk w .parked, waiting := s.waiting ++ [w] })) := by
  unfold doRecv at h
  split at h
  · rename_i hw
    split at h
    · rename_i hs
      refine ⟨hw, hs, ?_⟩
      split at h
      · rename_i d j rest hq
        exact .inl ⟨d, j, rest, hq, (Option.some.inj h).symm⟩
      · rename_i hq
        exact .inr ⟨hq, (Option.some.inj h).symm⟩
    · cases h
  · cases h

theorem doWake_some {s s' : State} {w : Nat} (h : doWake s w = some s') :
    w < s.nw ∧ ∃ j, s.wrk w = .handed j ∧
      s' = { s with wrk := upd s.wrk w (.running j), ran := s.ran ++ [(j, w)] } := by
  unfold doWake at h
  split at h
  · rename_i hw
    split at h
    · rename_i j hj
      exact ⟨hw, j, hj, (Option.some.inj h).symm⟩
    · cases h
  · cases h

theorem doTimeout_some {s s' : State} {w : Nat} (h : doTimeout s w = some s') :
    w < s.nw ∧ s.wrk w = .parked ∧
      s' = { s with wrk := upd s.wrk w .leaving, waiting := s.waiting.filter (fun x => x != w) } := by
  unfold doTimeout at h
  split at h
  · rename_i hw
    split at h
    · rename_i hs
      exact ⟨hw, hs, (Option.some.inj h).symm⟩
    · cases h
  · cases h

theorem doFinish_some {s s' : State} {w : Nat} (h : doFinish s w = some s') :
    w < s.nw ∧ ∃ j, s.wrk w = .running j ∧
      ((s.kind j = .raw ∧ s' = { s with wrk := upd s.wrk w .leaving, crashed := j :: s.crashed }) ∨
       (s.kind j ≠ .raw ∧
          s' = { s with wrk := upd s.wrk w .ready,
                        completed := s.completed ++ [{ owner := s.owner j, job := j, out := outcomeOf (s.kind j) }] })) := by
  unfold doFinish at h
  split at h
  · rename_i hw
    split at h
    · rename_i j hj
      refine ⟨hw, j, hj, ?_⟩
      split at h
      · rename_i hk
        exact .inl ⟨hk, (Option.some.inj h).symm⟩
      · rename_i hk
        exact .inr ⟨hk, (Option.some.inj h).symm⟩
    · cases h
  · cases h

theorem doExit_some {s s' : State} {w : Nat} (h : doExit s w = some s') :
    w < s.nw ∧ s.wrk w = .leaving ∧ s' = { s with wrk := upd s.wrk w .exited, counter := s.counter - 1 } := by
  unfold doExit at h
  split at h
  · rename_i hw
    split at h
    · rename_i hs
      exact ⟨hw, hs, (Option.some.inj h).symm⟩
    · cases h
  · cases h

/-! ## the inductive invariant -/

theorem toNat_ite (b : Bool) : b.toNat = if b = true then 1 else 0 := by cases b <;> rfl

def DState.isBlocked : DState → Bool
  | .blocked => true
  | _ => false

/-- the inductive invariant of the pool model -/
structure Inv (s : State) : Prop where
  wait_parked : ∀ w, w ∈ s.waiting → w < s.nw ∧ s.wrk w = .parked
  parked_wait : ∀ w, w < s.nw → s.wrk w = .parked → w ∈ s.waiting
  wait_nodup : s.waiting.Nodup
  sendq_blocked : ∀ d j, (d, j) ∈ s.sendq → d < s.nd ∧ s.disp d = .blocked
  sendq_nodup : (s.sendq.map Prod.fst).Nodup
  chan : s.waiting ≠ [] → s.sendq = []
  place : ∀ j, holders s j = if j < s.njobs then 1 else 0
  started : ∀ j, ranCount s j = cnt s.wrk (WState.runs j) s.nw + s.completed.countP (fun e => e.job == j)
      + s.delivered.countP (fun e => e.job == j) + s.crashed.count j
  counter_raw : s.reserve = false → s.counter = cnt s.wrk WState.counted s.nw
  counter_res : s.reserve = true → s.counter = cnt s.wrk WState.alive s.nw + cnt s.disp DState.isSpawning s.nd
  res_limit : s.reserve = true → s.counter ≤ s.limit

/-! ### the waiting queue -/

/-- updating a worker that is not parked (before and after) to something not parked, shrinking the queue -/
theorem wait_parked_upd {s : State} (hI : Inv s) {w : Nat} {x : WState} {W' : List Nat}
    (hsub : ∀ w', w' ∈ W' → w' ∈ s.waiting ∧ w' ≠ w) :
    ∀ w', w' ∈ W' → w' < s.nw ∧ upd s.wrk w x w' = .parked := by
  intro w' hw'
  obtain ⟨hin, hne⟩ := hsub w' hw'
  rw [upd_ne _ _ hne]
  exact hI.wait_parked w' hin

theorem not_mem_waiting {s : State} (hI : Inv s) {w : Nat} (h : s.wrk w ≠ .parked) : w ∉ s.waiting :=
  fun hm => h (hI.wait_parked w hm).2

theorem waiting_ne {s : State} (hI : Inv s) {w w' : Nat} (h : s.wrk w ≠ .parked) (hm : w' ∈ s.waiting) : w' ≠ w := by
  intro he; subst he; exact not_mem_waiting hI h hm

/-- a worker state change `x` (not parked) at a worker that was not parked keeps the queue facts -/
theorem waitInv_upd_other {s : State} (hI : Inv s) {w : Nat} {x : WState} (hw : s.wrk w ≠ .parked) (hx : x ≠ .parked) :
    (∀ w', w' ∈ s.waiting → w' < s.nw ∧ upd s.wrk w x w' = .parked) ∧
    (∀ w', w' < s.nw → upd s.wrk w x w' = .parked → w' ∈ s.waiting) := by
  refine ⟨wait_parked_upd hI (fun w' h' => ⟨h', waiting_ne hI hw h'⟩), ?_⟩
  intro w' hlt hp
  by_cases he : w' = w
  · subst he; rw [upd_same] at hp; exact absurd hp hx
  · rw [upd_ne _ _ he] at hp; exact hI.parked_wait w' hlt hp

/-- popping the head of the queue and handing it a job -/
theorem waitInv_pop {s : State} (hI : Inv s) {w : Nat} {rest : List Nat} {x : WState} (hw : s.waiting = w :: rest)
    (hx : x ≠ .parked) :
    (∀ w', w' ∈ rest → w' < s.nw ∧ upd s.wrk w x w' = .parked) ∧
    (∀ w', w' < s.nw → upd s.wrk w x w' = .parked → w' ∈ rest) ∧ rest.Nodup := by
  have hnd := hI.wait_nodup
  rw [hw] at hnd
  have hnd' := List.nodup_cons.mp hnd
  refine ⟨wait_parked_upd hI (fun w' h' => ⟨by rw [hw]; exact List.mem_cons_of_mem _ h', ?_⟩), ?_, hnd'.2⟩
  · intro he; subst he; exact hnd'.1 h'
  · intro w' hlt hp
    by_cases he : w' = w
    · subst he; rw [upd_same] at hp; exact absurd hp hx
    · rw [upd_ne _ _ he] at hp
      have := hI.parked_wait w' hlt hp
      rw [hw] at this
      rcases List.mem_cons.mp this with h1 | h1
      · exact absurd h1 he
      · exact h1

macro "ite_omega" : tactic => `(tactic| ((repeat' split) <;> intros <;> omega))

/-- normalise indicator terms so that `omega` (after splitting the `if`s) can finish -/
macro "cnt_norm" loc:(Lean.Parser.Tactic.location)? : tactic =>
  `(tactic| simp only [cntEx_upd, upd_same, cnt_push, DState.holds, WState.holds, WState.runs, WState.counted,
      WState.alive, WState.isStarting, WState.isRunning, DState.isSpawning, DState.isBlocked, toNat_ite,
      beq_iff_eq, Bool.false_eq_true, ↓reduceIte, List.countP_cons, List.countP_append, List.countP_nil,
      List.count_cons, List.count_nil, List.length_append, List.length_cons, List.length_nil] $(loc)?)

theorem sendq_blocked_upd {s : State} (hI : Inv s) {d : Nat} {x : DState} (hne : s.disp d ≠ .blocked) :
    ∀ d' j', (d', j') ∈ s.sendq → d' < s.nd ∧ upd s.disp d x d' = .blocked := by
  intro d' j' hm
  obtain ⟨h1, h2⟩ := hI.sendq_blocked d' j' hm
  have : d' ≠ d := by intro he; subst he; exact hne h2
  exact ⟨h1, by rw [upd_ne _ _ this]; exact h2⟩

theorem inv_submit {s s' : State} {d : Nat} {k : Kind} (hI : Inv s) (h : doSubmit s d k = some s') : Inv s' := by
  obtain ⟨hd, hdisp, rfl⟩ := doSubmit_some h
  refine { wait_parked := hI.wait_parked, parked_wait := hI.parked_wait, wait_nodup := hI.wait_nodup,
           sendq_blocked := sendq_blocked_upd hI (by rw [hdisp]; simp), sendq_nodup := hI.sendq_nodup,
           chan := hI.chan, place := ?_, started := hI.started,
           counter_raw := hI.counter_raw, counter_res := ?_, res_limit := hI.res_limit }
  · intro j'
    have hp := hI.place j'
    unfold holders at hp ⊢
    simp only [cnt_split _ _ hd, hdisp, cntEx_upd, upd_same] at hp ⊢
    cnt_norm at hp ⊢
    revert hp; ite_omega
  · intro hr
    have hc := hI.counter_res hr
    simp only [cnt_split _ _ hd, hdisp, cntEx_upd, upd_same] at hc ⊢
    cnt_norm at hc ⊢
    omega

/-- a job handed to the head of the waiting queue (by `try_send` or by `send`) -/
theorem inv_hand {s : State} {d w j : Nat} {rest : List Nat} {x : DState} (hI : Inv s) (hd : d < s.nd)
    (hx : s.disp d = x) (hxh : ∀ j', DState.holds j' x = (j == j')) (hxs : DState.isSpawning x = false)
    (hxb : x ≠ .blocked) (hw : s.waiting = w :: rest) :
    Inv { s with disp := upd s.disp d .idle, wrk := upd s.wrk w (.handed j), waiting := rest } := by
  have hww := hI.wait_parked w (by simp [hw])
  obtain ⟨w1, w2, w3⟩ := waitInv_pop (x := .handed j) hI hw (by simp)
  have hq : s.sendq = [] := hI.chan (by simp [hw])
  refine { wait_parked := w1, parked_wait := w2, wait_nodup := w3,
           sendq_blocked := sendq_blocked_upd hI (by rw [hx]; exact hxb), sendq_nodup := hI.sendq_nodup,
           chan := fun _ => hq, place := ?_, started := ?_,
           counter_raw := ?_, counter_res := ?_, res_limit := hI.res_limit }
  · intro j'
    have hp := hI.place j'
    unfold holders at hp ⊢
    simp only [cnt_split _ _ hd, cnt_split _ _ hww.1, cntEx_upd, upd_same, hx, hxh, hww.2] at hp ⊢
    cnt_norm at hp ⊢
    revert hp; ite_omega
  · intro j'
    have hp := hI.started j'
    unfold ranCount at hp ⊢
    simp only [cnt_split _ _ hww.1, hww.2, cntEx_upd, upd_same] at hp ⊢
    cnt_norm at hp ⊢
    omega
  · intro hr
    have hc := hI.counter_raw hr
    simp only [cnt_split _ _ hww.1, hww.2, cntEx_upd, upd_same] at hc ⊢
    cnt_norm at hc ⊢
    omega
  · intro hr
    have hc := hI.counter_res hr
    simp only [cnt_split _ _ hd, cnt_split _ _ hww.1, cntEx_upd, upd_same, hx, hxs, hww.2] at hc ⊢
    cnt_norm at hc ⊢
    omega

/-- the dispatcher moves on with its job in hand (no other component changes) -/
theorem inv_dispOnly {s : State} {d j : Nat} {x y : DState} (hI : Inv s) (hd : d < s.nd)
    (hx : s.disp d = x) (hxh : ∀ j', DState.holds j' x = (j == j')) (hyh : ∀ j', DState.holds j' y = (j == j'))
    (hxb : x ≠ .blocked) (hs : DState.isSpawning x = DState.isSpawning y) :
    Inv { s with disp := upd s.disp d y } := by
  refine { wait_parked := hI.wait_parked, parked_wait := hI.parked_wait, wait_nodup := hI.wait_nodup,
           sendq_blocked := sendq_blocked_upd hI (by rw [hx]; exact hxb), sendq_nodup := hI.sendq_nodup,
           chan := hI.chan, place := ?_, started := hI.started,
           counter_raw := hI.counter_raw, counter_res := ?_, res_limit := hI.res_limit }
  · intro j'
    have hp := hI.place j'
    unfold holders at hp ⊢
    simp only [cnt_split _ _ hd, cntEx_upd, upd_same, hx, hxh, hyh] at hp ⊢
    cnt_norm at hp ⊢
    revert hp; ite_omega
  · intro hr
    have hc := hI.counter_res hr
    simp only [cnt_split _ _ hd, cntEx_upd, upd_same, hx, hs] at hc ⊢
    omega

theorem inv_trySend {s s' : State} {d : Nat} (hI : Inv s) (h : doTrySend s d = some s') : Inv s' := by
  obtain ⟨hd, j, hj, (⟨w, rest, hw, rfl⟩ | ⟨_, rfl⟩)⟩ := doTrySend_some h
  · exact inv_hand hI hd hj (by intro j'; rfl) rfl (by simp) hw
  · exact inv_dispOnly hI hd hj (by intro j'; rfl) (by intro j'; rfl) (by simp) rfl


theorem inv_load {s s' : State} {d : Nat} (hI : Inv s) (h : doLoad s d = some s') : Inv s' := by
  obtain ⟨hd, j, hj, (⟨_, rfl⟩ | ⟨_, _, rfl⟩ | ⟨_, hlt, hr, rfl⟩ | ⟨_, _, hr, rfl⟩)⟩ := doLoad_some h
  · exact inv_dispOnly hI hd hj (by intro j'; rfl) (by intro j'; rfl) (by simp) rfl
  · exact inv_dispOnly hI hd hj (by intro j'; rfl) (by intro j'; rfl) (by simp) rfl
  · -- the slot is reserved together with the limit check
    refine { wait_parked := hI.wait_parked, parked_wait := hI.parked_wait, wait_nodup := hI.wait_nodup,
             sendq_blocked := sendq_blocked_upd hI (by rw [hj]; simp), sendq_nodup := hI.sendq_nodup,
             chan := hI.chan, place := ?_, started := hI.started,
             counter_raw := ?_, counter_res := ?_, res_limit := ?_ }
    · intro j'
      have hp := hI.place j'
      unfold holders at hp ⊢
      simp only [cnt_split _ _ hd, cntEx_upd, upd_same, hj] at hp ⊢
      cnt_norm at hp ⊢
      revert hp; ite_omega
    · intro hf; rw [show s.reserve = true from hr] at hf; cases hf
    · intro _
      have hc := hI.counter_res hr
      simp only [cnt_split _ _ hd, cntEx_upd, upd_same, hj] at hc ⊢
      cnt_norm at hc ⊢
      omega
    · intro _
      show s.counter + 1 ≤ s.limit
      omega
  · refine { wait_parked := hI.wait_parked, parked_wait := hI.parked_wait, wait_nodup := hI.wait_nodup,
             sendq_blocked := sendq_blocked_upd hI (by rw [hj]; simp), sendq_nodup := hI.sendq_nodup,
             chan := hI.chan, place := ?_, started := hI.started,
             counter_raw := hI.counter_raw, counter_res := ?_, res_limit := hI.res_limit }
    · intro j'
      have hp := hI.place j'
      unfold holders at hp ⊢
      simp only [cnt_split _ _ hd, cntEx_upd, upd_same, hj] at hp ⊢
      cnt_norm at hp ⊢
      revert hp; ite_omega
    · intro hf; rw [show s.reserve = false from hr] at hf; cases hf

theorem inv_spawn {s s' : State} {d : Nat} (hI : Inv s) (h : doSpawn s d = some s') : Inv s' := by
  obtain ⟨hd, j, hj, rfl⟩ := doSpawn_some h
  refine { wait_parked := ?_, parked_wait := ?_, wait_nodup := hI.wait_nodup,
           sendq_blocked := sendq_blocked_upd hI (by rw [hj]; simp), sendq_nodup := hI.sendq_nodup,
           chan := hI.chan, place := ?_, started := ?_,
           counter_raw := ?_, counter_res := ?_, res_limit := hI.res_limit }
  · intro w' hm
    obtain ⟨h1, h2⟩ := hI.wait_parked w' hm
    refine ⟨Nat.lt_succ_of_lt h1, ?_⟩
    show upd s.wrk s.nw .starting w' = .parked
    rw [upd_ne _ _ (by omega)]; exact h2
  · intro w' hlt hp
    have hp' : upd s.wrk s.nw .starting w' = .parked := hp
    by_cases he : w' = s.nw
    · subst he; rw [upd_same] at hp'; cases hp'
    · rw [upd_ne _ _ he] at hp'
      exact hI.parked_wait w' (by have : w' < s.nw + 1 := hlt; omega) hp'
  · intro j'
    have hp := hI.place j'
    unfold holders at hp ⊢
    simp only [cnt_split _ _ hd, cntEx_upd, upd_same, cnt_push, hj] at hp ⊢
    cnt_norm at hp ⊢
    revert hp; ite_omega
  · intro j'
    have hp := hI.started j'
    unfold ranCount at hp ⊢
    simp only [cnt_push] at hp ⊢
    cnt_norm at hp ⊢
    omega
  · intro hr
    have hc := hI.counter_raw hr
    simp only [cnt_push] at hc ⊢
    cnt_norm at hc ⊢
    omega
  · intro hr
    have hc := hI.counter_res hr
    simp only [cnt_split _ _ hd, cntEx_upd, upd_same, cnt_push, hj] at hc ⊢
    cnt_norm at hc ⊢
    omega

theorem inv_send {s s' : State} {d : Nat} (hI : Inv s) (h : doSend s d = some s') : Inv s' := by
  obtain ⟨hd, j, hj, (⟨w, rest, hw, rfl⟩ | ⟨hw, rfl⟩)⟩ := doSend_some h
  · exact inv_hand hI hd hj (by intro j'; rfl) rfl (by simp) hw
  · have hnb : s.disp d ≠ .blocked := by rw [hj]; simp
    have hdq : d ∉ s.sendq.map Prod.fst := by
      intro hm
      obtain ⟨⟨d', j'⟩, hm', he⟩ := List.mem_map.mp hm
      simp only at he; subst he
      exact hnb (hI.sendq_blocked _ _ hm').2
    refine { wait_parked := hI.wait_parked, parked_wait := hI.parked_wait, wait_nodup := hI.wait_nodup,
             sendq_blocked := ?_, sendq_nodup := ?_,
             chan := fun hne => absurd hw hne, place := ?_, started := hI.started,
             counter_raw := hI.counter_raw, counter_res := ?_, res_limit := hI.res_limit }
    · intro d' j' hm
      rcases List.mem_append.mp hm with h1 | h1
      · exact sendq_blocked_upd hI hnb d' j' h1
      · simp only [List.mem_singleton, Prod.mk.injEq] at h1
        obtain ⟨rfl, rfl⟩ := h1
        exact ⟨hd, upd_same _ _ _⟩
    · show ((s.sendq ++ [(d, j)]).map Prod.fst).Nodup
      rw [List.map_append, List.nodup_append]
      refine ⟨hI.sendq_nodup, by simp, ?_⟩
      intro a ha b hb
      simp only [List.map_cons, List.map_nil, List.mem_singleton] at hb
      subst hb
      intro he; subst he; exact hdq ha
    · intro j'
      have hp := hI.place j'
      unfold holders at hp ⊢
      simp only [cnt_split _ _ hd, cntEx_upd, upd_same, hj] at hp ⊢
      cnt_norm at hp ⊢
      revert hp; ite_omega
    · intro hr
      have hc := hI.counter_res hr
      simp only [cnt_split _ _ hd, cntEx_upd, upd_same, hj] at hc ⊢
      cnt_norm at hc ⊢
      omega

theorem inv_retry {s s' : State} {d : Nat} (hI : Inv s) (h : doRetry s d = some s') : Inv s' := by
  obtain ⟨hd, j, hj, rfl⟩ := doRetry_some h
  exact inv_dispOnly hI hd hj (by intro j'; rfl) (by intro j'; rfl) (by simp) rfl

theorem inv_giveUp {s s' : State} {d : Nat} (hI : Inv s) (h : doGiveUp s d = some s') : Inv s' := by
  obtain ⟨hd, j, (⟨hj, rfl⟩ | ⟨hj, rfl⟩)⟩ := doGiveUp_some h
  all_goals
    refine { wait_parked := hI.wait_parked, parked_wait := hI.parked_wait, wait_nodup := hI.wait_nodup,
             sendq_blocked := sendq_blocked_upd hI (by rw [hj]; simp), sendq_nodup := hI.sendq_nodup,
             chan := hI.chan, place := ?_, started := hI.started,
             counter_raw := hI.counter_raw, counter_res := ?_, res_limit := hI.res_limit }
  all_goals first
    | (intro j'
       have hp := hI.place j'
       unfold holders at hp ⊢
       simp only [cnt_split _ _ hd, cntEx_upd, upd_same, hj] at hp ⊢
       cnt_norm at hp ⊢
       revert hp; ite_omega)
    | (intro hr
       have hc := hI.counter_res hr
       simp only [cnt_split _ _ hd, cntEx_upd, upd_same, hj] at hc ⊢
       cnt_norm at hc ⊢
       omega)

theorem takeOwned_countP (p : Done → Bool) (d : Nat) :
    ∀ (l : List Done) (e : Done) (rest : List Done), takeOwned d l = some (e, rest) →
      l.countP p = rest.countP p + (p e).toNat ∧ e.owner = d
  | [], e, rest, h => by simp [takeOwned] at h
  | a :: l, e, rest, h => by
    unfold takeOwned at h
    split at h
    · rename_i ho
      simp only [Option.some.injEq, Prod.mk.injEq] at h
      obtain ⟨rfl, rfl⟩ := h
      refine ⟨?_, ho⟩
      rw [List.countP_cons, toNat_ite]
    · split at h
      · rename_i x r hx
        simp only [Option.some.injEq, Prod.mk.injEq] at h
        obtain ⟨rfl, rfl⟩ := h
        obtain ⟨h1, h2⟩ := takeOwned_countP p d l x r hx
        refine ⟨?_, h2⟩
        rw [List.countP_cons, List.countP_cons, h1]
        omega
      · cases h

theorem inv_reap {s s' : State} {d : Nat} (hI : Inv s) (h : doReap s d = some s') : Inv s' := by
  obtain ⟨e, rest, he, rfl⟩ := doReap_some h
  refine { wait_parked := hI.wait_parked, parked_wait := hI.parked_wait, wait_nodup := hI.wait_nodup,
           sendq_blocked := hI.sendq_blocked, sendq_nodup := hI.sendq_nodup,
           chan := hI.chan, place := ?_, started := ?_,
           counter_raw := hI.counter_raw, counter_res := hI.counter_res, res_limit := hI.res_limit }
  · intro j'
    have hp := hI.place j'
    have hc := (takeOwned_countP (fun e => e.job == j') d _ _ _ he).1
    unfold holders at hp ⊢
    simp only [hc] at hp
    cnt_norm at hp ⊢
    revert hp; ite_omega
  · intro j'
    have hp := hI.started j'
    have hc := (takeOwned_countP (fun e => e.job == j') d _ _ _ he).1
    unfold ranCount at hp ⊢
    simp only [hc] at hp
    cnt_norm at hp ⊢
    revert hp; ite_omega


theorem inv_count {s s' : State} {w : Nat} (hI : Inv s) (h : doCount s w = some s') : Inv s' := by
  obtain ⟨hw, hs, (⟨hr, rfl⟩ | ⟨hr, rfl⟩)⟩ := doCount_some h
  · obtain ⟨w1, w2⟩ := waitInv_upd_other (x := .ready) hI (by rw [hs]; simp) (by simp)
    refine { wait_parked := w1, parked_wait := w2, wait_nodup := hI.wait_nodup,
             sendq_blocked := hI.sendq_blocked, sendq_nodup := hI.sendq_nodup,
             chan := hI.chan, place := ?_, started := ?_,
             counter_raw := ?_, counter_res := ?_, res_limit := hI.res_limit }
    · intro j'
      have hp := hI.place j'
      unfold holders at hp ⊢
      simp only [cnt_split _ _ hw, cntEx_upd, upd_same, hs] at hp ⊢
      cnt_norm at hp ⊢
      revert hp; ite_omega
    · intro j'
      have hp := hI.started j'
      unfold ranCount at hp ⊢
      simp only [cnt_split _ _ hw, cntEx_upd, upd_same, hs] at hp ⊢
      cnt_norm at hp ⊢
      omega
    · intro hf; rw [show s.reserve = true from hr] at hf; cases hf
    · intro hr'
      have hc := hI.counter_res hr'
      simp only [cnt_split _ _ hw, cntEx_upd, upd_same, hs] at hc ⊢
      cnt_norm at hc ⊢
      omega
  · obtain ⟨w1, w2⟩ := waitInv_upd_other (x := .ready) hI (by rw [hs]; simp) (by simp)
    refine { wait_parked := w1, parked_wait := w2, wait_nodup := hI.wait_nodup,
             sendq_blocked := hI.sendq_blocked, sendq_nodup := hI.sendq_nodup,
             chan := hI.chan, place := ?_, started := ?_,
             counter_raw := ?_, counter_res := ?_, res_limit := ?_ }
    · intro j'
      have hp := hI.place j'
      unfold holders at hp ⊢
      simp only [cnt_split _ _ hw, cntEx_upd, upd_same, hs] at hp ⊢
      cnt_norm at hp ⊢
      revert hp; ite_omega
    · intro j'
      have hp := hI.started j'
      unfold ranCount at hp ⊢
      simp only [cnt_split _ _ hw, cntEx_upd, upd_same, hs] at hp ⊢
      cnt_norm at hp ⊢
      omega
    · intro hr'
      have hc := hI.counter_raw hr'
      simp only [cnt_split _ _ hw, cntEx_upd, upd_same, hs] at hc ⊢
      cnt_norm at hc ⊢
      omega
    · intro hf; rw [show s.reserve = false from hr] at hf; cases hf
    · intro hf; rw [show s.reserve = false from hr] at hf; cases hf

theorem inv_recv {s s' : State} {w : Nat} (hI : Inv s) (h : doRecv s w = some s') : Inv s' := by
  obtain ⟨hw, hs, (⟨d, j, rest, hq, rfl⟩ | ⟨hq, rfl⟩)⟩ := doRecv_some h
  · -- a blocked sender is served
    obtain ⟨w1, w2⟩ := waitInv_upd_other (x := .running j) hI (by rw [hs]; simp) (by simp)
    obtain ⟨hd, hb⟩ := hI.sendq_blocked d j (by rw [hq]; simp)
    have hwe : s.waiting = [] := by
      cases hwt : s.waiting with
      | nil => rfl
      | cons a l => have := hI.chan (by rw [hwt]; simp); rw [hq] at this; cases this
    have hnd := hI.sendq_nodup
    rw [hq, List.map_cons, List.nodup_cons] at hnd
    refine { wait_parked := w1, parked_wait := w2, wait_nodup := hI.wait_nodup,
             sendq_blocked := ?_, sendq_nodup := hnd.2,
             chan := fun hne => absurd hwe hne, place := ?_, started := ?_,
             counter_raw := ?_, counter_res := ?_, res_limit := hI.res_limit }
    · intro d' j' hm
      obtain ⟨h1, h2⟩ := hI.sendq_blocked d' j' (by rw [hq]; exact List.mem_cons_of_mem _ hm)
      have hne : d' ≠ d := by
        intro he; subst he
        exact hnd.1 (List.mem_map.mpr ⟨(d', j'), hm, rfl⟩)
      exact ⟨h1, by show upd s.disp d .idle d' = _; rw [upd_ne _ _ hne]; exact h2⟩
    · intro j'
      have hp := hI.place j'
      unfold holders at hp ⊢
      simp only [cnt_split _ _ hd, cnt_split _ _ hw, cntEx_upd, upd_same, hs, hb, hq] at hp ⊢
      cnt_norm at hp ⊢
      revert hp; ite_omega
    · intro j'
      have hp := hI.started j'
      unfold ranCount at hp ⊢
      simp only [cnt_split _ _ hw, cntEx_upd, upd_same, hs] at hp ⊢
      cnt_norm at hp ⊢
      revert hp; ite_omega
    · intro hr'
      have hc := hI.counter_raw hr'
      simp only [cnt_split _ _ hw, cntEx_upd, upd_same, hs] at hc ⊢
      cnt_norm at hc ⊢
      omega
    · intro hr'
      have hc := hI.counter_res hr'
      simp only [cnt_split _ _ hd, cnt_split _ _ hw, cntEx_upd, upd_same, hs, hb] at hc ⊢
      cnt_norm at hc ⊢
      omega
  · -- nothing pending: park
    have hnw : w ∉ s.waiting := not_mem_waiting hI (by rw [hs]; simp)
    refine { wait_parked := ?_, parked_wait := ?_, wait_nodup := ?_,
             sendq_blocked := hI.sendq_blocked, sendq_nodup := hI.sendq_nodup,
             chan := fun _ => hq, place := ?_, started := ?_,
             counter_raw := ?_, counter_res := ?_, res_limit := hI.res_limit }
    · intro w' hm
      rcases List.mem_append.mp hm with h1 | h1
      · obtain ⟨a, b⟩ := hI.wait_parked w' h1
        have hne : w' ≠ w := by intro he; subst he; exact hnw h1
        exact ⟨a, by show upd s.wrk w .parked w' = _; rw [upd_ne _ _ hne]; exact b⟩
      · simp only [List.mem_singleton] at h1; subst h1
        exact ⟨hw, upd_same _ _ _⟩
    · intro w' hlt hp
      have hp' : upd s.wrk w .parked w' = .parked := hp
      by_cases he : w' = w
      · subst he; exact List.mem_append.mpr (.inr (by simp))
      · rw [upd_ne _ _ he] at hp'
        exact List.mem_append.mpr (.inl (hI.parked_wait w' hlt hp'))
    · show (s.waiting ++ [w]).Nodup
      rw [List.nodup_append]
      refine ⟨hI.wait_nodup, by simp, ?_⟩
      intro a ha b hb
      simp only [List.mem_singleton] at hb; subst hb
      intro he; subst he; exact hnw ha
    · intro j'
      have hp := hI.place j'
      unfold holders at hp ⊢
      simp only [cnt_split _ _ hw, cntEx_upd, upd_same, hs] at hp ⊢
      cnt_norm at hp ⊢
      revert hp; ite_omega
    · intro j'
      have hp := hI.started j'
      unfold ranCount at hp ⊢
      simp only [cnt_split _ _ hw, cntEx_upd, upd_same, hs] at hp ⊢
      cnt_norm at hp ⊢
      omega
    · intro hr'
      have hc := hI.counter_raw hr'
      simp only [cnt_split _ _ hw, cntEx_upd, upd_same, hs] at hc ⊢
      cnt_norm at hc ⊢
      omega
    · intro hr'
      have hc := hI.counter_res hr'
      simp only [cnt_split _ _ hw, cntEx_upd, upd_same, hs] at hc ⊢
      cnt_norm at hc ⊢
      omega

theorem inv_wake {s s' : State} {w : Nat} (hI : Inv s) (h : doWake s w = some s') : Inv s' := by
  obtain ⟨hw, j, hs, rfl⟩ := doWake_some h
  obtain ⟨w1, w2⟩ := waitInv_upd_other (x := .running j) hI (by rw [hs]; simp) (by simp)
  refine { wait_parked := w1, parked_wait := w2, wait_nodup := hI.wait_nodup,
           sendq_blocked := hI.sendq_blocked, sendq_nodup := hI.sendq_nodup,
           chan := hI.chan, place := ?_, started := ?_,
           counter_raw := ?_, counter_res := ?_, res_limit := hI.res_limit }
  · intro j'
    have hp := hI.place j'
    unfold holders at hp ⊢
    simp only [cnt_split _ _ hw, cntEx_upd, upd_same, hs] at hp ⊢
    cnt_norm at hp ⊢
    revert hp; ite_omega
  · intro j'
    have hp := hI.started j'
    unfold ranCount at hp ⊢
    simp only [cnt_split _ _ hw, cntEx_upd, upd_same, hs] at hp ⊢
    cnt_norm at hp ⊢
    revert hp; ite_omega
  · intro hr'
    have hc := hI.counter_raw hr'
    simp only [cnt_split _ _ hw, cntEx_upd, upd_same, hs] at hc ⊢
    cnt_norm at hc ⊢
    omega
  · intro hr'
    have hc := hI.counter_res hr'
    simp only [cnt_split _ _ hw, cntEx_upd, upd_same, hs] at hc ⊢
    cnt_norm at hc ⊢
    omega

theorem inv_timeout {s s' : State} {w : Nat} (hI : Inv s) (h : doTimeout s w = some s') : Inv s' := by
  obtain ⟨hw, hs, rfl⟩ := doTimeout_some h
  refine { wait_parked := ?_, parked_wait := ?_, wait_nodup := hI.wait_nodup.filter _,
           sendq_blocked := hI.sendq_blocked, sendq_nodup := hI.sendq_nodup,
           chan := ?_, place := ?_, started := ?_,
           counter_raw := ?_, counter_res := ?_, res_limit := hI.res_limit }
  · refine wait_parked_upd hI (fun w' hm => ?_)
    obtain ⟨h1, h2⟩ := List.mem_filter.mp hm
    exact ⟨h1, by simpa using h2⟩
  · intro w' hlt hp
    have hp' : upd s.wrk w .leaving w' = .parked := hp
    by_cases he : w' = w
    · subst he; rw [upd_same] at hp'; cases hp'
    · rw [upd_ne _ _ he] at hp'
      exact List.mem_filter.mpr ⟨hI.parked_wait w' hlt hp', by simpa using he⟩
  · intro hne
    apply hI.chan
    intro he
    apply hne
    show s.waiting.filter _ = []
    rw [he]; rfl
  · intro j'
    have hp := hI.place j'
    unfold holders at hp ⊢
    simp only [cnt_split _ _ hw, cntEx_upd, upd_same, hs] at hp ⊢
    cnt_norm at hp ⊢
    revert hp; ite_omega
  · intro j'
    have hp := hI.started j'
    unfold ranCount at hp ⊢
    simp only [cnt_split _ _ hw, cntEx_upd, upd_same, hs] at hp ⊢
    cnt_norm at hp ⊢
    omega
  · intro hr'
    have hc := hI.counter_raw hr'
    simp only [cnt_split _ _ hw, cntEx_upd, upd_same, hs] at hc ⊢
    cnt_norm at hc ⊢
    omega
  · intro hr'
    have hc := hI.counter_res hr'
    simp only [cnt_split _ _ hw, cntEx_upd, upd_same, hs] at hc ⊢
    cnt_norm at hc ⊢
    omega

theorem inv_finish {s s' : State} {w : Nat} (hI : Inv s) (h : doFinish s w = some s') : Inv s' := by
  obtain ⟨hw, j, hs, (⟨_, rfl⟩ | ⟨_, rfl⟩)⟩ := doFinish_some h
  · obtain ⟨w1, w2⟩ := waitInv_upd_other (x := .leaving) hI (by rw [hs]; simp) (by simp)
    refine { wait_parked := w1, parked_wait := w2, wait_nodup := hI.wait_nodup,
             sendq_blocked := hI.sendq_blocked, sendq_nodup := hI.sendq_nodup,
             chan := hI.chan, place := ?_, started := ?_,
             counter_raw := ?_, counter_res := ?_, res_limit := hI.res_limit }
    · intro j'
      have hp := hI.place j'
      unfold holders at hp ⊢
      simp only [cnt_split _ _ hw, cntEx_upd, upd_same, hs] at hp ⊢
      cnt_norm at hp ⊢
      revert hp; ite_omega
    · intro j'
      have hp := hI.started j'
      unfold ranCount at hp ⊢
      simp only [cnt_split _ _ hw, cntEx_upd, upd_same, hs] at hp ⊢
      cnt_norm at hp ⊢
      revert hp; ite_omega
    · intro hr'
      have hc := hI.counter_raw hr'
      simp only [cnt_split _ _ hw, cntEx_upd, upd_same, hs] at hc ⊢
      cnt_norm at hc ⊢
      omega
    · intro hr'
      have hc := hI.counter_res hr'
      simp only [cnt_split _ _ hw, cntEx_upd, upd_same, hs] at hc ⊢
      cnt_norm at hc ⊢
      omega
  · obtain ⟨w1, w2⟩ := waitInv_upd_other (x := .ready) hI (by rw [hs]; simp) (by simp)
    refine { wait_parked := w1, parked_wait := w2, wait_nodup := hI.wait_nodup,
             sendq_blocked := hI.sendq_blocked, sendq_nodup := hI.sendq_nodup,
             chan := hI.chan, place := ?_, started := ?_,
             counter_raw := ?_, counter_res := ?_, res_limit := hI.res_limit }
    · intro j'
      have hp := hI.place j'
      unfold holders at hp ⊢
      simp only [cnt_split _ _ hw, cntEx_upd, upd_same, hs] at hp ⊢
      cnt_norm at hp ⊢
      revert hp; ite_omega
    · intro j'
      have hp := hI.started j'
      unfold ranCount at hp ⊢
      simp only [cnt_split _ _ hw, cntEx_upd, upd_same, hs] at hp ⊢
      cnt_norm at hp ⊢
      revert hp; ite_omega
    · intro hr'
      have hc := hI.counter_raw hr'
      simp only [cnt_split _ _ hw, cntEx_upd, upd_same, hs] at hc ⊢
      cnt_norm at hc ⊢
      omega
    · intro hr'
      have hc := hI.counter_res hr'
      simp only [cnt_split _ _ hw, cntEx_upd, upd_same, hs] at hc ⊢
      cnt_norm at hc ⊢
      omega

theorem inv_exit {s s' : State} {w : Nat} (hI : Inv s) (h : doExit s w = some s') : Inv s' := by
  obtain ⟨hw, hs, rfl⟩ := doExit_some h
  obtain ⟨w1, w2⟩ := waitInv_upd_other (x := .exited) hI (by rw [hs]; simp) (by simp)
  refine { wait_parked := w1, parked_wait := w2, wait_nodup := hI.wait_nodup,
           sendq_blocked := hI.sendq_blocked, sendq_nodup := hI.sendq_nodup,
           chan := hI.chan, place := ?_, started := ?_,
           counter_raw := ?_, counter_res := ?_, res_limit := ?_ }
  · intro j'
    have hp := hI.place j'
    unfold holders at hp ⊢
    simp only [cnt_split _ _ hw, cntEx_upd, upd_same, hs] at hp ⊢
    cnt_norm at hp ⊢
    revert hp; ite_omega
  · intro j'
    have hp := hI.started j'
    unfold ranCount at hp ⊢
    simp only [cnt_split _ _ hw, cntEx_upd, upd_same, hs] at hp ⊢
    cnt_norm at hp ⊢
    omega
  · intro hr'
    have hc := hI.counter_raw hr'
    simp only [cnt_split _ _ hw, cntEx_upd, upd_same, hs] at hc ⊢
    cnt_norm at hc ⊢
    omega
  · intro hr'
    have hc := hI.counter_res hr'
    simp only [cnt_split _ _ hw, cntEx_upd, upd_same, hs] at hc ⊢
    cnt_norm at hc ⊢
    omega
  · intro hr'
    have := hI.res_limit hr'
    show s.counter - 1 ≤ s.limit
    omega

theorem inv_step {s s' : State} {e : Event} (hI : Inv s) (h : step? s e = some s') : Inv s' := by
  cases e with
  | submit d k => exact inv_submit hI h
  | trySend d => exact inv_trySend hI h
  | load d => exact inv_load hI h
  | spawn d => exact inv_spawn hI h
  | send d => exact inv_send hI h
  | retry d => exact inv_retry hI h
  | giveUp d => exact inv_giveUp hI h
  | reap d => exact inv_reap hI h
  | count w => exact inv_count hI h
  | recv w => exact inv_recv hI h
  | wake w => exact inv_wake hI h
  | timeout w => exact inv_timeout hI h
  | finish w => exact inv_finish hI h
  | exit w => exact inv_exit hI h

theorem inv_init (limit nd : Nat) (reserve : Bool) : Inv (init limit nd reserve) := by
  refine { wait_parked := (by intro w h; cases h), parked_wait := (by intro w h; exact absurd h (Nat.not_lt_zero _)),
           wait_nodup := List.nodup_nil, sendq_blocked := (by intro d j h; cases h), sendq_nodup := List.nodup_nil,
           chan := fun _ => rfl, place := ?_, started := ?_, counter_raw := fun _ => rfl,
           counter_res := ?_, res_limit := fun _ => Nat.zero_le _ }
  · intro j
    have : cnt (fun _ : Nat => DState.idle) (DState.holds j) nd = 0 := cnt_zero_of _ _ _ (fun _ _ => rfl)
    simp [holders, init, this, cnt]
  · intro j; simp [ranCount, init, cnt]
  · intro _
    have : cnt (fun _ : Nat => DState.idle) DState.isSpawning nd = 0 := cnt_zero_of _ _ _ (fun _ _ => rfl)
    simp [init, this, cnt]

theorem inv_run {s : State} (hI : Inv s) : ∀ {evs : List Event} {s' : State}, run? s evs = some s' → Inv s'
  | [], s', h => by simp [run?] at h; subst h; exact hI
  | e :: es, s', h => by
    unfold run? at h
    split at h
    · rename_i s1 h1
      exact inv_run (inv_step hI h1) h
    · cases h

/-! ## configuration is static; metadata of jobs -/

theorem step_static {s s' : State} {e : Event} (h : step? s e = some s') :
    s'.limit = s.limit ∧ s'.reserve = s.reserve ∧ s'.nd = s.nd := by
  cases e with
  | submit d k => obtain ⟨_, _, rfl⟩ := doSubmit_some h; exact ⟨rfl, rfl, rfl⟩
  | trySend d => obtain ⟨_, j, _, (⟨w, rest, _, rfl⟩ | ⟨_, rfl⟩)⟩ := doTrySend_some h <;> exact ⟨rfl, rfl, rfl⟩
  | load d =>
    obtain ⟨_, j, _, (⟨_, rfl⟩ | ⟨_, _, rfl⟩ | ⟨_, _, _, rfl⟩ | ⟨_, _, _, rfl⟩)⟩ := doLoad_some h <;> exact ⟨rfl, rfl, rfl⟩
  | spawn d => obtain ⟨_, j, _, rfl⟩ := doSpawn_some h; exact ⟨rfl, rfl, rfl⟩
  | send d => obtain ⟨_, j, _, (⟨w, rest, _, rfl⟩ | ⟨_, rfl⟩)⟩ := doSend_some h <;> exact ⟨rfl, rfl, rfl⟩
  | retry d => obtain ⟨_, j, _, rfl⟩ := doRetry_some h; exact ⟨rfl, rfl, rfl⟩
  | giveUp d => obtain ⟨_, j, (⟨_, rfl⟩ | ⟨_, rfl⟩)⟩ := doGiveUp_some h <;> exact ⟨rfl, rfl, rfl⟩
  | reap d => obtain ⟨e, rest, _, rfl⟩ := doReap_some h; exact ⟨rfl, rfl, rfl⟩
  | count w => obtain ⟨_, _, (⟨_, rfl⟩ | ⟨_, rfl⟩)⟩ := doCount_some h <;> exact ⟨rfl, rfl, rfl⟩
  | recv w => obtain ⟨_, _, (⟨d, j, rest, _, rfl⟩ | ⟨_, rfl⟩)⟩ := doRecv_some h <;> exact ⟨rfl, rfl, rfl⟩
  | wake w => obtain ⟨_, j, _, rfl⟩ := doWake_some h; exact ⟨rfl, rfl, rfl⟩
  | timeout w => obtain ⟨_, _, rfl⟩ := doTimeout_some h; exact ⟨rfl, rfl, rfl⟩
  | finish w => obtain ⟨_, j, _, (⟨_, rfl⟩ | ⟨_, rfl⟩)⟩ := doFinish_some h <;> exact ⟨rfl, rfl, rfl⟩
  | exit w => obtain ⟨_, _, rfl⟩ := doExit_some h; exact ⟨rfl, rfl, rfl⟩

theorem run_static {s : State} : ∀ {evs : List Event} {s' : State}, run? s evs = some s' →
    s'.limit = s.limit ∧ s'.reserve = s.reserve ∧ s'.nd = s.nd
  | [], s', h => by simp [run?] at h; subst h; exact ⟨rfl, rfl, rfl⟩
  | e :: es, s', h => by
    unfold run? at h
    split at h
    · rename_i s1 h1
      obtain ⟨a, b, c⟩ := step_static h1
      obtain ⟨a', b', c'⟩ := run_static h
      exact ⟨a'.trans a, b'.trans b, c'.trans c⟩
    · cases h

/-! ## spawns in flight: the unconditional bound -/

/-- counted workers plus spawns in flight -/
def xcount (s : State) : Nat := s.counter + inflight s

/-- effect of one step of the code as it is on `counter + inflight`: it never grows, except when a
dispatcher passes the limit check (`counter < limit`), which adds one spawn in flight -/
theorem xcount_step {s s' : State} {e : Event} (hr : s.reserve = false) (h : step? s e = some s') :
    xcount s' ≤ xcount s ∨ (s.counter < s.limit ∧ s'.counter = s.counter ∧ inflight s' = inflight s + 1) := by
  unfold xcount inflight
  cases e with
  | submit d k =>
    obtain ⟨hd, hj, rfl⟩ := doSubmit_some h
    left
    simp only [cnt_split _ _ hd, cntEx_upd, upd_same, hj]; cnt_norm; omega
  | trySend d =>
    obtain ⟨hd, j, hj, (⟨w, rest, _, rfl⟩ | ⟨_, rfl⟩)⟩ := doTrySend_some h
    · left
      by_cases hw : w < s.nw
      · simp only [cnt_split _ _ hd, cnt_split _ _ hw, cntEx_upd, upd_same, hj]; cnt_norm
        cases s.wrk w <;> simp <;> omega
      · simp only [cnt_split _ _ hd, cnt_upd_ge _ _ _ (Nat.le_of_not_lt hw), cntEx_upd, upd_same, hj]; cnt_norm; omega
    · left
      simp only [cnt_split _ _ hd, cntEx_upd, upd_same, hj]; cnt_norm; omega
  | load d =>
    obtain ⟨hd, j, hj, (⟨_, rfl⟩ | ⟨_, _, rfl⟩ | ⟨_, _, hr', rfl⟩ | ⟨_, hlt, _, rfl⟩)⟩ := doLoad_some h
    · left; simp only [cnt_split _ _ hd, cntEx_upd, upd_same, hj]; cnt_norm; omega
    · left; simp only [cnt_split _ _ hd, cntEx_upd, upd_same, hj]; cnt_norm; omega
    · rw [hr] at hr'; cases hr'
    · right
      refine ⟨hlt, rfl, ?_⟩
      simp only [cnt_split _ _ hd, cntEx_upd, upd_same, hj]; cnt_norm; omega
  | spawn d =>
    obtain ⟨hd, j, hj, rfl⟩ := doSpawn_some h
    left
    simp only [cnt_split _ _ hd, cntEx_upd, upd_same, cnt_push, hj]; cnt_norm; omega
  | send d =>
    obtain ⟨hd, j, hj, (⟨w, rest, _, rfl⟩ | ⟨_, rfl⟩)⟩ := doSend_some h
    · left
      by_cases hw : w < s.nw
      · simp only [cnt_split _ _ hd, cnt_split _ _ hw, cntEx_upd, upd_same, hj]; cnt_norm
        cases s.wrk w <;> simp <;> omega
      · simp only [cnt_split _ _ hd, cnt_upd_ge _ _ _ (Nat.le_of_not_lt hw), cntEx_upd, upd_same, hj]; cnt_norm; omega
    · left
      simp only [cnt_split _ _ hd, cntEx_upd, upd_same, hj]; cnt_norm; omega
  | retry d =>
    obtain ⟨hd, j, hj, rfl⟩ := doRetry_some h
    left; simp only [cnt_split _ _ hd, cntEx_upd, upd_same, hj]; cnt_norm; omega
  | giveUp d =>
    obtain ⟨hd, j, (⟨hj, rfl⟩ | ⟨hj, rfl⟩)⟩ := doGiveUp_some h <;>
    · left; simp only [cnt_split _ _ hd, cntEx_upd, upd_same, hj]; cnt_norm; omega
  | reap d => obtain ⟨e, rest, _, rfl⟩ := doReap_some h; left; exact Nat.le_refl _
  | count w =>
    obtain ⟨hw, hs, (⟨hr', rfl⟩ | ⟨_, rfl⟩)⟩ := doCount_some h
    · rw [hr] at hr'; cases hr'
    · left; simp only [cnt_split _ _ hw, cntEx_upd, upd_same, hs]; cnt_norm; omega
  | recv w =>
    obtain ⟨hw, hs, (⟨d, j, rest, _, rfl⟩ | ⟨_, rfl⟩)⟩ := doRecv_some h
    · left
      by_cases hd : d < s.nd
      · simp only [cnt_split _ _ hd, cnt_split _ _ hw, cntEx_upd, upd_same, hs]; cnt_norm
        cases s.disp d <;> simp <;> omega
      · simp only [cnt_upd_ge _ _ _ (Nat.le_of_not_lt hd), cnt_split _ _ hw, cntEx_upd, upd_same, hs]; cnt_norm; omega
    · left; simp only [cnt_split _ _ hw, cntEx_upd, upd_same, hs]; cnt_norm; omega
  | wake w =>
    obtain ⟨hw, j, hs, rfl⟩ := doWake_some h
    left; simp only [cnt_split _ _ hw, cntEx_upd, upd_same, hs]; cnt_norm; omega
  | timeout w =>
    obtain ⟨hw, hs, rfl⟩ := doTimeout_some h
    left; simp only [cnt_split _ _ hw, cntEx_upd, upd_same, hs]; cnt_norm; omega
  | finish w =>
    obtain ⟨hw, j, hs, (⟨_, rfl⟩ | ⟨_, rfl⟩)⟩ := doFinish_some h <;>
    · left; simp only [cnt_split _ _ hw, cntEx_upd, upd_same, hs]; cnt_norm; omega
  | exit w =>
    obtain ⟨hw, hs, rfl⟩ := doExit_some h
    left; simp only [cnt_split _ _ hw, cntEx_upd, upd_same, hs]; cnt_norm; omega

theorem inflight_le_peak (s : State) : ∀ evs : List Event, inflight s ≤ peak s evs
  | [] => Nat.le_refl _
  | e :: es => by
    unfold peak
    split
    · exact Nat.le_max_left _ _
    · exact Nat.le_refl _

/-- along any schedule of the code as it is, `counter + inflight` stays below
`limit + (largest number of spawns in flight) - 1` (or below its initial value) -/
theorem xcount_run : ∀ {evs : List Event} {s s' : State}, s.reserve = false → run? s evs = some s' →
    xcount s' ≤ max (xcount s) (s.limit + peak s evs - 1)
  | [], s, s', _, h => by simp [run?] at h; subst h; exact Nat.le_max_left _ _
  | e :: es, s, s', hr, h => by
    unfold run? at h
    split at h
    · rename_i s1 h1
      obtain ⟨hl, hr1, _⟩ := step_static h1
      have ih := xcount_run (hr1.trans hr) h
      have hp : peak s (e :: es) = max (inflight s) (peak s1 es) := by
        rw [peak.eq_2, h1]
      have hip := inflight_le_peak s1 es
      rw [hp, hl] at *
      rcases xcount_step hr h1 with hle | ⟨hlt, hc, hi⟩
      · omega
      · have : xcount s1 = s.counter + (inflight s + 1) := by unfold xcount; rw [hc, hi]
        omega
    · cases h


/-- who owns what: metadata of the jobs held by the components -/
structure Meta (s : State) : Prop where
  done_meta : ∀ e, (e ∈ s.completed ∨ e ∈ s.delivered) →
    e.job < s.njobs ∧ e.owner = s.owner e.job ∧ e.out = outcomeOf (s.kind e.job) ∧ s.kind e.job ≠ .raw
  disp_owner : ∀ d j, d < s.nd → DState.holds j (s.disp d) = true → s.owner j = d ∧ j < s.njobs
  sendq_owner : ∀ d j, (d, j) ∈ s.sendq → s.owner j = d ∧ j < s.njobs
  wrk_known : ∀ w j, w < s.nw → WState.holds j (s.wrk w) = true → j < s.njobs

/-- `disp d` changes to a state holding at most the job it held before -/
theorem disp_owner_upd {s : State} (hM : Meta s) {d : Nat} {y : DState}
    (hy : ∀ j, DState.holds j y = true → DState.holds j (s.disp d) = true) :
    ∀ d' j, d' < s.nd → DState.holds j (upd s.disp d y d') = true → s.owner j = d' ∧ j < s.njobs := by
  intro d' j hd' hh
  by_cases he : d' = d
  · subst he; rw [upd_same] at hh; exact hM.disp_owner d' j hd' (hy j hh)
  · rw [upd_ne _ _ he] at hh; exact hM.disp_owner d' j hd' hh

/-- `wrk w` changes to a state holding at most job `j0`, which is known -/
theorem wrk_known_upd {s : State} (hM : Meta s) {w : Nat} {y : WState} {j0 : Nat} (hj0 : j0 < s.njobs)
    (hy : ∀ j, WState.holds j y = true → j = j0) :
    ∀ w' j, w' < s.nw → WState.holds j (upd s.wrk w y w') = true → j < s.njobs := by
  intro w' j hw' hh
  by_cases he : w' = w
  · subst he; rw [upd_same] at hh; rw [hy j hh]; exact hj0
  · rw [upd_ne _ _ he] at hh; exact hM.wrk_known w' j hw' hh

theorem wrk_known_upd_none {s : State} (hM : Meta s) {w : Nat} {y : WState}
    (hy : ∀ j, WState.holds j y = false) :
    ∀ w' j, w' < s.nw → WState.holds j (upd s.wrk w y w') = true → j < s.njobs := by
  intro w' j hw' hh
  by_cases he : w' = w
  · subst he; rw [upd_same, hy] at hh; cases hh
  · rw [upd_ne _ _ he] at hh; exact hM.wrk_known w' j hw' hh

theorem takeOwned_mem (d : Nat) : ∀ (l : List Done) (e : Done) (rest : List Done),
    takeOwned d l = some (e, rest) → e ∈ l ∧ ∀ x, x ∈ rest → x ∈ l
  | [], e, rest, h => by simp [takeOwned] at h
  | a :: l, e, rest, h => by
    unfold takeOwned at h
    split at h
    · simp only [Option.some.injEq, Prod.mk.injEq] at h
      obtain ⟨rfl, rfl⟩ := h
      exact ⟨List.mem_cons_self, fun x hx => List.mem_cons_of_mem _ hx⟩
    · split at h
      · rename_i x r hx
        simp only [Option.some.injEq, Prod.mk.injEq] at h
        obtain ⟨rfl, rfl⟩ := h
        obtain ⟨h1, h2⟩ := takeOwned_mem d l x r hx
        refine ⟨List.mem_cons_of_mem _ h1, ?_⟩
        intro y hy
        rcases List.mem_cons.mp hy with rfl | hy
        · exact List.mem_cons_self
        · exact List.mem_cons_of_mem _ (h2 y hy)
      · cases h

theorem holds_trying (j j' : Nat) : DState.holds j' (.trying j) = true ↔ j = j' := by simp [DState.holds]
theorem holds_eq {j j' : Nat} {x : DState} (hx : ∀ i, DState.holds i x = (j == i)) : DState.holds j' x = true → j' = j := by
  intro h; rw [hx] at h; exact (beq_iff_eq.mp h).symm

theorem meta_step {s s' : State} {e : Event} (hM : Meta s) (h : step? s e = some s') : Meta s' := by
  cases e with
  | submit d k =>
    obtain ⟨hd, hj, rfl⟩ := doSubmit_some h
    refine ⟨?_, ?_, ?_, ?_⟩
    · intro e he
      obtain ⟨a, b, c, d'⟩ := hM.done_meta e he
      have hne : e.job ≠ s.njobs := by omega
      exact ⟨Nat.lt_succ_of_lt a, by show _ = upd s.owner _ _ _; rw [upd_ne _ _ hne]; exact b,
        by show _ = outcomeOf (upd s.kind _ _ _); rw [upd_ne _ _ hne]; exact c,
        by show upd s.kind _ _ _ ≠ _; rw [upd_ne _ _ hne]; exact d'⟩
    · intro d' j hd' hh
      have hh' : DState.holds j (upd s.disp d (.trying s.njobs) d') = true := hh
      by_cases he : d' = d
      · subst he
        rw [upd_same] at hh'
        have : s.njobs = j := (holds_trying _ _).mp hh'
        subst this
        exact ⟨upd_same _ _ _, Nat.lt_succ_self _⟩
      · rw [upd_ne _ _ he] at hh'
        obtain ⟨a, b⟩ := hM.disp_owner d' j hd' hh'
        exact ⟨by show upd s.owner _ _ _ = _; rw [upd_ne _ _ (by omega)]; exact a, Nat.lt_succ_of_lt b⟩
    · intro d' j hm
      obtain ⟨a, b⟩ := hM.sendq_owner d' j hm
      exact ⟨by show upd s.owner _ _ _ = _; rw [upd_ne _ _ (by omega)]; exact a, Nat.lt_succ_of_lt b⟩
    · intro w j hw hh
      exact Nat.lt_succ_of_lt (hM.wrk_known w j hw hh)
  | trySend d =>
    obtain ⟨hd, j, hj, (⟨w, rest, _, rfl⟩ | ⟨_, rfl⟩)⟩ := doTrySend_some h
    · have hjn := (hM.disp_owner d j hd (by rw [hj]; simp [DState.holds])).2
      exact ⟨hM.done_meta, disp_owner_upd hM (by intro i hi; simp [DState.holds] at hi), hM.sendq_owner,
        wrk_known_upd hM hjn (by intro i hi; simp [WState.holds] at hi; exact hi.symm)⟩
    · exact ⟨hM.done_meta, disp_owner_upd hM (by intro i hi; rw [hj]; exact hi), hM.sendq_owner, hM.wrk_known⟩
  | load d =>
    obtain ⟨hd, j, hj, (⟨_, rfl⟩ | ⟨_, _, rfl⟩ | ⟨_, _, _, rfl⟩ | ⟨_, _, _, rfl⟩)⟩ := doLoad_some h <;>
    exact ⟨hM.done_meta, disp_owner_upd hM (by intro i hi; rw [hj]; exact hi), hM.sendq_owner, hM.wrk_known⟩
  | spawn d =>
    obtain ⟨hd, j, hj, rfl⟩ := doSpawn_some h
    refine ⟨hM.done_meta, disp_owner_upd hM (by intro i hi; rw [hj]; exact hi), hM.sendq_owner, ?_⟩
    intro w' j' hw' hh
    have hh' : WState.holds j' (upd s.wrk s.nw .starting w') = true := hh
    by_cases he : w' = s.nw
    · subst he; rw [upd_same] at hh'; simp [WState.holds] at hh'
    · rw [upd_ne _ _ he] at hh'
      exact hM.wrk_known w' j' (by have : w' < s.nw + 1 := hw'; omega) hh'
  | send d =>
    obtain ⟨hd, j, hj, (⟨w, rest, _, rfl⟩ | ⟨_, rfl⟩)⟩ := doSend_some h
    · have hjn := (hM.disp_owner d j hd (by rw [hj]; simp [DState.holds])).2
      exact ⟨hM.done_meta, disp_owner_upd hM (by intro i hi; simp [DState.holds] at hi), hM.sendq_owner,
        wrk_known_upd hM hjn (by intro i hi; simp [WState.holds] at hi; exact hi.symm)⟩
    · have hjo := hM.disp_owner d j hd (by rw [hj]; simp [DState.holds])
      refine ⟨hM.done_meta, disp_owner_upd hM (by intro i hi; simp [DState.holds] at hi), ?_, hM.wrk_known⟩
      intro d' j' hm
      rcases List.mem_append.mp hm with h1 | h1
      · exact hM.sendq_owner d' j' h1
      · simp only [List.mem_singleton, Prod.mk.injEq] at h1
        obtain ⟨rfl, rfl⟩ := h1
        exact hjo
  | retry d =>
    obtain ⟨hd, j, hj, rfl⟩ := doRetry_some h
    exact ⟨hM.done_meta, disp_owner_upd hM (by intro i hi; rw [hj]; exact hi), hM.sendq_owner, hM.wrk_known⟩
  | giveUp d =>
    obtain ⟨hd, j, (⟨hj, rfl⟩ | ⟨hj, rfl⟩)⟩ := doGiveUp_some h <;>
    exact ⟨hM.done_meta, disp_owner_upd hM (by intro i hi; simp [DState.holds] at hi), hM.sendq_owner, hM.wrk_known⟩
  | reap d =>
    obtain ⟨e, rest, he, rfl⟩ := doReap_some h
    obtain ⟨h1, h2⟩ := takeOwned_mem d _ _ _ he
    refine ⟨?_, hM.disp_owner, hM.sendq_owner, hM.wrk_known⟩
    intro x hx
    rcases hx with hx | hx
    · exact hM.done_meta x (.inl (h2 x hx))
    · rcases List.mem_cons.mp hx with rfl | hx
      · exact hM.done_meta x (.inl h1)
      · exact hM.done_meta x (.inr hx)
  | count w =>
    obtain ⟨hw, hs, (⟨_, rfl⟩ | ⟨_, rfl⟩)⟩ := doCount_some h <;>
    exact ⟨hM.done_meta, hM.disp_owner, hM.sendq_owner, wrk_known_upd_none hM (by intro i; rfl)⟩
  | recv w =>
    obtain ⟨hw, hs, (⟨d, j, rest, hq, rfl⟩ | ⟨_, rfl⟩)⟩ := doRecv_some h
    · have hjn := (hM.sendq_owner d j (by rw [hq]; simp)).2
      refine ⟨hM.done_meta, disp_owner_upd hM (by intro i hi; simp [DState.holds] at hi), ?_,
        wrk_known_upd hM hjn (by intro i hi; simp [WState.holds] at hi; exact hi.symm)⟩
      intro d' j' hm
      exact hM.sendq_owner d' j' (by rw [hq]; exact List.mem_cons_of_mem _ hm)
    · exact ⟨hM.done_meta, hM.disp_owner, hM.sendq_owner, wrk_known_upd_none hM (by intro i; rfl)⟩
  | wake w =>
    obtain ⟨hw, j, hs, rfl⟩ := doWake_some h
    have hjn := hM.wrk_known w j hw (by rw [hs]; simp [WState.holds])
    exact ⟨hM.done_meta, hM.disp_owner, hM.sendq_owner,
      wrk_known_upd hM hjn (by intro i hi; simp [WState.holds] at hi; exact hi.symm)⟩
  | timeout w =>
    obtain ⟨hw, hs, rfl⟩ := doTimeout_some h
    exact ⟨hM.done_meta, hM.disp_owner, hM.sendq_owner, wrk_known_upd_none hM (by intro i; rfl)⟩
  | finish w =>
    obtain ⟨hw, j, hs, (⟨_, rfl⟩ | ⟨hk, rfl⟩)⟩ := doFinish_some h
    · exact ⟨hM.done_meta, hM.disp_owner, hM.sendq_owner, wrk_known_upd_none hM (by intro i; rfl)⟩
    · have hjn := hM.wrk_known w j hw (by rw [hs]; simp [WState.holds])
      refine ⟨?_, hM.disp_owner, hM.sendq_owner, wrk_known_upd_none hM (by intro i; rfl)⟩
      intro x hx
      rcases hx with hx | hx
      · rcases List.mem_append.mp hx with hx | hx
        · exact hM.done_meta x (.inl hx)
        · simp only [List.mem_singleton] at hx; subst hx
          exact ⟨hjn, rfl, rfl, hk⟩
      · exact hM.done_meta x (.inr hx)
  | exit w =>
    obtain ⟨hw, hs, rfl⟩ := doExit_some h
    exact ⟨hM.done_meta, hM.disp_owner, hM.sendq_owner, wrk_known_upd_none hM (by intro i; rfl)⟩

theorem meta_init (limit nd : Nat) (reserve : Bool) : Meta (init limit nd reserve) := by
  refine ⟨?_, ?_, ?_, ?_⟩
  · intro e he
    rcases he with he | he <;> cases he
  · intro d j _ h
    simp [init, DState.holds] at h
  · intro d j h
    cases h
  · intro w j h
    exact absurd h (Nat.not_lt_zero _)

theorem meta_run {s : State} (hM : Meta s) : ∀ {evs : List Event} {s' : State}, run? s evs = some s' → Meta s'
  | [], s', h => by simp [run?] at h; subst h; exact hM
  | e :: es, s', h => by
    unfold run? at h
    split at h
    · rename_i s1 h1
      exact meta_run (meta_step hM h1) h
    · cases h


/-! ## pending rendezvous sends versus workers that will call `recv` again -/

def DState.isSending : DState → Bool
  | .sending _ => true
  | _ => false

/-- the worker will (re-)enter `recv_timeout` unless a timer or an uncaught panic stops it -/
def WState.willRecv : WState → Bool
  | .leaving => false
  | .exited => false
  | _ => true

/-- dispatchers between `thread::spawn` and the end of `sender.send` -/
def pendingSends (s : State) : Nat := cnt s.disp DState.isSending s.nd + s.sendq.length

/-- neither an idle timeout nor a job that panics uncaught -/
def Benign : Event → Bool
  | .timeout _ => false
  | .submit _ .raw => false
  | _ => true

theorem pending_step {s s' : State} {e : Event} (hI : Inv s) (hk : ∀ j, s.kind j ≠ .raw) (hb : Benign e = true)
    (hp : pendingSends s ≤ cnt s.wrk WState.willRecv s.nw) (h : step? s e = some s') :
    pendingSends s' ≤ cnt s'.wrk WState.willRecv s'.nw ∧ ∀ j, s'.kind j ≠ .raw := by
  unfold pendingSends at hp ⊢
  cases e with
  | submit d k =>
    obtain ⟨hd, hj, rfl⟩ := doSubmit_some h
    refine ⟨?_, ?_⟩
    · simp only [cnt_split _ _ hd, cntEx_upd, upd_same, hj, DState.isSending] at hp ⊢; cnt_norm at hp ⊢; omega
    · intro j
      show upd s.kind s.njobs k j ≠ .raw
      by_cases he : j = s.njobs
      · subst he; rw [upd_same]; intro hr; subst hr; simp [Benign] at hb
      · rw [upd_ne _ _ he]; exact hk j
  | trySend d =>
    obtain ⟨hd, j, hj, (⟨w, rest, hw, rfl⟩ | ⟨_, rfl⟩)⟩ := doTrySend_some h
    · obtain ⟨hwn, hwp⟩ := hI.wait_parked w (by simp [hw])
      refine ⟨?_, hk⟩
      simp only [cnt_split _ _ hd, cnt_split _ _ hwn, cntEx_upd, upd_same, hj, hwp, DState.isSending, WState.willRecv] at hp ⊢
      cnt_norm at hp ⊢; omega
    · refine ⟨?_, hk⟩
      simp only [cnt_split _ _ hd, cntEx_upd, upd_same, hj, DState.isSending] at hp ⊢; cnt_norm at hp ⊢; omega
  | load d =>
    obtain ⟨hd, j, hj, (⟨_, rfl⟩ | ⟨_, _, rfl⟩ | ⟨_, _, _, rfl⟩ | ⟨_, _, _, rfl⟩)⟩ := doLoad_some h <;>
    · refine ⟨?_, hk⟩
      simp only [cnt_split _ _ hd, cntEx_upd, upd_same, hj, DState.isSending] at hp ⊢; cnt_norm at hp ⊢; omega
  | spawn d =>
    obtain ⟨hd, j, hj, rfl⟩ := doSpawn_some h
    refine ⟨?_, hk⟩
    simp only [cnt_split _ _ hd, cntEx_upd, upd_same, cnt_push, hj, DState.isSending, WState.willRecv] at hp ⊢
    cnt_norm at hp ⊢; omega
  | send d =>
    obtain ⟨hd, j, hj, (⟨w, rest, hw, rfl⟩ | ⟨_, rfl⟩)⟩ := doSend_some h
    · obtain ⟨hwn, hwp⟩ := hI.wait_parked w (by simp [hw])
      refine ⟨?_, hk⟩
      simp only [cnt_split _ _ hd, cnt_split _ _ hwn, cntEx_upd, upd_same, hj, hwp, DState.isSending, WState.willRecv] at hp ⊢
      cnt_norm at hp ⊢; omega
    · refine ⟨?_, hk⟩
      simp only [cnt_split _ _ hd, cntEx_upd, upd_same, hj, DState.isSending] at hp ⊢; cnt_norm at hp ⊢; omega
  | retry d =>
    obtain ⟨hd, j, hj, rfl⟩ := doRetry_some h
    refine ⟨?_, hk⟩
    simp only [cnt_split _ _ hd, cntEx_upd, upd_same, hj, DState.isSending] at hp ⊢; cnt_norm at hp ⊢; omega
  | giveUp d =>
    obtain ⟨hd, j, (⟨hj, rfl⟩ | ⟨hj, rfl⟩)⟩ := doGiveUp_some h <;>
    · refine ⟨?_, hk⟩
      simp only [cnt_split _ _ hd, cntEx_upd, upd_same, hj, DState.isSending] at hp ⊢; cnt_norm at hp ⊢; omega
  | reap d => obtain ⟨e, rest, _, rfl⟩ := doReap_some h; exact ⟨hp, hk⟩
  | count w =>
    obtain ⟨hw, hs, (⟨_, rfl⟩ | ⟨_, rfl⟩)⟩ := doCount_some h <;>
    · refine ⟨?_, hk⟩
      simp only [cnt_split _ _ hw, cntEx_upd, upd_same, hs, WState.willRecv] at hp ⊢; cnt_norm at hp ⊢; omega
  | recv w =>
    obtain ⟨hw, hs, (⟨d, j, rest, hq, rfl⟩ | ⟨_, rfl⟩)⟩ := doRecv_some h
    · obtain ⟨hd, hb'⟩ := hI.sendq_blocked d j (by rw [hq]; simp)
      refine ⟨?_, hk⟩
      simp only [cnt_split _ _ hd, cnt_split _ _ hw, cntEx_upd, upd_same, hs, hb', hq, DState.isSending, WState.willRecv] at hp ⊢
      cnt_norm at hp ⊢; omega
    · refine ⟨?_, hk⟩
      simp only [cnt_split _ _ hw, cntEx_upd, upd_same, hs, WState.willRecv] at hp ⊢; cnt_norm at hp ⊢; omega
  | wake w =>
    obtain ⟨hw, j, hs, rfl⟩ := doWake_some h
    refine ⟨?_, hk⟩
    simp only [cnt_split _ _ hw, cntEx_upd, upd_same, hs, WState.willRecv] at hp ⊢; cnt_norm at hp ⊢; omega
  | timeout w => simp [Benign] at hb
  | finish w =>
    obtain ⟨hw, j, hs, (⟨hr, rfl⟩ | ⟨_, rfl⟩)⟩ := doFinish_some h
    · exact absurd hr (hk j)
    · refine ⟨?_, hk⟩
      simp only [cnt_split _ _ hw, cntEx_upd, upd_same, hs, WState.willRecv] at hp ⊢; cnt_norm at hp ⊢; omega
  | exit w =>
    obtain ⟨hw, hs, rfl⟩ := doExit_some h
    refine ⟨?_, hk⟩
    simp only [cnt_split _ _ hw, cntEx_upd, upd_same, hs, WState.willRecv] at hp ⊢; cnt_norm at hp ⊢; omega

theorem pending_run : ∀ {evs : List Event} {s s' : State}, Inv s → (∀ j, s.kind j ≠ .raw) →
    (∀ e, e ∈ evs → Benign e = true) → pendingSends s ≤ cnt s.wrk WState.willRecv s.nw → run? s evs = some s' →
    pendingSends s' ≤ cnt s'.wrk WState.willRecv s'.nw
  | [], s, s', _, _, _, hp, h => by simp [run?] at h; subst h; exact hp
  | e :: es, s, s', hI, hk, hb, hp, h => by
    unfold run? at h
    split at h
    · rename_i s1 h1
      obtain ⟨hp1, hk1⟩ := pending_step hI hk (hb e List.mem_cons_self) hp h1
      exact pending_run (inv_step hI h1) hk1 (fun e' he' => hb e' (List.mem_cons_of_mem _ he')) hp1 h
    · cases h

/-- some index below `n` satisfies `p` when the count is positive -/
theorem exists_of_cnt_pos {α : Type} (f : Nat → α) (p : α → Bool) : ∀ n : Nat, 1 ≤ cnt f p n → ∃ i, i < n ∧ p (f i) = true
  | 0, h => by simp [cnt] at h
  | n + 1, h => by
    rw [cnt_succ] at h
    cases hp : p (f n)
    · rw [hp] at h
      obtain ⟨i, hi, hpi⟩ := exists_of_cnt_pos f p n (by simpa using h)
      exact ⟨i, by omega, hpi⟩
    · exact ⟨n, by omega, hp⟩

/-! ## the driver's deterministic scheduler only takes steps of the model -/

theorem quiesce_valid : ∀ (fuel : Nat) (s : State), run? s (quiesce fuel s).1 = some (quiesce fuel s).2
  | 0, s => rfl
  | fuel + 1, s => by
    unfold quiesce
    split
    · rfl
    · rename_i e he
      split
      · rename_i s' hs
        show run? s (e :: (quiesce fuel s').1) = _
        rw [run?, hs]
        exact quiesce_valid fuel s'
      · rfl

theorem run?_append (s : State) : ∀ (a b : List Event), run? s (a ++ b) = (run? s a).bind (fun s' => run? s' b)
  | [], b => rfl
  | e :: a, b => by
    show run? s (e :: (a ++ b)) = _
    rw [run?, run?]
    cases step? s e with
    | none => rfl
    | some s1 => exact run?_append s1 a b


/-! ## sole holders: consequences of `Inv.place` used by the refinement proof -/

theorem of_cntEx_zero {α : Type} (f : Nat → α) (p : α → Bool) (i : Nat) :
    ∀ n : Nat, cntEx f p i n = 0 → ∀ k, k < n → k ≠ i → p (f k) = false
  | 0, _, k, hk, _ => by omega
  | n + 1, h, k, hk, hne => by
    rw [cntEx] at h
    by_cases hkn : k = n
    · subst hkn
      rw [if_neg hne] at h
      cases hp : p (f k)
      · rfl
      · rw [hp] at h; simp at h
    · exact of_cntEx_zero f p i n (by omega) k (by omega) hne

structure Sole (s : State) (j : Nat) (exceptD : Option Nat) (exceptW : Option Nat) (q : List (Nat × Nat)) : Prop where
  disp : ∀ d, d < s.nd → some d ≠ exceptD → DState.holds j (s.disp d) = false
  wrk : ∀ w, w < s.nw → some w ≠ exceptW → WState.holds j (s.wrk w) = false
  sendq : ∀ x, x ∈ q → x.2 ≠ j

theorem countP_zero_mem {α : Type} {p : α → Bool} {l : List α} (h : l.countP p = 0) : ∀ x, x ∈ l → p x = false := by
  intro x hx
  cases hp : p x
  · rfl
  · have := List.countP_pos_iff.mpr ⟨x, hx, hp⟩; omega

/-- the job held by dispatcher `d` is nowhere else -/
theorem sole_of_disp {s : State} (hI : Inv s) {d j : Nat} (hd : d < s.nd) (hh : DState.holds j (s.disp d) = true) :
    Sole s j (some d) none s.sendq := by
  have hp := hI.place j
  unfold holders at hp
  rw [cnt_split _ _ hd, hh] at hp
  have h1 : cntEx s.disp (DState.holds j) d s.nd = 0 := by split at hp <;> simp at hp <;> omega
  have h2 : s.sendq.countP (fun e => e.2 == j) = 0 := by split at hp <;> simp at hp <;> omega
  have h3 : cnt s.wrk (WState.holds j) s.nw = 0 := by split at hp <;> simp at hp <;> omega
  refine ⟨?_, ?_, ?_⟩
  · intro d' hd' hne
    exact of_cntEx_zero _ _ _ _ h1 d' hd' (by intro he; subst he; exact hne rfl)
  · intro w hw _
    exact of_cnt_zero _ _ h3 hw
  · intro x hx he
    have := countP_zero_mem h2 x hx
    simp [he] at this

/-- the job held by worker `w` is nowhere else -/
theorem sole_of_wrk {s : State} (hI : Inv s) {w j : Nat} (hw : w < s.nw) (hh : WState.holds j (s.wrk w) = true) :
    Sole s j none (some w) s.sendq := by
  have hp := hI.place j
  unfold holders at hp
  rw [cnt_split s.wrk _ hw, hh] at hp
  have h1 : cnt s.disp (DState.holds j) s.nd = 0 := by split at hp <;> simp at hp <;> omega
  have h2 : s.sendq.countP (fun e => e.2 == j) = 0 := by split at hp <;> simp at hp <;> omega
  have h3 : cntEx s.wrk (WState.holds j) w s.nw = 0 := by split at hp <;> simp at hp <;> omega
  refine ⟨?_, ?_, ?_⟩
  · intro d' hd' _
    exact of_cnt_zero _ _ h1 hd'
  · intro w' hw' hne
    exact of_cntEx_zero _ _ _ _ h3 w' hw' (by intro he; subst he; exact hne rfl)
  · intro x hx he
    have := countP_zero_mem h2 x hx
    simp [he] at this

/-- the job at the head of the `sending` queue is nowhere else -/
theorem sole_of_sendq {s : State} (hI : Inv s) {d j : Nat} {rest : List (Nat × Nat)} (hq : s.sendq = (d, j) :: rest) :
    Sole s j none none rest := by
  have hp := hI.place j
  unfold holders at hp
  rw [hq, List.countP_cons] at hp
  simp only [beq_self_eq_true, if_true] at hp
  have h1 : cnt s.disp (DState.holds j) s.nd = 0 := by split at hp <;> omega
  have h2 : rest.countP (fun e => e.2 == j) = 0 := by split at hp <;> omega
  have h3 : cnt s.wrk (WState.holds j) s.nw = 0 := by split at hp <;> omega
  refine ⟨?_, ?_, ?_⟩
  · intro d' hd' _
    exact of_cnt_zero _ _ h1 hd'
  · intro w' hw' _
    exact of_cnt_zero _ _ h3 hw'
  · intro x hx he
    have := countP_zero_mem h2 x hx
    simp [he] at this

/-- a job not yet submitted is nowhere -/
theorem sole_of_fresh {s : State} (hI : Inv s) {j : Nat} (hj : s.njobs ≤ j) : Sole s j none none s.sendq := by
  have hp := hI.place j
  unfold holders at hp
  rw [if_neg (by omega)] at hp
  refine ⟨?_, ?_, ?_⟩
  · intro d' hd' _
    exact of_cnt_zero _ _ (by omega) hd'
  · intro w' hw' _
    exact of_cnt_zero _ _ (by omega) hw'
  · intro x hx he
    have := countP_zero_mem (show s.sendq.countP (fun e => e.2 == j) = 0 by omega) x hx
    simp [he] at this


open Spec

/-! ## the model refines the trace acceptor -/

def WState.holdsAny : WState → Bool
  | .handed _ => true
  | .running _ => true
  | _ => false

/-- inside a `dispatch` call -/
def DState.inCall : DState → Bool
  | .idle => false
  | .refused _ => false
  | .panicked _ => false
  | _ => true

/-- what the acceptor knows about the job held by dispatcher `d` -/
def DOK (t : SState) (d : Nat) : DState → Prop
  | .idle => t.dcur d = none
  | .blocked => True
  | .trying j => t.dcur d = some j ∧ t.phase j = .inCall d ∧ t.run j = .notRun
  | .full j => t.dcur d = some j ∧ t.phase j = .inCall d ∧ t.run j = .notRun
  | .spawning j => t.dcur d = some j ∧ t.phase j = .inCall d ∧ t.run j = .notRun
  | .sending j => t.dcur d = some j ∧ t.phase j = .inCall d ∧ t.run j = .notRun
  | .refused j => t.dcur d = none ∧ t.phase j = .busy d ∧ t.run j = .notRun
  | .panicked j => t.dcur d = none ∧ t.phase j = .dropped ∧ t.run j = .notRun

def QOK (t : SState) (x : Nat × Nat) : Prop :=
  t.dcur x.1 = some x.2 ∧ t.phase x.2 = .inCall x.1 ∧ t.run x.2 = .notRun

def WOK (t : SState) (w : Nat) : WState → Prop
  | .handed j => t.phase j = .ok ∧ t.run j = .notRun ∧ t.wjob w = none
  | .running j => t.run j = .running w ∧ t.wjob w = some j
  | _ => t.wjob w = none

/-- the simulation relation between a model state and an acceptor state -/
structure Sim (s : State) (t : SState) : Prop where
  limit : t.limit = s.limit
  dok : ∀ d, d < s.nd → DOK t d (s.disp d)
  qok : ∀ x, x ∈ s.sendq → QOK t x
  wok : ∀ w, w < s.nw → WOK t w (s.wrk w)
  wfree : ∀ w, s.nw ≤ w → t.wjob w = none
  fresh : ∀ j, s.njobs ≤ j → t.phase j = .fresh ∧ t.run j = .notRun
  okc : t.okCount = cnt s.wrk WState.holdsAny s.nw + s.completed.length + s.delivered.length + s.crashed.length
  inc : t.inCalls = cnt s.disp DState.inCall s.nd
  nwb : s.nw ≤ t.okCount + cnt s.disp DState.isSending s.nd + cnt s.disp DState.isBlocked s.nd

theorem DOK_frame {t t' : SState} {d : Nat} {ds : DState} (h : DOK t d ds) (hd : t'.dcur d = t.dcur d)
    (hj : ∀ j, DState.holds j ds = true → t'.phase j = t.phase j ∧ t'.run j = t.run j) : DOK t' d ds := by
  cases ds with
  | idle => exact hd.trans h
  | blocked => trivial
  | trying j => obtain ⟨a, b⟩ := hj j (by simp [DState.holds]); exact ⟨hd.trans h.1, a.trans h.2.1, b.trans h.2.2⟩
  | full j => obtain ⟨a, b⟩ := hj j (by simp [DState.holds]); exact ⟨hd.trans h.1, a.trans h.2.1, b.trans h.2.2⟩
  | spawning j => obtain ⟨a, b⟩ := hj j (by simp [DState.holds]); exact ⟨hd.trans h.1, a.trans h.2.1, b.trans h.2.2⟩
  | sending j => obtain ⟨a, b⟩ := hj j (by simp [DState.holds]); exact ⟨hd.trans h.1, a.trans h.2.1, b.trans h.2.2⟩
  | refused j => obtain ⟨a, b⟩ := hj j (by simp [DState.holds]); exact ⟨hd.trans h.1, a.trans h.2.1, b.trans h.2.2⟩
  | panicked j => obtain ⟨a, b⟩ := hj j (by simp [DState.holds]); exact ⟨hd.trans h.1, a.trans h.2.1, b.trans h.2.2⟩

theorem WOK_frame {t t' : SState} {w : Nat} {ws : WState} (h : WOK t w ws) (hw : t'.wjob w = t.wjob w)
    (hj : ∀ j, WState.holds j ws = true → t'.phase j = t.phase j ∧ t'.run j = t.run j) : WOK t' w ws := by
  cases ws with
  | handed j => obtain ⟨a, b⟩ := hj j (by simp [WState.holds]); exact ⟨a.trans h.1, b.trans h.2.1, hw.trans h.2.2⟩
  | running j => obtain ⟨_, b⟩ := hj j (by simp [WState.holds]); exact ⟨b.trans h.1, hw.trans h.2⟩
  | starting => exact hw.trans h
  | ready => exact hw.trans h
  | parked => exact hw.trans h
  | leaving => exact hw.trans h
  | exited => exact hw.trans h

theorem QOK_frame {t t' : SState} {x : Nat × Nat} (h : QOK t x) (hd : t'.dcur x.1 = t.dcur x.1)
    (hj : t'.phase x.2 = t.phase x.2 ∧ t'.run x.2 = t.run x.2) : QOK t' x :=
  ⟨hd.trans h.1, hj.1.trans h.2.1, hj.2.trans h.2.2⟩

/-- All places other than the updated dispatcher `uD` / worker `uW` keep their clauses when the acceptor
changes only job `j` (which they do not hold), `dcur uD` and `wjob uW`. -/
theorem sim_others {s : State} {t t' : SState} (hS : Sim s t) {j : Nat} {uD uW : Option Nat} {q : List (Nat × Nat)}
    (hsole : Sole s j uD uW q)
    (hq : ∀ x, x ∈ q → x ∈ s.sendq ∧ some x.1 ≠ uD)
    (hph : ∀ j', j' ≠ j → t'.phase j' = t.phase j' ∧ t'.run j' = t.run j')
    (hdc : ∀ d', some d' ≠ uD → t'.dcur d' = t.dcur d')
    (hwj : ∀ w', some w' ≠ uW → t'.wjob w' = t.wjob w') :
    (∀ d', d' < s.nd → some d' ≠ uD → DOK t' d' (s.disp d')) ∧ (∀ x, x ∈ q → QOK t' x) ∧
    (∀ w', w' < s.nw → some w' ≠ uW → WOK t' w' (s.wrk w')) ∧ (∀ w', s.nw ≤ w' → some w' ≠ uW → t'.wjob w' = none) ∧
    (∀ j', s.njobs ≤ j' → j' ≠ j → t'.phase j' = .fresh ∧ t'.run j' = .notRun) := by
  refine ⟨?_, ?_, ?_, ?_, ?_⟩
  · intro d' hd' hne
    refine DOK_frame (hS.dok d' hd') (hdc d' hne) ?_
    intro j' hj'
    exact hph j' (by intro he; subst he; rw [hsole.disp d' hd' hne] at hj'; cases hj')
  · intro x hx
    obtain ⟨hm, hne⟩ := hq x hx
    exact QOK_frame (hS.qok x hm) (hdc x.1 hne) (hph x.2 (hsole.sendq x hx))
  · intro w' hw' hne
    refine WOK_frame (hS.wok w' hw') (hwj w' hne) ?_
    intro j' hj'
    exact hph j' (by intro he; subst he; rw [hsole.wrk w' hw' hne] at hj'; cases hj')
  · intro w' hw' hne
    exact (hwj w' hne).trans (hS.wfree w' hw')
  · intro j' hj' hne
    obtain ⟨a, b⟩ := hph j' hne
    obtain ⟨c, d⟩ := hS.fresh j' hj'
    exact ⟨a.trans c, b.trans d⟩

theorem Sole.weakenD {s : State} {j : Nat} {eW : Option Nat} {q : List (Nat × Nat)} (h : Sole s j none eW q) (d : Nat) :
    Sole s j (some d) eW q := ⟨fun d' hd' _ => h.disp d' hd' (by simp), h.wrk, h.sendq⟩

theorem Sole.weakenW {s : State} {j : Nat} {eD : Option Nat} {q : List (Nat × Nat)} (h : Sole s j eD none q) (w : Nat) :
    Sole s j eD (some w) q := ⟨h.disp, fun w' hw' _ => h.wrk w' hw' (by simp), h.sendq⟩

theorem Sole.subq {s : State} {j : Nat} {eD eW : Option Nat} {q q' : List (Nat × Nat)} (h : Sole s j eD eW q)
    (hs : ∀ x, x ∈ q' → x ∈ q) : Sole s j eD eW q' := ⟨h.disp, h.wrk, fun x hx => h.sendq x (hs x hx)⟩


abbrev tCall (t : SState) (d j : Nat) : SState :=
  { t with phase := upd t.phase j (.inCall d), dcur := upd t.dcur d (some j),
           inCalls := t.inCalls + 1, seen := max t.seen (j + 1) }
abbrev tRetOk (t : SState) (d j : Nat) : SState :=
  { t with phase := upd t.phase j .ok, dcur := upd t.dcur d none, inCalls := t.inCalls - 1, okCount := t.okCount + 1 }
abbrev tBusy (t : SState) (d j : Nat) : SState :=
  { t with phase := upd t.phase j (.busy d), dcur := upd t.dcur d none, inCalls := t.inCalls - 1 }
abbrev tPanic (t : SState) (d j : Nat) : SState :=
  { t with phase := upd t.phase j .dropped, dcur := upd t.dcur d none, inCalls := t.inCalls - 1 }
abbrev tBegin (t : SState) (w j : Nat) : SState :=
  { t with run := upd t.run j (.running w), wjob := upd t.wjob w (some j),
           nrun := t.nrun + 1, maxrun := max t.maxrun (t.nrun + 1) }
abbrev tFin (t : SState) (w j : Nat) : SState :=
  { t with run := upd t.run j .finished, wjob := upd t.wjob w none, nrun := t.nrun - 1 }

theorem step_call {t : SState} {d j : Nat} (h1 : t.dcur d = none) (h2 : t.phase j = .fresh ∨ t.phase j = .busy d)
    (h3 : t.run j = .notRun) : Spec.step t (.call d j) = some (tCall t d j) := by
  simp [Spec.step, h1, h2, h3]
theorem step_retOk {t : SState} {d j : Nat} (h1 : t.dcur d = some j) (h2 : t.phase j = .inCall d) :
    Spec.step t (.retOk d j) = some (tRetOk t d j) := by
  simp [Spec.step, h1, h2]
theorem step_retBusy {t : SState} {d j : Nat} (h1 : t.dcur d = some j) (h2 : t.phase j = .inCall d)
    (h3 : t.run j = .notRun) (h4 : 1 ≤ t.limit) (h5 : t.limit + 1 ≤ t.okCount + t.inCalls) :
    Spec.step t (.retBusy d j) = some (tBusy t d j) := by
  simp [Spec.step, h1, h2, h3, h4, h5]
theorem step_retPanic {t : SState} {d j : Nat} (h1 : t.dcur d = some j) (h2 : t.phase j = .inCall d)
    (h3 : t.run j = .notRun) (h4 : t.limit = 0) : Spec.step t (.retPanic d j) = some (tPanic t d j) := by
  simp [Spec.step, h1, h2, h3, h4]
theorem step_begin {t : SState} {w j : Nat} (h1 : (t.phase j).startable = true) (h2 : t.run j = .notRun)
    (h3 : t.wjob w = none) : Spec.step t (.begin w j) = some (tBegin t w j) := by
  simp [Spec.step, h1, h2, h3]
theorem step_fin {t : SState} {w j : Nat} (h1 : t.run j = .running w) (h2 : t.wjob w = some j) :
    Spec.step t (.fin w j) = some (tFin t w j) := by
  simp [Spec.step, h1, h2]

theorem some_ne_some {a b : Nat} (h : a ≠ b) : some a ≠ some b := by intro he; exact h (Option.some.inj he)

theorem sim_submit {s s' : State} {t : SState} {d : Nat} {k : Kind} (hI : Inv s) (hS : Sim s t)
    (h : doSubmit s d k = some s') :
    ∃ t', runObs t (obsOf s (.submit d k)) = some t' ∧ Sim s' t' := by
  obtain ⟨hd, hj, rfl⟩ := doSubmit_some h
  have hdok := hS.dok d hd
  rw [hj] at hdok
  obtain ⟨hf1, hf2⟩ := hS.fresh s.njobs (Nat.le_refl _)
  have hstep := step_call (d := d) hdok (.inl hf1) hf2
  refine ⟨tCall t d s.njobs, by simp [obsOf, runObs, hstep], ?_⟩
  have hsole := (sole_of_fresh hI (Nat.le_refl s.njobs)).weakenD d
  obtain ⟨o1, o2, o3, o4, o5⟩ := sim_others (t' := tCall t d s.njobs) (uW := none) hS hsole
    (fun x hx => ⟨hx, by
      intro he
      have := (hI.sendq_blocked x.1 x.2 hx).2
      simp only [Option.some.injEq] at he
      rw [he, hj] at this; cases this⟩)
    (fun j' hne => ⟨upd_ne _ _ hne, rfl⟩)
    (fun d' hne => upd_ne _ _ (by intro he; subst he; exact hne rfl))
    (fun w' _ => rfl)
  refine { limit := hS.limit, dok := ?_, qok := o2, wok := fun w hw => o3 w hw (by simp),
           wfree := fun w hw => o4 w hw (by simp), fresh := ?_, okc := hS.okc, inc := ?_, nwb := ?_ }
  · intro d' hd'
    by_cases he : d' = d
    · subst he
      show DOK _ d' (upd s.disp d' _ d')
      rw [upd_same]
      exact ⟨upd_same _ _ _, upd_same _ _ _, hf2⟩
    · show DOK _ d' (upd s.disp d _ d')
      rw [upd_ne _ _ he]
      exact o1 d' hd' (some_ne_some he)
  · intro j' hj'
    exact o5 j' (by have : s.njobs + 1 ≤ j' := hj'; omega) (by have : s.njobs + 1 ≤ j' := hj'; omega)
  · have := hS.inc
    show t.inCalls + 1 = cnt (upd s.disp d _) DState.inCall s.nd
    simp only [cnt_split _ _ hd, cntEx_upd, upd_same, hj, DState.inCall] at this ⊢
    cnt_norm at this ⊢; omega
  · have := hS.nwb
    show s.nw ≤ t.okCount + cnt (upd s.disp d _) DState.isSending s.nd + cnt (upd s.disp d _) DState.isBlocked s.nd
    simp only [cnt_split _ _ hd, cntEx_upd, upd_same, hj, DState.isSending, DState.isBlocked] at this ⊢
    cnt_norm at this ⊢; omega


/-- the fields `Sim` looks at, apart from `disp` and `wrk` -/
def SameRest (s s' : State) : Prop :=
  s'.limit = s.limit ∧ s'.nd = s.nd ∧ s'.sendq = s.sendq ∧ s'.nw = s.nw ∧ s'.njobs = s.njobs ∧
  s'.completed.length = s.completed.length ∧ s'.delivered.length = s.delivered.length ∧
  s'.crashed.length = s.crashed.length

/-- a dispatcher step the observer does not see -/
theorem sim_dispSilent {s s' : State} {t : SState} (hS : Sim s t) {d : Nat} (hd : d < s.nd) {y : DState}
    (hdisp : s'.disp = upd s.disp d y) (hwrk : s'.wrk = s.wrk) (hr : SameRest s s')
    (hy : DOK t d (s.disp d) → DOK t d y) (hin : DState.inCall y = DState.inCall (s.disp d))
    (hsb : (DState.isSending (s.disp d)).toNat + (DState.isBlocked (s.disp d)).toNat
      ≤ (DState.isSending y).toNat + (DState.isBlocked y).toNat) : Sim s' t := by
  obtain ⟨r1, r2, r3, r4, r5, r6, r7, r8⟩ := hr
  refine { limit := hS.limit.trans r1.symm, dok := ?_, qok := ?_, wok := ?_, wfree := ?_, fresh := ?_,
           okc := ?_, inc := ?_, nwb := ?_ }
  · intro d' hd'
    rw [r2] at hd'
    rw [hdisp]
    by_cases he : d' = d
    · subst he; rw [upd_same]; exact hy (hS.dok d' hd')
    · rw [upd_ne _ _ he]; exact hS.dok d' hd'
  · intro x hx; rw [r3] at hx; exact hS.qok x hx
  · intro w hw; rw [r4] at hw; rw [hwrk]; exact hS.wok w hw
  · intro w hw; rw [r4] at hw; exact hS.wfree w hw
  · intro j hj; rw [r5] at hj; exact hS.fresh j hj
  · rw [hwrk, r4, r6, r7, r8]; exact hS.okc
  · have := hS.inc
    rw [hdisp, r2]
    simp only [cnt_split _ _ hd, cntEx_upd, upd_same, hin] at this ⊢
    exact this
  · have := hS.nwb
    rw [hdisp, r2, r4]
    simp only [cnt_split _ _ hd, cntEx_upd, upd_same] at this ⊢
    omega

/-- a worker step the observer does not see -/
theorem sim_wrkSilent {s s' : State} {t : SState} (hS : Sim s t) {w : Nat} (hw : w < s.nw) {y : WState}
    (hwrk : s'.wrk = upd s.wrk w y) (hdisp : s'.disp = s.disp) (hr : SameRest s s')
    (hy : WOK t w (s.wrk w) → WOK t w y) (hh : WState.holdsAny y = WState.holdsAny (s.wrk w)) : Sim s' t := by
  obtain ⟨r1, r2, r3, r4, r5, r6, r7, r8⟩ := hr
  refine { limit := hS.limit.trans r1.symm, dok := ?_, qok := ?_, wok := ?_, wfree := ?_, fresh := ?_,
           okc := ?_, inc := ?_, nwb := ?_ }
  · intro d' hd'; rw [r2] at hd'; rw [hdisp]; exact hS.dok d' hd'
  · intro x hx; rw [r3] at hx; exact hS.qok x hx
  · intro w' hw'
    rw [r4] at hw'
    rw [hwrk]
    by_cases he : w' = w
    · subst he; rw [upd_same]; exact hy (hS.wok w' hw')
    · rw [upd_ne _ _ he]; exact hS.wok w' hw'
  · intro w' hw'; rw [r4] at hw'; exact hS.wfree w' hw'
  · intro j hj; rw [r5] at hj; exact hS.fresh j hj
  · have := hS.okc
    rw [hwrk, r4, r6, r7, r8]
    simp only [cnt_split _ _ hw, cntEx_upd, upd_same, hh] at this ⊢
    exact this
  · rw [hdisp, r2]; exact hS.inc
  · rw [hdisp, r2, r4]; exact hS.nwb

theorem sameRest_refl (s : State) : SameRest s s := ⟨rfl, rfl, rfl, rfl, rfl, rfl, rfl, rfl⟩

/-- a job handed to the head of the waiting queue: the observer sees `dispatch` return `Ok` -/
theorem sim_hand {s : State} {t : SState} {d w j : Nat} {rest : List Nat} {x : DState} (hI : Inv s) (hS : Sim s t)
    (hd : d < s.nd) (hx : s.disp d = x) (hxh : DState.holds j x = true)
    (hxd : DOK t d x → t.dcur d = some j ∧ t.phase j = .inCall d ∧ t.run j = .notRun)
    (hxi : DState.inCall x = true) (hxb : DState.isBlocked x = false) (hw : s.waiting = w :: rest) :
    Spec.step t (.retOk d j) = some (tRetOk t d j) ∧
    Sim { s with disp := upd s.disp d .idle, wrk := upd s.wrk w (.handed j), waiting := rest } (tRetOk t d j) := by
  obtain ⟨hwn, hwp⟩ := hI.wait_parked w (by simp [hw])
  have hdok := hS.dok d hd
  rw [hx] at hdok
  obtain ⟨c1, c2, c3⟩ := hxd hdok
  refine ⟨step_retOk c1 c2, ?_⟩
  have hwok := hS.wok w hwn
  rw [hwp] at hwok
  have hsole := (sole_of_disp hI hd (by rw [hx]; exact hxh)).weakenW w
  have hq : s.sendq = [] := hI.chan (by simp [hw])
  obtain ⟨o1, o2, o3, o4, o5⟩ := sim_others (t' := tRetOk t d j) hS hsole
    (fun x' hx' => by rw [hq] at hx'; cases hx')
    (fun j' hne => ⟨upd_ne _ _ hne, rfl⟩)
    (fun d' hne => upd_ne _ _ (by intro he; subst he; exact hne rfl))
    (fun w' _ => rfl)
  refine { limit := hS.limit, dok := ?_, qok := o2, wok := ?_, wfree := fun w' hw' => o4 w' hw' (by
             intro he; simp only [Option.some.injEq] at he; subst he; exact absurd hwn (by have : s.nw ≤ w' := hw'; omega)),
           fresh := ?_, okc := ?_, inc := ?_, nwb := ?_ }
  · intro d' hd'
    by_cases he : d' = d
    · subst he
      show DOK _ d' (upd s.disp d' _ d')
      rw [upd_same]
      exact upd_same _ _ _
    · show DOK _ d' (upd s.disp d _ d')
      rw [upd_ne _ _ he]
      exact o1 d' hd' (some_ne_some he)
  · intro w' hw'
    by_cases he : w' = w
    · subst he
      show WOK _ w' (upd s.wrk w' _ w')
      rw [upd_same]
      exact ⟨upd_same _ _ _, c3, hwok⟩
    · show WOK _ w' (upd s.wrk w _ w')
      rw [upd_ne _ _ he]
      exact o3 w' hw' (some_ne_some he)
  · intro j' hj'
    have hjn : j < s.njobs := by
      have hp := hI.place j
      have := cnt_pos s.disp (DState.holds j) hd (by rw [hx]; exact hxh)
      unfold holders at hp
      split at hp
      · assumption
      · omega
    exact o5 j' hj' (by have : s.njobs ≤ j' := hj'; omega)
  · have := hS.okc
    show t.okCount + 1 = cnt (upd s.wrk w _) WState.holdsAny s.nw + _ + _ + _
    simp only [cnt_split _ _ hwn, cntEx_upd, upd_same, hwp, WState.holdsAny] at this ⊢
    cnt_norm at this ⊢; omega
  · have := hS.inc
    show t.inCalls - 1 = cnt (upd s.disp d _) DState.inCall s.nd
    simp only [cnt_split _ _ hd, cntEx_upd, upd_same, hx, hxi] at this ⊢
    rw [show DState.inCall DState.idle = false from rfl]
    simp at this ⊢; omega
  · have := hS.nwb
    show s.nw ≤ t.okCount + 1 + cnt (upd s.disp d _) DState.isSending s.nd + cnt (upd s.disp d _) DState.isBlocked s.nd
    simp only [cnt_split _ _ hd, cntEx_upd, upd_same, hx, hxb] at this ⊢
    rw [show DState.isSending DState.idle = false from rfl, show DState.isBlocked DState.idle = false from rfl]
    revert this; cases DState.isSending x <;> simp <;> omega


theorem job_known_of_disp {s : State} (hI : Inv s) {d j : Nat} (hd : d < s.nd) (hh : DState.holds j (s.disp d) = true) :
    j < s.njobs := by
  have hp := hI.place j
  have := cnt_pos s.disp (DState.holds j) hd hh
  unfold holders at hp
  split at hp
  · assumption
  · omega

theorem job_known_of_wrk {s : State} (hI : Inv s) {w j : Nat} (hw : w < s.nw) (hh : WState.holds j (s.wrk w) = true) :
    j < s.njobs := by
  have hp := hI.place j
  have := cnt_pos s.wrk (WState.holds j) hw hh
  unfold holders at hp
  split at hp
  · assumption
  · omega

/-- the dispatcher's call ends without the job having been handed over (`Err(DispatchError(f))`, or the
`thread_limit == 0` panic), or starts again (`retry`): only `disp d` and the acceptor's view of job `j` change -/
theorem sim_dispObs {s : State} {t t' : SState} {d j : Nat} {y : DState} (hI : Inv s) (hS : Sim s t) (hd : d < s.nd)
    (hh : DState.holds j (s.disp d) = true) (hnb : s.disp d ≠ .blocked)
    (hlim : t'.limit = t.limit) (hrun : t'.run = t.run) (hwj : t'.wjob = t.wjob) (hok : t'.okCount = t.okCount)
    (hph : ∀ j', j' ≠ j → t'.phase j' = t.phase j') (hdc : ∀ d', d' ≠ d → t'.dcur d' = t.dcur d')
    (hy : DOK t' d y)
    (hinc : t'.inCalls + (DState.inCall (s.disp d)).toNat = t.inCalls + (DState.inCall y).toNat)
    (hsb : (DState.isSending (s.disp d)).toNat + (DState.isBlocked (s.disp d)).toNat
      ≤ (DState.isSending y).toNat + (DState.isBlocked y).toNat) :
    Sim { s with disp := upd s.disp d y } t' := by
  have hsole := sole_of_disp hI hd hh
  obtain ⟨o1, o2, o3, o4, o5⟩ := sim_others (t' := t') (uW := none) hS hsole
    (fun x hx => ⟨hx, by
      intro he
      have := (hI.sendq_blocked x.1 x.2 hx).2
      simp only [Option.some.injEq] at he
      rw [he] at this; exact hnb this⟩)
    (fun j' hne => ⟨hph j' hne, by rw [hrun]⟩)
    (fun d' hne => hdc d' (by intro he; subst he; exact hne rfl))
    (fun w' _ => by rw [hwj])
  have hjn := job_known_of_disp hI hd hh
  refine { limit := hlim.trans hS.limit, dok := ?_, qok := o2, wok := fun w hw => o3 w hw (by simp),
           wfree := fun w hw => o4 w hw (by simp), fresh := fun j' hj' => o5 j' hj' (by have : s.njobs ≤ j' := hj'; omega),
           okc := hok.trans hS.okc, inc := ?_, nwb := ?_ }
  · intro d' hd'
    by_cases he : d' = d
    · subst he
      show DOK _ d' (upd s.disp d' _ d')
      rw [upd_same]; exact hy
    · show DOK _ d' (upd s.disp d _ d')
      rw [upd_ne _ _ he]
      exact o1 d' hd' (some_ne_some he)
  · have := hS.inc
    show t'.inCalls = cnt (upd s.disp d _) DState.inCall s.nd
    simp only [cnt_split _ _ hd, cntEx_upd, upd_same] at this ⊢
    omega
  · have := hS.nwb
    show s.nw ≤ t'.okCount + cnt (upd s.disp d _) DState.isSending s.nd + cnt (upd s.disp d _) DState.isBlocked s.nd
    simp only [cnt_split _ _ hd, cntEx_upd, upd_same, hok] at this ⊢
    omega

/-- a worker starts or ends a job body: only `wrk w` and the acceptor's view of job `j` and thread `w` change -/
theorem sim_wrkObs {s s' : State} {t t' : SState} {w j : Nat} {y : WState} (hI : Inv s) (hS : Sim s t) (hw : w < s.nw)
    (hh : WState.holds j (s.wrk w) = true)
    (hwrk : s'.wrk = upd s.wrk w y) (hdisp : s'.disp = s.disp) (hr1 : s'.limit = s.limit) (hr2 : s'.nd = s.nd)
    (hr3 : s'.sendq = s.sendq) (hr4 : s'.nw = s.nw) (hr5 : s'.njobs = s.njobs)
    (hlen : cnt s'.wrk WState.holdsAny s'.nw + s'.completed.length + s'.delivered.length + s'.crashed.length
      = cnt s.wrk WState.holdsAny s.nw + s.completed.length + s.delivered.length + s.crashed.length)
    (hlim : t'.limit = t.limit) (hphase : t'.phase = t.phase) (hdc : t'.dcur = t.dcur) (hok : t'.okCount = t.okCount)
    (hinc : t'.inCalls = t.inCalls)
    (hrun : ∀ j', j' ≠ j → t'.run j' = t.run j') (hwj : ∀ w', w' ≠ w → t'.wjob w' = t.wjob w')
    (hy : WOK t' w y) : Sim s' t' := by
  have hsole := sole_of_wrk hI hw hh
  obtain ⟨o1, o2, o3, o4, o5⟩ := sim_others (t' := t') (uD := none) hS hsole
    (fun x hx => ⟨hx, by simp⟩)
    (fun j' hne => ⟨by rw [hphase], hrun j' hne⟩)
    (fun d' _ => by rw [hdc])
    (fun w' hne => hwj w' (by intro he; subst he; exact hne rfl))
  have hjn := job_known_of_wrk hI hw hh
  refine { limit := (hlim.trans hS.limit).trans hr1.symm, dok := ?_, qok := ?_, wok := ?_, wfree := ?_, fresh := ?_,
           okc := ?_, inc := ?_, nwb := ?_ }
  · intro d' hd'; rw [hr2] at hd'; rw [hdisp]; exact o1 d' hd' (by simp)
  · intro x hx; rw [hr3] at hx; exact o2 x hx
  · intro w' hw'
    rw [hr4] at hw'
    rw [hwrk]
    by_cases he : w' = w
    · subst he; rw [upd_same]; exact hy
    · rw [upd_ne _ _ he]; exact o3 w' hw' (some_ne_some he)
  · intro w' hw'
    rw [hr4] at hw'
    exact o4 w' hw' (by intro he; simp only [Option.some.injEq] at he; subst he; omega)
  · intro j' hj'; rw [hr5] at hj'; exact o5 j' hj' (by omega)
  · rw [hok, hlen]; exact hS.okc
  · rw [hinc, hdisp, hr2]; exact hS.inc
  · rw [hok, hdisp, hr2, hr4]; exact hS.nwb


theorem takeOwned_length (d : Nat) (l : List Done) (e : Done) (rest : List Done) (h : takeOwned d l = some (e, rest)) :
    l.length = rest.length + 1 := by
  have := (takeOwned_countP (fun _ => true) d l e rest h).1
  simpa using this

/-- `counter` never exceeds the spawned threads plus the dispatchers about to spawn -/
theorem counter_le_spawned {s : State} (hI : Inv s) : s.counter ≤ s.nw + cnt s.disp DState.isSpawning s.nd := by
  cases hr : s.reserve
  · rw [hI.counter_raw hr]; have := cnt_le s.wrk WState.counted s.nw; omega
  · rw [hI.counter_res hr]; have := cnt_le s.wrk WState.alive s.nw; omega

/-- past the limit check: the dispatcher has spawned, or is about to spawn, a thread for its job -/
def DState.past : DState → Bool
  | .spawning _ => true
  | .sending _ => true
  | .blocked => true
  | _ => false

theorem cnt_past {f : Nat → DState} : ∀ n : Nat,
    cnt f DState.past n = cnt f DState.isSpawning n + cnt f DState.isSending n + cnt f DState.isBlocked n
  | 0 => rfl
  | n + 1 => by
    rw [cnt_succ, cnt_succ, cnt_succ, cnt_succ, cnt_past n]
    cases f n <;> simp [DState.past, DState.isSpawning, DState.isSending, DState.isBlocked] <;> omega

theorem cntEx_mono {α : Type} (f : Nat → α) (p q : α → Bool) (i : Nat) (h : ∀ a, p a = true → q a = true) :
    ∀ n : Nat, cntEx f p i n ≤ cntEx f q i n
  | 0 => Nat.le_refl 0
  | n + 1 => by
    have ih := cntEx_mono f p q i h n
    rw [cntEx, cntEx]
    by_cases hn : n = i
    · rw [if_pos hn, if_pos hn]; omega
    · rw [if_neg hn, if_neg hn]
      cases hp : p (f n)
      · simp; omega
      · rw [h _ hp]; omega

/-- a dispatcher that is still before the limit check is inside a call but not past the check -/
theorem past_lt_inCall {s : State} {d j : Nat} (hd : d < s.nd) (hj : s.disp d = .full j) :
    cnt s.disp DState.past s.nd + 1 ≤ cnt s.disp DState.inCall s.nd := by
  rw [cnt_split _ DState.past hd, cnt_split _ DState.inCall hd, hj]
  have := cntEx_mono s.disp DState.past DState.inCall d
    (by intro a ha; cases a <;> simp_all [DState.past, DState.inCall]) s.nd
  simp [DState.past, DState.inCall]
  omega

theorem sim_step {s s' : State} {t : SState} {e : Event} (hI : Inv s) (hS : Sim s t) (h : step? s e = some s') :
    ∃ t', runObs t (obsOf s e) = some t' ∧ Sim s' t' := by
  cases e with
  | submit d k => exact sim_submit hI hS h
  | trySend d =>
    obtain ⟨hd, j, hj, (⟨w, rest, hw, rfl⟩ | ⟨hw, rfl⟩)⟩ := doTrySend_some h
    · obtain ⟨h1, h2⟩ := sim_hand hI hS hd hj (by simp [DState.holds]) (fun x => x) rfl rfl hw
      exact ⟨_, by simp [obsOf, hj, hw, runObs, h1], h2⟩
    · refine ⟨t, by simp [obsOf, hj, hw, runObs], ?_⟩
      exact sim_dispSilent hS hd rfl rfl (sameRest_refl s) (by rw [hj]; exact fun x => x) (by rw [hj]; rfl)
        (by rw [hj]; simp [DState.isSending, DState.isBlocked])
  | load d =>
    obtain ⟨hd, j, hj, (⟨h0, rfl⟩ | ⟨h0, hc, rfl⟩ | ⟨h0, hlt, _, rfl⟩ | ⟨h0, hlt, _, rfl⟩)⟩ := doLoad_some h
    · have hdok := hS.dok d hd
      rw [hj] at hdok
      obtain ⟨c1, c2, c3⟩ := hdok
      have hstep := step_retPanic c1 c2 c3 (hS.limit.trans h0)
      refine ⟨tPanic t d j, by simp [obsOf, hj, h0, runObs, hstep], ?_⟩
      refine sim_dispObs hI hS hd (by rw [hj]; simp [DState.holds]) (by rw [hj]; simp) rfl rfl rfl rfl
        (fun j' hne => upd_ne _ _ hne) (fun d' hne => upd_ne _ _ hne) ⟨upd_same _ _ _, upd_same _ _ _, c3⟩ ?_
        (by rw [hj]; simp [DState.isSending, DState.isBlocked])
      have := hS.inc
      rw [cnt_split _ _ hd, hj] at this
      rw [hj]; simp [DState.inCall] at this ⊢; omega
    · have hdok := hS.dok d hd
      rw [hj] at hdok
      obtain ⟨c1, c2, c3⟩ := hdok
      have hinc := hS.inc
      have hnwb := hS.nwb
      have hcs := counter_le_spawned hI
      have hjust : t.limit + 1 ≤ t.okCount + t.inCalls := by
        have e1 := cnt_past (f := s.disp) s.nd
        have e2 := past_lt_inCall hd hj
        rw [hS.limit]
        omega
      have hstep := step_retBusy c1 c2 c3 (by rw [hS.limit]; omega) hjust
      refine ⟨tBusy t d j, by simp [obsOf, hj, h0, hc, runObs, hstep], ?_⟩
      refine sim_dispObs hI hS hd (by rw [hj]; simp [DState.holds]) (by rw [hj]; simp) rfl rfl rfl rfl
        (fun j' hne => upd_ne _ _ hne) (fun d' hne => upd_ne _ _ hne) ⟨upd_same _ _ _, upd_same _ _ _, c3⟩ ?_
        (by rw [hj]; simp [DState.isSending, DState.isBlocked])
      rw [cnt_split _ _ hd, hj] at hinc
      rw [hj]; simp [DState.inCall] at hinc ⊢; omega
    · have hnle : ¬ s.limit ≤ s.counter := by omega
      refine ⟨t, by simp [obsOf, hj, h0, hnle, runObs], ?_⟩
      exact sim_dispSilent hS hd rfl rfl (sameRest_refl s) (by rw [hj]; exact fun x => x) (by rw [hj]; rfl)
        (by rw [hj]; simp [DState.isSending, DState.isBlocked])
    · have hnle : ¬ s.limit ≤ s.counter := by omega
      refine ⟨t, by simp [obsOf, hj, h0, hnle, runObs], ?_⟩
      exact sim_dispSilent hS hd rfl rfl (sameRest_refl s) (by rw [hj]; exact fun x => x) (by rw [hj]; rfl)
        (by rw [hj]; simp [DState.isSending, DState.isBlocked])
  | spawn d =>
    obtain ⟨hd, j, hj, rfl⟩ := doSpawn_some h
    refine ⟨t, by simp [obsOf, runObs], ?_⟩
    refine { limit := hS.limit, dok := ?_, qok := hS.qok, wok := ?_, wfree := ?_, fresh := hS.fresh,
             okc := ?_, inc := ?_, nwb := ?_ }
    · intro d' hd'
      by_cases he : d' = d
      · subst he
        show DOK _ d' (upd s.disp d' _ d')
        rw [upd_same]
        have := hS.dok d' hd; rw [hj] at this; exact this
      · show DOK _ d' (upd s.disp d _ d')
        rw [upd_ne _ _ he]; exact hS.dok d' hd'
    · intro w hw
      by_cases he : w = s.nw
      · subst he
        show WOK _ _ (upd s.wrk s.nw _ s.nw)
        rw [upd_same]; exact hS.wfree s.nw (Nat.le_refl _)
      · show WOK _ w (upd s.wrk s.nw _ w)
        rw [upd_ne _ _ he]; exact hS.wok w (by have : w < s.nw + 1 := hw; omega)
    · intro w hw; exact hS.wfree w (by have : s.nw + 1 ≤ w := hw; omega)
    · have := hS.okc
      show t.okCount = cnt (upd s.wrk s.nw _) WState.holdsAny (s.nw + 1) + _ + _ + _
      rw [cnt_push]; simp [WState.holdsAny]; omega
    · have := hS.inc
      show t.inCalls = cnt (upd s.disp d _) DState.inCall s.nd
      simp only [cnt_split _ _ hd, cntEx_upd, upd_same, hj] at this ⊢
      exact this
    · have := hS.nwb
      show s.nw + 1 ≤ t.okCount + cnt (upd s.disp d _) DState.isSending s.nd + cnt (upd s.disp d _) DState.isBlocked s.nd
      simp only [cnt_split _ _ hd, cntEx_upd, upd_same, hj] at this ⊢
      simp [DState.isSending, DState.isBlocked] at this ⊢; omega
  | send d =>
    obtain ⟨hd, j, hj, (⟨w, rest, hw, rfl⟩ | ⟨hw, rfl⟩)⟩ := doSend_some h
    · obtain ⟨h1, h2⟩ := sim_hand hI hS hd hj (by simp [DState.holds]) (fun x => x) rfl rfl hw
      exact ⟨_, by simp [obsOf, hj, hw, runObs, h1], h2⟩
    · refine ⟨t, by simp [obsOf, hj, hw, runObs], ?_⟩
      have hdok := hS.dok d hd
      rw [hj] at hdok
      refine { limit := hS.limit, dok := ?_, qok := ?_, wok := hS.wok, wfree := hS.wfree, fresh := hS.fresh,
               okc := hS.okc, inc := ?_, nwb := ?_ }
      · intro d' hd'
        by_cases he : d' = d
        · subst he
          show DOK _ d' (upd s.disp d' _ d')
          rw [upd_same]; trivial
        · show DOK _ d' (upd s.disp d _ d')
          rw [upd_ne _ _ he]; exact hS.dok d' hd'
      · intro x hx
        rcases List.mem_append.mp hx with h1 | h1
        · exact hS.qok x h1
        · simp only [List.mem_singleton] at h1; subst h1; exact hdok
      · have := hS.inc
        show t.inCalls = cnt (upd s.disp d _) DState.inCall s.nd
        simp only [cnt_split _ _ hd, cntEx_upd, upd_same, hj] at this ⊢
        exact this
      · have := hS.nwb
        show s.nw ≤ t.okCount + cnt (upd s.disp d _) DState.isSending s.nd + cnt (upd s.disp d _) DState.isBlocked s.nd
        simp only [cnt_split _ _ hd, cntEx_upd, upd_same, hj] at this ⊢
        simp [DState.isSending, DState.isBlocked] at this ⊢; omega
  | retry d =>
    obtain ⟨hd, j, hj, rfl⟩ := doRetry_some h
    have hdok := hS.dok d hd
    rw [hj] at hdok
    obtain ⟨c1, c2, c3⟩ := hdok
    have hstep := step_call (d := d) c1 (.inr c2) c3
    refine ⟨tCall t d j, by simp [obsOf, hj, runObs, hstep], ?_⟩
    refine sim_dispObs hI hS hd (by rw [hj]; simp [DState.holds]) (by rw [hj]; simp) rfl rfl rfl rfl
      (fun j' hne => upd_ne _ _ hne) (fun d' hne => upd_ne _ _ hne) ⟨upd_same _ _ _, upd_same _ _ _, c3⟩ ?_
      (by rw [hj]; simp [DState.isSending, DState.isBlocked])
    rw [hj]; simp [DState.inCall]
  | giveUp d =>
    obtain ⟨hd, j, (⟨hj, rfl⟩ | ⟨hj, rfl⟩)⟩ := doGiveUp_some h
    · refine ⟨t, by simp [obsOf, runObs], ?_⟩
      exact sim_dispSilent hS hd rfl rfl (sameRest_refl s) (by rw [hj]; exact fun x => x.1) (by rw [hj]; rfl)
        (by rw [hj]; simp [DState.isSending, DState.isBlocked])
    · refine ⟨t, by simp [obsOf, runObs], ?_⟩
      exact sim_dispSilent hS hd rfl rfl (sameRest_refl s) (by rw [hj]; exact fun x => x.1) (by rw [hj]; rfl)
        (by rw [hj]; simp [DState.isSending, DState.isBlocked])
  | reap d =>
    obtain ⟨e, rest, he, rfl⟩ := doReap_some h
    refine ⟨t, by simp [obsOf, runObs], ?_⟩
    have hl := takeOwned_length d _ _ _ he
    exact { limit := hS.limit, dok := hS.dok, qok := hS.qok, wok := hS.wok, wfree := hS.wfree, fresh := hS.fresh,
            okc := by have := hS.okc; show t.okCount = _ + rest.length + (e :: s.delivered).length + _; simp; omega,
            inc := hS.inc, nwb := hS.nwb }
  | count w =>
    obtain ⟨hw, hs, (⟨_, rfl⟩ | ⟨_, rfl⟩)⟩ := doCount_some h <;>
    · refine ⟨t, by simp [obsOf, runObs], ?_⟩
      exact sim_wrkSilent hS hw rfl rfl (sameRest_refl s) (by rw [hs]; exact fun x => x) (by rw [hs]; rfl)
  | recv w =>
    obtain ⟨hw, hs, (⟨d, j, rest, hq, rfl⟩ | ⟨hq, rfl⟩)⟩ := doRecv_some h
    · obtain ⟨hd, hb⟩ := hI.sendq_blocked d j (by rw [hq]; simp)
      obtain ⟨c1, c2, c3⟩ := hS.qok (d, j) (by rw [hq]; simp)
      have hwok := hS.wok w hw
      rw [hs] at hwok
      have hb1 := step_begin (w := w) (show (t.phase j).startable = true by rw [c2]; rfl) c3 hwok
      have hb2 : Spec.step (tBegin t w j) (.retOk d j) = some (tRetOk (tBegin t w j) d j) := step_retOk c1 c2
      refine ⟨tRetOk (tBegin t w j) d j, by simp [obsOf, hs, hq, runObs, hb1, hb2], ?_⟩
      have hsole := ((sole_of_sendq hI hq).weakenD d).weakenW w
      have hnd := hI.sendq_nodup
      rw [hq, List.map_cons, List.nodup_cons] at hnd
      obtain ⟨o1, o2, o3, o4, o5⟩ := sim_others (t' := tRetOk (tBegin t w j) d j) hS hsole
        (fun x hx => ⟨by rw [hq]; exact List.mem_cons_of_mem _ hx, by
          intro he
          simp only [Option.some.injEq] at he
          exact hnd.1 (List.mem_map.mpr ⟨x, hx, he⟩)⟩)
        (fun j' hne => ⟨upd_ne _ _ hne, upd_ne _ _ hne⟩)
        (fun d' hne => upd_ne _ _ (by intro he; subst he; exact hne rfl))
        (fun w' hne => upd_ne _ _ (by intro he; subst he; exact hne rfl))
      have hjn : j < s.njobs := by
        have hp := hI.place j
        unfold holders at hp
        rw [hq, List.countP_cons] at hp
        simp only [beq_self_eq_true, if_true] at hp
        split at hp
        · assumption
        · omega
      refine { limit := hS.limit, dok := ?_, qok := o2, wok := ?_, wfree := ?_, fresh := ?_, okc := ?_, inc := ?_, nwb := ?_ }
      · intro d' hd'
        by_cases he : d' = d
        · subst he
          show DOK _ d' (upd s.disp d' _ d')
          rw [upd_same]; exact upd_same _ _ _
        · show DOK _ d' (upd s.disp d _ d')
          rw [upd_ne _ _ he]; exact o1 d' hd' (some_ne_some he)
      · intro w' hw'
        by_cases he : w' = w
        · subst he
          show WOK _ w' (upd s.wrk w' _ w')
          rw [upd_same]
          exact ⟨upd_same _ _ _, upd_same _ _ _⟩
        · show WOK _ w' (upd s.wrk w _ w')
          rw [upd_ne _ _ he]; exact o3 w' hw' (some_ne_some he)
      · intro w' hw'
        exact o4 w' hw' (by intro he; simp only [Option.some.injEq] at he; subst he; exact absurd hw (by have : s.nw ≤ w' := hw'; omega))
      · intro j' hj'; exact o5 j' hj' (by have : s.njobs ≤ j' := hj'; omega)
      · have := hS.okc
        show t.okCount + 1 = cnt (upd s.wrk w _) WState.holdsAny s.nw + _ + _ + _
        simp only [cnt_split _ _ hw, cntEx_upd, upd_same, hs] at this ⊢
        simp [WState.holdsAny] at this ⊢; omega
      · have := hS.inc
        show t.inCalls - 1 = cnt (upd s.disp d _) DState.inCall s.nd
        simp only [cnt_split _ _ hd, cntEx_upd, upd_same, hb] at this ⊢
        simp [DState.inCall] at this ⊢; omega
      · have := hS.nwb
        show s.nw ≤ t.okCount + 1 + cnt (upd s.disp d _) DState.isSending s.nd + cnt (upd s.disp d _) DState.isBlocked s.nd
        simp only [cnt_split _ _ hd, cntEx_upd, upd_same, hb] at this ⊢
        simp [DState.isSending, DState.isBlocked] at this ⊢; omega
    · refine ⟨t, by simp [obsOf, hs, hq, runObs], ?_⟩
      exact sim_wrkSilent hS hw rfl rfl (sameRest_refl s) (by rw [hs]; exact fun x => x) (by rw [hs]; rfl)
  | wake w =>
    obtain ⟨hw, j, hs, rfl⟩ := doWake_some h
    have hwok := hS.wok w hw
    rw [hs] at hwok
    obtain ⟨c1, c2, c3⟩ := hwok
    have hb1 := step_begin (w := w) (show (t.phase j).startable = true by rw [c1]; rfl) c2 c3
    refine ⟨tBegin t w j, by simp [obsOf, hs, runObs, hb1], ?_⟩
    refine sim_wrkObs hI hS hw (by rw [hs]; simp [WState.holds]) rfl rfl rfl rfl rfl rfl rfl ?_ rfl rfl rfl rfl rfl
      (fun j' hne => upd_ne _ _ hne) (fun w' hne => upd_ne _ _ hne) ⟨upd_same _ _ _, upd_same _ _ _⟩
    show cnt (upd s.wrk w _) WState.holdsAny s.nw + _ + _ + _ = _
    simp only [cnt_split _ _ hw, cntEx_upd, upd_same, hs]
    simp [WState.holdsAny]
  | timeout w =>
    obtain ⟨hw, hs, rfl⟩ := doTimeout_some h
    refine ⟨t, by simp [obsOf, runObs], ?_⟩
    exact sim_wrkSilent hS hw rfl rfl (sameRest_refl s) (by rw [hs]; exact fun x => x) (by rw [hs]; rfl)
  | finish w =>
    obtain ⟨hw, j, hs, (⟨_, rfl⟩ | ⟨_, rfl⟩)⟩ := doFinish_some h
    all_goals
      have hwok := hS.wok w hw
      rw [hs] at hwok
      obtain ⟨c1, c2⟩ := hwok
      have hb1 := step_fin c1 c2
      refine ⟨tFin t w j, by simp [obsOf, hs, runObs, hb1], ?_⟩
      refine sim_wrkObs hI hS hw (by rw [hs]; simp [WState.holds]) rfl rfl rfl rfl rfl rfl rfl ?_ rfl rfl rfl rfl rfl
        (fun j' hne => upd_ne _ _ hne) (fun w' hne => upd_ne _ _ hne) (upd_same _ _ _)
      show cnt (upd s.wrk w _) WState.holdsAny s.nw + _ + _ + _ = _
      simp only [cnt_split _ _ hw, cntEx_upd, upd_same, hs]
      simp [WState.holdsAny]
      try omega
  | exit w =>
    obtain ⟨hw, hs, rfl⟩ := doExit_some h
    refine ⟨t, by simp [obsOf, runObs], ?_⟩
    exact sim_wrkSilent hS hw rfl rfl (sameRest_refl s) (by rw [hs]; exact fun x => x) (by rw [hs]; rfl)


theorem sim_init (limit nd : Nat) (reserve : Bool) : Sim (init limit nd reserve) (Spec.sinit limit) := by
  have z1 : cnt (fun _ : Nat => DState.idle) DState.inCall nd = 0 := cnt_zero_of _ _ _ (fun _ _ => rfl)
  refine { limit := rfl, dok := fun d _ => rfl, qok := ?_, wok := ?_, wfree := fun _ _ => rfl,
           fresh := fun _ _ => ⟨rfl, rfl⟩, okc := rfl, inc := ?_, nwb := Nat.zero_le _ }
  · intro x hx; cases hx
  · intro w hw; exact absurd hw (Nat.not_lt_zero _)
  · show 0 = cnt (fun _ : Nat => DState.idle) DState.inCall nd
    rw [z1]

theorem runObs_append (t : SState) : ∀ (a b : List Obs), runObs t (a ++ b) = (runObs t a).bind (fun t' => runObs t' b)
  | [], b => rfl
  | o :: a, b => by
    show runObs t (o :: (a ++ b)) = _
    rw [runObs, runObs]
    cases Spec.step t o with
    | none => rfl
    | some t1 => exact runObs_append t1 a b

/-- every schedule of the model projects to a history the acceptor accepts -/
theorem sim_run : ∀ {evs : List Event} {s s' : State} {t : SState}, Inv s → Sim s t → run? s evs = some s' →
    ∃ t', runObs t (trace s evs) = some t' ∧ Sim s' t'
  | [], s, s', t, _, hS, h => by
    simp [run?] at h; subst h
    exact ⟨t, rfl, hS⟩
  | e :: es, s, s', t, hI, hS, h => by
    unfold run? at h
    split at h
    · rename_i s1 h1
      obtain ⟨t1, ht1, hS1⟩ := sim_step hI hS h1
      obtain ⟨t2, ht2, hS2⟩ := sim_run (inv_step hI h1) hS1 h
      refine ⟨t2, ?_, hS2⟩
      rw [trace, h1]
      show runObs t (obsOf s e ++ trace s1 es) = some t2
      rw [runObs_append, ht1]
      exact ht2
    · cases h

end Compio.Asyncify
