/- helper lemmas for the C17 model (Compio/Model/AsyncifyPool.lean): counting over point-updated
functions, one inversion lemma per transition, and the inductive invariant `Inv` with its preservation. -/
import Compio.Model.AsyncifyPool

namespace Compio.Asyncify

/-! ## point updates and counting -/

@[simp] theorem upd_same {α : Type} (f : Nat → α) (i : Nat) (x : α) : upd f i x i = x := by
  simp [upd]

theorem upd_ne {α : Type} (f : Nat → α) {i k : Nat} (x : α) (h : k ≠ i) : upd f i x k = f k := by
  simp [upd, h]

theorem cnt_succ {α : Type} (f : Nat → α) (p : α → Bool) (n : Nat) :
    cnt f p (n + 1) = cnt f p n + (p (f n)).toNat := by
  cases h : p (f n) <;> simp [cnt, h]

/-- `cnt` without index `i` -/
def cntEx {α : Type} (f : Nat → α) (p : α → Bool) (i : Nat) : Nat → Nat
  | 0 => 0
  | n + 1 => cntEx f p i n + (if n = i then 0 else (p (f n)).toNat)

theorem cnt_split_ge {α : Type} (f : Nat → α) (p : α → Bool) {i : Nat} :
    ∀ {n : Nat}, n ≤ i → cnt f p n = cntEx f p i n
  | 0, _ => rfl
  | n + 1, h => by
    rw [cnt_succ, cntEx, cnt_split_ge f p (show n ≤ i by omega), if_neg (by omega)]

theorem cnt_split {α : Type} (f : Nat → α) (p : α → Bool) {i : Nat} :
    ∀ {n : Nat}, i < n → cnt f p n = cntEx f p i n + (p (f i)).toNat
  | 0, h => by omega
  | n + 1, h => by
    rw [cnt_succ, cntEx]
    by_cases hn : n = i
    · subst hn
      rw [if_pos rfl, cnt_split_ge f p (Nat.le_refl _)]
      omega
    · rw [if_neg hn, cnt_split f p (show i < n by omega)]
      omega

@[simp] theorem cntEx_upd {α : Type} (f : Nat → α) (p : α → Bool) (i : Nat) (x : α) :
    ∀ n : Nat, cntEx (upd f i x) p i n = cntEx f p i n
  | 0 => rfl
  | n + 1 => by
    rw [cntEx, cntEx, cntEx_upd f p i x n]
    by_cases hn : n = i
    · rw [if_pos hn, if_pos hn]
    · rw [if_neg hn, if_neg hn, upd_ne f x hn]

/-- an update at or beyond the range is invisible -/
theorem cnt_upd_ge {α : Type} (f : Nat → α) (p : α → Bool) {i n : Nat} (x : α) (h : n ≤ i) :
    cnt (upd f i x) p n = cnt f p n := by
  rw [cnt_split_ge _ p h, cnt_split_ge f p h, cntEx_upd]

/-- a new element appended at index `n` -/
theorem cnt_push {α : Type} (f : Nat → α) (p : α → Bool) (n : Nat) (x : α) :
    cnt (upd f n x) p (n + 1) = cnt f p n + (p x).toNat := by
  rw [cnt_succ, cnt_upd_ge f p x (Nat.le_refl n), upd_same]

theorem cnt_le {α : Type} (f : Nat → α) (p : α → Bool) : ∀ n : Nat, cnt f p n ≤ n
  | 0 => Nat.le_refl 0
  | n + 1 => by
    have := cnt_le f p n
    rw [cnt_succ]
    cases p (f n) <;> simp <;> omega

theorem cnt_mono {α : Type} (f : Nat → α) (p q : α → Bool) (h : ∀ a, p a = true → q a = true) :
    ∀ n : Nat, cnt f p n ≤ cnt f q n
  | 0 => Nat.le_refl 0
  | n + 1 => by
    have ih := cnt_mono f p q h n
    rw [cnt_succ, cnt_succ]
    cases hp : p (f n)
    · simp; omega
    · rw [h _ hp]; omega

/-- `r` is the disjoint union of `p` and `q` -/
theorem cnt_add {α : Type} (f : Nat → α) (p q r : α → Bool)
    (h : ∀ a, (r a).toNat = (p a).toNat + (q a).toNat) :
    ∀ n : Nat, cnt f r n = cnt f p n + cnt f q n
  | 0 => rfl
  | n + 1 => by
    rw [cnt_succ, cnt_succ, cnt_succ, cnt_add f p q r h n, h]
    omega

theorem cnt_pos {α : Type} (f : Nat → α) (p : α → Bool) {i n : Nat} (hi : i < n) (hp : p (f i) = true) :
    1 ≤ cnt f p n := by
  rw [cnt_split f p hi, hp]
  simp

theorem cnt_zero_of {α : Type} (f : Nat → α) (p : α → Bool) :
    ∀ n : Nat, (∀ i, i < n → p (f i) = false) → cnt f p n = 0
  | 0, _ => rfl
  | n + 1, h => by
    rw [cnt_succ, cnt_zero_of f p n (fun i hi => h i (by omega)), h n (by omega)]
    rfl

theorem of_cnt_zero {α : Type} (f : Nat → α) (p : α → Bool) {n : Nat} (h : cnt f p n = 0) {i : Nat}
    (hi : i < n) : p (f i) = false := by
  cases hp : p (f i)
  · rfl
  · have := cnt_pos f p hi hp
    omega

/-! ## one inversion lemma per transition -/

theorem doSubmit_some {s s' : State} {d : Nat} {k : Kind} (h : doSubmit s d k = some s') :
    d < s.nd ∧ s.disp d = .idle ∧
    s' = { s with disp := upd s.disp d (.trying s.njobs), njobs := s.njobs + 1,
                  kind := upd s.kind s.njobs k, owner := upd s.owner s.njobs d } := by
  unfold doSubmit at h
  split at h
  · rename_i hd
    split at h
    · rename_i hi
      exact ⟨hd, hi, (Option.some.inj h).symm⟩
    · cases h
  · cases h

theorem doTrySend_some {s s' : State} {d : Nat} (h : doTrySend s d = some s') :
    d < s.nd ∧ ∃ j, s.disp d = .trying j ∧
      ((∃ w rest, s.waiting = w :: rest ∧
          s' = { s with disp := upd s.disp d .idle, wrk := upd s.wrk w (.handed j), waiting := rest }) ∨
       (s.waiting = [] ∧ s' = { s with disp := upd s.disp d (.full j) })) := by
  unfold doTrySend at h
  split at h
  · rename_i hd
    split at h
    · rename_i j hj
      refine ⟨hd, j, hj, ?_⟩
      split at h
      · rename_i w rest hw
        exact .inl ⟨w, rest, hw, (Option.some.inj h).symm⟩
      · rename_i hw
        exact .inr ⟨hw, (Option.some.inj h).symm⟩
    · cases h
  · cases h

theorem doLoad_some {s s' : State} {d : Nat} (h : doLoad s d = some s') :
    d < s.nd ∧ ∃ j, s.disp d = .full j ∧
      ((s.limit = 0 ∧ s' = { s with disp := upd s.disp d (.panicked j) }) ∨
       (s.limit ≠ 0 ∧ s.limit ≤ s.counter ∧ s' = { s with disp := upd s.disp d (.refused j) }) ∨
       (s.limit ≠ 0 ∧ s.counter < s.limit ∧ s.reserve = true ∧
          s' = { s with disp := upd s.disp d (.spawning j), counter := s.counter + 1 }) ∨
       (s.limit ≠ 0 ∧ s.counter < s.limit ∧ s.reserve = false ∧
          s' = { s with disp := upd s.disp d (.spawning j) })) := by
  unfold doLoad at h
  split at h
  · rename_i hd
    split at h
    · rename_i j hj
      refine ⟨hd, j, hj, ?_⟩
      split at h
      · rename_i h0
        exact .inl ⟨h0, (Option.some.inj h).symm⟩
      · rename_i h0
        split at h
        · rename_i hc
          exact .inr (.inl ⟨h0, hc, (Option.some.inj h).symm⟩)
        · rename_i hc
          split at h
          · rename_i hr
            exact .inr (.inr (.inl ⟨h0, by omega, hr, (Option.some.inj h).symm⟩))
          · rename_i hr
            exact .inr (.inr (.inr ⟨h0, by omega, by simpa using hr, (Option.some.inj h).symm⟩))
    · cases h
  · cases h

theorem doSpawn_some {s s' : State} {d : Nat} (h : doSpawn s d = some s') :
    d < s.nd ∧ ∃ j, s.disp d = .spawning j ∧
      s' = { s with disp := upd s.disp d (.sending j), wrk := upd s.wrk s.nw .starting, nw := s.nw + 1 } := by
  unfold doSpawn at h
  split at h
  · rename_i hd
    split at h
    · rename_i j hj
      exact ⟨hd, j, hj, (Option.some.inj h).symm⟩
    · cases h
  · cases h

theorem doSend_some {s s' : State} {d : Nat} (h : doSend s d = some s') :
    d < s.nd ∧ ∃ j, s.disp d = .sending j ∧
      ((∃ w rest, s.waiting = w :: rest ∧
          s' = { s with disp := upd s.disp d .idle, wrk := upd s.wrk w (.handed j), waiting := rest }) ∨
       (s.waiting = [] ∧ s' = { s with disp := upd s.disp d .blocked, sendq := s.sendq ++ [(d, j)] })) := by
  unfold doSend at h
  split at h
  · rename_i hd
    split at h
    · rename_i j hj
      refine ⟨hd, j, hj, ?_⟩
      split at h
      · rename_i w rest hw
        exact .inl ⟨w, rest, hw, (Option.some.inj h).symm⟩
      · rename_i hw
        exact .inr ⟨hw, (Option.some.inj h).symm⟩
    · cases h
  · cases h

theorem doRetry_some {s s' : State} {d : Nat} (h : doRetry s d = some s') :
    d < s.nd ∧ ∃ j, s.disp d = .refused j ∧ s' = { s with disp := upd s.disp d (.trying j) } := by
  unfold doRetry at h
  split at h
  · rename_i hd
    split at h
    · rename_i j hj
      exact ⟨hd, j, hj, (Option.some.inj h).symm⟩
    · cases h
  · cases h

theorem doGiveUp_some {s s' : State} {d : Nat} (h : doGiveUp s d = some s') :
    d < s.nd ∧ ∃ j,
      ((s.disp d = .refused j ∧ s' = { s with disp := upd s.disp d .idle, returned := j :: s.returned }) ∨
       (s.disp d = .panicked j ∧ s' = { s with disp := upd s.disp d .idle, dropped := j :: s.dropped })) := by
  unfold doGiveUp at h
  split at h
  · rename_i hd
    split at h
    · rename_i j hj
      exact ⟨hd, j, .inl ⟨hj, (Option.some.inj h).symm⟩⟩
    · rename_i j hj
      exact ⟨hd, j, .inr ⟨hj, (Option.some.inj h).symm⟩⟩
    · cases h
  · cases h

theorem doReap_some {s s' : State} {d : Nat} (h : doReap s d = some s') :
    ∃ e rest, takeOwned d s.completed = some (e, rest) ∧
      s' = { s with completed := rest, delivered := e :: s.delivered } := by
  unfold doReap at h
  split at h
  · rename_i e rest he
    exact ⟨e, rest, he, (Option.some.inj h).symm⟩
  · cases h

theorem doCount_some {s s' : State} {w : Nat} (h : doCount s w = some s') :
    w < s.nw ∧ s.wrk w = .starting ∧
      ((s.reserve = true ∧ s' = { s with wrk := upd s.wrk w .ready }) ∨
       (s.reserve = false ∧ s' = { s with wrk := upd s.wrk w .ready, counter := s.counter + 1 })) := by
  unfold doCount at h
  split at h
  · rename_i hw
    split at h
    · rename_i hs
      refine ⟨hw, hs, ?_⟩
      split at h
      · rename_i hr
        exact .inl ⟨hr, (Option.some.inj h).symm⟩
      · rename_i hr
        exact .inr ⟨by simpa using hr, (Option.some.inj h).symm⟩
    · cases h
  · cases h

theorem doRecv_some {s s' : State} {w : Nat} (h : doRecv s w = some s') :
    w < s.nw ∧ s.wrk w = .ready ∧
      ((∃ d j rest, s.sendq = (d, j) :: rest ∧
          s' = { s with wrk := upd s.wrk w (.running j), sendq := rest, disp := upd s.disp d .idle,
                        ran := s.ran ++ [(j, w)] }) ∨
       (s.sendq = [] ∧ s' = { s with wrk := upd s.wrk w .parked, waiting := s.waiting ++ [w] })) := by
  unfold doRecv at h
  split at h
  · rename_i hw
    split at h
    · rename_i hs
      refine ⟨hw, hs, ?_⟩
      split at h
      · rename_i d j rest hq
        exact .inl ⟨d, j, rest, hq, (Option.some.inj h).symm⟩
      · rename_i hq
        exact .inr ⟨hq, (Option.some.inj h).symm⟩
    · cases h
  · cases h

theorem doWake_some {s s' : State} {w : Nat} (h : doWake s w = some s') :
    w < s.nw ∧ ∃ j, s.wrk w = .handed j ∧
      s' = { s with wrk := upd s.wrk w (.running j), ran := s.ran ++ [(j, w)] } := by
  unfold doWake at h
  split at h
  · rename_i hw
    split at h
    · rename_i j hj
      exact ⟨hw, j, hj, (Option.some.inj h).symm⟩
    · cases h
  · cases h

theorem doTimeout_some {s s' : State} {w : Nat} (h : doTimeout s w = some s') :
    w < s.nw ∧ s.wrk w = .parked ∧
      s' = { s with wrk := upd s.wrk w .leaving, waiting := s.waiting.filter (fun x => x != w) } := by
  unfold doTimeout at h
  split at h
  · rename_i hw
    split at h
    · rename_i hs
      exact ⟨hw, hs, (Option.some.inj h).symm⟩
    · cases h
  · cases h

theorem doFinish_some {s s' : State} {w : Nat} (h : doFinish s w = some s') :
    w < s.nw ∧ ∃ j, s.wrk w = .running j ∧
      ((s.kind j = .raw ∧ s' = { s with wrk := upd s.wrk w .leaving, crashed := j :: s.crashed }) ∨
       (s.kind j ≠ .raw ∧
          s' = { s with wrk := upd s.wrk w .ready,
                        completed := s.completed ++ [{ owner := s.owner j, job := j, out := outcomeOf (s.kind j) }] })) := by
  unfold doFinish at h
  split at h
  · rename_i hw
    split at h
    · rename_i j hj
      refine ⟨hw, j, hj, ?_⟩
      split at h
      · rename_i hk
        exact .inl ⟨hk, (Option.some.inj h).symm⟩
      · rename_i hk
        exact .inr ⟨hk, (Option.some.inj h).symm⟩
    · cases h
  · cases h

theorem doExit_some {s s' : State} {w : Nat} (h : doExit s w = some s') :
    w < s.nw ∧ s.wrk w = .leaving ∧ s' = { s with wrk := upd s.wrk w .exited, counter := s.counter - 1 } := by
  unfold doExit at h
  split at h
  · rename_i hw
    split at h
    · rename_i hs
      exact ⟨hw, hs, (Option.some.inj h).symm⟩
    · cases h
  · cases h

/-! ## the inductive invariant -/

theorem toNat_ite (b : Bool) : b.toNat = if b = true then 1 else 0 := by cases b <;> rfl

def DState.isBlocked : DState → Bool
  | .blocked => true
  | _ => false

/-- the inductive invariant of the pool model -/
structure Inv (s : State) : Prop where
  wait_parked : ∀ w, w ∈ s.waiting → w < s.nw ∧ s.wrk w = .parked
  parked_wait : ∀ w, w < s.nw → s.wrk w = .parked → w ∈ s.waiting
  wait_nodup : s.waiting.Nodup
  sendq_blocked : ∀ d j, (d, j) ∈ s.sendq → d < s.nd ∧ s.disp d = .blocked
  sendq_nodup : (s.sendq.map Prod.fst).Nodup
  chan : s.waiting ≠ [] → s.sendq = []
  place : ∀ j, holders s j = if j < s.njobs then 1 else 0
  started : ∀ j, ranCount s j = cnt s.wrk (WState.runs j) s.nw + s.completed.countP (fun e => e.job == j)
      + s.delivered.countP (fun e => e.job == j) + s.crashed.count j
  counter_raw : s.reserve = false → s.counter = cnt s.wrk WState.counted s.nw
  counter_res : s.reserve = true → s.counter = cnt s.wrk WState.alive s.nw + cnt s.disp DState.isSpawning s.nd
  res_limit : s.reserve = true → s.counter ≤ s.limit

/-! ### the waiting queue -/

/-- updating a worker that is not parked (before and after) to something not parked, shrinking the queue -/
theorem wait_parked_upd {s : State} (hI : Inv s) {w : Nat} {x : WState} {W' : List Nat}
    (hsub : ∀ w', w' ∈ W' → w' ∈ s.waiting ∧ w' ≠ w) :
    ∀ w', w' ∈ W' → w' < s.nw ∧ upd s.wrk w x w' = .parked := by
  intro w' hw'
  obtain ⟨hin, hne⟩ := hsub w' hw'
  rw [upd_ne _ _ hne]
  exact hI.wait_parked w' hin

theorem not_mem_waiting {s : State} (hI : Inv s) {w : Nat} (h : s.wrk w ≠ .parked) : w ∉ s.waiting :=
  fun hm => h (hI.wait_parked w hm).2

theorem waiting_ne {s : State} (hI : Inv s) {w w' : Nat} (h : s.wrk w ≠ .parked) (hm : w' ∈ s.waiting) : w' ≠ w := by
  intro he; subst he; exact not_mem_waiting hI h hm

/-- a worker state change `x` (not parked) at a worker that was not parked keeps the queue facts -/
theorem waitInv_upd_other {s : State} (hI : Inv s) {w : Nat} {x : WState} (hw : s.wrk w ≠ .parked) (hx : x ≠ .parked) :
    (∀ w', w' ∈ s.waiting → w' < s.nw ∧ upd s.wrk w x w' = .parked) ∧
    (∀ w', w' < s.nw → upd s.wrk w x w' = .parked → w' ∈ s.waiting) := by
  refine ⟨wait_parked_upd hI (fun w' h' => ⟨h', waiting_ne hI hw h'⟩), ?_⟩
  intro w' hlt hp
  by_cases he : w' = w
  · subst he; rw [upd_same] at hp; exact absurd hp hx
  · rw [upd_ne _ _ he] at hp; exact hI.parked_wait w' hlt hp

/-- popping the head of the queue and handing it a job -/
theorem waitInv_pop {s : State} (hI : Inv s) {w : Nat} {rest : List Nat} {x : WState} (hw : s.waiting = w :: rest)
    (hx : x ≠ .parked) :
    (∀ w', w' ∈ rest → w' < s.nw ∧ upd s.wrk w x w' = .parked) ∧
    (∀ w', w' < s.nw → upd s.wrk w x w' = .parked → w' ∈ rest) ∧ rest.Nodup := by
  have hnd := hI.wait_nodup
  rw [hw] at hnd
  have hnd' := List.nodup_cons.mp hnd
  refine ⟨wait_parked_upd hI (fun w' h' => ⟨by rw [hw]; exact List.mem_cons_of_mem _ h', ?_⟩), ?_, hnd'.2⟩
  · intro he; subst he; exact hnd'.1 h'
  · intro w' hlt hp
    by_cases he : w' = w
    · subst he; rw [upd_same] at hp; exact absurd hp hx
    · rw [upd_ne _ _ he] at hp
      have := hI.parked_wait w' hlt hp
      rw [hw] at this
      rcases List.mem_cons.mp this with h1 | h1
      · exact absurd h1 he
      · exact h1

macro "ite_omega" : tactic => `(tactic| ((repeat' split) <;> intros <;> omega))

/-- normalise indicator terms so that `omega` (after splitting the `if`s) can finish -/
macro "cnt_norm" loc:(Lean.Parser.Tactic.location)? : tactic =>
  `(tactic| simp only [cntEx_upd, upd_same, cnt_push, DState.holds, WState.holds, WState.runs, WState.counted,
      WState.alive, WState.isStarting, WState.isRunning, DState.isSpawning, DState.isBlocked, toNat_ite,
      beq_iff_eq, Bool.false_eq_true, ↓reduceIte, List.countP_cons, List.countP_append, List.countP_nil,
      List.count_cons, List.count_nil, List.length_append, List.length_cons, List.length_nil] $(loc)?)

theorem sendq_blocked_upd {s : State} (hI : Inv s) {d : Nat} {x : DState} (hne : s.disp d ≠ .blocked) :
    ∀ d' j', (d', j') ∈ s.sendq → d' < s.nd ∧ upd s.disp d x d' = .blocked := by
  intro d' j' hm
  obtain ⟨h1, h2⟩ := hI.sendq_blocked d' j' hm
  have : d' ≠ d := by intro he; subst he; exact hne h2
  exact ⟨h1, by rw [upd_ne _ _ this]; exact h2⟩

theorem inv_submit {s s' : State} {d : Nat} {k : Kind} (hI : Inv s) (h : doSubmit s d k = some s') : Inv s' := by
  obtain ⟨hd, hdisp, rfl⟩ := doSubmit_some h
  refine { wait_parked := hI.wait_parked, parked_wait := hI.parked_wait, wait_nodup := hI.wait_nodup,
           sendq_blocked := sendq_blocked_upd hI (by rw [hdisp]; simp), sendq_nodup := hI.sendq_nodup,
           chan := hI.chan, place := ?_, started := hI.started,
           counter_raw := hI.counter_raw, counter_res := ?_, res_limit := hI.res_limit }
  · intro j'
    have hp := hI.place j'
    unfold holders at hp ⊢
    simp only [cnt_split _ _ hd, hdisp, cntEx_upd, upd_same] at hp ⊢
    cnt_norm at hp ⊢
    revert hp; ite_omega
  · intro hr
    have hc := hI.counter_res hr
    simp only [cnt_split _ _ hd, hdisp, cntEx_upd, upd_same] at hc ⊢
    cnt_norm at hc ⊢
    omega

/-- a job handed to the head of the waiting queue (by `try_send` or by `send`) -/
theorem inv_hand {s : State} {d w j : Nat} {rest : List Nat} {x : DState} (hI : Inv s) (hd : d < s.nd)
    (hx : s.disp d = x) (hxh : ∀ j', DState.holds j' x = (j == j')) (hxs : DState.isSpawning x = false)
    (hxb : x ≠ .blocked) (hw : s.waiting = w :: rest) :
    Inv { s with disp := upd s.disp d .idle, wrk := upd s.wrk w (.handed j), waiting := rest } := by
  have hww := hI.wait_parked w (by simp [hw])
  obtain ⟨w1, w2, w3⟩ := waitInv_pop (x := .handed j) hI hw (by simp)
  have hq : s.sendq = [] := hI.chan (by simp [hw])
  refine { wait_parked := w1, parked_wait := w2, wait_nodup := w3,
           sendq_blocked := sendq_blocked_upd hI (by rw [hx]; exact hxb), sendq_nodup := hI.sendq_nodup,
           chan := fun _ => hq, place := ?_, started := ?_,
           counter_raw := ?_, counter_res := ?_, res_limit := hI.res_limit }
  · intro j'
    have hp := hI.place j'
    unfold holders at hp ⊢
    simp only [cnt_split _ _ hd, cnt_split _ _ hww.1, cntEx_upd, upd_same, hx, hxh, hww.2] at hp ⊢
    cnt_norm at hp ⊢
    revert hp; ite_omega
  · intro j'
    have hp := hI.started j'
    unfold ranCount at hp ⊢
    simp only [cnt_split _ _ hww.1, hww.2, cntEx_upd, upd_same] at hp ⊢
    cnt_norm at hp ⊢
    omega
  · intro hr
    have hc := hI.counter_raw hr
    simp only [cnt_split _ _ hww.1, hww.2, cntEx_upd, upd_same] at hc ⊢
    cnt_norm at hc ⊢
    omega
  · intro hr
    have hc := hI.counter_res hr
    simp only [cnt_split _ _ hd, cnt_split _ _ hww.1, cntEx_upd, upd_same, hx, hxs, hww.2] at hc ⊢
    cnt_norm at hc ⊢
    omega

/-- the dispatcher moves on with its job in hand (no other component changes) -/
theorem inv_dispOnly {s : State} {d j : Nat} {x y : DState} (hI : Inv s) (hd : d < s.nd)
    (hx : s.disp d = x) (hxh : ∀ j', DState.holds j' x = (j == j')) (hyh : ∀ j', DState.holds j' y = (j == j'))
    (hxb : x ≠ .blocked) (hs : DState.isSpawning x = DState.isSpawning y) :
    Inv { s with disp := upd s.disp d y } := by
  refine { wait_parked := hI.wait_parked, parked_wait := hI.parked_wait, wait_nodup := hI.wait_nodup,
           sendq_blocked := sendq_blocked_upd hI (by rw [hx]; exact hxb), sendq_nodup := hI.sendq_nodup,
           chan := hI.chan, place := ?_, started := hI.started,
           counter_raw := hI.counter_raw, counter_res := ?_, res_limit := hI.res_limit }
  · intro j'
    have hp := hI.place j'
    unfold holders at hp ⊢
    simp only [cnt_split _ _ hd, cntEx_upd, upd_same, hx, hxh, hyh] at hp ⊢
    cnt_norm at hp ⊢
    revert hp; ite_omega
  · intro hr
    have hc := hI.counter_res hr
    simp only [cnt_split _ _ hd, cntEx_upd, upd_same, hx, hs] at hc ⊢
    omega

theorem inv_trySend {s s' : State} {d : Nat} (hI : Inv s) (h : doTrySend s d = some s') : Inv s' := by
  obtain ⟨hd, j, hj, (⟨w, rest, hw, rfl⟩ | ⟨_, rfl⟩)⟩ := doTrySend_some h
  · exact inv_hand hI hd hj (by intro j'; rfl) rfl (by simp) hw
  · exact inv_dispOnly hI hd hj (by intro j'; rfl) (by intro j'; rfl) (by simp) rfl


theorem inv_load {s s' : State} {d : Nat} (hI : Inv s) (h : doLoad s d = some s') : Inv s' := by
  obtain ⟨hd, j, hj, (⟨_, rfl⟩ | ⟨_, _, rfl⟩ | ⟨_, hlt, hr, rfl⟩ | ⟨_, _, hr, rfl⟩)⟩ := doLoad_some h
  · exact inv_dispOnly hI hd hj (by intro j'; rfl) (by intro j'; rfl) (by simp) rfl
  · exact inv_dispOnly hI hd hj (by intro j'; rfl) (by intro j'; rfl) (by simp) rfl
  · -- the slot is reserved together with the limit check
    refine { wait_parked := hI.wait_parked, parked_wait := hI.parked_wait, wait_nodup := hI.wait_nodup,
             sendq_blocked := sendq_blocked_upd hI (by rw [hj]; simp), sendq_nodup := hI.sendq_nodup,
             chan := hI.chan, place := ?_, started := hI.started,
             counter_raw := ?_, counter_res := ?_, res_limit := ?_ }
    · intro j'
      have hp := hI.place j'
      unfold holders at hp ⊢
      simp only [cnt_split _ _ hd, cntEx_upd, upd_same, hj] at hp ⊢
      cnt_norm at hp ⊢
      revert hp; ite_omega
    · intro hf; rw [show s.reserve = true from hr] at hf; cases hf
    · intro _
      have hc := hI.counter_res hr
      simp only [cnt_split _ _ hd, cntEx_upd, upd_same, hj] at hc ⊢
      cnt_norm at hc ⊢
      omega
    · intro _
      show s.counter + 1 ≤ s.limit
      omega
  · refine { wait_parked := hI.wait_parked, parked_wait := hI.parked_wait, wait_nodup := hI.wait_nodup,
             sendq_blocked := sendq_blocked_upd hI (by rw [hj]; simp), sendq_nodup := hI.sendq_nodup,
             chan := hI.chan, place := ?_, started := hI.started,
             counter_raw := hI.counter_raw, counter_res := ?_, res_limit := hI.res_limit }
    · intro j'
      have hp := hI.place j'
      unfold holders at hp ⊢
      simp only [cnt_split _ _ hd, cntEx_upd, upd_same, hj] at hp ⊢
      cnt_norm at hp ⊢
      revert hp; ite_omega
    · intro hf; rw [show s.reserve = false from hr] at hf; cases hf

theorem inv_spawn {s s' : State} {d : Nat} (hI : Inv s) (h : doSpawn s d = some s') : Inv s' := by
  obtain ⟨hd, j, hj, rfl⟩ := doSpawn_some h
  refine { wait_parked := ?_, parked_wait := ?_, wait_nodup := hI.wait_nodup,
           sendq_blocked := sendq_blocked_upd hI (by rw [hj]; simp), sendq_nodup := hI.sendq_nodup,
           chan := hI.chan, place := ?_, started := ?_,
           counter_raw := ?_, counter_res := ?_, res_limit := hI.res_limit }
  · intro w' hm
    obtain ⟨h1, h2⟩ := hI.wait_parked w' hm
    refine ⟨Nat.lt_succ_of_lt h1, ?_⟩
    show upd s.wrk s.nw .starting w' = .parked
    rw [upd_ne _ _ (by omega)]; exact h2
  · intro w' hlt hp
    have hp' : upd s.wrk s.nw .starting w' = .parked := hp
    by_cases he : w' = s.nw
    · subst he; rw [upd_same] at hp'; cases hp'
    · rw [upd_ne _ _ he] at hp'
      exact hI.parked_wait w' (by have : w' < s.nw + 1 := hlt; omega) hp'
  · intro j'
    have hp := hI.place j'
    unfold holders at hp ⊢
    simp only [cnt_split _ _ hd, cntEx_upd, upd_same, cnt_push, hj] at hp ⊢
    cnt_norm at hp ⊢
    revert hp; ite_omega
  · intro j'
    have hp := hI.started j'
    unfold ranCount at hp ⊢
    simp only [cnt_push] at hp ⊢
    cnt_norm at hp ⊢
    omega
  · intro hr
    have hc := hI.counter_raw hr
    simp only [cnt_push] at hc ⊢
    cnt_norm at hc ⊢
    omega
  · intro hr
    have hc := hI.counter_res hr
    simp only [cnt_split _ _ hd, cntEx_upd, upd_same, cnt_push, hj] at hc ⊢
    cnt_norm at hc ⊢
    omega

theorem inv_send {s s' : State} {d : Nat} (hI : Inv s) (h : doSend s d = some s') : Inv s' := by
  obtain ⟨hd, j, hj, (⟨w, rest, hw, rfl⟩ | ⟨hw, rfl⟩)⟩ := doSend_some h
  · exact inv_hand hI hd hj (by intro j'; rfl) rfl (by simp) hw
  · have hnb : s.disp d ≠ .blocked := by rw [hj]; simp
    have hdq : d ∉ s.sendq.map Prod.fst := by
      intro hm
      obtain ⟨⟨d', j'⟩, hm', he⟩ := List.mem_map.mp hm
      simp only at he; subst he
      exact hnb (hI.sendq_blocked _ _ hm').2
    refine { wait_parked := hI.wait_parked, parked_wait := hI.parked_wait, wait_nodup := hI.wait_nodup,
             sendq_blocked := ?_, sendq_nodup := ?_,
             chan := fun hne => absurd hw hne, place := ?_, started := hI.started,
             counter_raw := hI.counter_raw, counter_res := ?_, res_limit := hI.res_limit }
    · intro d' j' hm
      rcases List.mem_append.mp hm with h1 | h1
      · exact sendq_blocked_upd hI hnb d' j' h1
      · simp only [List.mem_singleton, Prod.mk.injEq] at h1
        obtain ⟨rfl, rfl⟩ := h1
        exact ⟨hd, upd_same _ _ _⟩
    · show ((s.sendq ++ [(d, j)]).map Prod.fst).Nodup
      rw [List.map_append, List.nodup_append]
      refine ⟨hI.sendq_nodup, by simp, ?_⟩
      intro a ha b hb
      simp only [List.map_cons, List.map_nil, List.mem_singleton] at hb
      subst hb
      intro he; subst he; exact hdq ha
    · intro j'
      have hp := hI.place j'
      unfold holders at hp ⊢
      simp only [cnt_split _ _ hd, cntEx_upd, upd_same, hj] at hp ⊢
      cnt_norm at hp ⊢
      revert hp; ite_omega
    · intro hr
      have hc := hI.counter_res hr
      simp only [cnt_split _ _ hd, cntEx_upd, upd_same, hj] at hc ⊢
      cnt_norm at hc ⊢
      omega

theorem inv_retry {s s' : State} {d : Nat} (hI : Inv s) (h : doRetry s d = some s') : Inv s' := by
  obtain ⟨hd, j, hj, rfl⟩ := doRetry_some h
  exact inv_dispOnly hI hd hj (by intro j'; rfl) (by intro j'; rfl) (by simp) rfl

theorem inv_giveUp {s s' : State} {d : Nat} (hI : Inv s) (h : doGiveUp s d = some s') : Inv s' := by
  obtain ⟨hd, j, (⟨hj, rfl⟩ | ⟨hj, rfl⟩)⟩ := doGiveUp_some h
  all_goals
    refine { wait_parked := hI.wait_parked, parked_wait := hI.parked_wait, wait_nodup := hI.wait_nodup,
             sendq_blocked := sendq_blocked_upd hI (by rw [hj]; simp), sendq_nodup := hI.sendq_nodup,
             chan := hI.chan, place := ?_, started := hI.started,
             counter_raw := hI.counter_raw, counter_res := ?_, res_limit := hI.res_limit }
  all_goals first
    | (intro j'
       have hp := hI.place j'
       unfold holders at hp ⊢
       simp only [cnt_split _ _ hd, cntEx_upd, upd_same, hj] at hp ⊢
       cnt_norm at hp ⊢
       revert hp; ite_omega)
    | (intro hr
       have hc := hI.counter_res hr
       simp only [cnt_split _ _ hd, cntEx_upd, upd_same, hj] at hc ⊢
       cnt_norm at hc ⊢
       omega)

theorem takeOwned_countP (p : Done → Bool) (d : Nat) :
    ∀ (l : List Done) (e : Done) (rest : List Done), takeOwned d l = some (e, rest) →
      l.countP p = rest.countP p + (p e).toNat ∧ e.owner = d
  | [], e, rest, h => by simp [takeOwned] at h
  | a :: l, e, rest, h => by
    unfold takeOwned at h
    split at h
    · rename_i ho
      simp only [Option.some.injEq, Prod.mk.injEq] at h
      obtain ⟨rfl, rfl⟩ := h
      refine ⟨?_, ho⟩
      rw [List.countP_cons, toNat_ite]
    · split at h
      · rename_i x r hx
        simp only [Option.some.injEq, Prod.mk.injEq] at h
        obtain ⟨rfl, rfl⟩ := h
        obtain ⟨h1, h2⟩ := takeOwned_countP p d l x r hx
        refine ⟨?_, h2⟩
        rw [List.countP_cons, List.countP_cons, h1]
        omega
      · cases h

theorem inv_reap {s s' : State} {d : Nat} (hI : Inv s) (h : doReap s d = some s') : Inv s' := by
  obtain ⟨e, rest, he, rfl⟩ := doReap_some h
  refine { wait_parked := hI.wait_parked, parked_wait := hI.parked_wait, wait_nodup := hI.wait_nodup,
           sendq_blocked := hI.sendq_blocked, sendq_nodup := hI.sendq_nodup,
           chan := hI.chan, place := ?_, started := ?_,
           counter_raw := hI.counter_raw, counter_res := hI.counter_res, res_limit := hI.res_limit }
  · intro j'
    have hp := hI.place j'
    have hc := (takeOwned_countP (fun e => e.job == j') d _ _ _ he).1
    unfold holders at hp ⊢
    simp only [hc] at hp
    cnt_norm at hp ⊢
    revert hp; ite_omega
  · intro j'
    have hp := hI.started j'
    have hc := (takeOwned_countP (fun e => e.job == j') d _ _ _ he).1
    unfold ranCount at hp ⊢
    simp only [hc] at hp
    cnt_norm at hp ⊢
    revert hp; ite_omega


theorem inv_count {s s' : State} {w : Nat} (hI : Inv s) (h : doCount s w = some s') : Inv s' := by
  obtain ⟨hw, hs, (⟨hr, rfl⟩ | ⟨hr, rfl⟩)⟩ := doCount_some h
  · obtain ⟨w1, w2⟩ := waitInv_upd_other (x := .ready) hI (by rw [hs]; simp) (by simp)
    refine { wait_parked := w1, parked_wait := w2, wait_nodup := hI.wait_nodup,
             sendq_blocked := hI.sendq_blocked, sendq_nodup := hI.sendq_nodup,
             chan := hI.chan, place := ?_, started := ?_,
             counter_raw := ?_, counter_res := ?_, res_limit := hI.res_limit }
    · intro j'
      have hp := hI.place j'
      unfold holders at hp ⊢
      simp only [cnt_split _ _ hw, cntEx_upd, upd_same, hs] at hp ⊢
      cnt_norm at hp ⊢
      revert hp; ite_omega
    · intro j'
      have hp := hI.started j'
      unfold ranCount at hp ⊢
      simp only [cnt_split _ _ hw, cntEx_upd, upd_same, hs] at hp ⊢
      cnt_norm at hp ⊢
      omega
    · intro hf; rw [show s.reserve = true from hr] at hf; cases hf
    · intro hr'
      have hc := hI.counter_res hr'
      simp only [cnt_split _ _ hw, cntEx_upd, upd_same, hs] at hc ⊢
      cnt_norm at hc ⊢
      omega
  · obtain ⟨w1, w2⟩ := waitInv_upd_other (x := .ready) hI (by rw [hs]; simp) (by simp)
    refine { wait_parked := w1, parked_wait := w2, wait_nodup := hI.wait_nodup,
             sendq_blocked := hI.sendq_blocked, sendq_nodup := hI.sendq_nodup,
             chan := hI.chan, place := ?_, started := ?_,
             counter_raw := ?_, counter_res := ?_, res_limit := ?_ }
    · intro j'
      have hp := hI.place j'
      unfold holders at hp ⊢
      simp only [cnt_split _ _ hw, cntEx_upd, upd_same, hs] at hp ⊢
      cnt_norm at hp ⊢
      revert hp; ite_omega
    · intro j'
      have hp := hI.started j'
      unfold ranCount at hp ⊢
      simp only [cnt_split _ _ hw, cntEx_upd, upd_same, hs] at hp ⊢
      cnt_norm at hp ⊢
      omega
    · intro hr'
      have hc := hI.counter_raw hr'
      simp only [cnt_split _ _ hw, cntEx_upd, upd_same, hs] at hc ⊢
      cnt_norm at hc ⊢
      omega
    · intro hf; rw [show s.reserve = false from hr] at hf; cases hf
    · intro hf; rw [show s.reserve = false from hr] at hf; cases hf

theorem inv_recv {s s' : State} {w : Nat} (hI : Inv s) (h : doRecv s w = some s') : Inv s' := by
  obtain ⟨hw, hs, (⟨d, j, rest, hq, rfl⟩ | ⟨hq, rfl⟩)⟩ := doRecv_some h
  · -- a blocked sender is served
    obtain ⟨w1, w2⟩ := waitInv_upd_other (x := .running j) hI (by rw [hs]; simp) (by simp)
    obtain ⟨hd, hb⟩ := hI.sendq_blocked d j (by rw [hq]; simp)
    have hwe : s.waiting = [] := by
      cases hwt : s.waiting with
      | nil => rfl
      | cons a l => have := hI.chan (by rw [hwt]; simp); rw [hq] at this; cases this
    have hnd := hI.sendq_nodup
    rw [hq, List.map_cons, List.nodup_cons] at hnd
    refine { wait_parked := w1, parked_wait := w2, wait_nodup := hI.wait_nodup,
             sendq_blocked := ?_, sendq_nodup := hnd.2,
             chan := fun hne => absurd hwe hne, place := ?_, started := ?_,
             counter_raw := ?_, counter_res := ?_, res_limit := hI.res_limit }
    · intro d' j' hm
      obtain ⟨h1, h2⟩ := hI.sendq_blocked d' j' (by rw [hq]; exact List.mem_cons_of_mem _ hm)
      have hne : d' ≠ d := by
        intro he; subst he
        exact hnd.1 (List.mem_map.mpr ⟨(d', j'), hm, rfl⟩)
      exact ⟨h1, by show upd s.disp d .idle d' = _; rw [upd_ne _ _ hne]; exact h2⟩
    · intro j'
      have hp := hI.place j'
      unfold holders at hp ⊢
      simp only [cnt_split _ _ hd, cnt_split _ _ hw, cntEx_upd, upd_same, hs, hb, hq] at hp ⊢
      cnt_norm at hp ⊢
      revert hp; ite_omega
    · intro j'
      have hp := hI.started j'
      unfold ranCount at hp ⊢
      simp only [cnt_split _ _ hw, cntEx_upd, upd_same, hs] at hp ⊢
      cnt_norm at hp ⊢
      revert hp; ite_omega
    · intro hr'
      have hc := hI.counter_raw hr'
      simp only [cnt_split _ _ hw, cntEx_upd, upd_same, hs] at hc ⊢
      cnt_norm at hc ⊢
      omega
    · intro hr'
      have hc := hI.counter_res hr'
      simp only [cnt_split _ _ hd, cnt_split _ _ hw, cntEx_upd, upd_same, hs, hb] at hc ⊢
      cnt_norm at hc ⊢
      omega
  · -- nothing pending: park
    have hnw : w ∉ s.waiting := not_mem_waiting hI (by rw [hs]; simp)
    refine { wait_parked := ?_, parked_wait := ?_, wait_nodup := ?_,
             sendq_blocked := hI.sendq_blocked, sendq_nodup := hI.sendq_nodup,
             chan := fun _ => hq, place := ?_, started := ?_,
             counter_raw := ?_, counter_res := ?_, res_limit := hI.res_limit }
    · intro w' hm
      rcases List.mem_append.mp hm with h1 | h1
      · obtain ⟨a, b⟩ := hI.wait_parked w' h1
        have hne : w' ≠ w := by intro he; subst he; exact hnw h1
        exact ⟨a, by show upd s.wrk w .parked w' = _; rw [upd_ne _ _ hne]; exact b⟩
      · simp only [List.mem_singleton] at h1; subst h1
        exact ⟨hw, upd_same _ _ _⟩
    · intro w' hlt hp
      have hp' : upd s.wrk w .parked w' = .parked := hp
      by_cases he : w' = w
      · subst he; exact List.mem_append.mpr (.inr (by simp))
      · rw [upd_ne _ _ he] at hp'
        exact List.mem_append.mpr (.inl (hI.parked_wait w' hlt hp'))
    · show (s.waiting ++ [w]).Nodup
      rw [List.nodup_append]
      refine ⟨hI.wait_nodup, by simp, ?_⟩
      intro a ha b hb
      simp only [List.mem_singleton] at hb; subst hb
      intro he; subst he; exact hnw ha
    · intro j'
      have hp := hI.place j'
      unfold holders at hp ⊢
      simp only [cnt_split _ _ hw, cntEx_upd, upd_same, hs] at hp ⊢
      cnt_norm at hp ⊢
      revert hp; ite_omega
    · intro j'
      have hp := hI.started j'
      unfold ranCount at hp ⊢
      simp only [cnt_split _ _ hw, cntEx_upd, upd_same, hs] at hp ⊢
      cnt_norm at hp ⊢
      omega
    · intro hr'
      have hc := hI.counter_raw hr'
      simp only [cnt_split _ _ hw, cntEx_upd, upd_same, hs] at hc ⊢
      cnt_norm at hc ⊢
      omega
    · intro hr'
      have hc := hI.counter_res hr'
      simp only [cnt_split _ _ hw, cntEx_upd, upd_same, hs] at hc ⊢
      cnt_norm at hc ⊢
      omega

theorem inv_wake {s s' : State} {w : Nat} (hI : Inv s) (h : doWake s w = some s') : Inv s' := by
  obtain ⟨hw, j, hs, rfl⟩ := doWake_some h
  obtain ⟨w1, w2⟩ := waitInv_upd_other (x := .running j) hI (by rw [hs]; simp) (by simp)
  refine { wait_parked := w1, parked_wait := w2, wait_nodup := hI.wait_nodup,
           sendq_blocked := hI.sendq_blocked, sendq_nodup := hI.sendq_nodup,
           chan := hI.chan, place := ?_, started := ?_,
           counter_raw := ?_, counter_res := ?_, res_limit := hI.res_limit }
  · intro j'
    have hp := hI.place j'
    unfold holders at hp ⊢
    simp only [cnt_split _ _ hw, cntEx_upd, upd_same, hs] at hp ⊢
    cnt_norm at hp ⊢
    revert hp; ite_omega
  · intro j'
    have hp := hI.started j'
    unfold ranCount at hp ⊢
    simp only [cnt_split _ _ hw, cntEx_upd, upd_same, hs] at hp ⊢
    cnt_norm at hp ⊢
    revert hp; ite_omega
  · intro hr'
    have hc := hI.counter_raw hr'
    simp only [cnt_split _ _ hw, cntEx_upd, upd_same, hs] at hc ⊢
    cnt_norm at hc ⊢
    omega
  · intro hr'
    have hc := hI.counter_res hr'
    simp only [cnt_split _ _ hw, cntEx_upd, upd_same, hs] at hc ⊢
    cnt_norm at hc ⊢
    omega

theorem inv_timeout {s s' : State} {w : Nat} (hI : Inv s) (h : doTimeout s w = some s') : Inv s' := by
  obtain ⟨hw, hs, rfl⟩ := doTimeout_some h
  refine { wait_parked := ?_, parked_wait := ?_, wait_nodup := hI.wait_nodup.filter _,
           sendq_blocked := hI.sendq_blocked, sendq_nodup := hI.sendq_nodup,
           chan := ?_, place := ?_, started := ?_,
           counter_raw := ?_, counter_res := ?_, res_limit := hI.res_limit }
  · refine wait_parked_upd hI (fun w' hm => ?_)
    obtain ⟨h1, h2⟩ := List.mem_filter.mp hm
    exact ⟨h1, by simpa using h2⟩
  · intro w' hlt hp
    have hp' : upd s.wrk w .leaving w' = .parked := hp
    by_cases he : w' = w
    · subst he; rw [upd_same] at hp'; cases hp'
    · rw [upd_ne _ _ he] at hp'
      exact List.mem_filter.mpr ⟨hI.parked_wait w' hlt hp', by simpa using he⟩
  · intro hne
    apply hI.chan
    intro he
    apply hne
    show s.waiting.filter _ = []
    rw [he]; rfl
  · intro j'
    have hp := hI.place j'
    unfold holders at hp ⊢
    simp only [cnt_split _ _ hw, cntEx_upd, upd_same, hs] at hp ⊢
    cnt_norm at hp ⊢
    revert hp; ite_omega
  · intro j'
    have hp := hI.started j'
    unfold ranCount at hp ⊢
    simp only [cnt_split _ _ hw, cntEx_upd, upd_same, hs] at hp ⊢
    cnt_norm at hp ⊢
    omega
  · intro hr'
    have hc := hI.counter_raw hr'
    simp only [cnt_split _ _ hw, cntEx_upd, upd_same, hs] at hc ⊢
    cnt_norm at hc ⊢
    omega
  · intro hr'
    have hc := hI.counter_res hr'
    simp only [cnt_split _ _ hw, cntEx_upd, upd_same, hs] at hc ⊢
    cnt_norm at hc ⊢
    omega

theorem inv_finish {s s' : State} {w : Nat} (hI : Inv s) (h : doFinish s w = some s') : Inv s' := by
  obtain ⟨hw, j, hs, (⟨_, rfl⟩ | ⟨_, rfl⟩)⟩ := doFinish_some h
  · obtain ⟨w1, w2⟩ := waitInv_upd_other (x := .leaving) hI (by rw [hs]; simp) (by simp)
    refine { wait_parked := w1, parked_wait := w2, wait_nodup := hI.wait_nodup,
             sendq_blocked := hI.sendq_blocked, sendq_nodup := hI.sendq_nodup,
             chan := hI.chan, place := ?_, started := ?_,
             counter_raw := ?_, counter_res := ?_, res_limit := hI.res_limit }
    · intro j'
      have hp := hI.place j'
      unfold holders at hp ⊢
      simp only [cnt_split _ _ hw, cntEx_upd, upd_same, hs] at hp ⊢
      cnt_norm at hp ⊢
      revert hp; ite_omega
    · intro j'
      have hp := hI.started j'
      unfold ranCount at hp ⊢
      simp only [cnt_split _ _ hw, cntEx_upd, upd_same, hs] at hp ⊢
      cnt_norm at hp ⊢
      revert hp; ite_omega
    · intro hr'
      have hc := hI.counter_raw hr'
      simp only [cnt_split _ _ hw, cntEx_upd, upd_same, hs] at hc ⊢
      cnt_norm at hc ⊢
      omega
    · intro hr'
      have hc := hI.counter_res hr'
      simp only [cnt_split _ _ hw, cntEx_upd, upd_same, hs] at hc ⊢
      cnt_norm at hc ⊢
      omega
  · obtain ⟨w1, w2⟩ := waitInv_upd_other (x := .ready) hI (by rw [hs]; simp) (by simp)
    refine { wait_parked := w1, parked_wait := w2, wait_nodup := hI.wait_nodup,
             sendq_blocked := hI.sendq_blocked, sendq_nodup := hI.sendq_nodup,
             chan := hI.chan, place := ?_, started := ?_,
             counter_raw := ?_, counter_res := ?_, res_limit := hI.res_limit }
    · intro j'
      have hp := hI.place j'
      unfold holders at hp ⊢
      simp only [cnt_split _ _ hw, cntEx_upd, upd_same, hs] at hp ⊢
      cnt_norm at hp ⊢
      revert hp; ite_omega
    · intro j'
      have hp := hI.started j'
      unfold ranCount at hp ⊢
      simp only [cnt_split _ _ hw, cntEx_upd, upd_same, hs] at hp ⊢
      cnt_norm at hp ⊢
      revert hp; ite_omega
    · intro hr'
      have hc := hI.counter_raw hr'
      simp only [cnt_split _ _ hw, cntEx_upd, upd_same, hs] at hc ⊢
      cnt_norm at hc ⊢
      omega
    · intro hr'
      have hc := hI.counter_res hr'
      simp only [cnt_split _ _ hw, cntEx_upd, upd_same, hs] at hc ⊢
      cnt_norm at hc ⊢
      omega

theorem inv_exit {s s' : State} {w : Nat} (hI : Inv s) (h : doExit s w = some s') : Inv s' := by
  obtain ⟨hw, hs, rfl⟩ := doExit_some h
  obtain ⟨w1, w2⟩ := waitInv_upd_other (x := .exited) hI (by rw [hs]; simp) (by simp)
  refine { wait_parked := w1, parked_wait := w2, wait_nodup := hI.wait_nodup,
           sendq_blocked := hI.sendq_blocked, sendq_nodup := hI.sendq_nodup,
           chan := hI.chan, place := ?_, started := ?_,
           counter_raw := ?_, counter_res := ?_, res_limit := ?_ }
  · intro j'
    have hp := hI.place j'
    unfold holders at hp ⊢
    simp only [cnt_split _ _ hw, cntEx_upd, upd_same, hs] at hp ⊢
    cnt_norm at hp ⊢
    revert hp; ite_omega
  · intro j'
    have hp := hI.started j'
    unfold ranCount at hp ⊢
    simp only [cnt_split _ _ hw, cntEx_upd, upd_same, hs] at hp ⊢
    cnt_norm at hp ⊢
    omega
  · intro hr'
    have hc := hI.counter_raw hr'
    simp only [cnt_split _ _ hw, cntEx_upd, upd_same, hs] at hc ⊢
    cnt_norm at hc ⊢
    omega
  · intro hr'
    have hc := hI.counter_res hr'
    simp only [cnt_split _ _ hw, cntEx_upd, upd_same, hs] at hc ⊢
    cnt_norm at hc ⊢
    omega
  · intro hr'
    have := hI.res_limit hr'
    show s.counter - 1 ≤ s.limit
    omega

theorem inv_step {s s' : State} {e : Event} (hI : Inv s) (h : step? s e = some s') : Inv s' := by
  cases e with
  | submit d k => exact inv_submit hI h
  | trySend d => exact inv_trySend hI h
  | load d => exact inv_load hI h
  | spawn d => exact inv_spawn hI h
  | send d => exact inv_send hI h
  | retry d => exact inv_retry hI h
  | giveUp d => exact inv_giveUp hI h
  | reap d => exact inv_reap hI h
  | count w => exact inv_count hI h
  | recv w => exact inv_recv hI h
  | wake w => exact inv_wake hI h
  | timeout w => exact inv_timeout hI h
  | finish w => exact inv_finish hI h
  | exit w => exact inv_exit hI h

theorem inv_init (limit nd : Nat) (reserve : Bool) : Inv (init limit nd reserve) := by
  refine { wait_parked := (by intro w h; cases h), parked_wait := (by intro w h; exact absurd h (Nat.not_lt_zero _)),
           wait_nodup := List.nodup_nil, sendq_blocked := (by intro d j h; cases h), sendq_nodup := List.nodup_nil,
           chan := fun _ => rfl, place := ?_, started := ?_, counter_raw := fun _ => rfl,
           counter_res := ?_, res_limit := fun _ => Nat.zero_le _ }
  · intro j
    have : cnt (fun _ : Nat => DState.idle) (DState.holds j) nd = 0 := cnt_zero_of _ _ _ (fun _ _ => rfl)
    simp [holders, init, this, cnt]
  · intro j; simp [ranCount, init, cnt]
  · intro _
    have : cnt (fun _ : Nat => DState.idle) DState.isSpawning nd = 0 := cnt_zero_of _ _ _ (fun _ _ => rfl)
    simp [init, this, cnt]

theorem inv_run {s : State} (hI : Inv s) : ∀ {evs : List Event} {s' : State}, run? s evs = some s' → Inv s'
  | [], s', h => by simp [run?] at h; subst h; exact hI
  | e :: es, s', h => by
    unfold run? at h
    split at h
    · rename_i s1 h1
      exact inv_run (inv_step hI h1) h
    · cases h

/-! ## configuration is static; metadata of jobs -/

theorem step_static {s s' : State} {e : Event} (h : step? s e = some s') :
    s'.limit = s.limit ∧ s'.reserve = s.reserve ∧ s'.nd = s.nd := by
  cases e with
  | submit d k => obtain ⟨_, _, rfl⟩ := doSubmit_some h; exact ⟨rfl, rfl, rfl⟩
  | trySend d => obtain ⟨_, j, _, (⟨w, rest, _, rfl⟩ | ⟨_, rfl⟩)⟩ := doTrySend_some h <;> exact ⟨rfl, rfl, rfl⟩
  | load d =>
    obtain ⟨_, j, _, (⟨_, rfl⟩ | ⟨_, _, rfl⟩ | ⟨_, _, _, rfl⟩ | ⟨_, _, _, rfl⟩)⟩ := doLoad_some h <;> exact ⟨rfl, rfl, rfl⟩
  | spawn d => obtain ⟨_, j, _, rfl⟩ := doSpawn_some h; exact ⟨rfl, rfl, rfl⟩
  | send d => obtain ⟨_, j, _, (⟨w, rest, _, rfl⟩ | ⟨_, rfl⟩)⟩ := doSend_some h <;> exact ⟨rfl, rfl, rfl⟩
  | retry d => obtain ⟨_, j, _, rfl⟩ := doRetry_some h; exact ⟨rfl, rfl, rfl⟩
  | giveUp d => obtain ⟨_, j, (⟨_, rfl⟩ | ⟨_, rfl⟩)⟩ := doGiveUp_some h <;> exact ⟨rfl, rfl, rfl⟩
  | reap d => obtain ⟨e, rest, _, rfl⟩ := doReap_some h; exact ⟨rfl, rfl, rfl⟩
  | count w => obtain ⟨_, _, (⟨_, rfl⟩ | ⟨_, rfl⟩)⟩ := doCount_some h <;> exact ⟨rfl, rfl, rfl⟩
  | recv w => obtain ⟨_, _, (⟨d, j, rest, _, rfl⟩ | ⟨_, rfl⟩)⟩ := doRecv_some h <;> exact ⟨rfl, rfl, rfl⟩
  | wake w => obtain ⟨_, j, _, rfl⟩ := doWake_some h; exact ⟨rfl, rfl, rfl⟩
  | timeout w => obtain ⟨_, _, rfl⟩ := doTimeout_some h; exact ⟨rfl, rfl, rfl⟩
  | finish w => obtain ⟨_, j, _, (⟨_, rfl⟩ | ⟨_, rfl⟩)⟩ := doFinish_some h <;> exact ⟨rfl, rfl, rfl⟩
  | exit w => obtain ⟨_, _, rfl⟩ := doExit_some h; exact ⟨rfl, rfl, rfl⟩

theorem run_static {s : State} : ∀ {evs : List Event} {s' : State}, run? s evs = some s' →
    s'.limit = s.limit ∧ s'.reserve = s.reserve ∧ s'.nd = s.nd
  | [], s', h => by simp [run?] at h; subst h; exact ⟨rfl, rfl, rfl⟩
  | e :: es, s', h => by
    unfold run? at h
    split at h
    · rename_i s1 h1
      obtain ⟨a, b, c⟩ := step_static h1
      obtain ⟨a', b', c'⟩ := run_static h
      exact ⟨a'.trans a, b'.trans b, c'.trans c⟩
    · cases h

/-! ## spawns in flight: the unconditional bound -/

/-- counted workers plus spawns in flight -/
def xcount (s : State) : Nat := s.counter + inflight s

/-- effect of one step of the code as it is on `counter + inflight`: it never grows, except when a
dispatcher passes the limit check (`counter < limit`), which adds one spawn in flight -/
theorem xcount_step {s s' : State} {e : Event} (hr : s.reserve = false) (h : step? s e = some s') :
    xcount s' ≤ xcount s ∨ (s.counter < s.limit ∧ s'.counter = s.counter ∧ inflight s' = inflight s + 1) := by
  unfold xcount inflight
  cases e with
  | submit d k =>
    obtain ⟨hd, hj, rfl⟩ := doSubmit_some h
    left
    simp only [cnt_split _ _ hd, cntEx_upd, upd_same, hj]; cnt_norm; omega
  | trySend d =>
    obtain ⟨hd, j, hj, (⟨w, rest, _, rfl⟩ | ⟨_, rfl⟩)⟩ := doTrySend_some h
    · left
      by_cases hw : w < s.nw
      · simp only [cnt_split _ _ hd, cnt_split _ _ hw, cntEx_upd, upd_same, hj]; cnt_norm
        cases s.wrk w <;> simp <;> omega
      · simp only [cnt_split _ _ hd, cnt_upd_ge _ _ _ (Nat.le_of_not_lt hw), cntEx_upd, upd_same, hj]; cnt_norm; omega
    · left
      simp only [cnt_split _ _ hd, cntEx_upd, upd_same, hj]; cnt_norm; omega
  | load d =>
    obtain ⟨hd, j, hj, (⟨_, rfl⟩ | ⟨_, _, rfl⟩ | ⟨_, _, hr', rfl⟩ | ⟨_, hlt, _, rfl⟩)⟩ := doLoad_some h
    · left; simp only [cnt_split _ _ hd, cntEx_upd, upd_same, hj]; cnt_norm; omega
    · left; simp only [cnt_split _ _ hd, cntEx_upd, upd_same, hj]; cnt_norm; omega
    · rw [hr] at hr'; cases hr'
    · right
      refine ⟨hlt, rfl, ?_⟩
      simp only [cnt_split _ _ hd, cntEx_upd, upd_same, hj]; cnt_norm; omega
  | spawn d =>
    obtain ⟨hd, j, hj, rfl⟩ := doSpawn_some h
    left
    simp only [cnt_split _ _ hd, cntEx_upd, upd_same, cnt_push, hj]; cnt_norm; omega
  | send d =>
    obtain ⟨hd, j, hj, (⟨w, rest, _, rfl⟩ | ⟨_, rfl⟩)⟩ := doSend_some h
    · left
      by_cases hw : w < s.nw
      · simp only [cnt_split _ _ hd, cnt_split _ _ hw, cntEx_upd, upd_same, hj]; cnt_norm
        cases s.wrk w <;> simp <;> omega
      · simp only [cnt_split _ _ hd, cnt_upd_ge _ _ _ (Nat.le_of_not_lt hw), cntEx_upd, upd_same, hj]; cnt_norm; omega
    · left
      simp only [cnt_split _ _ hd, cntEx_upd, upd_same, hj]; cnt_norm; omega
  | retry d =>
    obtain ⟨hd, j, hj, rfl⟩ := doRetry_some h
    left; simp only [cnt_split _ _ hd, cntEx_upd, upd_same, hj]; cnt_norm; omega
  | giveUp d =>
    obtain ⟨hd, j, (⟨hj, rfl⟩ | ⟨hj, rfl⟩)⟩ := doGiveUp_some h <;>
    · left; simp only [cnt_split _ _ hd, cntEx_upd, upd_same, hj]; cnt_norm; omega
  | reap d => obtain ⟨e, rest, _, rfl⟩ := doReap_some h; left; exact Nat.le_refl _
  | count w =>
    obtain ⟨hw, hs, (⟨hr', rfl⟩ | ⟨_, rfl⟩)⟩ := doCount_some h
    · rw [hr] at hr'; cases hr'
    · left; simp only [cnt_split _ _ hw, cntEx_upd, upd_same, hs]; cnt_norm; omega
  | recv w =>
    obtain ⟨hw, hs, (⟨d, j, rest, _, rfl⟩ | ⟨_, rfl⟩)⟩ := doRecv_some h
    · left
      by_cases hd : d < s.nd
      · simp only [cnt_split _ _ hd, cnt_split _ _ hw, cntEx_upd, upd_same, hs]; cnt_norm
        cases s.disp d <;> simp <;> omega
      · simp only [cnt_upd_ge _ _ _ (Nat.le_of_not_lt hd), cnt_split _ _ hw, cntEx_upd, upd_same, hs]; cnt_norm; omega
    · left; simp only [cnt_split _ _ hw, cntEx_upd, upd_same, hs]; cnt_norm; omega
  | wake w =>
    obtain ⟨hw, j, hs, rfl⟩ := doWake_some h
    left; simp only [cnt_split _ _ hw, cntEx_upd, upd_same, hs]; cnt_norm; omega
  | timeout w =>
    obtain ⟨hw, hs, rfl⟩ := doTimeout_some h
    left; simp only [cnt_split _ _ hw, cntEx_upd, upd_same, hs]; cnt_norm; omega
  | finish w =>
    obtain ⟨hw, j, hs, (⟨_, rfl⟩ | ⟨_, rfl⟩)⟩ := doFinish_some h <;>
    · left; simp only [cnt_split _ _ hw, cntEx_upd, upd_same, hs]; cnt_norm; omega
  | exit w =>
    obtain ⟨hw, hs, rfl⟩ := doExit_some h
    left; simp only [cnt_split _ _ hw, cntEx_upd, upd_same, hs]; cnt_norm; omega

theorem inflight_le_peak (s : State) : ∀ evs : List Event, inflight s ≤ peak s evs
  | [] => Nat.le_refl _
  | e :: es => by
    unfold peak
    split
    · exact Nat.le_max_left _ _
    · exact Nat.le_refl _

/-- along any schedule of the code as it is, `counter + inflight` stays below
`limit + (largest number of spawns in flight) - 1` (or below its initial value) -/
theorem xcount_run : ∀ {evs : List Event} {s s' : State}, s.reserve = false → run? s evs = some s' →
    xcount s' ≤ max (xcount s) (s.limit + peak s evs - 1)
  | [], s, s', _, h => by simp [run?] at h; subst h; exact Nat.le_max_left _ _
  | e :: es, s, s', hr, h => by
    unfold run? at h
    split at h
    · rename_i s1 h1
      obtain ⟨hl, hr1, _⟩ := step_static h1
      have ih := xcount_run (hr1.trans hr) h
      have hp : peak s (e :: es) = max (inflight s) (peak s1 es) := by
        rw [peak.eq_2, h1]
      have hip := inflight_le_peak s1 es
      rw [hp, hl] at *
      rcases xcount_step hr h1 with hle | ⟨hlt, hc, hi⟩
      · omega
      · have : xcount s1 = s.counter + (inflight s + 1) := by unfold xcount; rw [hc, hi]
        omega
    · cases h


/-- who owns what: metadata of the jobs held by the components -/
structure Meta (s : State) : Prop where
  done_meta : ∀ e, (e ∈ s.completed ∨ e ∈ s.delivered) →
    e.job < s.njobs ∧ e.owner = s.owner e.job ∧ e.out = outcomeOf (s.kind e.job) ∧ s.kind e.job ≠ .raw
  disp_owner : ∀ d j, d < s.nd → DState.holds j (s.disp d) = true → s.owner j = d ∧ j < s.njobs
  sendq_owner : ∀ d j, (d, j) ∈ s.sendq → s.owner j = d ∧ j < s.njobs
  wrk_known : ∀ w j, w < s.nw → WState.holds j (s.wrk w) = true → j < s.njobs

/-- `disp d` changes to a state holding at most the job it held before -/
theorem disp_owner_upd {s : State} (hM : Meta s) {d : Nat} {y : DState}
    (hy : ∀ j, DState.holds j y = true → DState.holds j (s.disp d) = true) :
    ∀ d' j, d' < s.nd → DState.holds j (upd s.disp d y d') = true → s.owner j = d' ∧ j < s.njobs := by
  intro d' j hd' hh
  by_cases he : d' = d
  · subst he; rw [upd_same] at hh; exact hM.disp_owner d' j hd' (hy j hh)
  · rw [upd_ne _ _ he] at hh; exact hM.disp_owner d' j hd' hh

/-- `wrk w` changes to a state holding at most job `j0`, which is known -/
theorem wrk_known_upd {s : State} (hM : Meta s) {w : Nat} {y : WState} {j0 : Nat} (hj0 : j0 < s.njobs)
    (hy : ∀ j, WState.holds j y = true → j = j0) :
    ∀ w' j, w' < s.nw → WState.holds j (upd s.wrk w y w') = true → j < s.njobs := by
  intro w' j hw' hh
  by_cases he : w' = w
  · subst he; rw [upd_same] at hh; rw [hy j hh]; exact hj0
  · rw [upd_ne _ _ he] at hh; exact hM.wrk_known w' j hw' hh

theorem wrk_known_upd_none {s : State} (hM : Meta s) {w : Nat} {y : WState}
    (hy : ∀ j, WState.holds j y = false) :
    ∀ w' j, w' < s.nw → WState.holds j (upd s.wrk w y w') = true → j < s.njobs := by
  intro w' j hw' hh
  by_cases he : w' = w
  · subst he; rw [upd_same, hy] at hh; cases hh
  · rw [upd_ne _ _ he] at hh; exact hM.wrk_known w' j hw' hh

theorem takeOwned_mem (d : Nat) : ∀ (l : List Done) (e : Done) (rest : List Done),
    takeOwned d l = some (e, rest) → e ∈ l ∧ ∀ x, x ∈ rest → x ∈ l
  | [], e, rest, h => by simp [takeOwned] at h
  | a :: l, e, rest, h => by
    unfold takeOwned at h
    split at h
    · simp only [Option.some.injEq, Prod.mk.injEq] at h
      obtain ⟨rfl, rfl⟩ := h
      exact ⟨List.mem_cons_self, fun x hx => List.mem_cons_of_mem _ hx⟩
    · split at h
      · rename_i x r hx
        simp only [Option.some.injEq, Prod.mk.injEq] at h
        obtain ⟨rfl, rfl⟩ := h
        obtain ⟨h1, h2⟩ := takeOwned_mem d l x r hx
        refine ⟨List.mem_cons_of_mem _ h1, ?_⟩
        intro y hy
        rcases List.mem_cons.mp hy with rfl | hy
        · exact List.mem_cons_self
        · exact List.mem_cons_of_mem _ (h2 y hy)
      · cases h

theorem holds_trying (j j' : Nat) : DState.holds j' (.trying j) = true ↔ j = j' := by simp [DState.holds]
theorem holds_eq {j j' : Nat} {x : DState} (hx : ∀ i, DState.holds i x = (j == i)) : DState.holds j' x = true → j' = j := by
  intro h; rw [hx] at h; exact (beq_iff_eq.mp h).symm

theorem meta_step {s s' : State} {e : Event} (hM : Meta s) (h : step? s e = some s') : Meta s' := by
  cases e with
  | submit d k =>
    obtain ⟨hd, hj, rfl⟩ := doSubmit_some h
    refine ⟨?_, ?_, ?_, ?_⟩
    · intro e he
      obtain ⟨a, b, c, d'⟩ := hM.done_meta e he
      have hne : e.job ≠ s.njobs := by omega
      exact ⟨Nat.lt_succ_of_lt a, by show _ = upd s.owner _ _ _; rw [upd_ne _ _ hne]; exact b,
        by show _ = outcomeOf (upd s.kind _ _ _); rw [upd_ne _ _ hne]; exact c,
        by show upd s.kind _ _ _ ≠ _; rw [upd_ne _ _ hne]; exact d'⟩
    · intro d' j hd' hh
      have hh' : DState.holds j (upd s.disp d (.trying s.njobs) d') = true := hh
      by_cases he : d' = d
      · subst he
        rw [upd_same] at hh'
        have : s.njobs = j := (holds_trying _ _).mp hh'
        subst this
        exact ⟨upd_same _ _ _, Nat.lt_succ_self _⟩
      · rw [upd_ne _ _ he] at hh'
        obtain ⟨a, b⟩ := hM.disp_owner d' j hd' hh'
        exact ⟨by show upd s.owner _ _ _ = _; rw [upd_ne _ _ (by omega)]; exact a, Nat.lt_succ_of_lt b⟩
    · intro d' j hm
      obtain ⟨a, b⟩ := hM.sendq_owner d' j hm
      exact ⟨by show upd s.owner _ _ _ = _; rw [upd_ne _ _ (by omega)]; exact a, Nat.lt_succ_of_lt b⟩
    · intro w j hw hh
      exact Nat.lt_succ_of_lt (hM.wrk_known w j hw hh)
  | trySend d =>
    obtain ⟨hd, j, hj, (⟨w, rest, _, rfl⟩ | ⟨_, rfl⟩)⟩ := doTrySend_some h
    · have hjn := (hM.disp_owner d j hd (by rw [hj]; simp [DState.holds])).2
      exact ⟨hM.done_meta, disp_owner_upd hM (by intro i hi; simp [DState.holds] at hi), hM.sendq_owner,
        wrk_known_upd hM hjn (by intro i hi; simp [WState.holds] at hi; exact hi.symm)⟩
    · exact ⟨hM.done_meta, disp_owner_upd hM (by intro i hi; rw [hj]; exact hi), hM.sendq_owner, hM.wrk_known⟩
  | load d =>
    obtain ⟨hd, j, hj, (⟨_, rfl⟩ | ⟨_, _, rfl⟩ | ⟨_, _, _, rfl⟩ | ⟨_, _, _, rfl⟩)⟩ := doLoad_some h <;>
    exact ⟨hM.done_meta, disp_owner_upd hM (by intro i hi; rw [hj]; exact hi), hM.sendq_owner, hM.wrk_known⟩
  | spawn d =>
    obtain ⟨hd, j, hj, rfl⟩ := doSpawn_some h
    refine ⟨hM.done_meta, disp_owner_upd hM (by intro i hi; rw [hj]; exact hi), hM.sendq_owner, ?_⟩
    intro w' j' hw' hh
    have hh' : WState.holds j' (upd s.wrk s.nw .starting w') = true := hh
    by_cases he : w' = s.nw
    · subst he; rw [upd_same] at hh'; simp [WState.holds] at hh'
    · rw [upd_ne _ _ he] at hh'
      exact hM.wrk_known w' j' (by have : w' < s.nw + 1 := hw'; omega) hh'
  | send d =>
    obtain ⟨hd, j, hj, (⟨w, rest, _, rfl⟩ | ⟨_, rfl⟩)⟩ := doSend_some h
    · have hjn := (hM.disp_owner d j hd (by rw [hj]; simp [DState.holds])).2
      exact ⟨hM.done_meta, disp_owner_upd hM (by intro i hi; simp [DState.holds] at hi), hM.sendq_owner,
        wrk_known_upd hM hjn (by intro i hi; simp [WState.holds] at hi; exact hi.symm)⟩
    · have hjo := hM.disp_owner d j hd (by rw [hj]; simp [DState.holds])
      refine ⟨hM.done_meta, disp_owner_upd hM (by intro i hi; simp [DState.holds] at hi), ?_, hM.wrk_known⟩
      intro d' j' hm
      rcases List.mem_append.mp hm with h1 | h1
      · exact hM.sendq_owner d' j' h1
      · simp only [List.mem_singleton, Prod.mk.injEq] at h1
        obtain ⟨rfl, rfl⟩ := h1
        exact hjo
  | retry d =>
    obtain ⟨hd, j, hj, rfl⟩ := doRetry_some h
    exact ⟨hM.done_meta, disp_owner_upd hM (by intro i hi; rw [hj]; exact hi), hM.sendq_owner, hM.wrk_known⟩
  | giveUp d =>
    obtain ⟨hd, j, (⟨hj, rfl⟩ | ⟨hj, rfl⟩)⟩ := doGiveUp_some h <;>
    exact ⟨hM.done_meta, disp_owner_upd hM (by intro i hi; simp [DState.holds] at hi), hM.sendq_owner, hM.wrk_known⟩
  | reap d =>
    obtain ⟨e, rest, he, rfl⟩ := doReap_some h
    obtain ⟨h1, h2⟩ := takeOwned_mem d _ _ _ he
    refine ⟨?_, hM.disp_owner, hM.sendq_owner, hM.wrk_known⟩
    intro x hx
    rcases hx with hx | hx
    · exact hM.done_meta x (.inl (h2 x hx))
    · rcases List.mem_cons.mp hx with rfl | hx
      · exact hM.done_meta x (.inl h1)
      · exact hM.done_meta x (.inr hx)
  | count w =>
    obtain ⟨hw, hs, (⟨_, rfl⟩ | ⟨_, rfl⟩)⟩ := doCount_some h <;>
    exact ⟨hM.done_meta, hM.disp_owner, hM.sendq_owner, wrk_known_upd_none hM (by intro i; rfl)⟩
  | recv w =>
    obtain ⟨hw, hs, (⟨d, j, rest, hq, rfl⟩ | ⟨_, rfl⟩)⟩ := doRecv_some h
    · have hjn := (hM.sendq_owner d j (by rw [hq]; simp)).2
      refine ⟨hM.done_meta, disp_owner_upd hM (by intro i hi; simp [DState.holds] at hi), ?_,
        wrk_known_upd hM hjn (by intro i hi; simp [WState.holds] at hi; exact hi.symm)⟩
      intro d' j' hm
      exact hM.sendq_owner d' j' (by rw [hq]; exact List.mem_cons_of_mem _ hm)
    · exact ⟨hM.done_meta, hM.disp_owner, hM.sendq_owner, wrk_known_upd_none hM (by intro i; rfl)⟩
  | wake w =>
    obtain ⟨hw, j, hs, rfl⟩ := doWake_some h
    have hjn := hM.wrk_known w j hw (by rw [hs]; simp [WState.holds])
    exact ⟨hM.done_meta, hM.disp_owner, hM.sendq_owner,
      wrk_known_upd hM hjn (by intro i hi; simp [WState.holds] at hi; exact hi.symm)⟩
  | timeout w =>
    obtain ⟨hw, hs, rfl⟩ := doTimeout_some h
    exact ⟨hM.done_meta, hM.disp_owner, hM.sendq_owner, wrk_known_upd_none hM (by intro i; rfl)⟩
  | finish w =>
    obtain ⟨hw, j, hs, (⟨_, rfl⟩ | ⟨hk, rfl⟩)⟩ := doFinish_some h
    · exact ⟨hM.done_meta, hM.disp_owner, hM.sendq_owner, wrk_known_upd_none hM (by intro i; rfl)⟩
    · have hjn := hM.wrk_known w j hw (by rw [hs]; simp [WState.holds])
      refine ⟨?_, hM.disp_owner, hM.sendq_owner, wrk_known_upd_none hM (by intro i; rfl)⟩
      intro x hx
      rcases hx with hx | hx
      · rcases List.mem_append.mp hx with hx | hx
        · exact hM.done_meta x (.inl hx)
        · simp only [List.mem_singleton] at hx; subst hx
          exact ⟨hjn, rfl, rfl, hk⟩
      · exact hM.done_meta x (.inr hx)
  | exit w =>
    obtain ⟨hw, hs, rfl⟩ := doExit_some h
    exact ⟨hM.done_meta, hM.disp_owner, hM.sendq_owner, wrk_known_upd_none hM (by intro i; rfl)⟩

theorem meta_init (limit nd : Nat) (reserve : Bool) : Meta (init limit nd reserve) := by
  refine ⟨?_, ?_, ?_, ?_⟩
  · intro e he
    rcases he with he | he <;> cases he
  · intro d j _ h
    simp [init, DState.holds] at h
  · intro d j h
    cases h
  · intro w j h
    exact absurd h (Nat.not_lt_zero _)

theorem meta_run {s : State} (hM : Meta s) : ∀ {evs : List Event} {s' : State}, run? s evs = some s' → Meta s'
  | [], s', h => by simp [run?] at h; subst h; exact hM
  | e :: es, s', h => by
    unfold run? at h
    split at h
    · rename_i s1 h1
      exact meta_run (meta_step hM h1) h
    · cases h


/-! ## pending rendezvous sends versus workers that will call `recv` again -/

def DState.isSending : DState → Bool
  | .sending _ => true
  | _ => false

/-- the worker will (re-)enter `recv_timeout` unless a timer or an uncaught panic stops it -/
def WState.willRecv : WState → Bool
  | .leaving => false
  | .exited => false
  | _ => true

/-- dispatchers between `thread::spawn` and the end of `sender.send` -/
def pendingSends (s : State) : Nat := cnt s.disp DState.isSending s.nd + s.sendq.length

/-- neither an idle timeout nor a job that panics uncaught -/
def Benign : Event → Bool
  | .timeout _ => false
  | .submit _ .raw => false
  | _ => true

theorem pending_step {s s' : State} {e : Event} (hI : Inv s) (hk : ∀ j, s.kind j ≠ .raw) (hb : Benign e = true)
    (hp : pendingSends s ≤ cnt s.wrk WState.willRecv s.nw) (h : step? s e = some s') :
    pendingSends s' ≤ cnt s'.wrk WState.willRecv s'.nw ∧ ∀ j, s'.kind j ≠ .raw := by
  unfold pendingSends at hp ⊢
  cases e with
  | submit d k =>
    obtain ⟨hd, hj, rfl⟩ := doSubmit_some h
    refine ⟨?_, ?_⟩
    · simp only [cnt_split _ _ hd, cntEx_upd, upd_same, hj, DState.isSending] at hp ⊢; cnt_norm at hp ⊢; omega
    · intro j
      show upd s.kind s.njobs k j ≠ .raw
      by_cases he : j = s.njobs
      · subst he; rw [upd_same]; intro hr; subst hr; simp [Benign] at hb
      · rw [upd_ne _ _ he]; exact hk j
  | trySend d =>
    obtain ⟨hd, j, hj, (⟨w, rest, hw, rfl⟩ | ⟨_, rfl⟩)⟩ := doTrySend_some h
    · obtain ⟨hwn, hwp⟩ := hI.wait_parked w (by simp [hw])
      refine ⟨?_, hk⟩
      simp only [cnt_split _ _ hd, cnt_split _ _ hwn, cntEx_upd, upd_same, hj, hwp, DState.isSending, WState.willRecv] at hp ⊢
      cnt_norm at hp ⊢; omega
    · refine ⟨?_, hk⟩
      simp only [cnt_split _ _ hd, cntEx_upd, upd_same, hj, DState.isSending] at hp ⊢; cnt_norm at hp ⊢; omega
  | load d =>
    obtain ⟨hd, j, hj, (⟨_, rfl⟩ | ⟨_, _, rfl⟩ | ⟨_, _, _, rfl⟩ | ⟨_, _, _, rfl⟩)⟩ := doLoad_some h <;>
    · refine ⟨?_, hk⟩
      simp only [cnt_split _ _ hd, cntEx_upd, upd_same, hj, DState.isSending] at hp ⊢; cnt_norm at hp ⊢; omega
  | spawn d =>
    obtain ⟨hd, j, hj, rfl⟩ := doSpawn_some h
    refine ⟨?_, hk⟩
    simp only [cnt_split _ _ hd, cntEx_upd, upd_same, cnt_push, hj, DState.isSending, WState.willRecv] at hp ⊢
    cnt_norm at hp ⊢; omega
  | send d =>
    obtain ⟨hd, j, hj, (⟨w, rest, hw, rfl⟩ | ⟨_, rfl⟩)⟩ := doSend_some h
    · obtain ⟨hwn, hwp⟩ := hI.wait_parked w (by simp [hw])
      refine ⟨?_, hk⟩
      simp only [cnt_split _ _ hd, cnt_split _ _ hwn, cntEx_upd, upd_same, hj, hwp, DState.isSending, WState.willRecv] at hp ⊢
      cnt_norm at hp ⊢; omega
    · refine ⟨?_, hk⟩
      simp only [cnt_split _ _ hd, cntEx_upd, upd_same, hj, DState.isSending] at hp ⊢; cnt_norm at hp ⊢; omega
  | retry d =>
    obtain ⟨hd, j, hj, rfl⟩ := doRetry_some h
    refine ⟨?_, hk⟩
    simp only [cnt_split _ _ hd, cntEx_upd, upd_same, hj, DState.isSending] at hp ⊢; cnt_norm at hp ⊢; omega
  | giveUp d =>
    obtain ⟨hd, j, (⟨hj, rfl⟩ | ⟨hj, rfl⟩)⟩ := doGiveUp_some h <;>
    · refine ⟨?_, hk⟩
      simp only [cnt_split _ _ hd, cntEx_upd, upd_same, hj, DState.isSending] at hp ⊢; cnt_norm at hp ⊢; omega
  | reap d => obtain ⟨e, rest, _, rfl⟩ := doReap_some h; exact ⟨hp, hk⟩
  | count w =>
    obtain ⟨hw, hs, (⟨_, rfl⟩ | ⟨_, rfl⟩)⟩ := doCount_some h <;>
    · refine ⟨?_, hk⟩
      simp only [cnt_split _ _ hw, cntEx_upd, upd_same, hs, WState.willRecv] at hp ⊢; cnt_norm at hp ⊢; omega
  | recv w =>
    obtain ⟨hw, hs, (⟨d, j, rest, hq, rfl⟩ | ⟨_, rfl⟩)⟩ := doRecv_some h
    · obtain ⟨hd, hb'⟩ := hI.sendq_blocked d j (by rw [hq]; simp)
      refine ⟨?_, hk⟩
      simp only [cnt_split _ _ hd, cnt_split _ _ hw, cntEx_upd, upd_same, hs, hb', hq, DState.isSending, WState.willRecv] at hp ⊢
      cnt_norm at hp ⊢; omega
    · refine ⟨?_, hk⟩
      simp only [cnt_split _ _ hw, cntEx_upd, upd_same, hs, WState.willRecv] at hp ⊢; cnt_norm at hp ⊢; omega
  | wake w =>
    obtain ⟨hw, j, hs, rfl⟩ := doWake_some h
    refine ⟨?_, hk⟩
    simp only [cnt_split _ _ hw, cntEx_upd, upd_same, hs, WState.willRecv] at hp ⊢; cnt_norm at hp ⊢; omega
  | timeout w => simp [Benign] at hb
  | finish w =>
    obtain ⟨hw, j, hs, (⟨hr, rfl⟩ | ⟨_, rfl⟩)⟩ := doFinish_some h
    · exact absurd hr (hk j)
    · refine ⟨?_, hk⟩
      simp only [cnt_split _ _ hw, cntEx_upd, upd_same, hs, WState.willRecv] at hp ⊢; cnt_norm at hp ⊢; omega
  | exit w =>
    obtain ⟨hw, hs, rfl⟩ := doExit_some h
    refine ⟨?_, hk⟩
    simp only [cnt_split _ _ hw, cntEx_upd, upd_same, hs, WState.willRecv] at hp ⊢; cnt_norm at hp ⊢; omega

theorem pending_run : ∀ {evs : List Event} {s s' : State}, Inv s → (∀ j, s.kind j ≠ .raw) →
    (∀ e, e ∈ evs → Benign e = true) → pendingSends s ≤ cnt s.wrk WState.willRecv s.nw → run? s evs = some s' →
    pendingSends s' ≤ cnt s'.wrk WState.willRecv s'.nw
  | [], s, s', _, _, _, hp, h => by simp [run?] at h; subst h; exact hp
  | e :: es, s, s', hI, hk, hb, hp, h => by
    unfold run? at h
    split at h
    · rename_i s1 h1
      obtain ⟨hp1, hk1⟩ := pending_step hI hk (hb e List.mem_cons_self) hp h1
      exact pending_run (inv_step hI h1) hk1 (fun e' he' => hb e' (List.mem_cons_of_mem _ he')) hp1 h
    · cases h

/-- some index below `n` satisfies `p` when the count is positive -/
theorem exists_of_cnt_pos {α : Type} (f : Nat → α) (p : α → Bool) : ∀ n : Nat, 1 ≤ cnt f p n → ∃ i, i < n ∧ p (f i) = true
  | 0, h => by simp [cnt] at h
  | n + 1, h => by
    rw [cnt_succ] at h
    cases hp : p (f n)
    · rw [hp] at h
      obtain ⟨i, hi, hpi⟩ := exists_of_cnt_pos f p n (by simpa using h)
      exact ⟨i, by omega, hpi⟩
    · exact ⟨n, by omega, hp⟩

/-! ## the driver's deterministic scheduler only takes steps of the model -/

theorem quiesce_valid : ∀ (fuel : Nat) (s : State), run? s (quiesce fuel s).1 = some (quiesce fuel s).2
  | 0, s => rfl
  | fuel + 1, s => by
    unfold quiesce
    split
    · rfl
    · rename_i e he
      split
      · rename_i s' hs
        show run? s (e :: (quiesce fuel s').1) = _
        rw [run?, hs]
        exact quiesce_valid fuel s'
      · rfl

theorem run?_append (s : State) : ∀ (a b : List Event), run? s (a ++ b) = (run? s a).bind (fun s' => run? s' b)
  | [], b => rfl
  | e :: a, b => by
    show run? s (e :: (a ++ b)) = _
    rw [run?, run?]
    cases step? s e with
    | none => rfl
    | some s1 => exact run?_append s1 a b


end Compio.Asyncify
