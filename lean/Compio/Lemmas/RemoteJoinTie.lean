/-
Which handle program the cross-thread LTS runs is decided by the SOURCE: `pollRechecks` is computed from the
shape of `Remote::poll` as extracted into Gen/TaskOrder.lean on every run (does each
`finish_setting_waker::<true>()` call site re-examine the snapshot it returns and go round the loop again?).
`Reachable pollRechecks` = the interleavings of the code as it is; the theorems of Lemmas/RemoteJoin.lean are
transported to it through `pollRechecks_eq`, which stops holding as soon as one site loses its re-check.
-/
import Compio.Lemmas.RemoteJoin
import Compio.Gen.TaskOrder

namespace Compio.RemoteJoin
open Compio.Gen

/-- every `finish_setting_waker::<true>()` site of the extracted `Remote::poll` re-checks, and these are
exactly the two sites of the LTS (waker already up to date / new waker installed) -/
def pollRechecks : Bool :=
  ((TaskOrder.remotePollFinishSites.filter (fun s => s.1 == "::<true>")).map (fun s => s.2.2)) == [true, true]

/-- the current source re-checks at both sites (false for the code before e466077 and for seeded defect C04-2b) -/
theorem pollRechecks_eq : pollRechecks = true := by decide

/-- the interleavings of the code as extracted are those of the fully re-checking program -/
theorem reachable_extracted {s : RState} (h : Reachable pollRechecks s) : Reachable true s :=
  pollRechecks_eq ▸ h

theorem reachable_extracted_iff (s : RState) : Reachable pollRechecks s ↔ Reachable true s := by
  rw [pollRechecks_eq]

end Compio.RemoteJoin
