/-
Lemmas about the derived methods (Compio/Model/ViewOps.lean).
-/
import Compio.Lemmas.View
import Compio.Model.ViewOps

namespace Compio.View

/-! ### reserve at the root -/

theorem Root.grown_facts (r : Root) (nc n : Nat) (hle : r.len ≤ r.cap) (hc : r.len + n ≤ nc ∧ r.cap ≤ nc) :
    let r' : Root := { r with mem := r.mem.take r.len ++ List.replicate (nc - r.len) freshByte }
    r'.mem.take r.len = r.mem.take r.len ∧ r'.cap = nc := by
  simp only [Root.cap] at hle hc ⊢
  have hl : (List.take r.len r.mem).length = r.len := by
    simp only [List.length_take]; omega
  refine ⟨?_, ?_⟩
  · rw [List.take_append_of_le_length (by omega)]
    simp [List.take_take]
  · simp only [List.length_append, hl, List.length_replicate]; omega

theorem Root.reserveWith_done {r r' : Root} {n : Nat} {exact : Bool} {ans : Option Nat} {out : ResOut}
    (hle : r.len ≤ r.cap) (h : r.reserveWith n exact ans = .done r' out) :
    r'.kind = r.kind ∧ r'.len = r.len ∧ r'.mem.take r.len = r.mem.take r.len ∧ r.cap ≤ r'.cap ∧
    (out = .ok → r.len + n ≤ r'.cap) ∧ r'.len ≤ r'.cap := by
  unfold Root.reserveWith at h
  by_cases hg : r.kind = .vec ∨ r.kind = .smallvec ∨ r.kind = .bytesmut
  · simp only [hg, if_true] at h
    by_cases hn : n ≤ r.cap - r.len
    · simp only [hn, if_true] at h
      cases h
      exact ⟨rfl, rfl, rfl, Nat.le_refl _, fun _ => by omega, hle⟩
    · simp only [hn, if_false] at h
      by_cases hh : hugeRequest ≤ n
      · simp only [hh, if_true] at h
        split at h <;> cases h
      · simp only [hh, if_false] at h
        cases ans with
        | none => cases h
        | some nc =>
          simp only at h
          by_cases hc : r.len + n ≤ nc ∧ r.cap ≤ nc
          · simp only [hc, and_self, if_true] at h
            obtain ⟨f1, f2⟩ := Root.grown_facts r nc n hle hc
            simp only at f1 f2
            by_cases hx : exact = true ∧ nc - r.len ≠ n
            · rw [if_pos hx] at h
              cases h
              refine ⟨rfl, rfl, f1, ?_, ?_, ?_⟩
              · rw [f2]; exact hc.2
              · intro h0; cases h0
              · rw [f2]; show r.len ≤ nc; omega
            · rw [if_neg hx] at h
              cases h
              refine ⟨rfl, rfl, f1, ?_, ?_, ?_⟩
              · rw [f2]; exact hc.2
              · intro _; rw [f2]; exact hc.1
              · rw [f2]; show r.len ≤ nc; omega
          · simp only [hc, if_false] at h
            cases h
  · simp only [hg, if_false] at h
    by_cases hn : n ≤ r.cap - r.len
    · simp only [hn, if_true] at h
      cases h
      exact ⟨rfl, rfl, rfl, Nat.le_refl _, fun _ => by omega, hle⟩
    · simp only [hn, if_false] at h
      cases h

/-- a non-exact `reserve` never reports a size mismatch -/
theorem Root.reserveWith_nonexact {r r' : Root} {n : Nat} {ans : Option Nat} {out : ResOut}
    (h : r.reserveWith n false ans = .done r' out) : out = .ok := by
  unfold Root.reserveWith at h
  by_cases hg : r.kind = .vec ∨ r.kind = .smallvec ∨ r.kind = .bytesmut
  · simp only [hg, if_true] at h
    by_cases hn : n ≤ r.cap - r.len
    · simp only [hn, if_true] at h; cases h; rfl
    · simp only [hn, if_false] at h
      by_cases hh : hugeRequest ≤ n
      · simp only [hh, if_true] at h
        split at h <;> cases h
      · simp only [hh, if_false] at h
        cases ans with
        | none => cases h
        | some nc =>
          simp only at h
          by_cases hc : r.len + n ≤ nc ∧ r.cap ≤ nc
          · simp only [hc, and_self, if_true, Bool.false_eq_true, false_and, if_false] at h
            cases h; rfl
          · simp only [hc, if_false] at h
            cases h
  · simp only [hg, if_false] at h
    by_cases hn : n ≤ r.cap - r.len
    · simp only [hn, if_true] at h; cases h; rfl
    · simp only [hn, if_false] at h; cases h

/-! ### through view stacks -/

theorem Buf.reserveWith_done {v v' : Buf} {n : Nat} {exact : Bool} {ans : Option Nat} {out : ResOut}
    (h : v.reserveWith n exact ans = .done v' out) :
    v.reserveReaches = true ∧ ∃ r', v.getRoot.reserveWith n exact ans = .done r' out ∧ v' = v.setRoot r' := by
  unfold Buf.reserveWith at h
  split at h
  · rename_i hr
    cases hrr : v.getRoot.reserveWith n exact ans <;> simp only [hrr] at h <;> try cases h
    exact ⟨hr, _, rfl, rfl⟩
  · cases h

/-- the old, growth-free description of `reserve` agrees with the new one -/
theorem Buf.reserve_eq_reaches (v : Buf) (n : Nat) :
    v.reserve n = .ok (some true) ↔
      (v.reserveReaches = true ∧ n ≤ v.getRoot.cap - v.getRoot.len) := by
  induction v with
  | root r =>
    simp only [Buf.reserve, Buf.reserveReaches, Buf.getRoot, true_and]
    cases r.kind <;> simp <;> (try split) <;> simp_all
  | slice i b e ih =>
    simp only [Buf.reserve, Buf.reserveReaches, Buf.getRoot]
    cases e <;> simp [ih]
  | uninit i b ih =>
    simp only [Buf.reserve, Buf.reserveReaches, Buf.getRoot]
    exact ih

theorem Buf.reserveReaches_setRoot (v : Buf) (r : Root) : (v.setRoot r).reserveReaches = v.reserveReaches := by
  induction v with
  | root _ => rfl
  | slice i b e ih => simp [Buf.setRoot, Buf.reserveReaches, ih]
  | uninit i b ih => simp [Buf.setRoot, Buf.reserveReaches, ih]

/-- when no growth is needed `reserve` leaves everything as it is, whatever answer is supplied -/
theorem Buf.reserveWith_of_room {v : Buf} {n : Nat} (h : v.reserve n = .ok (some true)) (exact : Bool)
    (ans : Option Nat) : v.reserveWith n exact ans = .done v .ok := by
  obtain ⟨hr, hn⟩ := (Buf.reserve_eq_reaches v n).mp h
  have hroot : v.getRoot.reserveWith n exact ans = .done v.getRoot .ok := by
    unfold Root.reserveWith
    by_cases hg : v.getRoot.kind = .vec ∨ v.getRoot.kind = .smallvec ∨ v.getRoot.kind = .bytesmut
    · simp only [hg, if_true, hn]
    · simp only [hg, if_false, hn, if_true]
  unfold Buf.reserveWith
  simp only [hr, if_true, hroot, Buf.setRoot_getRoot]

/-- `extend_from_slice` with an answer supplied is the growth-free `extend` whenever no growth is needed -/
theorem Buf.extendWith_eq_extend {v : Buf} {d : Bytes} (h : v.reserve d.length = .ok (some true))
    (ans : Option Nat) : v.extendWith d ans = v.extend d := by
  unfold Buf.extendWith Buf.extend
  cases hi : v.asInit with
  | error f => rfl
  | ok p =>
    simp only [Buf.reserveWith_of_room h false ans, h]
    rfl

/-- ... and after a growth it is the growth-free `extend` of the grown buffer -/
theorem Buf.extendWith_after_growth {v v1 : Buf} {d : Bytes} {ans : Option Nat} {out : ResOut}
    (hle : v.getRoot.len ≤ v.getRoot.cap) (h : v.reserveWith d.length false ans = .done v1 out) :
    v.extendWith d ans = v1.extend d := by
  obtain ⟨hr, r', hroot, rfl⟩ := Buf.reserveWith_done h
  obtain ⟨hk, hl, _, _, hcap, _⟩ := Root.reserveWith_done hle hroot
  have hout : out = .ok := Root.reserveWith_nonexact hroot
  have hres : (v.setRoot r').reserve d.length = .ok (some true) := by
    rw [Buf.reserve_eq_reaches]
    refine ⟨by rw [Buf.reserveReaches_setRoot]; exact hr, ?_⟩
    simp only [Buf.getRoot_setRoot]
    have := hcap hout
    omega
  unfold Buf.extendWith Buf.extend
  rw [Buf.asInit_setRoot_mem v r' (by simpa using hl)]
  cases hi : v.asInit with
  | error f => rfl
  | ok p =>
    simp only [h, hres]
    rfl

end Compio.View
