/-
Helper lemmas for C02: the completion-slot bookkeeping (`Keys`) and its invariant `KInv`,
stated abstractly over "who still owes a result" (`queued`, `pool`, the `completed` channel) so that both
driver models use the same lemmas.
-/
import Compio.Model.Completion

namespace Compio.Completion

/-- results waiting in the `completed` channel (resp. completion queue) for `id`, oldest first -/
def chanRes (chan : List (Id × Res)) (id : Id) : List Res := (chan.filter (fun e => e.1 = id)).map (·.2)

@[simp] theorem chanRes_nil (id : Id) : chanRes [] id = [] := rfl

theorem chanRes_cons (e : Id × Res) (chan : List (Id × Res)) (id : Id) :
    chanRes (e :: chan) id = if e.1 = id then e.2 :: chanRes chan id else chanRes chan id := by
  unfold chanRes
  by_cases h : e.1 = id <;> simp [h]

theorem chanRes_append (a b : List (Id × Res)) (id : Id) :
    chanRes (a ++ b) id = chanRes a id ++ chanRes b id := by
  unfold chanRes
  simp [List.filter_append]

theorem chanRes_single (id' : Id) (r : Res) (id : Id) :
    chanRes [(id', r)] id = if id' = id then [r] else [] := by
  rw [chanRes_cons]; simp

/-- the wakers `set_result` woke (consuming `wake()`) for operation `id`, in order -/
def finalWakers (ks : Keys) (id : Id) : List WakerId :=
  ks.wakeLog.filterMap fun r => if r.op = id ∧ r.final = true then some r.waker else none

theorem finalWakers_of_log (ks ks' : Keys) (h : ks'.wakeLog = ks.wakeLog) (id : Id) :
    finalWakers ks' id = finalWakers ks id := by unfold finalWakers; rw [h]

theorem finalWakers_append (ks ks' : Keys) (r : WakeRec) (h : ks'.wakeLog = ks.wakeLog ++ [r]) (id : Id) :
    finalWakers ks' id = finalWakers ks id ++ (if r.op = id ∧ r.final = true then [r.waker] else []) := by
  unfold finalWakers; rw [h, List.filterMap_append]
  by_cases hc : r.op = id ∧ r.final = true <;> simp [hc]

/-- the relation between the slot of `id` and the ghost histories -/
def SlotRel (ks : Keys) (queued : Id → Prop) (pool : List Id) (id : Id) : Prop :=
  match ks.slot id with
  | .free => (ks.src id = [] ∧ ¬ queued id ∧ id ∉ pool ∧ ks.dlv id = [] ∧ ks.fin id = [])
             ∨ (ks.fin id ≠ [] ∧ ks.dlv id = ks.fin id)
  | .pending _ => ks.fin id = [] ∧ ks.dlv id = []
  | .ready r => ks.fin id = [r] ∧ ks.dlv id = []

/-- The completion invariant.  `queued id`: the driver still holds `id` in a readiness queue / the kernel
    still owns it; `pool`: blocking jobs running; `chan`: finished results not yet notified. -/
structure KInv (ks : Keys) (chan : List (Id × Res)) (queued : Id → Prop) (pool : List Id) : Prop where
  srcLen : ∀ id, (ks.src id).length ≤ 1
  qFresh : ∀ id, queued id → ks.src id = [] ∧ id ∉ pool
  poolFresh : ∀ id, id ∈ pool → ks.src id = []
  poolNodup : pool.Nodup
  link : ∀ id, ks.fin id ++ chanRes chan id = ks.src id
  slotRel : ∀ id, SlotRel ks queued pool id
  noUaf : ks.uaf = false
  wokenLe : ∀ id, ks.woken id ≤ (ks.fin id).length
  wakeReady : ∀ w ∈ ks.wakeLog, w.final = true → w.readyAtWake = true
  /-- a pending slot holds a waker iff `update_waker` was called for it -/
  wakerReg : ∀ id w, ks.slot id = .pending w → w.isSome = ks.hadWaker id
  /-- a completed operation's waker was woken exactly once if one was registered, never otherwise -/
  wokenEq : ∀ id, ks.fin id ≠ [] → ks.woken id = (if ks.hadWaker id then 1 else 0)
  freshNoWaker : ∀ id, ks.slot id = .free → ks.src id = [] → ks.hadWaker id = false
  /-- the waker held by a pending slot is the one of the latest `update_waker` -/
  lastReg : ∀ id w, ks.slot id = .pending w → w = ks.lastWaker id
  /-- `set_result` woke exactly the latest registered waker, once — and nobody before completion -/
  wakersEq : ∀ id, finalWakers ks id = if (ks.fin id).isEmpty then [] else (ks.lastWaker id).toList
  freshNoLast : ∀ id, ks.slot id = .free → ks.src id = [] → ks.lastWaker id = none

theorem KInv.init : KInv {} [] (fun _ => False) [] where
  srcLen := by intro id; simp
  qFresh := by intro id h; exact h.elim
  poolFresh := by intro id h; simp at h
  poolNodup := List.nodup_nil
  link := by intro id; simp
  slotRel := by intro id; simp [SlotRel]
  noUaf := rfl
  wokenLe := by intro id; simp
  wakeReady := by intro w h; simp at h
  wakerReg := by intro id w h; simp at h
  wokenEq := by intro id h; simp at h
  freshNoWaker := by intro id _ _; rfl
  lastReg := by intro id w h; simp at h
  wakersEq := by intro id; simp [finalWakers]
  freshNoLast := by intro id _ _; rfl

section
variable {ks : Keys} {chan : List (Id × Res)} {queued : Id → Prop} {pool : List Id}

theorem KInv.finLen (h : KInv ks chan queued pool) (id : Id) : (ks.fin id).length ≤ 1 := by
  have h1 := h.link id
  have h2 := h.srcLen id
  rw [← h1] at h2
  simp at h2; omega

theorem KInv.fin_of_src_nil (h : KInv ks chan queued pool) {id : Id} (hs : ks.src id = []) :
    ks.fin id = [] ∧ chanRes chan id = [] := by
  have h1 := h.link id
  rw [hs] at h1
  simpa using h1

/-- an operation that is still owed a result has a pending slot -/
theorem KInv.pending_of_fresh (h : KInv ks chan queued pool) {id : Id}
    (hs : ks.src id = []) (hq : queued id ∨ id ∈ pool) : ∃ w, ks.slot id = .pending w := by
  have hr := h.slotRel id
  have hf := (h.fin_of_src_nil hs).1
  unfold SlotRel at hr
  cases hsl : ks.slot id with
  | free =>
    rw [hsl] at hr
    rcases hr with ⟨_, hnq, hnp, _, _⟩ | ⟨hne, _⟩
    · rcases hq with hq | hq
      · exact (hnq hq).elim
      · exact (hnp hq).elim
    · exact (hne hf).elim
  | pending w => exact ⟨w, rfl⟩
  | ready r =>
    rw [hsl] at hr
    rw [hf] at hr
    simp at hr

/-- an entry waiting in the channel belongs to an operation whose slot is still pending -/
theorem KInv.pending_of_chan {id : Id} {r : Res} (h : KInv ks ((id, r) :: chan) queued pool) : ∃ w, ks.slot id = .pending w := by
  have h1 := h.link id
  have h2 := h.srcLen id
  rw [chanRes_cons] at h1
  simp at h1
  have hfin : ks.fin id = [] := by
    cases hf : ks.fin id with
    | nil => rfl
    | cons a l => rw [hf] at h1; rw [← h1] at h2; simp at h2
  have hsrc : ks.src id ≠ [] := by rw [← h1, hfin]; simp
  have hr := h.slotRel id
  unfold SlotRel at hr
  cases hsl : ks.slot id with
  | free =>
    rw [hsl] at hr
    rcases hr with ⟨hs, _⟩ | ⟨hne, _⟩
    · exact (hsrc hs).elim
    · exact (hne hfin).elim
  | pending w => exact ⟨w, rfl⟩
  | ready r' => rw [hsl] at hr; rw [hfin] at hr; simp at hr

end

/-! ### how the primitives act on the fields -/

@[simp] theorem alloc_slot (ks : Keys) (id x : Id) :
    (ks.alloc id).slot x = if x = id then .pending none else ks.slot x := by simp [Keys.alloc, upd]
@[simp] theorem alloc_src (ks : Keys) (id : Id) : (ks.alloc id).src = ks.src := rfl
@[simp] theorem alloc_fin (ks : Keys) (id : Id) : (ks.alloc id).fin = ks.fin := rfl
@[simp] theorem alloc_dlv (ks : Keys) (id : Id) : (ks.alloc id).dlv = ks.dlv := rfl
@[simp] theorem alloc_uaf (ks : Keys) (id : Id) : (ks.alloc id).uaf = ks.uaf := rfl
@[simp] theorem alloc_hadWaker (ks : Keys) (id : Id) : (ks.alloc id).hadWaker = ks.hadWaker := rfl
@[simp] theorem alloc_woken (ks : Keys) (id : Id) : (ks.alloc id).woken = ks.woken := rfl
@[simp] theorem alloc_wakeLog (ks : Keys) (id : Id) : (ks.alloc id).wakeLog = ks.wakeLog := rfl

@[simp] theorem produce_slot (ks : Keys) (id : Id) (r : Res) : (ks.produce id r).slot = ks.slot := rfl
@[simp] theorem produce_src (ks : Keys) (id : Id) (r : Res) (x : Id) :
    (ks.produce id r).src x = if x = id then ks.src id ++ [r] else ks.src x := by simp [Keys.produce, upd]
@[simp] theorem produce_fin (ks : Keys) (id : Id) (r : Res) : (ks.produce id r).fin = ks.fin := rfl
@[simp] theorem produce_dlv (ks : Keys) (id : Id) (r : Res) : (ks.produce id r).dlv = ks.dlv := rfl
@[simp] theorem produce_uaf (ks : Keys) (id : Id) (r : Res) : (ks.produce id r).uaf = ks.uaf := rfl
@[simp] theorem produce_hadWaker (ks : Keys) (id : Id) (r : Res) : (ks.produce id r).hadWaker = ks.hadWaker := rfl
@[simp] theorem produce_woken (ks : Keys) (id : Id) (r : Res) : (ks.produce id r).woken = ks.woken := rfl
@[simp] theorem produce_wakeLog (ks : Keys) (id : Id) (r : Res) : (ks.produce id r).wakeLog = ks.wakeLog := rfl

@[simp] theorem setWaker_src (ks : Keys) (id : Id) (w : WakerId) : (ks.setWaker id w).src = ks.src := rfl
@[simp] theorem setWaker_fin (ks : Keys) (id : Id) (w : WakerId) : (ks.setWaker id w).fin = ks.fin := rfl
@[simp] theorem setWaker_dlv (ks : Keys) (id : Id) (w : WakerId) : (ks.setWaker id w).dlv = ks.dlv := rfl
@[simp] theorem setWaker_uaf (ks : Keys) (id : Id) (w : WakerId) : (ks.setWaker id w).uaf = ks.uaf := rfl
@[simp] theorem setWaker_woken (ks : Keys) (id : Id) (w : WakerId) : (ks.setWaker id w).woken = ks.woken := rfl
@[simp] theorem setWaker_wakeLog (ks : Keys) (id : Id) (w : WakerId) : (ks.setWaker id w).wakeLog = ks.wakeLog := rfl
theorem setWaker_slot (ks : Keys) (id : Id) (w : WakerId) (x : Id) :
    (ks.setWaker id w).slot x = if x = id then (ks.slot id).setWaker w else ks.slot x := by
  simp [Keys.setWaker, upd]

/-- `set_result` on a pending slot: the result is stored, a registered waker is woken once, after the store -/
theorem notify_pending (ks : Keys) (id : Id) (r : Res) (w : Option WakerId) (h : ks.slot id = .pending w) :
    (ks.notify id r).slot = upd ks.slot id (.ready r) ∧
    (ks.notify id r).fin = upd ks.fin id (ks.fin id ++ [r]) ∧
    (ks.notify id r).src = ks.src ∧ (ks.notify id r).dlv = ks.dlv ∧ (ks.notify id r).uaf = ks.uaf ∧
    (ks.notify id r).multi = ks.multi ∧
    (match w with
     | none => (ks.notify id r).woken = ks.woken ∧ (ks.notify id r).wakeLog = ks.wakeLog
     | some wk => (ks.notify id r).woken = upd ks.woken id (ks.woken id + 1) ∧
                  (ks.notify id r).wakeLog = ks.wakeLog ++ [⟨id, wk, true, true⟩]) := by
  cases w with
  | none => simp [Keys.notify, Keys.storeResult, h, Slot.store]
  | some wk => simp [Keys.notify, Keys.storeResult, Keys.wake, h, Slot.store, Slot.isReady]

/-- a completion only touches its own operation: `user_data` is the key -/
theorem notify_frame (ks : Keys) (id : Id) (r : Res) (x : Id) (hx : x ≠ id) :
    (ks.notify id r).slot x = ks.slot x ∧ (ks.notify id r).fin x = ks.fin x ∧
    (ks.notify id r).src x = ks.src x ∧ (ks.notify id r).dlv x = ks.dlv x ∧
    (ks.notify id r).woken x = ks.woken x ∧ (ks.notify id r).multi x = ks.multi x := by
  cases hs : ks.slot id with
  | free => simp [Keys.notify, Keys.storeResult, hs, Slot.store, upd, hx]
  | ready r' => simp [Keys.notify, Keys.storeResult, hs, Slot.store, upd, hx]
  | pending w =>
    cases w with
    | none => simp [Keys.notify, Keys.storeResult, hs, Slot.store, upd, hx]
    | some wk => simp [Keys.notify, Keys.storeResult, Keys.wake, hs, Slot.store, upd, hx]

theorem notify_hadWaker (ks : Keys) (id : Id) (r : Res) : (ks.notify id r).hadWaker = ks.hadWaker := by
  unfold Keys.notify Keys.storeResult
  cases h : ((ks.slot id).store r).2 <;> simp [Keys.wake]

theorem notify_lastWaker (ks : Keys) (id : Id) (r : Res) : (ks.notify id r).lastWaker = ks.lastWaker := by
  unfold Keys.notify Keys.storeResult
  cases h : ((ks.slot id).store r).2 <;> simp [Keys.wake]

theorem setWaker_lastWaker (ks : Keys) (id : Id) (w : WakerId) (x : Id) :
    (ks.setWaker id w).lastWaker x =
      (match ks.slot id with
       | .pending _ => if x = id then some w else ks.lastWaker x
       | _ => ks.lastWaker x) := by
  unfold Keys.setWaker
  cases ks.slot id <;> simp [upd]

theorem setWaker_hadWaker (ks : Keys) (id : Id) (w : WakerId) (x : Id) :
    (ks.setWaker id w).hadWaker x =
      (match ks.slot id with
       | .pending _ => if x = id then true else ks.hadWaker x
       | _ => ks.hadWaker x) := by
  unfold Keys.setWaker
  cases ks.slot id <;> simp [upd]

theorem pop_ready (ks : Keys) (id : Id) (r : Res) (h : ks.slot id = .ready r) :
    ks.pop id = ({ ks with slot := upd ks.slot id .free, dlv := upd ks.dlv id (ks.dlv id ++ [r]) }, some r) := by
  simp [Keys.pop, h]

theorem pop_not_ready (ks : Keys) (id : Id) (h : ∀ r, ks.slot id ≠ .ready r) : ks.pop id = (ks, none) := by
  unfold Keys.pop
  cases hs : ks.slot id with
  | ready r => exact (h r hs).elim
  | free => rfl
  | pending w => rfl

/-! ### preservation of `KInv` by the primitives -/

section
variable {ks : Keys} {chan : List (Id × Res)} {queued : Id → Prop} {pool : List Id}

/-- changing who is queued without touching the histories -/
theorem KInv.requeue {queued' : Id → Prop} (h : KInv ks chan queued pool)
    (hq : ∀ id, queued' id → queued id ∨ (ks.src id = [] ∧ id ∉ pool ∧ ∃ w, ks.slot id = .pending w))
    (hfree : ∀ id, ks.slot id = .free → queued' id → queued id) :
    KInv ks chan queued' pool where
  srcLen := h.srcLen
  qFresh := by
    intro id hid
    rcases hq id hid with h1 | ⟨h1, h2, _⟩
    · exact h.qFresh id h1
    · exact ⟨h1, h2⟩
  poolFresh := h.poolFresh
  poolNodup := h.poolNodup
  link := h.link
  slotRel := by
    intro id
    have hr := h.slotRel id
    unfold SlotRel at hr ⊢
    cases hs : ks.slot id with
    | free =>
      rw [hs] at hr
      rcases hr with ⟨a, b, c, d, e⟩ | hr
      · exact Or.inl ⟨a, fun hq' => b (hfree id hs hq'), c, d, e⟩
      · exact Or.inr hr
    | pending w => rw [hs] at hr; exact hr
    | ready r => rw [hs] at hr; exact hr
  noUaf := h.noUaf
  wokenLe := h.wokenLe
  wakeReady := h.wakeReady
  wakerReg := h.wakerReg
  wokenEq := h.wokenEq
  freshNoWaker := h.freshNoWaker
  lastReg := h.lastReg
  wakersEq := h.wakersEq
  freshNoLast := h.freshNoLast

theorem KInv.alloc (h : KInv ks chan queued pool) {id : Id} (hfree : ks.slot id = .free) (hsrc : ks.src id = []) :
    KInv (ks.alloc id) chan queued pool where
  srcLen := by simpa using h.srcLen
  qFresh := by simpa using h.qFresh
  poolFresh := by simpa using h.poolFresh
  poolNodup := h.poolNodup
  link := by simpa using h.link
  slotRel := by
    intro x
    have hr := h.slotRel x
    unfold SlotRel at hr ⊢
    by_cases hx : x = id
    · subst hx
      have := h.fin_of_src_nil hsrc
      rw [hfree] at hr
      rcases hr with ⟨_, _, _, d, e⟩ | ⟨hne, _⟩
      · simp [d, e]
      · exact (hne this.1).elim
    · simpa [hx] using hr
  noUaf := by simpa using h.noUaf
  wokenLe := by simpa using h.wokenLe
  wakeReady := by simpa using h.wakeReady
  wakerReg := by
    intro x w hx
    by_cases hxi : x = id
    · subst hxi
      simp only [alloc_slot, if_true, Slot.pending.injEq] at hx
      subst hx
      simpa using (h.freshNoWaker x hfree hsrc).symm
    · simp only [alloc_slot, hxi, if_false] at hx
      exact h.wakerReg x w hx
  wokenEq := h.wokenEq
  freshNoWaker := by
    intro x hx hs
    by_cases hxi : x = id
    · subst hxi; simp at hx
    · simp only [alloc_slot, hxi, if_false] at hx
      exact h.freshNoWaker x hx (by simpa using hs)
  lastReg := by
    intro x w hx
    by_cases hxi : x = id
    · subst hxi
      simp only [alloc_slot, if_true, Slot.pending.injEq] at hx
      subst hx
      exact (h.freshNoLast x hfree hsrc).symm
    · simp only [alloc_slot, hxi, if_false] at hx
      exact h.lastReg x w hx
  wakersEq := h.wakersEq
  freshNoLast := by
    intro x hx hs
    by_cases hxi : x = id
    · subst hxi; simp at hx
    · simp only [alloc_slot, hxi, if_false] at hx
      exact h.freshNoLast x hx (by simpa using hs)

theorem KInv.poolAdd (h : KInv ks chan queued pool) {id : Id} (hsrc : ks.src id = [])
    (hnq : ¬ queued id) (hnp : id ∉ pool) (hpend : ∃ w, ks.slot id = .pending w) :
    KInv ks chan queued (id :: pool) where
  srcLen := h.srcLen
  qFresh := by
    intro x hx
    have := h.qFresh x hx
    refine ⟨this.1, ?_⟩
    intro hmem
    rcases List.mem_cons.1 hmem with rfl | hm
    · exact hnq hx
    · exact this.2 hm
  poolFresh := by
    intro x hx
    rcases List.mem_cons.1 hx with rfl | hm
    · exact hsrc
    · exact h.poolFresh x hm
  poolNodup := List.nodup_cons.2 ⟨hnp, h.poolNodup⟩
  link := h.link
  slotRel := by
    intro x
    have hr := h.slotRel x
    unfold SlotRel at hr ⊢
    cases hs : ks.slot x with
    | free =>
      rw [hs] at hr
      rcases hr with ⟨a, b, c, d, e⟩ | hr
      · refine Or.inl ⟨a, b, ?_, d, e⟩
        intro hmem
        rcases List.mem_cons.1 hmem with rfl | hm
        · obtain ⟨w, hw⟩ := hpend; rw [hw] at hs; cases hs
        · exact c hm
      · exact Or.inr hr
    | pending w => rw [hs] at hr; exact hr
    | ready r => rw [hs] at hr; exact hr
  noUaf := h.noUaf
  wokenLe := h.wokenLe
  wakeReady := h.wakeReady
  wakerReg := h.wakerReg
  wokenEq := h.wokenEq
  freshNoWaker := h.freshNoWaker
  lastReg := h.lastReg
  wakersEq := h.wakersEq
  freshNoLast := h.freshNoLast

/-- a result for `id` is produced and put into the channel (thread-pool job done, ECANCELED entry) -/
theorem KInv.produceChan (h : KInv ks chan queued pool) {id : Id} (r : Res) (hsrc : ks.src id = [])
    {queued' : Id → Prop} {pool' : List Id}
    (hq : ∀ x, queued' x → queued x ∧ x ≠ id) (hp : ∀ x, x ∈ pool' → x ∈ pool ∧ x ≠ id)
    (hpn : pool'.Nodup) (hpend : ∃ w, ks.slot id = .pending w) :
    KInv (ks.produce id r) (chan ++ [(id, r)]) queued' pool' where
  srcLen := by
    intro x
    by_cases hx : x = id
    · subst hx; simp [hsrc]
    · simpa [hx] using h.srcLen x
  qFresh := by
    intro x hx
    obtain ⟨h1, h2⟩ := hq x hx
    have := h.qFresh x h1
    simp [h2]
    exact ⟨this.1, fun hm => this.2 (hp x hm).1⟩
  poolFresh := by
    intro x hx
    obtain ⟨h1, h2⟩ := hp x hx
    simpa [h2] using h.poolFresh x h1
  poolNodup := hpn
  link := by
    intro x
    rw [chanRes_append, chanRes_single]
    by_cases hx : x = id
    · subst hx
      have := h.fin_of_src_nil hsrc
      simp [hsrc, this.1, this.2]
    · have : ¬ id = x := fun e => hx e.symm
      simpa [hx, this] using h.link x
  slotRel := by
    intro x
    have hr := h.slotRel x
    unfold SlotRel at hr ⊢
    by_cases hx : x = id
    · subst hx
      obtain ⟨w, hw⟩ := hpend
      simp only [produce_slot, produce_fin, produce_dlv]
      rw [hw] at hr ⊢
      exact hr
    · simp only [produce_slot, produce_fin, produce_dlv]
      cases hs : ks.slot x with
      | free =>
        rw [hs] at hr
        rcases hr with ⟨a, b, c, d, e⟩ | hr
        · refine Or.inl ⟨by simpa [hx] using a, fun hq' => b (hq x hq').1, fun hm => c (hp x hm).1, d, e⟩
        · exact Or.inr hr
      | pending w => rw [hs] at hr; exact hr
      | ready r => rw [hs] at hr; exact hr
  noUaf := by simpa using h.noUaf
  wokenLe := by simpa using h.wokenLe
  wakeReady := by simpa using h.wakeReady
  wakerReg := h.wakerReg
  wokenEq := h.wokenEq
  freshNoWaker := by
    intro x hx hs
    by_cases hxi : x = id
    · subst hxi; simp at hs
    · exact h.freshNoWaker x (by simpa using hx) (by simpa [hxi] using hs)
  lastReg := h.lastReg
  wakersEq := h.wakersEq
  freshNoLast := by
    intro x hx hs
    by_cases hxi : x = id
    · subst hxi; simp at hs
    · exact h.freshNoLast x (by simpa using hx) (by simpa [hxi] using hs)

end

/-- `set_result` for an operation whose result has been produced but not yet notified:
    generic step used by the direct completion and by the channel drain -/
theorem KInv.notifyStep {ks : Keys} {chan chan' : List (Id × Res)} {queued queued' : Id → Prop} {pool : List Id}
    (h : KInv ks chan queued pool) {id : Id} {r : Res}
    (hsrc : ks.src id = [r]) (hfin : ks.fin id = [])
    (hchan : ∀ x, chanRes chan x = (if x = id then [r] else []) ++ chanRes chan' x)
    (hq : ∀ x, queued' x → queued x) (hnq : ¬ queued' id) :
    KInv (ks.notify id r) chan' queued' pool := by
  have hpend : ∃ w, ks.slot id = .pending w := by
    have hr := h.slotRel id
    unfold SlotRel at hr
    cases hsl : ks.slot id with
    | free =>
      rw [hsl] at hr
      rcases hr with ⟨hs, _⟩ | ⟨hne, _⟩
      · rw [hs] at hsrc; cases hsrc
      · exact (hne hfin).elim
    | pending w => exact ⟨w, rfl⟩
    | ready r' => rw [hsl] at hr; rw [hfin] at hr; simp at hr
  obtain ⟨w, hw⟩ := hpend
  obtain ⟨e1, e2, e3, e4, e5, _, e7⟩ := notify_pending ks id r w hw
  have hnp : id ∉ pool := fun hm => by have := h.poolFresh id hm; rw [this] at hsrc; cases hsrc
  have ehw := notify_hadWaker ks id r
  have hwk0 : ks.woken id = 0 := by
    have := h.wokenLe id; rw [hfin] at this; simpa using this
  have elw := notify_lastWaker ks id r
  refine ⟨?_, ?_, ?_, h.poolNodup, ?_, ?_, ?_, ?_, ?_, ?_, ?_, ?_, ?_, ?_, ?_⟩
  · intro x; rw [e3]; exact h.srcLen x
  · intro x hx; rw [e3]; exact h.qFresh x (hq x hx)
  · intro x hx; rw [e3]; exact h.poolFresh x hx
  · intro x
    rw [e2, e3]
    have hl := h.link x
    rw [hchan x] at hl
    by_cases hx : x = id
    · subst hx
      simp only [upd_same, hfin, List.nil_append]
      simpa [hfin] using hl
    · simpa [upd, hx] using hl
  · intro x
    have hr := h.slotRel x
    unfold SlotRel at hr ⊢
    rw [e1, e2, e4, e3]
    by_cases hx : x = id
    · subst hx
      rw [hw] at hr
      simp [hfin, hr.2]
    · simp only [upd, hx, if_false]
      cases hs : ks.slot x with
      | free =>
        rw [hs] at hr
        rcases hr with ⟨a, b, c, d, e⟩ | hr
        · exact Or.inl ⟨a, fun hq' => b (hq x hq'), c, d, e⟩
        · exact Or.inr hr
      | pending w' => rw [hs] at hr; exact hr
      | ready r' => rw [hs] at hr; exact hr
  · rw [e5]; exact h.noUaf
  · intro x
    rw [e2]
    cases w with
    | none =>
      simp only at e7
      rw [e7.1]
      by_cases hx : x = id
      · subst hx; simp only [upd_same]; have := h.wokenLe x; rw [hfin] at this ⊢; simp at this ⊢; omega
      · simp only [upd, hx, if_false]; exact h.wokenLe x
    | some wk =>
      simp only at e7
      rw [e7.1]
      by_cases hx : x = id
      · subst hx; simp only [upd_same]; have := h.wokenLe x; rw [hfin] at this ⊢; simp at this ⊢; omega
      · simp only [upd, hx, if_false]; exact h.wokenLe x
  · intro rec hrec hfinal
    cases w with
    | none => simp only at e7; rw [e7.2] at hrec; exact h.wakeReady rec hrec hfinal
    | some wk =>
      simp only at e7
      rw [e7.2] at hrec
      rcases List.mem_append.1 hrec with hm | hm
      · exact h.wakeReady rec hm hfinal
      · simp at hm; subst hm; rfl
  · -- wakerReg
    intro x w' hx
    rw [ehw]
    rw [e1] at hx
    by_cases hxi : x = id
    · subst hxi; simp at hx
    · simp only [upd, hxi, if_false] at hx; exact h.wakerReg x w' hx
  · -- wokenEq
    intro x hx
    rw [ehw]
    by_cases hxi : x = id
    · subst hxi
      have hreg := h.wakerReg x w hw
      cases w with
      | none =>
        simp only at e7
        rw [e7.1, hwk0]
        simp only [Option.isSome_none] at hreg
        simp [← hreg]
      | some wk =>
        simp only at e7
        rw [e7.1]
        simp only [Option.isSome_some] at hreg
        simp [← hreg, hwk0]
    · have hx' : ks.fin x ≠ [] := by rw [e2] at hx; simpa [upd, hxi] using hx
      have := h.wokenEq x hx'
      cases w with
      | none => simp only at e7; rw [e7.1]; exact this
      | some wk => simp only at e7; rw [e7.1]; simpa [upd, hxi] using this
  · -- freshNoWaker
    intro x hx hs
    rw [ehw]
    rw [e1] at hx
    rw [e3] at hs
    by_cases hxi : x = id
    · subst hxi; simp at hx
    · simp only [upd, hxi, if_false] at hx; exact h.freshNoWaker x hx hs
  · -- lastReg
    intro x w' hx
    rw [elw]
    rw [e1] at hx
    by_cases hxi : x = id
    · subst hxi; simp at hx
    · simp only [upd, hxi, if_false] at hx; exact h.lastReg x w' hx
  · -- wakersEq
    intro x
    rw [elw, e2]
    have hreg := h.lastReg id w hw
    have hold := h.wakersEq x
    by_cases hxi : x = id
    · subst hxi
      rw [hfin] at hold
      simp only [List.isEmpty_nil, if_true] at hold
      simp only [upd_same]
      cases w with
      | none =>
        simp only at e7
        rw [finalWakers_of_log _ _ e7.2, hold, ← hreg]; simp
      | some wk =>
        simp only at e7
        rw [finalWakers_append _ _ _ e7.2, hold, ← hreg]; simp
    · simp only [upd, hxi, if_false]
      cases w with
      | none => simp only at e7; rw [finalWakers_of_log _ _ e7.2]; exact hold
      | some wk =>
        simp only at e7
        rw [finalWakers_append _ _ _ e7.2]
        have : ¬ (id = x ∧ True) := by intro hc; exact hxi hc.1.symm
        simpa [this] using hold
  · -- freshNoLast
    intro x hx hs
    rw [elw]
    rw [e1] at hx
    rw [e3] at hs
    by_cases hxi : x = id
    · subst hxi; simp at hx
    · simp only [upd, hxi, if_false] at hx; exact h.freshNoLast x hx hs

/-- ghost-only step: the OS produces the result of `id` (no channel involved yet) -/
theorem KInv.produced_src {ks : Keys} (id : Id) (r : Res) (hsrc : ks.src id = []) :
    (ks.produce id r).src id = [r] := by simp [hsrc]

/-- direct completion: the operation leaves the queue, its result is produced and notified at once
    (`Entry::new(key, res).notify()` in `poll_one`) -/
theorem KInv.complete {ks : Keys} {chan : List (Id × Res)} {queued queued' : Id → Prop} {pool : List Id}
    (h : KInv ks chan queued pool) {id : Id} (r : Res)
    (hsrc : ks.src id = []) (hpend : ∃ w, ks.slot id = .pending w) (hnp : id ∉ pool)
    (hq : ∀ x, queued' x → queued x) (hnq : ¬ queued' id) :
    KInv ((ks.produce id r).notify id r) chan queued' pool := by
  have hf := h.fin_of_src_nil hsrc
  -- intermediate invariant: result produced, sitting in a one-element virtual channel in front
  have hmid : KInv (ks.produce id r) ((id, r) :: chan) queued' pool := by
    refine ⟨?_, ?_, ?_, h.poolNodup, ?_, ?_, ?_, ?_, ?_, h.wakerReg, h.wokenEq, ?_, h.lastReg, h.wakersEq, ?_⟩
    · intro x
      by_cases hx : x = id
      · subst hx; simp [hsrc]
      · simpa [hx] using h.srcLen x
    · intro x hx
      have h1 := h.qFresh x (hq x hx)
      have hne : x ≠ id := fun e => hnq (e ▸ hx)
      simpa [hne] using h1
    · intro x hx
      have hne : x ≠ id := fun e => hnp (e ▸ hx)
      simpa [hne] using h.poolFresh x hx
    · intro x
      rw [chanRes_cons]
      by_cases hx : x = id
      · subst hx; simp [hsrc, hf.1, hf.2]
      · have : ¬ id = x := fun e => hx e.symm
        simpa [hx, this] using h.link x
    · intro x
      have hr := h.slotRel x
      unfold SlotRel at hr ⊢
      simp only [produce_slot, produce_fin, produce_dlv]
      by_cases hx : x = id
      · subst hx
        obtain ⟨w, hw⟩ := hpend
        rw [hw] at hr ⊢; exact hr
      · cases hs : ks.slot x with
        | free =>
          rw [hs] at hr
          rcases hr with ⟨a, b, c, d, e⟩ | hr
          · exact Or.inl ⟨by simpa [hx] using a, fun hq' => b (hq x hq'), c, d, e⟩
          · exact Or.inr hr
        | pending w => rw [hs] at hr; exact hr
        | ready r' => rw [hs] at hr; exact hr
    · simpa using h.noUaf
    · simpa using h.wokenLe
    · simpa using h.wakeReady
    · intro x hx hs
      by_cases hxi : x = id
      · subst hxi; simp at hs
      · exact h.freshNoWaker x (by simpa using hx) (by simpa [hxi] using hs)
    · intro x hx hs
      by_cases hxi : x = id
      · subst hxi; simp at hs
      · exact h.freshNoLast x (by simpa using hx) (by simpa [hxi] using hs)
  refine KInv.notifyStep hmid (by simp [hsrc]) (by simpa using hf.1) ?_ (fun x hx => hx) hnq
  intro x
  rw [chanRes_cons]
  by_cases hx : x = id
  · subst hx; simp
  · have : ¬ id = x := fun e => hx e.symm
    simp [hx, this]

/-- draining one entry of the `completed` channel -/
theorem KInv.notifyHead {ks : Keys} {chan : List (Id × Res)} {queued : Id → Prop} {pool : List Id}
    {id : Id} {r : Res} (h : KInv ks ((id, r) :: chan) queued pool) :
    KInv (ks.notify id r) chan queued pool := by
  have h1 := h.link id
  have h2 := h.srcLen id
  rw [chanRes_cons] at h1
  simp at h1
  have hfin : ks.fin id = [] := by
    cases hf : ks.fin id with
    | nil => rfl
    | cons a l => rw [hf] at h1; rw [← h1] at h2; simp at h2
  have hrest : chanRes chan id = [] := by
    cases hc : chanRes chan id with
    | nil => rfl
    | cons a l => rw [hfin, hc] at h1; rw [← h1] at h2; simp at h2
  have hsrc : ks.src id = [r] := by rw [← h1, hfin, hrest]; rfl
  have hnq : ¬ queued id := fun hq => by have := (h.qFresh id hq).1; rw [this] at hsrc; cases hsrc
  refine KInv.notifyStep h hsrc hfin ?_ (fun x hx => hx) hnq
  intro x
  rw [chanRes_cons]
  by_cases hx : x = id
  · subst hx; simp
  · have : ¬ id = x := fun e => hx e.symm
    simp [hx, this]

theorem KInv.pop {ks : Keys} {chan : List (Id × Res)} {queued : Id → Prop} {pool : List Id}
    (h : KInv ks chan queued pool) (id : Id) : KInv (ks.pop id).1 chan queued pool := by
  cases hs : ks.slot id with
  | free => rw [pop_not_ready ks id (by intro r; rw [hs]; simp)]; exact h
  | pending w => rw [pop_not_ready ks id (by intro r; rw [hs]; simp)]; exact h
  | ready r =>
    rw [pop_ready ks id r hs]
    have hr := h.slotRel id
    unfold SlotRel at hr
    rw [hs] at hr
    have hsrcne : ks.src id ≠ [] := by
      have hl := h.link id
      rw [hr.1] at hl
      intro e; rw [e] at hl; simp at hl
    refine ⟨h.srcLen, h.qFresh, h.poolFresh, h.poolNodup, h.link, ?_, h.noUaf, h.wokenLe, h.wakeReady, ?_,
      h.wokenEq, ?_, ?_, h.wakersEq, ?_⟩
    · intro x
      have hrx := h.slotRel x
      unfold SlotRel at hrx ⊢
      by_cases hx : x = id
      · subst hx
        simp [hr.1, hr.2]
      · simpa [upd, hx] using hrx
    · intro x w hx
      by_cases hxi : x = id
      · subst hxi; simp [upd] at hx
      · simp only [upd, hxi, if_false] at hx; exact h.wakerReg x w hx
    · intro x hx hsx
      by_cases hxi : x = id
      · subst hxi; exact (hsrcne hsx).elim
      · simp only [upd, hxi, if_false] at hx; exact h.freshNoWaker x hx hsx
    · intro x w hx
      by_cases hxi : x = id
      · subst hxi; simp [upd] at hx
      · simp only [upd, hxi, if_false] at hx; exact h.lastReg x w hx
    · intro x hx hsx
      by_cases hxi : x = id
      · subst hxi; exact (hsrcne hsx).elim
      · simp only [upd, hxi, if_false] at hx; exact h.freshNoLast x hx hsx

theorem KInv.setWaker {ks : Keys} {chan : List (Id × Res)} {queued : Id → Prop} {pool : List Id}
    (h : KInv ks chan queued pool) (id : Id) (w : WakerId) : KInv (ks.setWaker id w) chan queued pool := by
  refine ⟨h.srcLen, h.qFresh, h.poolFresh, h.poolNodup, h.link, ?_, h.noUaf, h.wokenLe, h.wakeReady, ?_, ?_, ?_,
    ?_, ?_, ?_⟩
  · intro x
    have hrx := h.slotRel x
    unfold SlotRel at hrx ⊢
    simp only [setWaker_slot, setWaker_fin, setWaker_dlv, setWaker_src]
    by_cases hx : x = id
    · subst hx
      simp only [if_true]
      cases hs : ks.slot x with
      | free => rw [hs] at hrx; simpa [Slot.setWaker] using hrx
      | pending w' => rw [hs] at hrx; simpa [Slot.setWaker] using hrx
      | ready r => rw [hs] at hrx; simpa [Slot.setWaker] using hrx
    · simpa [hx] using hrx
  · intro x w' hx
    rw [setWaker_slot] at hx
    rw [setWaker_hadWaker]
    by_cases hxi : x = id
    · subst hxi
      simp only [if_true] at hx
      cases hs : ks.slot x with
      | free => rw [hs] at hx; simp [Slot.setWaker] at hx
      | ready r => rw [hs] at hx; simp [Slot.setWaker] at hx
      | pending w0 =>
        rw [hs] at hx
        simp only [Slot.setWaker, Slot.pending.injEq] at hx
        subst hx
        simp
    · simp only [hxi, if_false] at hx
      have := h.wakerReg x w' hx
      cases ks.slot id <;> simp [hxi, this]
  · intro x hx
    simp only [setWaker_fin] at hx
    rw [setWaker_hadWaker]
    have hwe := h.wokenEq x hx
    simp only [setWaker_woken]
    cases hs : ks.slot id with
    | free => simpa using hwe
    | ready r => simpa using hwe
    | pending w0 =>
      simp only
      by_cases hxi : x = id
      · subst hxi
        have hr := h.slotRel x
        unfold SlotRel at hr
        rw [hs] at hr
        exact (hx hr.1).elim
      · simpa [hxi] using hwe
  · intro x hx hsx
    rw [setWaker_slot] at hx
    rw [setWaker_hadWaker]
    simp only [setWaker_src] at hsx
    by_cases hxi : x = id
    · subst hxi
      simp only [if_true] at hx
      cases hs : ks.slot x with
      | free => simpa using h.freshNoWaker x hs hsx
      | ready r => rw [hs] at hx; simp [Slot.setWaker] at hx
      | pending w0 => rw [hs] at hx; simp [Slot.setWaker] at hx
    · simp only [hxi, if_false] at hx
      have := h.freshNoWaker x hx hsx
      cases ks.slot id <;> simp [hxi, this]
  · intro x w' hx
    rw [setWaker_slot] at hx
    rw [setWaker_lastWaker]
    by_cases hxi : x = id
    · subst hxi
      simp only [if_true] at hx
      cases hs : ks.slot x with
      | free => rw [hs] at hx; simp [Slot.setWaker] at hx
      | ready r => rw [hs] at hx; simp [Slot.setWaker] at hx
      | pending w0 =>
        rw [hs] at hx
        simp only [Slot.setWaker, Slot.pending.injEq] at hx
        subst hx
        simp
    · simp only [hxi, if_false] at hx
      have := h.lastReg x w' hx
      cases ks.slot id <;> simp [hxi, this]
  · intro x
    have hold := h.wakersEq x
    rw [finalWakers_of_log ks (ks.setWaker id w) rfl, setWaker_lastWaker]
    simp only [setWaker_fin]
    cases hs : ks.slot id with
    | free => exact hold
    | ready r => exact hold
    | pending w0 =>
      simp only
      by_cases hxi : x = id
      · subst hxi
        have hr := h.slotRel x
        unfold SlotRel at hr
        rw [hs] at hr
        have hfe : ks.fin x = [] := hr.1
        simp only [hfe, List.isEmpty_nil, if_true] at hold ⊢
        exact hold
      · simpa [hxi] using hold
  · intro x hx hsx
    rw [setWaker_slot] at hx
    rw [setWaker_lastWaker]
    simp only [setWaker_src] at hsx
    by_cases hxi : x = id
    · subst hxi
      simp only [if_true] at hx
      cases hs : ks.slot x with
      | free => simpa using h.freshNoLast x hs hsx
      | ready r => rw [hs] at hx; simp [Slot.setWaker] at hx
      | pending w0 => rw [hs] at hx; simp [Slot.setWaker] at hx
    · simp only [hxi, if_false] at hx
      have := h.freshNoLast x hx hsx
      cases ks.slot id <;> simp [hxi, this]

/-- `PushEntry::Ready` at push time: the freshly allocated key gets its result and is consumed at once -/
theorem KInv.immediate {ks : Keys} {chan : List (Id × Res)} {queued : Id → Prop} {pool : List Id}
    (h : KInv ks chan queued pool) {id : Id} (r : Res)
    (hsrc : ks.src id = []) (hpend : ∃ w, ks.slot id = .pending w) (hnp : id ∉ pool) (hnq : ¬ queued id) :
    KInv (ks.immediate id r) chan queued pool := by
  unfold Keys.immediate
  exact KInv.pop (KInv.complete h r hsrc hpend hnp (fun x hx => hx) hnq) id

theorem immediate_slot (ks : Keys) (id : Id) (r : Res) (w : Option WakerId) (h : ks.slot id = .pending w) (x : Id) :
    (ks.immediate id r).slot x = if x = id then .free else ks.slot x := by
  unfold Keys.immediate
  have hp : (ks.produce id r).slot id = .pending w := by simpa using h
  obtain ⟨e1, _⟩ := notify_pending (ks.produce id r) id r w hp
  have hr : ((ks.produce id r).notify id r).slot id = .ready r := by rw [e1]; simp
  rw [pop_ready _ _ _ hr]
  simp only [e1, produce_slot]
  by_cases hx : x = id <;> simp [upd, hx]


/-! ### io_uring: the overflow loop of `push_raw` -/

theorem notify_fin (ks : Keys) (id : Id) (r : Res) : (ks.notify id r).fin = upd ks.fin id (ks.fin id ++ [r]) := by
  unfold Keys.notify Keys.storeResult
  cases h : ((ks.slot id).store r).2 <;> simp [Keys.wake]

theorem notify_fin_mono (ks : Keys) (id : Id) (r : Res) (x : Id) (v : Res) (h : v ∈ ks.fin x) :
    v ∈ (ks.notify id r).fin x := by
  rw [notify_fin]
  by_cases hx : x = id
  · subst hx; simp [h]
  · simp [upd, hx, h]

theorem notify_fin_self (ks : Keys) (id : Id) (r : Res) : r ∈ (ks.notify id r).fin id := by
  rw [notify_fin]; simp

theorem pushMulti_fin (ks : Keys) (id : Id) (r : Res) : (ks.pushMulti id r).fin = ks.fin := by
  unfold Keys.pushMulti
  split <;> simp [Keys.wake]

theorem handleCqe_sq (r : Ring) (c : Cqe) : (r.handleCqe c).sq = r.sq ∧ (r.handleCqe c).sqCap = r.sqCap := by
  unfold Ring.handleCqe
  cases c.ud with
  | cancel => simp
  | notify => by_cases h : c.more <;> simp [h]
  | key id => by_cases h : c.more <;> simp [h]

theorem handleCqe_fin_mono (r : Ring) (c : Cqe) (x : Id) (v : Res) (h : v ∈ r.keys.fin x) :
    v ∈ (r.handleCqe c).keys.fin x := by
  unfold Ring.handleCqe
  cases hc : c.ud with
  | cancel => simpa using h
  | notify => by_cases hm : c.more <;> simpa [hm] using h
  | key id =>
    by_cases hm : c.more
    · simp only [hm, if_true]; rw [pushMulti_fin]; exact h
    · simp only [hm, Bool.false_eq_true, if_false]; exact notify_fin_mono _ _ _ _ _ h

theorem foldl_handleCqe_sq : ∀ (cq : List Cqe) (acc : Ring),
    (cq.foldl Ring.handleCqe acc).sq = acc.sq ∧ (cq.foldl Ring.handleCqe acc).sqCap = acc.sqCap := by
  intro cq
  induction cq with
  | nil => intro acc; exact ⟨rfl, rfl⟩
  | cons c rest ih =>
    intro acc
    simp only [List.foldl_cons]
    have h1 := ih (acc.handleCqe c)
    have h2 := handleCqe_sq acc c
    exact ⟨h1.1.trans h2.1, h1.2.trans h2.2⟩

theorem foldl_handleCqe_fin_mono : ∀ (cq : List Cqe) (acc : Ring) (x : Id) (v : Res),
    v ∈ acc.keys.fin x → v ∈ (cq.foldl Ring.handleCqe acc).keys.fin x := by
  intro cq
  induction cq with
  | nil => intro acc x v h; exact h
  | cons c rest ih =>
    intro acc x v h
    simp only [List.foldl_cons]
    exact ih _ x v (handleCqe_fin_mono acc c x v h)

/-- every final CQE of a key that `poll_entries` drains has been passed to that key's `set_result` -/
theorem foldl_handleCqe_notifies : ∀ (cq : List Cqe) (acc : Ring) (c : Cqe) (id : Id),
    c ∈ cq → c.ud = .key id → c.more = false → c.res ∈ (cq.foldl Ring.handleCqe acc).keys.fin id := by
  intro cq
  induction cq with
  | nil => intro acc c id h; cases h
  | cons c0 rest ih =>
    intro acc c id hm hud hmore
    simp only [List.foldl_cons]
    rcases List.mem_cons.1 hm with rfl | hm
    · apply foldl_handleCqe_fin_mono
      unfold Ring.handleCqe
      simp only [hud, hmore, Bool.false_eq_true, if_false]
      exact notify_fin_self _ _ _
    · exact ih _ c id hm hud hmore

theorem pollEntries_sq (r : Ring) : r.pollEntries.sq = r.sq ∧ r.pollEntries.sqCap = r.sqCap := by
  unfold Ring.pollEntries
  exact foldl_handleCqe_sq r.cq { r with cq := [] }

theorem enter_sq (r : Ring) (e : Enter) : (r.enter e).sq = r.sq.drop e.taken ∧ (r.enter e).sqCap = r.sqCap := by
  simp [Ring.enter]

theorem enter_fin (r : Ring) (e : Enter) : (r.enter e).keys.fin = r.keys.fin := by
  unfold Ring.enter
  simp only
  have : ∀ (l : List Cqe) (ks : Keys),
      (l.foldl (fun ks c => match c.ud with
          | .key id => if c.more then ks else ks.produce id c.res
          | _ => ks) ks).fin = ks.fin := by
    intro l
    induction l with
    | nil => intro ks; rfl
    | cons c rest ih =>
      intro ks
      simp only [List.foldl_cons]
      rw [ih]
      cases c.ud with
      | key id => by_cases hm : c.more <;> simp [hm]
      | cancel => rfl
      | notify => rfl
  exact this _ _

/-- one round of the overflow loop -/
def overflowRound (r : Ring) (en : Enter) : Ring :=
  { (r.enter en).pollEntries with drained := (r.enter en).drained ++ (r.enter en).cq }

theorem pushRawAux_cons (e : Sqe) (en : Enter) (rest : List Enter) (r : Ring) :
    pushRawAux e (en :: rest) r =
      if r.sq.length < r.sqCap then ({ r with sq := r.sq ++ [e] }, .ok)
      else pushRawAux e rest (overflowRound r en) := rfl

theorem overflowRound_sq (r : Ring) (en : Enter) :
    (overflowRound r en).sq = r.sq.drop en.taken ∧ (overflowRound r en).sqCap = r.sqCap := by
  unfold overflowRound
  have h1 := pollEntries_sq (r.enter en)
  have h2 := enter_sq r en
  exact ⟨h1.1.trans h2.1, h1.2.trans h2.2⟩

/-- (e) `push_raw` terminates: as soon as one `io_uring_enter` of the loop takes at least one staged SQE
    the new entry is queued.  (The Rust loop has no bound of its own: if the kernel kept refusing —
    EBUSY/EAGAIN are mapped to `Interrupted` and retried — it would spin; that is the stated assumption.) -/
theorem pushRaw_terminates (e : Sqe) : ∀ (script : List Enter) (r : Ring),
    r.sq.length ≤ r.sqCap → 0 < r.sqCap → (∃ en ∈ script, 1 ≤ en.taken) →
    (pushRawAux e script r).2 = .ok := by
  intro script
  induction script with
  | nil => intro r _ _ h; obtain ⟨en, hm, _⟩ := h; cases hm
  | cons en rest ih =>
    intro r hlen hcap hex
    rw [pushRawAux_cons]
    by_cases hlt : r.sq.length < r.sqCap
    · simp [hlt]
    · simp only [hlt, if_false]
      obtain ⟨hs, hc⟩ := overflowRound_sq r en
      have hlen' : (overflowRound r en).sq.length ≤ (overflowRound r en).sqCap := by
        rw [hs, hc, List.length_drop]; omega
      by_cases ht : 1 ≤ en.taken
      · -- this round made room
        have hroom : (overflowRound r en).sq.length < (overflowRound r en).sqCap := by
          rw [hs, hc, List.length_drop]; omega
        cases rest with
        | nil => simp [pushRawAux, hroom]
        | cons en2 rest2 => rw [pushRawAux_cons]; simp [hroom]
      · obtain ⟨en', hm, ht'⟩ := hex
        rcases List.mem_cons.1 hm with rfl | hm
        · exact (ht ht').elim
        · exact ih _ hlen' (by rw [hc]; exact hcap) ⟨en', hm, ht'⟩

/-- (e) the new SQE is not lost, and the entries staged before it are only ever consumed from the front
    (by the kernel): the staged queue afterwards is a suffix of the old one followed by the new entry -/
theorem pushRaw_keeps_sqe (e : Sqe) : ∀ (script : List Enter) (r r' : Ring),
    pushRawAux e script r = (r', .ok) → ∃ k, r'.sq = r.sq.drop k ++ [e] := by
  intro script
  induction script with
  | nil =>
    intro r r' h
    unfold pushRawAux at h
    by_cases hlt : r.sq.length < r.sqCap
    · simp only [hlt, if_true, Prod.mk.injEq, and_true] at h; subst h; exact ⟨0, by simp⟩
    · simp [hlt] at h
  | cons en rest ih =>
    intro r r' h
    rw [pushRawAux_cons] at h
    by_cases hlt : r.sq.length < r.sqCap
    · simp only [hlt, if_true, Prod.mk.injEq, and_true] at h; subst h; exact ⟨0, by simp⟩
    · simp only [hlt, if_false] at h
      obtain ⟨k, hk⟩ := ih _ _ h
      rw [(overflowRound_sq r en).1, List.drop_drop] at hk
      exact ⟨_, hk⟩

theorem overflowRound_fin_mono (r : Ring) (en : Enter) (x : Id) (v : Res) (h : v ∈ r.keys.fin x) :
    v ∈ (overflowRound r en).keys.fin x := by
  unfold overflowRound Ring.pollEntries
  simp only
  apply foldl_handleCqe_fin_mono
  simp only
  rw [enter_fin]; exact h

theorem pushRawAux_fin_mono (e : Sqe) : ∀ (script : List Enter) (r : Ring) (x : Id) (v : Res),
    v ∈ r.keys.fin x → v ∈ (pushRawAux e script r).1.keys.fin x := by
  intro script
  induction script with
  | nil =>
    intro r x v h
    unfold pushRawAux
    by_cases hlt : r.sq.length < r.sqCap <;> simp [hlt, h]
  | cons en rest ih =>
    intro r x v h
    rw [pushRawAux_cons]
    by_cases hlt : r.sq.length < r.sqCap
    · simp [hlt, h]
    · simp only [hlt, if_false]
      exact ih _ x v (overflowRound_fin_mono r en x v h)

/-- (e) no completion drained inside the loop is lost: every final CQE the loop took off the completion
    queue has been handed to `set_result` of the operation named by its `user_data` -/
theorem pushRaw_drained_notified (e : Sqe) : ∀ (script : List Enter) (r : Ring),
    ∃ D, (pushRawAux e script r).1.drained = r.drained ++ D ∧
      ∀ c ∈ D, ∀ id, c.ud = .key id → c.more = false → c.res ∈ (pushRawAux e script r).1.keys.fin id := by
  intro script
  induction script with
  | nil =>
    intro r
    refine ⟨[], ?_, by intro c hc; cases hc⟩
    unfold pushRawAux
    by_cases hlt : r.sq.length < r.sqCap <;> simp [hlt]
  | cons en rest ih =>
    intro r
    rw [pushRawAux_cons]
    by_cases hlt : r.sq.length < r.sqCap
    · exact ⟨[], by simp [hlt], by intro c hc; cases hc⟩
    · simp only [hlt, if_false]
      obtain ⟨D, hD, hDn⟩ := ih (overflowRound r en)
      have hdr : (overflowRound r en).drained = r.drained ++ (r.enter en).cq := by
        simp [overflowRound, Ring.enter]
      refine ⟨(r.enter en).cq ++ D, by rw [hD, hdr, List.append_assoc], ?_⟩
      intro c hc id hud hmore
      rcases List.mem_append.1 hc with hc | hc
      · apply pushRawAux_fin_mono
        unfold overflowRound Ring.pollEntries
        simp only
        exact foldl_handleCqe_notifies _ _ c id hc hud hmore
      · exact hDn c hc id hud hmore



/-! ### draining a list of finished results -/

theorem notify_slot_pending (ks : Keys) (id : Id) (r : Res) (x : Id) (w : Option WakerId)
    (h : (ks.notify id r).slot x = .pending w) : ks.slot x = .pending w := by
  by_cases hx : x = id
  · subst hx
    cases hs : ks.slot x with
    | free => simp [Keys.notify, Keys.storeResult, hs, Slot.store] at h
    | ready r' => simp [Keys.notify, Keys.storeResult, hs, Slot.store] at h
    | pending w' =>
      have := (notify_pending ks x r w' hs).1
      rw [this] at h; simp at h
  · rw [(notify_frame ks id r x hx).1] at h; exact h

theorem notify_slot_free (ks : Keys) (id : Id) (r : Res) (x : Id)
    (h : (ks.notify id r).slot x = .free) : ks.slot x = .free := by
  by_cases hx : x = id
  · subst hx
    cases hs : ks.slot x with
    | free => rfl
    | ready r' => simp [Keys.notify, Keys.storeResult, hs, Slot.store] at h
    | pending w' =>
      have := (notify_pending ks x r w' hs).1
      rw [this] at h; simp at h
  · rw [(notify_frame ks id r x hx).1] at h; exact h

theorem notify_src (ks : Keys) (id : Id) (r : Res) : (ks.notify id r).src = ks.src := by
  unfold Keys.notify Keys.storeResult
  cases h : ((ks.slot id).store r).2 <;> simp [Keys.wake]

/-- draining a whole channel -/
def notifyAll (ks : Keys) (chan : List (Id × Res)) : Keys := chan.foldl (fun ks e => ks.notify e.1 e.2) ks

/-- the first `a` of the waiting results are notified, the rest keeps waiting -/
theorem kinv_notifyAll_prefix {queued : Id → Prop} {pool : List Id} {b : List (Id × Res)} :
    ∀ (a : List (Id × Res)) (ks : Keys), KInv ks (a ++ b) queued pool → KInv (notifyAll ks a) b queued pool := by
  intro a
  induction a with
  | nil => intro ks h; exact h
  | cons e rest ih =>
    intro ks h
    obtain ⟨id, r⟩ := e
    exact ih _ (KInv.notifyHead (by simpa using h))

theorem kinv_notifyAll {queued : Id → Prop} {pool : List Id} (chan : List (Id × Res)) (ks : Keys)
    (h : KInv ks (chan ++ []) queued pool) : KInv (notifyAll ks chan) [] queued pool :=
  kinv_notifyAll_prefix chan ks h

theorem notifyAll_slot_pending : ∀ (chan : List (Id × Res)) (ks : Keys) (x : Id) (w : Option WakerId),
    (notifyAll ks chan).slot x = .pending w → ks.slot x = .pending w := by
  intro chan
  induction chan with
  | nil => intro ks x w h; exact h
  | cons e rest ih =>
    intro ks x w h
    exact notify_slot_pending ks e.1 e.2 x w (ih _ x w h)

theorem notifyAll_src : ∀ (chan : List (Id × Res)) (ks : Keys), (notifyAll ks chan).src = ks.src := by
  intro chan
  induction chan with
  | nil => intro ks; rfl
  | cons e rest ih => intro ks; unfold notifyAll; simp only [List.foldl_cons]; exact (ih _).trans (notify_src _ _ _)

/-! ### io_uring: the whole-run invariant under the kernel contract -/

/-- operations staged in the submission queue -/
def opsOf (sq : List Sqe) : List Id := sq.filterMap fun | .op id => some id | _ => none

/-- final completions of keys waiting in the completion queue -/
def cqFinals (cq : List Cqe) : List (Id × Res) :=
  cq.filterMap fun c => match c.ud with
    | .key id => if c.more then none else some (id, c.res)
    | _ => none

/-- the driver / the kernel still owes `id` a final completion -/
def Ring.owed (r : Ring) (id : Id) : Prop := id ∈ r.kern ∨ id ∈ opsOf r.sq

structure RInv (r : Ring) : Prop where
  k : KInv r.keys (cqFinals r.cq ++ r.chan) r.owed r.pool
  nod : (r.kern ++ opsOf r.sq).Nodup
  /-- a CQE in the queue names an operation the kernel still owns or whose final CQE is queued too -/
  cqLive : ∀ c ∈ r.cq, ∀ id, c.ud = .key id → r.owed id ∨ id ∈ (cqFinals r.cq).map (·.1)

/-- The kernel contract for one `io_uring_enter` (also used for completions posted asynchronously, with
    `taken = 0`): it consumes a prefix of the staged SQEs; every CQE it posts for a key echoes the
    user_data of an operation it owns (consumed, final CQE not yet posted); at most one final CQE per key. -/
structure EnterOk (r : Ring) (e : Enter) : Prop where
  owned : ∀ c ∈ e.posted, ∀ id, c.ud = .key id → id ∈ r.kern ++ opsOf (r.sq.take e.taken)
  oneFinal : ((cqFinals e.posted).map (·.1)).Nodup

theorem opsOf_append (a b : List Sqe) : opsOf (a ++ b) = opsOf a ++ opsOf b := by
  simp [opsOf, List.filterMap_append]

theorem cqFinals_append (a b : List Cqe) : cqFinals (a ++ b) = cqFinals a ++ cqFinals b := by
  simp [cqFinals, List.filterMap_append]

theorem cqFinals_cons_final (id : Id) (res : Res) (rest : List Cqe) :
    cqFinals (⟨.key id, res, false⟩ :: rest) = (id, res) :: cqFinals rest := by
  simp [cqFinals]

theorem append_comm_of_length_le_one {α : Type} (a b : List α) (h : (a ++ b).length ≤ 1) : a ++ b = b ++ a := by
  cases a with
  | nil => simp
  | cons x a' =>
    cases b with
    | nil => simp
    | cons y b' => simp at h

/-- reordering the not-yet-notified results (they belong to pairwise different operations) -/
theorem KInv.chanSwap {ks : Keys} {a b c : List (Id × Res)} {queued : Id → Prop} {pool : List Id}
    (h : KInv ks (a ++ b ++ c) queued pool) : KInv ks (a ++ c ++ b) queued pool := by
  refine ⟨h.srcLen, h.qFresh, h.poolFresh, h.poolNodup, ?_, h.slotRel, h.noUaf, h.wokenLe, h.wakeReady,
    h.wakerReg, h.wokenEq, h.freshNoWaker, h.lastReg, h.wakersEq, h.freshNoLast⟩
  intro id
  have hl := h.link id
  have hlen := h.srcLen id
  rw [chanRes_append, chanRes_append] at hl ⊢
  have hbc : (chanRes b id ++ chanRes c id).length ≤ 1 := by
    rw [← hl] at hlen; simp at hlen ⊢; omega
  have hswap := append_comm_of_length_le_one _ _ hbc
  rw [List.append_assoc, ← hswap, ← List.append_assoc]
  simpa [List.append_assoc] using hl

theorem KInv.congrQueued {ks : Keys} {chan : List (Id × Res)} {queued queued' : Id → Prop} {pool : List Id}
    (h : KInv ks chan queued pool) (hq : ∀ id, queued' id ↔ queued id) : KInv ks chan queued' pool := by
  have : queued' = queued := by funext id; exact propext (hq id)
  rw [this]; exact h

theorem chanRes_ne_nil_of_mem {chan : List (Id × Res)} {id : Id} {r : Res} (h : (id, r) ∈ chan) :
    chanRes chan id ≠ [] := by
  intro hn
  have : r ∈ chanRes chan id := by
    unfold chanRes
    exact List.mem_map.2 ⟨(id, r), List.mem_filter.2 ⟨h, by simp⟩, rfl⟩
  rw [hn] at this; cases this

/-- an entry anywhere among the not-yet-notified results belongs to a pending operation -/
theorem KInv.pending_of_mem {ks : Keys} {chan : List (Id × Res)} {queued : Id → Prop} {pool : List Id}
    (h : KInv ks chan queued pool) {id : Id} {r : Res} (hm : (id, r) ∈ chan) : ∃ w, ks.slot id = .pending w := by
  have hne := chanRes_ne_nil_of_mem hm
  have hl := h.link id
  have hlen := h.srcLen id
  have hfin : ks.fin id = [] := by
    cases hf : ks.fin id with
    | nil => rfl
    | cons a l =>
      rw [hf] at hl
      cases hc : chanRes chan id with
      | nil => exact (hne hc).elim
      | cons b l' => rw [hc] at hl; rw [← hl] at hlen; simp at hlen
  have hsrc : ks.src id ≠ [] := by
    rw [← hl, hfin]; simpa using hne
  have hr := h.slotRel id
  unfold SlotRel at hr
  cases hsl : ks.slot id with
  | free =>
    rw [hsl] at hr
    rcases hr with ⟨hs, _⟩ | ⟨hne', _⟩
    · exact (hsrc hs).elim
    · exact (hne' hfin).elim
  | pending w => exact ⟨w, rfl⟩
  | ready r' => rw [hsl] at hr; rw [hfin] at hr; simp at hr

/-- a result waiting to be notified belongs to an operation that is not owed anything else -/
theorem KInv.not_queued_of_mem {ks : Keys} {chan : List (Id × Res)} {queued : Id → Prop} {pool : List Id}
    (h : KInv ks chan queued pool) {id : Id} {r : Res} (hm : (id, r) ∈ chan) : ¬ queued id := by
  intro hq
  have hs := (h.qFresh id hq).1
  have := (h.fin_of_src_nil hs).2
  exact chanRes_ne_nil_of_mem hm this

/-- the kernel posts the final completions `finals` of operations it owns (`K`) -/
theorem kinv_post_finals {pool : List Id} {S : List Id} : ∀ (finals : List (Id × Res)) (ks : Keys) (K : List Id)
    (chan : List (Id × Res)),
    KInv ks chan (fun id => id ∈ K ∨ id ∈ S) pool → (K ++ S).Nodup → (∀ p ∈ finals, p.1 ∈ K) →
    (finals.map (·.1)).Nodup →
    KInv (finals.foldl (fun ks p => ks.produce p.1 p.2) ks) (chan ++ finals)
      (fun id => id ∈ K.filter (fun x => !(finals.map (·.1)).contains x) ∨ id ∈ S) pool := by
  intro finals
  induction finals with
  | nil =>
    intro ks K chan h _ _ _
    simp only [List.foldl_nil, List.append_nil, List.map_nil]
    refine h.congrQueued ?_
    intro id; simp
  | cons p rest ih =>
    intro ks K chan h hnd hmem hids
    obtain ⟨id, res⟩ := p
    simp only [List.foldl_cons]
    have hidK : id ∈ K := hmem (id, res) List.mem_cons_self
    rw [List.map_cons] at hids
    obtain ⟨hnotin, hids'⟩ := List.nodup_cons.1 hids
    have hsrc := (h.qFresh id (Or.inl hidK)).1
    have hnp := (h.qFresh id (Or.inl hidK)).2
    have hpend := h.pending_of_fresh hsrc (Or.inl (Or.inl hidK))
    have hndK : K.Nodup := (List.nodup_append.1 hnd).1
    have hdisj : ∀ x, x ∈ K → x ∉ S := by
      intro x hx hs
      exact (List.nodup_append.1 hnd).2.2 x hx x hs rfl
    have h1 : KInv (ks.produce id res) (chan ++ [(id, res)])
        (fun x => x ∈ K.filter (fun y => y != id) ∨ x ∈ S) pool := by
      refine h.produceChan res hsrc ?_ ?_ h.poolNodup hpend
      · intro x hx
        rcases hx with hx | hx
        · have := List.mem_filter.1 hx
          exact ⟨Or.inl this.1, by simpa using this.2⟩
        · exact ⟨Or.inr hx, fun e => hdisj id hidK (e ▸ hx)⟩
      · intro x hx
        exact ⟨hx, fun e => hnp (e ▸ hx)⟩
    have h2 := ih (ks.produce id res) (K.filter (fun y => y != id)) (chan ++ [(id, res)]) h1
      (by
        refine List.Sublist.nodup ?_ hnd
        exact List.Sublist.append (List.filter_sublist) (List.Sublist.refl _))
      (by
        intro q hq
        have hqK := hmem q (List.mem_cons_of_mem _ hq)
        refine List.mem_filter.2 ⟨hqK, ?_⟩
        have : q.1 ≠ id := fun e => hnotin (e ▸ List.mem_map.2 ⟨q, hq, rfl⟩)
        simpa using this)
      hids'
    have hchan : chan ++ [(id, res)] ++ rest = chan ++ (id, res) :: rest := by simp
    rw [hchan] at h2
    refine h2.congrQueued ?_
    intro x
    simp only [List.map_cons, List.mem_filter, List.contains_cons, Bool.not_or, Bool.and_eq_true,
      Bool.not_eq_true', bne_iff_ne, ne_eq]
    constructor
    · rintro (⟨hx, h3, h4⟩ | hx)
      · left
        refine ⟨⟨hx, ?_⟩, h4⟩
        intro e; rw [e] at h3; simp at h3
      · exact Or.inr hx
    · rintro (⟨⟨hx, h3⟩, h4⟩ | hx)
      · left
        refine ⟨hx, ?_, h4⟩
        cases hb : (x == id) with
        | false => rfl
        | true => exact (h3 (by simpa using hb)).elim
      · exact Or.inr hx

theorem foldl_produce_posted : ∀ (posted : List Cqe) (ks : Keys),
    posted.foldl (fun ks c => match c.ud with
        | .key id => if c.more then ks else ks.produce id c.res
        | _ => ks) ks =
      (cqFinals posted).foldl (fun ks p => ks.produce p.1 p.2) ks := by
  intro posted
  induction posted with
  | nil => intro ks; rfl
  | cons c rest ih =>
    intro ks
    simp only [List.foldl_cons]
    rw [ih]
    cases hud : c.ud with
    | cancel => simp [cqFinals, hud]
    | notify => simp [cqFinals, hud]
    | key id =>
      by_cases hm : c.more
      · simp [cqFinals, hud, hm]
      · simp [cqFinals, hud, hm]

theorem mem_cqFinals {cq : List Cqe} {id : Id} {res : Res} (h : (id, res) ∈ cqFinals cq) :
    ∃ c ∈ cq, c.ud = .key id ∧ c.more = false ∧ c.res = res := by
  unfold cqFinals at h
  obtain ⟨c, hc, hv⟩ := List.mem_filterMap.1 h
  cases hud : c.ud with
  | cancel => simp [hud] at hv
  | notify => simp [hud] at hv
  | key id' =>
    by_cases hm : c.more
    · simp [hud, hm] at hv
    · simp only [hud, hm, Bool.false_eq_true, if_false, Option.some.injEq, Prod.mk.injEq] at hv
      obtain ⟨rfl, rfl⟩ := hv
      exact ⟨c, hc, hud, by simpa using hm, rfl⟩

/-- one `io_uring_enter` (or an asynchronous post) that honours the contract keeps the invariant -/
theorem RInv.enter {r : Ring} (h : RInv r) (e : Enter) (hok : EnterOk r e) : RInv (r.enter e) := by
  have hsplit : opsOf r.sq = opsOf (r.sq.take e.taken) ++ opsOf (r.sq.drop e.taken) := by
    rw [← opsOf_append, List.take_append_drop]
  have hnd1 : ((r.kern ++ opsOf (r.sq.take e.taken)) ++ opsOf (r.sq.drop e.taken)).Nodup := by
    have := h.nod; rw [hsplit, ← List.append_assoc] at this; exact this
  have hk0 : KInv r.keys (cqFinals r.cq ++ r.chan)
      (fun id => id ∈ r.kern ++ opsOf (r.sq.take e.taken) ∨ id ∈ opsOf (r.sq.drop e.taken)) r.pool := by
    refine h.k.congrQueued ?_
    intro id
    unfold Ring.owed
    rw [hsplit]
    simp only [List.mem_append]
    constructor
    · rintro ((a | b) | c)
      · exact Or.inl a
      · exact Or.inr (Or.inl b)
      · exact Or.inr (Or.inr c)
    · rintro (a | b | c)
      · exact Or.inl (Or.inl a)
      · exact Or.inl (Or.inr b)
      · exact Or.inr c
  have hmemK : ∀ p ∈ cqFinals e.posted, p.1 ∈ r.kern ++ opsOf (r.sq.take e.taken) := by
    intro p hp
    obtain ⟨c, hc, hud, _, _⟩ := mem_cqFinals (id := p.1) (res := p.2) (by simpa using hp)
    exact hok.owned c hc p.1 hud
  have hk1 := kinv_post_finals (cqFinals e.posted) r.keys _ _ hk0 hnd1 hmemK hok.oneFinal
  -- the fields of `enter`
  have ekern : (r.enter e).kern = (r.kern ++ opsOf (r.sq.take e.taken)).filter
      (fun x => !((cqFinals e.posted).map (·.1)).contains x) := by
    simp only [Ring.enter, opsOf]
    congr 1
    funext x
    congr 2
    simp only [cqFinals, List.map_filterMap]
    congr 1
    funext c
    cases c.ud with
    | cancel => rfl
    | notify => rfl
    | key id => by_cases hm : c.more <;> simp [hm]
  have ekeys : (r.enter e).keys = (cqFinals e.posted).foldl (fun ks p => ks.produce p.1 p.2) r.keys := by
    simp only [Ring.enter]; exact foldl_produce_posted _ _
  have esq : (r.enter e).sq = r.sq.drop e.taken := rfl
  have ecq : (r.enter e).cq = r.cq ++ e.posted := rfl
  refine ⟨?_, ?_, ?_⟩
  · show KInv (r.enter e).keys (cqFinals (r.enter e).cq ++ (r.enter e).chan) (r.enter e).owed (r.enter e).pool
    rw [ekeys, ecq, cqFinals_append]
    have : (r.enter e).chan = r.chan := rfl
    rw [this]
    have : (r.enter e).pool = r.pool := rfl
    rw [this]
    have hk2 : KInv _ (cqFinals r.cq ++ cqFinals e.posted ++ r.chan) _ r.pool := hk1.chanSwap
    refine hk2.congrQueued ?_
    intro id
    unfold Ring.owed
    rw [ekern, esq]
  · rw [ekern, esq]
    refine List.Sublist.nodup ?_ hnd1
    exact List.Sublist.append (List.filter_sublist) (List.Sublist.refl _)
  · intro c hc id hud
    rw [ecq] at hc
    rw [ecq, cqFinals_append, List.map_append]
    unfold Ring.owed
    rw [ekern, esq]
    have key : ∀ x, x ∈ r.kern ++ opsOf (r.sq.take e.taken) →
        (x ∈ (r.kern ++ opsOf (r.sq.take e.taken)).filter (fun y => !((cqFinals e.posted).map (·.1)).contains y)
          ∨ x ∈ opsOf (r.sq.drop e.taken)) ∨
        x ∈ (cqFinals r.cq).map (·.1) ++ (cqFinals e.posted).map (·.1) := by
      intro x hx
      by_cases hf : x ∈ (cqFinals e.posted).map (·.1)
      · exact Or.inr (List.mem_append.2 (Or.inr hf))
      · left; left
        exact List.mem_filter.2 ⟨hx, by simpa using hf⟩
    rcases List.mem_append.1 hc with hc | hc
    · rcases h.cqLive c hc id hud with ho | hf
      · unfold Ring.owed at ho
        rw [hsplit] at ho
        rcases ho with ho | ho
        · exact key id (List.mem_append.2 (Or.inl ho))
        · rcases List.mem_append.1 ho with ho | ho
          · exact key id (List.mem_append.2 (Or.inr ho))
          · exact Or.inl (Or.inr ho)
      · exact Or.inr (List.mem_append.2 (Or.inl hf))
    · exact key id (hok.owned c hc id hud)


/-! #### `poll_entries`, `poll_blocking` -/

theorem pushMulti_fields (ks : Keys) (id : Id) (r : Res) :
    (ks.pushMulti id r).slot = ks.slot ∧ (ks.pushMulti id r).src = ks.src ∧ (ks.pushMulti id r).fin = ks.fin ∧
    (ks.pushMulti id r).dlv = ks.dlv ∧ (ks.pushMulti id r).woken = ks.woken ∧
    (ks.pushMulti id r).uaf = (ks.uaf || (ks.slot id == .free)) ∧
    (∀ w ∈ (ks.pushMulti id r).wakeLog, w.final = true → w ∈ ks.wakeLog) ∧
    (ks.pushMulti id r).hadWaker = ks.hadWaker ∧ (ks.pushMulti id r).lastWaker = ks.lastWaker ∧
    (∀ x, finalWakers (ks.pushMulti id r) x = finalWakers ks x) := by
  unfold Keys.pushMulti
  split
  · refine ⟨rfl, rfl, rfl, rfl, rfl, rfl, ?_, rfl, rfl, ?_⟩
    rotate_left
    · intro x
      unfold finalWakers
      simp [Keys.wake, List.filterMap_append]
    intro w hw hf
    simp only [Keys.wake, List.mem_append, List.mem_singleton] at hw
    rcases hw with hw | rfl
    · exact hw
    · simp at hf
  · exact ⟨rfl, rfl, rfl, rfl, rfl, rfl, fun w hw _ => hw, rfl, rfl, fun _ => rfl⟩

theorem KInv.pushMulti {ks : Keys} {chan : List (Id × Res)} {queued : Id → Prop} {pool : List Id}
    (h : KInv ks chan queued pool) (id : Id) (r : Res) (hlive : ks.slot id ≠ .free) :
    KInv (ks.pushMulti id r) chan queued pool := by
  obtain ⟨e1, e2, e3, e4, e5, e6, e7, e8, e9, e10⟩ := pushMulti_fields ks id r
  refine ⟨by rw [e2]; exact h.srcLen, by rw [e2]; exact h.qFresh, by rw [e2]; exact h.poolFresh, h.poolNodup,
    by rw [e2, e3]; exact h.link, ?_, ?_, by rw [e3, e5]; exact h.wokenLe, ?_,
    by rw [e1, e8]; exact h.wakerReg, by rw [e3, e5, e8]; exact h.wokenEq,
    by rw [e1, e2, e8]; exact h.freshNoWaker, by rw [e1, e9]; exact h.lastReg,
    by intro x; rw [e10, e3, e9]; exact h.wakersEq x, by rw [e1, e2, e9]; exact h.freshNoLast⟩
  · intro x
    have := h.slotRel x
    unfold SlotRel at this ⊢
    rw [e1, e2, e3, e4]; exact this
  · rw [e6, h.noUaf]
    cases hs : ks.slot id <;> simp_all
  · intro w hw hf
    exact h.wakeReady w (e7 w hw hf) hf

theorem handleCqe_frame (r : Ring) (c : Cqe) :
    (r.handleCqe c).kern = r.kern ∧ (r.handleCqe c).sq = r.sq ∧ (r.handleCqe c).chan = r.chan ∧
    (r.handleCqe c).pool = r.pool ∧ (r.handleCqe c).cq = r.cq ∧ (r.handleCqe c).sqCap = r.sqCap := by
  unfold Ring.handleCqe
  cases c.ud with
  | cancel => simp
  | notify => by_cases h : c.more <;> simp [h]
  | key id => by_cases h : c.more <;> simp [h]

/-- the loop of `poll_entries` over the queued completions -/
theorem rinv_foldl_handleCqe : ∀ (rest : List Cqe) (acc : Ring), acc.cq = [] →
    KInv acc.keys (cqFinals rest ++ acc.chan) acc.owed acc.pool → (acc.kern ++ opsOf acc.sq).Nodup →
    (∀ c ∈ rest, ∀ id, c.ud = .key id → acc.keys.slot id ≠ .free) →
    RInv (rest.foldl Ring.handleCqe acc) := by
  intro rest
  induction rest with
  | nil =>
    intro acc hcq hk hnd _
    simp only [List.foldl_nil]
    refine ⟨by simpa [hcq, cqFinals] using hk, hnd, by intro c hc; rw [hcq] at hc; cases hc⟩
  | cons c rest ih =>
    intro acc hcq hk hnd hlive
    simp only [List.foldl_cons]
    obtain ⟨f1, f2, f3, f4, f5, _⟩ := handleCqe_frame acc c
    have howed : (acc.handleCqe c).owed = acc.owed := by
      funext id; unfold Ring.owed; rw [f1, f2]
    apply ih
    · rw [f5]; exact hcq
    · rw [howed, f3, f4]
      cases hud : c.ud with
      | cancel =>
        have : cqFinals (c :: rest) = cqFinals rest := by simp [cqFinals, hud]
        rw [this] at hk
        simpa [Ring.handleCqe, hud] using hk
      | notify =>
        have : cqFinals (c :: rest) = cqFinals rest := by simp [cqFinals, hud]
        rw [this] at hk
        by_cases hm : c.more <;> simpa [Ring.handleCqe, hud, hm] using hk
      | key id =>
        by_cases hm : c.more
        · have : cqFinals (c :: rest) = cqFinals rest := by simp [cqFinals, hud, hm]
          rw [this] at hk
          have hl := hlive c List.mem_cons_self id hud
          simpa [Ring.handleCqe, hud, hm] using hk.pushMulti id c.res hl
        · have : cqFinals (c :: rest) = (id, c.res) :: cqFinals rest := by simp [cqFinals, hud, hm]
          rw [this] at hk
          have := KInv.notifyHead (by simpa using hk)
          simpa [Ring.handleCqe, hud, hm] using this
    · rw [f1, f2]; exact hnd
    · intro c' hc' id' hud'
      have hl := hlive c' (List.mem_cons_of_mem _ hc') id' hud'
      intro hfree
      apply hl
      cases hud : c.ud with
      | cancel => simpa [Ring.handleCqe, hud] using hfree
      | notify => by_cases hm : c.more <;> simpa [Ring.handleCqe, hud, hm] using hfree
      | key id =>
        by_cases hm : c.more
        · simp only [Ring.handleCqe, hud, hm, if_true] at hfree
          rw [(pushMulti_fields _ _ _).1] at hfree; exact hfree
        · simp only [Ring.handleCqe, hud, hm, Bool.false_eq_true, if_false] at hfree
          exact notify_slot_free _ _ _ _ hfree

theorem RInv.slot_live {r : Ring} (h : RInv r) (c : Cqe) (hc : c ∈ r.cq) (id : Id) (hud : c.ud = .key id) :
    r.keys.slot id ≠ .free := by
  rcases h.cqLive c hc id hud with ho | hf
  · have hs := (h.k.qFresh id ho).1
    obtain ⟨w, hw⟩ := h.k.pending_of_fresh hs (Or.inl ho)
    rw [hw]; simp
  · obtain ⟨p, hp, rfl⟩ := List.mem_map.1 hf
    obtain ⟨w, hw⟩ := h.k.pending_of_mem (id := p.1) (r := p.2) (List.mem_append.2 (Or.inl hp))
    rw [hw]; simp

theorem RInv.pollEntries {r : Ring} (h : RInv r) : RInv r.pollEntries := by
  unfold Ring.pollEntries
  exact rinv_foldl_handleCqe r.cq { r with cq := [] } rfl h.k h.nod (fun c hc id hud => h.slot_live c hc id hud)

theorem pollBlocking_eq (r : Ring) :
    r.pollBlocking = ({ r with chan := [], keys := notifyAll r.keys r.chan }, !r.chan.isEmpty) := by
  unfold Ring.pollBlocking notifyAll
  have : ∀ (chan : List (Id × Res)) (acc : Ring),
      chan.foldl (fun (acc : Ring) (e : Id × Res) => { acc with keys := acc.keys.notify e.1 e.2 }) acc =
        { acc with keys := chan.foldl (fun ks e => ks.notify e.1 e.2) acc.keys } := by
    intro chan
    induction chan with
    | nil => intro acc; rfl
    | cons e rest ih => intro acc; simp only [List.foldl_cons]; rw [ih]
  rw [this]

theorem RInv.pollBlocking {r : Ring} (h : RInv r) : RInv r.pollBlocking.1 := by
  rw [pollBlocking_eq]
  refine ⟨?_, h.nod, h.cqLive⟩
  show KInv (notifyAll r.keys r.chan) (cqFinals r.cq ++ []) r.owed r.pool
  have h1 : KInv r.keys ([] ++ r.chan ++ cqFinals r.cq) r.owed r.pool := by
    have : KInv r.keys ([] ++ cqFinals r.cq ++ r.chan) r.owed r.pool := by simpa using h.k
    exact this.chanSwap
  simpa using kinv_notifyAll_prefix r.chan r.keys (by simpa using h1)

theorem RInv.setDrained {r : Ring} (h : RInv r) (d : List Cqe) : RInv { r with drained := d } :=
  ⟨h.k, h.nod, h.cqLive⟩

theorem RInv.setNotifier {r : Ring} (h : RInv r) (b : Bool) : RInv { r with needNotifier := b } :=
  ⟨h.k, h.nod, h.cqLive⟩

theorem RInv.setInflight {r : Ring} (h : RInv r) (l : List Id) : RInv { r with inflight := l } :=
  ⟨h.k, h.nod, h.cqLive⟩

theorem RInv.overflowRound {r : Ring} (h : RInv r) (en : Enter) (hok : EnterOk r en) :
    RInv (overflowRound r en) := by
  unfold Completion.overflowRound
  exact ((h.enter en hok).pollEntries).setDrained _

/-! #### an operation nobody knows yet stays untouched by the kernel side -/

/-- no result produced, nothing owed, not in the pool -/
def Untouched (r : Ring) (id : Id) : Prop := r.keys.src id = [] ∧ ¬ r.owed id ∧ id ∉ r.pool

theorem enter_slot (r : Ring) (e : Enter) : (r.enter e).keys.slot = r.keys.slot := by
  unfold Ring.enter
  simp only
  have : ∀ (l : List Cqe) (ks : Keys),
      (l.foldl (fun ks c => match c.ud with
          | .key id => if c.more then ks else ks.produce id c.res
          | _ => ks) ks).slot = ks.slot := by
    intro l
    induction l with
    | nil => intro ks; rfl
    | cons c rest ih =>
      intro ks
      simp only [List.foldl_cons]
      rw [ih]
      cases c.ud with
      | key id => by_cases hm : c.more <;> simp [hm]
      | cancel => rfl
      | notify => rfl
  exact this _ _

theorem foldl_produce_src_other : ∀ (finals : List (Id × Res)) (ks : Keys) (id : Id),
    id ∉ finals.map (·.1) → (finals.foldl (fun ks p => ks.produce p.1 p.2) ks).src id = ks.src id := by
  intro finals
  induction finals with
  | nil => intro ks id _; rfl
  | cons p rest ih =>
    intro ks id hn
    simp only [List.map_cons, List.mem_cons, not_or] at hn
    simp only [List.foldl_cons]
    rw [ih _ id hn.2]
    simp [hn.1]

theorem Untouched.enter {r : Ring} (hr : RInv r) {id : Id} (h : Untouched r id) (e : Enter) (hok : EnterOk r e) :
    Untouched (r.enter e) id := by
  obtain ⟨hs, ho, hp⟩ := h
  have hsplit : opsOf r.sq = opsOf (r.sq.take e.taken) ++ opsOf (r.sq.drop e.taken) := by
    rw [← opsOf_append, List.take_append_drop]
  have hnotK : id ∉ r.kern ++ opsOf (r.sq.take e.taken) := by
    intro hm
    apply ho
    unfold Ring.owed
    rw [hsplit]
    rcases List.mem_append.1 hm with hm | hm
    · exact Or.inl hm
    · exact Or.inr (List.mem_append.2 (Or.inl hm))
  refine ⟨?_, ?_, hp⟩
  · have : (r.enter e).keys = (cqFinals e.posted).foldl (fun ks p => ks.produce p.1 p.2) r.keys := by
      simp only [Ring.enter]; exact foldl_produce_posted _ _
    rw [this, foldl_produce_src_other _ _ id ?_]
    · exact hs
    · intro hm
      obtain ⟨p, hp', rfl⟩ := List.mem_map.1 hm
      obtain ⟨c, hc, hud, _, _⟩ := mem_cqFinals (id := p.1) (res := p.2) (by simpa using hp')
      exact hnotK (hok.owned c hc p.1 hud)
  · intro ho'
    apply ho
    unfold Ring.owed at ho' ⊢
    rw [hsplit]
    rcases ho' with hk | hq
    · have hk' : id ∈ (r.kern ++ opsOf (r.sq.take e.taken)) := by
        simp only [Ring.enter, opsOf] at hk
        exact (List.mem_filter.1 hk).1
      exact (hnotK hk').elim
    · exact Or.inr (List.mem_append.2 (Or.inr hq))

theorem foldl_handleCqe_frame : ∀ (cq : List Cqe) (acc : Ring),
    (cq.foldl Ring.handleCqe acc).kern = acc.kern ∧ (cq.foldl Ring.handleCqe acc).sq = acc.sq ∧
    (cq.foldl Ring.handleCqe acc).pool = acc.pool ∧ (cq.foldl Ring.handleCqe acc).keys.src = acc.keys.src := by
  intro cq
  induction cq with
  | nil => intro acc; exact ⟨rfl, rfl, rfl, rfl⟩
  | cons c rest ih =>
    intro acc
    simp only [List.foldl_cons]
    obtain ⟨a, b, c', d⟩ := ih (acc.handleCqe c)
    obtain ⟨f1, f2, _, f4, _, _⟩ := handleCqe_frame acc c
    refine ⟨a.trans f1, b.trans f2, c'.trans f4, d.trans ?_⟩
    unfold Ring.handleCqe
    cases c.ud with
    | cancel => rfl
    | notify => by_cases hm : c.more <;> simp [hm]
    | key id =>
      by_cases hm : c.more
      · simp [hm, (pushMulti_fields _ _ _).2.1]
      · simp [hm, notify_src]

theorem foldl_handleCqe_slot_other : ∀ (cq : List Cqe) (acc : Ring) (id : Id),
    id ∉ (cqFinals cq).map (·.1) → (cq.foldl Ring.handleCqe acc).keys.slot id = acc.keys.slot id := by
  intro cq
  induction cq with
  | nil => intro acc id _; rfl
  | cons c rest ih =>
    intro acc id hn
    simp only [List.foldl_cons]
    cases hud : c.ud with
    | cancel =>
      have : cqFinals (c :: rest) = cqFinals rest := by simp [cqFinals, hud]
      rw [this] at hn
      rw [ih _ id hn]; simp [Ring.handleCqe, hud]
    | notify =>
      have : cqFinals (c :: rest) = cqFinals rest := by simp [cqFinals, hud]
      rw [this] at hn
      rw [ih _ id hn]; by_cases hm : c.more <;> simp [Ring.handleCqe, hud, hm]
    | key id' =>
      by_cases hm : c.more
      · have : cqFinals (c :: rest) = cqFinals rest := by simp [cqFinals, hud, hm]
        rw [this] at hn
        rw [ih _ id hn]; simp [Ring.handleCqe, hud, hm, (pushMulti_fields _ _ _).1]
      · have : cqFinals (c :: rest) = (id', c.res) :: cqFinals rest := by simp [cqFinals, hud, hm]
        rw [this] at hn
        simp only [List.map_cons, List.mem_cons, not_or] at hn
        rw [ih _ id hn.2]
        simp only [Ring.handleCqe, hud, hm, Bool.false_eq_true, if_false]
        exact (notify_frame _ id' c.res id hn.1).1

theorem Untouched.not_in_cq {r : Ring} (hr : RInv r) {id : Id} (h : Untouched r id) :
    id ∉ (cqFinals r.cq).map (·.1) := by
  intro hm
  obtain ⟨p, hp, rfl⟩ := List.mem_map.1 hm
  have := chanRes_ne_nil_of_mem (chan := cqFinals r.cq ++ r.chan) (id := p.1) (r := p.2)
    (List.mem_append.2 (Or.inl hp))
  exact this (hr.k.fin_of_src_nil h.1).2

theorem Untouched.overflowRound {r : Ring} (hr : RInv r) {id : Id} (h : Untouched r id) (en : Enter)
    (hok : EnterOk r en) :
    Untouched (overflowRound r en) id ∧ (overflowRound r en).keys.slot id = r.keys.slot id := by
  have h1 := h.enter hr en hok
  have hr1 := hr.enter en hok
  unfold Completion.overflowRound Ring.pollEntries
  obtain ⟨a, b, c, d⟩ := foldl_handleCqe_frame (r.enter en).cq { r.enter en with cq := [] }
  refine ⟨⟨?_, ?_, ?_⟩, ?_⟩
  · show (List.foldl Ring.handleCqe _ _).keys.src id = []
    rw [d]; exact h1.1
  · intro ho
    apply h1.2.1
    unfold Ring.owed at ho ⊢
    simp only at ho
    rw [a, b] at ho
    exact ho
  · show id ∉ (List.foldl Ring.handleCqe _ _).pool
    rw [c]; exact h1.2.2
  · show (List.foldl Ring.handleCqe _ _).keys.slot id = r.keys.slot id
    rw [foldl_handleCqe_slot_other _ _ id (h1.not_in_cq hr1)]
    show (r.enter en).keys.slot id = r.keys.slot id
    rw [enter_slot]

/-- the kernel scripts of the overflow loop honour the contract at the state they are used in -/
def ScriptOk : Ring → List Enter → Prop
  | _, [] => True
  | r, en :: rest => EnterOk r en ∧ ScriptOk (Completion.overflowRound r en) rest

/-- the overflow loop: the ring it leaves behind (before staging the entry) is consistent, and an
    operation nobody knows yet is still untouched -/
theorem rinv_pushRawAux (e : Sqe) : ∀ (script : List Enter) (r : Ring), RInv r → ScriptOk r script →
    ∃ r0, RInv r0 ∧
      ((pushRawAux e script r) = ({ r0 with sq := r0.sq ++ [e] }, .ok) ∨ (pushRawAux e script r) = (r0, .spin)) ∧
      (∀ id, Untouched r id → Untouched r0 id ∧ r0.keys.slot id = r.keys.slot id) := by
  intro script
  induction script with
  | nil =>
    intro r h _
    refine ⟨r, h, ?_, fun id hu => ⟨hu, rfl⟩⟩
    unfold pushRawAux
    by_cases hlt : r.sq.length < r.sqCap
    · left; simp [hlt]
    · right; simp [hlt]
  | cons en rest ih =>
    intro r h hs
    rw [pushRawAux_cons]
    by_cases hlt : r.sq.length < r.sqCap
    · exact ⟨r, h, Or.inl (by simp [hlt]), fun id hu => ⟨hu, rfl⟩⟩
    · simp only [hlt, if_false]
      obtain ⟨hok, hrest⟩ := hs
      obtain ⟨r0, h0, hres, hunt⟩ := ih _ (h.overflowRound en hok) hrest
      refine ⟨r0, h0, hres, ?_⟩
      intro id hu
      obtain ⟨hu1, hs1⟩ := hu.overflowRound h en hok
      obtain ⟨hu2, hs2⟩ := hunt id hu1
      exact ⟨hu2, hs2.trans hs1⟩


/-! #### every step of the io_uring driver -/

/-- a key that has just been allocated: nothing is known about it anywhere -/
def Fresh (r : Ring) (id : Id) : Prop :=
  r.keys.slot id = .free ∧ r.keys.src id = [] ∧ ¬ r.owed id ∧ id ∉ r.pool

theorem RInv.alloc {r : Ring} (h : RInv r) {id : Id} (hf : Fresh r id) :
    RInv { r with keys := r.keys.alloc id } ∧ Untouched { r with keys := r.keys.alloc id } id := by
  refine ⟨⟨h.k.alloc hf.1 hf.2.1, h.nod, h.cqLive⟩, ?_, hf.2.2.1, hf.2.2.2⟩
  simpa using hf.2.1

/-- staging an SQE that is not an operation (notifier, cancel) changes nothing that matters -/
theorem RInv.stageOther {r : Ring} (h : RInv r) (e : Sqe) (he : ∀ id, e ≠ .op id) :
    RInv { r with sq := r.sq ++ [e] } := by
  have hops : opsOf (r.sq ++ [e]) = opsOf r.sq := by
    rw [opsOf_append]
    cases e with
    | op id => exact (he id rfl).elim
    | cancelOf id => simp [opsOf]
    | notifier => simp [opsOf]
  have howed : Ring.owed { r with sq := r.sq ++ [e] } = r.owed := by
    funext id; unfold Ring.owed; simp only; rw [hops]
  refine ⟨?_, ?_, ?_⟩
  · show KInv r.keys (cqFinals r.cq ++ r.chan) (Ring.owed { r with sq := r.sq ++ [e] }) r.pool
    rw [howed]; exact h.k
  · show (r.kern ++ opsOf (r.sq ++ [e])).Nodup
    rw [hops]; exact h.nod
  · intro c hc id hud
    rw [howed]; exact h.cqLive c hc id hud

/-- staging the SQE of an untouched, pending operation -/
theorem RInv.stageOp {r : Ring} (h : RInv r) {id : Id} (hu : Untouched r id) (hp : ∃ w, r.keys.slot id = .pending w) :
    RInv { r with sq := r.sq ++ [.op id] } := by
  have hops : opsOf (r.sq ++ [.op id]) = opsOf r.sq ++ [id] := by rw [opsOf_append]; simp [opsOf]
  have howed : ∀ x, Ring.owed { r with sq := r.sq ++ [.op id] } x ↔ r.owed x ∨ x = id := by
    intro x; unfold Ring.owed; simp only; rw [hops]
    simp only [List.mem_append, List.mem_singleton]
    constructor
    · rintro (a | b | c)
      · exact Or.inl (Or.inl a)
      · exact Or.inl (Or.inr b)
      · exact Or.inr c
    · rintro ((a | b) | c)
      · exact Or.inl a
      · exact Or.inr (Or.inl b)
      · exact Or.inr (Or.inr c)
  refine ⟨?_, ?_, ?_⟩
  · show KInv r.keys (cqFinals r.cq ++ r.chan) (Ring.owed { r with sq := r.sq ++ [.op id] }) r.pool
    refine h.k.requeue ?_ ?_
    · intro x hx
      rcases (howed x).1 hx with hx | rfl
      · exact Or.inl hx
      · exact Or.inr ⟨hu.1, hu.2.2, hp⟩
    · intro x hfree hx
      rcases (howed x).1 hx with hx | rfl
      · exact hx
      · obtain ⟨w, hw⟩ := hp; rw [hw] at hfree; cases hfree
  · show (r.kern ++ opsOf (r.sq ++ [.op id])).Nodup
    rw [hops, ← List.append_assoc]
    refine List.nodup_append.2 ⟨h.nod, by simp, ?_⟩
    intro a ha b hb
    simp only [List.mem_singleton] at hb
    subst hb
    intro e
    subst e
    apply hu.2.1
    unfold Ring.owed
    exact List.mem_append.1 ha
  · intro c hc x hud
    rcases h.cqLive c hc x hud with ho | hf
    · exact Or.inl ((howed x).2 (Or.inl ho))
    · exact Or.inr hf

theorem RInv.pushOp {r : Ring} (h : RInv r) {id : Id} (hf : Fresh r id) (script : List Enter)
    (hs : ScriptOk { r with keys := r.keys.alloc id } script) : RInv (r.pushOp id script).1 := by
  obtain ⟨h0, hu0⟩ := h.alloc hf
  obtain ⟨r0, hr0, hres, hunt⟩ := rinv_pushRawAux (.op id) script _ h0 hs
  obtain ⟨hu1, hs1⟩ := hunt id hu0
  have hp : ∃ w, r0.keys.slot id = .pending w := ⟨none, by rw [hs1]; simp⟩
  unfold Ring.pushOp Ring.pushRaw
  simp only
  rcases hres with hres | hres
  · rw [hres]
    exact (hr0.stageOp hu1 hp).setInflight _
  · rw [hres]; exact hr0

theorem RInv.pushBlocking {r : Ring} (h : RInv r) {id : Id} (hf : Fresh r id) : RInv (r.pushBlocking id) := by
  obtain ⟨h0, hu0⟩ := h.alloc hf
  refine ⟨?_, h.nod, h.cqLive⟩
  show KInv (r.keys.alloc id) (cqFinals r.cq ++ r.chan) r.owed (id :: r.pool)
  exact h0.k.poolAdd hu0.1 hu0.2.1 hu0.2.2 ⟨none, by simp⟩

theorem RInv.jobDone {r : Ring} (h : RInv r) (id : Id) (res : Res) (hp : id ∈ r.pool) : RInv (r.jobDone id res) := by
  have hsrc := h.k.poolFresh id hp
  have hpend := h.k.pending_of_fresh hsrc (Or.inr hp)
  refine ⟨?_, h.nod, h.cqLive⟩
  show KInv (r.keys.produce id res) (cqFinals r.cq ++ (r.chan ++ [(id, res)])) r.owed (r.pool.erase id)
  rw [← List.append_assoc]
  refine h.k.produceChan res hsrc ?_ ?_ (h.k.poolNodup.erase id) hpend
  · intro x hx
    refine ⟨hx, ?_⟩
    rintro rfl
    exact (h.k.qFresh x hx).2 hp
  · intro x hx
    exact ⟨List.mem_of_mem_erase hx, fun e => by subst e; exact (h.k.poolNodup.mem_erase_iff.1 hx).1 rfl⟩

theorem RInv.pop {r : Ring} (h : RInv r) (id : Id) : RInv { r with keys := (r.keys.pop id).1 } :=
  ⟨h.k.pop id, h.nod, h.cqLive⟩

theorem RInv.setWaker {r : Ring} (h : RInv r) (id : Id) (w : WakerId) : RInv { r with keys := r.keys.setWaker id w } :=
  ⟨h.k.setWaker id w, h.nod, h.cqLive⟩

theorem RInv.cancel {r : Ring} (h : RInv r) (id : Id) : RInv (r.cancel id) := by
  unfold Ring.cancel
  by_cases hlt : r.sq.length < r.sqCap
  · simp only [hlt, if_true]; exact h.stageOther _ (by intro x; simp)
  · simp only [hlt, if_false]; exact h

/-- the kernel contract for the enters of one `Driver::poll` -/
def PollOk (r : Ring) (script : List Enter) (last : Enter) : Prop :=
  if r.chan.isEmpty then
    (if r.pollBlocking.1.needNotifier then
      ScriptOk r.pollBlocking.1 script ∧
        (∀ r2, (r.pollBlocking.1.pushRaw .notifier script) = (r2, .ok) →
            EnterOk { r2 with needNotifier := false } last)
     else EnterOk r.pollBlocking.1 last)
  else True

theorem RInv.poll {r : Ring} (h : RInv r) (script : List Enter) (last : Enter) (hok : PollOk r script last) :
    RInv (r.poll script last).1 := by
  have hb := h.pollBlocking
  have hbv : r.pollBlocking.2 = !r.chan.isEmpty := by rw [pollBlocking_eq]
  unfold Ring.poll
  unfold PollOk at hok
  cases hpb : r.pollBlocking with
  | mk r1 b =>
    rw [hpb] at hb hbv hok
    simp only at hb hbv hok ⊢
    subst hbv
    cases hc : r.chan.isEmpty with
    | false => simp only [Bool.not_false]; exact hb
    | true =>
      simp only [hc, Bool.not_true, if_true] at hok ⊢
      cases hn : r1.needNotifier with
      | false =>
        simp only [hn, Bool.false_eq_true, if_false] at hok ⊢
        exact (hb.enter last hok).pollEntries
      | true =>
        simp only [hn, if_true] at hok ⊢
        obtain ⟨hs, hlast⟩ := hok
        obtain ⟨r0, hr0, hres, _⟩ := rinv_pushRawAux .notifier script _ hb hs
        unfold Ring.pushRaw at hlast ⊢
        rcases hres with hres | hres
        · rw [hres]
          simp only
          have h2 := (hr0.stageOther .notifier (by intro x; simp)).setNotifier false
          exact (h2.enter last (hlast _ hres)).pollEntries
        · rw [hres]; simp only; exact hr0

/-- what the environment must respect for a step (fresh keys, existing jobs, the kernel contract) -/
def RStepOk (r : Ring) : RStep → Prop
  | .pushOp id script => Fresh r id ∧ ScriptOk { r with keys := r.keys.alloc id } script
  | .pushBlocking id => Fresh r id
  | .jobDone id _ => id ∈ r.pool
  | .poll script last => PollOk r script last
  | .kernel posted => EnterOk r ⟨0, posted⟩
  | _ => True

theorem RInv.step {r : Ring} (h : RInv r) (e : RStep) (hok : RStepOk r e) : RInv (r.step e) := by
  cases e with
  | pushOp id script => exact h.pushOp hok.1 script hok.2
  | pushBlocking id => exact h.pushBlocking hok
  | jobDone id res => exact h.jobDone id res hok
  | poll script last => exact h.poll script last hok
  | kernel posted => exact h.enter _ hok
  | pop id => exact h.pop id
  | setWaker id w => exact h.setWaker id w
  | cancel id => exact h.cancel id

def Ring.run (r : Ring) : List RStep → Ring
  | [] => r
  | e :: rest => (r.step e).run rest

/-- every step of the list respects the environment contract at the state it is taken in -/
def RunOk : Ring → List RStep → Prop
  | _, [] => True
  | r, e :: rest => RStepOk r e ∧ RunOk (r.step e) rest

theorem RInv.run : ∀ (steps : List RStep) (r : Ring), RInv r → RunOk r steps → RInv (r.run steps) := by
  intro steps
  induction steps with
  | nil => intro r h _; exact h
  | cons e rest ih => intro r h hok; exact ih _ (h.step e hok.1) hok.2

theorem RInv.init (cap : Nat) : RInv { sqCap := cap } := by
  refine ⟨?_, by simp [opsOf], by intro c hc; cases hc⟩
  have : Ring.owed ({ sqCap := cap } : Ring) = fun _ => False := by
    funext id; simp [Ring.owed, opsOf]
  show KInv {} ([] ++ []) (Ring.owed { sqCap := cap }) []
  rw [this]; exact KInv.init


/-! ### what the invariant says about results (driver independent) -/

section
variable {ks : Keys} {chan : List (Id × Res)} {queued : Id → Prop} {pool : List Id}

theorem KInv.own_result (h : KInv ks chan queued pool) {id : Id} {r : Res} (hs : ks.slot id = .ready r) :
    ks.src id = [r] ∧ ks.fin id = [r] := by
  have hr := h.slotRel id
  unfold SlotRel at hr
  rw [hs] at hr
  have hl := h.link id
  have hlen := h.srcLen id
  rw [hr.1] at hl
  refine ⟨?_, hr.1⟩
  cases hc : chanRes chan id with
  | nil => rw [hc] at hl; simpa using hl.symm
  | cons a l => rw [hc] at hl; rw [← hl] at hlen; simp at hlen

theorem KInv.exactly_once (h : KInv ks chan queued pool) (id : Id) :
    (ks.fin id).length ≤ 1 ∧ (ks.dlv id).length ≤ 1 ∧ (ks.dlv id = [] ∨ ks.dlv id = ks.fin id) := by
  have hf := h.finLen id
  have hr := h.slotRel id
  unfold SlotRel at hr
  cases hs : ks.slot id with
  | free =>
    rw [hs] at hr
    rcases hr with ⟨_, _, _, d, _⟩ | ⟨_, d⟩
    · exact ⟨hf, by simp [d], Or.inl d⟩
    · exact ⟨hf, by rw [d]; exact hf, Or.inr d⟩
  | pending w => rw [hs] at hr; exact ⟨hf, by simp [hr.2], Or.inl hr.2⟩
  | ready r => rw [hs] at hr; exact ⟨hf, by simp [hr.2], Or.inl hr.2⟩

theorem KInv.finished_is_delivered (h : KInv ks chan queued pool) {id : Id} {r : Res}
    (hq : chanRes chan id = []) (hdone : ks.src id = [r]) : ks.slot id = .ready r ∨ ks.dlv id = [r] := by
  have hl := h.link id
  rw [hq, hdone] at hl
  simp at hl
  have hr := h.slotRel id
  unfold SlotRel at hr
  cases hs : ks.slot id with
  | free =>
    rw [hs] at hr
    rcases hr with ⟨a, _⟩ | ⟨_, d⟩
    · rw [a] at hdone; cases hdone
    · right; rw [d, hl]
  | pending w => rw [hs] at hr; rw [hr.1] at hl; cases hl
  | ready r' => rw [hs] at hr; rw [hr.1] at hl; simp at hl; left; rw [hl]

end


end Compio.Completion
