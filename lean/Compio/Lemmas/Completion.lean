/-
Helper lemmas for C02: the completion-slot bookkeeping (`Keys`) and its invariant `KInv`,
stated abstractly over "who still owes a result" (`queued`, `pool`, the `completed` channel) so that both
driver models use the same lemmas.
-/
import Compio.Model.Completion

namespace Compio.Completion

/-- results waiting in the `completed` channel (resp. completion queue) for `id`, oldest first -/
def chanRes (chan : List (Id × Res)) (id : Id) : List Res := (chan.filter (fun e => e.1 = id)).map (·.2)

@[simp] theorem chanRes_nil (id : Id) : chanRes [] id = [] := rfl

theorem chanRes_cons (e : Id × Res) (chan : List (Id × Res)) (id : Id) :
    chanRes (e :: chan) id = if e.1 = id then e.2 :: chanRes chan id else chanRes chan id := by
  unfold chanRes
  by_cases h : e.1 = id <;> simp [h]

theorem chanRes_append (a b : List (Id × Res)) (id : Id) :
    chanRes (a ++ b) id = chanRes a id ++ chanRes b id := by
  unfold chanRes
  simp [List.filter_append]

theorem chanRes_single (id' : Id) (r : Res) (id : Id) :
    chanRes [(id', r)] id = if id' = id then [r] else [] := by
  rw [chanRes_cons]; simp

/-- the relation between the slot of `id` and the ghost histories -/
def SlotRel (ks : Keys) (queued : Id → Prop) (pool : List Id) (id : Id) : Prop :=
  match ks.slot id with
  | .free => (ks.src id = [] ∧ ¬ queued id ∧ id ∉ pool ∧ ks.dlv id = [] ∧ ks.fin id = [])
             ∨ (ks.fin id ≠ [] ∧ ks.dlv id = ks.fin id)
  | .pending _ => ks.fin id = [] ∧ ks.dlv id = []
  | .ready r => ks.fin id = [r] ∧ ks.dlv id = []

/-- The completion invariant.  `queued id`: the driver still holds `id` in a readiness queue / the kernel
    still owns it; `pool`: blocking jobs running; `chan`: finished results not yet notified. -/
structure KInv (ks : Keys) (chan : List (Id × Res)) (queued : Id → Prop) (pool : List Id) : Prop where
  srcLen : ∀ id, (ks.src id).length ≤ 1
  qFresh : ∀ id, queued id → ks.src id = [] ∧ id ∉ pool
  poolFresh : ∀ id, id ∈ pool → ks.src id = []
  poolNodup : pool.Nodup
  link : ∀ id, ks.fin id ++ chanRes chan id = ks.src id
  slotRel : ∀ id, SlotRel ks queued pool id
  noUaf : ks.uaf = false
  wokenLe : ∀ id, ks.woken id ≤ (ks.fin id).length
  wakeReady : ∀ w ∈ ks.wakeLog, w.final = true → w.readyAtWake = true

theorem KInv.init : KInv {} [] (fun _ => False) [] where
  srcLen := by intro id; simp
  qFresh := by intro id h; exact h.elim
  poolFresh := by intro id h; simp at h
  poolNodup := List.nodup_nil
  link := by intro id; simp
  slotRel := by intro id; simp [SlotRel]
  noUaf := rfl
  wokenLe := by intro id; simp
  wakeReady := by intro w h; simp at h

section
variable {ks : Keys} {chan : List (Id × Res)} {queued : Id → Prop} {pool : List Id}

theorem KInv.finLen (h : KInv ks chan queued pool) (id : Id) : (ks.fin id).length ≤ 1 := by
  have h1 := h.link id
  have h2 := h.srcLen id
  rw [← h1] at h2
  simp at h2; omega

theorem KInv.fin_of_src_nil (h : KInv ks chan queued pool) {id : Id} (hs : ks.src id = []) :
    ks.fin id = [] ∧ chanRes chan id = [] := by
  have h1 := h.link id
  rw [hs] at h1
  simpa using h1

/-- an operation that is still owed a result has a pending slot -/
theorem KInv.pending_of_fresh (h : KInv ks chan queued pool) {id : Id}
    (hs : ks.src id = []) (hq : queued id ∨ id ∈ pool) : ∃ w, ks.slot id = .pending w := by
  have hr := h.slotRel id
  have hf := (h.fin_of_src_nil hs).1
  unfold SlotRel at hr
  cases hsl : ks.slot id with
  | free =>
    rw [hsl] at hr
    rcases hr with ⟨_, hnq, hnp, _, _⟩ | ⟨hne, _⟩
    · rcases hq with hq | hq
      · exact (hnq hq).elim
      · exact (hnp hq).elim
    · exact (hne hf).elim
  | pending w => exact ⟨w, rfl⟩
  | ready r =>
    rw [hsl] at hr
    rw [hf] at hr
    simp at hr

/-- an entry waiting in the channel belongs to an operation whose slot is still pending -/
theorem KInv.pending_of_chan {id : Id} {r : Res} (h : KInv ks ((id, r) :: chan) queued pool) : ∃ w, ks.slot id = .pending w := by
  have h1 := h.link id
  have h2 := h.srcLen id
  rw [chanRes_cons] at h1
  simp at h1
  have hfin : ks.fin id = [] := by
    cases hf : ks.fin id with
    | nil => rfl
    | cons a l => rw [hf] at h1; rw [← h1] at h2; simp at h2
  have hsrc : ks.src id ≠ [] := by rw [← h1, hfin]; simp
  have hr := h.slotRel id
  unfold SlotRel at hr
  cases hsl : ks.slot id with
  | free =>
    rw [hsl] at hr
    rcases hr with ⟨hs, _⟩ | ⟨hne, _⟩
    · exact (hsrc hs).elim
    · exact (hne hfin).elim
  | pending w => exact ⟨w, rfl⟩
  | ready r' => rw [hsl] at hr; rw [hfin] at hr; simp at hr

end

/-! ### how the primitives act on the fields -/

@[simp] theorem alloc_slot (ks : Keys) (id x : Id) :
    (ks.alloc id).slot x = if x = id then .pending none else ks.slot x := by simp [Keys.alloc, upd]
@[simp] theorem alloc_src (ks : Keys) (id : Id) : (ks.alloc id).src = ks.src := rfl
@[simp] theorem alloc_fin (ks : Keys) (id : Id) : (ks.alloc id).fin = ks.fin := rfl
@[simp] theorem alloc_dlv (ks : Keys) (id : Id) : (ks.alloc id).dlv = ks.dlv := rfl
@[simp] theorem alloc_uaf (ks : Keys) (id : Id) : (ks.alloc id).uaf = ks.uaf := rfl
@[simp] theorem alloc_woken (ks : Keys) (id : Id) : (ks.alloc id).woken = ks.woken := rfl
@[simp] theorem alloc_wakeLog (ks : Keys) (id : Id) : (ks.alloc id).wakeLog = ks.wakeLog := rfl

@[simp] theorem produce_slot (ks : Keys) (id : Id) (r : Res) : (ks.produce id r).slot = ks.slot := rfl
@[simp] theorem produce_src (ks : Keys) (id : Id) (r : Res) (x : Id) :
    (ks.produce id r).src x = if x = id then ks.src id ++ [r] else ks.src x := by simp [Keys.produce, upd]
@[simp] theorem produce_fin (ks : Keys) (id : Id) (r : Res) : (ks.produce id r).fin = ks.fin := rfl
@[simp] theorem produce_dlv (ks : Keys) (id : Id) (r : Res) : (ks.produce id r).dlv = ks.dlv := rfl
@[simp] theorem produce_uaf (ks : Keys) (id : Id) (r : Res) : (ks.produce id r).uaf = ks.uaf := rfl
@[simp] theorem produce_woken (ks : Keys) (id : Id) (r : Res) : (ks.produce id r).woken = ks.woken := rfl
@[simp] theorem produce_wakeLog (ks : Keys) (id : Id) (r : Res) : (ks.produce id r).wakeLog = ks.wakeLog := rfl

@[simp] theorem setWaker_src (ks : Keys) (id : Id) (w : WakerId) : (ks.setWaker id w).src = ks.src := rfl
@[simp] theorem setWaker_fin (ks : Keys) (id : Id) (w : WakerId) : (ks.setWaker id w).fin = ks.fin := rfl
@[simp] theorem setWaker_dlv (ks : Keys) (id : Id) (w : WakerId) : (ks.setWaker id w).dlv = ks.dlv := rfl
@[simp] theorem setWaker_uaf (ks : Keys) (id : Id) (w : WakerId) : (ks.setWaker id w).uaf = ks.uaf := rfl
@[simp] theorem setWaker_woken (ks : Keys) (id : Id) (w : WakerId) : (ks.setWaker id w).woken = ks.woken := rfl
@[simp] theorem setWaker_wakeLog (ks : Keys) (id : Id) (w : WakerId) : (ks.setWaker id w).wakeLog = ks.wakeLog := rfl
theorem setWaker_slot (ks : Keys) (id : Id) (w : WakerId) (x : Id) :
    (ks.setWaker id w).slot x = if x = id then (ks.slot id).setWaker w else ks.slot x := by
  simp [Keys.setWaker, upd]

/-- `set_result` on a pending slot: the result is stored, a registered waker is woken once, after the store -/
theorem notify_pending (ks : Keys) (id : Id) (r : Res) (w : Option WakerId) (h : ks.slot id = .pending w) :
    (ks.notify id r).slot = upd ks.slot id (.ready r) ∧
    (ks.notify id r).fin = upd ks.fin id (ks.fin id ++ [r]) ∧
    (ks.notify id r).src = ks.src ∧ (ks.notify id r).dlv = ks.dlv ∧ (ks.notify id r).uaf = ks.uaf ∧
    (ks.notify id r).multi = ks.multi ∧
    (match w with
     | none => (ks.notify id r).woken = ks.woken ∧ (ks.notify id r).wakeLog = ks.wakeLog
     | some wk => (ks.notify id r).woken = upd ks.woken id (ks.woken id + 1) ∧
                  (ks.notify id r).wakeLog = ks.wakeLog ++ [⟨id, wk, true, true⟩]) := by
  cases w with
  | none => simp [Keys.notify, Keys.storeResult, h, Slot.store]
  | some wk => simp [Keys.notify, Keys.storeResult, Keys.wake, h, Slot.store, Slot.isReady]

/-- a completion only touches its own operation: `user_data` is the key -/
theorem notify_frame (ks : Keys) (id : Id) (r : Res) (x : Id) (hx : x ≠ id) :
    (ks.notify id r).slot x = ks.slot x ∧ (ks.notify id r).fin x = ks.fin x ∧
    (ks.notify id r).src x = ks.src x ∧ (ks.notify id r).dlv x = ks.dlv x ∧
    (ks.notify id r).woken x = ks.woken x ∧ (ks.notify id r).multi x = ks.multi x := by
  cases hs : ks.slot id with
  | free => simp [Keys.notify, Keys.storeResult, hs, Slot.store, upd, hx]
  | ready r' => simp [Keys.notify, Keys.storeResult, hs, Slot.store, upd, hx]
  | pending w =>
    cases w with
    | none => simp [Keys.notify, Keys.storeResult, hs, Slot.store, upd, hx]
    | some wk => simp [Keys.notify, Keys.storeResult, Keys.wake, hs, Slot.store, upd, hx]

theorem pop_ready (ks : Keys) (id : Id) (r : Res) (h : ks.slot id = .ready r) :
    ks.pop id = ({ ks with slot := upd ks.slot id .free, dlv := upd ks.dlv id (ks.dlv id ++ [r]) }, some r) := by
  simp [Keys.pop, h]

theorem pop_not_ready (ks : Keys) (id : Id) (h : ∀ r, ks.slot id ≠ .ready r) : ks.pop id = (ks, none) := by
  unfold Keys.pop
  cases hs : ks.slot id with
  | ready r => exact (h r hs).elim
  | free => rfl
  | pending w => rfl

/-! ### preservation of `KInv` by the primitives -/

section
variable {ks : Keys} {chan : List (Id × Res)} {queued : Id → Prop} {pool : List Id}

/-- changing who is queued without touching the histories -/
theorem KInv.requeue {queued' : Id → Prop} (h : KInv ks chan queued pool)
    (hq : ∀ id, queued' id → queued id ∨ (ks.src id = [] ∧ id ∉ pool ∧ ∃ w, ks.slot id = .pending w))
    (hfree : ∀ id, ks.slot id = .free → queued' id → queued id) :
    KInv ks chan queued' pool where
  srcLen := h.srcLen
  qFresh := by
    intro id hid
    rcases hq id hid with h1 | ⟨h1, h2, _⟩
    · exact h.qFresh id h1
    · exact ⟨h1, h2⟩
  poolFresh := h.poolFresh
  poolNodup := h.poolNodup
  link := h.link
  slotRel := by
    intro id
    have hr := h.slotRel id
    unfold SlotRel at hr ⊢
    cases hs : ks.slot id with
    | free =>
      rw [hs] at hr
      rcases hr with ⟨a, b, c, d, e⟩ | hr
      · exact Or.inl ⟨a, fun hq' => b (hfree id hs hq'), c, d, e⟩
      · exact Or.inr hr
    | pending w => rw [hs] at hr; exact hr
    | ready r => rw [hs] at hr; exact hr
  noUaf := h.noUaf
  wokenLe := h.wokenLe
  wakeReady := h.wakeReady

theorem KInv.alloc (h : KInv ks chan queued pool) {id : Id} (hfree : ks.slot id = .free) (hsrc : ks.src id = []) :
    KInv (ks.alloc id) chan queued pool where
  srcLen := by simpa using h.srcLen
  qFresh := by simpa using h.qFresh
  poolFresh := by simpa using h.poolFresh
  poolNodup := h.poolNodup
  link := by simpa using h.link
  slotRel := by
    intro x
    have hr := h.slotRel x
    unfold SlotRel at hr ⊢
    by_cases hx : x = id
    · subst hx
      have := h.fin_of_src_nil hsrc
      rw [hfree] at hr
      rcases hr with ⟨_, _, _, d, e⟩ | ⟨hne, _⟩
      · simp [d, e]
      · exact (hne this.1).elim
    · simpa [hx] using hr
  noUaf := by simpa using h.noUaf
  wokenLe := by simpa using h.wokenLe
  wakeReady := by simpa using h.wakeReady

theorem KInv.poolAdd (h : KInv ks chan queued pool) {id : Id} (hsrc : ks.src id = [])
    (hnq : ¬ queued id) (hnp : id ∉ pool) (hpend : ∃ w, ks.slot id = .pending w) :
    KInv ks chan queued (id :: pool) where
  srcLen := h.srcLen
  qFresh := by
    intro x hx
    have := h.qFresh x hx
    refine ⟨this.1, ?_⟩
    intro hmem
    rcases List.mem_cons.1 hmem with rfl | hm
    · exact hnq hx
    · exact this.2 hm
  poolFresh := by
    intro x hx
    rcases List.mem_cons.1 hx with rfl | hm
    · exact hsrc
    · exact h.poolFresh x hm
  poolNodup := List.nodup_cons.2 ⟨hnp, h.poolNodup⟩
  link := h.link
  slotRel := by
    intro x
    have hr := h.slotRel x
    unfold SlotRel at hr ⊢
    cases hs : ks.slot x with
    | free =>
      rw [hs] at hr
      rcases hr with ⟨a, b, c, d, e⟩ | hr
      · refine Or.inl ⟨a, b, ?_, d, e⟩
        intro hmem
        rcases List.mem_cons.1 hmem with rfl | hm
        · obtain ⟨w, hw⟩ := hpend; rw [hw] at hs; cases hs
        · exact c hm
      · exact Or.inr hr
    | pending w => rw [hs] at hr; exact hr
    | ready r => rw [hs] at hr; exact hr
  noUaf := h.noUaf
  wokenLe := h.wokenLe
  wakeReady := h.wakeReady

/-- a result for `id` is produced and put into the channel (thread-pool job done, ECANCELED entry) -/
theorem KInv.produceChan (h : KInv ks chan queued pool) {id : Id} (r : Res) (hsrc : ks.src id = [])
    {queued' : Id → Prop} {pool' : List Id}
    (hq : ∀ x, queued' x → queued x ∧ x ≠ id) (hp : ∀ x, x ∈ pool' → x ∈ pool ∧ x ≠ id)
    (hpn : pool'.Nodup) (hpend : ∃ w, ks.slot id = .pending w) :
    KInv (ks.produce id r) (chan ++ [(id, r)]) queued' pool' where
  srcLen := by
    intro x
    by_cases hx : x = id
    · subst hx; simp [hsrc]
    · simpa [hx] using h.srcLen x
  qFresh := by
    intro x hx
    obtain ⟨h1, h2⟩ := hq x hx
    have := h.qFresh x h1
    simp [h2]
    exact ⟨this.1, fun hm => this.2 (hp x hm).1⟩
  poolFresh := by
    intro x hx
    obtain ⟨h1, h2⟩ := hp x hx
    simpa [h2] using h.poolFresh x h1
  poolNodup := hpn
  link := by
    intro x
    rw [chanRes_append, chanRes_single]
    by_cases hx : x = id
    · subst hx
      have := h.fin_of_src_nil hsrc
      simp [hsrc, this.1, this.2]
    · have : ¬ id = x := fun e => hx e.symm
      simpa [hx, this] using h.link x
  slotRel := by
    intro x
    have hr := h.slotRel x
    unfold SlotRel at hr ⊢
    by_cases hx : x = id
    · subst hx
      obtain ⟨w, hw⟩ := hpend
      simp only [produce_slot, produce_fin, produce_dlv]
      rw [hw] at hr ⊢
      exact hr
    · simp only [produce_slot, produce_fin, produce_dlv]
      cases hs : ks.slot x with
      | free =>
        rw [hs] at hr
        rcases hr with ⟨a, b, c, d, e⟩ | hr
        · refine Or.inl ⟨by simpa [hx] using a, fun hq' => b (hq x hq').1, fun hm => c (hp x hm).1, d, e⟩
        · exact Or.inr hr
      | pending w => rw [hs] at hr; exact hr
      | ready r => rw [hs] at hr; exact hr
  noUaf := by simpa using h.noUaf
  wokenLe := by simpa using h.wokenLe
  wakeReady := by simpa using h.wakeReady

end

/-- `set_result` for an operation whose result has been produced but not yet notified:
    generic step used by the direct completion and by the channel drain -/
theorem KInv.notifyStep {ks : Keys} {chan chan' : List (Id × Res)} {queued queued' : Id → Prop} {pool : List Id}
    (h : KInv ks chan queued pool) {id : Id} {r : Res}
    (hsrc : ks.src id = [r]) (hfin : ks.fin id = [])
    (hchan : ∀ x, chanRes chan x = (if x = id then [r] else []) ++ chanRes chan' x)
    (hq : ∀ x, queued' x → queued x) (hnq : ¬ queued' id) :
    KInv (ks.notify id r) chan' queued' pool := by
  have hpend : ∃ w, ks.slot id = .pending w := by
    have hr := h.slotRel id
    unfold SlotRel at hr
    cases hsl : ks.slot id with
    | free =>
      rw [hsl] at hr
      rcases hr with ⟨hs, _⟩ | ⟨hne, _⟩
      · rw [hs] at hsrc; cases hsrc
      · exact (hne hfin).elim
    | pending w => exact ⟨w, rfl⟩
    | ready r' => rw [hsl] at hr; rw [hfin] at hr; simp at hr
  obtain ⟨w, hw⟩ := hpend
  obtain ⟨e1, e2, e3, e4, e5, _, e7⟩ := notify_pending ks id r w hw
  have hnp : id ∉ pool := fun hm => by have := h.poolFresh id hm; rw [this] at hsrc; cases hsrc
  refine ⟨?_, ?_, ?_, h.poolNodup, ?_, ?_, ?_, ?_, ?_⟩
  · intro x; rw [e3]; exact h.srcLen x
  · intro x hx; rw [e3]; exact h.qFresh x (hq x hx)
  · intro x hx; rw [e3]; exact h.poolFresh x hx
  · intro x
    rw [e2, e3]
    have hl := h.link x
    rw [hchan x] at hl
    by_cases hx : x = id
    · subst hx
      simp only [upd_same, hfin, List.nil_append]
      simpa [hfin] using hl
    · simpa [upd, hx] using hl
  · intro x
    have hr := h.slotRel x
    unfold SlotRel at hr ⊢
    rw [e1, e2, e4, e3]
    by_cases hx : x = id
    · subst hx
      rw [hw] at hr
      simp [hfin, hr.2]
    · simp only [upd, hx, if_false]
      cases hs : ks.slot x with
      | free =>
        rw [hs] at hr
        rcases hr with ⟨a, b, c, d, e⟩ | hr
        · exact Or.inl ⟨a, fun hq' => b (hq x hq'), c, d, e⟩
        · exact Or.inr hr
      | pending w' => rw [hs] at hr; exact hr
      | ready r' => rw [hs] at hr; exact hr
  · rw [e5]; exact h.noUaf
  · intro x
    rw [e2]
    cases w with
    | none =>
      simp only at e7
      rw [e7.1]
      by_cases hx : x = id
      · subst hx; simp only [upd_same]; have := h.wokenLe x; rw [hfin] at this ⊢; simp at this ⊢; omega
      · simp only [upd, hx, if_false]; exact h.wokenLe x
    | some wk =>
      simp only at e7
      rw [e7.1]
      by_cases hx : x = id
      · subst hx; simp only [upd_same]; have := h.wokenLe x; rw [hfin] at this ⊢; simp at this ⊢; omega
      · simp only [upd, hx, if_false]; exact h.wokenLe x
  · intro rec hrec hfinal
    cases w with
    | none => simp only at e7; rw [e7.2] at hrec; exact h.wakeReady rec hrec hfinal
    | some wk =>
      simp only at e7
      rw [e7.2] at hrec
      rcases List.mem_append.1 hrec with hm | hm
      · exact h.wakeReady rec hm hfinal
      · simp at hm; subst hm; rfl

/-- ghost-only step: the OS produces the result of `id` (no channel involved yet) -/
theorem KInv.produced_src {ks : Keys} (id : Id) (r : Res) (hsrc : ks.src id = []) :
    (ks.produce id r).src id = [r] := by simp [hsrc]

/-- direct completion: the operation leaves the queue, its result is produced and notified at once
    (`Entry::new(key, res).notify()` in `poll_one`) -/
theorem KInv.complete {ks : Keys} {chan : List (Id × Res)} {queued queued' : Id → Prop} {pool : List Id}
    (h : KInv ks chan queued pool) {id : Id} (r : Res)
    (hsrc : ks.src id = []) (hpend : ∃ w, ks.slot id = .pending w) (hnp : id ∉ pool)
    (hq : ∀ x, queued' x → queued x) (hnq : ¬ queued' id) :
    KInv ((ks.produce id r).notify id r) chan queued' pool := by
  have hf := h.fin_of_src_nil hsrc
  -- intermediate invariant: result produced, sitting in a one-element virtual channel in front
  have hmid : KInv (ks.produce id r) ((id, r) :: chan) queued' pool := by
    refine ⟨?_, ?_, ?_, h.poolNodup, ?_, ?_, ?_, ?_, ?_⟩
    · intro x
      by_cases hx : x = id
      · subst hx; simp [hsrc]
      · simpa [hx] using h.srcLen x
    · intro x hx
      have h1 := h.qFresh x (hq x hx)
      have hne : x ≠ id := fun e => hnq (e ▸ hx)
      simpa [hne] using h1
    · intro x hx
      have hne : x ≠ id := fun e => hnp (e ▸ hx)
      simpa [hne] using h.poolFresh x hx
    · intro x
      rw [chanRes_cons]
      by_cases hx : x = id
      · subst hx; simp [hsrc, hf.1, hf.2]
      · have : ¬ id = x := fun e => hx e.symm
        simpa [hx, this] using h.link x
    · intro x
      have hr := h.slotRel x
      unfold SlotRel at hr ⊢
      simp only [produce_slot, produce_fin, produce_dlv]
      by_cases hx : x = id
      · subst hx
        obtain ⟨w, hw⟩ := hpend
        rw [hw] at hr ⊢; exact hr
      · cases hs : ks.slot x with
        | free =>
          rw [hs] at hr
          rcases hr with ⟨a, b, c, d, e⟩ | hr
          · exact Or.inl ⟨by simpa [hx] using a, fun hq' => b (hq x hq'), c, d, e⟩
          · exact Or.inr hr
        | pending w => rw [hs] at hr; exact hr
        | ready r' => rw [hs] at hr; exact hr
    · simpa using h.noUaf
    · simpa using h.wokenLe
    · simpa using h.wakeReady
  refine KInv.notifyStep hmid (by simp [hsrc]) (by simpa using hf.1) ?_ (fun x hx => hx) hnq
  intro x
  rw [chanRes_cons]
  by_cases hx : x = id
  · subst hx; simp
  · have : ¬ id = x := fun e => hx e.symm
    simp [hx, this]

/-- draining one entry of the `completed` channel -/
theorem KInv.notifyHead {ks : Keys} {chan : List (Id × Res)} {queued : Id → Prop} {pool : List Id}
    {id : Id} {r : Res} (h : KInv ks ((id, r) :: chan) queued pool) :
    KInv (ks.notify id r) chan queued pool := by
  have h1 := h.link id
  have h2 := h.srcLen id
  rw [chanRes_cons] at h1
  simp at h1
  have hfin : ks.fin id = [] := by
    cases hf : ks.fin id with
    | nil => rfl
    | cons a l => rw [hf] at h1; rw [← h1] at h2; simp at h2
  have hrest : chanRes chan id = [] := by
    cases hc : chanRes chan id with
    | nil => rfl
    | cons a l => rw [hfin, hc] at h1; rw [← h1] at h2; simp at h2
  have hsrc : ks.src id = [r] := by rw [← h1, hfin, hrest]; rfl
  have hnq : ¬ queued id := fun hq => by have := (h.qFresh id hq).1; rw [this] at hsrc; cases hsrc
  refine KInv.notifyStep h hsrc hfin ?_ (fun x hx => hx) hnq
  intro x
  rw [chanRes_cons]
  by_cases hx : x = id
  · subst hx; simp
  · have : ¬ id = x := fun e => hx e.symm
    simp [hx, this]

theorem KInv.pop {ks : Keys} {chan : List (Id × Res)} {queued : Id → Prop} {pool : List Id}
    (h : KInv ks chan queued pool) (id : Id) : KInv (ks.pop id).1 chan queued pool := by
  cases hs : ks.slot id with
  | free => rw [pop_not_ready ks id (by intro r; rw [hs]; simp)]; exact h
  | pending w => rw [pop_not_ready ks id (by intro r; rw [hs]; simp)]; exact h
  | ready r =>
    rw [pop_ready ks id r hs]
    have hr := h.slotRel id
    unfold SlotRel at hr
    rw [hs] at hr
    refine ⟨h.srcLen, h.qFresh, h.poolFresh, h.poolNodup, h.link, ?_, h.noUaf, h.wokenLe, h.wakeReady⟩
    intro x
    have hrx := h.slotRel x
    unfold SlotRel at hrx ⊢
    by_cases hx : x = id
    · subst hx
      simp [hr.1, hr.2]
    · simpa [upd, hx] using hrx

theorem KInv.setWaker {ks : Keys} {chan : List (Id × Res)} {queued : Id → Prop} {pool : List Id}
    (h : KInv ks chan queued pool) (id : Id) (w : WakerId) : KInv (ks.setWaker id w) chan queued pool := by
  refine ⟨h.srcLen, h.qFresh, h.poolFresh, h.poolNodup, h.link, ?_, h.noUaf, h.wokenLe, h.wakeReady⟩
  intro x
  have hrx := h.slotRel x
  unfold SlotRel at hrx ⊢
  simp only [setWaker_slot, setWaker_fin, setWaker_dlv, setWaker_src]
  by_cases hx : x = id
  · subst hx
    simp only [if_true]
    cases hs : ks.slot x with
    | free => rw [hs] at hrx; simpa [Slot.setWaker] using hrx
    | pending w' => rw [hs] at hrx; simpa [Slot.setWaker] using hrx
    | ready r => rw [hs] at hrx; simpa [Slot.setWaker] using hrx
  · simpa [hx] using hrx

/-- `PushEntry::Ready` at push time: the freshly allocated key gets its result and is consumed at once -/
theorem KInv.immediate {ks : Keys} {chan : List (Id × Res)} {queued : Id → Prop} {pool : List Id}
    (h : KInv ks chan queued pool) {id : Id} (r : Res)
    (hsrc : ks.src id = []) (hpend : ∃ w, ks.slot id = .pending w) (hnp : id ∉ pool) (hnq : ¬ queued id) :
    KInv (ks.immediate id r) chan queued pool := by
  unfold Keys.immediate
  exact KInv.pop (KInv.complete h r hsrc hpend hnp (fun x hx => hx) hnq) id

theorem immediate_slot (ks : Keys) (id : Id) (r : Res) (w : Option WakerId) (h : ks.slot id = .pending w) (x : Id) :
    (ks.immediate id r).slot x = if x = id then .free else ks.slot x := by
  unfold Keys.immediate
  have hp : (ks.produce id r).slot id = .pending w := by simpa using h
  obtain ⟨e1, _⟩ := notify_pending (ks.produce id r) id r w hp
  have hr : ((ks.produce id r).notify id r).slot id = .ready r := by rw [e1]; simp
  rw [pop_ready _ _ _ hr]
  simp only [e1, produce_slot]
  by_cases hx : x = id <;> simp [upd, hx]


/-! ### io_uring: the overflow loop of `push_raw` -/

theorem notify_fin (ks : Keys) (id : Id) (r : Res) : (ks.notify id r).fin = upd ks.fin id (ks.fin id ++ [r]) := by
  unfold Keys.notify Keys.storeResult
  cases h : ((ks.slot id).store r).2 <;> simp [Keys.wake]

theorem notify_fin_mono (ks : Keys) (id : Id) (r : Res) (x : Id) (v : Res) (h : v ∈ ks.fin x) :
    v ∈ (ks.notify id r).fin x := by
  rw [notify_fin]
  by_cases hx : x = id
  · subst hx; simp [h]
  · simp [upd, hx, h]

theorem notify_fin_self (ks : Keys) (id : Id) (r : Res) : r ∈ (ks.notify id r).fin id := by
  rw [notify_fin]; simp

theorem pushMulti_fin (ks : Keys) (id : Id) (r : Res) : (ks.pushMulti id r).fin = ks.fin := by
  unfold Keys.pushMulti
  split <;> simp [Keys.wake]

theorem handleCqe_sq (r : Ring) (c : Cqe) : (r.handleCqe c).sq = r.sq ∧ (r.handleCqe c).sqCap = r.sqCap := by
  unfold Ring.handleCqe
  cases c.ud with
  | cancel => simp
  | notify => by_cases h : c.more <;> simp [h]
  | key id => by_cases h : c.more <;> simp [h]

theorem handleCqe_fin_mono (r : Ring) (c : Cqe) (x : Id) (v : Res) (h : v ∈ r.keys.fin x) :
    v ∈ (r.handleCqe c).keys.fin x := by
  unfold Ring.handleCqe
  cases hc : c.ud with
  | cancel => simpa using h
  | notify => by_cases hm : c.more <;> simpa [hm] using h
  | key id =>
    by_cases hm : c.more
    · simp only [hm, if_true]; rw [pushMulti_fin]; exact h
    · simp only [hm, Bool.false_eq_true, if_false]; exact notify_fin_mono _ _ _ _ _ h

theorem foldl_handleCqe_sq : ∀ (cq : List Cqe) (acc : Ring),
    (cq.foldl Ring.handleCqe acc).sq = acc.sq ∧ (cq.foldl Ring.handleCqe acc).sqCap = acc.sqCap := by
  intro cq
  induction cq with
  | nil => intro acc; exact ⟨rfl, rfl⟩
  | cons c rest ih =>
    intro acc
    simp only [List.foldl_cons]
    have h1 := ih (acc.handleCqe c)
    have h2 := handleCqe_sq acc c
    exact ⟨h1.1.trans h2.1, h1.2.trans h2.2⟩

theorem foldl_handleCqe_fin_mono : ∀ (cq : List Cqe) (acc : Ring) (x : Id) (v : Res),
    v ∈ acc.keys.fin x → v ∈ (cq.foldl Ring.handleCqe acc).keys.fin x := by
  intro cq
  induction cq with
  | nil => intro acc x v h; exact h
  | cons c rest ih =>
    intro acc x v h
    simp only [List.foldl_cons]
    exact ih _ x v (handleCqe_fin_mono acc c x v h)

/-- every final CQE of a key that `poll_entries` drains has been passed to that key's `set_result` -/
theorem foldl_handleCqe_notifies : ∀ (cq : List Cqe) (acc : Ring) (c : Cqe) (id : Id),
    c ∈ cq → c.ud = .key id → c.more = false → c.res ∈ (cq.foldl Ring.handleCqe acc).keys.fin id := by
  intro cq
  induction cq with
  | nil => intro acc c id h; cases h
  | cons c0 rest ih =>
    intro acc c id hm hud hmore
    simp only [List.foldl_cons]
    rcases List.mem_cons.1 hm with rfl | hm
    · apply foldl_handleCqe_fin_mono
      unfold Ring.handleCqe
      simp only [hud, hmore, Bool.false_eq_true, if_false]
      exact notify_fin_self _ _ _
    · exact ih _ c id hm hud hmore

theorem pollEntries_sq (r : Ring) : r.pollEntries.sq = r.sq ∧ r.pollEntries.sqCap = r.sqCap := by
  unfold Ring.pollEntries
  exact foldl_handleCqe_sq r.cq { r with cq := [] }

theorem enter_sq (r : Ring) (e : Enter) : (r.enter e).sq = r.sq.drop e.taken ∧ (r.enter e).sqCap = r.sqCap := by
  simp [Ring.enter]

theorem enter_fin (r : Ring) (e : Enter) : (r.enter e).keys.fin = r.keys.fin := by
  unfold Ring.enter
  simp only
  have : ∀ (l : List Cqe) (ks : Keys),
      (l.foldl (fun ks c => match c.ud with
          | .key id => if c.more then ks else ks.produce id c.res
          | _ => ks) ks).fin = ks.fin := by
    intro l
    induction l with
    | nil => intro ks; rfl
    | cons c rest ih =>
      intro ks
      simp only [List.foldl_cons]
      rw [ih]
      cases c.ud with
      | key id => by_cases hm : c.more <;> simp [hm]
      | cancel => rfl
      | notify => rfl
  exact this _ _

/-- one round of the overflow loop -/
def overflowRound (r : Ring) (en : Enter) : Ring :=
  { (r.enter en).pollEntries with drained := (r.enter en).drained ++ (r.enter en).cq }

theorem pushRawAux_cons (e : Sqe) (en : Enter) (rest : List Enter) (r : Ring) :
    pushRawAux e (en :: rest) r =
      if r.sq.length < r.sqCap then ({ r with sq := r.sq ++ [e] }, .ok)
      else pushRawAux e rest (overflowRound r en) := rfl

theorem overflowRound_sq (r : Ring) (en : Enter) :
    (overflowRound r en).sq = r.sq.drop en.taken ∧ (overflowRound r en).sqCap = r.sqCap := by
  unfold overflowRound
  have h1 := pollEntries_sq (r.enter en)
  have h2 := enter_sq r en
  exact ⟨h1.1.trans h2.1, h1.2.trans h2.2⟩

/-- (e) `push_raw` terminates: as soon as one `io_uring_enter` of the loop takes at least one staged SQE
    the new entry is queued.  (The Rust loop has no bound of its own: if the kernel kept refusing —
    EBUSY/EAGAIN are mapped to `Interrupted` and retried — it would spin; that is the stated assumption.) -/
theorem pushRaw_terminates (e : Sqe) : ∀ (script : List Enter) (r : Ring),
    r.sq.length ≤ r.sqCap → 0 < r.sqCap → (∃ en ∈ script, 1 ≤ en.taken) →
    (pushRawAux e script r).2 = .ok := by
  intro script
  induction script with
  | nil => intro r _ _ h; obtain ⟨en, hm, _⟩ := h; cases hm
  | cons en rest ih =>
    intro r hlen hcap hex
    rw [pushRawAux_cons]
    by_cases hlt : r.sq.length < r.sqCap
    · simp [hlt]
    · simp only [hlt, if_false]
      obtain ⟨hs, hc⟩ := overflowRound_sq r en
      have hlen' : (overflowRound r en).sq.length ≤ (overflowRound r en).sqCap := by
        rw [hs, hc, List.length_drop]; omega
      by_cases ht : 1 ≤ en.taken
      · -- this round made room
        have hroom : (overflowRound r en).sq.length < (overflowRound r en).sqCap := by
          rw [hs, hc, List.length_drop]; omega
        cases rest with
        | nil => simp [pushRawAux, hroom]
        | cons en2 rest2 => rw [pushRawAux_cons]; simp [hroom]
      · obtain ⟨en', hm, ht'⟩ := hex
        rcases List.mem_cons.1 hm with rfl | hm
        · exact (ht ht').elim
        · exact ih _ hlen' (by rw [hc]; exact hcap) ⟨en', hm, ht'⟩

/-- (e) the new SQE is not lost, and the entries staged before it are only ever consumed from the front
    (by the kernel): the staged queue afterwards is a suffix of the old one followed by the new entry -/
theorem pushRaw_keeps_sqe (e : Sqe) : ∀ (script : List Enter) (r r' : Ring),
    pushRawAux e script r = (r', .ok) → ∃ k, r'.sq = r.sq.drop k ++ [e] := by
  intro script
  induction script with
  | nil =>
    intro r r' h
    unfold pushRawAux at h
    by_cases hlt : r.sq.length < r.sqCap
    · simp only [hlt, if_true, Prod.mk.injEq, and_true] at h; subst h; exact ⟨0, by simp⟩
    · simp [hlt] at h
  | cons en rest ih =>
    intro r r' h
    rw [pushRawAux_cons] at h
    by_cases hlt : r.sq.length < r.sqCap
    · simp only [hlt, if_true, Prod.mk.injEq, and_true] at h; subst h; exact ⟨0, by simp⟩
    · simp only [hlt, if_false] at h
      obtain ⟨k, hk⟩ := ih _ _ h
      rw [(overflowRound_sq r en).1, List.drop_drop] at hk
      exact ⟨_, hk⟩

theorem overflowRound_fin_mono (r : Ring) (en : Enter) (x : Id) (v : Res) (h : v ∈ r.keys.fin x) :
    v ∈ (overflowRound r en).keys.fin x := by
  unfold overflowRound Ring.pollEntries
  simp only
  apply foldl_handleCqe_fin_mono
  simp only
  rw [enter_fin]; exact h

theorem pushRawAux_fin_mono (e : Sqe) : ∀ (script : List Enter) (r : Ring) (x : Id) (v : Res),
    v ∈ r.keys.fin x → v ∈ (pushRawAux e script r).1.keys.fin x := by
  intro script
  induction script with
  | nil =>
    intro r x v h
    unfold pushRawAux
    by_cases hlt : r.sq.length < r.sqCap <;> simp [hlt, h]
  | cons en rest ih =>
    intro r x v h
    rw [pushRawAux_cons]
    by_cases hlt : r.sq.length < r.sqCap
    · simp [hlt, h]
    · simp only [hlt, if_false]
      exact ih _ x v (overflowRound_fin_mono r en x v h)

/-- (e) no completion drained inside the loop is lost: every final CQE the loop took off the completion
    queue has been handed to `set_result` of the operation named by its `user_data` -/
theorem pushRaw_drained_notified (e : Sqe) : ∀ (script : List Enter) (r : Ring),
    ∃ D, (pushRawAux e script r).1.drained = r.drained ++ D ∧
      ∀ c ∈ D, ∀ id, c.ud = .key id → c.more = false → c.res ∈ (pushRawAux e script r).1.keys.fin id := by
  intro script
  induction script with
  | nil =>
    intro r
    refine ⟨[], ?_, by intro c hc; cases hc⟩
    unfold pushRawAux
    by_cases hlt : r.sq.length < r.sqCap <;> simp [hlt]
  | cons en rest ih =>
    intro r
    rw [pushRawAux_cons]
    by_cases hlt : r.sq.length < r.sqCap
    · exact ⟨[], by simp [hlt], by intro c hc; cases hc⟩
    · simp only [hlt, if_false]
      obtain ⟨D, hD, hDn⟩ := ih (overflowRound r en)
      have hdr : (overflowRound r en).drained = r.drained ++ (r.enter en).cq := by
        simp [overflowRound, Ring.enter]
      refine ⟨(r.enter en).cq ++ D, by rw [hD, hdr, List.append_assoc], ?_⟩
      intro c hc id hud hmore
      rcases List.mem_append.1 hc with hc | hc
      · apply pushRawAux_fin_mono
        unfold overflowRound Ring.pollEntries
        simp only
        exact foldl_handleCqe_notifies _ _ c id hc hud hmore
      · exact hDn c hc id hud hmore


end Compio.Completion
