/-
Helper lemmas for Model/PollAdapter.lean: the FIFO invariants of the two halves are kept by
every entry point, frame lemmas, the flush postcondition, and the waker-set invariants.
-/
import Compio.Lemmas.SyncStream
import Compio.Model.PollAdapter

set_option linter.unusedSimpArgs false

namespace Compio.PollAdapter
open Compio.SyncStream

/-! ### read half: FIFO invariant -/

/-- invariant of the read half: the `SyncReadBuf` invariant, and an in-flight `fill_read_buf`
future owns the buffer and has not seen EOF -/
structure ARInv (C : Bytes) (a : ARead) : Prop where
  inv : RInv C a.r
  fut_ok : a.fut = true → a.r.eof = false ∧ a.r.buf.lent = true

theorem ARInv.new (base max : Nat) (rs : List RItem) : ARInv (content rs) (ARead.new base max rs) :=
  ⟨RInv.new base max rs, by simp [ARead.new]⟩

theorem ARInv.pollImpl {C a} (h : ARInv C a) : ARInv C a.pollImpl.1 := by
  unfold ARead.pollImpl
  simp only
  by_cases hf : a.fut = true
  · simp only [hf, if_true]
    obtain ⟨he, hl⟩ := h.fut_ok hf
    have hp := h.inv.fillPoll a.slots.tasks he hl
    rcases hq : a.r.fillPoll a.slots.tasks with ⟨r', o⟩
    rw [hq] at hp
    cases o with
    | none =>
      have := RSide.fillPoll_pending hq
      exact ⟨hp, fun _ => ⟨by rw [this.1]; exact he, by rw [this.2]; exact hl⟩⟩
    | some res => exact ⟨hp, by simp⟩
  · simp only [hf, if_false, Bool.false_eq_true]
    have hf' : a.fut = false := by simpa using hf
    have hs := h.inv.fillStart
    rcases hq : a.r.fillStart with ⟨r', o⟩
    rw [hq] at hs
    cases o with
    | some res => exact ⟨hs, by simp [hf']⟩
    | none =>
      simp only
      obtain ⟨he, hl⟩ := RSide.fillStart_started hq
      have hp := hs.fillPoll a.slots.tasks he hl
      rcases hq2 : r'.fillPoll a.slots.tasks with ⟨r'', o2⟩
      rw [hq2] at hp
      cases o2 with
      | none =>
        have := RSide.fillPoll_pending hq2
        exact ⟨hp, fun _ => ⟨by rw [this.1]; exact he, by rw [this.2]; exact hl⟩⟩
      | some res => exact ⟨hp, by simp [hf']⟩

/-- the synchronous calls the read entry points wrap: keep the invariant, and do nothing (return
`WouldBlock`) while the buffer is lent -/
structure SyncCall (C : Bytes) (f : RSide → RSide × Res Bytes) : Prop where
  inv : ∀ r, RInv C r → RInv C (f r).1
  lent : ∀ r, r.buf.lent = true → f r = (r, .err .wb)
  fields : ∀ r, (f r).1.base = r.base ∧ (f r).1.max = r.max

theorem SyncCall.read (C : Bytes) (n : Nat) : SyncCall C (fun r => r.read n) where
  inv r h := h.read n
  lent r hl := by simp [RSide.read, RSide.fillBuf, hl]
  fields r := (RSide.read_frame r n).2

theorem SyncCall.fillBuf (C : Bytes) : SyncCall C (fun r => (r, r.fillBuf)) where
  inv r h := h
  lent r hl := by simp [RSide.fillBuf, hl]
  fields r := ⟨rfl, rfl⟩

theorem ARInv.pollLoop {C} {f : RSide → RSide × Res Bytes} (hf : SyncCall C f) (e : Entry) :
    ∀ (fuel : Nat) {a : ARead}, ARInv C a → ARInv C (a.pollLoop e f fuel).1
  | 0, a, h => by simpa [ARead.pollLoop] using h
  | fuel + 1, a, h => by
    unfold ARead.pollLoop
    have hinv := hf.inv a.r h.inv
    have hlent := hf.lent a.r
    rcases hq : f a.r with ⟨r', res⟩
    rw [hq] at hinv
    -- the invariant of the state after the synchronous call
    have ha : ARInv C { a with r := r' } := by
      refine ⟨hinv, ?_⟩
      intro hfut
      obtain ⟨he, hl⟩ := h.fut_ok hfut
      have := hlent hl
      rw [hq] at this
      simp only [Prod.mk.injEq] at this
      rw [this.1]; exact ⟨he, hl⟩
    cases res with
    | ok b => exact ⟨ha.inv, ha.fut_ok⟩
    | panic => exact ha
    | err k =>
      cases k with
      | wb =>
        simp only
        have hp := ha.pollImpl
        rcases hq2 : ({ a with r := r' } : ARead).pollImpl with ⟨a', o⟩
        rw [hq2] at hp
        cases o with
        | none => exact hp
        | some res2 =>
          cases res2 with
          | ok _ => exact ARInv.pollLoop hf e fuel hp
          | err _ => exact hp
          | panic => exact hp
      | oom => exact ⟨ha.inv, ha.fut_ok⟩
      | wz => exact ⟨ha.inv, ha.fut_ok⟩
      | other => exact ⟨ha.inv, ha.fut_ok⟩

theorem ARInv.poll {C a} {f : RSide → RSide × Res Bytes} (h : ARInv C a) (hf : SyncCall C f) (e : Entry) (t : Nat) :
    ARInv C (a.poll e t f).1 := by
  unfold ARead.poll
  exact ARInv.pollLoop hf e _ ⟨h.inv, h.fut_ok⟩

theorem ARInv.call {C a} {f : RSide → RSide × Res Bytes} (h : ARInv C a) (hf : SyncCall C f) (e : Entry) (t : Nat) :
    ARInv C (a.call e t f).1 := by
  unfold ARead.call
  simp only
  have h0 : ARInv C { a with r := a.r.clearObs } := ⟨h.inv.clearObs, by simpa [RSide.clearObs] using h.fut_ok⟩
  have := h0.poll hf e t
  exact ⟨this.inv, this.fut_ok⟩


/-! ### read half: frame lemmas -/

theorem ARead.pollImpl_frame (a : ARead) :
    a.pollImpl.1.r.taken = a.r.taken ∧ a.pollImpl.1.r.base = a.r.base ∧ a.pollImpl.1.r.max = a.r.max := by
  unfold ARead.pollImpl
  simp only
  split
  · have hp := RSide.fillPoll_frame a.r a.slots.tasks
    rcases hq : a.r.fillPoll a.slots.tasks with ⟨r', o⟩
    rw [hq] at hp
    cases o <;> simpa using hp
  · have hs := RSide.fillStart_frame a.r
    rcases hq : a.r.fillStart with ⟨r', o⟩
    rw [hq] at hs
    cases o with
    | some res => simpa using hs
    | none =>
      simp only at hs ⊢
      have hp := RSide.fillPoll_frame r' a.slots.tasks
      rcases hq2 : r'.fillPoll a.slots.tasks with ⟨r'', o2⟩
      rw [hq2] at hp
      cases o2 <;> (simp only at hp ⊢; rw [hp.1, hp.2.1, hp.2.2]; exact hs)

/-- the bytes an output of a read entry point hands over, given how the wrapped call reports them -/
def outBytes (g : Res Bytes → Bytes) : Out → Bytes
  | .bytes b => g (.ok b)
  | _ => []

theorem ARead.pollLoop_frame {f : RSide → RSide × Res Bytes} (g : Res Bytes → Bytes)
    (hg : ∀ k, g (.err k) = []) (hgp : g .panic = [])
    (hf : ∀ r, (f r).1.taken = r.taken ++ g (f r).2 ∧ (f r).1.base = r.base ∧ (f r).1.max = r.max) (e : Entry) :
    ∀ (fuel : Nat) (a : ARead),
      (a.pollLoop e f fuel).1.r.taken = a.r.taken ++ outBytes g (a.pollLoop e f fuel).2 ∧
      (a.pollLoop e f fuel).1.r.base = a.r.base ∧ (a.pollLoop e f fuel).1.r.max = a.r.max
  | 0, a => by simp [ARead.pollLoop, outBytes]
  | fuel + 1, a => by
    unfold ARead.pollLoop
    have h1 := hf a.r
    rcases hq : f a.r with ⟨r', res⟩
    rw [hq] at h1
    simp only at h1
    cases res with
    | ok b => simpa [outBytes] using h1
    | panic => simpa [outBytes, hgp] using h1
    | err k =>
      rw [hg] at h1
      simp only [List.append_nil] at h1
      cases k with
      | wb =>
        simp only
        have hp := ARead.pollImpl_frame { a with r := r' }
        rcases hq2 : ({ a with r := r' } : ARead).pollImpl with ⟨a', o⟩
        rw [hq2] at hp
        simp only at hp
        cases o with
        | none => simp only [outBytes, List.append_nil]; rw [hp.1, hp.2.1, hp.2.2]; exact h1
        | some res2 =>
          cases res2 with
          | ok _ =>
            have ih := ARead.pollLoop_frame g hg hgp hf e fuel a'
            simp only
            rw [ih.1, ih.2.1, ih.2.2, hp.1, hp.2.1, hp.2.2, h1.1, h1.2.1, h1.2.2]
            exact ⟨rfl, rfl, rfl⟩
          | err _ => simp only [outBytes, List.append_nil]; rw [hp.1, hp.2.1, hp.2.2]; exact h1
          | panic => simp only [outBytes, List.append_nil]; rw [hp.1, hp.2.1, hp.2.2]; exact h1
      | oom => simpa [outBytes] using h1
      | wz => simpa [outBytes] using h1
      | other => simpa [outBytes] using h1

theorem ARead.call_frame {f : RSide → RSide × Res Bytes} (g : Res Bytes → Bytes)
    (hg : ∀ k, g (.err k) = []) (hgp : g .panic = [])
    (hf : ∀ r, (f r).1.taken = r.taken ++ g (f r).2 ∧ (f r).1.base = r.base ∧ (f r).1.max = r.max)
    (a : ARead) (e : Entry) (t : Nat) :
    (a.call e t f).1.r.taken = a.r.taken ++ outBytes g (a.call e t f).2 ∧
    (a.call e t f).1.r.base = a.r.base ∧ (a.call e t f).1.r.max = a.r.max := by
  unfold ARead.call ARead.poll
  simp only
  have := ARead.pollLoop_frame g hg hgp hf e (loopFuel + a.r.clearObs.script.length)
    { a with r := a.r.clearObs, slots := a.slots.set e (some t) }
  simpa [RSide.clearObs] using this


/-! ### write half: FIFO invariant and frame -/

/-- `a'` is reached from `a` by internal steps that accept nothing from the caller -/
structure WOK (a a' : AWrite) : Prop where
  inv : WInv a.w → WInv a'.w
  acc : a'.w.accepted = a.w.accepted
  max : a'.w.max = a.w.max
  base : a'.w.base = a.w.base

theorem WOK.refl (a : AWrite) : WOK a a := ⟨id, rfl, rfl, rfl⟩

theorem WOK.trans {a b c : AWrite} (h1 : WOK a b) (h2 : WOK b c) : WOK a c :=
  ⟨fun h => h2.inv (h1.inv h), h2.acc.trans h1.acc, h2.max.trans h1.max, h2.base.trans h1.base⟩

/-- changing only the bookkeeping around the `SyncStreamWriteHalf` -/
theorem WOK.of_w_eq {a a' : AWrite} (h : a'.w = a.w) : WOK a a' := by
  refine ⟨?_, ?_, ?_, ?_⟩ <;> simp [h]

theorem AWrite.pollFlushImpl_ok (a : AWrite) : WOK a a.pollFlushImpl.1 := by
  unfold AWrite.pollFlushImpl
  have h1 := fun h : WInv a.w => (h.flushResume a.slots.tasks a.wfut).1
  have h2 := WSide.flushResume_frame a.w a.slots.tasks a.wfut
  rcases hq : a.w.flushResume a.slots.tasks a.wfut with ⟨w', fut', res⟩
  rw [hq] at h1 h2
  exact ⟨h1, h2.1, h2.2.1, h2.2.2⟩

theorem AWrite.pollCloseImpl_ok (a : AWrite) : WOK a a.pollCloseImpl.1 := by
  unfold AWrite.pollCloseImpl
  split
  · exact WOK.refl a
  · have h1 := fun h : WInv a.w => h.shutdownPoll a.slots.tasks
    have h2 := WSide.shutdownPoll_same a.w a.slots.tasks
    rcases hq : a.w.shutdownPoll a.slots.tasks with ⟨w', res⟩
    rw [hq] at h1 h2
    cases res with
    | none => exact ⟨h1, h2.2.2.1, h2.2.2.2.1, h2.2.2.2.2⟩
    | some r => cases r <;> exact ⟨h1, h2.2.2.1, h2.2.2.2.1, h2.2.2.2.2⟩

theorem AWrite.shutdownGate_ok (a : AWrite) : WOK a a.shutdownGate.1 := by
  unfold AWrite.shutdownGate
  split
  · split
    · exact WOK.refl a
    · have := AWrite.pollCloseImpl_ok a
      rcases hq : a.pollCloseImpl with ⟨a', o⟩
      rw [hq] at this
      cases o with
      | none => exact this
      | some r => cases r <;> exact this
  · exact WOK.refl a

theorem AWrite.closeTail_ok (a : AWrite) : WOK a a.closeTail.1 := by
  unfold AWrite.closeTail
  have := AWrite.pollCloseImpl_ok a
  rcases hq : a.pollCloseImpl with ⟨a', o⟩
  rw [hq] at this
  cases o with
  | none => exact this
  | some r => cases r <;> exact this.trans (WOK.of_w_eq rfl)

theorem AWrite.pollFlush_ok (a : AWrite) (t : Nat) : WOK a (a.pollFlush t).1 := by
  unfold AWrite.pollFlush
  simp only
  have h0 : WOK a { a with slots := a.slots.set .b (some t) } := WOK.of_w_eq rfl
  have h1 := AWrite.shutdownGate_ok { a with slots := a.slots.set .b (some t) }
  rcases hq : ({ a with slots := a.slots.set .b (some t) } : AWrite).shutdownGate with ⟨a', o⟩
  rw [hq] at h1
  cases o with
  | some o => exact h0.trans h1
  | none =>
    simp only
    have h2 := AWrite.pollFlushImpl_ok a'
    rcases hq2 : a'.pollFlushImpl with ⟨a'', o2⟩
    rw [hq2] at h2
    cases o2 with
    | none => exact (h0.trans h1).trans h2
    | some r => cases r <;> exact ((h0.trans h1).trans h2).trans (WOK.of_w_eq rfl)

theorem AWrite.pollClose_ok (a : AWrite) (t : Nat) : WOK a (a.pollClose t).1 := by
  unfold AWrite.pollClose AWrite.closeBody
  simp only
  have h0 : WOK a { a with slots := a.slots.set .c (some t) } := WOK.of_w_eq rfl
  split
  · exact h0
  · exact h0.trans (AWrite.closeTail_ok _)
  · split
    · exact h0
    · have h2 := AWrite.pollFlushImpl_ok { a with slots := a.slots.set .c (some t) }
      rcases hq2 : ({ a with slots := a.slots.set .c (some t) } : AWrite).pollFlushImpl with ⟨a'', o2⟩
      rw [hq2] at h2
      cases o2 with
      | none => exact h0.trans h2
      | some r =>
        cases r with
        | ok _ => exact (h0.trans h2).trans (AWrite.closeTail_ok _)
        | err _ => exact h0.trans h2
        | panic => exact h0.trans h2

/-- the bytes a `poll_write` output reports as accepted -/
def outAccepted (src : Bytes) : Out → Bytes
  | .num n => src.take n
  | _ => []

theorem AWrite.writeLoop_ok (src : Bytes) : ∀ (fuel : Nat) (a : AWrite),
    (WInv a.w → WInv (a.writeLoop src fuel).1.w) ∧
    (a.writeLoop src fuel).1.w.accepted = a.w.accepted ++ outAccepted src (a.writeLoop src fuel).2 ∧
    (a.writeLoop src fuel).1.w.max = a.w.max ∧ (a.writeLoop src fuel).1.w.base = a.w.base
  | 0, a => by simp [AWrite.writeLoop, outAccepted]
  | fuel + 1, a => by
    unfold AWrite.writeLoop
    have h1 := fun h : WInv a.w => h.write src
    have h2 := WSide.write_accepted a.w src
    have h3 := WSide.write_frame a.w src
    rcases hq : a.w.write src with ⟨w', res⟩
    rw [hq] at h1 h2 h3
    simp only at h1 h2 h3
    cases res with
    | ok n => exact ⟨h1, by simpa [outAccepted] using h2, h3.1, h3.2.1⟩
    | panic => exact ⟨h1, by simpa [outAccepted] using h2, h3.1, h3.2.1⟩
    | err k =>
      simp only [List.append_nil] at h2
      cases k with
      | wb =>
        simp only
        have hp := AWrite.pollFlushImpl_ok { a with w := w' }
        rcases hq2 : ({ a with w := w' } : AWrite).pollFlushImpl with ⟨a', o⟩
        rw [hq2] at hp
        have hinv : WInv a.w → WInv a'.w := fun h => hp.inv (h1 h)
        have hacc : a'.w.accepted = a.w.accepted := hp.acc.trans h2
        have hmax : a'.w.max = a.w.max := hp.max.trans h3.1
        have hbase : a'.w.base = a.w.base := hp.base.trans h3.2.1
        cases o with
        | none => exact ⟨hinv, by simpa [outAccepted] using hacc, hmax, hbase⟩
        | some r =>
          cases r with
          | ok _ =>
            have ih := AWrite.writeLoop_ok src fuel a'
            simp only
            refine ⟨fun h => ih.1 (hinv h), ?_, ?_, ?_⟩
            · rw [ih.2.1, hacc]
            · rw [ih.2.2.1, hmax]
            · rw [ih.2.2.2, hbase]
          | err _ => exact ⟨hinv, by simpa [outAccepted] using hacc, hmax, hbase⟩
          | panic => exact ⟨hinv, by simpa [outAccepted] using hacc, hmax, hbase⟩
      | oom => exact ⟨h1, by simpa [outAccepted] using h2, h3.1, h3.2.1⟩
      | wz => exact ⟨h1, by simpa [outAccepted] using h2, h3.1, h3.2.1⟩
      | other => exact ⟨h1, by simpa [outAccepted] using h2, h3.1, h3.2.1⟩

theorem AWrite.pollWrite_ok (a : AWrite) (t : Nat) (src : Bytes) :
    (WInv a.w → WInv (a.pollWrite t src).1.w) ∧
    (a.pollWrite t src).1.w.accepted = a.w.accepted ++ outAccepted src (a.pollWrite t src).2 ∧
    (a.pollWrite t src).1.w.max = a.w.max ∧ (a.pollWrite t src).1.w.base = a.w.base := by
  unfold AWrite.pollWrite
  simp only
  have h1 := AWrite.shutdownGate_ok { a with slots := a.slots.set .a (some t) }
  rcases hq : ({ a with slots := a.slots.set .a (some t) } : AWrite).shutdownGate with ⟨a', o⟩
  rw [hq] at h1
  cases o with
  | some o =>
    simp only
    refine ⟨h1.inv, ?_, h1.max, h1.base⟩
    have hne : outAccepted src o = [] := by
      unfold AWrite.shutdownGate at hq
      split at hq
      · split at hq
        · simp only [Prod.mk.injEq, Option.some.injEq] at hq; rw [← hq.2]; rfl
        · rcases hq3 : ({ a with slots := a.slots.set .a (some t) } : AWrite).pollCloseImpl with ⟨a3, o3⟩
          rw [hq3] at hq
          cases o3 with
          | none => simp only [Prod.mk.injEq, Option.some.injEq] at hq; rw [← hq.2]; rfl
          | some r =>
            cases r <;> simp only [Prod.mk.injEq, Option.some.injEq, reduceCtorEq, and_false] at hq <;>
              (rw [← hq.2]; rfl)
      · simp at hq
    rw [hne, List.append_nil]
    exact h1.acc
  | none =>
    simp only
    have h2 := AWrite.writeLoop_ok src (loopFuel + a'.w.script.length) a'
    refine ⟨fun h => h2.1 (h1.inv h), ?_, ?_, ?_⟩
    · rw [h2.2.1, h1.acc]
    · rw [h2.2.2.1, h1.max]
    · rw [h2.2.2.2, h1.base]


/-! ### the adapter as a whole -/

def AInv (C : Bytes) (s : State) : Prop := ARInv C s.ar ∧ WInv s.aw.w

theorem AInv.new (base max : Nat) (rs : List RItem) (ws : List WItem) :
    AInv (content rs) (State.new base max rs ws) :=
  ⟨ARInv.new base max rs, WInv.new base max ws⟩

theorem AWrite.call_w (a : AWrite) (e : Entry) (t : Nat) (g : AWrite → AWrite × Out) :
    (a.call e t g).1.w = (g { a with w := a.w.clearObs }).1.w ∧ (a.call e t g).2 = (g { a with w := a.w.clearObs }).2 := by
  simp [AWrite.call]

theorem AInv.step {C s} (h : AInv C s) (op : Op) : AInv C (step s op).1 := by
  obtain ⟨hr, hw⟩ := h
  have hw0 : WInv ({ s.aw with w := s.aw.w.clearObs } : AWrite).w := hw.clearObs
  cases op with
  | pr t n => exact ⟨hr.call (SyncCall.read C n) .a t, hw⟩
  | pru t n => exact ⟨hr.call (SyncCall.read C n) .b t, hw⟩
  | pfb t => exact ⟨hr.call (SyncCall.fillBuf C) .c t, hw⟩
  | co n =>
    refine ⟨⟨?_, ?_⟩, hw⟩
    · simp only [PollAdapter.step]
      exact hr.inv.clearObs.consume n
    · simp only [PollAdapter.step]
      intro hf
      obtain ⟨he, hl⟩ := hr.fut_ok hf
      rw [RSide.consume_lent n (by simpa [RSide.clearObs] using hl)]
      simpa [RSide.clearObs] using ⟨he, hl⟩
  | pw t bs =>
    refine ⟨hr, ?_⟩
    simp only [PollAdapter.step]
    rw [(AWrite.call_w _ _ _ _).1]
    exact (AWrite.pollWrite_ok _ t bs).1 hw0
  | pfl t =>
    refine ⟨hr, ?_⟩
    simp only [PollAdapter.step]
    rw [(AWrite.call_w _ _ _ _).1]
    exact (AWrite.pollFlush_ok _ t).inv hw0
  | pcl t =>
    refine ⟨hr, ?_⟩
    simp only [PollAdapter.step]
    rw [(AWrite.call_w _ _ _ _).1]
    exact (AWrite.pollClose_ok _ t).inv hw0

theorem step_frame (s : State) (op : Op) :
    (step s op).1.ar.r.taken = s.ar.r.taken ++ Out.taken op (step s op).2 ∧
    (step s op).1.aw.w.accepted = s.aw.w.accepted ++ Out.acceptedOf op (step s op).2 ∧
    (step s op).1.ar.r.base = s.ar.r.base ∧ (step s op).1.ar.r.max = s.ar.r.max ∧
    (step s op).1.aw.w.base = s.aw.w.base ∧ (step s op).1.aw.w.max = s.aw.w.max := by
  cases op with
  | pr t n =>
    have := ARead.call_frame resBytes (by simp [resBytes]) (by simp [resBytes])
      (fun r => RSide.read_frame r n) s.ar .a t
    simp only [PollAdapter.step, Out.acceptedOf, List.append_nil]
    refine ⟨?_, trivial, this.2.1, this.2.2, trivial, trivial⟩
    rw [this.1]
    cases (s.ar.call .a t fun r => r.read n).2 <;> simp [outBytes, Out.taken, resBytes]
  | pru t n =>
    have := ARead.call_frame resBytes (by simp [resBytes]) (by simp [resBytes])
      (fun r => RSide.read_frame r n) s.ar .b t
    simp only [PollAdapter.step, Out.acceptedOf, List.append_nil]
    refine ⟨?_, trivial, this.2.1, this.2.2, trivial, trivial⟩
    rw [this.1]
    cases (s.ar.call .b t fun r => r.read n).2 <;> simp [outBytes, Out.taken, resBytes]
  | pfb t =>
    have := ARead.call_frame (fun _ => []) (by simp) (by simp)
      (f := fun r => (r, r.fillBuf)) (fun r => by simp) s.ar .c t
    simp only [PollAdapter.step, Out.acceptedOf, List.append_nil]
    refine ⟨?_, trivial, this.2.1, this.2.2, trivial, trivial⟩
    rw [this.1]
    cases (s.ar.call .c t fun r => (r, r.fillBuf)).2 <;> simp [outBytes, Out.taken]
  | co n =>
    have := RSide.consume_frame s.ar.r.clearObs n
    simp only [PollAdapter.step, Out.acceptedOf, List.append_nil]
    rcases hq : s.ar.r.clearObs.consume n with ⟨r', res⟩
    rw [hq] at this
    cases res <;> simp_all [RSide.clearObs, Out.taken, Out.ofBytes, resBytes]
  | pw t bs =>
    have := AWrite.pollWrite_ok { s.aw with w := s.aw.w.clearObs } t bs
    simp only [PollAdapter.step, Out.taken, List.append_nil]
    rw [(AWrite.call_w _ _ _ _).1, (AWrite.call_w _ _ _ _).2]
    refine ⟨trivial, ?_, trivial, trivial, this.2.2.2, this.2.2.1⟩
    rw [this.2.1]
    cases ({ s.aw with w := s.aw.w.clearObs } : AWrite).pollWrite t bs |>.2 <;>
      simp [outAccepted, Out.acceptedOf, WSide.clearObs]
  | pfl t =>
    have := AWrite.pollFlush_ok { s.aw with w := s.aw.w.clearObs } t
    simp only [PollAdapter.step, Out.taken, Out.acceptedOf, List.append_nil]
    rw [(AWrite.call_w _ _ _ _).1]
    exact ⟨trivial, this.acc, trivial, trivial, this.base, this.max⟩
  | pcl t =>
    have := AWrite.pollClose_ok { s.aw with w := s.aw.w.clearObs } t
    simp only [PollAdapter.step, Out.taken, Out.acceptedOf, List.append_nil]
    rw [(AWrite.call_w _ _ _ _).1]
    exact ⟨trivial, this.acc, trivial, trivial, this.base, this.max⟩

def takenOf : List Op → List Out → Bytes
  | op :: ops, o :: os => Out.taken op o ++ takenOf ops os
  | _, _ => []

def acceptedOf : List Op → List Out → Bytes
  | op :: ops, o :: os => Out.acceptedOf op o ++ acceptedOf ops os
  | _, _ => []

theorem AInv.run {C} : ∀ (ops : List Op) {s : State}, AInv C s → AInv C (run s ops).1
  | [], s, h => by simpa [PollAdapter.run] using h
  | op :: ops, s, h => by
    simp only [PollAdapter.run]
    exact AInv.run ops (h.step op)

theorem run_frame : ∀ (ops : List Op) (s : State),
    (run s ops).1.ar.r.taken = s.ar.r.taken ++ takenOf ops (run s ops).2 ∧
    (run s ops).1.aw.w.accepted = s.aw.w.accepted ++ acceptedOf ops (run s ops).2 ∧
    (run s ops).1.ar.r.base = s.ar.r.base ∧ (run s ops).1.ar.r.max = s.ar.r.max ∧
    (run s ops).1.aw.w.base = s.aw.w.base ∧ (run s ops).1.aw.w.max = s.aw.w.max
  | [], s => by simp [PollAdapter.run, takenOf, acceptedOf]
  | op :: ops, s => by
    simp only [PollAdapter.run, takenOf, acceptedOf]
    have h1 := step_frame s op
    have h2 := run_frame ops (step s op).1
    rw [h2.1, h2.2.1, h2.2.2.1, h2.2.2.2.1, h2.2.2.2.2.1, h2.2.2.2.2.2, h1.1, h1.2.1]
    simp only [List.append_assoc]
    exact ⟨trivial, trivial, h1.2.2.1, h1.2.2.2.1, h1.2.2.2.2.1, h1.2.2.2.2.2⟩


/-! ### when does `Ready(Ok)` of `poll_flush` / `poll_close` mean "everything was sent" -/

/-- whenever the in-flight flush future is suspended in the inner `flush()`, the write buffer is
still as that future left it: empty, everything accepted already sent -/
def Clean (a : AWrite) : Prop := FutOK a.w a.wfut

theorem Clean.of_not_flushing {a : AWrite} (h : ∀ t, a.wfut ≠ .flushing t) : Clean a := by
  intro t ht; exact absurd ht (h t)

theorem AWrite.pollFlushImpl_clean {a : AWrite} (hc : Clean a) (hi : WInv a.w) :
    Clean a.pollFlushImpl.1 ∧ (∀ m, a.pollFlushImpl.2 = some (.ok m) → Flushed a.pollFlushImpl.1.w) ∧
    (a.pollFlushImpl.2 ≠ none → a.pollFlushImpl.1.wfut = .idle) := by
  unfold AWrite.pollFlushImpl
  have h1 := (hi.flushResume a.slots.tasks a.wfut).2 hc
  have h2 := WSide.flushResume_idle a.w a.slots.tasks a.wfut
  rcases hq : a.w.flushResume a.slots.tasks a.wfut with ⟨w', fut', res⟩
  rw [hq] at h1 h2
  refine ⟨?_, ?_, h2⟩
  · intro t ht
    exact h1 (Or.inr ⟨t, ht⟩)
  · intro m hm
    exact h1 (Or.inl ⟨m, hm⟩)

theorem AWrite.pollCloseImpl_clean {a : AWrite} (hc : Clean a) :
    Clean a.pollCloseImpl.1 ∧ a.pollCloseImpl.1.wfut = a.wfut ∧
    (Flushed a.w → Flushed a.pollCloseImpl.1.w) := by
  unfold AWrite.pollCloseImpl
  split
  · exact ⟨hc, rfl, id⟩
  · have h2 := WSide.shutdownPoll_same a.w a.slots.tasks
    rcases hq : a.w.shutdownPoll a.slots.tasks with ⟨w', res⟩
    rw [hq] at h2
    have hfl : Flushed a.w → Flushed w' := by
      intro hf; unfold Flushed at *; rw [h2.1, h2.2.1, h2.2.2.1]; exact hf
    have hcl : ∀ x : AWrite, x.w = w' → x.wfut = a.wfut → Clean x := by
      intro x hx hf t ht
      rw [hx]; exact hfl (hc t (by rw [← hf]; exact ht))
    cases res with
    | none => exact ⟨hcl _ rfl rfl, rfl, hfl⟩
    | some r => cases r <;> exact ⟨hcl _ rfl rfl, rfl, hfl⟩

theorem AWrite.shutdownGate_clean {a : AWrite} (hc : Clean a) :
    Clean a.shutdownGate.1 ∧ a.shutdownGate.1.wfut = a.wfut := by
  unfold AWrite.shutdownGate
  split
  · split
    · exact ⟨hc, rfl⟩
    · have := AWrite.pollCloseImpl_clean hc
      rcases hq : a.pollCloseImpl with ⟨a', o⟩
      rw [hq] at this
      cases o with
      | none => exact ⟨this.1, this.2.1⟩
      | some r => cases r <;> exact ⟨this.1, this.2.1⟩
  · exact ⟨hc, rfl⟩

theorem AWrite.closeTail_clean {a : AWrite} (hc : Clean a) :
    Clean a.closeTail.1 ∧ (Flushed a.w → Flushed a.closeTail.1.w) := by
  unfold AWrite.closeTail
  have := AWrite.pollCloseImpl_clean hc
  rcases hq : a.pollCloseImpl with ⟨a', o⟩
  rw [hq] at this
  cases o with
  | none => exact ⟨this.1, this.2.2⟩
  | some r => cases r <;> exact ⟨this.1, this.2.2⟩

/-- `poll_flush`: keeps `Clean`; `Ready(Ok(()))` means the buffer is empty and everything was sent -/
theorem AWrite.pollFlush_clean {a : AWrite} (t : Nat) (hc : Clean a) (hi : WInv a.w) :
    Clean (a.pollFlush t).1 ∧ ((a.pollFlush t).2 = .unit → Flushed (a.pollFlush t).1.w) := by
  unfold AWrite.pollFlush
  simp only
  have hc0 : Clean { a with slots := a.slots.set .b (some t) } := hc
  have h1 := AWrite.shutdownGate_clean hc0
  have hi1 := (AWrite.shutdownGate_ok { a with slots := a.slots.set .b (some t) }).inv hi
  rcases hq : ({ a with slots := a.slots.set .b (some t) } : AWrite).shutdownGate with ⟨a', o⟩
  rw [hq] at h1 hi1
  cases o with
  | some o =>
    refine ⟨h1.1, ?_⟩
    intro ho
    simp only at ho
    -- the gate never answers `Ready(Ok(()))`
    unfold AWrite.shutdownGate at hq
    split at hq
    · split at hq
      · simp only [Prod.mk.injEq, Option.some.injEq] at hq; rw [← hq.2] at ho; cases ho
      · rcases hq3 : ({ a with slots := a.slots.set .b (some t) } : AWrite).pollCloseImpl with ⟨a3, o3⟩
        rw [hq3] at hq
        cases o3 with
        | none => simp only [Prod.mk.injEq, Option.some.injEq] at hq; rw [← hq.2] at ho; cases ho
        | some r =>
          cases r <;> simp only [Prod.mk.injEq, Option.some.injEq, reduceCtorEq, and_false] at hq <;>
            (rw [← hq.2] at ho; cases ho)
    · simp at hq
  | none =>
    simp only
    have h2 := AWrite.pollFlushImpl_clean h1.1 hi1
    rcases hq2 : a'.pollFlushImpl with ⟨a'', o2⟩
    rw [hq2] at h2
    cases o2 with
    | none => exact ⟨h2.1, by simp⟩
    | some r =>
      cases r with
      | ok m => exact ⟨h2.1, fun _ => h2.2.1 m rfl⟩
      | err _ => exact ⟨h2.1, by simp⟩
      | panic => exact ⟨h2.1, by simp⟩

/-- `poll_close`: keeps `Clean`; `Ready(Ok(()))` means the buffer is empty and everything was sent -/
theorem AWrite.pollClose_clean {a : AWrite} (t : Nat) (hc : Clean a) (hi : WInv a.w) :
    Clean (a.pollClose t).1 ∧ ((a.pollClose t).2 = .unit → Flushed (a.pollClose t).1.w) := by
  unfold AWrite.pollClose AWrite.closeBody
  simp only
  have hc0 : Clean { a with slots := a.slots.set .c (some t) } := hc
  split
  · exact ⟨hc0, by simp⟩
  · -- no future and nothing buffered
    rename_i hneed
    have hfl : Flushed ({ a with slots := a.slots.set .c (some t) } : AWrite).w := by
      split at hneed
      · simp at hneed
      · unfold WSide.hasPending at hneed
        split at hneed
        · simp at hneed
        · simp only [Option.some.injEq, decide_eq_false_iff_not, ne_eq, Decidable.not_not] at hneed
          have hd : a.w.buf.data = [] := List.length_eq_zero_iff.mp hneed
          have hp : a.w.buf.pos = 0 := by have := hi.pos_le; rw [hneed] at this; omega
          refine ⟨?_, hd, hp⟩
          have := hi.fifo
          simp only [Buf.avail, hd, List.drop_nil, List.append_nil] at this
          exact this.symm
    have := AWrite.closeTail_clean hc0
    exact ⟨this.1, fun _ => this.2 hfl⟩
  · split
    · exact ⟨hc0, by simp⟩
    · have h2 := AWrite.pollFlushImpl_clean hc0 hi
      rcases hq2 : ({ a with slots := a.slots.set .c (some t) } : AWrite).pollFlushImpl with ⟨a'', o2⟩
      rw [hq2] at h2
      cases o2 with
      | none => exact ⟨h2.1, by simp⟩
      | some r =>
        cases r with
        | ok m =>
          have := AWrite.closeTail_clean h2.1
          exact ⟨this.1, fun _ => this.2 (h2.2.1 m rfl)⟩
        | err _ => exact ⟨h2.1, by simp⟩
        | panic => exact ⟨h2.1, by simp⟩

theorem AWrite.writeLoop_clean (src : Bytes) : ∀ (fuel : Nat) {a : AWrite},
    (∀ t, a.wfut ≠ .flushing t) → WInv a.w → Clean (a.writeLoop src fuel).1
  | 0, a, hn, _ => by simpa [AWrite.writeLoop] using Clean.of_not_flushing hn
  | fuel + 1, a, hn, hi => by
    unfold AWrite.writeLoop
    have hi1 := hi.write src
    rcases hq : a.w.write src with ⟨w', res⟩
    rw [hq] at hi1
    have hc1 : Clean { a with w := w' } := Clean.of_not_flushing hn
    cases res with
    | ok n => exact Clean.of_not_flushing hn
    | panic => exact hc1
    | err k =>
      cases k with
      | wb =>
        simp only
        have h2 := AWrite.pollFlushImpl_clean hc1 hi1
        have hi2 := (AWrite.pollFlushImpl_ok { a with w := w' }).inv hi1
        rcases hq2 : ({ a with w := w' } : AWrite).pollFlushImpl with ⟨a', o⟩
        rw [hq2] at h2 hi2
        cases o with
        | none => exact h2.1
        | some r =>
          cases r with
          | ok _ =>
            refine AWrite.writeLoop_clean src fuel ?_ hi2
            intro t ht
            have := h2.2.2 (by simp)
            rw [this] at ht; cases ht
          | err _ => exact h2.1
          | panic => exact h2.1
      | oom => exact Clean.of_not_flushing hn
      | wz => exact Clean.of_not_flushing hn
      | other => exact Clean.of_not_flushing hn

theorem AWrite.pollWrite_clean {a : AWrite} (t : Nat) (src : Bytes) (hc : Clean a)
    (hn : ∀ t, a.wfut ≠ .flushing t) (hi : WInv a.w) : Clean (a.pollWrite t src).1 := by
  unfold AWrite.pollWrite
  simp only
  have hc0 : Clean { a with slots := a.slots.set .a (some t) } := hc
  have h1 := AWrite.shutdownGate_clean hc0
  have hi1 := (AWrite.shutdownGate_ok { a with slots := a.slots.set .a (some t) }).inv hi
  rcases hq : ({ a with slots := a.slots.set .a (some t) } : AWrite).shutdownGate with ⟨a', o⟩
  rw [hq] at h1 hi1
  cases o with
  | some o => exact h1.1
  | none =>
    refine AWrite.writeLoop_clean src _ ?_ hi1
    intro t' ht'
    rw [h1.2] at ht'
    exact hn t' ht'

/-- the caller never writes while a flush future is suspended in the inner `flush()`
(the situation of finding F15) -/
def isFlushing : WFut → Bool
  | .flushing _ => true
  | _ => false

def Guard (s : State) : Op → Prop
  | .pw _ _ => isFlushing s.aw.wfut = false
  | _ => True

instance (s : State) (op : Op) : Decidable (Guard s op) := by
  cases op <;> unfold Guard <;> infer_instance

def GuardedRun : State → List Op → Prop
  | _, [] => True
  | s, op :: ops => Guard s op ∧ GuardedRun (step s op).1 ops

instance GuardedRun.dec : (s : State) → (ops : List Op) → Decidable (GuardedRun s ops)
  | _, [] => isTrue trivial
  | s, op :: ops => by
    unfold GuardedRun
    exact @instDecidableAnd _ _ _ (GuardedRun.dec _ ops)

theorem AWrite.call_wfut (a : AWrite) (e : Entry) (t : Nat) (g : AWrite → AWrite × Out) :
    (a.call e t g).1.wfut = (g { a with w := a.w.clearObs }).1.wfut := by
  simp [AWrite.call]

theorem Clean.clearObs {a : AWrite} (h : Clean a) : Clean { a with w := a.w.clearObs } := by
  intro t ht
  have := h t ht
  unfold Flushed at *
  simpa [WSide.clearObs] using this

theorem Clean.of_eq {a b : AWrite} (h : Clean a) (hw : b.w = a.w) (hf : b.wfut = a.wfut) : Clean b := by
  intro t ht
  rw [hw]; exact h t (by rw [← hf]; exact ht)

theorem Clean.step {C s} (hi : AInv C s) (hc : Clean s.aw) (op : Op) (hg : Guard s op) :
    Clean (step s op).1.aw := by
  have hw0 : WInv ({ s.aw with w := s.aw.w.clearObs } : AWrite).w := hi.2.clearObs
  have hc0 := hc.clearObs
  cases op with
  | pr t n => exact hc
  | pru t n => exact hc
  | pfb t => exact hc
  | co n => exact hc
  | pw t bs =>
    simp only [PollAdapter.step]
    have hg' : ∀ t', ({ s.aw with w := s.aw.w.clearObs } : AWrite).wfut ≠ .flushing t' := by
      intro t' ht'
      simp only [Guard] at hg
      simp only at ht'
      rw [ht'] at hg
      simp [isFlushing] at hg
    refine Clean.of_eq (AWrite.pollWrite_clean t bs hc0 hg' hw0) (AWrite.call_w _ _ _ _).1 (AWrite.call_wfut _ _ _ _)
  | pfl t =>
    simp only [PollAdapter.step]
    refine Clean.of_eq (AWrite.pollFlush_clean t hc0 hw0).1 (AWrite.call_w _ _ _ _).1 (AWrite.call_wfut _ _ _ _)
  | pcl t =>
    simp only [PollAdapter.step]
    refine Clean.of_eq (AWrite.pollClose_clean t hc0 hw0).1 (AWrite.call_w _ _ _ _).1 (AWrite.call_wfut _ _ _ _)

theorem Clean.run {C} : ∀ (ops : List Op) {s : State}, AInv C s → Clean s.aw → GuardedRun s ops →
    Clean (run s ops).1.aw
  | [], s, _, hc, _ => by simpa [PollAdapter.run] using hc
  | op :: ops, s, hi, hc, hg => by
    simp only [PollAdapter.run]
    exact Clean.run ops (hi.step op) (hc.step hi op hg.1) hg.2


/-! ### waker sets: what one call does to the waker snapshot parked in the inner stream -/

/-- the wake-related observations of a half: the snapshot parked in the inner stream, the tasks
woken during the current call, whether the parked future completed during the current call -/
structure Obs where
  parked : Option (List Nat)
  woken : List Nat
  event : Bool

def robs (r : RSide) : Obs := ⟨r.parked, r.woken, r.event⟩
def wobs (w : WSide) : Obs := ⟨w.parked, w.woken, w.event⟩

def Obs.wake (o : Obs) : Obs :=
  match o.parked with
  | some s => ⟨none, o.woken ++ s, true⟩
  | none => o

theorem robs_wake (r : RSide) : robs r.wake = (robs r).wake := by
  cases h : r.parked <;> simp [RSide.wake, Obs.wake, robs, h]

theorem wobs_wake (w : WSide) : wobs w.wake = (wobs w).wake := by
  cases h : w.parked <;> simp [WSide.wake, Obs.wake, wobs, h]

def Out.isPending : Out → Bool
  | .pending => true
  | _ => false

theorem Out.isPending_iff (o : Out) : o.isPending = true ↔ o = .pending := by
  cases o <;> simp [Out.isPending]

/-- during a call that started with snapshot `P0` parked: nothing parked anew; either nothing
happened to the inner future yet, or it completed once and woke `P0` -/
inductive Settled (P0 : Option (List Nat)) : Obs → Prop where
  | untouched : Settled P0 ⟨P0, [], false⟩
  | completed : Settled P0 ⟨none, P0.getD [], P0.isSome⟩

/-- the inner future has just been parked with snapshot `snap` (and the call returns Pending) -/
inductive Parked (P0 : Option (List Nat)) (snap : List Nat) : Obs → Prop where
  | fresh : Parked P0 snap ⟨some snap, [], false⟩
  | again : Parked P0 snap ⟨some snap, P0.getD [], P0.isSome⟩

theorem Settled.wake {P0 o} (h : Settled P0 o) : Settled P0 o.wake := by
  cases h with
  | untouched =>
    cases P0 with
    | none => exact Settled.untouched
    | some s => simpa [Obs.wake] using (Settled.completed (P0 := some s))
  | completed => simpa [Obs.wake] using (Settled.completed (P0 := P0))

theorem Settled.park {P0 o} (h : Settled P0 o) (snap : List Nat) :
    Parked P0 snap ⟨some snap, o.woken, o.event⟩ := by
  cases h with
  | untouched => exact Parked.fresh
  | completed => exact Parked.again

/-- outcome of something that polls the inner stream: Pending ⇒ parked with `snap`, otherwise settled -/
def PollOutcome (P0 : Option (List Nat)) (snap : List Nat) (pending : Bool) (o : Obs) : Prop :=
  if pending then Parked P0 snap o else Settled P0 o

theorem fillPoll_obs {P0} {r : RSide} (snap : List Nat) (h : Settled P0 (robs r)) :
    PollOutcome P0 snap (r.fillPoll snap).2.isNone (robs (r.fillPoll snap).1) := by
  have hw := h.wake
  rw [← robs_wake] at hw
  unfold RSide.fillPoll
  split
  · simpa [PollOutcome, robs] using h.park snap
  · simpa [PollOutcome, robs] using hw
  · simpa [PollOutcome, robs] using hw
  · simpa [PollOutcome, robs] using hw
  · simpa [PollOutcome, robs] using hw

theorem fillStart_obs (r : RSide) : robs r.fillStart.1 = robs r := by
  unfold RSide.fillStart
  split
  · rfl
  · split
    · rfl
    · simp only
      split <;> rfl

theorem consume_obs (r : RSide) (amt : Nat) : robs (r.consume amt).1 = robs r := by
  by_cases hl : r.buf.lent = true
  · rw [RSide.consume_lent amt hl]
  · have hl : r.buf.lent = false := by simpa using hl
    by_cases h1 : r.buf.cap < r.buf.pos + amt
    · rw [RSide.consume_panic hl h1]
    · by_cases h2 : r.buf.data.length < r.buf.pos + amt
      · rw [RSide.consume_lost hl h1 h2]; rfl
      · rw [RSide.consume_ok hl h1 h2]; rfl

theorem read_obs (r : RSide) (n : Nat) : robs (r.read n).1 = robs r := by
  unfold RSide.read
  split
  · exact consume_obs r _
  · rfl
  · rfl

theorem pollImpl_obs {P0} {a : ARead} (h : Settled P0 (robs a.r)) :
    PollOutcome P0 a.slots.tasks a.pollImpl.2.isNone (robs a.pollImpl.1.r) ∧ a.pollImpl.1.slots = a.slots := by
  unfold ARead.pollImpl
  simp only
  split
  · have := fillPoll_obs a.slots.tasks h
    rcases hq : a.r.fillPoll a.slots.tasks with ⟨r', o⟩
    rw [hq] at this
    cases o <;> exact ⟨this, rfl⟩
  · have hs := fillStart_obs a.r
    rcases hq : a.r.fillStart with ⟨r', o⟩
    rw [hq] at hs
    simp only at hs
    cases o with
    | some res => exact ⟨by simpa [PollOutcome, hs] using h, rfl⟩
    | none =>
      simp only
      have := fillPoll_obs (r := r') a.slots.tasks (by rw [hs]; exact h)
      rcases hq2 : r'.fillPoll a.slots.tasks with ⟨r'', o2⟩
      rw [hq2] at this
      cases o2 <;> exact ⟨this, rfl⟩

/-- result of a read entry point: `pending` exactly when the inner future was parked with the
waker set of the slots; the slots of the other entry points are untouched -/
theorem pollLoop_obs {P0} {f : RSide → RSide × Res Bytes} (hf : ∀ r, robs (f r).1 = robs r) (e : Entry) :
    ∀ (fuel : Nat) {a : ARead}, Settled P0 (robs a.r) →
      PollOutcome P0 a.slots.tasks (a.pollLoop e f fuel).2.isPending (robs (a.pollLoop e f fuel).1.r) ∧
      (∀ e', e' ≠ e → (a.pollLoop e f fuel).1.slots.get e' = a.slots.get e') ∧
      ((a.pollLoop e f fuel).2 = .pending → (a.pollLoop e f fuel).1.slots = a.slots)
  | 0, a, h => by simpa [ARead.pollLoop, PollOutcome, Out.isPending] using h
  | fuel + 1, a, h => by
    unfold ARead.pollLoop
    have h1 := hf a.r
    rcases hq : f a.r with ⟨r', res⟩
    rw [hq] at h1
    simp only at h1
    have hs : Settled P0 (robs r') := by rw [h1]; exact h
    have hset : ∀ e', e' ≠ e → (a.slots.set e none).get e' = a.slots.get e' := by
      intro e' hne; cases e <;> cases e' <;> simp_all [Slots.set, Slots.get]
    cases res with
    | ok b => exact ⟨by simpa [PollOutcome, Out.isPending] using hs, hset, by simp⟩
    | panic => exact ⟨by simpa [PollOutcome, Out.isPending] using hs, by simp, by simp⟩
    | err k =>
      cases k with
      | wb =>
        simp only
        have hp := pollImpl_obs (a := { a with r := r' }) hs
        rcases hq2 : ({ a with r := r' } : ARead).pollImpl with ⟨a', o⟩
        rw [hq2] at hp
        simp only at hp
        cases o with
        | none => exact ⟨by simpa [PollOutcome, Out.isPending] using hp.1, by simp [hp.2], by simp [hp.2]⟩
        | some res2 =>
          have hs' : Settled P0 (robs a'.r) := by simpa [PollOutcome, Out.isPending] using hp.1
          cases res2 with
          | ok _ =>
            have ih := pollLoop_obs hf e fuel (a := a') hs'
            simp only
            rw [hp.2] at ih
            exact ih
          | err _ => exact ⟨by simpa [PollOutcome, Out.isPending] using hs', by simp [hp.2], by simp⟩
          | panic => exact ⟨by simpa [PollOutcome, Out.isPending] using hs', by simp [hp.2], by simp⟩
      | oom => exact ⟨by simpa [PollOutcome, Out.isPending] using hs, hset, by simp⟩
      | wz => exact ⟨by simpa [PollOutcome, Out.isPending] using hs, hset, by simp⟩
      | other => exact ⟨by simpa [PollOutcome, Out.isPending] using hs, hset, by simp⟩


/-! ### the waker law -/

@[simp] theorem Slots.get_set_same (s : Slots) (e : Entry) (v : Option Nat) : (s.set e v).get e = v := by
  cases e <;> rfl

theorem Slots.get_set_ne (s : Slots) {e e' : Entry} (v : Option Nat) (h : e' ≠ e) : (s.set e v).get e' = s.get e' := by
  cases e <;> cases e' <;> simp_all [Slots.set, Slots.get]

theorem Slots.mem_tasks {s : Slots} {e : Entry} {t : Nat} (h : s.get e = some t) : t ∈ s.tasks := by
  cases e <;> simp_all [Slots.get, Slots.tasks, optList]

@[simp] theorem Slots.empty_get (e : Entry) : Slots.empty.get e = none := by cases e <;> rfl

/-- what the wake obligations of a half need: the slot of an owed entry point still holds the task,
and the inner stream is parked with a snapshot containing it -/
structure WakeInv (owed slots : Slots) (parked : Option (List Nat)) : Prop where
  slot : ∀ e t, owed.get e = some t → slots.get e = some t
  snap : ∀ e t, owed.get e = some t → ∃ s, parked = some s ∧ t ∈ s

theorem WakeInv.init : WakeInv Slots.empty Slots.empty none := ⟨by simp, by simp⟩

/-- the bookkeeping common to both halves: from what a call did to the observations and the
slots, the invariant is re-established and every task owed a wake was woken if the in-flight
future completed -/
theorem wake_step {owed slots slots' : Slots} {P0 : Option (List Nat)} {o' : Obs} {e : Entry} {t : Nat} {out : Out}
    (h : WakeInv owed slots P0)
    (hout : PollOutcome P0 (slots.set e (some t)).tasks out.isPending o')
    (hother : ∀ e', e' ≠ e → slots'.get e' = slots.get e')
    (hpend : out = .pending → slots' = slots.set e (some t)) :
    WakeInv (owedAfter owed o'.event e t out) slots' o'.parked ∧
    (o'.event = true → ∀ e' t', owed.get e' = some t' → t' ∈ o'.woken) := by
  have hlaw : ∀ s, P0 = some s → ∀ e' t', owed.get e' = some t' → t' ∈ s := by
    intro s hs e' t' ho
    obtain ⟨s', hs', hm⟩ := h.snap e' t' ho
    rw [hs] at hs'; cases hs'; exact hm
  by_cases hp : out = .pending
  · subst hp
    have hsl := hpend rfl
    simp only [PollOutcome, Out.isPending, if_true] at hout
    have hslot : ∀ e' t'', (owedAfter owed o'.event e t .pending).get e' = some t'' → slots'.get e' = some t'' := by
      intro e' t'' ho
      unfold owedAfter at ho
      simp only [if_true] at ho
      by_cases he : e' = e
      · subst he
        simp only [Slots.get_set_same, Option.some.injEq] at ho
        rw [hsl, ← ho]; simp
      · rw [Slots.get_set_ne _ _ he] at ho
        rw [hsl, Slots.get_set_ne _ _ he]
        split at ho
        · simp at ho
        · exact h.slot e' t'' ho
    cases hout with
    | fresh =>
      refine ⟨⟨hslot, ?_⟩, by simp⟩
      intro e' t'' ho
      exact ⟨_, rfl, Slots.mem_tasks (by rw [← hsl]; exact hslot e' t'' ho)⟩
    | again =>
      refine ⟨⟨hslot, ?_⟩, ?_⟩
      · intro e' t'' ho
        exact ⟨_, rfl, Slots.mem_tasks (by rw [← hsl]; exact hslot e' t'' ho)⟩
      · intro hev e' t' ho
        cases hP : P0 with
        | none => simp [hP] at hev
        | some s => simpa [hP] using hlaw s hP e' t' ho
  · have hnp : out.isPending = false := by
      cases hb : out.isPending
      · rfl
      · exact absurd ((Out.isPending_iff out).mp hb) hp
    simp only [PollOutcome, hnp, Bool.false_eq_true, if_false] at hout
    have hown : ∀ e' t'', (owedAfter owed o'.event e t out).get e' = some t'' →
        e' ≠ e ∧ o'.event = false ∧ owed.get e' = some t'' := by
      intro e' t'' ho
      unfold owedAfter at ho
      simp only [hp, if_false] at ho
      by_cases he : e' = e
      · subst he; simp at ho
      · rw [Slots.get_set_ne _ _ he] at ho
        split at ho
        · simp at ho
        · rename_i hev
          exact ⟨he, by simpa using hev, ho⟩
    cases hout with
    | untouched =>
      refine ⟨⟨?_, ?_⟩, by simp⟩
      · intro e' t'' ho
        obtain ⟨he, _, ho'⟩ := hown e' t'' ho
        rw [hother e' he]; exact h.slot e' t'' ho'
      · intro e' t'' ho
        obtain ⟨_, _, ho'⟩ := hown e' t'' ho
        exact h.snap e' t'' ho'
    | completed =>
      refine ⟨⟨?_, ?_⟩, ?_⟩
      · intro e' t'' ho
        obtain ⟨he, _, ho'⟩ := hown e' t'' ho
        rw [hother e' he]; exact h.slot e' t'' ho'
      · intro e' t'' ho
        obtain ⟨_, hev, ho'⟩ := hown e' t'' ho
        obtain ⟨s, hs, _⟩ := h.snap e' t'' ho'
        simp [hs] at hev
      · intro hev e' t' ho
        cases hP : P0 with
        | none => simp [hP] at hev
        | some s => simpa [hP] using hlaw s hP e' t' ho

/-- **waker law, read half**: a call of entry point `e` by task `t` keeps the wake invariant, and
if the in-flight `fill_read_buf` future completed during the call, every task whose latest call
of some entry point had returned Pending is among the tasks woken -/
theorem ARead.call_wake {f : RSide → RSide × Res Bytes} (hf : ∀ r, robs (f r).1 = robs r)
    (a : ARead) (e : Entry) (t : Nat) (h : WakeInv a.owed a.slots a.r.parked) :
    WakeInv (a.call e t f).1.owed (a.call e t f).1.slots (a.call e t f).1.r.parked ∧
    ((a.call e t f).1.r.event = true → ∀ e' t', a.owed.get e' = some t' → t' ∈ (a.call e t f).1.r.woken) := by
  unfold ARead.call ARead.poll
  simp only
  have hs : Settled a.r.parked (robs ({ a with r := a.r.clearObs, slots := a.slots.set e (some t) } : ARead).r) :=
    Settled.untouched
  have hl := pollLoop_obs hf e (loopFuel + a.r.clearObs.script.length) hs
  rcases hq : ({ a with r := a.r.clearObs, slots := a.slots.set e (some t) } : ARead).pollLoop e f
      (loopFuel + a.r.clearObs.script.length) with ⟨a', o⟩
  rw [hq] at hl
  simp only at hl
  have := wake_step (slots' := a'.slots) (o' := robs a'.r) (e := e) (t := t) (out := o) h hl.1
    (by intro e' he; rw [hl.2.1 e' he, Slots.get_set_ne _ _ he]) hl.2.2
  simpa [robs] using this


/-! ### write half: observations -/

theorem write_obs (w : WSide) (src : Bytes) : wobs (w.write src).1 = wobs w := by
  unfold WSide.write
  split
  · rfl
  · split
    · rfl
    · simp only
      split
      · split
        · rfl
        · split <;> rfl
      · rfl

theorem flushTail_obs {P0} {w : WSide} (snap : List Nat) (t : Nat) (h : Settled P0 (wobs w)) :
    PollOutcome P0 snap (w.flushTail snap t).2.2.isNone (wobs (w.flushTail snap t).1) := by
  have hw := h.wake
  rw [← wobs_wake] at hw
  unfold WSide.flushTail
  split
  · simpa [PollOutcome, wobs] using h.park snap
  · simpa [PollOutcome, wobs] using hw
  · simpa [PollOutcome, wobs] using hw
  · simpa [PollOutcome, wobs] using hw

theorem afterFlushTo_obs {P0} {w : WSide} (snap : List Nat) (t : Nat) (h : Settled P0 (wobs w)) :
    PollOutcome P0 snap (w.afterFlushTo snap t).2.2.isNone (wobs (w.afterFlushTo snap t).1) := by
  unfold WSide.afterFlushTo
  exact flushTail_obs snap t (w := { w with buf := w.buf.compactTo w.base w.max }) h

theorem shutdownPoll_obs {P0} {w : WSide} (snap : List Nat) (h : Settled P0 (wobs w)) :
    PollOutcome P0 snap (w.shutdownPoll snap).2.isNone (wobs (w.shutdownPoll snap).1) := by
  have hw := h.wake
  rw [← wobs_wake] at hw
  unfold WSide.shutdownPoll
  split
  · simpa [PollOutcome, wobs] using h.park snap
  · simpa [PollOutcome, wobs] using hw
  · simpa [PollOutcome, wobs] using hw
  · simpa [PollOutcome, wobs] using hw

theorem accepted_n_obs {P0} {w : WSide} (snap : List Nat) (total n : Nat) (h : Settled P0 (wobs w)) :
    (∀ x, (w.accepted_n snap total n).1 = some x → PollOutcome P0 snap x.2.2.isNone (wobs x.1)) ∧
    Settled P0 (wobs (w.accepted_n snap total n).2) := by
  have hw := h.wake
  rw [← wobs_wake] at hw
  unfold WSide.accepted_n
  simp only
  split
  · refine ⟨?_, by simpa [wobs] using hw⟩
    intro x hx
    simp only [Option.some.injEq] at hx; subst hx
    simpa [PollOutcome, wobs] using hw
  · split
    · refine ⟨?_, by simpa [wobs] using hw⟩
      intro x hx
      simp only [Option.some.injEq] at hx; subst hx
      simpa [PollOutcome, wobs] using hw
    · refine ⟨?_, by simpa [wobs] using hw⟩
      intro x hx
      simp only [Option.some.injEq] at hx; subst hx
      simpa [PollOutcome, wobs] using hw
    · split
      · refine ⟨?_, by simpa [wobs] using hw⟩
        intro x hx
        simp only [Option.some.injEq] at hx; subst hx
        exact afterFlushTo_obs snap (total + n) (by simpa [wobs] using hw)
      · exact ⟨by simp, by simpa [wobs] using hw⟩

theorem writeLoop_obs {P0} (snap : List Nat) : ∀ (script : List WItem) {w : WSide} (total : Nat),
    Settled P0 (wobs w) →
    PollOutcome P0 snap (w.writeLoop snap total script).2.2.isNone (wobs (w.writeLoop snap total script).1)
  | [], w, total, h => by
    unfold WSide.writeLoop
    have := accepted_n_obs (w := { w with script := [] }) snap total w.buf.avail.length (by simpa [wobs] using h)
    rcases hq : ({ w with script := [] } : WSide).accepted_n snap total w.buf.avail.length with ⟨o, w'⟩
    rw [hq] at this
    cases o with
    | some r => exact this.1 r rfl
    | none => simpa [PollOutcome] using this.2
  | .p :: rest, w, total, h => by
    simpa [WSide.writeLoop, PollOutcome, wobs] using h.park snap
  | .e :: rest, w, total, h => by
    have hw := h.wake
    rw [← wobs_wake] at hw
    simpa [WSide.writeLoop, PollOutcome, wobs] using hw
  | .w k :: rest, w, total, h => by
    unfold WSide.writeLoop
    have := accepted_n_obs (w := { w with script := rest }) snap total (min k w.buf.avail.length)
      (by simpa [wobs] using h)
    rcases hq : ({ w with script := rest } : WSide).accepted_n snap total (min k w.buf.avail.length) with ⟨o, w'⟩
    rw [hq] at this
    cases o with
    | some r => exact this.1 r rfl
    | none => exact writeLoop_obs snap rest _ this.2

theorem flushResume_obs {P0} {w : WSide} (snap : List Nat) (fut : WFut) (h : Settled P0 (wobs w)) :
    PollOutcome P0 snap (w.flushResume snap fut).2.2.isNone (wobs (w.flushResume snap fut).1) := by
  cases fut with
  | idle =>
    simp only [WSide.flushResume, WSide.flushBegin]
    split
    · simpa [PollOutcome] using h
    · split
      · exact afterFlushTo_obs snap 0 h
      · exact writeLoop_obs snap w.script 0 h
  | writing t => exact writeLoop_obs snap w.script t h
  | flushing t => exact flushTail_obs snap t h

theorem pollFlushImpl_obs {P0} {a : AWrite} (h : Settled P0 (wobs a.w)) :
    PollOutcome P0 a.slots.tasks a.pollFlushImpl.2.isNone (wobs a.pollFlushImpl.1.w) ∧
    a.pollFlushImpl.1.slots = a.slots := by
  unfold AWrite.pollFlushImpl
  have := flushResume_obs a.slots.tasks a.wfut h
  rcases hq : a.w.flushResume a.slots.tasks a.wfut with ⟨w', fut', res⟩
  rw [hq] at this
  exact ⟨this, rfl⟩

theorem pollCloseImpl_obs {P0} {a : AWrite} (h : Settled P0 (wobs a.w)) :
    PollOutcome P0 a.slots.tasks a.pollCloseImpl.2.isNone (wobs a.pollCloseImpl.1.w) ∧
    a.pollCloseImpl.1.slots = a.slots := by
  unfold AWrite.pollCloseImpl
  split
  · exact ⟨by simpa [PollOutcome] using h, rfl⟩
  · have := shutdownPoll_obs a.slots.tasks h
    rcases hq : a.w.shutdownPoll a.slots.tasks with ⟨w', res⟩
    rw [hq] at this
    cases res with
    | none => exact ⟨this, rfl⟩
    | some r => cases r <;> exact ⟨this, rfl⟩

/-- specification of (a part of) a write-half entry point for entry `e` with respect to wake-ups -/
def WSpec (P0 : Option (List Nat)) (e : Entry) (a : AWrite) (x : AWrite × Out) : Prop :=
  PollOutcome P0 a.slots.tasks x.2.isPending (wobs x.1.w) ∧
  (∀ e', e' ≠ e → x.1.slots.get e' = a.slots.get e') ∧
  (x.2 = .pending → x.1.slots = a.slots)

/-- `none` = fell through (settled, slots unchanged) -/
theorem shutdownGate_obs {P0} {a : AWrite} (e : Entry) (h : Settled P0 (wobs a.w)) :
    (∀ o, a.shutdownGate.2 = some o → WSpec P0 e a (a.shutdownGate.1, o)) ∧
    (a.shutdownGate.2 = none → Settled P0 (wobs a.shutdownGate.1.w) ∧ a.shutdownGate.1.slots = a.slots) := by
  unfold AWrite.shutdownGate
  split
  · split
    · refine ⟨?_, by simp⟩
      intro o ho
      simp only [Option.some.injEq] at ho; subst ho
      exact ⟨by simpa [PollOutcome, Out.isPending] using h, by simp, by simp⟩
    · have := pollCloseImpl_obs h
      rcases hq : a.pollCloseImpl with ⟨a', o⟩
      rw [hq] at this
      simp only at this
      cases o with
      | none =>
        refine ⟨?_, by simp⟩
        intro o ho
        simp only [Option.some.injEq] at ho; subst ho
        exact ⟨by simpa [PollOutcome, Out.isPending] using this.1, by simp [this.2], by simp [this.2]⟩
      | some r =>
        cases r with
        | ok _ => exact ⟨by simp, fun _ => ⟨by simpa [PollOutcome] using this.1, this.2⟩⟩
        | err k =>
          refine ⟨?_, by simp⟩
          intro o ho
          simp only [Option.some.injEq] at ho; subst ho
          exact ⟨by simpa [PollOutcome, Out.isPending] using this.1, by simp [this.2], by simp⟩
        | panic =>
          refine ⟨?_, by simp⟩
          intro o ho
          simp only [Option.some.injEq] at ho; subst ho
          exact ⟨by simpa [PollOutcome, Out.isPending] using this.1, by simp [this.2], by simp⟩
  · exact ⟨by simp, fun _ => ⟨h, rfl⟩⟩

theorem writeLoopA_obs {P0} (src : Bytes) : ∀ (fuel : Nat) {a : AWrite}, Settled P0 (wobs a.w) →
    WSpec P0 .a a (a.writeLoop src fuel)
  | 0, a, h => by
    exact ⟨by simpa [AWrite.writeLoop, PollOutcome, Out.isPending] using h, by simp [AWrite.writeLoop],
      by simp [AWrite.writeLoop]⟩
  | fuel + 1, a, h => by
    unfold AWrite.writeLoop
    have h1 := write_obs a.w src
    rcases hq : a.w.write src with ⟨w', res⟩
    rw [hq] at h1
    simp only at h1
    have hs : Settled P0 (wobs w') := by rw [h1]; exact h
    have hset : ∀ e', e' ≠ Entry.a → (a.slots.set .a none).get e' = a.slots.get e' :=
      fun e' hne => Slots.get_set_ne _ _ hne
    cases res with
    | ok n => exact ⟨by simpa [PollOutcome, Out.isPending] using hs, hset, by simp⟩
    | panic => exact ⟨by simpa [PollOutcome, Out.isPending] using hs, by simp, by simp⟩
    | err k =>
      cases k with
      | wb =>
        simp only
        have hp := pollFlushImpl_obs (a := { a with w := w' }) hs
        rcases hq2 : ({ a with w := w' } : AWrite).pollFlushImpl with ⟨a', o⟩
        rw [hq2] at hp
        simp only at hp
        cases o with
        | none => exact ⟨by simpa [PollOutcome, Out.isPending] using hp.1, by simp [hp.2], by simp [hp.2]⟩
        | some r =>
          have hs' : Settled P0 (wobs a'.w) := by simpa [PollOutcome] using hp.1
          cases r with
          | ok _ =>
            have ih := writeLoopA_obs src fuel (a := a') hs'
            simp only
            unfold WSpec at ih ⊢
            rw [hp.2] at ih
            exact ih
          | err _ => exact ⟨by simpa [PollOutcome, Out.isPending] using hs', by simp [hp.2], by simp⟩
          | panic => exact ⟨by simpa [PollOutcome, Out.isPending] using hs', by simp [hp.2], by simp⟩
      | oom => exact ⟨by simpa [PollOutcome, Out.isPending] using hs, hset, by simp⟩
      | wz => exact ⟨by simpa [PollOutcome, Out.isPending] using hs, hset, by simp⟩
      | other => exact ⟨by simpa [PollOutcome, Out.isPending] using hs, hset, by simp⟩


theorem closeTail_obs {P0} {a : AWrite} (h : Settled P0 (wobs a.w)) : WSpec P0 .c a a.closeTail := by
  unfold AWrite.closeTail
  have := pollCloseImpl_obs h
  rcases hq : a.pollCloseImpl with ⟨a', o⟩
  rw [hq] at this
  simp only at this
  have hset : ∀ e', e' ≠ Entry.c → (a'.slots.set .c none).get e' = a.slots.get e' := by
    intro e' hne; rw [Slots.get_set_ne _ _ hne, this.2]
  cases o with
  | none => exact ⟨by simpa [PollOutcome, Out.isPending] using this.1, by simp [this.2], by simp [this.2]⟩
  | some r =>
    cases r with
    | ok _ => exact ⟨by simpa [PollOutcome, Out.isPending] using this.1, hset, by simp⟩
    | err _ => exact ⟨by simpa [PollOutcome, Out.isPending] using this.1, hset, by simp⟩
    | panic => exact ⟨by simpa [PollOutcome, Out.isPending] using this.1, by simp [this.2], by simp⟩

theorem WSpec.of_slots {P0 e} {a b : AWrite} {x : AWrite × Out} (h : WSpec P0 e b x) (hs : b.slots = a.slots) :
    WSpec P0 e a x := by
  unfold WSpec at *
  rw [← hs]; exact h

theorem pollWrite_obs {P0} {a : AWrite} (t : Nat) (src : Bytes) (h : Settled P0 (wobs a.w)) :
    WSpec P0 .a { a with slots := a.slots.set .a (some t) } (a.pollWrite t src) := by
  unfold AWrite.pollWrite
  simp only
  have hg := shutdownGate_obs (a := { a with slots := a.slots.set .a (some t) }) .a h
  rcases hq : ({ a with slots := a.slots.set .a (some t) } : AWrite).shutdownGate with ⟨a', o⟩
  rw [hq] at hg
  cases o with
  | some o => exact hg.1 o rfl
  | none =>
    obtain ⟨hs, hsl⟩ := hg.2 rfl
    exact (writeLoopA_obs src _ hs).of_slots hsl

theorem pollFlush_obs {P0} {a : AWrite} (t : Nat) (h : Settled P0 (wobs a.w)) :
    WSpec P0 .b { a with slots := a.slots.set .b (some t) } (a.pollFlush t) := by
  unfold AWrite.pollFlush
  simp only
  have hg := shutdownGate_obs (a := { a with slots := a.slots.set .b (some t) }) .b h
  rcases hq : ({ a with slots := a.slots.set .b (some t) } : AWrite).shutdownGate with ⟨a', o⟩
  rw [hq] at hg
  cases o with
  | some o => exact hg.1 o rfl
  | none =>
    obtain ⟨hs, hsl⟩ := hg.2 rfl
    simp only
    have hp := pollFlushImpl_obs hs
    rcases hq2 : a'.pollFlushImpl with ⟨a'', o2⟩
    rw [hq2] at hp
    simp only at hp
    have hset : ∀ e', e' ≠ Entry.b → (a''.slots.set .b none).get e' =
        ({ a with slots := a.slots.set .b (some t) } : AWrite).slots.get e' := by
      intro e' hne; rw [Slots.get_set_ne _ _ hne, hp.2, hsl]
    unfold WSpec
    rw [← hsl]
    cases o2 with
    | none => exact ⟨by simpa [PollOutcome, Out.isPending] using hp.1, by simp [hp.2], by simp [hp.2]⟩
    | some r =>
      cases r with
      | ok _ => exact ⟨by simpa [PollOutcome, Out.isPending] using hp.1, by rw [hsl]; exact hset, by simp⟩
      | err _ => exact ⟨by simpa [PollOutcome, Out.isPending] using hp.1, by rw [hsl]; exact hset, by simp⟩
      | panic => exact ⟨by simpa [PollOutcome, Out.isPending] using hp.1, by simp [hp.2], by simp⟩

theorem pollClose_obs {P0} {a : AWrite} (t : Nat) (h : Settled P0 (wobs a.w)) :
    WSpec P0 .c { a with slots := a.slots.set .c (some t) } (a.pollClose t) := by
  unfold AWrite.pollClose AWrite.closeBody
  simp only
  have h0 : Settled P0 (wobs ({ a with slots := a.slots.set .c (some t) } : AWrite).w) := h
  split
  · exact ⟨by simpa [PollOutcome, Out.isPending] using h, by simp, by simp⟩
  · exact closeTail_obs h0
  · split
    · exact ⟨by simpa [PollOutcome, Out.isPending] using h, by simp, by simp⟩
    · have hp := pollFlushImpl_obs h0
      rcases hq2 : ({ a with slots := a.slots.set .c (some t) } : AWrite).pollFlushImpl with ⟨a'', o2⟩
      rw [hq2] at hp
      simp only at hp
      cases o2 with
      | none => exact ⟨by simpa [PollOutcome, Out.isPending] using hp.1, by simp [hp.2], by simp [hp.2]⟩
      | some r =>
        have hs' : Settled P0 (wobs a''.w) := by simpa [PollOutcome] using hp.1
        cases r with
        | ok _ => exact (closeTail_obs hs').of_slots hp.2
        | err _ => exact ⟨by simpa [PollOutcome, Out.isPending] using hs', by simp [hp.2], by simp⟩
        | panic => exact ⟨by simpa [PollOutcome, Out.isPending] using hs', by simp [hp.2], by simp⟩

/-- **waker law, write half** (statement as for the read half) -/
theorem AWrite.call_wake (a : AWrite) (e : Entry) (t : Nat) (g : AWrite → AWrite × Out)
    (hg : ∀ b : AWrite, Settled a.w.parked (wobs b.w) → WSpec a.w.parked e { b with slots := b.slots.set e (some t) } (g b))
    (h : WakeInv a.owed a.slots a.w.parked) :
    WakeInv (a.call e t g).1.owed (a.call e t g).1.slots (a.call e t g).1.w.parked ∧
    ((a.call e t g).1.w.event = true → ∀ e' t', a.owed.get e' = some t' → t' ∈ (a.call e t g).1.w.woken) := by
  unfold AWrite.call
  simp only
  have hs : Settled a.w.parked (wobs ({ a with w := a.w.clearObs } : AWrite).w) := Settled.untouched
  have hl := hg _ hs
  rcases hq : g { a with w := a.w.clearObs } with ⟨a', o⟩
  rw [hq] at hl
  unfold WSpec at hl
  simp only at hl
  have := wake_step (slots' := a'.slots) (o' := wobs a'.w) (e := e) (t := t) (out := o) h hl.1
    (by intro e' he; rw [hl.2.1 e' he, Slots.get_set_ne _ _ he]) hl.2.2
  simpa [wobs] using this

/-- both halves: the wake invariant of a state of the adapter -/
def WakeOK (s : State) : Prop :=
  WakeInv s.ar.owed s.ar.slots s.ar.r.parked ∧ WakeInv s.aw.owed s.aw.slots s.aw.w.parked

theorem WakeOK.new (base max : Nat) (rs : List RItem) (ws : List WItem) : WakeOK (State.new base max rs ws) :=
  ⟨WakeInv.init, WakeInv.init⟩

/-- the tasks owed a wake-up by the half an operation works on, before the operation -/
def owedBefore (s : State) : Op → Slots
  | .pr .. | .pru .. | .pfb .. | .co .. => s.ar.owed
  | _ => s.aw.owed

/-- observations (event flag, woken tasks) of the half an operation worked on, after the operation -/
def eventAfter (s' : State) : Op → Bool × List Nat
  | .pr .. | .pru .. | .pfb .. | .co .. => (s'.ar.r.event, s'.ar.r.woken)
  | _ => (s'.aw.w.event, s'.aw.w.woken)

theorem WakeOK.step {s : State} (h : WakeOK s) (op : Op) :
    WakeOK (step s op).1 ∧
    ((eventAfter (step s op).1 op).1 = true →
      ∀ e t, (owedBefore s op).get e = some t → t ∈ (eventAfter (step s op).1 op).2) := by
  obtain ⟨hr, hw⟩ := h
  cases op with
  | pr t n =>
    have := ARead.call_wake (f := fun r => r.read n) (fun r => read_obs r n) s.ar .a t hr
    exact ⟨⟨this.1, hw⟩, this.2⟩
  | pru t n =>
    have := ARead.call_wake (f := fun r => r.read n) (fun r => read_obs r n) s.ar .b t hr
    exact ⟨⟨this.1, hw⟩, this.2⟩
  | pfb t =>
    have := ARead.call_wake (f := fun r => (r, r.fillBuf)) (fun r => rfl) s.ar .c t hr
    exact ⟨⟨this.1, hw⟩, this.2⟩
  | co n =>
    have ho := consume_obs s.ar.r.clearObs n
    simp only [PollAdapter.step, eventAfter, owedBefore]
    refine ⟨⟨?_, hw⟩, ?_⟩
    · have hp : (s.ar.r.clearObs.consume n).1.parked = s.ar.r.parked := by
        have := congrArg Obs.parked ho
        simpa [robs, RSide.clearObs] using this
      simp only
      rw [hp]; exact hr
    · intro hev
      have := congrArg Obs.event ho
      simp only [robs] at this
      rw [this] at hev
      simp [RSide.clearObs] at hev
  | pw t bs =>
    have := AWrite.call_wake s.aw .a t (fun a => a.pollWrite t bs) (fun b hb => pollWrite_obs t bs hb) hw
    exact ⟨⟨hr, this.1⟩, this.2⟩
  | pfl t =>
    have := AWrite.call_wake s.aw .b t (fun a => a.pollFlush t) (fun b hb => pollFlush_obs t hb) hw
    exact ⟨⟨hr, this.1⟩, this.2⟩
  | pcl t =>
    have := AWrite.call_wake s.aw .c t (fun a => a.pollClose t) (fun b hb => pollClose_obs t hb) hw
    exact ⟨⟨hr, this.1⟩, this.2⟩

theorem WakeOK.run : ∀ (ops : List Op) {s : State}, WakeOK s → WakeOK (run s ops).1
  | [], s, h => by simpa [PollAdapter.run] using h
  | op :: ops, s, h => by
    simp only [PollAdapter.run]
    exact WakeOK.run ops (h.step op).1


/-- the entry point and task of a poll operation -/
def Op.entry : Op → Option (Entry × Nat)
  | .pr t _ => some (.a, t)
  | .pru t _ => some (.b, t)
  | .pfb t => some (.c, t)
  | .co _ => none
  | .pw t _ => some (.a, t)
  | .pfl t => some (.b, t)
  | .pcl t => some (.c, t)

/-- the wake obligations of the half an operation worked on, after the operation -/
def owedAfterOp (s' : State) : Op → Slots
  | .pr .. | .pru .. | .pfb .. | .co .. => s'.ar.owed
  | _ => s'.aw.owed

def parkedAfterOp (s' : State) : Op → Option (List Nat)
  | .pr .. | .pru .. | .pfb .. | .co .. => s'.ar.r.parked
  | _ => s'.aw.w.parked

/-- a call that returns Pending records the obligation for its own entry point -/
theorem step_pending_owed (s : State) (op : Op) (e : Entry) (t : Nat) (he : op.entry = some (e, t))
    (hp : (step s op).2 = .pending) : (owedAfterOp (step s op).1 op).get e = some t := by
  cases op <;> simp only [Op.entry, Option.some.injEq, Prod.mk.injEq, reduceCtorEq] at he <;>
    obtain ⟨rfl, rfl⟩ := he <;>
    simp only [PollAdapter.step, ARead.call, AWrite.call, owedAfterOp] at hp ⊢ <;>
    simp [owedAfter, hp]

/-- **Pending ⇒ registered**: in a state satisfying the wake invariant, a call that returns
Pending leaves the inner stream parked with a waker snapshot that contains the caller -/
theorem step_pending_registered {s : State} (h : WakeOK s) (op : Op) (e : Entry) (t : Nat)
    (he : op.entry = some (e, t)) (hp : (step s op).2 = .pending) :
    ∃ snap, parkedAfterOp (step s op).1 op = some snap ∧ t ∈ snap := by
  have ho := step_pending_owed s op e t he hp
  have hw := (h.step op).1
  cases op <;> simp only [Op.entry, reduceCtorEq] at he <;>
    first
    | exact hw.1.snap e t ho
    | exact hw.2.snap e t ho


/-! ### fuel independence of the two retry loops -/

/-- more fuel never changes a result that was reached without running out of fuel -/
theorem ARead.pollLoop_stable (e : Entry) (f : RSide → RSide × Res Bytes) :
    ∀ (n : Nat) (a : ARead), (a.pollLoop e f n).2 ≠ .hang → a.pollLoop e f (n + 1) = a.pollLoop e f n
  | 0, a, h => by simp [ARead.pollLoop] at h
  | n + 1, a, h => by
    unfold ARead.pollLoop at h ⊢
    rcases hq : f a.r with ⟨r', res⟩
    rw [hq] at h
    cases res with
    | ok b => rfl
    | panic => rfl
    | err k =>
      cases k with
      | wb =>
        simp only at h ⊢
        rcases hq2 : ({ a with r := r' } : ARead).pollImpl with ⟨a', o⟩
        rw [hq2] at h
        cases o with
        | none => rfl
        | some r =>
          cases r with
          | ok _ => exact ARead.pollLoop_stable e f n a' h
          | err _ => rfl
          | panic => rfl
      | oom => rfl
      | wz => rfl
      | other => rfl

theorem AWrite.writeLoop_stable (src : Bytes) :
    ∀ (n : Nat) (a : AWrite), (a.writeLoop src n).2 ≠ .hang → a.writeLoop src (n + 1) = a.writeLoop src n
  | 0, a, h => by simp [AWrite.writeLoop] at h
  | n + 1, a, h => by
    unfold AWrite.writeLoop at h ⊢
    rcases hq : a.w.write src with ⟨w', res⟩
    rw [hq] at h
    cases res with
    | ok b => rfl
    | panic => rfl
    | err k =>
      cases k with
      | wb =>
        simp only at h ⊢
        rcases hq2 : ({ a with w := w' } : AWrite).pollFlushImpl with ⟨a', o⟩
        rw [hq2] at h
        cases o with
        | none => rfl
        | some r =>
          cases r with
          | ok _ => exact AWrite.writeLoop_stable src n a' h
          | err _ => rfl
          | panic => rfl
      | oom => rfl
      | wz => rfl
      | other => rfl


/-! ### write half: no panic, and the two `debug_assert!`s hold, while the caller respects `Guard` -/

structure WSafe (a : AWrite) : Prop where
  inv : WInv a.w
  clean : Clean a
  fut : FutInv a.w a.wfut
  /-- a shutdown is only ever in flight with no flush future and nothing buffered -/
  shut : a.sfut = true → a.wfut = .idle ∧ Flushed a.w
  excl : a.closed = true → a.sfut = false

theorem WSafe.new (base max : Nat) (ws : List WItem) : WSafe (AWrite.new base max ws) where
  inv := WInv.new base max ws
  clean := by intro t ht; cases ht
  fut := by simp [AWrite.new, FutInv, WSide.new, Buf.new]
  shut := by simp [AWrite.new]
  excl := by simp [AWrite.new]

theorem pollFlushImpl_safe {a : AWrite} (h : WSafe a) (hs : a.sfut = false) :
    a.pollFlushImpl.2 ≠ some .panic ∧ WSafe a.pollFlushImpl.1 ∧ a.pollFlushImpl.1.sfut = false ∧
    (∀ m, a.pollFlushImpl.2 = some (.ok m) → a.pollFlushImpl.1.wfut = .idle ∧ Flushed a.pollFlushImpl.1.w) := by
  have h1 := (AWrite.pollFlushImpl_ok a).inv h.inv
  have h2 := AWrite.pollFlushImpl_clean h.clean h.inv
  have h3 := WSide.flushResume_nopanic h.inv a.slots.tasks a.wfut h.fut
  unfold AWrite.pollFlushImpl at *
  rcases hq : a.w.flushResume a.slots.tasks a.wfut with ⟨w', fut', res⟩
  rw [hq] at h1 h2 h3
  simp only at h1 h2 h3 ⊢
  refine ⟨h3.1, ⟨h1, h2.1, h3.2, by simp [hs], by simp [hs]⟩, hs, ?_⟩
  intro m hm
  exact ⟨h2.2.2 (by simp [hm]), h2.2.1 m hm⟩

theorem pollCloseImpl_safe {a : AWrite} (h : WSafe a) (hpre : a.sfut = true ∨ (a.wfut = .idle ∧ Flushed a.w)) :
    a.pollCloseImpl.2 ≠ some .panic ∧ WSafe a.pollCloseImpl.1 ∧ a.pollCloseImpl.1.wfut = a.wfut ∧
    (a.pollCloseImpl.2 ≠ none → a.pollCloseImpl.1.sfut = false) := by
  have hpre' : a.wfut = .idle ∧ Flushed a.w := by
    rcases hpre with hs | hp
    · exact h.shut hs
    · exact hp
  have hc := AWrite.pollCloseImpl_clean h.clean
  have hi := (AWrite.pollCloseImpl_ok a).inv h.inv
  unfold AWrite.pollCloseImpl at *
  by_cases hcl : a.closed = true
  · simp only [hcl, if_true] at hc hi ⊢
    exact ⟨by simp, h, trivial, fun _ => h.excl hcl⟩
  · have hcl' : a.closed = false := by simpa using hcl
    simp only [hcl', Bool.false_eq_true, if_false] at hc hi ⊢
    have h2 := WSide.shutdownPoll_same a.w a.slots.tasks
    have h3 := WSide.shutdownPoll_nopanic a.w a.slots.tasks
    rcases hq : a.w.shutdownPoll a.slots.tasks with ⟨w', res⟩
    rw [hq] at h2 h3 hc hi
    simp only at h2 h3
    have hfut : FutInv w' a.wfut := by
      rw [hpre'.1]
      have := h.fut
      rw [hpre'.1] at this
      simpa [FutInv, h2.1] using this
    have hfl : Flushed w' := by
      have := hpre'.2; unfold Flushed at *; rw [h2.1, h2.2.1, h2.2.2.1]; exact this
    cases res with
    | none =>
      exact ⟨by simp, ⟨hi, hc.1, hfut, fun _ => ⟨hpre'.1, hfl⟩, by simp [hcl']⟩, rfl, by simp⟩
    | some r =>
      cases r with
      | ok u => exact ⟨by simp, ⟨hi, hc.1, hfut, by simp, by simp⟩, rfl, fun _ => rfl⟩
      | err k => exact ⟨by simp, ⟨hi, hc.1, hfut, by simp, by simp⟩, rfl, fun _ => rfl⟩
      | panic => exact absurd rfl h3

theorem shutdownGate_safe {a : AWrite} (h : WSafe a) :
    a.shutdownGate.2 ≠ some .panic ∧ WSafe a.shutdownGate.1 ∧ a.shutdownGate.1.wfut = a.wfut ∧
    (a.shutdownGate.2 = none → a.shutdownGate.1.sfut = false) := by
  unfold AWrite.shutdownGate
  by_cases hs : a.sfut = true
  · simp only [hs, if_true]
    have hidle := (h.shut hs).1
    simp only [hidle, ne_eq, not_true_eq_false, if_false]
    have hp := pollCloseImpl_safe h (Or.inl hs)
    rcases hq : a.pollCloseImpl with ⟨a', o⟩
    rw [hq] at hp
    simp only at hp
    cases o with
    | none => exact ⟨by simp, hp.2.1, by rw [hp.2.2.1, hidle], by simp⟩
    | some r =>
      cases r with
      | ok u => exact ⟨by simp, hp.2.1, by rw [hp.2.2.1, hidle], fun _ => hp.2.2.2 (by simp)⟩
      | err k => exact ⟨by simp, hp.2.1, by rw [hp.2.2.1, hidle], by simp⟩
      | panic => exact absurd rfl hp.1
  · have hs' : a.sfut = false := by simpa using hs
    simp only [hs', Bool.false_eq_true, if_false]
    exact ⟨by simp, h, trivial, fun _ => trivial⟩


theorem WSafe.of_slots {a : AWrite} (h : WSafe a) (sl : Slots) : WSafe { a with slots := sl } :=
  ⟨h.inv, h.clean, h.fut, h.shut, h.excl⟩

theorem writeLoopA_safe (src : Bytes) : ∀ (fuel : Nat) {a : AWrite}, WSafe a → a.sfut = false →
    (∀ t, a.wfut ≠ .flushing t) → (a.writeLoop src fuel).2 ≠ .panic ∧ WSafe (a.writeLoop src fuel).1
  | 0, a, h, _, _ => by simpa [AWrite.writeLoop] using h
  | fuel + 1, a, h, hs, hn => by
    unfold AWrite.writeLoop
    have h1 := h.inv.write src
    have h2 := WSide.write_nopanic h.inv src
    have h3 := WSide.write_futinv h.inv src a.wfut h.fut
    rcases hq : a.w.write src with ⟨w', res⟩
    rw [hq] at h1 h2 h3
    simp only at h1 h2 h3
    have ha : WSafe { a with w := w' } :=
      ⟨h1, Clean.of_not_flushing hn, h3, by simp [hs], h.excl⟩
    cases res with
    | ok n => exact ⟨by simp, ha.of_slots _⟩
    | panic => exact absurd rfl h2.1
    | err k =>
      cases k with
      | wb =>
        simp only
        have hp := pollFlushImpl_safe ha hs
        rcases hq2 : ({ a with w := w' } : AWrite).pollFlushImpl with ⟨a', o⟩
        rw [hq2] at hp
        simp only at hp
        cases o with
        | none => exact ⟨by simp, hp.2.1⟩
        | some r =>
          cases r with
          | ok m =>
            refine writeLoopA_safe src fuel hp.2.1 hp.2.2.1 ?_
            intro t ht
            rw [(hp.2.2.2 m rfl).1] at ht; cases ht
          | err _ => exact ⟨by simp, hp.2.1⟩
          | panic => exact absurd rfl hp.1
      | oom => exact ⟨by simp, ha.of_slots _⟩
      | wz => exact ⟨by simp, ha.of_slots _⟩
      | other => exact ⟨by simp, ha.of_slots _⟩

theorem pollWrite_safe {a : AWrite} (t : Nat) (src : Bytes) (h : WSafe a) (hn : ∀ t, a.wfut ≠ .flushing t) :
    (a.pollWrite t src).2 ≠ .panic ∧ WSafe (a.pollWrite t src).1 := by
  unfold AWrite.pollWrite
  simp only
  have hg := shutdownGate_safe (h.of_slots (a.slots.set .a (some t)))
  rcases hq : ({ a with slots := a.slots.set .a (some t) } : AWrite).shutdownGate with ⟨a', o⟩
  rw [hq] at hg
  simp only at hg
  cases o with
  | some o => exact ⟨fun ho => hg.1 (congrArg some ho), hg.2.1⟩
  | none =>
    refine writeLoopA_safe src _ hg.2.1 (hg.2.2.2 rfl) ?_
    intro t' ht'
    rw [hg.2.2.1] at ht'
    exact hn t' ht'

theorem pollFlush_safe {a : AWrite} (t : Nat) (h : WSafe a) :
    (a.pollFlush t).2 ≠ .panic ∧ WSafe (a.pollFlush t).1 := by
  unfold AWrite.pollFlush
  simp only
  have hg := shutdownGate_safe (h.of_slots (a.slots.set .b (some t)))
  rcases hq : ({ a with slots := a.slots.set .b (some t) } : AWrite).shutdownGate with ⟨a', o⟩
  rw [hq] at hg
  simp only at hg
  cases o with
  | some o => exact ⟨fun ho => hg.1 (congrArg some ho), hg.2.1⟩
  | none =>
    simp only
    have hp := pollFlushImpl_safe hg.2.1 (hg.2.2.2 rfl)
    rcases hq2 : a'.pollFlushImpl with ⟨a'', o2⟩
    rw [hq2] at hp
    simp only at hp
    cases o2 with
    | none => exact ⟨by simp, hp.2.1⟩
    | some r =>
      cases r with
      | ok _ => exact ⟨by simp, hp.2.1.of_slots _⟩
      | err _ => exact ⟨by simp, hp.2.1.of_slots _⟩
      | panic => exact absurd rfl hp.1

theorem closeTail_safe {a : AWrite} (h : WSafe a) (hpre : a.sfut = true ∨ (a.wfut = .idle ∧ Flushed a.w)) :
    a.closeTail.2 ≠ .panic ∧ WSafe a.closeTail.1 := by
  unfold AWrite.closeTail
  have hp := pollCloseImpl_safe h hpre
  rcases hq : a.pollCloseImpl with ⟨a', o⟩
  rw [hq] at hp
  simp only at hp
  cases o with
  | none => exact ⟨by simp, hp.2.1⟩
  | some r =>
    cases r with
    | ok _ => exact ⟨by simp, hp.2.1.of_slots _⟩
    | err _ => exact ⟨by simp, hp.2.1.of_slots _⟩
    | panic => exact absurd rfl hp.1

theorem closeBody_safe {a : AWrite} (h : WSafe a) : a.closeBody.2 ≠ .panic ∧ WSafe a.closeBody.1 := by
  unfold AWrite.closeBody
  simp only
  -- the flush branch, entered with no shutdown in flight
  have hflush : a.sfut = false →
      (match a.pollFlushImpl with
        | (a', none) => (a', Out.pending)
        | (a', some (.ok _)) => a'.closeTail
        | (a', some (.err k)) => (a', .err k)
        | (a', some .panic) => (a', .panic)).2 ≠ .panic ∧
      WSafe (match a.pollFlushImpl with
        | (a', none) => (a', Out.pending)
        | (a', some (.ok _)) => a'.closeTail
        | (a', some (.err k)) => (a', .err k)
        | (a', some .panic) => (a', .panic)).1 := by
    intro hs'
    have hp := pollFlushImpl_safe h hs'
    rcases hq2 : a.pollFlushImpl with ⟨a'', o2⟩
    rw [hq2] at hp
    simp only at hp
    cases o2 with
    | none => exact ⟨by simp, hp.2.1⟩
    | some r =>
      cases r with
      | ok m => exact closeTail_safe hp.2.1 (Or.inr (hp.2.2.2 m rfl))
      | err _ => exact ⟨by simp, hp.2.1⟩
      | panic => exact absurd rfl hp.1
  cases hwf : a.wfut with
  | idle =>
    have hl : a.w.buf.lent = false := by have := h.fut; rw [hwf] at this; exact this
    simp only [ne_eq, not_true_eq_false, if_false, WSide.hasPending, hl, Bool.false_eq_true]
    by_cases hd : a.w.buf.data.length = 0
    · simp only [hd, ne_eq, not_true_eq_false, decide_false]
      have hfl : Flushed a.w := by
        have hdd : a.w.buf.data = [] := List.length_eq_zero_iff.mp hd
        have hp : a.w.buf.pos = 0 := by have := h.inv.pos_le; rw [hd] at this; omega
        refine ⟨?_, hdd, hp⟩
        have := h.inv.fifo
        simp only [Buf.avail, hdd, List.drop_nil, List.append_nil] at this
        exact this.symm
      exact closeTail_safe h (Or.inr ⟨hwf, hfl⟩)
    · simp only [hd, ne_eq, not_false_eq_true, decide_true]
      by_cases hs : a.sfut = true
      · have := (h.shut hs).2.2.1
        rw [this] at hd; simp at hd
      · have hs' : a.sfut = false := by simpa using hs
        simp only [hs', Bool.false_eq_true, if_false]
        exact hflush hs'
  | writing t' =>
    have hs' : a.sfut = false := by
      cases hs : a.sfut
      · rfl
      · have := (h.shut hs).1; rw [hwf] at this; cases this
    simp only [ne_eq, reduceCtorEq, not_false_eq_true, if_true, hs', Bool.false_eq_true, if_false]
    exact hflush hs'
  | flushing t' =>
    have hs' : a.sfut = false := by
      cases hs : a.sfut
      · rfl
      · have := (h.shut hs).1; rw [hwf] at this; cases this
    simp only [ne_eq, reduceCtorEq, not_false_eq_true, if_true, hs', Bool.false_eq_true, if_false]
    exact hflush hs'

theorem pollClose_safe {a : AWrite} (t : Nat) (h : WSafe a) :
    (a.pollClose t).2 ≠ .panic ∧ WSafe (a.pollClose t).1 := by
  unfold AWrite.pollClose
  exact closeBody_safe (h.of_slots _)

theorem WSafe.clearObs {a : AWrite} (h : WSafe a) : WSafe { a with w := a.w.clearObs } where
  inv := h.inv.clearObs
  clean := h.clean.clearObs
  fut := by
    have := h.fut
    cases hw : a.wfut <;> simp_all [FutInv, WSide.clearObs]
  shut := by
    intro hs
    have := h.shut hs
    exact ⟨this.1, by have := this.2; unfold Flushed at *; simpa [WSide.clearObs] using this⟩
  excl := h.excl

theorem WSafe.of_call {a : AWrite} {e : Entry} {t : Nat} {g : AWrite → AWrite × Out}
    (h : WSafe (g { a with w := a.w.clearObs }).1) : WSafe (a.call e t g).1 := by
  unfold AWrite.call
  simp only
  exact ⟨h.inv, h.clean, h.fut, h.shut, h.excl⟩

/-- is this the output `panic` of a write-half entry point -/
def writePanic : Op → Out → Prop
  | .pw .., .panic => True
  | .pfl .., .panic => True
  | .pcl .., .panic => True
  | _, _ => False

theorem WSafe.step {s : State} (h : WSafe s.aw) (op : Op) (hg : Guard s op) :
    ¬ writePanic op (step s op).2 ∧ WSafe (step s op).1.aw := by
  have h0 := h.clearObs
  cases op with
  | pr t n => exact ⟨by simp [writePanic], h⟩
  | pru t n => exact ⟨by simp [writePanic], h⟩
  | pfb t => exact ⟨by simp [writePanic], h⟩
  | co n => exact ⟨by simp [writePanic], h⟩
  | pw t bs =>
    have hn : ∀ t', ({ s.aw with w := s.aw.w.clearObs } : AWrite).wfut ≠ .flushing t' := by
      intro t' ht'
      simp only [Guard] at hg
      simp only at ht'
      rw [ht'] at hg
      simp [isFlushing] at hg
    have := pollWrite_safe t bs h0 hn
    simp only [PollAdapter.step]
    refine ⟨?_, WSafe.of_call this.2⟩
    rw [(AWrite.call_w _ _ _ _).2]
    intro hp
    cases ho : ({ s.aw with w := s.aw.w.clearObs } : AWrite).pollWrite t bs |>.2 <;> simp_all [writePanic]
  | pfl t =>
    have := pollFlush_safe t h0
    simp only [PollAdapter.step]
    refine ⟨?_, WSafe.of_call this.2⟩
    rw [(AWrite.call_w _ _ _ _).2]
    intro hp
    cases ho : ({ s.aw with w := s.aw.w.clearObs } : AWrite).pollFlush t |>.2 <;> simp_all [writePanic]
  | pcl t =>
    have := pollClose_safe t h0
    simp only [PollAdapter.step]
    refine ⟨?_, WSafe.of_call this.2⟩
    rw [(AWrite.call_w _ _ _ _).2]
    intro hp
    cases ho : ({ s.aw with w := s.aw.w.clearObs } : AWrite).pollClose t |>.2 <;> simp_all [writePanic]

/-- no output of a write-half entry point in the run is `panic` -/
def NoWritePanic : List Op → List Out → Prop
  | op :: ops, o :: os => ¬ writePanic op o ∧ NoWritePanic ops os
  | _, _ => True

theorem WSafe.run : ∀ (ops : List Op) {s : State}, WSafe s.aw → GuardedRun s ops →
    NoWritePanic ops (run s ops).2 ∧ WSafe (run s ops).1.aw
  | [], s, h, _ => by simpa [PollAdapter.run, NoWritePanic] using h
  | op :: ops, s, h, hg => by
    simp only [PollAdapter.run, NoWritePanic]
    have h1 := h.step op hg.1
    have h2 := WSafe.run ops h1.2 hg.2
    exact ⟨⟨h1.1, h2.1⟩, h2.2⟩


/-! ### termination of the retry loops (with a measure: at most two rounds on the read half, three on
the write half), under the guards "no earlier panic on the half" (read) and `0 < max` (write) -/

/-- the synchronous read calls succeed on such a buffer: in place, and holding data or at EOF -/
def RReady (r : RSide) : Prop := r.buf.lent = false ∧ (r.buf.avail ≠ [] ∨ r.eof = true)

theorem fillPoll_ok_ready {C r} (h : RInv C r) (snap : List Nat) (n : Nat)
    (ho : (r.fillPoll snap).2 = some (.ok n)) : RReady (r.fillPoll snap).1 := by
  have hp := h.pos_le
  unfold RSide.fillPoll at ho ⊢
  split at ho <;> simp only [reduceCtorEq, Option.some.injEq, Res.ok.injEq] at ho
  · rename_i bs rest hs
    simp only [hs]
    refine ⟨by simp, ?_⟩
    by_cases h0 : min bs.length (r.wake.buf.cap - r.wake.buf.data.length) = 0
    · right
      simp only [RSide.wake_buf] at h0
      have : bs.length = 0 ∨ r.buf.cap - r.buf.data.length = 0 := by omega
      rcases this with h1 | h1
      · simp [h1]
      · simp [h1]
    · left
      simp only [Buf.avail, RSide.wake_buf, ne_eq, List.drop_eq_nil_iff, List.length_append, List.length_take,
        Nat.not_le]
      simp only [RSide.wake_buf] at h0
      omega
  · rename_i rest hs
    simp only [hs]
    exact ⟨by simp, Or.inr (by simp)⟩
  · rename_i hs
    simp only [hs]
    exact ⟨by simp, Or.inr (by simp)⟩

/-- the state in which `fill_read_buf` awaits the inner read -/
def _root_.Compio.SyncStream.RSide.started (r : RSide) : RSide :=
  { r with buf := { r.buf.compactTo r.base r.max with
      cap := growCap (r.buf.compactTo r.base r.max).data.length (r.buf.compactTo r.base r.max).cap r.base,
      lent := true } }

theorem _root_.Compio.SyncStream.RSide.fillStart_eq_started {r : RSide} (he : r.eof = false) (hl : r.buf.lent = false)
    (hm : ¬ r.max ≤ (r.buf.compactTo r.base r.max).data.length) : r.fillStart = (r.started, none) := by
  unfold RSide.fillStart RSide.started
  simp [he, hl, hm]

theorem _root_.Compio.SyncStream.RSide.fillStart_eof {r : RSide} (he : r.eof = true) : r.fillStart = (r, some (.ok 0)) := by
  simp [RSide.fillStart, he]

theorem _root_.Compio.SyncStream.RSide.fillStart_oom {r : RSide} (he : r.eof = false) (hl : r.buf.lent = false)
    (hm : r.max ≤ (r.buf.compactTo r.base r.max).data.length) :
    r.fillStart = ({ r with buf := r.buf.compactTo r.base r.max }, some (.err .oom)) := by
  simp [RSide.fillStart, he, hl, hm]

/-- the buffer is lent exactly while the fill future is in flight (breaks only by a panic) -/
def NoLossR (a : ARead) : Prop := a.r.buf.lent = a.fut

theorem pollImpl_term {C a} (h : ARInv C a) (hn : NoLossR a) :
    (∀ n, a.pollImpl.2 = some (.ok n) → RReady a.pollImpl.1.r) ∧
    (a.pollImpl.2 ≠ some .panic → NoLossR a.pollImpl.1) := by
  unfold NoLossR at hn ⊢
  unfold ARead.pollImpl
  simp only
  by_cases hf : a.fut = true
  · simp only [hf, if_true]
    obtain ⟨he, hl⟩ := h.fut_ok hf
    have h1 := fillPoll_ok_ready h.inv a.slots.tasks
    have h2 := RSide.fillPoll_nopanic a.r a.slots.tasks
    have h3 := @RSide.fillPoll_pending a.r
    rcases hq : a.r.fillPoll a.slots.tasks with ⟨r', o⟩
    rw [hq] at h1 h2
    cases o with
    | none =>
      refine ⟨by simp, fun _ => ?_⟩
      simp only
      rw [(h3 hq).2]; exact hl
    | some res => exact ⟨fun n hn' => h1 n hn', fun _ => by simpa using h2.2 (by simp)⟩
  · have hf' : a.fut = false := by simpa using hf
    have hl : a.r.buf.lent = false := by rw [hn, hf']
    simp only [hf', Bool.false_eq_true, if_false]
    by_cases he : a.r.eof = true
    · rw [RSide.fillStart_eof he]
      exact ⟨fun _ _ => ⟨hl, Or.inr he⟩, fun _ => by simp [hl, hf']⟩
    · have he' : a.r.eof = false := by simpa using he
      by_cases hm : a.r.max ≤ (a.r.buf.compactTo a.r.base a.r.max).data.length
      · rw [RSide.fillStart_oom he' hl hm]
        exact ⟨by simp, fun _ => by simp [Buf.compactTo_lent, hl, hf']⟩
      · have hst := RSide.fillStart_eq_started he' hl hm
        have hs := h.inv.fillStart
        rw [hst] at hs ⊢
        simp only
        have h1 := fillPoll_ok_ready hs a.slots.tasks
        have h2 := RSide.fillPoll_nopanic a.r.started a.slots.tasks
        have h3 := @RSide.fillPoll_pending a.r.started
        rcases hq : a.r.started.fillPoll a.slots.tasks with ⟨r', o⟩
        rw [hq] at h1 h2
        cases o with
        | none =>
          refine ⟨by simp, fun _ => ?_⟩
          simp only
          rw [(h3 hq).2]
          rfl
        | some res => exact ⟨fun n hn' => h1 n hn', fun _ => by simpa using h2.2 (by simp)⟩

/-- what termination needs to know about the wrapped synchronous call -/
structure SyncCallT (C : Bytes) (f : RSide → RSide × Res Bytes) : Prop extends SyncCall C f where
  ready : ∀ r, RInv C r → RReady r → (f r).2 ≠ .err .wb
  wb_same : ∀ r, (f r).2 = .err .wb → (f r).1 = r
  keeps : ∀ r, RInv C r → (f r).2 ≠ .panic → (f r).1.buf.lent = r.buf.lent

theorem SyncCallT.read (C : Bytes) (n : Nat) : SyncCallT C (fun r => r.read n) where
  toSyncCall := SyncCall.read C n
  ready r h hr := by
    unfold RSide.read RSide.fillBuf
    simp only [hr.1, Bool.false_eq_true, if_false]
    have hw : (r.buf.avail.isEmpty && !r.eof) = false := by
      rcases hr.2 with h1 | h1
      · have : r.buf.avail.isEmpty = false := by simpa using h1
        simp [this]
      · simp [h1]
    simp only [hw, Bool.false_eq_true, if_false]
    have := RSide.consume_nopanic h (min r.buf.avail.length n) hr.1 (Nat.min_le_left _ _)
    intro hc
    have h1 : ¬ r.buf.cap < r.buf.pos + min r.buf.avail.length n := by
      have := h.pos_le; have := h.len_le; simp only [Buf.avail, List.length_drop]; omega
    have h2 : ¬ r.buf.data.length < r.buf.pos + min r.buf.avail.length n := by
      have := h.pos_le; simp only [Buf.avail, List.length_drop]; omega
    rw [RSide.consume_ok hr.1 h1 h2] at hc
    simp at hc
  wb_same r hw := by
    unfold RSide.read at hw ⊢
    split at hw
    · rename_i av hav
      -- `consume` never answers WouldBlock
      exfalso
      by_cases hl : r.buf.lent = true
      · rw [RSide.consume_lent _ hl] at hw; simp at hw
      · have hl : r.buf.lent = false := by simpa using hl
        by_cases h1 : r.buf.cap < r.buf.pos + min av.length n
        · rw [RSide.consume_panic hl h1] at hw; simp at hw
        · by_cases h2 : r.buf.data.length < r.buf.pos + min av.length n
          · rw [RSide.consume_lost hl h1 h2] at hw; simp at hw
          · rw [RSide.consume_ok hl h1 h2] at hw; simp at hw
    · rfl
    · rfl
  keeps r h hp := by
    by_cases hl : r.buf.lent = true
    · have : r.read n = (r, .err .wb) := by simp [RSide.read, RSide.fillBuf, hl]
      rw [this]
    · have hl : r.buf.lent = false := by simpa using hl
      rw [(RSide.read_nopanic h n hl).2, hl]

theorem SyncCallT.fillBuf (C : Bytes) : SyncCallT C (fun r => (r, r.fillBuf)) where
  toSyncCall := SyncCall.fillBuf C
  ready r _ hr := by
    unfold RSide.fillBuf
    simp only [hr.1, Bool.false_eq_true, if_false]
    have hw : (r.buf.avail.isEmpty && !r.eof) = false := by
      rcases hr.2 with h1 | h1
      · have : r.buf.avail.isEmpty = false := by simpa using h1
        simp [this]
      · simp [h1]
    simp [hw]
  wb_same r _ := rfl
  keeps r _ _ := rfl

/-- a ready buffer ends the loop in one round -/
theorem pollLoop_ready {C} {f : RSide → RSide × Res Bytes} (hf : SyncCallT C f) (e : Entry) (n : Nat) {a : ARead}
    (h : ARInv C a) (hr : RReady a.r) : (a.pollLoop e f (n + 1)).2 ≠ .hang := by
  unfold ARead.pollLoop
  have := hf.ready a.r h.inv hr
  rcases hq : f a.r with ⟨r', res⟩
  rw [hq] at this
  cases res with
  | ok b => simp
  | panic => simp
  | err k => cases k <;> simp_all

/-- **measure**: two rounds suffice — after a round that polled the fill future to `Ok`, the buffer is ready -/
theorem pollLoop_term {C} {f : RSide → RSide × Res Bytes} (hf : SyncCallT C f) (e : Entry) (n : Nat) {a : ARead}
    (h : ARInv C a) (hn : NoLossR a) : (a.pollLoop e f (n + 2)).2 ≠ .hang := by
  unfold ARead.pollLoop
  have hsame := hf.wb_same a.r
  rcases hq : f a.r with ⟨r', res⟩
  rw [hq] at hsame
  cases res with
  | ok b => simp
  | panic => simp
  | err k =>
    cases k with
    | wb =>
      have hr' : r' = a.r := hsame rfl
      subst hr'
      simp only
      have hp := pollImpl_term h hn
      have hi := h.pollImpl
      rcases hq2 : ({ a with r := a.r } : ARead).pollImpl with ⟨a', o⟩
      have haa : ({ a with r := a.r } : ARead) = a := rfl
      rw [haa] at hq2
      rw [hq2] at hp hi
      cases o with
      | none => simp
      | some res2 =>
        cases res2 with
        | ok m => exact pollLoop_ready hf e n hi (hp.1 m rfl)
        | err _ => simp
        | panic => simp
    | oom => simp
    | wz => simp
    | other => simp

theorem pollLoop_noloss {C} {f : RSide → RSide × Res Bytes} (hf : SyncCallT C f) (e : Entry) :
    ∀ (fuel : Nat) {a : ARead}, ARInv C a → NoLossR a → (a.pollLoop e f fuel).2 ≠ .panic →
      NoLossR (a.pollLoop e f fuel).1
  | 0, a, _, hn, _ => by simpa [ARead.pollLoop] using hn
  | fuel + 1, a, h, hn, hp => by
    unfold ARead.pollLoop at hp ⊢
    have hk := hf.keeps a.r h.inv
    have hsame := hf.wb_same a.r
    have hinv := hf.inv a.r h.inv
    rcases hq : f a.r with ⟨r', res⟩
    rw [hq] at hk hsame hinv hp
    unfold NoLossR at hn ⊢
    cases res with
    | ok b => simp only; rw [hk (by simp)]; exact hn
    | panic => simp at hp
    | err k =>
      cases k with
      | wb =>
        have hr' : r' = a.r := hsame rfl
        subst hr'
        simp only at hp ⊢
        have hpi := pollImpl_term h hn
        have hi := h.pollImpl
        rcases hq2 : ({ a with r := a.r } : ARead).pollImpl with ⟨a', o⟩
        have haa : ({ a with r := a.r } : ARead) = a := rfl
        rw [haa] at hq2
        rw [hq2] at hpi hi hp
        cases o with
        | none => exact hpi.2 (by simp)
        | some res2 =>
          cases res2 with
          | ok m => exact pollLoop_noloss hf e fuel hi (hpi.2 (by simp)) hp
          | err _ => exact hpi.2 (by simp)
          | panic => simp at hp
      | oom => simp only; rw [hk (by simp)]; exact hn
      | wz => simp only; rw [hk (by simp)]; exact hn
      | other => simp only; rw [hk (by simp)]; exact hn


/-- a property of every (operation, output) pair of a run -/
def AllOuts (P : Op → Out → Prop) : List Op → List Out → Prop
  | op :: ops, o :: os => P op o ∧ AllOuts P ops os
  | _, _ => True

def isReadOp : Op → Bool
  | .pr .. | .pru .. | .pfb .. | .co .. => true
  | _ => false

/-- invariant of the read half as long as none of its calls panicked -/
def ReadOK (C : Bytes) (s : State) : Prop := ARInv C s.ar ∧ NoLossR s.ar

theorem ARead.call_term {C} {f : RSide → RSide × Res Bytes} (hf : SyncCallT C f) (a : ARead) (e : Entry) (t : Nat)
    (h : ARInv C a) (hn : NoLossR a) :
    (a.call e t f).2 ≠ .hang ∧ ((a.call e t f).2 ≠ .panic → NoLossR (a.call e t f).1) := by
  unfold ARead.call ARead.poll
  simp only
  have h0 : ARInv C { a with r := a.r.clearObs, slots := a.slots.set e (some t) } :=
    ⟨h.inv.clearObs, by simpa [RSide.clearObs] using h.fut_ok⟩
  have hn0 : NoLossR { a with r := a.r.clearObs, slots := a.slots.set e (some t) } := by
    simpa [NoLossR, RSide.clearObs] using hn
  have hfuel : loopFuel + a.r.clearObs.script.length = (2 + a.r.clearObs.script.length) + 2 := by
    unfold loopFuel; omega
  refine ⟨?_, ?_⟩
  · rw [hfuel]; exact pollLoop_term hf e _ h0 hn0
  · intro hp
    have := pollLoop_noloss hf e (loopFuel + a.r.clearObs.script.length) h0 hn0 hp
    simpa [NoLossR] using this

theorem ReadOK.step {C s} (h : ReadOK C s) (hw : WInv s.aw.w) (op : Op) :
    (isReadOp op = true → (step s op).2 ≠ .hang) ∧
    ((isReadOp op = true → (step s op).2 ≠ .panic) → ReadOK C (step s op).1) := by
  have hinv := (AInv.step (C := C) (s := s) ⟨h.1, hw⟩ op).1
  cases op with
  | pr t n =>
    have := ARead.call_term (SyncCallT.read C n) s.ar .a t h.1 h.2
    exact ⟨fun _ => this.1, fun hp => ⟨hinv, this.2 (hp rfl)⟩⟩
  | pru t n =>
    have := ARead.call_term (SyncCallT.read C n) s.ar .b t h.1 h.2
    exact ⟨fun _ => this.1, fun hp => ⟨hinv, this.2 (hp rfl)⟩⟩
  | pfb t =>
    have := ARead.call_term (SyncCallT.fillBuf C) s.ar .c t h.1 h.2
    exact ⟨fun _ => this.1, fun hp => ⟨hinv, this.2 (hp rfl)⟩⟩
  | co n =>
    refine ⟨fun _ => ?_, fun hp => ⟨hinv, ?_⟩⟩
    · simp only [PollAdapter.step]
      cases (s.ar.r.clearObs.consume n).2 <;> simp [Out.ofBytes]
    · have hp' := hp rfl
      simp only [PollAdapter.step] at hp' ⊢
      have hn := h.2
      unfold NoLossR at hn ⊢
      simp only
      by_cases hl : s.ar.r.clearObs.buf.lent = true
      · rw [RSide.consume_lent n hl] at hp'
        simp [Out.ofBytes] at hp'
      · have hl : s.ar.r.clearObs.buf.lent = false := by simpa using hl
        by_cases h1 : s.ar.r.clearObs.buf.cap < s.ar.r.clearObs.buf.pos + n
        · rw [RSide.consume_panic hl h1] at hp'; simp [Out.ofBytes] at hp'
        · by_cases h2 : s.ar.r.clearObs.buf.data.length < s.ar.r.clearObs.buf.pos + n
          · rw [RSide.consume_lost hl h1 h2] at hp'; simp [Out.ofBytes] at hp'
          · rw [RSide.consume_ok hl h1 h2]
            simp only
            rw [← hn]
            have hl' : s.ar.r.buf.lent = false := by simpa [RSide.clearObs] using hl
            split
            · rw [Buf.compactTo_lent]; simp [RSide.clearObs]
            · simp [RSide.clearObs]
  | pw t bs => exact ⟨by simp [isReadOp], fun _ => ⟨hinv, h.2⟩⟩
  | pfl t => exact ⟨by simp [isReadOp], fun _ => ⟨hinv, h.2⟩⟩
  | pcl t => exact ⟨by simp [isReadOp], fun _ => ⟨hinv, h.2⟩⟩

theorem ReadOK.run {C} : ∀ (ops : List Op) {s : State}, ReadOK C s → WInv s.aw.w →
    AllOuts (fun op o => isReadOp op = true → o ≠ .panic) ops (run s ops).2 →
    AllOuts (fun op o => isReadOp op = true → o ≠ .hang) ops (run s ops).2
  | [], s, _, _, _ => by simp [PollAdapter.run, AllOuts]
  | op :: ops, s, h, hw, hp => by
    simp only [PollAdapter.run, AllOuts] at hp ⊢
    have h1 := h.step hw op
    have hw' := (AInv.step (C := C) (s := s) ⟨h.1, hw⟩ op).2
    exact ⟨h1.1, ReadOK.run ops (h1.2 hp.1) hw' hp.2⟩


/-! ### write half: the unconditional invariant and termination for `0 < max` -/

/-- holds in every reachable state of the write half, whatever the caller does -/
def WBase (a : AWrite) : Prop := WInv a.w ∧ FutInv a.w a.wfut

theorem WBase.new (base max : Nat) (ws : List WItem) : WBase (AWrite.new base max ws) :=
  ⟨WInv.new base max ws, by simp [AWrite.new, FutInv, WSide.new, Buf.new]⟩

theorem WBase.of_eq {a b : AWrite} (h : WBase a) (hw : b.w = a.w) (hf : b.wfut = a.wfut) : WBase b := by
  unfold WBase at *; rw [hw, hf]; exact h

theorem pollFlushImpl_base {a : AWrite} (h : WBase a) : WBase a.pollFlushImpl.1 := by
  have h1 := (AWrite.pollFlushImpl_ok a).inv h.1
  have h3 := WSide.flushResume_nopanic h.1 a.slots.tasks a.wfut h.2
  unfold AWrite.pollFlushImpl at *
  rcases hq : a.w.flushResume a.slots.tasks a.wfut with ⟨w', fut', res⟩
  rw [hq] at h1 h3
  exact ⟨h1, h3.2⟩

theorem pollCloseImpl_base {a : AWrite} (h : WBase a) : WBase a.pollCloseImpl.1 := by
  have hi := (AWrite.pollCloseImpl_ok a).inv h.1
  unfold AWrite.pollCloseImpl at *
  split
  · exact h
  · rename_i hcl
    simp only [hcl, if_false] at hi
    have h2 := WSide.shutdownPoll_same a.w a.slots.tasks
    rcases hq : a.w.shutdownPoll a.slots.tasks with ⟨w', res⟩
    rw [hq] at h2 hi
    have hfut : FutInv w' a.wfut := h.2.of_buf_eq h2.1
    cases res with
    | none => exact ⟨hi, hfut⟩
    | some r => cases r <;> exact ⟨hi, hfut⟩

theorem shutdownGate_base {a : AWrite} (h : WBase a) : WBase a.shutdownGate.1 := by
  unfold AWrite.shutdownGate
  split
  · split
    · exact h
    · have := pollCloseImpl_base h
      rcases hq : a.pollCloseImpl with ⟨a', o⟩
      rw [hq] at this
      cases o with
      | none => exact this
      | some r => cases r <;> exact this
  · exact h

theorem closeTail_base {a : AWrite} (h : WBase a) : WBase a.closeTail.1 := by
  unfold AWrite.closeTail
  have := pollCloseImpl_base h
  rcases hq : a.pollCloseImpl with ⟨a', o⟩
  rw [hq] at this
  cases o with
  | none => exact this
  | some r => cases r <;> exact this.of_eq rfl rfl

theorem writeLoopA_base (src : Bytes) : ∀ (fuel : Nat) {a : AWrite}, WBase a → WBase (a.writeLoop src fuel).1
  | 0, a, h => by simpa [AWrite.writeLoop] using h
  | fuel + 1, a, h => by
    unfold AWrite.writeLoop
    have h1 := h.1.write src
    have h3 := WSide.write_futinv h.1 src a.wfut h.2
    rcases hq : a.w.write src with ⟨w', res⟩
    rw [hq] at h1 h3
    have ha : WBase { a with w := w' } := ⟨h1, h3⟩
    cases res with
    | ok n => exact ha.of_eq rfl rfl
    | panic => exact ha
    | err k =>
      cases k with
      | wb =>
        simp only
        have hp := pollFlushImpl_base ha
        rcases hq2 : ({ a with w := w' } : AWrite).pollFlushImpl with ⟨a', o⟩
        rw [hq2] at hp
        cases o with
        | none => exact hp
        | some r =>
          cases r with
          | ok _ => exact writeLoopA_base src fuel hp
          | err _ => exact hp
          | panic => exact hp
      | oom => exact ha.of_eq rfl rfl
      | wz => exact ha.of_eq rfl rfl
      | other => exact ha.of_eq rfl rfl

theorem pollWrite_base {a : AWrite} (t : Nat) (src : Bytes) (h : WBase a) : WBase (a.pollWrite t src).1 := by
  unfold AWrite.pollWrite
  simp only
  have hg := shutdownGate_base (h.of_eq (b := { a with slots := a.slots.set .a (some t) }) rfl rfl)
  rcases hq : ({ a with slots := a.slots.set .a (some t) } : AWrite).shutdownGate with ⟨a', o⟩
  rw [hq] at hg
  cases o with
  | some o => exact hg
  | none => exact writeLoopA_base src _ hg

theorem pollFlush_base {a : AWrite} (t : Nat) (h : WBase a) : WBase (a.pollFlush t).1 := by
  unfold AWrite.pollFlush
  simp only
  have hg := shutdownGate_base (h.of_eq (b := { a with slots := a.slots.set .b (some t) }) rfl rfl)
  rcases hq : ({ a with slots := a.slots.set .b (some t) } : AWrite).shutdownGate with ⟨a', o⟩
  rw [hq] at hg
  cases o with
  | some o => exact hg
  | none =>
    simp only
    have hp := pollFlushImpl_base hg
    rcases hq2 : a'.pollFlushImpl with ⟨a'', o2⟩
    rw [hq2] at hp
    cases o2 with
    | none => exact hp
    | some r => cases r <;> first | exact hp.of_eq rfl rfl | exact hp

theorem closeBody_base {a : AWrite} (h : WBase a) : WBase a.closeBody.1 := by
  unfold AWrite.closeBody
  simp only
  split
  · exact h
  · exact closeTail_base h
  · split
    · exact h
    · have hp := pollFlushImpl_base h
      rcases hq2 : a.pollFlushImpl with ⟨a'', o2⟩
      rw [hq2] at hp
      cases o2 with
      | none => exact hp
      | some r =>
        cases r with
        | ok _ => exact closeTail_base hp
        | err _ => exact hp
        | panic => exact hp

theorem pollClose_base {a : AWrite} (t : Nat) (h : WBase a) : WBase (a.pollClose t).1 := by
  unfold AWrite.pollClose
  exact closeBody_base (h.of_eq rfl rfl)

theorem WBase.clearObs {a : AWrite} (h : WBase a) : WBase { a with w := a.w.clearObs } :=
  ⟨h.1.clearObs, h.2.of_buf_eq rfl⟩

theorem WBase.step {s : State} (h : WBase s.aw) (op : Op) : WBase (step s op).1.aw := by
  have h0 := h.clearObs
  cases op with
  | pr t n => exact h
  | pru t n => exact h
  | pfb t => exact h
  | co n => exact h
  | pw t bs =>
    simp only [PollAdapter.step]
    exact (pollWrite_base t bs h0).of_eq (AWrite.call_w _ _ _ _).1 (AWrite.call_wfut _ _ _ _)
  | pfl t =>
    simp only [PollAdapter.step]
    exact (pollFlush_base t h0).of_eq (AWrite.call_w _ _ _ _).1 (AWrite.call_wfut _ _ _ _)
  | pcl t =>
    simp only [PollAdapter.step]
    exact (pollClose_base t h0).of_eq (AWrite.call_w _ _ _ _).1 (AWrite.call_wfut _ _ _ _)

/-- from a state without a flush future: one flush empties the buffer, then `write` accepts -/
theorem writeLoopA_term_idle (src : Bytes) (n : Nat) {a : AWrite} (h : WBase a) (hidle : a.wfut = .idle)
    (hm : 0 < a.w.max) : (a.writeLoop src (n + 2)).2 ≠ .hang := by
  unfold AWrite.writeLoop
  have hsame := WSide.write_wb_same a.w src
  rcases hq : a.w.write src with ⟨w', res⟩
  rw [hq] at hsame
  cases res with
  | ok k => simp
  | panic => simp
  | err k =>
    cases k with
    | wb =>
      have hw' : w' = a.w := hsame rfl
      subst hw'
      simp only
      have haa : ({ a with w := a.w } : AWrite) = a := rfl
      rw [haa]
      have hb := pollFlushImpl_base h
      have hfl : ∀ m, a.pollFlushImpl.2 = some (.ok m) → Flushed a.pollFlushImpl.1.w ∧ a.pollFlushImpl.1.wfut = .idle ∧
          a.pollFlushImpl.1.w.max = a.w.max := by
        intro m hm'
        have h1 := (h.1.flushResume a.slots.tasks a.wfut).2 (by intro t ht; rw [hidle] at ht; cases ht)
        have h2 := WSide.flushResume_idle a.w a.slots.tasks a.wfut
        have h3 := WSide.flushResume_frame a.w a.slots.tasks a.wfut
        unfold AWrite.pollFlushImpl at hm' ⊢
        rcases hq1 : a.w.flushResume a.slots.tasks a.wfut with ⟨w1, f1, r1⟩
        rw [hq1] at h1 h2 h3 hm'
        simp only at hm' ⊢
        exact ⟨h1 (Or.inl ⟨m, hm'⟩), h2 (by simp [hm']), h3.2.1⟩
      rcases hq2 : a.pollFlushImpl with ⟨a', o⟩
      rw [hq2] at hb hfl
      cases o with
      | none => simp
      | some r =>
        cases r with
        | ok m =>
          obtain ⟨hf, hi', hmax⟩ := hfl m rfl
          have hl : a'.w.buf.lent = false := by
            have := hb.2; simp only at hi'; rw [hi'] at this; exact this
          obtain ⟨k, hk⟩ := WSide.write_flushed_ok hf hl (by simp only at hmax; rw [hmax]; exact hm) src
          simp only
          unfold AWrite.writeLoop
          rcases hq3 : a'.w.write src with ⟨w3, r3⟩
          rw [hq3] at hk
          simp only at hk
          subst hk
          simp
        | err _ => simp
        | panic => simp
    | oom => simp
    | wz => simp
    | other => simp

/-- **measure**: three rounds suffice on the write half when `0 < max_buffer_size` -/
theorem writeLoopA_term (src : Bytes) (n : Nat) {a : AWrite} (h : WBase a) (hm : 0 < a.w.max) :
    (a.writeLoop src (n + 3)).2 ≠ .hang := by
  unfold AWrite.writeLoop
  have hsame := WSide.write_wb_same a.w src
  rcases hq : a.w.write src with ⟨w', res⟩
  rw [hq] at hsame
  cases res with
  | ok k => simp
  | panic => simp
  | err k =>
    cases k with
    | wb =>
      have hw' : w' = a.w := hsame rfl
      subst hw'
      simp only
      have haa : ({ a with w := a.w } : AWrite) = a := rfl
      rw [haa]
      have hb := pollFlushImpl_base h
      have hid : a.pollFlushImpl.2 ≠ none → a.pollFlushImpl.1.wfut = .idle ∧ a.pollFlushImpl.1.w.max = a.w.max := by
        have h2 := WSide.flushResume_idle a.w a.slots.tasks a.wfut
        have h3 := WSide.flushResume_frame a.w a.slots.tasks a.wfut
        unfold AWrite.pollFlushImpl
        rcases hq1 : a.w.flushResume a.slots.tasks a.wfut with ⟨w1, f1, r1⟩
        rw [hq1] at h2 h3
        exact fun hne => ⟨h2 hne, h3.2.1⟩
      rcases hq2 : a.pollFlushImpl with ⟨a', o⟩
      rw [hq2] at hb hid
      cases o with
      | none => simp
      | some r =>
        cases r with
        | ok m =>
          obtain ⟨hi', hmax⟩ := hid (by simp)
          exact writeLoopA_term_idle src n hb hi' (by simp only at hmax; rw [hmax]; exact hm)
        | err _ => simp
        | panic => simp
    | oom => simp
    | wz => simp
    | other => simp

theorem pollWrite_term {a : AWrite} (t : Nat) (src : Bytes) (h : WBase a) (hm : 0 < a.w.max) :
    (a.pollWrite t src).2 ≠ .hang := by
  unfold AWrite.pollWrite
  simp only
  have hg := shutdownGate_base (h.of_eq (b := { a with slots := a.slots.set .a (some t) }) rfl rfl)
  have hmx := (AWrite.shutdownGate_ok { a with slots := a.slots.set .a (some t) }).max
  rcases hq : ({ a with slots := a.slots.set .a (some t) } : AWrite).shutdownGate with ⟨a', o⟩
  rw [hq] at hg hmx
  cases o with
  | some o =>
    simp only
    -- the gate answers Pending, an error or a panic
    unfold AWrite.shutdownGate at hq
    split at hq
    · split at hq
      · simp only [Prod.mk.injEq, Option.some.injEq] at hq; rw [← hq.2]; simp
      · rcases hq3 : ({ a with slots := a.slots.set .a (some t) } : AWrite).pollCloseImpl with ⟨a3, o3⟩
        rw [hq3] at hq
        cases o3 with
        | none => simp only [Prod.mk.injEq, Option.some.injEq] at hq; rw [← hq.2]; simp
        | some r =>
          cases r <;> simp only [Prod.mk.injEq, Option.some.injEq, reduceCtorEq, and_false] at hq <;>
            (rw [← hq.2]; simp)
    · simp at hq
  | none =>
    simp only
    have : loopFuel + a'.w.script.length = (1 + a'.w.script.length) + 3 := by unfold loopFuel; omega
    rw [this]
    exact writeLoopA_term src _ hg (by simp only at hmx; rw [hmx]; exact hm)

theorem closeTail_nohang (a : AWrite) : a.closeTail.2 ≠ .hang := by
  unfold AWrite.closeTail
  rcases a.pollCloseImpl with ⟨a', o⟩
  cases o with
  | none => simp
  | some r => cases r <;> simp

theorem shutdownGate_nohang (a : AWrite) : a.shutdownGate.2 ≠ some .hang := by
  unfold AWrite.shutdownGate
  split
  · split
    · simp
    · rcases a.pollCloseImpl with ⟨a', o⟩
      cases o with
      | none => simp
      | some r => cases r <;> simp
  · simp

theorem pollFlush_nohang (a : AWrite) (t : Nat) : (a.pollFlush t).2 ≠ .hang := by
  unfold AWrite.pollFlush
  simp only
  have hg := shutdownGate_nohang { a with slots := a.slots.set .b (some t) }
  rcases hq : ({ a with slots := a.slots.set .b (some t) } : AWrite).shutdownGate with ⟨a', o⟩
  rw [hq] at hg
  cases o with
  | some o => simpa using hg
  | none =>
    simp only
    rcases a'.pollFlushImpl with ⟨a'', o2⟩
    cases o2 with
    | none => simp
    | some r => cases r <;> simp

theorem closeBody_nohang (a : AWrite) : a.closeBody.2 ≠ .hang := by
  unfold AWrite.closeBody
  simp only
  split
  · simp
  · exact closeTail_nohang a
  · split
    · simp
    · rcases a.pollFlushImpl with ⟨a'', o2⟩
      cases o2 with
      | none => simp
      | some r =>
        cases r with
        | ok _ => exact closeTail_nohang a''
        | err _ => simp
        | panic => simp

theorem write_step_term {s : State} (h : WBase s.aw) (hm : 0 < s.aw.w.max) (op : Op) :
    isReadOp op = false → (step s op).2 ≠ .hang := by
  intro hr
  have h0 := h.clearObs
  cases op with
  | pr t n => simp [isReadOp] at hr
  | pru t n => simp [isReadOp] at hr
  | pfb t => simp [isReadOp] at hr
  | co n => simp [isReadOp] at hr
  | pw t bs =>
    simp only [PollAdapter.step]
    rw [(AWrite.call_w _ _ _ _).2]
    exact pollWrite_term t bs h0 (by simpa [WSide.clearObs] using hm)
  | pfl t =>
    simp only [PollAdapter.step]
    rw [(AWrite.call_w _ _ _ _).2]
    exact pollFlush_nohang _ t
  | pcl t =>
    simp only [PollAdapter.step]
    rw [(AWrite.call_w _ _ _ _).2]
    unfold AWrite.pollClose
    exact closeBody_nohang _

theorem write_run_term : ∀ (ops : List Op) {s : State}, WBase s.aw → 0 < s.aw.w.max →
    AllOuts (fun op o => isReadOp op = false → o ≠ .hang) ops (run s ops).2
  | [], s, _, _ => by simp [PollAdapter.run, AllOuts]
  | op :: ops, s, h, hm => by
    simp only [PollAdapter.run, AllOuts]
    refine ⟨write_step_term h hm op, write_run_term ops (h.step op) ?_⟩
    rw [(step_frame s op).2.2.2.2.2]; exact hm


/-! ### where the loops do not end: lost read buffer at EOF, `max_buffer_size = 0` -/

/-- lost read buffer (dropped by a panic), no future, EOF latched: `fill_read_buf` answers `Ok(0)`
before it notices the missing buffer, the synchronous call keeps answering WouldBlock — the entry
point spins, for every fuel -/
theorem pollLoop_lost_eof_spins {C} {f : RSide → RSide × Res Bytes} (hf : SyncCall C f) (e : Entry) {a : ARead}
    (hl : a.r.buf.lent = true) (hfut : a.fut = false) (he : a.r.eof = true) :
    ∀ fuel, (a.pollLoop e f fuel).2 = .hang
  | 0 => rfl
  | fuel + 1 => by
    unfold ARead.pollLoop
    rw [hf.lent a.r hl]
    simp only
    have haa : ({ a with r := a.r } : ARead) = a := rfl
    rw [haa]
    have : a.pollImpl = (a, some (.ok 0)) := by
      unfold ARead.pollImpl
      cases a
      simp_all [RSide.fillStart_eof]
    rw [this]
    exact pollLoop_lost_eof_spins hf e hl hfut he fuel

/-- the same state before EOF: the next call panics (`expect(MISSING_BUF)` in `compact_to`) -/
theorem pollLoop_lost_panics {C} {f : RSide → RSide × Res Bytes} (hf : SyncCall C f) (e : Entry) {a : ARead}
    (hl : a.r.buf.lent = true) (hfut : a.fut = false) (he : a.r.eof = false) (fuel : Nat) :
    (a.pollLoop e f (fuel + 1)).2 = .panic := by
  unfold ARead.pollLoop
  rw [hf.lent a.r hl]
  simp only
  have : ({ a with r := a.r } : ARead).pollImpl = (a, some .panic) := by
    unfold ARead.pollImpl
    cases a
    simp_all [RSide.fillStart]
  rw [this]

theorem flushTail_empty_script {w : WSide} (hs : w.script = []) (snap : List Nat) (t : Nat) :
    (w.flushTail snap t).2 = (.idle, some (.ok t)) ∧ (w.flushTail snap t).1.script = [] ∧
    (w.flushTail snap t).1.buf = w.buf ∧ (w.flushTail snap t).1.max = w.max := by
  unfold WSide.flushTail
  simp [hs]

/-- with an inner writer that is always ready (exhausted script), a poll of a fresh flush future completes -/
theorem flushBegin_empty_script {w : WSide} (h : WInv w) (hs : w.script = []) (hl : w.buf.lent = false)
    (snap : List Nat) :
    (∃ m, (w.flushBegin snap).2 = (.idle, some (.ok m))) ∧ (w.flushBegin snap).1.script = [] ∧
    (w.flushBegin snap).1.buf.lent = false ∧ (w.flushBegin snap).1.max = w.max := by
  unfold WSide.flushBegin
  simp only [hl, Bool.false_eq_true, if_false]
  split
  · unfold WSide.afterFlushTo
    have := flushTail_empty_script (w := { w with buf := w.buf.compactTo w.base w.max }) hs snap 0
    exact ⟨⟨0, this.1⟩, this.2.1, by rw [this.2.2.1]; simp [Buf.compactTo_lent, hl], this.2.2.2⟩
  · rename_i hne
    rw [hs]
    unfold WSide.writeLoop
    have h0 : w.buf.avail.length ≠ 0 := by
      intro h0; exact hne (by simpa using List.length_eq_zero_iff.mp h0)
    have hlen : w.buf.pos + w.buf.avail.length = w.buf.data.length := by
      have := h.pos_le; simp [Buf.avail]; omega
    rw [WSide.accepted_n_done _ _ _ _ h0 (by simpa using hlen) (by simpa using h.len_le)]
    simp only
    have key : ∀ (X : WSide) (t : Nat), X.script = [] → X.buf.lent = false → X.max = w.max →
        (∃ m, (X.afterFlushTo snap t).2 = (.idle, some (.ok m))) ∧ (X.afterFlushTo snap t).1.script = [] ∧
        (X.afterFlushTo snap t).1.buf.lent = false ∧ (X.afterFlushTo snap t).1.max = w.max := by
      intro X t hXs hXl hXm
      unfold WSide.afterFlushTo
      have := flushTail_empty_script (w := { X with buf := X.buf.compactTo X.base X.max }) hXs snap t
      exact ⟨⟨t, this.1⟩, this.2.1, by rw [this.2.2.1]; simp [Buf.compactTo_lent, hXl], by rw [this.2.2.2]; exact hXm⟩
    apply key <;> simp [WSide.afterSend, Buf.reset]

/-- `max_buffer_size = 0`, inner writer always ready: `poll_write` of a non-empty buffer never
returns — `write` answers WouldBlock ("buffer full"), the flush succeeds with nothing to do, and so on -/
theorem writeLoopA_max0_spins {src : Bytes} (hsrc : src ≠ []) : ∀ (fuel : Nat) {a : AWrite}, WInv a.w → a.wfut = .idle →
    a.w.buf.lent = false → a.w.script = [] → a.w.max = 0 → (a.writeLoop src fuel).2 = .hang
  | 0, _, _, _, _, _, _ => rfl
  | fuel + 1, a, h, hi, hl, hs, hm => by
    unfold AWrite.writeLoop
    rw [WSide.write_max0 h hm hsrc]
    simp only
    have haa : ({ a with w := a.w } : AWrite) = a := rfl
    rw [haa]
    have hb := flushBegin_empty_script h hs hl a.slots.tasks
    have hinv := (h.flushBegin a.slots.tasks).1
    unfold AWrite.pollFlushImpl
    rw [hi]
    simp only [WSide.flushResume]
    rcases hq : a.w.flushBegin a.slots.tasks with ⟨w', fut', res⟩
    rw [hq] at hb hinv
    obtain ⟨⟨m, hres⟩, hs', hl', hm'⟩ := hb
    simp only [Prod.mk.injEq] at hres
    obtain ⟨rfl, rfl⟩ := hres
    simp only
    exact writeLoopA_max0_spins hsrc fuel hinv rfl hl' hs' (by simp only at hm'; rw [hm', hm])

end Compio.PollAdapter
