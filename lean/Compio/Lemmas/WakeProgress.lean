/-
Bounded progress of the runtime thread of the wake-up model: it can only block in its wait, a covered wait
returns, and the deterministic continuation of its loop polls a queued task within an explicit number of steps.
-/
import Compio.Lemmas.WakeInv

namespace Compio.Wake
open Compio.TaskWord Compio.Gen

/-- the runtime thread can only be blocked in the kernel wait (own loop) or in the external loop's wait -/
theorem blocked_only_in_wait (s : State) (h : rtStep s .go = none) : s.rt = .wait ∨ s.rt = .xwait := by
  unfold rtStep at h
  unfold startLocal drainDone afterTick at h
  repeat' split at h
  all_goals (first | cases h | skip)
  all_goals (try (simp_all; done))
  all_goals (cases hr : s.rt <;> first | (simp_all; done) | (rename_i b; cases b <;> simp_all))

theorem wait_returns {s : State} (hi : Inv s) (hpc : s.rt = .wait) (hl : s.cfg.loop = .own)
    (hc : cov s = true ∨ covM s = true ∨ s.hot ≠ []) :
    (rtStep s .go).isSome = true ∨ 0 < cnt s inflightP := by
  have hph : phase s.cfg.loop s.rt = .sleep := by simp [hpc, hl, phase]
  have hmph : mphase s.cfg.loop s.rt = .sleep := by simp [hpc, hl, mphase, phase]
  have hz := hi.zeroHot (by simp [hpc, waitPcs])
  have hs := hi.sig hph
  have hk := hi.kq
  have ha := hi.armW
  simp only [cov, covM, hph, hmph, covOf] at hc
  unfold rtStep
  simp only [hpc]
  cases hd : s.cfg.drv <;> simp only [hd] at * <;> grind

theorem xwait_returns {s : State} (hi : Inv s) (hpc : s.rt = .xwait)
    (hc : cov s = true ∨ covM s = true ∨ s.hot ≠ []) :
    (rtStep s .go).isSome = true ∨ 0 < cnt s inflightP := by
  have hph : phase s.cfg.loop s.rt = .xsleep := by simp [hpc, phase]
  have hmph : mphase s.cfg.loop s.rt = .xsleep := by simp [hpc, mphase, phase]
  have hz := hi.zeroHot (by simp [hpc, waitPcs])
  have hs := hi.xsig hph
  simp only [cov, covM, hph, hmph, covOf] at hc
  unfold rtStep
  simp only [hpc]
  grind

/-- a waker thread that took the NOTIFIED bit from IDLE is never blocked: its next steps signal the kernel object -/
theorem inflight_can_step {s : State} {w : Nat} (h : inflightP (s.wk w) = true) : (wStep s w).isSome = true := by
  unfold wStep
  simp only [inflightP, Bool.or_eq_true, beq_iff_eq] at h
  rcases h with h | h <;> cases hk : (s.wk w).kind <;> simp only [h, hk] <;> (repeat' split) <;> simp


/-! ### list facts for the position of a task -/

theorem idxOf_hotPush_mem {d : Nat → Bool} {hot : List Nat} {t x : Nat} (h : t ∈ hot) :
    t ∈ hotPush d hot x ∧ (hotPush d hot x).idxOf t = hot.idxOf t := by
  unfold hotPush
  split
  · exact ⟨h, rfl⟩
  · exact ⟨List.mem_append_left _ h, by simp [List.idxOf_append, h]⟩

theorem hotPush_other {d : Nat → Bool} {hot : List Nat} {t x : Nat} (h : t ∉ hot) (hx : x ≠ t) :
    t ∉ hotPush d hot x ∧ (hotPush d hot x).length ≤ hot.length + 1 := by
  unfold hotPush
  split
  · exact ⟨h, by omega⟩
  · refine ⟨?_, by simp⟩
    simp only [List.mem_append, List.mem_singleton, not_or]
    exact ⟨h, fun e => hx e.symm⟩

theorem hotPush_self {d : Nat → Bool} {hot : List Nat} {t : Nat} (h : t ∉ hot) (hd : d t = false) :
    t ∈ hotPush d hot t ∧ (hotPush d hot t).idxOf t = hot.length := by
  unfold hotPush
  have : (d t || hot.contains t) = false := by simp [hd, h]
  simp only [this]
  refine ⟨by simp, ?_⟩
  simp [List.idxOf_append, h]

theorem erase_head_facts {hot : List Nat} {x t : Nat} (hh : hot.head? = some x) (hx : x ≠ t) :
    (hot.erase x).length + 1 = hot.length ∧ (t ∈ hot → t ∈ hot.erase x ∧ (hot.erase x).idxOf t + 1 = hot.idxOf t) ∧
    (t ∉ hot → t ∉ hot.erase x) := by
  cases hot with
  | nil => simp at hh
  | cons a l =>
    simp at hh; subst hh
    refine ⟨by simp, ?_, ?_⟩
    · intro ht
      have hx' : ¬ t = a := fun e => hx e.symm
      have ht' : t ∈ l := by simpa [hx'] using ht
      simp only [List.erase_cons_head]
      refine ⟨ht', ?_⟩
      have : (a == t) = false := by simpa using hx
      simp [List.idxOf_cons, this]
    · intro ht
      simp only [List.erase_cons_head]
      intro h'; exact ht (List.mem_cons_of_mem _ h')


/-! ### the measure -/

/-- upper bound of the position t will have in the hot list: its index there, or behind everything hot and
behind its predecessors in the sync queue -/
def posOf (s : State) (t : Nat) : Nat :=
  if t ∈ s.hot then s.hot.idxOf t else s.hot.length + s.sync.idxOf t

/-- steps of the tick loop before the next poll of a hot task, L = length of the sync queue -/
def wRun (L : Nat) (nxt : Option Nat) (k : Nat) : Nat :=
  match k, nxt with
  | _ + 1, some _ => 0
  | _, _ => L + 20

def wPoll (L : Nat) : Back → Nat
  | .main => L + 3
  | .task _ nxt k => 1 + wRun L nxt k

/-- number of steps of the runtime thread (upper bound) before the next poll of a hot task starts -/
def wPc (L : Nat) : RtPc → Nat
  | .run nxt k => wRun L nxt k
  | .poll b => wPoll L b
  | .lwrite b => 1 + wPoll L b
  | .lcas b => 2 + wPoll L b
  | .lwake b => 3 + wPoll L b
  | .draining (.loc _ b) _ => L + 4 + wPoll L b
  | .drainCheck (.loc _ b) => L + 5 + wPoll L b
  | .draining .tick _ => L + 1
  | .drainCheck .tick => L + 2
  | .mainStart => L + 4
  | .setAwake2 => L + 5
  | .clear => L + 6
  | .consume => L + 7
  | .setAwake1 => L + 8
  | .pswap => L + 9
  | .pclear => L + 10
  | .wait => L + 11
  | .submit => L + 12
  | .arm => L + 13
  | .reset => L + 14
  | .xclear => L + 15
  | .xwait => L + 16
  | .xreset => L + 17
  | .xsubmit => L + 18
  | .xarm => L + 19

def wOf (s : State) : Nat := wPc s.sync.length s.rt

theorem wRun_le (L : Nat) (nxt : Option Nat) (k : Nat) : wRun L nxt k ≤ L + 20 := by
  unfold wRun; split <;> omega

theorem wPoll_le (L : Nat) (b : Back) : wPoll L b ≤ L + 21 := by
  cases b with
  | main => simp [wPoll]
  | task c nxt k => have := wRun_le L nxt k; simp only [wPoll]; omega

theorem wPc_le (L : Nat) (pc : RtPc) : wPc L pc ≤ 2 * L + 26 := by
  cases pc <;> simp only [wPc] <;> first
    | omega
    | (rename_i nxt k; have := wRun_le L nxt k; omega)
    | (rename_i b; have := wPoll_le L b; omega)
    | (rename_i r; cases r <;> simp only [wPc] <;> first | omega | (rename_i t b; have := wPoll_le L b; omega))
    | (rename_i r d; cases r <;> simp only [wPc] <;> first | omega | (rename_i t b; have := wPoll_le L b; omega))

/-- "task t is queued, and nothing but the runtime thread has to move": the runtime is good, t is alive and sits
in the hot list or in the sync queue, no waker thread is between taking the NOTIFIED bit and signalling, none is
between its push and its wake-up of the driver -/
structure Due (L0 : Nat) (s : State) (t : Nat) : Prop where
  inv : Inv s
  fa : s.cfg.flushArms = true
  mpos : 1 ≤ s.cfg.maxInt
  alive : s.dropped t = false ∧ TaskState.isCancelled (s.word t) = false
  queued : t ∈ s.hot ∨ t ∈ s.sync
  noInflight : cnt s inflightP = 0
  noAbout : cnt s aboutP = 0
  len : s.sync.length ≤ L0

theorem due_enabled {L0 : Nat} {s : State} {t : Nat} (h : Due L0 s t) : ∃ s', rtStep s .go = some s' := by
  have hcov : cov s = true ∨ covM s = true ∨ s.hot ≠ [] := by
    rcases h.queued with hq | hq
    · right; right; intro e; rw [e] at hq; cases hq
    · have hne : s.sync ≠ [] := by intro e; rw [e] at hq; cases hq
      rcases h.inv.covSync hne with hc | hc
      · exact Or.inl hc
      · have := h.noAbout; omega
  have key : (rtStep s .go).isSome = true := by
    by_cases hw : s.rt = .wait
    · by_cases hl : s.cfg.loop = .own
      · rcases wait_returns h.inv hw hl hcov with h1 | h1
        · exact h1
        · have := h.noInflight; omega
      · -- external loop: `poll_with(0)` never blocks
        have hl' : s.cfg.loop = .ext := by cases hx : s.cfg.loop <;> simp_all
        unfold rtStep
        simp only [hw]
        cases hd : s.cfg.drv <;> simp only [hl'] <;> (repeat' split) <;> simp_all
    · by_cases hx : s.rt = .xwait
      · rcases xwait_returns h.inv hx hcov with h1 | h1
        · exact h1
        · have := h.noInflight; omega
      · cases hr : rtStep s .go with
        | some s' => rfl
        | none => rcases blocked_only_in_wait s hr with h1 | h1 <;> contradiction
  cases hr : rtStep s .go with
  | some s' => exact ⟨s', rfl⟩
  | none => rw [hr] at key; cases key


end Compio.Wake
