/-
Bounded progress of the runtime thread of the wake-up model: it can only block in its wait, a covered wait
returns, and the deterministic continuation of its loop polls a queued task within an explicit number of steps.
-/
import Compio.Lemmas.WakeInv

namespace Compio.Wake
open Compio.TaskWord Compio.Gen

/-- the runtime thread can only be blocked in the kernel wait (own loop) or in the external loop's wait -/
theorem blocked_only_in_wait (s : State) (h : rtStep s .go = none) : s.rt = .wait ∨ s.rt = .xwait := by
  unfold rtStep at h
  unfold startLocal drainDone afterTick at h
  repeat' split at h
  all_goals (first | cases h | skip)
  all_goals (try (simp_all; done))
  all_goals (cases hr : s.rt <;> first | (simp_all; done) | (rename_i b; cases b <;> simp_all))

theorem wait_returns {s : State} (hi : Inv s) (hpc : s.rt = .wait) (hl : s.cfg.loop = .own)
    (hc : cov s = true ∨ covM s = true ∨ s.hot ≠ []) :
    (rtStep s .go).isSome = true ∨ 0 < cnt s inflightP := by
  have hph : phase s.cfg.loop s.rt = .sleep := by simp [hpc, hl, phase]
  have hmph : mphase s.cfg.loop s.rt = .sleep := by simp [hpc, hl, mphase, phase]
  have hz := hi.zeroHot (by simp [hpc, waitPcs])
  have hs := hi.sig hph
  have hk := hi.kq
  have ha := hi.armW
  simp only [cov, covM, hph, hmph, covOf] at hc
  unfold rtStep
  simp only [hpc]
  cases hd : s.cfg.drv <;> simp only [hd] at * <;> grind

theorem xwait_returns {s : State} (hi : Inv s) (hpc : s.rt = .xwait)
    (hc : cov s = true ∨ covM s = true ∨ s.hot ≠ []) :
    (rtStep s .go).isSome = true ∨ 0 < cnt s inflightP := by
  have hph : phase s.cfg.loop s.rt = .xsleep := by simp [hpc, phase]
  have hmph : mphase s.cfg.loop s.rt = .xsleep := by simp [hpc, mphase, phase]
  have hz := hi.zeroHot (by simp [hpc, waitPcs])
  have hs := hi.xsig hph
  simp only [cov, covM, hph, hmph, covOf] at hc
  unfold rtStep
  simp only [hpc]
  grind

/-- a waker thread that took the NOTIFIED bit from IDLE is never blocked: its next steps signal the kernel object -/
theorem inflight_can_step {s : State} {w : Nat} (h : inflightP (s.wk w) = true) : (wStep s w).isSome = true := by
  unfold wStep
  simp only [inflightP, Bool.or_eq_true, beq_iff_eq] at h
  rcases h with h | h <;> cases hk : (s.wk w).kind <;> simp only [h, hk] <;> (repeat' split) <;> simp


/-! ### list facts for the position of a task -/

theorem idxOf_hotPush_mem {d : Nat → Bool} {hot : List Nat} {t x : Nat} (h : t ∈ hot) :
    t ∈ hotPush d hot x ∧ (hotPush d hot x).idxOf t = hot.idxOf t := by
  unfold hotPush
  split
  · exact ⟨h, rfl⟩
  · exact ⟨List.mem_append_left _ h, by simp [List.idxOf_append, h]⟩

theorem hotPush_other {d : Nat → Bool} {hot : List Nat} {t x : Nat} (h : t ∉ hot) (hx : x ≠ t) :
    t ∉ hotPush d hot x ∧ (hotPush d hot x).length ≤ hot.length + 1 := by
  unfold hotPush
  split
  · exact ⟨h, by omega⟩
  · refine ⟨?_, by simp⟩
    simp only [List.mem_append, List.mem_singleton, not_or]
    exact ⟨h, fun e => hx e.symm⟩

theorem hotPush_self {d : Nat → Bool} {hot : List Nat} {t : Nat} (h : t ∉ hot) (hd : d t = false) :
    t ∈ hotPush d hot t ∧ (hotPush d hot t).idxOf t = hot.length := by
  unfold hotPush
  have : (d t || hot.contains t) = false := by simp [hd, h]
  simp only [this]
  refine ⟨by simp, ?_⟩
  simp [List.idxOf_append, h]

theorem erase_head_facts {hot : List Nat} {x t : Nat} (hh : hot.head? = some x) (hx : x ≠ t) :
    (hot.erase x).length + 1 = hot.length ∧ (t ∈ hot → t ∈ hot.erase x ∧ (hot.erase x).idxOf t + 1 = hot.idxOf t) ∧
    (t ∉ hot → t ∉ hot.erase x) := by
  cases hot with
  | nil => simp at hh
  | cons a l =>
    simp at hh; subst hh
    refine ⟨by simp, ?_, ?_⟩
    · intro ht
      have hx' : ¬ t = a := fun e => hx e.symm
      have ht' : t ∈ l := by simpa [hx'] using ht
      simp only [List.erase_cons_head]
      refine ⟨ht', ?_⟩
      have : (a == t) = false := by simpa using hx
      simp [List.idxOf_cons, this]
    · intro ht
      simp only [List.erase_cons_head]
      intro h'; exact ht (List.mem_cons_of_mem _ h')


/-! ### the measure -/

/-- upper bound of the position t will have in the hot list: its index there, or behind everything hot and
behind its predecessors in the sync queue -/
def posOf (s : State) (t : Nat) : Nat :=
  if t ∈ s.hot then s.hot.idxOf t else s.hot.length + s.sync.idxOf t

/-- steps of the tick loop before the next poll of a hot task, L = length of the sync queue -/
def wRun (L : Nat) (nxt : Option Nat) (k : Nat) : Nat :=
  match k, nxt with
  | _ + 1, some _ => 0
  | _, _ => L + 20

def wPoll (L : Nat) : Back → Nat
  | .main => L + 3
  | .task _ nxt k => 1 + wRun L nxt k

/-- number of steps of the runtime thread (upper bound) before the next poll of a hot task starts -/
def wPc (L : Nat) : RtPc → Nat
  | .run nxt k => wRun L nxt k
  | .poll b => wPoll L b
  | .lwrite b => 1 + wPoll L b
  | .lcas b => 2 + wPoll L b
  | .lwake b => 3 + wPoll L b
  | .draining (.loc _ b) _ => L + 4 + wPoll L b
  | .drainCheck (.loc _ b) => L + 5 + wPoll L b
  | .draining .tick _ => L + 1
  | .drainCheck .tick => L + 2
  | .mainStart => L + 4
  | .setAwake2 => L + 5
  | .clear => L + 6
  | .consume => L + 7
  | .setAwake1 => L + 8
  | .pswap => L + 9
  | .pclear => L + 10
  | .wait => L + 11
  | .submit => L + 12
  | .arm => L + 13
  | .reset => L + 14
  | .xclear => L + 15
  | .xwait => L + 16
  | .xreset => L + 17
  | .xsubmit => L + 18
  | .xarm => L + 19

def wOf (s : State) : Nat := wPc s.sync.length s.rt

theorem wRun_le (L : Nat) (nxt : Option Nat) (k : Nat) : wRun L nxt k ≤ L + 20 := by
  unfold wRun; split <;> omega

theorem wPoll_le (L : Nat) (b : Back) : wPoll L b ≤ L + 21 := by
  cases b with
  | main => simp [wPoll]
  | task c nxt k => have := wRun_le L nxt k; simp only [wPoll]; omega

theorem wPc_le (L : Nat) (pc : RtPc) : wPc L pc ≤ 2 * L + 26 := by
  cases pc <;> simp only [wPc] <;> first
    | omega
    | (rename_i nxt k; have := wRun_le L nxt k; omega)
    | (rename_i b; have := wPoll_le L b; omega)
    | (rename_i r; cases r <;> simp only [wPc] <;> first | omega | (rename_i t b; have := wPoll_le L b; omega))
    | (rename_i r d; cases r <;> simp only [wPc] <;> first | omega | (rename_i t b; have := wPoll_le L b; omega))

/-- "task t is queued, and nothing but the runtime thread has to move": the runtime is good, t is alive and sits
in the hot list or in the sync queue, no waker thread is between taking the NOTIFIED bit and signalling, none is
between its push and its wake-up of the driver -/
structure Due (L0 : Nat) (s : State) (t : Nat) : Prop where
  inv : Inv s
  fa : s.cfg.flushArms = true
  mpos : 1 ≤ s.cfg.maxInt
  alive : s.dropped t = false ∧ TaskState.isCancelled (s.word t) = false
  queued : t ∈ s.hot ∨ t ∈ s.sync
  noInflight : cnt s inflightP = 0
  noAbout : cnt s aboutP = 0
  len : s.sync.length ≤ L0

theorem due_enabled {L0 : Nat} {s : State} {t : Nat} (h : Due L0 s t) : ∃ s', rtStep s .go = some s' := by
  have hcov : cov s = true ∨ covM s = true ∨ s.hot ≠ [] := by
    rcases h.queued with hq | hq
    · right; right; intro e; rw [e] at hq; cases hq
    · have hne : s.sync ≠ [] := by intro e; rw [e] at hq; cases hq
      rcases h.inv.covSync hne with hc | hc
      · exact Or.inl hc
      · have := h.noAbout; omega
  have key : (rtStep s .go).isSome = true := by
    by_cases hw : s.rt = .wait
    · by_cases hl : s.cfg.loop = .own
      · rcases wait_returns h.inv hw hl hcov with h1 | h1
        · exact h1
        · have := h.noInflight; omega
      · -- external loop: `poll_with(0)` never blocks
        have hl' : s.cfg.loop = .ext := by cases hx : s.cfg.loop <;> simp_all
        unfold rtStep
        simp only [hw]
        cases hd : s.cfg.drv <;> simp only [hl'] <;> (repeat' split) <;> simp_all
    · by_cases hx : s.rt = .xwait
      · rcases xwait_returns h.inv hx hcov with h1 | h1
        · exact h1
        · have := h.noInflight; omega
      · cases hr : rtStep s .go with
        | some s' => rfl
        | none => rcases blocked_only_in_wait s hr with h1 | h1 <;> contradiction
  cases hr : rtStep s .go with
  | some s' => exact ⟨s', rfl⟩
  | none => rw [hr] at key; cases key


theorem wRun_head {L M : Nat} {hot : List Nat} {t : Nat} (ht : t ∈ hot) (hm : 1 ≤ M) : wRun L hot.head? M = 0 := by
  cases hot with
  | nil => cases ht
  | cons a l =>
    obtain ⟨m, rfl⟩ : ∃ m, M = m + 1 := ⟨M - 1, by omega⟩
    simp [wRun]

theorem wRun_mono {L L' : Nat} (h : L' ≤ L) (nxt : Option Nat) (k : Nat) : wRun L' nxt k ≤ wRun L nxt k := by
  unfold wRun; split <;> omega

theorem wPoll_mono {L L' : Nat} (h : L' ≤ L) (b : Back) : wPoll L' b ≤ wPoll L b := by
  cases b with
  | main => simp only [wPoll]; omega
  | task c nxt k => have := wRun_mono h nxt k; simp only [wPoll]; omega

theorem mem_of_head? {l : List Nat} {x : Nat} (h : l.head? = some x) : x ∈ l := by
  cases l with
  | nil => simp at h
  | cons a m => simp at h; subst h; simp

/-- the head x ≠ t of the hot list is taken out: t moves one place forward -/
theorem posOf_erase_head {s : State} {t x : Nat} {hot' : List Nat} (hh : s.hot.head? = some x) (hx : x ≠ t)
    (hq : t ∈ s.hot ∨ t ∈ s.sync) (he : hot' = s.hot.erase x) :
    (t ∈ hot' ∨ t ∈ s.sync) ∧
    (if t ∈ hot' then hot'.idxOf t else hot'.length + s.sync.idxOf t) < posOf s t := by
  obtain ⟨h1, h2, h3⟩ := erase_head_facts (t := t) hh hx
  subst he
  by_cases hth : t ∈ s.hot
  · obtain ⟨h4, h5⟩ := h2 hth
    refine ⟨Or.inl h4, ?_⟩
    simp only [posOf, h4, hth, if_true]; omega
  · have h4 := h3 hth
    have hts : t ∈ s.sync := by rcases hq with h | h; exact absurd h hth; exact h
    refine ⟨Or.inr hts, ?_⟩
    simp only [posOf, h4, hth, if_false]; omega

theorem posOf_congr {s s' : State} {t : Nat} (h1 : s'.hot = s.hot) (h2 : s'.sync = s.sync) : posOf s' t = posOf s t := by
  simp [posOf, h1, h2]

/-- what one step of the runtime thread achieves for a queued task -/
def Advance (L0 : Nat) (s s' : State) (t : Nat) : Prop :=
  s'.polls t = s.polls t + 1 ∨
  (s'.polls t = s.polls t ∧ s'.cfg = s.cfg ∧ s'.wk = s.wk ∧ s'.dropped t = false ∧
    TaskState.isCancelled (s'.word t) = false ∧ (t ∈ s'.hot ∨ t ∈ s'.sync) ∧ s'.sync.length ≤ L0 ∧
    ((posOf s' t ≤ posOf s t ∧ wOf s' < wOf s) ∨ (posOf s' t < posOf s t ∧ wOf s' ≤ L0 + 21)))

set_option maxRecDepth 4000 in
set_option maxHeartbeats 4000000 in
theorem advance_step {L0 : Nat} {s s' : State} {t : Nat} (h : Due L0 s t) (hs : rtStep s .go = some s') :
    Advance L0 s s' t := by
  have hi := h.inv
  have hal := h.alive
  have hq := h.queued
  have hlen := h.len
  have hm := h.mpos
  have hnh := hi.nxtHead
  have hnn := hi.hotNodup
  have hhl := hi.hotLive
  have hsync0 : s.pending = 0 → s.sync = [] := by
    intro h0
    have := hi.pend
    have : s.sync.length = 0 := by omega
    exact List.eq_nil_of_length_eq_zero this
  have hhot0 : s.sync = [] → t ∈ s.hot := by
    intro h0
    rcases hq with h1 | h1
    · exact h1
    · rw [h0] at h1; cases h1
  unfold Advance
  rt_step hs
  all_goals (try (right; simp only [posOf, wOf] ; simp_all [wPc, wPoll, wRun]; done))
  all_goals (try (right; simp only [posOf, wOf] ; simp_all [wPc, wPoll, wRun]; omega))
  -- drainCheck tick, nothing pending: the tick loop starts at the head of the hot list
  · rename_i _ _ _ hp _ hrt
    have ht := hhot0 (hsync0 hp)
    refine Or.inr ⟨trivial, trivial, trivial, hal.1, hal.2, hq, hlen, Or.inl ⟨Nat.le_of_eq (posOf_congr rfl rfl), ?_⟩⟩
    simp only [wOf, wPc, hrt, wRun_head ht hm]
    omega
  -- drainCheck inside a same-thread wake, nothing pending
  · rename_i _ _ _ hp _ x b hrt
    have ht := hhot0 (hsync0 hp)
    have hp' := idxOf_hotPush_mem (d := s.dropped) (x := x) ht
    refine Or.inr ⟨trivial, trivial, trivial, hal.1, hal.2, Or.inl hp'.1, hlen, Or.inl ⟨?_, ?_⟩⟩
    · simp only [posOf, hp'.1, ht, if_true, hp'.2]; exact Nat.le_refl _
    · simp only [wOf, wPc, hrt]; omega
  -- drainCheck, something pending: start popping
  · rename_i _ _ r hrt _ hp
    refine Or.inr ⟨trivial, trivial, trivial, hal.1, hal.2, hq, hlen, Or.inl ⟨Nat.le_of_eq (posOf_congr rfl rfl), ?_⟩⟩
    cases r <;> simp only [wOf, wPc, hrt] <;> omega
  -- end of the drain of the tick (two variants: nothing / something subtracted from `pending`)
  · rename_i _ _ d _ _ hsy _ hrt hd
    have ht := hhot0 hsy
    refine Or.inr ⟨trivial, trivial, trivial, hal.1, hal.2, hq, hlen, Or.inl ⟨Nat.le_of_eq (posOf_congr rfl rfl), ?_⟩⟩
    simp only [wOf, wPc, hrt, wRun_head ht hm]
    omega
  · rename_i _ _ d _ _ hsy _ hrt hd
    have ht := hhot0 hsy
    refine Or.inr ⟨trivial, trivial, trivial, hal.1, hal.2, hq, hlen, Or.inl ⟨Nat.le_of_eq (posOf_congr rfl rfl), ?_⟩⟩
    simp only [wOf, wPc, hrt, wRun_head ht hm]
    omega
  -- end of the drain inside a same-thread wake
  · rename_i _ _ d _ _ hsy _ x b hrt hd
    have ht := hhot0 hsy
    have hp' := idxOf_hotPush_mem (d := s.dropped) (x := x) ht
    refine Or.inr ⟨trivial, trivial, trivial, hal.1, hal.2, Or.inl hp'.1, hlen, Or.inl ⟨?_, ?_⟩⟩
    · simp only [posOf, hp'.1, ht, if_true, hp'.2]; exact Nat.le_refl _
    · simp only [wOf, wPc, hrt, hsy, List.length_nil]; omega
  · rename_i _ _ d _ _ hsy _ x b hrt hd
    have ht := hhot0 hsy
    have hp' := idxOf_hotPush_mem (d := s.dropped) (x := x) ht
    refine Or.inr ⟨trivial, trivial, trivial, hal.1, hal.2, Or.inl hp'.1, hlen, Or.inl ⟨?_, ?_⟩⟩
    · simp only [posOf, hp'.1, ht, if_true, hp'.2]; exact Nat.le_refl _
    · simp only [wOf, wPc, hrt, hsy, List.length_nil]; omega
  -- one pop of the drain loop
  · rename_i _ _ r d hrt _ _ x rest hsy
    have hlen' : rest.length ≤ L0 := by rw [hsy] at hlen; simp at hlen; omega
    have hw : wPc rest.length (RtPc.draining r (d + 1)) < wPc s.sync.length s.rt := by
      rw [hrt, hsy]
      cases r with
      | tick => simp only [wPc, List.length_cons]; omega
      | loc x b =>
        have := wPoll_mono (Nat.le_add_right rest.length 1) b
        simp only [wPc, List.length_cons]; omega
    by_cases hth : t ∈ s.hot
    · have hp' := idxOf_hotPush_mem (d := s.dropped) (x := x) hth
      refine Or.inr ⟨trivial, trivial, trivial, hal.1, hal.2, Or.inl hp'.1, hlen', Or.inl ⟨?_, hw⟩⟩
      simp only [posOf, hp'.1, hth, if_true, hp'.2]; exact Nat.le_refl _
    · have hts : t ∈ s.sync := by rcases hq with h1 | h1; exact absurd h1 hth; exact h1
      by_cases hx : x = t
      · subst hx
        have hp' := hotPush_self (d := s.dropped) hth hal.1
        refine Or.inr ⟨trivial, trivial, trivial, hal.1, hal.2, Or.inl hp'.1, hlen', Or.inl ⟨?_, hw⟩⟩
        simp only [posOf, hp'.1, hth, if_true, if_false, hp'.2, hsy, List.idxOf_cons_self]; omega
      · have hp' := hotPush_other (d := s.dropped) hth hx
        have hts' : t ∈ rest := by
          rw [hsy] at hts
          rcases List.mem_cons.1 hts with h1 | h1
          · exact absurd h1.symm hx
          · exact h1
        refine Or.inr ⟨trivial, trivial, trivial, hal.1, hal.2, Or.inr hts', hlen', Or.inl ⟨?_, hw⟩⟩
        have hxb : (x == t) = false := by simpa using hx
        simp only [posOf, hp'.1, hth, if_false, hsy, List.idxOf_cons, hxb, cond_false]
        omega
  -- the prefetched id is dropped: impossible, it is the head of the hot list
  · rename_i _ _ _ _ _ _ x hrt hd _ _
    have hh := hnh x (by simp [hrt, nxtOf])
    have := hhl x (mem_of_head? hh)
    rw [this] at hd; cases hd
  · rename_i _ _ _ _ _ _ x hrt hd _ _
    have hh := hnh x (by simp [hrt, nxtOf])
    have := hhl x (mem_of_head? hh)
    rw [this] at hd; cases hd
  -- the head of the hot list is a cancelled task: dropped without a poll
  · rename_i _ _ _ _ _ k x hrt hnd hc
    have hh := hnh x (by simp [hrt, nxtOf])
    have hx : x ≠ t := by intro e; subst e; rw [hal.2] at hc; cases hc
    have hxt : ¬ t = x := fun e => hx e.symm
    have hE : (s.hot.erase x).erase x = s.hot.erase x :=
      List.erase_of_not_mem (by intro hm; exact (hnn.mem_erase_iff.1 hm).1 rfl)
    obtain ⟨h1, h2⟩ := posOf_erase_head hh hx hq rfl
    have hw := wRun_le s.sync.length (nextHot s.hot x) k
    refine Or.inr ⟨trivial, trivial, trivial, by simp [upd, hxt, hal.1], by simp [upd, hxt, hal.2], by rw [hE]; exact h1, hlen,
      Or.inr ⟨?_, ?_⟩⟩
    · simp only [posOf, hE]; exact h2
    · simp only [wOf, wPc]; omega
  -- the head of the hot list is polled
  · rename_i _ _ _ _ _ k x hrt hnd hc
    have hh := hnh x (by simp [hrt, nxtOf])
    by_cases hx : x = t
    · subst hx; left; simp [upd]
    · have hxt : ¬ t = x := fun e => hx e.symm
      obtain ⟨h1, h2⟩ := posOf_erase_head hh hx hq rfl
      have hw := wRun_le s.sync.length (nextHot s.hot x) k
      refine Or.inr ⟨by simp [upd, hxt], trivial, trivial, hal.1, by simp [upd, hxt, hal.2], h1, hlen, Or.inr ⟨?_, ?_⟩⟩
      · simp only [posOf]; exact h2
      · simp only [wOf, wPc, wPoll]; omega


theorem cnt_congr {s s' : State} (p : Wk → Bool) (h1 : s'.cfg = s.cfg) (h2 : s'.wk = s.wk) : cnt s' p = cnt s p := by
  simp [cnt, h1, h2]

/-- one step of the runtime thread from a `Due` state: t's poll starts, or the state is `Due` again and the
measure (position, steps to the next poll of a hot task) decreases lexicographically -/
theorem due_next {L0 : Nat} {s s' : State} {t : Nat} (h : Due L0 s t) (hs : rtStep s .go = some s') :
    s'.polls t = s.polls t + 1 ∨
    (Due L0 s' t ∧ s'.polls t = s.polls t ∧
      ((posOf s' t ≤ posOf s t ∧ wOf s' < wOf s) ∨ (posOf s' t < posOf s t ∧ wOf s' ≤ L0 + 21))) := by
  rcases advance_step h hs with h1 | ⟨h1, h2, h3, h4, h5, h6, h7, h8⟩
  · exact Or.inl h1
  · refine Or.inr ⟨?_, h1, h8⟩
    exact { inv := inv_rt s s' .go h.fa h.inv hs, fa := by rw [h2]; exact h.fa, mpos := by rw [h2]; exact h.mpos,
            alive := ⟨h4, h5⟩, queued := h6,
            noInflight := by rw [cnt_congr _ h2 h3]; exact h.noInflight,
            noAbout := by rw [cnt_congr _ h2 h3]; exact h.noAbout, len := h7 }

theorem rtRun_succ {s s' : State} (n : Nat) (hs : rtStep s .go = some s') : rtRun (n + 1) s = rtRun n s' := by
  simp [rtRun, rtNext, hs]

/-- BOUNDED PROGRESS: from a `Due` state the runtime thread alone (every poll returning Pending, no further step
of any other thread) starts a poll of t within `posOf * (L0 + 22) + wOf + 1` of its own steps -/
theorem due_progress {L0 : Nat} (t : Nat) :
    ∀ (r : Nat) (s : State), Due L0 s t → posOf s t * (L0 + 22) + wOf s ≤ r →
      ∃ n, n ≤ r + 1 ∧ (rtRun n s).polls t = s.polls t + 1 := by
  intro r
  induction r using Nat.strongRecOn with
  | _ r ih =>
    intro s h hr
    obtain ⟨s', hs⟩ := due_enabled h
    rcases due_next h hs with h1 | ⟨h1, h2, h3⟩
    · exact ⟨1, by omega, by rw [rtRun_succ 0 hs]; exact h1⟩
    · have hlt : posOf s' t * (L0 + 22) + wOf s' < posOf s t * (L0 + 22) + wOf s := by
        rcases h3 with ⟨ha, hb⟩ | ⟨ha, hb⟩
        · have := Nat.mul_le_mul_right (L0 + 22) ha
          omega
        · have : (posOf s' t + 1) * (L0 + 22) ≤ posOf s t * (L0 + 22) := Nat.mul_le_mul_right _ ha
          rw [Nat.add_mul] at this
          omega
      obtain ⟨n, hn, hp⟩ := ih (posOf s' t * (L0 + 22) + wOf s') (by omega) s' h1 (Nat.le_refl _)
      exact ⟨n + 1, by omega, by rw [rtRun_succ n hs, hp, h2]⟩


/-! ### the main future -/

def mPoll (L M : Nat) : Back → Nat
  | .main => L + 2 * M + 19
  | .task _ _ k => 2 * k + 17

/-- number of steps of the runtime thread (upper bound) before it starts the next poll of the main future -/
def mPc (L M : Nat) : RtPc → Nat
  | .mainStart => 0
  | .setAwake2 => 1
  | .clear => 2
  | .consume => 3
  | .setAwake1 => 4
  | .pswap => 5
  | .pclear => 6
  | .wait => 7
  | .submit => 8
  | .arm => 9
  | .reset => 10
  | .xclear => 11
  | .xwait => 12
  | .xreset => 13
  | .xsubmit => 14
  | .xarm => 15
  | .run _ k => 2 * k + 16
  | .poll b => mPoll L M b
  | .lwrite b => 1 + mPoll L M b
  | .lcas b => 2 + mPoll L M b
  | .lwake b => 3 + mPoll L M b
  | .draining (.loc _ b) _ => L + 4 + mPoll L M b
  | .drainCheck (.loc _ b) => L + 5 + mPoll L M b
  | .draining .tick _ => L + 2 * M + 17
  | .drainCheck .tick => L + 2 * M + 18

def mOf (s : State) : Nat := mPc s.sync.length s.cfg.maxInt s.rt

theorem mPoll_mono {L L' : Nat} (h : L' ≤ L) (M : Nat) (b : Back) : mPoll L' M b ≤ mPoll L M b := by
  cases b <;> simp only [mPoll] <;> omega

/-- "a wake of the main future has returned, and nothing but the runtime thread has to move" -/
structure DueM (s : State) : Prop where
  inv : Inv s
  fa : s.cfg.flushArms = true
  woken : s.mainWoken = true
  noInflight : cnt s inflightP = 0

theorem dueM_enabled {s : State} (h : DueM s) : ∃ s', rtStep s .go = some s' := by
  have hcov : cov s = true ∨ covM s = true ∨ s.hot ≠ [] := Or.inr (Or.inl (h.inv.covMain h.woken))
  have key : (rtStep s .go).isSome = true := by
    by_cases hw : s.rt = .wait
    · by_cases hl : s.cfg.loop = .own
      · rcases wait_returns h.inv hw hl hcov with h1 | h1
        · exact h1
        · have := h.noInflight; omega
      · have hl' : s.cfg.loop = .ext := by cases hx : s.cfg.loop <;> simp_all
        unfold rtStep
        simp only [hw]
        cases hd : s.cfg.drv <;> simp only [hl'] <;> (repeat' split) <;> simp_all
    · by_cases hx : s.rt = .xwait
      · rcases xwait_returns h.inv hx hcov with h1 | h1
        · exact h1
        · have := h.noInflight; omega
      · cases hr : rtStep s .go with
        | some s' => rfl
        | none => rcases blocked_only_in_wait s hr with h1 | h1 <;> contradiction
  cases hr : rtStep s .go with
  | some s' => exact ⟨s', rfl⟩
  | none => rw [hr] at key; cases key

set_option maxRecDepth 4000 in
set_option maxHeartbeats 4000000 in
theorem advanceM_step {s s' : State} (hs : rtStep s .go = some s') :
    s'.mainPolls = s.mainPolls + 1 ∨
    (s'.mainPolls = s.mainPolls ∧ s'.cfg = s.cfg ∧ s'.wk = s.wk ∧ s'.mainWoken = s.mainWoken ∧ mOf s' < mOf s) := by
  rt_step hs
  all_goals (try (left; simp; done))
  all_goals (try (right; simp only [mOf] ; simp_all [mPc, mPoll]; done))
  all_goals (try (right; simp only [mOf] ; simp_all [mPc, mPoll]; omega))
  · rename_i _ _ r hrt _ hp
    refine Or.inr ⟨trivial, trivial, trivial, trivial, ?_⟩
    cases r <;> simp only [mOf, mPc, hrt] <;> omega
  · rename_i _ _ r d hrt _ _ x rest hsy
    refine Or.inr ⟨trivial, trivial, trivial, trivial, ?_⟩
    cases r with
    | tick => simp only [mOf, mPc, hrt, hsy, List.length_cons]; omega
    | loc y b =>
      have := mPoll_mono (Nat.le_add_right rest.length 1) s.cfg.maxInt b
      simp only [mOf, mPc, hrt, hsy, List.length_cons]; omega

/-- BOUNDED PROGRESS (main future): from a `DueM` state the runtime thread alone starts the next poll of the main
future within `mOf s + 1` of its own steps -/
theorem dueM_progress :
    ∀ (r : Nat) (s : State), DueM s → mOf s ≤ r → ∃ n, n ≤ r + 1 ∧ (rtRun n s).mainPolls = s.mainPolls + 1 := by
  intro r
  induction r using Nat.strongRecOn with
  | _ r ih =>
    intro s h hr
    obtain ⟨s', hs⟩ := dueM_enabled h
    rcases advanceM_step hs with h1 | ⟨h1, h2, h3, h4, h5⟩
    · exact ⟨1, by omega, by rw [rtRun_succ 0 hs]; exact h1⟩
    · have hd : DueM s' :=
        { inv := inv_rt s s' .go h.fa h.inv hs, fa := by rw [h2]; exact h.fa, woken := by rw [h4]; exact h.woken,
          noInflight := by rw [cnt_congr _ h2 h3]; exact h.noInflight }
      obtain ⟨n, hn, hp⟩ := ih (mOf s') (by omega) s' hd (Nat.le_refl _)
      exact ⟨n + 1, by omega, by rw [rtRun_succ n hs, hp, h1]⟩


end Compio.Wake
