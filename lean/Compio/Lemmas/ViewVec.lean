/-
Helper lemmas about the vectored view model (Compio/Model/ViewVec.lean): a vectored fill of a packed
container is the member-wise single-buffer fill of consecutive chunks.
-/
import Compio.Lemmas.View
import Compio.Model.ViewVec

namespace Compio.View

/-- what one fill does to a root (same function as in the single-buffer fill law) -/
def fillRoot (o : Nat) (r : Root) (d : Bytes) : Root :=
  { r with len := max r.len (o + d.length), mem := splice r.mem o d }

/-- a member a vectored fill treats correctly: fresh view over a well-formed root whose initialised part
ends where the root's does (`o + li = root.len`; automatic for fresh views that are not full, an extra
condition — excluding end-bounded slices of longer buffers, finding V2 — for full ones) -/
def GoodM (m : Buf) (o li c : Nat) : Prop :=
  m.getRoot.WF ∧ m.Fresh ∧ m.asInit = .ok (o, li) ∧ m.asUninit = .ok (o, c) ∧ o + li = m.getRoot.len

theorem GoodM.le {m : Buf} {o li c : Nat} (h : GoodM m o li c) : li ≤ c := by
  obtain ⟨hw, hf, hi, hu, _⟩ := h
  exact (Buf.fresh_aligned hf hw.le hi hu).2.1

theorem GoodM.fits {m : Buf} {o li c : Nat} (h : GoodM m o li c) : o + c ≤ m.getRoot.cap := by
  obtain ⟨_, _, _, hu, _⟩ := h
  exact (Buf.asUninit_inside hu).2

theorem GoodM.off {m : Buf} {o li c : Nat} (h : GoodM m o li c) : o = m.off := by
  obtain ⟨_, _, hi, _, _⟩ := h
  exact (Buf.asInit_inside hi).1

/-- the single-buffer effect of the chunk `d.take c` on member `m` -/
def fillMember (m : Buf) (d : Bytes) : Buf :=
  match m.asUninit with
  | .ok (o, c) => m.setRoot (fillRoot o m.getRoot (d.take c))
  | .error _ => m

def memberCap (m : Buf) : Nat :=
  match m.asUninit with
  | .ok (_, c) => c
  | .error _ => 0

def memberLen (m : Buf) : Nat :=
  match m.asInit with
  | .ok (_, l) => l
  | .error _ => 0

/-- member-wise fill with consecutive chunks of `d` -/
def fillMembers : List Buf → Bytes → List Buf
  | [], _ => []
  | m :: rest, d => fillMember m d :: fillMembers rest (d.drop (memberCap m))

def lenSum : List Buf → Nat
  | [] => 0
  | m :: rest => memberLen m + lenSum rest

def capSum : List Buf → Nat
  | [] => 0
  | m :: rest => memberCap m + capSum rest

def GoodAll : List Buf → Prop
  | [] => True
  | m :: rest => (∃ o li c, GoodM m o li c) ∧ GoodAll rest

def AllEmpty : List Buf → Prop
  | [] => True
  | m :: rest => (∃ o c, GoodM m o 0 c) ∧ AllEmpty rest

/-- packed: full members, then at most one partially filled member, then empty members -/
def Packed : List Buf → Prop
  | [] => True
  | m :: rest => (∃ o c, GoodM m o c c ∧ Packed rest) ∨ (∃ o li c, GoodM m o li c ∧ AllEmpty rest)

theorem AllEmpty.good {ms : List Buf} (h : AllEmpty ms) : GoodAll ms := by
  induction ms with
  | nil => trivial
  | cons m rest ih =>
    obtain ⟨⟨o, c, hg⟩, hr⟩ := h
    exact ⟨⟨o, 0, c, hg⟩, ih hr⟩

theorem AllEmpty.packed {ms : List Buf} (h : AllEmpty ms) : Packed ms := by
  induction ms with
  | nil => trivial
  | cons m rest ih =>
    obtain ⟨⟨o, c, hg⟩, hr⟩ := h
    exact Or.inr ⟨o, 0, c, hg, hr⟩

theorem AllEmpty.lenSum {ms : List Buf} (h : AllEmpty ms) : lenSum ms = 0 := by
  induction ms with
  | nil => rfl
  | cons m rest ih =>
    obtain ⟨⟨o, c, hg⟩, hr⟩ := h
    simp only [View.lenSum, memberLen, hg.2.2.1, ih hr]

theorem Packed.good {ms : List Buf} (h : Packed ms) : GoodAll ms := by
  induction ms with
  | nil => trivial
  | cons m rest ih =>
    rcases h with ⟨o, c, hg, hr⟩ | ⟨o, li, c, hg, hr⟩
    · exact ⟨⟨o, c, c, hg⟩, ih hr⟩
    · exact ⟨⟨o, li, c, hg⟩, hr.good⟩

/-! ### single members -/

theorem Buf.setRoot_eta (m : Buf) :
    m.setRoot { m.getRoot with len := m.getRoot.len, mem := m.getRoot.mem } = m := by
  have : ({ m.getRoot with len := m.getRoot.len, mem := m.getRoot.mem } : Root) = m.getRoot := by
    generalize m.getRoot = r
    cases r
    rfl
  rw [this, Buf.setRoot_getRoot]

/-- a fill with no data changes nothing -/
theorem fillMember_nil {m : Buf} {o li c : Nat} (h : GoodM m o li c) : fillMember m [] = m := by
  obtain ⟨hw, hf, hi, hu, ht⟩ := h
  simp only [fillMember, hu, List.take_nil, fillRoot, splice_nil, List.length_nil, Nat.add_zero]
  have : max m.getRoot.len o = m.getRoot.len := by omega
  rw [this]
  exact Buf.setRoot_eta m

/-- bytes that fall inside the already initialised part need no `set_len` -/
theorem write_eq_fillMember {m : Buf} {o li c : Nat} (h : GoodM m o li c) (d : Bytes)
    (hd : (d.take c).length ≤ li) : m.write o (d.take c) = fillMember m d := by
  obtain ⟨hw, hf, hi, hu, ht⟩ := h
  simp only [fillMember, hu, fillRoot, Buf.write]
  have : max m.getRoot.len (o + (d.take c).length) = m.getRoot.len := by omega
  rw [this]

/-- recording a chunk that reaches beyond the initialised part: `set_len(|chunk|)` does exactly `fillRoot` -/
theorem setLen_write_eq_fillMember {m : Buf} {o li c : Nat} (h : GoodM m o li c) (d : Bytes)
    (hd : li ≤ (d.take c).length) :
    (m.write o (d.take c)).setLen (d.take c).length = .ok (fillMember m d) := by
  have hle := h.le
  have hfit := h.fits
  have hoff := h.off
  obtain ⟨hw, hf, hi, hu, ht⟩ := h
  have hk : (d.take c).length ≤ c := by simp only [List.length_take]; omega
  simp only [Root.cap] at hfit
  have hsp : (splice m.getRoot.mem o (d.take c)).length = m.getRoot.mem.length :=
    splice_length _ _ _ (by omega)
  rw [Buf.setLen_eq]
  simp only [Buf.getRoot_write, Buf.off_write, ← hoff]
  have hwf2 : ({ m.getRoot with mem := splice m.getRoot.mem o (d.take c) } : Root).WF := by
    constructor
    · simp only [Root.cap, hsp]; exact hw.le
    · intro hkind; simp only [Root.cap, hsp]; exact hw.full hkind
  rw [Root.setLen_of_ge _ _ hwf2 (by simp only; omega) (by simp only [Root.cap, hsp]; omega)]
  simp only [Buf.write, Buf.setRoot_setRoot, fillMember, hu, fillRoot]
  have : max m.getRoot.len (o + (d.take c).length) = o + (d.take c).length := by omega
  rw [this]

theorem asUninit_write_good {m : Buf} {o li c : Nat} (h : GoodM m o li c) (d : Bytes) :
    (m.write o (d.take c)).asUninit = .ok (o, c) := by
  have hfit := h.fits
  obtain ⟨hw, hf, hi, hu, ht⟩ := h
  rw [Buf.asUninit_write _ _ _ (by simp only [List.length_take]; omega)]
  exact hu

/-! ### the write phase -/

/-- what the write phase of a vectored fill does to the members -/
def writeMembers : List Buf → Bytes → List Buf
  | [], _ => []
  | m :: rest, d =>
    if d.isEmpty then m :: rest
    else
      match m.asUninit with
      | .ok (o, c) => m.write o (d.take c) :: writeMembers rest (d.drop c)
      | .error _ => m :: rest

theorem writeMembers_nil (ms : List Buf) : writeMembers ms [] = ms := by
  cases ms <;> simp [writeMembers]

theorem modifyAt_append (f : Buf → Buf) (pre : List Buf) (m : Buf) (rest : List Buf) :
    modifyAt f (pre ++ m :: rest) pre.length = pre ++ f m :: rest := by
  induction pre with
  | nil => rfl
  | cons p t ih => simp [modifyAt, ih]

theorem distribute_applyWrites (ms : List Buf) :
    ∀ (pre : List Buf) (d : Bytes), GoodAll ms →
      ∃ cs, distribute (indexFrom pre.length (ms.map Buf.asUninit)) d = .ok cs ∧
        applyWrites (pre ++ ms) cs = pre ++ writeMembers ms d := by
  induction ms with
  | nil => intro pre d _; exact ⟨[], rfl, by simp [applyWrites, writeMembers]⟩
  | cons m rest ih =>
    intro pre d hg
    obtain ⟨⟨o, li, c, hm⟩, hr⟩ := hg
    have hu := hm.2.2.2.1
    simp only [List.map_cons, indexFrom, distribute, writeMembers]
    by_cases hd : d.isEmpty
    · simp only [hd, if_true]
      exact ⟨[], rfl, rfl⟩
    · simp only [hd, Bool.false_eq_true, ↓reduceIte, hu]
      obtain ⟨cs, h1, h2⟩ := ih (pre ++ [m.write o (d.take c)]) (d.drop c) hr
      simp only [List.length_append, List.length_cons, List.length_nil, Nat.zero_add] at h1
      refine ⟨(pre.length, o, d.take c) :: cs, ?_, ?_⟩
      · simp [h1]
      · simp only [applyWrites, modifyAt_append]
        have : pre ++ m.write o (d.take c) :: rest = (pre ++ [m.write o (d.take c)]) ++ rest := by simp
        rw [this, h2]
        simp

theorem sumItems_asUninit (ms : List Buf) (k : Nat) (hg : GoodAll ms) :
    sumItems (indexFrom k (ms.map Buf.asUninit)) = .ok (capSum ms) := by
  induction ms generalizing k with
  | nil => rfl
  | cons m rest ih =>
    obtain ⟨⟨o, li, c, hm⟩, hr⟩ := hg
    simp only [List.map_cons, indexFrom, hm.2.2.2.1, sumItems, ih (k + 1) hr, capSum, memberCap]

theorem sumItems_asInit (ms : List Buf) (k : Nat) (hg : GoodAll ms) :
    sumItems (indexFrom k (ms.map Buf.asInit)) = .ok (lenSum ms) := by
  induction ms generalizing k with
  | nil => rfl
  | cons m rest ih =>
    obtain ⟨⟨o, li, c, hm⟩, hr⟩ := hg
    simp only [List.map_cons, indexFrom, hm.2.2.1, sumItems, ih (k + 1) hr, lenSum, memberLen]

theorem writeMembers_asInit (ms : List Buf) (d : Bytes) :
    (writeMembers ms d).map Buf.asInit = ms.map Buf.asInit := by
  induction ms generalizing d with
  | nil => rfl
  | cons m rest ih =>
    simp only [writeMembers]
    by_cases hd : d.isEmpty
    · simp [hd]
    · simp only [hd, Bool.false_eq_true, ↓reduceIte]
      cases hu : m.asUninit with
      | error f => simp
      | ok p => simp [Buf.asInit_write, ih]

/-! ### the recording phase -/

theorem fillMembers_nil {ms : List Buf} (hg : GoodAll ms) : fillMembers ms [] = ms := by
  induction ms with
  | nil => rfl
  | cons m rest ih =>
    obtain ⟨⟨o, li, c, hm⟩, hr⟩ := hg
    simp only [fillMembers, fillMember_nil hm, List.drop_nil, ih hr]

/-- the data ends inside the initialised prefix: nothing to record, the writes are the whole effect -/
theorem writeMembers_eq_fillMembers (ms : List Buf) :
    ∀ d : Bytes, Packed ms → d.length ≤ lenSum ms → writeMembers ms d = fillMembers ms d := by
  induction ms with
  | nil => intro d _ _; rfl
  | cons m rest ih =>
    intro d hp hd
    by_cases hde : d.isEmpty
    · have : d = [] := by simpa using hde
      subst this
      rw [writeMembers_nil, fillMembers_nil hp.good]
    · simp only [writeMembers, hde, Bool.false_eq_true, ↓reduceIte]
      rcases hp with ⟨o, c, hg, hr⟩ | ⟨o, li, c, hg, hr⟩
      · have hu := hg.2.2.2.1
        simp only [hu, fillMembers, memberCap]
        rw [write_eq_fillMember hg d (by simp only [List.length_take]; omega)]
        rw [ih (d.drop c) hr (by
          simp only [lenSum, memberLen, hg.2.2.1] at hd
          simp only [List.length_drop]; omega)]
      · have hu := hg.2.2.2.1
        have hle := hg.le
        simp only [lenSum, memberLen, hg.2.2.1, hr.lenSum, Nat.add_zero] at hd
        simp only [hu, fillMembers, memberCap]
        rw [write_eq_fillMember hg d (by simp only [List.length_take]; omega)]
        have : d.drop c = [] := by
          apply List.drop_eq_nil_of_le; omega
        rw [this, writeMembers_nil, fillMembers_nil hr.good]

/-- the data reaches beyond the initialised prefix: `default_set_len(|d|)` over the written members records
exactly the member-wise fills -/
theorem defaultSetLen_writeMembers (ms : List Buf) :
    ∀ d : Bytes, Packed ms → (lenSum ms < d.length ∨ d = []) → d.length ≤ capSum ms →
      defaultSetLen (writeMembers ms d) d.length = .ok (fillMembers ms d) := by
  induction ms with
  | nil => intro d _ _ _; rfl
  | cons m rest ih =>
    intro d hp hl hc
    by_cases hde : d.isEmpty
    · have : d = [] := by simpa using hde
      subst this
      rw [writeMembers_nil, fillMembers_nil hp.good]
      simp [defaultSetLen]
    · have hne : d ≠ [] := by simpa using hde
      have hlt : lenSum (m :: rest) < d.length := by
        rcases hl with h | h
        · exact h
        · exact absurd h hne
      have hpos : d.length ≠ 0 := by
        intro h0; exact hne (List.length_eq_zero_iff.mp h0)
      -- common part, given the member's data
      have step : ∀ o li c, GoodM m o li c → Packed rest →
          (lenSum rest < (d.drop c).length ∨ d.drop c = []) → li ≤ c → li < d.length →
          defaultSetLen (writeMembers (m :: rest) d) d.length = .ok (fillMembers (m :: rest) d) := by
        intro o li c hg hr hrest hlc hld
        have hu := hg.2.2.2.1
        simp only [writeMembers, hde, Bool.false_eq_true, ↓reduceIte, hu, defaultSetLen, hpos, asUninit_write_good hg d]
        have hmin : min c d.length = (d.take c).length := by simp only [List.length_take]
        rw [hmin, setLen_write_eq_fillMember hg d (by simp only [List.length_take]; omega)]
        simp only
        have hrem : d.length - (d.take c).length = (d.drop c).length := by
          simp only [List.length_take, List.length_drop]; omega
        rw [hrem, ih (d.drop c) hr hrest (by
          simp only [capSum, memberCap, hu] at hc
          simp only [List.length_drop]; omega)]
        simp only [fillMembers, memberCap, hu]
      rcases hp with ⟨o, c, hg, hr⟩ | ⟨o, li, c, hg, hr⟩
      · refine step o c c hg hr ?_ (Nat.le_refl _) ?_
        · left
          simp only [lenSum, memberLen, hg.2.2.1] at hlt
          simp only [List.length_drop]; omega
        · simp only [lenSum, memberLen, hg.2.2.1] at hlt; omega
      · refine step o li c hg hr.packed ?_ hg.le ?_
        · rw [hr.lenSum]
          by_cases h0 : (d.drop c).length = 0
          · right; exact List.length_eq_zero_iff.mp h0
          · left; omega
        · simp only [lenSum, memberLen, hg.2.2.1] at hlt; omega

/-- **Vectored fill law** for `Vec<T>` / `[T; N]` / `ArrayVec<T, N>` / `SmallVec<[T; N]>` containers of packed
members: writing `d` (`|d| ≤` total capacity) across the writable ranges and recording it with
`advance_vec_to(|d|)` is exactly the member-wise single-buffer fill with consecutive chunks. -/
theorem VBuf.fill_list_packed (ms : List Buf) (d : Bytes) (hp : Packed ms) (hc : d.length ≤ capSum ms) :
    (VBuf.base .list ms).fill d = .ok (.base .list (fillMembers ms d)) := by
  have hg := hp.good
  unfold VBuf.fill
  simp only [VBuf.totalCap, VBuf.iterUninit, sumItems_asUninit ms 0 hg, hc, if_true]
  obtain ⟨cs, h1, h2⟩ := distribute_applyWrites ms [] d hg
  simp only [List.length_nil, List.nil_append] at h1 h2
  simp only [h1, VBuf.members, h2, VBuf.setMembers]
  unfold VBuf.advanceVecTo
  simp only [VBuf.totalLen, VBuf.iterSlice, writeMembers_asInit, sumItems_asInit ms 0 hg]
  by_cases hgt : d.length > lenSum ms
  · simp only [hgt, if_true, VBuf.setLen]
    rw [defaultSetLen_writeMembers ms d hp (Or.inl hgt) hc]
  · simp only [hgt, if_false]
    rw [writeMembers_eq_fillMembers ms d hp (by omega)]

/-! ### tuple containers: `(T, Rest)` always calls `set_len` on the head (also with 0) -/

theorem setLen_zero_of_empty {m : Buf} {o c : Nat} (h : GoodM m o 0 c) : m.setLen 0 = .ok m := by
  have hoff := h.off
  have hfit := h.fits
  obtain ⟨hw, hf, hi, hu, ht⟩ := h
  rw [Buf.setLen_eq, Nat.add_zero, ← hoff]
  rw [Root.setLen_of_ge _ _ hw (by omega) (by omega)]
  simp only
  have : o = m.getRoot.len := by omega
  rw [this]
  have e : ({ m.getRoot with len := m.getRoot.len } : Root) = m.getRoot := by
    generalize m.getRoot = r
    cases r
    rfl
  rw [e, Buf.setRoot_getRoot]

theorem tupleSetLen_cons_of_ne (unit : Bool) (m : Buf) (l : List Buf) (n : Nat) (hl : l ≠ []) :
    tupleSetLen unit (m :: l) n =
      match m.asUninit with
      | .error f => .error f
      | .ok (_, c) =>
        match m.setLen (min n c) with
        | .error f => .error f
        | .ok m' =>
          match tupleSetLen unit l (n - min n c) with
          | .ok rest' => .ok (m' :: rest')
          | .error f => .error f := by
  cases l with
  | nil => exact absurd rfl hl
  | cons m2 rest => rfl

theorem writeMembers_length (ms : List Buf) (d : Bytes) : (writeMembers ms d).length = ms.length := by
  induction ms generalizing d with
  | nil => rfl
  | cons m rest ih =>
    simp only [writeMembers]
    by_cases hd : d.isEmpty
    · simp [hd]
    · simp only [hd, Bool.false_eq_true, ↓reduceIte]
      cases hu : m.asUninit with
      | error f => simp
      | ok p => simp [ih]

theorem tupleSetLen_allEmpty (unit : Bool) (ms : List Buf) (h : AllEmpty ms) :
    tupleSetLen unit ms 0 = .ok ms := by
  induction ms with
  | nil => cases unit <;> rfl
  | cons m rest ih =>
    obtain ⟨⟨o, c, hg⟩, hr⟩ := h
    have hu := hg.2.2.2.1
    cases rest with
    | nil =>
      cases unit
      · simp only [tupleSetLen, setLen_zero_of_empty hg]
        rfl
      · simp only [tupleSetLen, hu, Nat.zero_min, setLen_zero_of_empty hg]
        rfl
    | cons m2 rest' =>
      simp only [tupleSetLen, hu, Nat.zero_min, setLen_zero_of_empty hg, Nat.sub_self, ih hr]

/-- `SetLen for (T, Rest)` over the written members of a packed tuple records exactly the member-wise fills -/
theorem tupleSetLen_writeMembers (unit : Bool) (ms : List Buf) :
    ∀ d : Bytes, Packed ms → (lenSum ms < d.length ∨ (d = [] ∧ AllEmpty ms)) → d.length ≤ capSum ms →
      tupleSetLen unit (writeMembers ms d) d.length = .ok (fillMembers ms d) := by
  induction ms with
  | nil =>
    intro d _ _ hc
    have : d = [] := List.length_eq_zero_iff.mp (by simpa [capSum] using hc)
    subst this
    cases unit <;> rfl
  | cons m rest ih =>
    intro d hp hl hc
    by_cases hde : d.isEmpty
    · have : d = [] := by simpa using hde
      subst this
      have hae : AllEmpty (m :: rest) := by
        rcases hl with h | h
        · simp at h
        · exact h.2
      rw [writeMembers_nil, fillMembers_nil hp.good]
      exact tupleSetLen_allEmpty unit _ hae
    · have hne : d ≠ [] := by simpa using hde
      have hlt : lenSum (m :: rest) < d.length := by
        rcases hl with h | h
        · exact h
        · exact absurd h.1 hne
      have step : ∀ o li c, GoodM m o li c → Packed rest →
          (lenSum rest < (d.drop c).length ∨ (d.drop c = [] ∧ AllEmpty rest)) → li ≤ c → li < d.length →
          tupleSetLen unit (writeMembers (m :: rest) d) d.length = .ok (fillMembers (m :: rest) d) := by
        intro o li c hg hr hrest hlc hld
        have hu := hg.2.2.2.1
        have hcap : d.length ≤ c + capSum rest := by simpa [capSum, memberCap, hu] using hc
        have hmin : min d.length c = (d.take c).length := by
          simp only [List.length_take]; omega
        have hrem : d.length - (d.take c).length = (d.drop c).length := by
          simp only [List.length_take, List.length_drop]; omega
        have hset := setLen_write_eq_fillMember hg d (by simp only [List.length_take]; omega)
        simp only [writeMembers, hde, Bool.false_eq_true, ↓reduceIte, hu]
        cases rest with
        | nil =>
          have hdc : d.length ≤ c := by simpa [capSum] using hcap
          have htake : (d.take c).length = d.length := by simp only [List.length_take]; omega
          simp only [writeMembers, fillMembers]
          cases unit
          · have h2 : (m.write o (d.take c)).setLen d.length = .ok (fillMember m d) := by
              rw [← htake]; exact hset
            simp only [tupleSetLen, Bool.false_eq_true, ↓reduceIte, h2]
          · simp only [tupleSetLen, asUninit_write_good hg d, hmin, hset, hrem]
            have : (d.drop c).length = 0 := by simp only [List.length_drop]; omega
            simp [this]
        | cons m2 rest' =>
          rw [tupleSetLen_cons_of_ne unit _ _ _ (by
            intro h
            have := congrArg List.length h
            simp [writeMembers_length] at this)]
          simp only [asUninit_write_good hg d, hmin, hset, hrem]
          rw [ih (d.drop c) hr hrest (by simp only [List.length_drop]; omega)]
          simp only [fillMembers, memberCap, hu]
      rcases hp with ⟨o, c, hg, hr⟩ | ⟨o, li, c, hg, hr⟩
      · refine step o c c hg hr ?_ (Nat.le_refl _) ?_
        · left
          simp only [lenSum, memberLen, hg.2.2.1] at hlt
          simp only [List.length_drop]; omega
        · simp only [lenSum, memberLen, hg.2.2.1] at hlt; omega
      · refine step o li c hg hr.packed ?_ hg.le ?_
        · rw [hr.lenSum]
          by_cases h0 : (d.drop c).length = 0
          · right; exact ⟨List.length_eq_zero_iff.mp h0, hr⟩
          · left; omega
        · simp only [lenSum, memberLen, hg.2.2.1] at hlt; omega

/-- **Vectored fill law** for the tuple containers `(T, (T, … (T,)))` (non-empty) and `(T, (T, … ()))` -/
theorem VBuf.fill_tuple_packed (k : VKind) (hk : k ≠ .list) (ms : List Buf) (d : Bytes) (hp : Packed ms)
    (hc : d.length ≤ capSum ms) :
    (VBuf.base k ms).fill d = .ok (.base k (fillMembers ms d)) := by
  have hg := hp.good
  unfold VBuf.fill
  simp only [VBuf.totalCap, VBuf.iterUninit, sumItems_asUninit ms 0 hg, hc, if_true]
  obtain ⟨cs, h1, h2⟩ := distribute_applyWrites ms [] d hg
  simp only [List.length_nil, List.nil_append] at h1 h2
  simp only [h1, VBuf.members, h2, VBuf.setMembers]
  unfold VBuf.advanceVecTo
  simp only [VBuf.totalLen, VBuf.iterSlice, writeMembers_asInit, sumItems_asInit ms 0 hg]
  by_cases hgt : d.length > lenSum ms
  · simp only [hgt, if_true, VBuf.setLen]
    cases k with
    | list => exact absurd rfl hk
    | tupleSingle => simp only [tupleSetLen_writeMembers false ms d hp (Or.inl hgt) hc]
    | tupleUnit => simp only [tupleSetLen_writeMembers true ms d hp (Or.inl hgt) hc]
  · simp only [hgt, if_false]
    rw [writeMembers_eq_fillMembers ms d hp (by omega)]

/-! ### where `slice_mut(begin)` starts -/

/-- the loop of `slice_mut`: it stops at capacity position `begin` — `idx` whole members are skipped, their
capacities plus `offset` add up to `begin`, and `offset` lies strictly inside the member it stopped in -/
theorem skipCount_asUninit (ms : List Buf) :
    ∀ (k off idx : Nat), GoodAll ms →
      ∃ j off', skipCount (indexFrom k (ms.map Buf.asUninit)) off idx = .ok (idx + j, off') ∧
        j ≤ ms.length ∧ capSum (ms.take j) + off' = off ∧
        (∀ m, ms[j]? = some m → off' < memberCap m) := by
  induction ms with
  | nil =>
    intro k off idx _
    exact ⟨0, off, rfl, Nat.le_refl _, by simp [capSum], by simp⟩
  | cons m rest ih =>
    intro k off idx hg
    obtain ⟨⟨o, li, c, hm⟩, hr⟩ := hg
    have hu := hm.2.2.2.1
    simp only [List.map_cons, indexFrom, skipCount, hu]
    by_cases hc : c > off
    · simp only [hc, if_true]
      refine ⟨0, off, rfl, Nat.zero_le _, by simp [capSum], ?_⟩
      intro m' hm'
      simp only [List.getElem?_cons_zero, Option.some.injEq] at hm'
      subst hm'
      simpa [memberCap, hu] using hc
    · simp only [hc, if_false]
      obtain ⟨j, off', h1, h2, h3, h4⟩ := ih (k + 1) (off - c) (idx + 1) hr
      refine ⟨j + 1, off', ?_, ?_, ?_, ?_⟩
      · rw [h1]; congr 2; omega
      · simp only [List.length_cons]; omega
      · simp only [List.take_succ_cons, capSum, memberCap, hu]; omega
      · intro m' hm'
        simp only [List.getElem?_cons_succ] at hm'
        exact h4 m' hm'

/-! ### the fill law through `VectoredSlice` (`slice_mut(begin)` of a packed buffer) -/

theorem defaultSetLen_zero (l : List Buf) : defaultSetLen l 0 = .ok l := by
  cases l <;> simp [defaultSetLen]

def AllFull : List Buf → Prop
  | [] => True
  | m :: rest => (∃ o c, GoodM m o c c) ∧ AllFull rest

theorem AllFull.good {ms : List Buf} (h : AllFull ms) : GoodAll ms := by
  induction ms with
  | nil => trivial
  | cons m rest ih =>
    obtain ⟨⟨o, c, hg⟩, hr⟩ := h
    exact ⟨⟨o, c, c, hg⟩, ih hr⟩

theorem AllFull.lenSum {ms : List Buf} (h : AllFull ms) : lenSum ms = capSum ms := by
  induction ms with
  | nil => rfl
  | cons m rest ih =>
    obtain ⟨⟨o, c, hg⟩, hr⟩ := h
    simp only [View.lenSum, View.capSum, memberLen, memberCap, hg.2.2.1, hg.2.2.2.1, ih hr]

/-- the single-buffer effect of the chunk `d.take (c - off)` stored `off` bytes into member `m`'s writable region -/
def fillMemberAt (m : Buf) (off : Nat) (d : Bytes) : Buf :=
  match m.asUninit with
  | .ok (o, c) => m.setRoot (fillRoot (o + off) m.getRoot (d.take (c - off)))
  | .error _ => m

theorem setLen_full {m : Buf} {o c : Nat} (h : GoodM m o c c) : m.setLen c = .ok m := by
  have hoff := h.off
  have hfit := h.fits
  obtain ⟨hw, hf, hi, hu, ht⟩ := h
  rw [Buf.setLen_eq, ← hoff]
  rw [Root.setLen_of_ge _ _ hw (by omega) (by omega)]
  simp only
  have e : ({ m.getRoot with len := o + c } : Root) = m.getRoot := by
    rw [ht]
  rw [e, Buf.setRoot_getRoot]

/-- `default_set_len` walks over full members without changing them -/
theorem defaultSetLen_full_prefix (pre : List Buf) (l : List Buf) (n : Nat) (hp : AllFull pre)
    (hn : capSum pre ≤ n) :
    defaultSetLen (pre ++ l) n =
      match defaultSetLen l (n - capSum pre) with
      | .ok l' => .ok (pre ++ l')
      | .error f => .error f := by
  induction pre generalizing n with
  | nil => simp only [List.nil_append, capSum, Nat.sub_zero]; cases defaultSetLen l n <;> rfl
  | cons m rest ih =>
    obtain ⟨⟨o, c, hg⟩, hr⟩ := hp
    have hu := hg.2.2.2.1
    simp only [capSum, memberCap, hu] at hn ⊢
    by_cases h0 : n = 0
    · subst h0
      have hc0 : c = 0 := by omega
      have hcs : capSum rest = 0 := by omega
      simp only [List.cons_append, defaultSetLen, if_true, Nat.zero_sub]
      rw [defaultSetLen_zero]
    · simp only [List.cons_append, defaultSetLen, h0, if_false, hu]
      have hmin : min c n = c := by omega
      rw [hmin, setLen_full hg]
      simp only
      rw [ih (n - c) hr (by omega)]
      have : n - c - capSum rest = n - (c + capSum rest) := by omega
      rw [this]
      cases defaultSetLen l (n - (c + capSum rest)) <;> rfl

/-- recording `off + |chunk|` on a member that was written `off` bytes into its writable region -/
theorem setLen_write_at {m : Buf} {o li c : Nat} (h : GoodM m o li c) (off : Nat) (d : Bytes)
    (hoffc : off ≤ c) (hd : li ≤ off + (d.take (c - off)).length) :
    (m.write (o + off) (d.take (c - off))).setLen (off + (d.take (c - off)).length) = .ok (fillMemberAt m off d) := by
  have hfit := h.fits
  have hoff := h.off
  obtain ⟨hw, hf, hi, hu, ht⟩ := h
  have hk : (d.take (c - off)).length ≤ c - off := by simp only [List.length_take]; omega
  simp only [Root.cap] at hfit
  have hsp : (splice m.getRoot.mem (o + off) (d.take (c - off))).length = m.getRoot.mem.length :=
    splice_length _ _ _ (by omega)
  rw [Buf.setLen_eq]
  simp only [Buf.getRoot_write, Buf.off_write, ← hoff]
  have hwf2 : ({ m.getRoot with mem := splice m.getRoot.mem (o + off) (d.take (c - off)) } : Root).WF := by
    constructor
    · simp only [Root.cap, hsp]; exact hw.le
    · intro hkind; simp only [Root.cap, hsp]; exact hw.full hkind
  rw [Root.setLen_of_ge _ _ hwf2 (by simp only; omega) (by simp only [Root.cap, hsp]; omega)]
  simp only [Buf.write, Buf.setRoot_setRoot, fillMemberAt, hu, fillRoot]
  have : max m.getRoot.len (o + off + (d.take (c - off)).length) = o + (off + (d.take (c - off)).length) := by omega
  rw [this]

theorem write_at_eq_fillMemberAt {m : Buf} {o li c : Nat} (h : GoodM m o li c) (off : Nat) (d : Bytes)
    (hd : off + (d.take (c - off)).length ≤ li) : m.write (o + off) (d.take (c - off)) = fillMemberAt m off d := by
  obtain ⟨hw, hf, hi, hu, ht⟩ := h
  simp only [fillMemberAt, hu, fillRoot, Buf.write]
  have : max m.getRoot.len (o + off + (d.take (c - off)).length) = m.getRoot.len := by omega
  rw [this]

theorem dropEval_indexFrom (pre l : List Buf) (f : Buf → Res (Nat × Nat)) (k : Nat)
    (hok : ∀ m ∈ pre, ∃ p, f m = .ok p) :
    dropEval pre.length (indexFrom k ((pre ++ l).map f)) = indexFrom (k + pre.length) (l.map f) := by
  induction pre generalizing k with
  | nil => simp [dropEval]
  | cons m rest ih =>
    obtain ⟨p, hp⟩ := hok m (by simp)
    simp only [List.cons_append, List.map_cons, indexFrom, List.length_cons, dropEval, hp]
    rw [ih (k + 1) (fun x hx => hok x (by simp [hx]))]
    congr 1
    omega

theorem GoodAll.asUninit_ok {ms : List Buf} (h : GoodAll ms) : ∀ m ∈ ms, ∃ p, m.asUninit = .ok p := by
  induction ms with
  | nil => intro m hm; cases hm
  | cons a rest ih =>
    obtain ⟨⟨o, li, c, hg⟩, hr⟩ := h
    intro m hm
    rcases List.mem_cons.mp hm with rfl | hm
    · exact ⟨_, hg.2.2.2.1⟩
    · exact ih hr m hm

theorem GoodAll.asInit_ok {ms : List Buf} (h : GoodAll ms) : ∀ m ∈ ms, ∃ p, m.asInit = .ok p := by
  induction ms with
  | nil => intro m hm; cases hm
  | cons a rest ih =>
    obtain ⟨⟨o, li, c, hg⟩, hr⟩ := h
    intro m hm
    rcases List.mem_cons.mp hm with rfl | hm
    · exact ⟨_, hg.2.2.1⟩
    · exact ih hr m hm

/-- **Fill law through a `VectoredSlice`**: the wrapped `default_set_len` container consists of full members
`pre`, then a member `m` with the slice's `offset ≤ li` inside it, then `rest`, with either `m` full and `rest`
packed or `rest` all empty (this is exactly what `slice_mut(begin)` with `begin = capSum pre + off ≤ total_len` gives
on a packed buffer, see `skipCount_asUninit`). Writing `d` through the slice and recording it with
`advance_vec_to(|d|)` stores the first chunk `off` bytes into `m`, the following chunks into `rest` from their start,
records exactly those bytes (`set_len(begin + |d|)` on the wrapped buffer), and leaves `pre` untouched. -/
theorem VBuf.fill_slice_packed (pre : List Buf) (m : Buf) (rest : List Buf) (o li c off : Nat) (d : Bytes)
    (hpre : AllFull pre) (hm : GoodM m o li c) (hoff : off ≤ li)
    (hshape : (li = c ∧ Packed rest) ∨ AllEmpty rest)
    (hd : d.length ≤ (c - off) + capSum rest) :
    (VBuf.vslice (.base .list (pre ++ m :: rest)) (capSum pre + off) pre.length off).fill d =
      .ok (.vslice (.base .list (pre ++ fillMemberAt m off d :: fillMembers rest (d.drop (c - off))))
        (capSum pre + off) pre.length off) := by
  have hlc := hm.le
  have hu := hm.2.2.2.1
  have hi := hm.2.2.1
  have hrestP : Packed rest := by
    rcases hshape with h | h
    · exact h.2
    · exact h.packed
  have hrg := hrestP.good
  have hpg := hpre.good
  -- the slice's iterators
  have hitU : (VBuf.vslice (.base .list (pre ++ m :: rest)) (capSum pre + off) pre.length off).iterUninit =
      (pre.length, .ok (o + off, c - off)) :: indexFrom (pre.length + 1) (rest.map Buf.asUninit) := by
    simp only [VBuf.iterUninit]
    rw [dropEval_indexFrom pre (m :: rest) Buf.asUninit 0 hpg.asUninit_ok]
    simp only [List.map_cons, indexFrom, Nat.zero_add, applyOffset, hu]
    rw [if_pos (by omega)]
  have hitI : ∀ m' : Buf, m'.asInit = .ok (o, li) → ∀ rest' : List Buf,
      (VBuf.vslice (.base .list (pre ++ m' :: rest')) (capSum pre + off) pre.length off).iterSlice =
      (pre.length, .ok (o + off, li - off)) :: indexFrom (pre.length + 1) (rest'.map Buf.asInit) := by
    intro m' hm' rest'
    simp only [VBuf.iterSlice]
    rw [dropEval_indexFrom pre (m' :: rest') Buf.asInit 0 hpg.asInit_ok]
    simp only [List.map_cons, indexFrom, Nat.zero_add, applyOffset, hm']
    rw [if_pos hoff]
  unfold VBuf.fill
  simp only [VBuf.totalCap, hitU, sumItems, sumItems_asUninit rest (pre.length + 1) hrg, hd, if_true]
  -- the write phase
  have hwrite : ∃ cs, distribute ((pre.length, Except.ok (o + off, c - off)) ::
        indexFrom (pre.length + 1) (rest.map Buf.asUninit)) d = .ok cs ∧
      applyWrites (pre ++ m :: rest) cs =
        (if d.isEmpty then pre ++ m :: rest
         else pre ++ m.write (o + off) (d.take (c - off)) :: writeMembers rest (d.drop (c - off))) := by
    by_cases hde : d.isEmpty
    · simp only [distribute, hde, if_true]
      exact ⟨[], rfl, rfl⟩
    · simp only [distribute, hde, Bool.false_eq_true, if_false]
      obtain ⟨cs, h1, h2⟩ := distribute_applyWrites rest (pre ++ [m.write (o + off) (d.take (c - off))])
        (d.drop (c - off)) hrg
      simp only [List.length_append, List.length_cons, List.length_nil, Nat.zero_add] at h1
      refine ⟨(pre.length, o + off, d.take (c - off)) :: cs, by simp [h1], ?_⟩
      simp only [applyWrites, modifyAt_append]
      have : pre ++ m.write (o + off) (d.take (c - off)) :: rest =
          (pre ++ [m.write (o + off) (d.take (c - off))]) ++ rest := by simp
      rw [this, h2]
      simp
  obtain ⟨cs, hcs, happly⟩ := hwrite
  simp only [hcs, VBuf.members, happly, VBuf.setMembers]
  by_cases hde : d.isEmpty
  · -- nothing to write, nothing to record
    have hnil : d = [] := by simpa using hde
    subst hnil
    simp only [List.isEmpty_nil, if_true, List.length_nil]
    unfold VBuf.advanceVecTo
    simp only [VBuf.totalLen, hitI m hi rest, sumItems, sumItems_asInit rest (pre.length + 1) hrg]
    simp only [Nat.not_lt_zero, gt_iff_lt, if_false, List.drop_nil]
    rw [fillMembers_nil hrg]
    have : fillMemberAt m off [] = m := by
      simp only [fillMemberAt, hu, List.take_nil, fillRoot, splice_nil, List.length_nil, Nat.add_zero]
      have h1 : max m.getRoot.len (o + off) = m.getRoot.len := by have := hm.2.2.2.2; omega
      rw [h1]
      exact Buf.setRoot_eta m
    rw [this]
  · simp only [hde, Bool.false_eq_true, if_false]
    have hne : d ≠ [] := by simpa using hde
    have hdpos : d.length ≠ 0 := fun h0 => hne (List.length_eq_zero_iff.mp h0)
    unfold VBuf.advanceVecTo
    have hiw : (m.write (o + off) (d.take (c - off))).asInit = .ok (o, li) := by
      rw [Buf.asInit_write]; exact hi
    simp only [VBuf.totalLen, hitI _ hiw, sumItems, writeMembers_asInit,
      sumItems_asInit rest (pre.length + 1) hrg]
    have hchunk : (d.take (c - off)).length = min (c - off) d.length := by simp only [List.length_take]
    have hdrop : (d.drop (c - off)).length = d.length - (c - off) := by simp only [List.length_drop]
    by_cases hgt : d.length > li - off + lenSum rest
    · -- recorded: set_len(begin + |d|) on the wrapped container
      simp only [hgt, if_true, VBuf.setLen]
      rw [defaultSetLen_full_prefix pre _ _ hpre (by omega)]
      have hrem : capSum pre + off + d.length - capSum pre = off + d.length := by omega
      rw [hrem]
      have huw : (m.write (o + off) (d.take (c - off))).asUninit = .ok (o, c) := by
        have hfit := hm.fits
        rw [Buf.asUninit_write _ _ _ (by rw [hchunk]; omega)]
        exact hu
      simp only [defaultSetLen, show off + d.length ≠ 0 by omega, if_false, huw]
      have hmin : min c (off + d.length) = off + (d.take (c - off)).length := by rw [hchunk]; omega
      have hli : li ≤ off + (d.take (c - off)).length := by
        rw [hchunk]
        rcases hshape with h | h
        · omega
        · have := h.lenSum; omega
      rw [hmin, setLen_write_at hm off d (by omega) hli]
      simp only
      have hrem2 : off + d.length - (off + (d.take (c - off)).length) = (d.drop (c - off)).length := by
        rw [hchunk, hdrop]; omega
      rw [hrem2, defaultSetLen_writeMembers rest (d.drop (c - off)) hrestP (by
          rcases hshape with h | h
          · by_cases h0 : (d.drop (c - off)).length = 0
            · right; exact List.length_eq_zero_iff.mp h0
            · left; rw [hdrop] at h0 ⊢; omega
          · rw [h.lenSum]
            by_cases h0 : (d.drop (c - off)).length = 0
            · right; exact List.length_eq_zero_iff.mp h0
            · left; omega) (by rw [hdrop]; omega)]
    · -- the data ends inside the initialised part: the writes are the whole effect
      simp only [hgt, if_false]
      have hle : d.length ≤ li - off + lenSum rest := by omega
      rw [write_at_eq_fillMemberAt hm off d (by
        rw [hchunk]
        rcases hshape with h | h
        · omega
        · have := h.lenSum; omega)]
      rw [writeMembers_eq_fillMembers rest (d.drop (c - off)) hrestP (by
        rw [hdrop]
        rcases hshape with h | h
        · omega
        · have := h.lenSum; omega)]

/-- `slice_mut(capSum pre + off)` with `off` strictly inside `m` skips exactly the members `pre` -/
theorem skipCount_full_prefix (pre : List Buf) (m : Buf) (rest : List Buf) (o li c off k idx : Nat)
    (hpre : AllFull pre) (hm : GoodM m o li c) (hoff : off < c) :
    skipCount (indexFrom k ((pre ++ m :: rest).map Buf.asUninit)) (capSum pre + off) idx =
      .ok (idx + pre.length, off) := by
  induction pre generalizing k idx with
  | nil =>
    simp only [List.nil_append, List.map_cons, indexFrom, skipCount, hm.2.2.2.1, capSum, Nat.zero_add,
      List.length_nil, Nat.add_zero]
    rw [if_pos hoff]
  | cons a t ih =>
    obtain ⟨⟨oa, ca, ha⟩, ht⟩ := hpre
    simp only [List.cons_append, List.map_cons, indexFrom, skipCount, ha.2.2.2.1, capSum, memberCap]
    rw [if_neg (by omega)]
    have : ca + capSum t + off - ca = capSum t + off := by omega
    rw [this, ih (k + 1) (idx + 1) ht]
    simp only [List.length_cons]
    congr 2
    omega

/-! ### `VectoredBufIter`: the first position -/

/-- a fill through a freshly created `owned_iter()` (position 0, nothing recorded yet) of a `default_set_len`
container is the single-buffer fill of member 0; no other member is touched, whatever their shape -/
theorem VIter.fill_first (m : Buf) (rest : List Buf) (o li c : Nat) (hg : GoodM m o li c) (d : Bytes)
    (hd : d.length ≤ c) (n : Nat) :
    (VIter.mk (.base .list (m :: rest)) 0 0 n 0).fill d =
      .ok (VIter.mk (.base .list (fillMember m d :: rest)) 0 0 n (if d.length > li then d.length else 0)) := by
  have hi := hg.2.2.1
  have hu := hg.2.2.2.1
  have htake : d.take c = d := List.take_of_length_le hd
  have hui : (VIter.mk (.base .list (m :: rest)) 0 0 n 0).asUninit = .ok (0, o, c) := by
    simp [VIter.asUninit, VBuf.iterUninit, indexFrom, nthItem, hu]
  have hii : ∀ m' : Buf, m'.asInit = .ok (o, li) →
      (VIter.mk (.base .list (m' :: rest)) 0 0 n 0).asInit = .ok (0, o, li) := by
    intro m' h
    simp [VIter.asInit, VBuf.iterSlice, indexFrom, nthItem, h]
  unfold VIter.fill
  simp only [hui, hd, if_true, hii m hi, VBuf.members, VBuf.setMembers, modifyAt]
  unfold VIter.advanceTo
  rw [hii _ (by rw [Buf.asInit_write]; exact hi)]
  simp only
  by_cases hgt : d.length > li
  · simp only [hgt, if_true, VIter.setLen, Nat.zero_add, VBuf.setLen, defaultSetLen]
    have hpos : d.length ≠ 0 := by omega
    have hw := asUninit_write_good hg d
    rw [htake] at hw
    have hs := setLen_write_eq_fillMember hg d (by rw [htake]; omega)
    rw [htake] at hs
    have hmin : min c d.length = d.length := by omega
    simp only [hpos, if_false, hw, hmin, hs, Nat.sub_self, defaultSetLen_zero]
  · simp only [hgt, if_false]
    have := write_eq_fillMember hg d (by rw [htake]; omega)
    rw [htake] at this
    rw [this]

end Compio.View
