/- helper lemmas for Props/C13 (framers and the Framed read loop) -/
import Compio.Model.Frame

namespace Compio.Frame

@[simp] theorem length_leBytes (k n : Nat) : (leBytes k n).length = k := by
  induction k generalizing n with
  | zero => rfl
  | succ k ih => simp [leBytes, ih]

theorem leVal_leBytes (k n : Nat) : leVal (leBytes k n) = n % 256 ^ k := by
  induction k generalizing n with
  | zero => simp [leBytes, leVal, Nat.mod_one]
  | succ k ih =>
    simp only [leBytes, leVal, ih]
    have h : (UInt8.ofNat (n % 256)).toNat = n % 256 := by
      simp [UInt8.toNat_ofNat']
    rw [h, Nat.pow_succ, Nat.mul_comm (256 ^ k) 256, Nat.mod_mul]

@[simp] theorem length_encodeLen (lfl : Nat) (be : Bool) (n : Nat) : (encodeLen lfl be n).length = lfl := by
  unfold encodeLen; split <;> simp

theorem decode_encodeLen (lfl : Nat) (be : Bool) (n : Nat) :
    decodeLen be (encodeLen lfl be n) = n % 256 ^ lfl := by
  unfold decodeLen encodeLen
  cases be <;> simp [leVal_leBytes]

theorem LD.length_enclose (f : LD) (p : Bytes) : (f.enclose p).length = f.lfl + p.length := by
  simp [LD.enclose]

/-- a buffer that starts with a whole enclosed frame: the frame is found, whatever follows -/
theorem LD.extract_enclose_append (f : LD) (p rest : Bytes)
    (hfit : p.length < 256 ^ f.lfl) (hsz : f.lfl + p.length < usizeLimit) :
    f.extract (f.enclose p ++ rest) = .frame f.lfl p.length 0 := by
  have htake : (f.enclose p ++ rest).take f.lfl = encodeLen f.lfl f.be p.length := by
    simp [LD.enclose, List.take_append]
  have hlen : (f.enclose p ++ rest).length = f.lfl + p.length + rest.length := by
    simp [LD.enclose]; omega
  unfold LD.extract
  simp only [htake, decode_encodeLen, Nat.mod_eq_of_lt hfit, hlen]
  have h1 : ¬ (f.lfl + p.length + rest.length < f.lfl) := by omega
  have h2 : ¬ (usizeLimit ≤ f.lfl + p.length) := by omega
  have h3 : ¬ (f.lfl + p.length + rest.length < f.lfl + p.length) := by omega
  simp [h1, h2, h3]

/-- a strict prefix of an enclosed frame is reported incomplete -/
theorem LD.extract_strict_prefix (f : LD) (p b : Bytes)
    (hfit : p.length < 256 ^ f.lfl) (hsz : f.lfl + p.length < usizeLimit)
    (hpre : b <+: f.enclose p) (hlt : b.length < (f.enclose p).length) :
    f.extract b = .none := by
  rw [LD.length_enclose] at hlt
  unfold LD.extract
  by_cases h : b.length < f.lfl
  · simp [h]
  · simp only [h, if_false]
    obtain ⟨t, ht⟩ := hpre
    have htake : b.take f.lfl = encodeLen f.lfl f.be p.length := by
      have : (b ++ t).take f.lfl = encodeLen f.lfl f.be p.length := by
        rw [ht]; simp [LD.enclose, List.take_append]
      rw [List.take_append_of_le_length (by omega)] at this
      exact this
    simp only [htake, decode_encodeLen, Nat.mod_eq_of_lt hfit]
    have h2 : ¬ (usizeLimit ≤ f.lfl + p.length) := by omega
    simp [h2, hlt]

/-! ### findSub -/

theorem findSub_bound (d : Bytes) : ∀ (b : Bytes) (pos : Nat), findSub d b = some pos → pos + d.length ≤ b.length := by
  intro b
  induction b with
  | nil => intro pos h; simp [findSub] at h
  | cons x r ih =>
    intro pos h
    unfold findSub at h
    split at h
    · rename_i hp
      have := (List.isPrefixOf_iff_prefix.mp hp).length_le
      simp at h; subst h; simpa using this
    · cases hr : findSub d r with
      | none => simp [hr] at h
      | some q =>
        simp [hr] at h
        have := ih q hr
        simp; omega

/-- `findSub` finds position `p.length` when the text is `p ++ d ++ rest` and `d` does not occur earlier -/
theorem findSub_append (d p rest : Bytes) (hd : d ≠ [])
    (hfirst : findSub d (p ++ d) = some p.length) :
    findSub d (p ++ (d ++ rest)) = some p.length := by
  induction p with
  | nil =>
    cases d with
    | nil => exact absurd rfl hd
    | cons x xs =>
      have : List.isPrefixOf (x :: xs) (x :: (xs ++ rest)) = true := by
        rw [List.isPrefixOf_iff_prefix]; exact ⟨rest, by simp⟩
      simp only [List.nil_append, List.cons_append, findSub, this, if_true, List.length_nil]
  | cons x r ih =>
    simp only [List.cons_append, findSub, List.length_cons] at hfirst ⊢
    by_cases hp0 : List.isPrefixOf d (x :: (r ++ d)) = true
    · simp [hp0] at hfirst
    · simp only [hp0] at hfirst
      cases hr : findSub d (r ++ d) with
      | none => simp [hr] at hfirst
      | some q =>
        simp [hr] at hfirst
        have hq : q = r.length := by omega
        subst hq
        have hnp' : ¬ (List.isPrefixOf d (x :: (r ++ (d ++ rest))) = true) := by
          intro hp
          apply hp0
          rw [List.isPrefixOf_iff_prefix] at hp ⊢
          have hlen : d.length ≤ (x :: (r ++ d)).length := by simp; omega
          have h2 : (x :: (r ++ d)) <+: x :: (r ++ (d ++ rest)) := ⟨rest, by simp⟩
          exact List.prefix_of_prefix_length_le hp h2 hlen
        simp only [hnp', ih hr, Option.map_some]
        rfl

theorem findSub_none_of_short (d : Bytes) : ∀ b : Bytes, b.length < d.length → findSub d b = none := by
  intro b
  induction b with
  | nil => intro _; rfl
  | cons x r ih =>
    intro h
    unfold findSub
    have hnp : ¬ (d.isPrefixOf (x :: r) = true) := by
      intro hp
      have := (List.isPrefixOf_iff_prefix.mp hp).length_le
      omega
    simp [hnp, ih (by simp at h; omega)]

end Compio.Frame

namespace Compio.Frame

theorem findSub_append_right (d : Bytes) : ∀ (b t : Bytes) (q : Nat),
    findSub d b = some q → findSub d (b ++ t) = some q := by
  intro b
  induction b with
  | nil => intro t q h; simp [findSub] at h
  | cons x r ih =>
    intro t q h
    have hb := findSub_bound d (x :: r) q h
    simp only [List.cons_append, findSub] at h ⊢
    by_cases hp : List.isPrefixOf d (x :: r) = true
    · have hp' : List.isPrefixOf d (x :: (r ++ t)) = true := by
        rw [List.isPrefixOf_iff_prefix] at hp ⊢
        exact List.IsPrefix.trans hp ⟨t, by simp⟩
      simp only [hp, if_true] at h
      simp only [hp', if_true]
      exact h
    · simp only [hp] at h
      have hp' : ¬ (List.isPrefixOf d (x :: (r ++ t)) = true) := by
        intro hq
        apply hp
        rw [List.isPrefixOf_iff_prefix] at hq ⊢
        have h2 : (x :: r) <+: x :: (r ++ t) := ⟨t, by simp⟩
        exact List.prefix_of_prefix_length_le hq h2 (by omega)
      simp only [hp']
      cases hr : findSub d r with
      | none => simp [hr] at h
      | some q' =>
        simp [hr] at h
        simp [ih t q' hr, h]

theorem findSub_of_disjoint (d p : Bytes) (hd : d ≠ []) (h : ∀ x ∈ p, x ∉ d) :
    findSub d (p ++ d) = some p.length := by
  induction p with
  | nil =>
    cases d with
    | nil => exact absurd rfl hd
    | cons y ys =>
      have : List.isPrefixOf (y :: ys) (y :: ys) = true := by
        rw [List.isPrefixOf_iff_prefix]; exact List.prefix_refl _
      simp [findSub, this]
  | cons x r ih =>
    have hnp : ¬ (List.isPrefixOf d (x :: (r ++ d)) = true) := by
      intro hp
      rw [List.isPrefixOf_iff_prefix] at hp
      cases d with
      | nil => exact hd rfl
      | cons y ys =>
        obtain ⟨t, ht⟩ := hp
        simp at ht
        exact h x (by simp) (by simp [ht.1])
    simp only [List.cons_append, findSub, hnp]
    rw [ih (fun y hy => h y (by simp [hy]))]
    simp

end Compio.Frame

namespace Compio.Frame

/-! unfolding lemmas for `pollNext`, one per branch -/

theorem pollNext_panic (ext : Bytes → Extract) (st : RState) (frags : List Frag)
    (h : ext st.buf = .panic) : pollNext ext st frags = (.panic, st, frags) := by
  unfold pollNext; simp [h]

theorem pollNext_err (ext : Bytes → Extract) (st : RState) (frags : List Frag)
    (h : ext st.buf = .err) : pollNext ext st frags = (.err, st, frags) := by
  unfold pollNext; simp [h]

theorem pollNext_frame (ext : Bytes → Extract) (st : RState) (frags : List Frag) (p l s : Nat)
    (h : ext st.buf = .frame p l s) (hr : p + l + s ≤ st.buf.length) :
    pollNext ext st frags =
      (.item ((st.buf.drop p).take l), { st with buf := st.buf.drop (p + l + s) }, frags) := by
  have : ¬ (st.buf.length < p + l + s) := by omega
  unfold pollNext; simp [h, this]

theorem pollNext_frame_bad (ext : Bytes → Extract) (st : RState) (frags : List Frag) (p l s : Nat)
    (h : ext st.buf = .frame p l s) (hr : st.buf.length < p + l + s) :
    pollNext ext st frags = (.panic, st, frags) := by
  unfold pollNext; simp [h, hr]

theorem pollNext_none_nil (ext : Bytes → Extract) (st : RState)
    (h : ext st.buf = .none) : pollNext ext st [] = (.done, { st with eof := true }, []) := by
  unfold pollNext; simp [h]

theorem pollNext_none_ioerr (ext : Bytes → Extract) (st : RState) (rest : List Frag)
    (h : ext st.buf = .none) : pollNext ext st (.ioerr :: rest) = (.err, st, rest) := by
  unfold pollNext; simp [h]

theorem pollNext_none_data (ext : Bytes → Extract) (st : RState) (bs : Bytes) (rest : List Frag)
    (h : ext st.buf = .none) (hne : bs ≠ []) :
    pollNext ext st (.data bs :: rest) = pollNext ext { st with buf := st.buf ++ bs } rest := by
  have : bs.isEmpty = false := by cases bs <;> simp_all
  conv => lhs; unfold pollNext
  simp [h, this]

theorem pollNext_none_zero (ext : Bytes → Extract) (st : RState) (rest : List Frag)
    (h : ext st.buf = .none) :
    pollNext ext st (.data [] :: rest) =
      if st.eof then (.done, st, rest) else pollNext ext { st with eof := true } rest := by
  conv => lhs; unfold pollNext
  simp [h]

end Compio.Frame
