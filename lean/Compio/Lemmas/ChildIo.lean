/-
C20 — lemmas about the child-process model (`Compio.Model.ChildIo`).
-/
import Compio.Model.ChildIo

namespace Compio.ChildIo

@[simp] theorem atLeast_iff {α : Type} (l : List α) (k : Nat) : atLeast l k = true ↔ k ≤ l.length := by
  induction l generalizing k with
  | nil => cases k <;> simp [atLeast]
  | cons a r ih => cases k <;> simp [atLeast, ih]

/-! ## one lemma per event: what a successful step looks like -/

theorem stepWr_some {c : Cfg} {s s' : St} {k : Nat} (h : stepWr c s k = some s') :
    depsOk c s .W = true ∧ s.wepipe = false ∧ s.wclosed = false ∧ s.status = none ∧
    1 ≤ k ∧ k ≤ offered c s ∧ k ≤ s.wleft.length ∧ s.nin + k ≤ c.capIn ∧
    s' = { s with pin := s.pin ++ s.wleft.take k, nin := s.nin + k, wleft := s.wleft.drop k,
                  wsent := s.wsent ++ s.wleft.take k,
                  wblock := if c.blocking then offered c s - k else 0 } := by
  unfold stepWr at h
  split at h
  · rename_i g
    simp only [atLeast_iff] at g
    simp at h
    exact ⟨g.1, g.2.1, g.2.2.1, g.2.2.2.1, g.2.2.2.2.1, g.2.2.2.2.2.1, g.2.2.2.2.2.2.1, g.2.2.2.2.2.2.2, h.symm⟩
  · simp at h


theorem stepWrEpipe_some {c : Cfg} {s s' : St} (h : stepWrEpipe c s = some s') :
    depsOk c s .W = true ∧ s.wepipe = false ∧ s.wclosed = false ∧ s.wleft ≠ [] ∧ s.status.isSome = true ∧
    s' = { s with wepipe := true, wblock := 0 } := by
  unfold stepWrEpipe at h
  split at h
  · rename_i g; simp at h
    exact ⟨g.1, g.2.1, g.2.2.1, g.2.2.2.1, g.2.2.2.2, h.symm⟩
  · simp at h

theorem stepWclose_some {c : Cfg} {s s' : St} (h : stepWclose c s = some s') :
    depsOk c s .W = true ∧ s.wblock = 0 ∧ s.wclosed = false ∧ (s.wleft = [] ∨ s.wepipe = true) ∧
    s' = { s with wclosed := true } := by
  unfold stepWclose at h
  split at h
  · rename_i g; simp at h
    exact ⟨g.1, g.2.1, g.2.2.1, g.2.2.2, h.symm⟩
  · simp at h

theorem stepRd_out_some {c : Cfg} {s s' : St} {k : Nat} (h : stepRd c s .out k = some s') :
    depsOk c s .Ro = true ∧ s.wblock = 0 ∧ s.routDone = false ∧ 1 ≤ k ∧ k ≤ c.rchunk ∧ k ≤ s.pout.length ∧
    s' = { s with rout := s.rout ++ s.pout.take k, pout := s.pout.drop k, nout := s.nout - k } := by
  simp only [stepRd] at h
  split at h
  · rename_i g; simp only [atLeast_iff] at g; simp at h
    exact ⟨g.1, g.2.1, g.2.2.1, g.2.2.2.1, g.2.2.2.2.1, g.2.2.2.2.2, h.symm⟩
  · simp at h

theorem stepRd_err_some {c : Cfg} {s s' : St} {k : Nat} (h : stepRd c s .err k = some s') :
    depsOk c s .Re = true ∧ s.wblock = 0 ∧ s.rerrDone = false ∧ 1 ≤ k ∧ k ≤ c.rchunk ∧ k ≤ s.perr.length ∧
    s' = { s with rerr := s.rerr ++ s.perr.take k, perr := s.perr.drop k, nerr := s.nerr - k } := by
  simp only [stepRd] at h
  split at h
  · rename_i g; simp only [atLeast_iff] at g; simp at h
    exact ⟨g.1, g.2.1, g.2.2.1, g.2.2.2.1, g.2.2.2.2.1, g.2.2.2.2.2, h.symm⟩
  · simp at h

theorem stepRd_null {c : Cfg} {s : St} {k : Nat} : stepRd c s .null k = none := rfl

theorem stepRdEof_out_some {c : Cfg} {s s' : St} (h : stepRdEof c s .out = some s') :
    depsOk c s .Ro = true ∧ s.wblock = 0 ∧ s.routDone = false ∧ s.pout = [] ∧ s.status.isSome = true ∧
    s' = { s with routDone := true } := by
  simp only [stepRdEof] at h
  split at h
  · rename_i g; simp at h
    exact ⟨g.1, g.2.1, g.2.2.1, g.2.2.2.1, g.2.2.2.2, h.symm⟩
  · simp at h

theorem stepRdEof_err_some {c : Cfg} {s s' : St} (h : stepRdEof c s .err = some s') :
    depsOk c s .Re = true ∧ s.wblock = 0 ∧ s.rerrDone = false ∧ s.perr = [] ∧ s.status.isSome = true ∧
    s' = { s with rerrDone := true } := by
  simp only [stepRdEof] at h
  split at h
  · rename_i g; simp at h
    exact ⟨g.1, g.2.1, g.2.2.1, g.2.2.2.1, g.2.2.2.2, h.symm⟩
  · simp at h

theorem stepRdEof_null {c : Cfg} {s : St} : stepRdEof c s .null = none := rfl

theorem stepWtStart_some {c : Cfg} {s s' : St} (h : stepWtStart c s = some s') :
    depsOk c s .Wt = true ∧ s.wblock = 0 ∧ s.wt = .idle ∧
    s' = { s with wt := .started, fdRefs := if c.pidfd then s.fdRefs + 1 else s.fdRefs } := by
  unfold stepWtStart at h
  split at h
  · rename_i g; simp at h
    exact ⟨g.1, g.2.1, g.2.2, h.symm⟩
  · simp at h

theorem stepWtReady_some {c : Cfg} {s s' : St} (h : stepWtReady c s = some s') :
    depsOk c s .Wt = true ∧ s.wblock = 0 ∧ c.pidfd = true ∧ s.wt = .started ∧ s.status.isSome = true ∧
    s' = { s with wt := .ready, fdRefs := s.fdRefs - 1 } := by
  unfold stepWtReady at h
  split at h
  · rename_i g; simp at h
    exact ⟨g.1, g.2.1, g.2.2.1, g.2.2.2.1, g.2.2.2.2, h.symm⟩
  · simp at h

theorem stepWtTake_some {c : Cfg} {s s' : St} (h : stepWtTake c s = some s') :
    depsOk c s .Wt = true ∧ s.wblock = 0 ∧ c.pidfd = true ∧ s.wt = .ready ∧ s.fdRefs = 1 ∧
    s' = { s with wt := .taken, fdRefs := 0 } := by
  unfold stepWtTake at h
  split at h
  · rename_i g; simp at h
    exact ⟨g.1, g.2.1, g.2.2.1, g.2.2.2.1, g.2.2.2.2, h.symm⟩
  · simp at h

theorem stepWtDone_some {c : Cfg} {s s' : St} (h : stepWtDone c s = some s') :
    depsOk c s .Wt = true ∧ s.wblock = 0 ∧ s.wt = c.lastPc ∧
    ∃ st, s.status = some st ∧ s' = { s with wt := .done st } := by
  unfold stepWtDone at h
  split at h
  · rename_i g
    split at h
    · rename_i st hst; simp at h
      exact ⟨g.1, g.2.1, g.2.2, st, hst, h.symm⟩
    · simp at h
  · simp at h

theorem stepCRead_some {c : Cfg} {s s' : St} {k : Nat} (h : stepCRead c s k = some s') :
    s.status = none ∧ s.pend = [] ∧ ∃ lim blk dst r, s.script = .copy lim blk dst :: r ∧
    1 ≤ k ∧ k ≤ blk ∧ k ≤ s.pin.length ∧ limOk lim k = true ∧
    s' = (match dst with
      | .null => { s with pin := s.pin.drop k, nin := s.nin - k, got := s.got ++ s.pin.take k,
                          script := .copy (limSub lim k) blk dst :: r, sunk := s.sunk + k }
      | d => { s with pin := s.pin.drop k, nin := s.nin - k, got := s.got ++ s.pin.take k,
                      script := .copy (limSub lim k) blk dst :: r, pend := s.pin.take k, pdst := d }) := by
  unfold stepCRead at h
  split at h
  · rename_i g
    refine ⟨g.1, g.2, ?_⟩
    split at h
    · rename_i lim blk dst r hs
      split at h
      · rename_i g2; simp only [atLeast_iff] at g2
        refine ⟨lim, blk, dst, r, hs, g2.1, g2.2.1, g2.2.2.1, g2.2.2.2, ?_⟩
        cases dst <;> simp at h <;> simp [← h]
      · simp at h
    · simp at h
  · simp at h

theorem stepCEof_some {c : Cfg} {s s' : St} (h : stepCEof c s = some s') :
    s.status = none ∧ s.pend = [] ∧ s.pin = [] ∧ s.wclosed = true ∧
    ∃ lim blk dst r, s.script = .copy lim blk dst :: r ∧ lim ≠ some 0 ∧ s' = { s with script := r } := by
  unfold stepCEof at h
  split at h
  · rename_i g
    refine ⟨g.1, g.2.1, g.2.2.1, g.2.2.2, ?_⟩
    split at h
    · rename_i lim blk dst r hs
      split at h
      · simp at h
      · rename_i hl; simp at h
        exact ⟨lim, blk, dst, r, hs, hl, h.symm⟩
    · simp at h
  · simp at h

theorem stepCWrite_some {c : Cfg} {s s' : St} {k : Nat} (h : stepCWrite c s k = some s') :
    s.status = none ∧ 1 ≤ k ∧ k ≤ s.pend.length ∧
    ((s.pdst = .out ∧ s.nout + k ≤ c.capOut ∧
      s' = { s with pout := s.pout ++ s.pend.take k, nout := s.nout + k, cout := s.cout ++ s.pend.take k,
                    pend := s.pend.drop k }) ∨
     (s.pdst = .err ∧ s.nerr + k ≤ c.capErr ∧
      s' = { s with perr := s.perr ++ s.pend.take k, nerr := s.nerr + k, cerr := s.cerr ++ s.pend.take k,
                    pend := s.pend.drop k })) := by
  unfold stepCWrite at h
  split at h
  · rename_i g; simp only [atLeast_iff] at g
    refine ⟨g.1, g.2.1, g.2.2, ?_⟩
    split at h
    · rename_i hd
      split at h
      · rename_i hc; simp at h; exact Or.inl ⟨hd, hc, h.symm⟩
      · simp at h
    · rename_i hd
      split at h
      · rename_i hc; simp at h; exact Or.inr ⟨hd, hc, h.symm⟩
      · simp at h
    · simp at h
  · simp at h

/-- the shapes of a successful `cStep` -/
inductive CStepCase (s s' : St) : Prop where
  | fallOff (hs : s.script = []) (h : s' = { s with status := some (.exited 0) })
  | copyDone (blk : Nat) (dst : Dst) (r : List CAct) (hs : s.script = .copy (some 0) blk dst :: r)
      (h : s' = { s with script := r })
  | emitNull (bs : Bytes) (r : List CAct) (hs : s.script = .emit .null bs :: r) (h : s' = { s with script := r })
  | emit (d : Dst) (bs : Bytes) (r : List CAct) (hs : s.script = .emit d bs :: r) (hd : d ≠ .null)
      (h : s' = { s with script := r, pend := bs, pdst := d })
  | nop (r : List CAct) (hs : s.script = .nop :: r) (h : s' = { s with script := r })
  | exit (code : Nat) (r : List CAct) (hs : s.script = .exit code :: r)
      (h : s' = { s with script := [], status := some (.exited code) })
  | kill (sg : Nat) (r : List CAct) (hs : s.script = .kill sg :: r)
      (h : s' = { s with script := [], status := some (.signaled sg) })

theorem stepCStep_some {c : Cfg} {s s' : St} (h : stepCStep c s = some s') :
    s.status = none ∧ s.pend = [] ∧ CStepCase s s' := by
  unfold stepCStep at h
  split at h
  · rename_i g
    refine ⟨g.1, g.2, ?_⟩
    split at h
    · rename_i hs; simp at h; exact .fallOff hs h.symm
    · rename_i lim blk dst r hs
      split at h
      · rename_i hl; simp at h; subst hl; exact .copyDone blk dst r hs h.symm
      · simp at h
    · rename_i bs r hs; simp at h; exact .emitNull bs r hs h.symm
    · rename_i d bs r hd hs; simp at h
      refine .emit d bs r hs ?_ h.symm
      intro hn; subst hn
      exact hd rfl
    · rename_i r hs; simp at h; exact .nop r hs h.symm
    · rename_i code r hs; simp at h; exact .exit code r hs h.symm
    · rename_i sg r hs; simp at h; exact .kill sg r hs h.symm
  · simp at h

/-! ## termination: every step decreases `mu` -/

theorem wScript_cons (a : CAct) (r : List CAct) : wScript (a :: r) = wAct a + wScript r := rfl

theorem mu_decrease {c : Cfg} {s s' : St} {e : Ev} (h : step c s e = some s') : mu s' < mu s := by
  cases e with
  | wr k =>
    obtain ⟨-, h2, -, -, h5, -, h7, -, rfl⟩ := stepWr_some h
    simp [mu, h2, List.length_drop]
    omega
  | wrEpipe =>
    obtain ⟨-, g2, -, g4, -, rfl⟩ := stepWrEpipe_some h
    have : 0 < s.wleft.length := List.length_pos_iff.mpr g4
    simp [mu, g2]; omega
  | wclose =>
    obtain ⟨-, -, g3, -, rfl⟩ := stepWclose_some h
    simp [mu, b2n, g3]
  | rd d k =>
    cases d with
    | out =>
      obtain ⟨-, -, -, g4, -, g6, rfl⟩ := stepRd_out_some h
      simp [mu, List.length_drop]; omega
    | err =>
      obtain ⟨-, -, -, g4, -, g6, rfl⟩ := stepRd_err_some h
      simp [mu, List.length_drop]; omega
    | null => simp [step, stepRd_null] at h
  | rdEof d =>
    cases d with
    | out =>
      obtain ⟨-, -, g3, -, -, rfl⟩ := stepRdEof_out_some h
      simp [mu, b2n, g3]
    | err =>
      obtain ⟨-, -, g3, -, -, rfl⟩ := stepRdEof_err_some h
      simp [mu, b2n, g3]
    | null => simp [step, stepRdEof_null] at h
  | wtStart =>
    obtain ⟨-, -, g3, rfl⟩ := stepWtStart_some h
    simp [mu, g3, wtRank]
  | wtReady =>
    obtain ⟨-, -, -, g3, -, rfl⟩ := stepWtReady_some h
    simp [mu, g3, wtRank]
  | wtTake =>
    obtain ⟨-, -, -, g3, -, rfl⟩ := stepWtTake_some h
    simp [mu, g3, wtRank]
  | wtDone =>
    obtain ⟨-, -, g3, st, -, rfl⟩ := stepWtDone_some h
    cases hp : c.pidfd <;> simp [mu, g3, wtRank, Cfg.lastPc, hp]
  | cRead k =>
    obtain ⟨g1, g2, lim, blk, dst, r, hs, g3, g4, g5, g6, rfl⟩ := stepCRead_some (c := c) h
    cases dst <;> simp [mu, hs, g2, wScript_cons, wAct, List.length_drop, List.length_take] <;> omega
  | cEof =>
    obtain ⟨-, -, -, -, lim, blk, dst, r, hs, -, rfl⟩ := stepCEof_some (c := c) h
    simp [mu, hs, wScript_cons, wAct]
  | cWrite k =>
    obtain ⟨-, g2, g3, hh⟩ := stepCWrite_some h
    rcases hh with ⟨-, -, rfl⟩ | ⟨-, -, rfl⟩ <;> simp [mu, List.length_drop, List.length_take] <;> omega
  | cStep =>
    obtain ⟨g1, g2, hc⟩ := stepCStep_some (c := c) h
    cases hc with
    | fallOff hs h => subst h; simp [mu, g1, b2n]
    | copyDone blk dst r hs h => subst h; simp [mu, hs, wScript_cons, wAct]
    | emitNull bs r hs h => subst h; simp [mu, hs, wScript_cons, wAct]; omega
    | emit d bs r hs hd h => subst h; simp [mu, hs, g2, wScript_cons, wAct]; omega
    | nop r hs h => subst h; simp [mu, hs, wScript_cons, wAct]
    | exit code r hs h => subst h; simp [mu, hs, g1, wScript_cons, wAct, b2n, wScript]; omega
    | kill sg r hs h => subst h; simp [mu, hs, g1, wScript_cons, wAct, b2n, wScript]; omega


theorem run_nil (c : Cfg) (s : St) : run c s [] = some s := rfl

theorem run_cons (c : Cfg) (s : St) (e : Ev) (es : List Ev) :
    run c s (e :: es) = (match step c s e with | some s' => run c s' es | none => none) := rfl

theorem run_append {c : Cfg} {s s1 : St} {es1 es2 : List Ev} (h : run c s es1 = some s1) :
    run c s (es1 ++ es2) = run c s1 es2 := by
  induction es1 generalizing s with
  | nil => simp [run] at h; subst h; rfl
  | cons e es ih =>
    simp only [List.cons_append, run_cons] at h ⊢
    cases hs : step c s e with
    | none => simp [hs] at h
    | some s2 => simp only [hs] at h ⊢; exact ih h

/-- a run of `n` steps lowers the measure by at least `n` -/
theorem run_mu {c : Cfg} {s s' : St} {es : List Ev} (h : run c s es = some s') :
    mu s' + es.length ≤ mu s := by
  induction es generalizing s with
  | nil => simp [run] at h; subst h; simp
  | cons e es ih =>
    simp only [run_cons] at h
    cases hs : step c s e with
    | none => simp [hs] at h
    | some s2 =>
      simp only [hs] at h
      have := ih h
      have := mu_decrease hs
      simp only [List.length_cons]; omega

/-! ## the invariant of reachable states -/

/-- strong count of the `SharedFd<PidFdWrap>` at each point of the wait -/
def refsAt (c : Cfg) : WaitPc → Nat
  | .idle => 1
  | .started => if c.pidfd then 2 else 1
  | .ready => 1
  | .taken => 0
  | .done _ => if c.pidfd then 0 else 1

/-- invariant of every reachable state (`p` = the payload the writer started with) -/
structure Inv (c : Cfg) (p : Bytes) (s : St) : Prop where
  nin : s.nin = s.pin.length
  nout : s.nout = s.pout.length
  nerr : s.nerr = s.perr.length
  capIn : s.pin.length ≤ c.capIn
  capOut : s.pout.length ≤ c.capOut
  capErr : s.perr.length ≤ c.capErr
  sent : s.wsent ++ s.wleft = p
  gotpin : s.got ++ s.pin = s.wsent
  outs : s.rout ++ s.pout = s.cout
  errs : s.rerr ++ s.perr = s.cerr
  epipe : s.wepipe = true → s.status.isSome = true
  epipeLeft : s.wepipe = true → s.wleft ≠ []
  closed : s.wclosed = true → s.wleft = [] ∨ s.wepipe = true
  dead : s.status.isSome = true → s.script = [] ∧ s.pend = []
  pdst : s.pend ≠ [] → s.pdst ≠ .null
  routDone : s.routDone = true → s.status.isSome = true ∧ s.pout = []
  rerrDone : s.rerrDone = true → s.status.isSome = true ∧ s.perr = []
  wtExited : (s.wt = .ready ∨ s.wt = .taken) → s.status.isSome = true
  wtDone : ∀ st, s.wt = .done st → s.status = some st
  refs : s.fdRefs = refsAt c s.wt
  wtPidfd : (s.wt = .ready ∨ s.wt = .taken) → c.pidfd = true
  wblockLe : s.wblock ≤ s.wleft.length
  wblockNB : c.blocking = false → s.wblock = 0
  wblockOpen : 0 < s.wblock → s.wepipe = false ∧ s.wclosed = false ∧ depsOk c s .W = true

theorem inv_init (c : Cfg) (script : List CAct) (payload : Bytes) (b : Bool) :
    Inv c (init script payload b).wleft (init script payload b) := by
  constructor <;> simp [init, refsAt] <;> intro h1 h2 <;> simp_all

theorem offered_le {c : Cfg} {s : St} (h : s.wblock ≤ s.wleft.length) : offered c s ≤ s.wleft.length := by
  unfold offered; split
  · simp [List.length_take]; omega
  · omega

theorem inv_wr {c : Cfg} {p : Bytes} {s s' : St} {k : Nat} (hi : Inv c p s) (h : step c s (.wr k) = some s') :
    Inv c p s' := by
  obtain ⟨i1, i2, i3, i4, i5, i6, i7, i8, i9, i10, i11, i24, i12, i13, i14, i15, i16, i17, i18, i19, i23, i20, i21, i22⟩ := hi
  obtain ⟨g1, g2, g3, g4, g5, g6, g7, g8, rfl⟩ := stepWr_some h
  clear h
  have hoff := offered_le (c := c) i20
  constructor <;> simp_all [depsOk, St.done, List.length_drop]
  · rw [← List.append_assoc, i8]
  · split <;> omega
theorem inv_wrEpipe {c : Cfg} {p : Bytes} {s s' : St} (hi : Inv c p s) (h : step c s (.wrEpipe) = some s') :
    Inv c p s' := by
  obtain ⟨i1, i2, i3, i4, i5, i6, i7, i8, i9, i10, i11, i24, i12, i13, i14, i15, i16, i17, i18, i19, i23, i20, i21, i22⟩ := hi
  obtain ⟨g1, g2, g3, g4, g5, rfl⟩ := stepWrEpipe_some h
  clear h
  constructor <;> simp_all [depsOk, St.done]
theorem inv_wclose {c : Cfg} {p : Bytes} {s s' : St} (hi : Inv c p s) (h : step c s (.wclose) = some s') :
    Inv c p s' := by
  obtain ⟨i1, i2, i3, i4, i5, i6, i7, i8, i9, i10, i11, i24, i12, i13, i14, i15, i16, i17, i18, i19, i23, i20, i21, i22⟩ := hi
  obtain ⟨g1, g2, g3, g4, rfl⟩ := stepWclose_some h
  clear h
  constructor <;> simp_all [depsOk, St.done]
theorem inv_rd {c : Cfg} {p : Bytes} {s s' : St} {d : Dst} {k : Nat} (hi : Inv c p s) (h : step c s (.rd d k) = some s') :
    Inv c p s' := by
  obtain ⟨i1, i2, i3, i4, i5, i6, i7, i8, i9, i10, i11, i24, i12, i13, i14, i15, i16, i17, i18, i19, i23, i20, i21, i22⟩ := hi
  cases d with
  | out =>
    obtain ⟨g1, g2, g3, g4, g5, g6, rfl⟩ := stepRd_out_some h
    clear h
    constructor <;> simp_all [depsOk, St.done, List.length_drop] <;> omega
  | err =>
    obtain ⟨g1, g2, g3, g4, g5, g6, rfl⟩ := stepRd_err_some h
    clear h
    constructor <;> simp_all [depsOk, St.done, List.length_drop] <;> omega
  | null => simp [step, stepRd_null] at h
theorem inv_rdEof {c : Cfg} {p : Bytes} {s s' : St} {d : Dst} (hi : Inv c p s) (h : step c s (.rdEof d) = some s') :
    Inv c p s' := by
  obtain ⟨i1, i2, i3, i4, i5, i6, i7, i8, i9, i10, i11, i24, i12, i13, i14, i15, i16, i17, i18, i19, i23, i20, i21, i22⟩ := hi
  cases d with
  | out =>
    obtain ⟨g1, g2, g3, g4, g5, rfl⟩ := stepRdEof_out_some h
    clear h
    constructor <;> simp_all [depsOk, St.done]
  | err =>
    obtain ⟨g1, g2, g3, g4, g5, rfl⟩ := stepRdEof_err_some h
    clear h
    constructor <;> simp_all [depsOk, St.done]
  | null => simp [step, stepRdEof_null] at h
theorem inv_wtStart {c : Cfg} {p : Bytes} {s s' : St} (hi : Inv c p s) (h : step c s (.wtStart) = some s') :
    Inv c p s' := by
  obtain ⟨i1, i2, i3, i4, i5, i6, i7, i8, i9, i10, i11, i24, i12, i13, i14, i15, i16, i17, i18, i19, i23, i20, i21, i22⟩ := hi
  obtain ⟨g1, g2, g3, rfl⟩ := stepWtStart_some h
  clear h
  constructor <;> simp_all [depsOk, St.done, refsAt, WaitPc.isDone]
theorem inv_wtReady {c : Cfg} {p : Bytes} {s s' : St} (hi : Inv c p s) (h : step c s (.wtReady) = some s') :
    Inv c p s' := by
  obtain ⟨i1, i2, i3, i4, i5, i6, i7, i8, i9, i10, i11, i24, i12, i13, i14, i15, i16, i17, i18, i19, i23, i20, i21, i22⟩ := hi
  obtain ⟨g1, g2, g3, g4, g5, rfl⟩ := stepWtReady_some h
  clear h
  constructor <;> simp_all [depsOk, St.done, refsAt, WaitPc.isDone]
theorem inv_wtTake {c : Cfg} {p : Bytes} {s s' : St} (hi : Inv c p s) (h : step c s (.wtTake) = some s') :
    Inv c p s' := by
  obtain ⟨i1, i2, i3, i4, i5, i6, i7, i8, i9, i10, i11, i24, i12, i13, i14, i15, i16, i17, i18, i19, i23, i20, i21, i22⟩ := hi
  obtain ⟨g1, g2, g3, g4, g5, rfl⟩ := stepWtTake_some h
  clear h
  constructor <;> simp_all [depsOk, St.done, refsAt, WaitPc.isDone]
theorem inv_wtDone {c : Cfg} {p : Bytes} {s s' : St} (hi : Inv c p s) (h : step c s (.wtDone) = some s') :
    Inv c p s' := by
  obtain ⟨i1, i2, i3, i4, i5, i6, i7, i8, i9, i10, i11, i24, i12, i13, i14, i15, i16, i17, i18, i19, i23, i20, i21, i22⟩ := hi
  obtain ⟨g1, g2, g3, st, g4, rfl⟩ := stepWtDone_some h
  clear h
  have hr : s.fdRefs = refsAt c (.done st) := by
    rw [i19, g3]; cases hp : c.pidfd <;> simp [refsAt, Cfg.lastPc, hp]
  clear i19 g3
  constructor <;> simp_all [depsOk, St.done, WaitPc.isDone]
theorem inv_cRead {c : Cfg} {p : Bytes} {s s' : St} {k : Nat} (hi : Inv c p s) (h : step c s (.cRead k) = some s') :
    Inv c p s' := by
  obtain ⟨i1, i2, i3, i4, i5, i6, i7, i8, i9, i10, i11, i24, i12, i13, i14, i15, i16, i17, i18, i19, i23, i20, i21, i22⟩ := hi
  obtain ⟨g1, g2, lim, blk, dst, r, hs, g3, g4, g5, g6, rfl⟩ := stepCRead_some (c := c) h
  clear h
  have e1 : s.got ++ s.pin.take k ++ s.pin.drop k = s.wsent := by
    rw [List.append_assoc, List.take_append_drop, i8]
  cases dst <;> dsimp only <;> constructor <;> dsimp only <;>
    first
      | assumption
      | (simp [List.length_drop, List.length_take, i1]; done)
      | (simp_all [depsOk, St.done, List.length_drop, List.length_take]; done)
      | (simp_all [depsOk, St.done, List.length_drop, List.length_take]; omega)
theorem inv_cEof {c : Cfg} {p : Bytes} {s s' : St} (hi : Inv c p s) (h : step c s (.cEof) = some s') :
    Inv c p s' := by
  obtain ⟨i1, i2, i3, i4, i5, i6, i7, i8, i9, i10, i11, i24, i12, i13, i14, i15, i16, i17, i18, i19, i23, i20, i21, i22⟩ := hi
  obtain ⟨g1, g2, g3, g4, lim, blk, dst, r, hs, g5, rfl⟩ := stepCEof_some (c := c) h
  clear h
  constructor <;> dsimp only <;>
    first
      | assumption
      | (simp [g1]; done)
theorem inv_cWrite {c : Cfg} {p : Bytes} {s s' : St} {k : Nat} (hi : Inv c p s) (h : step c s (.cWrite k) = some s') :
    Inv c p s' := by
  obtain ⟨i1, i2, i3, i4, i5, i6, i7, i8, i9, i10, i11, i24, i12, i13, i14, i15, i16, i17, i18, i19, i23, i20, i21, i22⟩ := hi
  obtain ⟨g1, g2, g3, hh⟩ := stepCWrite_some h
  clear h
  have hk : (s.pend.take k).length = k := by simp [List.length_take]; omega
  have hne : s.pend ≠ [] := by intro h0; simp [h0] at g3; omega
  rcases hh with ⟨g4, g5, rfl⟩ | ⟨g4, g5, rfl⟩ <;> constructor <;> dsimp only <;>
    first
      | assumption
      | (simp [g1]; done)
      | (simp [List.length_append, hk]; omega)
      | (rw [← List.append_assoc, i9]; done)
      | (rw [← List.append_assoc, i10]; done)
      | (intro _; assumption)
      | (simp_all; done)
theorem inv_cStep {c : Cfg} {p : Bytes} {s s' : St} (hi : Inv c p s) (h : step c s (.cStep) = some s') :
    Inv c p s' := by
  obtain ⟨i1, i2, i3, i4, i5, i6, i7, i8, i9, i10, i11, i24, i12, i13, i14, i15, i16, i17, i18, i19, i23, i20, i21, i22⟩ := hi
  obtain ⟨g1, g2, hc⟩ := stepCStep_some (c := c) h
  clear h
  cases hc with
  | fallOff hs h =>
    subst h
    constructor <;> dsimp only <;>
      first
        | assumption
        | (simp [g1, g2, hs]; done)
        | (simp_all; done)
  | copyDone blk dst r hs h =>
    subst h
    constructor <;> dsimp only <;> first | assumption | (simp [g1]; done)
  | emitNull bs r hs h =>
    subst h
    constructor <;> dsimp only <;> first | assumption | (simp [g1]; done)
  | emit d bs r hs hd h =>
    subst h
    constructor <;> dsimp only <;> first | assumption | (simp [g1, hd]; done)
  | nop r hs h =>
    subst h
    constructor <;> dsimp only <;> first | assumption | (simp [g1]; done)
  | exit code r hs h =>
    subst h
    constructor <;> dsimp only <;>
      first
        | assumption
        | (simp [g1, g2]; done)
        | (simp_all; done)
  | kill sg r hs h =>
    subst h
    constructor <;> dsimp only <;>
      first
        | assumption
        | (simp [g1, g2]; done)
        | (simp_all; done)

theorem inv_step {c : Cfg} {p : Bytes} {s s' : St} {e : Ev} (hi : Inv c p s) (h : step c s e = some s') :
    Inv c p s' := by
  cases e with
  | wr k => exact inv_wr hi h
  | wrEpipe => exact inv_wrEpipe hi h
  | wclose => exact inv_wclose hi h
  | rd d k => exact inv_rd hi h
  | rdEof d => exact inv_rdEof hi h
  | wtStart => exact inv_wtStart hi h
  | wtReady => exact inv_wtReady hi h
  | wtTake => exact inv_wtTake hi h
  | wtDone => exact inv_wtDone hi h
  | cRead k => exact inv_cRead hi h
  | cEof => exact inv_cEof hi h
  | cWrite k => exact inv_cWrite hi h
  | cStep => exact inv_cStep hi h

theorem inv_run {c : Cfg} {p : Bytes} {s s' : St} {es : List Ev} (hi : Inv c p s) (h : run c s es = some s') :
    Inv c p s' := by
  induction es generalizing s with
  | nil => simp [run] at h; subst h; exact hi
  | cons e es ih =>
    simp only [run_cons] at h
    cases hs : step c s e with
    | none => simp [hs] at h
    | some s2 => simp only [hs] at h; exact ih (inv_step hi hs) h

/-! ## the denotation is conserved by every step -/

theorem limTake_split {lim : Option Nat} {k : Nat} (inp : Bytes) (h : limOk lim k = true) :
    limTake lim inp = inp.take k ++ limTake (limSub lim k) (inp.drop k) := by
  cases lim with
  | none => simp [limTake, limSub]
  | some n =>
    simp [limOk] at h
    simp only [limTake, limSub]
    have : n = k + (n - k) := by omega
    conv => lhs; rw [this, List.take_add]

theorem limDrop_split {lim : Option Nat} {k : Nat} (inp : Bytes) (h : limOk lim k = true) :
    limDrop lim inp = limDrop (limSub lim k) (inp.drop k) := by
  cases lim with
  | none => simp [limDrop, limSub]
  | some n =>
    simp [limOk] at h
    simp only [limDrop, limSub, List.drop_drop]
    congr 1; omega

@[simp] theorem limTake_nil (lim : Option Nat) : limTake lim [] = [] := by cases lim <;> simp [limTake]
@[simp] theorem limDrop_nil (lim : Option Nat) : limDrop lim [] = [] := by cases lim <;> simp [limDrop]
@[simp] theorem limTake_zero (inp : Bytes) : limTake (some 0) inp = [] := by simp [limTake]
@[simp] theorem limDrop_zero (inp : Bytes) : limDrop (some 0) inp = inp := by simp [limDrop]

@[simp] theorem Den.read_nil (d : Den) (dst : Dst) : d.read dst [] = d := by
  cases dst <;> simp [Den.read, Den.emit]

theorem den_alive {s : St} (h : s.status = none) :
    den s = ⟨s.cout ++ pendFor s .out ++ (denS s.script (s.pin ++ s.wleft)).out,
             s.cerr ++ pendFor s .err ++ (denS s.script (s.pin ++ s.wleft)).err,
             s.got ++ (denS s.script (s.pin ++ s.wleft)).got,
             s.sunk + (denS s.script (s.pin ++ s.wleft)).sunk,
             (denS s.script (s.pin ++ s.wleft)).st⟩ := by
  simp [den, h]

theorem den_dead {s : St} {st : Status} (h : s.status = some st) :
    den s = ⟨s.cout, s.cerr, s.got, s.sunk, st⟩ := by
  simp [den, h]

theorem den_step {c : Cfg} {p : Bytes} {s s' : St} {e : Ev} (hi : Inv c p s) (h : step c s e = some s') :
    den s' = den s := by
  cases e with
  | wr k =>
    obtain ⟨g1, g2, g3, g4, g5, g6, g7, g8, rfl⟩ := stepWr_some h
    rw [den_alive g4, den_alive (by simpa using g4)]
    simp [pendFor, List.append_assoc]
  | wrEpipe =>
    obtain ⟨g1, g2, g3, g4, g5, rfl⟩ := stepWrEpipe_some h
    obtain ⟨st, hst⟩ := Option.isSome_iff_exists.mp g5
    rw [den_dead hst, den_dead (by simpa using hst)]
  | wclose =>
    obtain ⟨g1, g2, g3, g4, rfl⟩ := stepWclose_some h
    simp [den, pendFor]
  | rd d k =>
    cases d with
    | out => obtain ⟨g1, g2, g3, g4, g5, g6, rfl⟩ := stepRd_out_some h; simp [den, pendFor]
    | err => obtain ⟨g1, g2, g3, g4, g5, g6, rfl⟩ := stepRd_err_some h; simp [den, pendFor]
    | null => simp [step, stepRd_null] at h
  | rdEof d =>
    cases d with
    | out => obtain ⟨g1, g2, g3, g4, g5, rfl⟩ := stepRdEof_out_some h; simp [den, pendFor]
    | err => obtain ⟨g1, g2, g3, g4, g5, rfl⟩ := stepRdEof_err_some h; simp [den, pendFor]
    | null => simp [step, stepRdEof_null] at h
  | wtStart => obtain ⟨g1, g2, g3, rfl⟩ := stepWtStart_some h; simp [den, pendFor]
  | wtReady => obtain ⟨g1, g2, g3, g4, g5, rfl⟩ := stepWtReady_some h; simp [den, pendFor]
  | wtTake => obtain ⟨g1, g2, g3, g4, g5, rfl⟩ := stepWtTake_some h; simp [den, pendFor]
  | wtDone => obtain ⟨g1, g2, g3, st, g4, rfl⟩ := stepWtDone_some h; simp [den, pendFor]
  | cRead k =>
    obtain ⟨g1, g2, lim, blk, dst, r, hs, g3, g4, g5, g6, rfl⟩ := stepCRead_some (c := c) h
    have ht : (s.pin ++ s.wleft).take k = s.pin.take k := by
      rw [List.take_append_of_le_length g5]
    have hd : (s.pin ++ s.wleft).drop k = s.pin.drop k ++ s.wleft := by
      rw [List.drop_append_of_le_length g5]
    rw [den_alive g1]
    cases dst <;> dsimp only <;> rw [den_alive (by simpa using g1)] <;>
      simp [pendFor, g2, hs, denS, limTake_split (s.pin ++ s.wleft) g6, limDrop_split (s.pin ++ s.wleft) g6, ht, hd,
        Den.read, Den.emit, List.append_assoc, List.length_take] <;> omega
  | cEof =>
    obtain ⟨g1, g2, g3, g4, lim, blk, dst, r, hs, g5, rfl⟩ := stepCEof_some (c := c) h
    have hw : s.wleft = [] := by
      rcases hi.closed g4 with h1 | h1
      · exact h1
      · have := hi.epipe h1; simp [g1] at this
    rw [den_alive g1, den_alive (by simpa using g1)]
    simp [pendFor, g2, g3, hw, hs, denS]
  | cWrite k =>
    obtain ⟨g1, g2, g3, hh⟩ := stepCWrite_some h
    rw [den_alive g1]
    rcases hh with ⟨g4, g5, rfl⟩ | ⟨g4, g5, rfl⟩ <;> rw [den_alive (by simpa using g1)] <;>
      simp [pendFor, g4, List.append_assoc]
  | cStep =>
    obtain ⟨g1, g2, hc⟩ := stepCStep_some (c := c) h
    cases hc with
    | fallOff hs h => subst h; simp [den, g1, g2, hs, denS, pendFor]
    | copyDone blk dst r hs h =>
      subst h; rw [den_alive g1, den_alive (by simpa using g1)]; simp [pendFor, g2, hs, denS]
    | emitNull bs r hs h =>
      subst h; rw [den_alive g1, den_alive (by simpa using g1)]; simp [pendFor, g2, hs, denS, Den.emit]
    | emit d bs r hs hd h =>
      subst h; rw [den_alive g1, den_alive (by simpa using g1)]
      cases d <;> simp [pendFor, g2, hs, denS, Den.emit] at hd ⊢
    | nop r hs h =>
      subst h; rw [den_alive g1, den_alive (by simpa using g1)]; simp [pendFor, g2, hs, denS]
    | exit code r hs h => subst h; simp [den, g1, g2, hs, denS, pendFor]
    | kill sg r hs h => subst h; simp [den, g1, g2, hs, denS, pendFor]

theorem den_run {c : Cfg} {p : Bytes} {s s' : St} {es : List Ev} (hi : Inv c p s) (h : run c s es = some s') :
    den s' = den s := by
  induction es generalizing s with
  | nil => simp [run] at h; subst h; rfl
  | cons e es ih =>
    simp only [run_cons] at h
    cases hs : step c s e with
    | none => simp [hs] at h
    | some s2 => simp only [hs] at h; rw [ih (inv_step hi hs) h, den_step hi hs]

/-! ## progress -/

theorem wf_step {c : Cfg} {s s' : St} {e : Ev} (hw : wfScript s.script = true) (h : step c s e = some s') :
    wfScript s'.script = true := by
  cases e with
  | wr k => obtain ⟨-, -, -, -, -, -, -, -, rfl⟩ := stepWr_some h; exact hw
  | wrEpipe => obtain ⟨-, -, -, -, -, rfl⟩ := stepWrEpipe_some h; exact hw
  | wclose => obtain ⟨-, -, -, -, rfl⟩ := stepWclose_some h; exact hw
  | rd d k =>
    cases d with
    | out => obtain ⟨-, -, -, -, -, -, rfl⟩ := stepRd_out_some h; exact hw
    | err => obtain ⟨-, -, -, -, -, -, rfl⟩ := stepRd_err_some h; exact hw
    | null => simp [step, stepRd_null] at h
  | rdEof d =>
    cases d with
    | out => obtain ⟨-, -, -, -, -, rfl⟩ := stepRdEof_out_some h; exact hw
    | err => obtain ⟨-, -, -, -, -, rfl⟩ := stepRdEof_err_some h; exact hw
    | null => simp [step, stepRdEof_null] at h
  | wtStart => obtain ⟨-, -, -, rfl⟩ := stepWtStart_some h; exact hw
  | wtReady => obtain ⟨-, -, -, -, -, rfl⟩ := stepWtReady_some h; exact hw
  | wtTake => obtain ⟨-, -, -, -, -, rfl⟩ := stepWtTake_some h; exact hw
  | wtDone => obtain ⟨-, -, -, st, -, rfl⟩ := stepWtDone_some h; exact hw
  | cRead k =>
    obtain ⟨-, -, lim, blk, dst, r, hs, -, -, -, -, rfl⟩ := stepCRead_some (c := c) h
    rw [hs] at hw
    cases dst <;> simpa [wfScript] using hw
  | cEof =>
    obtain ⟨-, -, -, -, lim, blk, dst, r, hs, -, rfl⟩ := stepCEof_some (c := c) h
    rw [hs] at hw; simp [wfScript] at hw; exact hw.2
  | cWrite k =>
    obtain ⟨-, -, -, hh⟩ := stepCWrite_some h
    rcases hh with ⟨-, -, rfl⟩ | ⟨-, -, rfl⟩ <;> exact hw
  | cStep =>
    obtain ⟨-, -, hc⟩ := stepCStep_some (c := c) h
    cases hc with
    | fallOff hs h => subst h; exact hw
    | copyDone blk dst r hs h => subst h; rw [hs] at hw; simp [wfScript] at hw; exact hw.2
    | emitNull bs r hs h => subst h; rw [hs] at hw; simpa [wfScript] using hw
    | emit d bs r hs hd h => subst h; rw [hs] at hw; simpa [wfScript] using hw
    | nop r hs h => subst h; rw [hs] at hw; simpa [wfScript] using hw
    | exit code r hs h => subst h; rfl
    | kill sg r hs h => subst h; rfl

theorem wf_run {c : Cfg} {s s' : St} {es : List Ev} (hw : wfScript s.script = true) (h : run c s es = some s') :
    wfScript s'.script = true := by
  induction es generalizing s with
  | nil => simp [run] at h; subst h; exact hw
  | cons e es ih =>
    simp only [run_cons] at h
    cases hs : step c s e with
    | none => simp [hs] at h
    | some s2 => simp only [hs] at h; exact ih (wf_step hw hs) h

/-- some step is possible -/
def CanStep (c : Cfg) (s : St) : Prop := ∃ e, (step c s e).isSome = true

theorem not_stuck_of_canStep {c : Cfg} {s : St} (h : CanStep c s) : ¬ Stuck c s := by
  obtain ⟨e, he⟩ := h
  intro hs; rw [hs e] at he; cases he

/-- sizes that make sense: every pipe holds at least a byte, every operation offers at least a byte -/
structure Cfg.Pos (c : Cfg) : Prop where
  capIn : 0 < c.capIn
  capOut : 0 < c.capOut
  capErr : 0 < c.capErr
  wchunk : 0 < c.wchunk
  rchunk : 0 < c.rchunk

/-- the plans have no cyclic waiting: while something is left to do, some activity may run -/
theorem exists_ready (c : Cfg) (s : St) (h : s.completed = false) :
    ∃ a, s.done a = false ∧ depsOk c s a = true := by
  simp only [St.completed] at h
  cases hp : c.plan <;> cases hw : s.wclosed <;> cases hro : s.routDone <;> cases hre : s.rerrDone <;>
    cases hwt : s.wt.isDone <;> simp [hw, hro, hre, hwt] at h <;>
    first
      | (refine ⟨.W, ?_, ?_⟩ <;> (simp [St.done, depsOk, hp, Plan.deps, hw, hro, hre, hwt]; done))
      | (refine ⟨.Wt, ?_, ?_⟩ <;> (simp [St.done, depsOk, hp, Plan.deps, hw, hro, hre, hwt]; done))
      | (refine ⟨.Ro, ?_, ?_⟩ <;> (simp [St.done, depsOk, hp, Plan.deps, hw, hro, hre, hwt]; done))
      | (refine ⟨.Re, ?_, ?_⟩ <;> (simp [St.done, depsOk, hp, Plan.deps, hw, hro, hre, hwt]; done))


theorem can_wrEpipe {c : Cfg} {s : St} (h1 : depsOk c s .W = true) (h2 : s.wepipe = false) (h3 : s.wclosed = false)
    (h4 : s.wleft ≠ []) (h5 : s.status.isSome = true) : CanStep c s :=
  ⟨.wrEpipe, by simp [step, stepWrEpipe, h1, h2, h3, h4, h5]⟩

theorem can_wclose {c : Cfg} {s : St} (h1 : depsOk c s .W = true) (h2 : s.wblock = 0) (h3 : s.wclosed = false)
    (h4 : s.wleft = [] ∨ s.wepipe = true) : CanStep c s :=
  ⟨.wclose, by simp [step, stepWclose, h1, h2, h3, h4]⟩

theorem can_wr1 {c : Cfg} {s : St} (h1 : depsOk c s .W = true) (h2 : s.wepipe = false) (h3 : s.wclosed = false)
    (h4 : s.status = none) (h5 : 1 ≤ offered c s) (h6 : 1 ≤ s.wleft.length) (h7 : s.nin + 1 ≤ c.capIn) :
    CanStep c s :=
  ⟨.wr 1, by simp [step, stepWr, h1, h2, h3, h4, h5, h6, h7]⟩

theorem can_rd_out {c : Cfg} {s : St} (hp : c.Pos) (h1 : depsOk c s .Ro = true) (h2 : s.wblock = 0)
    (h3 : s.routDone = false) (h4 : s.pout ≠ []) : CanStep c s :=
  ⟨.rd .out 1, by
    have := hp.rchunk
    have : 1 ≤ s.pout.length := List.length_pos_iff.mpr h4
    simp [step, stepRd, h1, h2, h3]; omega⟩

theorem can_rd_err {c : Cfg} {s : St} (hp : c.Pos) (h1 : depsOk c s .Re = true) (h2 : s.wblock = 0)
    (h3 : s.rerrDone = false) (h4 : s.perr ≠ []) : CanStep c s :=
  ⟨.rd .err 1, by
    have := hp.rchunk
    have : 1 ≤ s.perr.length := List.length_pos_iff.mpr h4
    simp [step, stepRd, h1, h2, h3]; omega⟩

theorem can_rdEof_out {c : Cfg} {s : St} (h1 : depsOk c s .Ro = true) (h2 : s.wblock = 0)
    (h3 : s.routDone = false) (h4 : s.pout = []) (h5 : s.status.isSome = true) : CanStep c s :=
  ⟨.rdEof .out, by simp [step, stepRdEof, h1, h2, h3, h4, h5]⟩

theorem can_rdEof_err {c : Cfg} {s : St} (h1 : depsOk c s .Re = true) (h2 : s.wblock = 0)
    (h3 : s.rerrDone = false) (h4 : s.perr = []) (h5 : s.status.isSome = true) : CanStep c s :=
  ⟨.rdEof .err, by simp [step, stepRdEof, h1, h2, h3, h4, h5]⟩

/-- once the child has exited the wait can always take its next step -/
theorem can_wait {c : Cfg} {p : Bytes} {s : St} (hi : Inv c p s) (h1 : depsOk c s .Wt = true) (h2 : s.wblock = 0)
    (h3 : s.wt.isDone = false) (h5 : s.status.isSome = true) : CanStep c s := by
  obtain ⟨st, hst⟩ := Option.isSome_iff_exists.mp h5
  cases hw : s.wt with
  | idle => exact ⟨.wtStart, by simp [step, stepWtStart, h1, h2, hw]⟩
  | started =>
    cases hp : c.pidfd with
    | true => exact ⟨.wtReady, by simp [step, stepWtReady, h1, h2, hw, hp, h5]⟩
    | false => exact ⟨.wtDone, by simp [step, stepWtDone, h1, h2, hw, hp, Cfg.lastPc, hst]⟩
  | ready =>
    have hp := hi.wtPidfd (Or.inl hw)
    have hr := hi.refs
    rw [hw] at hr
    exact ⟨.wtTake, by simp [step, stepWtTake, h1, h2, hw, hp, hr, refsAt]⟩
  | taken =>
    have hp := hi.wtPidfd (Or.inr hw)
    exact ⟨.wtDone, by simp [step, stepWtDone, h1, h2, hw, hp, Cfg.lastPc, hst]⟩
  | done st' => simp [hw, WaitPc.isDone] at h3

/-- when the child has exited, whatever is left of the parent's work can proceed -/
theorem progress_dead {c : Cfg} {p : Bytes} {s : St} (hp : c.Pos) (hi : Inv c p s)
    (hst : s.status.isSome = true) (hn : s.completed = false) : CanStep c s := by
  by_cases hb : 0 < s.wblock
  · obtain ⟨e1, e2, e3⟩ := hi.wblockOpen hb
    have hne : s.wleft ≠ [] := by
      intro h0; have := hi.wblockLe; simp [h0] at this; omega
    exact can_wrEpipe e3 e1 e2 hne hst
  · have hb0 : s.wblock = 0 := by omega
    obtain ⟨a, hd, hr⟩ := exists_ready c s hn
    cases a with
    | W =>
      simp only [St.done] at hd
      by_cases hq : s.wleft = [] ∨ s.wepipe = true
      · exact can_wclose hr hb0 hd hq
      · simp at hq
        exact can_wrEpipe hr hq.2 hd hq.1 hst
    | Ro =>
      simp only [St.done] at hd
      by_cases hq : s.pout = []
      · exact can_rdEof_out hr hb0 hd hq hst
      · exact can_rd_out hp hr hb0 hd hq
    | Re =>
      simp only [St.done] at hd
      by_cases hq : s.perr = []
      · exact can_rdEof_err hr hb0 hd hq hst
      · exact can_rd_err hp hr hb0 hd hq
    | Wt =>
      simp only [St.done] at hd
      exact can_wait hi hr hb0 hd hst


/-- the child is blocked in a write: the pipe it writes to is full -/
def Jammed (c : Cfg) (s : St) : Prop :=
  s.status = none ∧ s.pend ≠ [] ∧
    ((s.pdst = .out ∧ s.nout = c.capOut) ∨ (s.pdst = .err ∧ s.nerr = c.capErr))

/-- the child is blocked in a read: stdin is empty and still open -/
def Starved (s : St) : Prop :=
  s.status = none ∧ s.pend = [] ∧ s.pin = [] ∧ s.wclosed = false ∧
    ∃ lim blk dst r, s.script = .copy lim blk dst :: r ∧ lim ≠ some 0

theorem can_cStep {c : Cfg} {s : St} (h1 : s.status = none) (h2 : s.pend = [])
    (h3 : ∀ lim blk dst r, s.script = .copy lim blk dst :: r → lim = some 0) : CanStep c s := by
  refine ⟨.cStep, ?_⟩
  simp only [step, stepCStep]
  rw [if_pos ⟨h1, h2⟩]
  cases hs : s.script with
  | nil => simp
  | cons a r =>
    cases a with
    | copy lim blk dst => simp [h3 lim blk dst r hs]
    | emit d bs => cases d <;> simp
    | nop => simp
    | exit code => simp
    | kill sg => simp

/-- while the child lives it can move unless it is blocked on a full or on an empty pipe -/
theorem progress_alive {c : Cfg} {p : Bytes} {s : St} (hi : Inv c p s) (hw : wfScript s.script = true)
    (hst : s.status = none) (hj : ¬ Jammed c s) (hs : ¬ Starved s) : CanStep c s := by
  by_cases hpe : s.pend = []
  · by_cases hc : ∃ lim blk dst r, s.script = .copy lim blk dst :: r ∧ lim ≠ some 0
    case neg =>
      refine can_cStep hst hpe ?_
      intro lim blk dst r hscr
      by_cases hl : lim = some 0
      · exact hl
      · exact absurd ⟨lim, blk, dst, r, hscr, hl⟩ hc
    case pos =>
      obtain ⟨lim, blk, dst, r, hscr, hl⟩ := hc
      have hblk : 0 < blk := by rw [hscr] at hw; simp [wfScript] at hw; exact hw.1
      by_cases hpin : s.pin = []
      · by_cases hcl : s.wclosed = true
        · exact ⟨.cEof, by simp [step, stepCEof, hst, hpe, hpin, hcl, hscr, hl]⟩
        · exact absurd ⟨hst, hpe, hpin, by simpa using hcl, lim, blk, dst, r, hscr, hl⟩ hs
      · refine ⟨.cRead 1, ?_⟩
        have h1 : 1 ≤ s.pin.length := List.length_pos_iff.mpr hpin
        have h2 : limOk lim 1 = true := by
          cases lim with
          | none => rfl
          | some n => simp at hl; simp [limOk]; omega
        cases dst <;> simp [step, stepCRead, hst, hpe, hscr, h1, h2] <;> omega
  · have hd := hi.pdst hpe
    have h1 : 1 ≤ s.pend.length := List.length_pos_iff.mpr hpe
    cases hdst : s.pdst with
    | null => exact absurd hdst hd
    | out =>
      by_cases hf : s.nout = c.capOut
      · exact absurd ⟨hst, hpe, Or.inl ⟨hdst, hf⟩⟩ hj
      · have := hi.capOut; have := hi.nout
        exact ⟨.cWrite 1, by simp [step, stepCWrite, hst, h1, hdst]; omega⟩
    | err =>
      by_cases hf : s.nerr = c.capErr
      · exact absurd ⟨hst, hpe, Or.inr ⟨hdst, hf⟩⟩ hj
      · have := hi.capErr; have := hi.nerr
        exact ⟨.cWrite 1, by simp [step, stepCWrite, hst, h1, hdst]; omega⟩

/-- a jam is resolved by the reader of the full pipe, if it may run -/
theorem jam_reader {c : Cfg} {p : Bytes} {s : St} (hp : c.Pos) (hi : Inv c p s) (hj : Jammed c s)
    (hb : s.wblock = 0)
    (ho : s.pdst = .out → depsOk c s .Ro = true) (he : s.pdst = .err → depsOk c s .Re = true) : CanStep c s := by
  obtain ⟨hst, hpe, hh⟩ := hj
  rcases hh with ⟨hd, hf⟩ | ⟨hd, hf⟩
  · have hnd : s.routDone = false := by
      cases h : s.routDone with
      | false => rfl
      | true => have := (hi.routDone h).1; simp [hst] at this
    have hne : s.pout ≠ [] := by
      intro h0; have h1 := hi.nout; have h2 := hp.capOut; simp [h0] at h1; omega
    exact can_rd_out hp (ho hd) hb hnd hne
  · have hnd : s.rerrDone = false := by
      cases h : s.rerrDone with
      | false => rfl
      | true => have := (hi.rerrDone h).1; simp [hst] at this
    have hne : s.perr ≠ [] := by
      intro h0; have h1 := hi.nerr; have h2 := hp.capErr; simp [h0] at h1; omega
    exact can_rd_err hp (he hd) hb hnd hne

/-- a starving child is fed (or sees end of file) as soon as the writer may run -/
theorem starve_writer {c : Cfg} {p : Bytes} {s : St} (hp : c.Pos) (hi : Inv c p s) (hs : Starved s)
    (hw : depsOk c s .W = true) : CanStep c s := by
  obtain ⟨hst, hpe, hpin, hcl, -⟩ := hs
  have hep : s.wepipe = false := by
    cases h : s.wepipe with
    | false => rfl
    | true => have := hi.epipe h; simp [hst] at this
  have hnin : s.nin = 0 := by rw [hi.nin, hpin]; rfl
  have := hp.capIn
  have := hp.wchunk
  by_cases hb : s.wblock = 0
  · by_cases hl : s.wleft = []
    · exact can_wclose hw hb hcl (Or.inl hl)
    · have h1 : 1 ≤ s.wleft.length := List.length_pos_iff.mpr hl
      refine can_wr1 hw hep hcl hst ?_ h1 (by omega)
      simp [offered, hb, List.length_take]; omega
  · have := hi.wblockLe
    refine can_wr1 hw hep hcl hst ?_ (by omega) (by omega)
    simp [offered, hb]; omega

/-- progress: from a reachable state that is not finished some step is possible, unless the child is
blocked on a pipe and the parent cannot serve that pipe -/
theorem progress {c : Cfg} {p : Bytes} {s : St} (hp : c.Pos) (hi : Inv c p s) (hw : wfScript s.script = true)
    (hn : s.completed = false) (hj : Jammed c s → CanStep c s) (hs : Starved s → CanStep c s) : CanStep c s := by
  cases hst : s.status with
  | some st => exact progress_dead hp hi (by simp [hst]) hn
  | none =>
    by_cases h1 : Jammed c s
    · exact hj h1
    · by_cases h2 : Starved s
      · exact hs h2
      · exact progress_alive hi hw hst h1 h2

/-! ## finished runs -/

theorem depsOk_free {c : Cfg} {s : St} {a : Act} (h : ∀ x, c.plan.deps a x = false) : depsOk c s a = true := by
  simp [depsOk, h]

theorem den_init (script : List CAct) (payload : Bytes) (b : Bool) :
    den (init script payload b) = denS script (init script payload b).wleft := by
  simp [den, init, pendFor]

/-- what a state in which all four activities are done looks like -/
theorem completed_results {c : Cfg} {p : Bytes} {s : St} (hi : Inv c p s) (hc : s.completed = true) :
    ∃ st, s.wt = .done st ∧ s.status = some st ∧ s.pout = [] ∧ s.perr = [] ∧ s.rout = s.cout ∧ s.rerr = s.cerr ∧
      den s = ⟨s.rout, s.rerr, s.got, s.sunk, st⟩ := by
  simp only [St.completed, Bool.and_eq_true] at hc
  obtain ⟨⟨⟨h1, h2⟩, h3⟩, h4⟩ := hc
  cases hw : s.wt with
  | done st =>
    have hst := hi.wtDone st hw
    have ho := (hi.routDone h2).2
    have he := (hi.rerrDone h3).2
    have e1 := hi.outs
    have e2 := hi.errs
    rw [ho, List.append_nil] at e1
    rw [he, List.append_nil] at e2
    exact ⟨st, rfl, hst, ho, he, e1, e2, by rw [den_dead hst, e1, e2]⟩
  | idle => simp [hw, WaitPc.isDone] at h4
  | started => simp [hw, WaitPc.isDone] at h4
  | ready => simp [hw, WaitPc.isDone] at h4
  | taken => simp [hw, WaitPc.isDone] at h4

/-- the result of any finished run is the denotation of the child program on the payload -/
theorem completed_den {c : Cfg} {script : List CAct} {payload : Bytes} {b : Bool} {es : List Ev} {s : St}
    (hr : run c (init script payload b) es = some s) (hc : s.completed = true) :
    s.rout = (denS script (init script payload b).wleft).out ∧
    s.rerr = (denS script (init script payload b).wleft).err ∧
    s.got = (denS script (init script payload b).wleft).got ∧
    s.sunk = (denS script (init script payload b).wleft).sunk ∧
    s.wt = .done (denS script (init script payload b).wleft).st ∧
    s.status = some (denS script (init script payload b).wleft).st ∧
    s.rout = s.cout ∧ s.rerr = s.cerr := by
  have hi := inv_run (inv_init c script payload b) hr
  obtain ⟨st, h1, h2, -, -, h5, h6, h7⟩ := completed_results hi hc
  have hd := den_run (inv_init c script payload b) hr
  rw [den_init, h7] at hd
  rw [← hd]
  exact ⟨rfl, rfl, rfl, rfl, h1, h2, h5, h6⟩

/-- everything the child has read is a prefix of what the parent has written, which is a prefix of the payload -/
theorem got_prefix {c : Cfg} {p : Bytes} {s : St} (hi : Inv c p s) :
    s.got ++ s.pin = s.wsent ∧ s.wsent ++ s.wleft = p := ⟨hi.gotpin, hi.sent⟩

/-- the writer ended with `BrokenPipe` only if the child did not read everything -/
theorem epipe_short {c : Cfg} {p : Bytes} {s : St} (hi : Inv c p s) (he : s.wepipe = true) :
    s.got.length < p.length := by
  have h1 := congrArg List.length hi.gotpin
  have h2 := congrArg List.length hi.sent
  have : 0 < s.wleft.length := List.length_pos_iff.mpr (hi.epipeLeft he)
  simp only [List.length_append] at h1 h2
  omega

/-- the writer ended with `Ok` only if everything but at most one pipe full was read by the child -/
theorem ok_long {c : Cfg} {p : Bytes} {s : St} (hi : Inv c p s) (hl : s.wleft = []) :
    p.length ≤ s.got.length + c.capIn := by
  have h1 := congrArg List.length hi.gotpin
  have h2 := congrArg List.length hi.sent
  have := hi.capIn
  simp only [List.length_append, hl, List.length_nil] at h1 h2
  omega

/-! ## when does every maximal run finish -/

/-- (A) no activity of the parent has to wait for another one to serve the pipes, and no operation
occupies the runtime thread -/
theorem stuck_completed_free {c : Cfg} {p : Bytes} {s : St} (hp : c.Pos) (hi : Inv c p s)
    (hw : wfScript s.script = true) (hnb : c.blocking = false)
    (hW : ∀ x, c.plan.deps .W x = false) (hRo : ∀ x, c.plan.deps .Ro x = false)
    (hRe : ∀ x, c.plan.deps .Re x = false) (hs : Stuck c s) : s.completed = true := by
  cases hn : s.completed with
  | true => rfl
  | false =>
    exfalso
    refine not_stuck_of_canStep (progress hp hi hw hn ?_ ?_) hs
    · intro hj
      exact jam_reader hp hi hj (hi.wblockNB hnb) (fun _ => depsOk_free hRo) (fun _ => depsOk_free hRe)
    · intro hst
      exact starve_writer hp hi hst (depsOk_free hW)

/-- as long as the child lives, what it has written plus what it is writing is part of its total output -/
theorem out_le_den {s : St} (hst : s.status = none) :
    s.cout.length + (pendFor s .out).length ≤ (den s).out.length ∧
    s.cerr.length + (pendFor s .err).length ≤ (den s).err.length := by
  rw [den_alive hst]
  simp only [List.length_append]
  omega

/-- a child whose whole output fits into the pipes never blocks in a write -/
theorem not_jammed_of_fits {c : Cfg} {p : Bytes} {s : St} (hi : Inv c p s)
    (ho : (den s).out.length ≤ c.capOut) (he : (den s).err.length ≤ c.capErr) : ¬ Jammed c s := by
  rintro ⟨hst, hpe, hh⟩
  obtain ⟨b1, b2⟩ := out_le_den hst
  have hl : 0 < s.pend.length := List.length_pos_iff.mpr hpe
  rcases hh with ⟨hd, hf⟩ | ⟨hd, hf⟩
  · have e := congrArg List.length hi.outs
    have := hi.nout
    simp only [List.length_append] at e
    simp only [pendFor, hd, if_true] at b1
    omega
  · have e := congrArg List.length hi.errs
    have := hi.nerr
    simp only [List.length_append] at e
    simp only [pendFor, hd, if_true] at b2
    omega

/-- (B) the child's whole output fits into the pipes: only the writer has to be free -/
theorem stuck_completed_fits {c : Cfg} {p : Bytes} {s : St} (hp : c.Pos) (hi : Inv c p s)
    (hw : wfScript s.script = true) (hW : ∀ x, c.plan.deps .W x = false)
    (ho : (den s).out.length ≤ c.capOut) (he : (den s).err.length ≤ c.capErr)
    (hs : Stuck c s) : s.completed = true := by
  cases hn : s.completed with
  | true => rfl
  | false =>
    exfalso
    refine not_stuck_of_canStep (progress hp hi hw hn ?_ ?_) hs
    · intro hj
      exact absurd hj (not_jammed_of_fits hi ho he)
    · intro hst
      exact starve_writer hp hi hst (depsOk_free hW)

/-- (C) the whole payload fits into the stdin pipe: a write never has to wait, whatever the driver -/
theorem stuck_completed_small {c : Cfg} {p : Bytes} {s : St} (hp : c.Pos) (hi : Inv c p s)
    (hw : wfScript s.script = true) (hpl : p.length ≤ c.capIn)
    (hW : ∀ x, c.plan.deps .W x = false) (hRo : ∀ x, c.plan.deps .Ro x = false)
    (hRe : ∀ x, c.plan.deps .Re x = false) (hs : Stuck c s) : s.completed = true := by
  cases hn : s.completed with
  | true => rfl
  | false =>
    exfalso
    refine not_stuck_of_canStep (progress hp hi hw hn ?_ ?_) hs
    · intro hj
      by_cases hb : s.wblock = 0
      · exact jam_reader hp hi hj hb (fun _ => depsOk_free hRo) (fun _ => depsOk_free hRe)
      · obtain ⟨e1, e2, e3⟩ := hi.wblockOpen (by omega)
        have h1 := congrArg List.length hi.gotpin
        have h2 := congrArg List.length hi.sent
        have h3 := hi.wblockLe
        have h4 := hi.nin
        simp only [List.length_append] at h1 h2
        refine can_wr1 e3 e1 e2 hj.1 ?_ (by omega) (by omega)
        simp [offered, hb]; omega
    · intro hst
      exact starve_writer hp hi hst (depsOk_free hW)

/-! ## the echoing child (`cat`, `dd bs=blk`): counting bytes -/

/-- statements that neither read nor write -/
def quiet : List CAct → Bool
  | [] => true
  | .nop :: r => quiet r
  | .exit _ :: r => quiet r
  | .kill _ :: r => quiet r
  | _ => false

/-- the child is `copy none blk out` followed by statements without io -/
structure CatInv (blk : Nat) (s : St) : Prop where
  shape : s.status = none → (∃ tail, s.script = .copy none blk .out :: tail ∧ quiet tail = true) ∨ quiet s.script = true
  acct : s.got = s.cout ++ s.pend
  pendOut : s.pend ≠ [] → s.pdst = .out
  pendLen : s.pend.length ≤ blk

theorem catInv_init (blk : Nat) (tail : List CAct) (hq : quiet tail = true) (payload : Bytes) (b : Bool) :
    CatInv blk (init (.copy none blk .out :: tail) payload b) := by
  constructor <;> simp [init, hq]

theorem catInv_step {c : Cfg} {blk : Nat} {s s' : St} {e : Ev} (hi : CatInv blk s) (h : step c s e = some s') :
    CatInv blk s' := by
  obtain ⟨i1, i2, i3, i4⟩ := hi
  cases e with
  | wr k => obtain ⟨-, -, -, -, -, -, -, -, rfl⟩ := stepWr_some h; exact ⟨i1, i2, i3, i4⟩
  | wrEpipe => obtain ⟨-, -, -, -, -, rfl⟩ := stepWrEpipe_some h; exact ⟨i1, i2, i3, i4⟩
  | wclose => obtain ⟨-, -, -, -, rfl⟩ := stepWclose_some h; exact ⟨i1, i2, i3, i4⟩
  | rd d k =>
    cases d with
    | out => obtain ⟨-, -, -, -, -, -, rfl⟩ := stepRd_out_some h; exact ⟨i1, i2, i3, i4⟩
    | err => obtain ⟨-, -, -, -, -, -, rfl⟩ := stepRd_err_some h; exact ⟨i1, i2, i3, i4⟩
    | null => simp [step, stepRd_null] at h
  | rdEof d =>
    cases d with
    | out => obtain ⟨-, -, -, -, -, rfl⟩ := stepRdEof_out_some h; exact ⟨i1, i2, i3, i4⟩
    | err => obtain ⟨-, -, -, -, -, rfl⟩ := stepRdEof_err_some h; exact ⟨i1, i2, i3, i4⟩
    | null => simp [step, stepRdEof_null] at h
  | wtStart => obtain ⟨-, -, -, rfl⟩ := stepWtStart_some h; exact ⟨i1, i2, i3, i4⟩
  | wtReady => obtain ⟨-, -, -, -, -, rfl⟩ := stepWtReady_some h; exact ⟨i1, i2, i3, i4⟩
  | wtTake => obtain ⟨-, -, -, -, -, rfl⟩ := stepWtTake_some h; exact ⟨i1, i2, i3, i4⟩
  | wtDone => obtain ⟨-, -, -, st, -, rfl⟩ := stepWtDone_some h; exact ⟨i1, i2, i3, i4⟩
  | cRead k =>
    obtain ⟨g1, g2, lim, blk', dst, r, hs, g3, g4, g5, g6, rfl⟩ := stepCRead_some (c := c) h
    rcases i1 g1 with ⟨tail, ht, hq⟩ | hq
    · rw [hs] at ht
      simp only [List.cons.injEq, CAct.copy.injEq] at ht
      obtain ⟨⟨rfl, rfl, rfl⟩, rfl⟩ := ht
      refine ⟨?_, ?_, ?_, ?_⟩
      · intro _; exact Or.inl ⟨r, by simp [limSub], hq⟩
      · simp [i2, g2]
      · intro _; rfl
      · simp [List.length_take]; omega
    · rw [hs] at hq; simp [quiet] at hq
  | cEof =>
    obtain ⟨g1, g2, g3, g4, lim, blk', dst, r, hs, g5, rfl⟩ := stepCEof_some (c := c) h
    refine ⟨?_, i2, i3, i4⟩
    intro _
    rcases i1 g1 with ⟨tail, ht, hq⟩ | hq
    · rw [hs] at ht
      simp only [List.cons.injEq] at ht
      exact Or.inr (ht.2 ▸ hq)
    · rw [hs] at hq; simp [quiet] at hq
  | cWrite k =>
    obtain ⟨g1, g2, g3, hh⟩ := stepCWrite_some h
    have hne : s.pend ≠ [] := by intro h0; simp [h0] at g3; omega
    have hd := i3 hne
    rcases hh with ⟨g4, g5, rfl⟩ | ⟨g4, g5, rfl⟩
    · refine ⟨i1, ?_, fun _ => hd, ?_⟩
      · simp [i2, List.append_assoc]
      · simp [List.length_drop]; omega
    · rw [hd] at g4; cases g4
  | cStep =>
    obtain ⟨g1, g2, hc⟩ := stepCStep_some (c := c) h
    have hsh := i1 g1
    cases hc with
    | fallOff hs h => subst h; exact ⟨by simp, i2, i3, i4⟩
    | copyDone blk' dst r hs h =>
      subst h
      rcases hsh with ⟨tail, ht, hq⟩ | hq
      · rw [hs] at ht; simp at ht
      · rw [hs] at hq; simp [quiet] at hq
    | emitNull bs r hs h =>
      subst h
      rcases hsh with ⟨tail, ht, hq⟩ | hq
      · rw [hs] at ht; simp at ht
      · rw [hs] at hq; simp [quiet] at hq
    | emit d bs r hs hd h =>
      subst h
      rcases hsh with ⟨tail, ht, hq⟩ | hq
      · rw [hs] at ht; simp at ht
      · rw [hs] at hq; simp [quiet] at hq
    | nop r hs h =>
      subst h
      rcases hsh with ⟨tail, ht, hq⟩ | hq
      · rw [hs] at ht; simp at ht
      · rw [hs] at hq; simp only [quiet] at hq
        exact ⟨fun _ => Or.inr hq, i2, i3, i4⟩
    | exit code r hs h => subst h; exact ⟨by simp, i2, i3, i4⟩
    | kill sg r hs h => subst h; exact ⟨by simp, i2, i3, i4⟩

theorem catInv_run {c : Cfg} {blk : Nat} {s s' : St} {es : List Ev} (hi : CatInv blk s) (h : run c s es = some s') :
    CatInv blk s' := by
  induction es generalizing s with
  | nil => simp [run] at h; subst h; exact hi
  | cons e es ih =>
    simp only [run_cons] at h
    cases hs : step c s e with
    | none => simp [hs] at h
    | some s2 => simp only [hs] at h; exact ih (catInv_step hi hs) h

/-- every byte of the payload is in exactly one place -/
theorem cat_count {c : Cfg} {p : Bytes} {blk : Nat} {s : St} (hi : Inv c p s) (hc : CatInv blk s) :
    p.length = s.wleft.length + s.pin.length + s.pend.length + s.pout.length + s.rout.length := by
  have h1 := congrArg List.length hi.gotpin
  have h2 := congrArg List.length hi.sent
  have h3 := congrArg List.length hi.outs
  have h4 := congrArg List.length hc.acct
  simp only [List.length_append] at h1 h2 h3 h4
  omega

theorem depsOk_Ro_of_closed {c : Cfg} {s : St} (h : ∀ x, c.plan.deps .Ro x = true → x = .W) (hc : s.wclosed = true) :
    depsOk c s .Ro = true := by
  have h1 : c.plan.deps .Ro .Ro = false := by
    cases hh : c.plan.deps .Ro .Ro with
    | false => rfl
    | true => cases h _ hh
  have h2 : c.plan.deps .Ro .Re = false := by
    cases hh : c.plan.deps .Ro .Re with
    | false => rfl
    | true => cases h _ hh
  have h3 : c.plan.deps .Ro .Wt = false := by
    cases hh : c.plan.deps .Ro .Wt with
    | false => rfl
    | true => cases h _ hh
  simp [depsOk, St.done, h1, h2, h3, hc]

/-- (D) echoing child, everything fits into the two pipes: the reader may even wait for the writer
to finish (plan `seq`), and a write may occupy the runtime thread (polling driver) -/
theorem stuck_completed_cat {c : Cfg} {p : Bytes} {blk : Nat} {s : St} (hp : c.Pos) (hi : Inv c p s)
    (hc : CatInv blk s) (hw : wfScript s.script = true) (hpl : p.length ≤ c.capIn + c.capOut)
    (hW : ∀ x, c.plan.deps .W x = false) (hRo : ∀ x, c.plan.deps .Ro x = true → x = .W)
    (hs : Stuck c s) : s.completed = true := by
  cases hn : s.completed with
  | true => rfl
  | false =>
    exfalso
    refine not_stuck_of_canStep (progress hp hi hw hn ?_ ?_) hs
    · intro hj
      have hst := hj.1
      have hpe := hj.2.1
      have hd := hc.pendOut hpe
      have hfull : s.nout = c.capOut := by
        rcases hj.2.2 with ⟨-, hf⟩ | ⟨he, -⟩
        · exact hf
        · rw [hd] at he; cases he
      cases hcl : s.wclosed with
      | true =>
        have hb : s.wblock = 0 := by
          cases hb : s.wblock with
          | zero => rfl
          | succ n => have := (hi.wblockOpen (by omega)).2.1; simp [hcl] at this
        exact jam_reader hp hi hj hb (fun _ => depsOk_Ro_of_closed hRo hcl) (fun he => by rw [hd] at he; cases he)
      | false =>
        have hep : s.wepipe = false := by
          cases h : s.wepipe with
          | false => rfl
          | true => have := hi.epipe h; simp [hst] at this
        by_cases hl : s.wleft = []
        · have hb : s.wblock = 0 := by have := hi.wblockLe; simp [hl] at this; exact this
          exact can_wclose (depsOk_free hW) hb hcl (Or.inl hl)
        · have h1 : 1 ≤ s.wleft.length := List.length_pos_iff.mpr hl
          have h2 : 1 ≤ s.pend.length := List.length_pos_iff.mpr hpe
          have hcount := cat_count hi hc
          have := hi.nout
          have := hi.nin
          have := hp.wchunk
          refine can_wr1 (depsOk_free hW) hep hcl hst ?_ h1 (by omega)
          unfold offered
          split
          · simp [List.length_take]; omega
          · omega
    · intro hst
      exact starve_writer hp hi hst (depsOk_free hW)

/-! ### orders that cannot work -/

/-- the writer of an echoing child can never finish: the reader has not started (plan `seq`), or the
runtime thread sits in one `write(2)` of the whole payload (polling driver) -/
structure WriterStuck (blk : Nat) (s : St) : Prop where
  open_ : s.wclosed = false
  noRead : s.rout = []
  alive : s.status = none
  shape : ∃ tail, s.script = .copy none blk .out :: tail

theorem writerStuck_counts {c : Cfg} {p : Bytes} {blk : Nat} {s : St} (hi : Inv c p s) (hc : CatInv blk s)
    (hk : WriterStuck blk s) : p.length ≤ s.wleft.length + c.capIn + blk + c.capOut := by
  have h1 := cat_count hi hc
  have := hi.capIn
  have := hi.capOut
  have := hc.pendLen
  simp only [hk.noRead, List.length_nil] at h1
  omega

/-- more than the two pipes and the child's buffer hold, and no `read` of stdout can complete now:
the writer stays stuck -/
theorem writerStuck_step {c : Cfg} {p : Bytes} {blk : Nat} {s s' : St} {e : Ev} (hi : Inv c p s)
    (hc : CatInv blk s) (hk : WriterStuck blk s) (hbig : c.capIn + blk + c.capOut < p.length)
    (hnoread : ∀ k, stepRd c s .out k = none) (h : step c s e = some s') : WriterStuck blk s' := by
  obtain ⟨k1, k2, k3, tail, k4⟩ := hk
  have hcnt := writerStuck_counts hi hc ⟨k1, k2, k3, tail, k4⟩
  have hne : s.wleft ≠ [] := by intro h0; simp [h0] at hcnt; omega
  cases e with
  | wr k => obtain ⟨-, -, -, -, -, -, -, -, rfl⟩ := stepWr_some h; exact ⟨k1, k2, k3, tail, k4⟩
  | wrEpipe => obtain ⟨-, -, -, -, g5, rfl⟩ := stepWrEpipe_some h; simp [k3] at g5
  | wclose =>
    obtain ⟨-, -, -, g4, rfl⟩ := stepWclose_some h
    rcases g4 with g4 | g4
    · exact absurd g4 hne
    · have := hi.epipe g4; simp [k3] at this
  | rd d k =>
    cases d with
    | out =>
      simp [step, hnoread k] at h
    | err => obtain ⟨-, -, -, -, -, -, rfl⟩ := stepRd_err_some h; exact ⟨k1, k2, k3, tail, k4⟩
    | null => simp [step, stepRd_null] at h
  | rdEof d =>
    cases d with
    | out => obtain ⟨-, -, -, -, g5, rfl⟩ := stepRdEof_out_some h; simp [k3] at g5
    | err => obtain ⟨-, -, -, -, g5, rfl⟩ := stepRdEof_err_some h; simp [k3] at g5
    | null => simp [step, stepRdEof_null] at h
  | wtStart => obtain ⟨-, -, -, rfl⟩ := stepWtStart_some h; exact ⟨k1, k2, k3, tail, k4⟩
  | wtReady => obtain ⟨-, -, -, -, g5, rfl⟩ := stepWtReady_some h; simp [k3] at g5
  | wtTake => obtain ⟨-, -, -, -, -, rfl⟩ := stepWtTake_some h; exact ⟨k1, k2, k3, tail, k4⟩
  | wtDone => obtain ⟨-, -, -, st, g4, rfl⟩ := stepWtDone_some h; simp [k3] at g4
  | cRead k =>
    obtain ⟨g1, g2, lim, blk', dst, r, hs, g3, g4, g5, g6, rfl⟩ := stepCRead_some (c := c) h
    rw [hs] at k4
    simp only [List.cons.injEq, CAct.copy.injEq] at k4
    obtain ⟨⟨rfl, rfl, rfl⟩, rfl⟩ := k4
    exact ⟨k1, k2, k3, r, by simp [limSub]⟩
  | cEof => obtain ⟨-, -, -, g4, -⟩ := stepCEof_some (c := c) h; simp [k1] at g4
  | cWrite k =>
    obtain ⟨-, -, -, hh⟩ := stepCWrite_some h
    rcases hh with ⟨-, -, rfl⟩ | ⟨-, -, rfl⟩ <;> exact ⟨k1, k2, k3, tail, k4⟩
  | cStep =>
    obtain ⟨g1, g2, hcs⟩ := stepCStep_some (c := c) h
    cases hcs with
    | fallOff hs h => rw [hs] at k4; cases k4
    | copyDone blk' dst r hs h => rw [hs] at k4; simp at k4
    | emitNull bs r hs h => rw [hs] at k4; simp at k4
    | emit d bs r hs hd h => rw [hs] at k4; simp at k4
    | nop r hs h => rw [hs] at k4; simp at k4
    | exit code r hs h => rw [hs] at k4; simp at k4
    | kill sg r hs h => rw [hs] at k4; simp at k4


/-- plan `seq`: the reader waits for the writer -/
theorem noread_seq {c : Cfg} {s : St} (hseq : c.plan.deps .Ro .W = true) (hcl : s.wclosed = false) (k : Nat) :
    stepRd c s .out k = none := by
  simp [stepRd, depsOk, St.done, hseq, hcl]

theorem seq_never_run {c : Cfg} {p : Bytes} {blk : Nat} {s s' : St} {es : List Ev} (hi : Inv c p s)
    (hc : CatInv blk s) (hk : WriterStuck blk s) (hbig : c.capIn + blk + c.capOut < p.length)
    (hseq : c.plan.deps .Ro .W = true) (h : run c s es = some s') : WriterStuck blk s' := by
  induction es generalizing s with
  | nil => simp [run] at h; subst h; exact hk
  | cons e es ih =>
    simp only [run_cons] at h
    cases hs : step c s e with
    | none => simp [hs] at h
    | some s2 =>
      simp only [hs] at h
      exact ih (inv_step hi hs) (catInv_step hc hs)
        (writerStuck_step hi hc hk hbig (noread_seq hseq hk.open_) hs) h

/-- polling driver, the whole payload offered in one `write`: either nothing was written yet, or the
runtime thread is inside that `write(2)` until the last byte is in the pipe -/
def OneWrite (s : St) : Prop :=
  (s.wsent = [] ∧ s.wblock = 0) ∨ (s.wblock = s.wleft.length ∧ s.wleft ≠ [])

theorem noread_oneWrite {c : Cfg} {p : Bytes} {blk : Nat} {s : St} (hi : Inv c p s) (hc : CatInv blk s)
    (ho : OneWrite s) (k : Nat) : stepRd c s .out k = none := by
  rcases ho with ⟨h1, -⟩ | ⟨h1, h2⟩
  · have e1 := hi.gotpin
    rw [h1] at e1
    have hg : s.got = [] := (List.append_eq_nil_iff.mp e1).1
    have e2 := hc.acct
    rw [hg] at e2
    have hco : s.cout = [] := (List.append_eq_nil_iff.mp e2.symm).1
    have e3 := hi.outs
    rw [hco] at e3
    have hpo : s.pout = [] := (List.append_eq_nil_iff.mp e3).2
    simp only [stepRd]
    rw [if_neg]
    simp [hpo]; omega
  · have : 0 < s.wleft.length := List.length_pos_iff.mpr h2
    simp only [stepRd]
    rw [if_neg]
    intro hh; omega

theorem oneWrite_step {c : Cfg} {p : Bytes} {blk : Nat} {s s' : St} {e : Ev} (hi : Inv c p s) (hi' : Inv c p s')
    (hc' : CatInv blk s') (hk : WriterStuck blk s) (hk' : WriterStuck blk s')
    (hbig : c.capIn + blk + c.capOut < p.length) (hb : c.blocking = true) (hch : p.length ≤ c.wchunk)
    (ho : OneWrite s) (h : step c s e = some s') : OneWrite s' := by
  have hcnt := writerStuck_counts hi' hc' hk'
  have hne' : s'.wleft ≠ [] := by intro h0; simp [h0] at hcnt; omega
  cases e with
  | wr k =>
    obtain ⟨-, -, -, -, g5, g6, g7, -, rfl⟩ := stepWr_some h
    right
    refine ⟨?_, hne'⟩
    simp only [hb, if_true, List.length_drop]
    rcases ho with ⟨h1, h2⟩ | ⟨h1, h2⟩
    · have e1 := hi.sent
      rw [h1, List.nil_append] at e1
      simp [offered, h2, List.length_take, e1]
      omega
    · have : 0 < s.wleft.length := List.length_pos_iff.mpr h2
      have hb0 : ¬ s.wleft.length = 0 := by omega
      simp only [offered, h1, if_neg hb0]
  | wrEpipe => obtain ⟨-, -, -, -, g5, rfl⟩ := stepWrEpipe_some h; simp [hk.alive] at g5
  | wclose => obtain ⟨-, -, -, -, rfl⟩ := stepWclose_some h; exact ho
  | rd d k =>
    cases d with
    | out => obtain ⟨-, -, -, -, -, -, rfl⟩ := stepRd_out_some h; exact ho
    | err => obtain ⟨-, -, -, -, -, -, rfl⟩ := stepRd_err_some h; exact ho
    | null => simp [step, stepRd_null] at h
  | rdEof d =>
    cases d with
    | out => obtain ⟨-, -, -, -, -, rfl⟩ := stepRdEof_out_some h; exact ho
    | err => obtain ⟨-, -, -, -, -, rfl⟩ := stepRdEof_err_some h; exact ho
    | null => simp [step, stepRdEof_null] at h
  | wtStart => obtain ⟨-, -, -, rfl⟩ := stepWtStart_some h; exact ho
  | wtReady => obtain ⟨-, -, -, -, -, rfl⟩ := stepWtReady_some h; exact ho
  | wtTake => obtain ⟨-, -, -, -, -, rfl⟩ := stepWtTake_some h; exact ho
  | wtDone => obtain ⟨-, -, -, st, -, rfl⟩ := stepWtDone_some h; exact ho
  | cRead k =>
    obtain ⟨-, -, lim, blk', dst, r, -, -, -, -, -, rfl⟩ := stepCRead_some (c := c) h
    cases dst <;> exact ho
  | cEof => obtain ⟨-, -, -, -, lim, blk', dst, r, -, -, rfl⟩ := stepCEof_some (c := c) h; exact ho
  | cWrite k =>
    obtain ⟨-, -, -, hh⟩ := stepCWrite_some h
    rcases hh with ⟨-, -, rfl⟩ | ⟨-, -, rfl⟩ <;> exact ho
  | cStep =>
    obtain ⟨-, -, hcs⟩ := stepCStep_some (c := c) h
    cases hcs with
    | fallOff hs h => subst h; exact ho
    | copyDone blk' dst r hs h => subst h; exact ho
    | emitNull bs r hs h => subst h; exact ho
    | emit d bs r hs hd h => subst h; exact ho
    | nop r hs h => subst h; exact ho
    | exit code r hs h => subst h; exact ho
    | kill sg r hs h => subst h; exact ho

theorem oneWrite_never_run {c : Cfg} {p : Bytes} {blk : Nat} {s s' : St} {es : List Ev} (hi : Inv c p s)
    (hc : CatInv blk s) (hk : WriterStuck blk s) (ho : OneWrite s)
    (hbig : c.capIn + blk + c.capOut < p.length) (hb : c.blocking = true) (hch : p.length ≤ c.wchunk)
    (h : run c s es = some s') : WriterStuck blk s' := by
  induction es generalizing s with
  | nil => simp [run] at h; subst h; exact hk
  | cons e es ih =>
    simp only [run_cons] at h
    cases hs : step c s e with
    | none => simp [hs] at h
    | some s2 =>
      simp only [hs] at h
      have hi2 := inv_step hi hs
      have hc2 := catInv_step hc hs
      have hk2 := writerStuck_step hi hc hk hbig (noread_oneWrite hi hc ho) hs
      exact ih hi2 hc2 hk2 (oneWrite_step hi hi2 hc2 hk hk2 hbig hb hch ho hs) h

theorem writerStuck_not_completed {blk : Nat} {s : St} (hk : WriterStuck blk s) : s.completed = false := by
  simp [St.completed, hk.open_]

/-! ### `wait` with `stdin` still inside the `Child` (plan `held`) -/

/-- the child waits for end of file, the parent closes stdin only after the wait -/
structure HeldStuck (s : St) : Prop where
  open_ : s.wclosed = false
  alive : s.status = none
  notWaited : s.wt.isDone = false
  shape : ∃ blk dst tail, s.script = .copy none blk dst :: tail

theorem heldStuck_step {c : Cfg} {s s' : St} {e : Ev} (hk : HeldStuck s) (hheld : c.plan.deps .W .Wt = true)
    (h : step c s e = some s') : HeldStuck s' := by
  obtain ⟨k1, k2, k3, blk, dst, tail, k4⟩ := hk
  have hW : depsOk c s .W = false := by simp [depsOk, St.done, hheld, k3]
  cases e with
  | wr k => obtain ⟨g1, -⟩ := stepWr_some h; simp [hW] at g1
  | wrEpipe => obtain ⟨g1, -⟩ := stepWrEpipe_some h; simp [hW] at g1
  | wclose => obtain ⟨g1, -⟩ := stepWclose_some h; simp [hW] at g1
  | rd d k =>
    cases d with
    | out => obtain ⟨-, -, -, -, -, -, rfl⟩ := stepRd_out_some h; exact ⟨k1, k2, k3, blk, dst, tail, k4⟩
    | err => obtain ⟨-, -, -, -, -, -, rfl⟩ := stepRd_err_some h; exact ⟨k1, k2, k3, blk, dst, tail, k4⟩
    | null => simp [step, stepRd_null] at h
  | rdEof d =>
    cases d with
    | out => obtain ⟨-, -, -, -, g5, rfl⟩ := stepRdEof_out_some h; simp [k2] at g5
    | err => obtain ⟨-, -, -, -, g5, rfl⟩ := stepRdEof_err_some h; simp [k2] at g5
    | null => simp [step, stepRdEof_null] at h
  | wtStart =>
    obtain ⟨-, -, -, rfl⟩ := stepWtStart_some h
    exact ⟨k1, k2, by simp [WaitPc.isDone], blk, dst, tail, k4⟩
  | wtReady => obtain ⟨-, -, -, -, g5, rfl⟩ := stepWtReady_some h; simp [k2] at g5
  | wtTake =>
    obtain ⟨-, -, -, -, -, rfl⟩ := stepWtTake_some h
    exact ⟨k1, k2, by simp [WaitPc.isDone], blk, dst, tail, k4⟩
  | wtDone => obtain ⟨-, -, -, st, g4, rfl⟩ := stepWtDone_some h; simp [k2] at g4
  | cRead k =>
    obtain ⟨g1, g2, lim, blk', dst', r, hs, g3, g4, g5, g6, rfl⟩ := stepCRead_some (c := c) h
    rw [hs] at k4
    simp only [List.cons.injEq, CAct.copy.injEq] at k4
    obtain ⟨⟨rfl, rfl, rfl⟩, rfl⟩ := k4
    cases dst'
    · exact ⟨k1, k2, k3, blk', .out, r, by simp [limSub]⟩
    · exact ⟨k1, k2, k3, blk', .err, r, by simp [limSub]⟩
    · exact ⟨k1, k2, k3, blk', .null, r, by simp [limSub]⟩
  | cEof => obtain ⟨-, -, -, g4, -⟩ := stepCEof_some (c := c) h; simp [k1] at g4
  | cWrite k =>
    obtain ⟨-, -, -, hh⟩ := stepCWrite_some h
    rcases hh with ⟨-, -, rfl⟩ | ⟨-, -, rfl⟩ <;> exact ⟨k1, k2, k3, blk, dst, tail, k4⟩
  | cStep =>
    obtain ⟨g1, g2, hcs⟩ := stepCStep_some (c := c) h
    cases hcs with
    | fallOff hs h => rw [hs] at k4; cases k4
    | copyDone blk' dst' r hs h => rw [hs] at k4; simp at k4
    | emitNull bs r hs h => rw [hs] at k4; simp at k4
    | emit d bs r hs hd h => rw [hs] at k4; simp at k4
    | nop r hs h => rw [hs] at k4; simp at k4
    | exit code r hs h => rw [hs] at k4; simp at k4
    | kill sg r hs h => rw [hs] at k4; simp at k4

theorem heldStuck_run {c : Cfg} {s s' : St} {es : List Ev} (hk : HeldStuck s) (hheld : c.plan.deps .W .Wt = true)
    (h : run c s es = some s') : HeldStuck s' := by
  induction es generalizing s with
  | nil => simp [run] at h; subst h; exact hk
  | cons e es ih =>
    simp only [run_cons] at h
    cases hs : step c s e with
    | none => simp [hs] at h
    | some s2 => simp only [hs] at h; exact ih (heldStuck_step hk hheld hs) h

/-! ## the canonical scheduler -/

theorem next_some {c : Cfg} {s s' : St} (h : next c s = some s') : ∃ e, step c s e = some s' := by
  unfold next at h
  obtain ⟨e, -, he⟩ := List.exists_of_findSome?_eq_some h
  exact ⟨e, he⟩

theorem next_none {c : Cfg} {s : St} (h : next c s = none) : ∀ e ∈ candidates c s, step c s e = none := by
  unfold next at h
  exact List.findSome?_eq_none_iff.mp h

theorem isSome_of_eq_some {α : Type} {o : Option α} {a : α} (h : o = some a) : o.isSome = true := by
  rw [h]; rfl

/-- if any event can fire, the candidate of the same kind (with the largest transfer) can -/
theorem candidate_enabled {c : Cfg} {p : Bytes} {s s' : St} {e : Ev} (hi : Inv c p s) (h : step c s e = some s') :
    ∃ e' ∈ candidates c s, (step c s e').isSome = true := by
  cases e with
  | wr k =>
    obtain ⟨g1, g2, g3, g4, g5, g6, g7, g8, -⟩ := stepWr_some h
    refine ⟨.wr (min (offered c s) (c.capIn - s.nin)), by simp [candidates], ?_⟩
    have := offered_le (c := c) hi.wblockLe
    simp [step, stepWr, g1, g2, g3, g4]
    omega
  | wrEpipe => exact ⟨.wrEpipe, by simp [candidates], isSome_of_eq_some h⟩
  | wclose => exact ⟨.wclose, by simp [candidates], isSome_of_eq_some h⟩
  | rd d k =>
    cases d with
    | out =>
      obtain ⟨g1, g2, g3, g4, g5, g6, -⟩ := stepRd_out_some h
      refine ⟨.rd .out (min c.rchunk s.nout), by simp [candidates], ?_⟩
      have := hi.nout
      simp [step, stepRd, g1, g2, g3]
      omega
    | err =>
      obtain ⟨g1, g2, g3, g4, g5, g6, -⟩ := stepRd_err_some h
      refine ⟨.rd .err (min c.rchunk s.nerr), by simp [candidates], ?_⟩
      have := hi.nerr
      simp [step, stepRd, g1, g2, g3]
      omega
    | null => simp [step, stepRd_null] at h
  | rdEof d =>
    cases d with
    | out => exact ⟨.rdEof .out, by simp [candidates], isSome_of_eq_some h⟩
    | err => exact ⟨.rdEof .err, by simp [candidates], isSome_of_eq_some h⟩
    | null => simp [step, stepRdEof_null] at h
  | wtStart => exact ⟨.wtStart, by simp [candidates], isSome_of_eq_some h⟩
  | wtReady => exact ⟨.wtReady, by simp [candidates], isSome_of_eq_some h⟩
  | wtTake => exact ⟨.wtTake, by simp [candidates], isSome_of_eq_some h⟩
  | wtDone => exact ⟨.wtDone, by simp [candidates], isSome_of_eq_some h⟩
  | cRead k =>
    obtain ⟨g1, g2, lim, blk, dst, r, hs, g3, g4, g5, g6, -⟩ := stepCRead_some (c := c) h
    have hn := hi.nin
    cases lim with
    | none =>
      refine ⟨.cRead (min (min blk s.nin) s.nin), by simp [candidates, hs], ?_⟩
      cases dst <;> simp [step, stepCRead, g1, g2, hs, limOk] <;> omega
    | some n =>
      simp [limOk] at g6
      refine ⟨.cRead (min (min blk n) s.nin), by simp [candidates, hs], ?_⟩
      cases dst <;> simp [step, stepCRead, g1, g2, hs, limOk] <;> omega
  | cEof => exact ⟨.cEof, by simp [candidates], isSome_of_eq_some h⟩
  | cWrite k =>
    obtain ⟨g1, g2, g3, hh⟩ := stepCWrite_some h
    rcases hh with ⟨g4, g5, -⟩ | ⟨g4, g5, -⟩
    · refine ⟨.cWrite (s.pend.take (c.capOut - s.nout)).length, by simp [candidates, g4], ?_⟩
      simp [step, stepCWrite, g1, g4, List.length_take]
      rw [if_pos (by omega), if_pos (by omega)]; rfl
    · refine ⟨.cWrite (s.pend.take (c.capErr - s.nerr)).length, by simp [candidates, g4], ?_⟩
      simp [step, stepCWrite, g1, g4, List.length_take]
      rw [if_pos (by omega), if_pos (by omega)]; rfl
  | cStep => exact ⟨.cStep, by simp [candidates], isSome_of_eq_some h⟩

theorem next_none_stuck {c : Cfg} {p : Bytes} {s : St} (hi : Inv c p s) (h : next c s = none) : Stuck c s := by
  intro e
  cases hs : step c s e with
  | none => rfl
  | some s' =>
    obtain ⟨e', hm, he'⟩ := candidate_enabled hi hs
    rw [next_none h e' hm] at he'
    cases he'

theorem runCanon_run (c : Cfg) (n : Nat) (s : St) : ∃ es, run c s es = some (runCanon c n s) := by
  induction n generalizing s with
  | zero => exact ⟨[], rfl⟩
  | succ n ih =>
    simp only [runCanon]
    cases hn : next c s with
    | none => exact ⟨[], rfl⟩
    | some s' =>
      obtain ⟨e, he⟩ := next_some hn
      obtain ⟨es, hes⟩ := ih s'
      exact ⟨e :: es, by simp [run_cons, he, hes]⟩

theorem stuck_of_mu_zero {c : Cfg} {s : St} (h : mu s = 0) : Stuck c s := by
  intro e
  cases hs : step c s e with
  | none => rfl
  | some s' => have := mu_decrease hs; omega

/-- with `mu s` units of fuel the canonical run is maximal -/
theorem runCanon_stuck {c : Cfg} {p : Bytes} {n : Nat} {s : St} (hi : Inv c p s) (hn : mu s ≤ n) :
    Stuck c (runCanon c n s) := by
  induction n generalizing s with
  | zero => simp only [runCanon]; exact stuck_of_mu_zero (by omega)
  | succ n ih =>
    simp only [runCanon]
    cases hx : next c s with
    | none => exact next_none_stuck hi hx
    | some s' =>
      obtain ⟨e, he⟩ := next_some hx
      have := mu_decrease he
      exact ih (inv_step hi he) (by omega)

theorem runCanon_of_stuck {c : Cfg} {s : St} (hs : Stuck c s) (n : Nat) :
    runCanon c n s = s := by
  cases n with
  | zero => rfl
  | succ n =>
    simp only [runCanon]
    cases hx : next c s with
    | none => rfl
    | some s' =>
      obtain ⟨e, he⟩ := next_some hx
      rw [hs e] at he; cases he

/-- more fuel than `mu s` changes nothing -/
theorem runCanon_fuel {c : Cfg} {p : Bytes} {n : Nat} {s : St} (hi : Inv c p s) (hn : mu s ≤ n) (k : Nat) :
    runCanon c (n + k) s = runCanon c n s := by
  induction n generalizing s with
  | zero =>
    have hs : Stuck c s := stuck_of_mu_zero (by omega)
    rw [runCanon_of_stuck hs, runCanon_of_stuck hs]
  | succ n ih =>
    rw [show n + 1 + k = (n + k) + 1 by omega]
    simp only [runCanon]
    cases hx : next c s with
    | none => rfl
    | some s' =>
      obtain ⟨e, he⟩ := next_some hx
      have := mu_decrease he
      exact ih (inv_step hi he) (by omega)

/-! ## `wait` -/

theorem step_wt {c : Cfg} {s s' : St} {e : Ev} (h : step c s e = some s') :
    (e = .wtDone ∧ s.wt.isDone = false ∧ s'.wt.isDone = true) ∨ (e ≠ .wtDone ∧ s'.wt.isDone = s.wt.isDone) := by
  cases e with
  | wr k => obtain ⟨-, -, -, -, -, -, -, -, rfl⟩ := stepWr_some h; exact Or.inr ⟨by simp, rfl⟩
  | wrEpipe => obtain ⟨-, -, -, -, -, rfl⟩ := stepWrEpipe_some h; exact Or.inr ⟨by simp, rfl⟩
  | wclose => obtain ⟨-, -, -, -, rfl⟩ := stepWclose_some h; exact Or.inr ⟨by simp, rfl⟩
  | rd d k =>
    cases d with
    | out => obtain ⟨-, -, -, -, -, -, rfl⟩ := stepRd_out_some h; exact Or.inr ⟨by simp, rfl⟩
    | err => obtain ⟨-, -, -, -, -, -, rfl⟩ := stepRd_err_some h; exact Or.inr ⟨by simp, rfl⟩
    | null => simp [step, stepRd_null] at h
  | rdEof d =>
    cases d with
    | out => obtain ⟨-, -, -, -, -, rfl⟩ := stepRdEof_out_some h; exact Or.inr ⟨by simp, rfl⟩
    | err => obtain ⟨-, -, -, -, -, rfl⟩ := stepRdEof_err_some h; exact Or.inr ⟨by simp, rfl⟩
    | null => simp [step, stepRdEof_null] at h
  | wtStart => obtain ⟨-, -, g3, rfl⟩ := stepWtStart_some h; exact Or.inr ⟨by simp, by simp [g3, WaitPc.isDone]⟩
  | wtReady => obtain ⟨-, -, -, g4, -, rfl⟩ := stepWtReady_some h; exact Or.inr ⟨by simp, by simp [g4, WaitPc.isDone]⟩
  | wtTake => obtain ⟨-, -, -, g4, -, rfl⟩ := stepWtTake_some h; exact Or.inr ⟨by simp, by simp [g4, WaitPc.isDone]⟩
  | wtDone =>
    obtain ⟨-, -, g3, st, -, rfl⟩ := stepWtDone_some h
    refine Or.inl ⟨rfl, ?_, by simp [WaitPc.isDone]⟩
    rw [g3]; cases hp : c.pidfd <;> simp [Cfg.lastPc, hp, WaitPc.isDone]
  | cRead k =>
    obtain ⟨-, -, lim, blk, dst, r, -, -, -, -, -, rfl⟩ := stepCRead_some (c := c) h
    cases dst <;> exact Or.inr ⟨by simp, rfl⟩
  | cEof => obtain ⟨-, -, -, -, lim, blk, dst, r, -, -, rfl⟩ := stepCEof_some (c := c) h; exact Or.inr ⟨by simp, rfl⟩
  | cWrite k =>
    obtain ⟨-, -, -, hh⟩ := stepCWrite_some h
    rcases hh with ⟨-, -, rfl⟩ | ⟨-, -, rfl⟩ <;> exact Or.inr ⟨by simp, rfl⟩
  | cStep =>
    obtain ⟨-, -, hcs⟩ := stepCStep_some (c := c) h
    cases hcs with
    | fallOff hs h => subst h; exact Or.inr ⟨by simp, rfl⟩
    | copyDone blk' dst r hs h => subst h; exact Or.inr ⟨by simp, rfl⟩
    | emitNull bs r hs h => subst h; exact Or.inr ⟨by simp, rfl⟩
    | emit d bs r hs hd h => subst h; exact Or.inr ⟨by simp, rfl⟩
    | nop r hs h => subst h; exact Or.inr ⟨by simp, rfl⟩
    | exit code r hs h => subst h; exact Or.inr ⟨by simp, rfl⟩
    | kill sg r hs h => subst h; exact Or.inr ⟨by simp, rfl⟩

/-- number of completed `wait`s in a schedule -/
def waits (es : List Ev) : Nat := es.count .wtDone

theorem waits_run {c : Cfg} {s s' : St} {es : List Ev} (h : run c s es = some s') :
    b2n s.wt.isDone + waits es = b2n s'.wt.isDone := by
  induction es generalizing s with
  | nil => simp [run] at h; subst h; simp [waits]
  | cons e es ih =>
    simp only [run_cons] at h
    cases hs : step c s e with
    | none => simp [hs] at h
    | some s2 =>
      simp only [hs] at h
      have := ih h
      rcases step_wt hs with ⟨h1, h2, h3⟩ | ⟨h1, h2⟩
      · subst h1
        simp only [waits, List.count_cons_self] at this ⊢
        simp only [h2, h3, b2n] at this ⊢
        simp at this ⊢
        omega
      · have hc : waits (e :: es) = waits es := by
          simp only [waits]
          rw [List.count_cons_of_ne h1]
        rw [hc, ← h2]; exact this

/-! ## handles left inside the `Child` -/

/-- a reader that waits for the wait finishes (= the handle is dropped) only after the wait -/
def HeldAfterWait (c : Cfg) (s : St) : Prop :=
  (c.plan.deps .Ro .Wt = true → s.routDone = true → s.wt.isDone = true) ∧
  (c.plan.deps .Re .Wt = true → s.rerrDone = true → s.wt.isDone = true)

theorem heldAfterWait_step {c : Cfg} {s s' : St} {e : Ev} (hh : HeldAfterWait c s) (h : step c s e = some s') :
    HeldAfterWait c s' := by
  obtain ⟨h1, h2⟩ := hh
  have hmono : s.wt.isDone = true → s'.wt.isDone = true := by
    intro hd
    rcases step_wt h with ⟨-, hf, -⟩ | ⟨-, he⟩
    · rw [hd] at hf; cases hf
    · rw [he]; exact hd
  cases e with
  | rdEof d =>
    cases d with
    | out =>
      obtain ⟨g1, -, -, -, -, rfl⟩ := stepRdEof_out_some h
      refine ⟨fun hd _ => ?_, h2⟩
      simp only [depsOk, St.done, hd, Bool.not_true, Bool.false_or, Bool.and_eq_true] at g1
      exact g1.2
    | err =>
      obtain ⟨g1, -, -, -, -, rfl⟩ := stepRdEof_err_some h
      refine ⟨h1, fun hd _ => ?_⟩
      simp only [depsOk, St.done, hd, Bool.not_true, Bool.false_or, Bool.and_eq_true] at g1
      exact g1.2
    | null => simp [step, stepRdEof_null] at h
  | wr k => obtain ⟨-, -, -, -, -, -, -, -, rfl⟩ := stepWr_some h; exact ⟨h1, h2⟩
  | wrEpipe => obtain ⟨-, -, -, -, -, rfl⟩ := stepWrEpipe_some h; exact ⟨h1, h2⟩
  | wclose => obtain ⟨-, -, -, -, rfl⟩ := stepWclose_some h; exact ⟨h1, h2⟩
  | rd d k =>
    cases d with
    | out => obtain ⟨-, -, -, -, -, -, rfl⟩ := stepRd_out_some h; exact ⟨h1, h2⟩
    | err => obtain ⟨-, -, -, -, -, -, rfl⟩ := stepRd_err_some h; exact ⟨h1, h2⟩
    | null => simp [step, stepRd_null] at h
  | wtStart =>
    have hm := hmono
    obtain ⟨-, -, -, rfl⟩ := stepWtStart_some h
    exact ⟨fun a b => hm (h1 a b), fun a b => hm (h2 a b)⟩
  | wtReady =>
    have hm := hmono
    obtain ⟨-, -, -, -, -, rfl⟩ := stepWtReady_some h
    exact ⟨fun a b => hm (h1 a b), fun a b => hm (h2 a b)⟩
  | wtTake =>
    have hm := hmono
    obtain ⟨-, -, -, -, -, rfl⟩ := stepWtTake_some h
    exact ⟨fun a b => hm (h1 a b), fun a b => hm (h2 a b)⟩
  | wtDone =>
    obtain ⟨-, -, -, st, -, rfl⟩ := stepWtDone_some h
    exact ⟨fun _ _ => rfl, fun _ _ => rfl⟩
  | cRead k =>
    obtain ⟨-, -, lim, blk, dst, r, -, -, -, -, -, rfl⟩ := stepCRead_some (c := c) h
    cases dst <;> exact ⟨h1, h2⟩
  | cEof => obtain ⟨-, -, -, -, lim, blk, dst, r, -, -, rfl⟩ := stepCEof_some (c := c) h; exact ⟨h1, h2⟩
  | cWrite k =>
    obtain ⟨-, -, -, hh⟩ := stepCWrite_some h
    rcases hh with ⟨-, -, rfl⟩ | ⟨-, -, rfl⟩ <;> exact ⟨h1, h2⟩
  | cStep =>
    obtain ⟨-, -, hcs⟩ := stepCStep_some (c := c) h
    cases hcs with
    | fallOff hs h => subst h; exact ⟨h1, h2⟩
    | copyDone blk' dst r hs h => subst h; exact ⟨h1, h2⟩
    | emitNull bs r hs h => subst h; exact ⟨h1, h2⟩
    | emit d bs r hs hd h => subst h; exact ⟨h1, h2⟩
    | nop r hs h => subst h; exact ⟨h1, h2⟩
    | exit code r hs h => subst h; exact ⟨h1, h2⟩
    | kill sg r hs h => subst h; exact ⟨h1, h2⟩

theorem heldAfterWait_run {c : Cfg} {s s' : St} {es : List Ev} (hh : HeldAfterWait c s) (h : run c s es = some s') :
    HeldAfterWait c s' := by
  induction es generalizing s with
  | nil => simp [run] at h; subst h; exact hh
  | cons e es ih =>
    simp only [run_cons] at h
    cases hs : step c s e with
    | none => simp [hs] at h
    | some s2 => simp only [hs] at h; exact ih (heldAfterWait_step hh hs) h

theorem heldAfterWait_init (c : Cfg) (script : List CAct) (payload : Bytes) (b : Bool) :
    HeldAfterWait c (init script payload b) := by
  constructor <;> intro _ h <;> simp [init] at h

/-- one stream: the child is not blocked writing to it -/
theorem not_jammed_out_of_fits {c : Cfg} {p : Bytes} {s : St} (hi : Inv c p s)
    (ho : (den s).out.length ≤ c.capOut) : ¬ (s.status = none ∧ s.pend ≠ [] ∧ s.pdst = .out ∧ s.nout = c.capOut) := by
  rintro ⟨hst, hpe, hd, hf⟩
  obtain ⟨b1, -⟩ := out_le_den hst
  have hl : 0 < s.pend.length := List.length_pos_iff.mpr hpe
  have e := congrArg List.length hi.outs
  have := hi.nout
  simp only [List.length_append] at e
  simp only [pendFor, hd, if_true] at b1
  omega

theorem not_jammed_err_of_fits {c : Cfg} {p : Bytes} {s : St} (hi : Inv c p s)
    (he : (den s).err.length ≤ c.capErr) : ¬ (s.status = none ∧ s.pend ≠ [] ∧ s.pdst = .err ∧ s.nerr = c.capErr) := by
  rintro ⟨hst, hpe, hd, hf⟩
  obtain ⟨-, b2⟩ := out_le_den hst
  have hl : 0 < s.pend.length := List.length_pos_iff.mpr hpe
  have e := congrArg List.length hi.errs
  have := hi.nerr
  simp only [List.length_append] at e
  simp only [pendFor, hd, if_true] at b2
  omega

/-- (E) per stream: either its reader is free, or what the child writes to it fits into the pipe
(a handle left inside the `Child` is such a stream) -/
theorem stuck_completed_mixed {c : Cfg} {p : Bytes} {s : St} (hp : c.Pos) (hi : Inv c p s)
    (hw : wfScript s.script = true) (hnb : c.blocking = false) (hW : ∀ x, c.plan.deps .W x = false)
    (ho : (∀ x, c.plan.deps .Ro x = false) ∨ (den s).out.length ≤ c.capOut)
    (he : (∀ x, c.plan.deps .Re x = false) ∨ (den s).err.length ≤ c.capErr)
    (hs : Stuck c s) : s.completed = true := by
  cases hn : s.completed with
  | true => rfl
  | false =>
    exfalso
    refine not_stuck_of_canStep (progress hp hi hw hn ?_ ?_) hs
    · intro hj
      have hb := hi.wblockNB hnb
      obtain ⟨hst, hpe, hh⟩ := hj
      rcases hh with ⟨hd, hf⟩ | ⟨hd, hf⟩
      · rcases ho with ho | ho
        · exact jam_reader hp hi ⟨hst, hpe, Or.inl ⟨hd, hf⟩⟩ hb (fun _ => depsOk_free ho)
            (fun h => by rw [hd] at h; cases h)
        · exact absurd ⟨hst, hpe, hd, hf⟩ (not_jammed_out_of_fits hi ho)
      · rcases he with he | he
        · exact jam_reader hp hi ⟨hst, hpe, Or.inr ⟨hd, hf⟩⟩ hb (fun h => by rw [hd] at h; cases h)
            (fun _ => depsOk_free he)
        · exact absurd ⟨hst, hpe, hd, hf⟩ (not_jammed_err_of_fits hi he)
    · intro hst
      exact starve_writer hp hi hst (depsOk_free hW)

/-! ## configurations used by the non-vacuity examples -/

/-- 2-byte pipes, io_uring, everything concurrent -/
def exCfg : Cfg :=
  { capIn := 2, capOut := 2, capErr := 2, wchunk := 3, rchunk := 1, blocking := false, pidfd := true, plan := .conc }

/-- write everything, then read; stdin pipe 2, stdout pipe 1 -/
def seqCfg : Cfg :=
  { capIn := 2, capOut := 1, capErr := 1, wchunk := 5, rchunk := 5, blocking := false, pidfd := false, plan := .seq }

/-- the polling driver with 1-byte pipes, a 1-byte `cat`, 4 bytes in one `write`, everything concurrent -/
def f200Cfg : Cfg :=
  { capIn := 1, capOut := 1, capErr := 1, wchunk := 4, rchunk := 4, blocking := true, pidfd := false, plan := .conc }

end Compio.ChildIo
