/-
C20 — lemmas about the child-process model (`Compio.Model.ChildIo`).
-/
import Compio.Model.ChildIo

namespace Compio.ChildIo

@[simp] theorem atLeast_iff {α : Type} (l : List α) (k : Nat) : atLeast l k = true ↔ k ≤ l.length := by
  induction l generalizing k with
  | nil => cases k <;> simp [atLeast]
  | cons a r ih => cases k <;> simp [atLeast, ih]

/-! ## one lemma per event: what a successful step looks like -/

theorem stepWr_some {c : Cfg} {s s' : St} {k : Nat} (h : stepWr c s k = some s') :
    depsOk c s .W = true ∧ s.wepipe = false ∧ s.wclosed = false ∧ s.status = none ∧
    1 ≤ k ∧ k ≤ offered c s ∧ k ≤ s.wleft.length ∧ s.nin + k ≤ c.capIn ∧
    s' = { s with pin := s.pin ++ s.wleft.take k, nin := s.nin + k, wleft := s.wleft.drop k,
                  wsent := s.wsent ++ s.wleft.take k,
                  wblock := if c.blocking then offered c s - k else 0 } := by
  unfold stepWr at h
  split at h
  · rename_i g
    simp only [atLeast_iff] at g
    simp at h
    exact ⟨g.1, g.2.1, g.2.2.1, g.2.2.2.1, g.2.2.2.2.1, g.2.2.2.2.2.1, g.2.2.2.2.2.2.1, g.2.2.2.2.2.2.2, h.symm⟩
  · simp at h


theorem stepWrEpipe_some {c : Cfg} {s s' : St} (h : stepWrEpipe c s = some s') :
    depsOk c s .W = true ∧ s.wepipe = false ∧ s.wclosed = false ∧ s.wleft ≠ [] ∧ s.status.isSome = true ∧
    s' = { s with wepipe := true, wblock := 0 } := by
  unfold stepWrEpipe at h
  split at h
  · rename_i g; simp at h
    exact ⟨g.1, g.2.1, g.2.2.1, g.2.2.2.1, g.2.2.2.2, h.symm⟩
  · simp at h

theorem stepWclose_some {c : Cfg} {s s' : St} (h : stepWclose c s = some s') :
    depsOk c s .W = true ∧ s.wblock = 0 ∧ s.wclosed = false ∧ (s.wleft = [] ∨ s.wepipe = true) ∧
    s' = { s with wclosed := true } := by
  unfold stepWclose at h
  split at h
  · rename_i g; simp at h
    exact ⟨g.1, g.2.1, g.2.2.1, g.2.2.2, h.symm⟩
  · simp at h

theorem stepRd_out_some {c : Cfg} {s s' : St} {k : Nat} (h : stepRd c s .out k = some s') :
    depsOk c s .Ro = true ∧ s.wblock = 0 ∧ s.routDone = false ∧ 1 ≤ k ∧ k ≤ c.rchunk ∧ k ≤ s.pout.length ∧
    s' = { s with rout := s.rout ++ s.pout.take k, pout := s.pout.drop k, nout := s.nout - k } := by
  simp only [stepRd] at h
  split at h
  · rename_i g; simp only [atLeast_iff] at g; simp at h
    exact ⟨g.1, g.2.1, g.2.2.1, g.2.2.2.1, g.2.2.2.2.1, g.2.2.2.2.2, h.symm⟩
  · simp at h

theorem stepRd_err_some {c : Cfg} {s s' : St} {k : Nat} (h : stepRd c s .err k = some s') :
    depsOk c s .Re = true ∧ s.wblock = 0 ∧ s.rerrDone = false ∧ 1 ≤ k ∧ k ≤ c.rchunk ∧ k ≤ s.perr.length ∧
    s' = { s with rerr := s.rerr ++ s.perr.take k, perr := s.perr.drop k, nerr := s.nerr - k } := by
  simp only [stepRd] at h
  split at h
  · rename_i g; simp only [atLeast_iff] at g; simp at h
    exact ⟨g.1, g.2.1, g.2.2.1, g.2.2.2.1, g.2.2.2.2.1, g.2.2.2.2.2, h.symm⟩
  · simp at h

theorem stepRd_null {c : Cfg} {s : St} {k : Nat} : stepRd c s .null k = none := rfl

theorem stepRdEof_out_some {c : Cfg} {s s' : St} (h : stepRdEof c s .out = some s') :
    depsOk c s .Ro = true ∧ s.wblock = 0 ∧ s.routDone = false ∧ s.pout = [] ∧ s.status.isSome = true ∧
    s' = { s with routDone := true } := by
  simp only [stepRdEof] at h
  split at h
  · rename_i g; simp at h
    exact ⟨g.1, g.2.1, g.2.2.1, g.2.2.2.1, g.2.2.2.2, h.symm⟩
  · simp at h

theorem stepRdEof_err_some {c : Cfg} {s s' : St} (h : stepRdEof c s .err = some s') :
    depsOk c s .Re = true ∧ s.wblock = 0 ∧ s.rerrDone = false ∧ s.perr = [] ∧ s.status.isSome = true ∧
    s' = { s with rerrDone := true } := by
  simp only [stepRdEof] at h
  split at h
  · rename_i g; simp at h
    exact ⟨g.1, g.2.1, g.2.2.1, g.2.2.2.1, g.2.2.2.2, h.symm⟩
  · simp at h

theorem stepRdEof_null {c : Cfg} {s : St} : stepRdEof c s .null = none := rfl

theorem stepWtStart_some {c : Cfg} {s s' : St} (h : stepWtStart c s = some s') :
    depsOk c s .Wt = true ∧ s.wblock = 0 ∧ s.wt = .idle ∧
    s' = { s with wt := .started, fdRefs := if c.pidfd then s.fdRefs + 1 else s.fdRefs } := by
  unfold stepWtStart at h
  split at h
  · rename_i g; simp at h
    exact ⟨g.1, g.2.1, g.2.2, h.symm⟩
  · simp at h

theorem stepWtReady_some {c : Cfg} {s s' : St} (h : stepWtReady c s = some s') :
    depsOk c s .Wt = true ∧ s.wblock = 0 ∧ c.pidfd = true ∧ s.wt = .started ∧ s.status.isSome = true ∧
    s' = { s with wt := .ready, fdRefs := s.fdRefs - 1 } := by
  unfold stepWtReady at h
  split at h
  · rename_i g; simp at h
    exact ⟨g.1, g.2.1, g.2.2.1, g.2.2.2.1, g.2.2.2.2, h.symm⟩
  · simp at h

theorem stepWtTake_some {c : Cfg} {s s' : St} (h : stepWtTake c s = some s') :
    depsOk c s .Wt = true ∧ s.wblock = 0 ∧ c.pidfd = true ∧ s.wt = .ready ∧ s.fdRefs = 1 ∧
    s' = { s with wt := .taken, fdRefs := 0 } := by
  unfold stepWtTake at h
  split at h
  · rename_i g; simp at h
    exact ⟨g.1, g.2.1, g.2.2.1, g.2.2.2.1, g.2.2.2.2, h.symm⟩
  · simp at h

theorem stepWtDone_some {c : Cfg} {s s' : St} (h : stepWtDone c s = some s') :
    depsOk c s .Wt = true ∧ s.wblock = 0 ∧ s.wt = c.lastPc ∧
    ∃ st, s.status = some st ∧ s' = { s with wt := .done st } := by
  unfold stepWtDone at h
  split at h
  · rename_i g
    split at h
    · rename_i st hst; simp at h
      exact ⟨g.1, g.2.1, g.2.2, st, hst, h.symm⟩
    · simp at h
  · simp at h

theorem stepCRead_some {c : Cfg} {s s' : St} {k : Nat} (h : stepCRead c s k = some s') :
    s.status = none ∧ s.pend = [] ∧ ∃ lim blk dst r, s.script = .copy lim blk dst :: r ∧
    1 ≤ k ∧ k ≤ blk ∧ k ≤ s.pin.length ∧ limOk lim k = true ∧
    s' = (match dst with
      | .null => { s with pin := s.pin.drop k, nin := s.nin - k, got := s.got ++ s.pin.take k,
                          script := .copy (limSub lim k) blk dst :: r, sunk := s.sunk + k }
      | d => { s with pin := s.pin.drop k, nin := s.nin - k, got := s.got ++ s.pin.take k,
                      script := .copy (limSub lim k) blk dst :: r, pend := s.pin.take k, pdst := d }) := by
  unfold stepCRead at h
  split at h
  · rename_i g
    refine ⟨g.1, g.2, ?_⟩
    split at h
    · rename_i lim blk dst r hs
      split at h
      · rename_i g2; simp only [atLeast_iff] at g2
        refine ⟨lim, blk, dst, r, hs, g2.1, g2.2.1, g2.2.2.1, g2.2.2.2, ?_⟩
        cases dst <;> simp at h <;> simp [← h]
      · simp at h
    · simp at h
  · simp at h

theorem stepCEof_some {c : Cfg} {s s' : St} (h : stepCEof c s = some s') :
    s.status = none ∧ s.pend = [] ∧ s.pin = [] ∧ s.wclosed = true ∧
    ∃ lim blk dst r, s.script = .copy lim blk dst :: r ∧ lim ≠ some 0 ∧ s' = { s with script := r } := by
  unfold stepCEof at h
  split at h
  · rename_i g
    refine ⟨g.1, g.2.1, g.2.2.1, g.2.2.2, ?_⟩
    split at h
    · rename_i lim blk dst r hs
      split at h
      · simp at h
      · rename_i hl; simp at h
        exact ⟨lim, blk, dst, r, hs, hl, h.symm⟩
    · simp at h
  · simp at h

theorem stepCWrite_some {c : Cfg} {s s' : St} {k : Nat} (h : stepCWrite c s k = some s') :
    s.status = none ∧ 1 ≤ k ∧ k ≤ s.pend.length ∧
    ((s.pdst = .out ∧ s.nout + k ≤ c.capOut ∧
      s' = { s with pout := s.pout ++ s.pend.take k, nout := s.nout + k, cout := s.cout ++ s.pend.take k,
                    pend := s.pend.drop k }) ∨
     (s.pdst = .err ∧ s.nerr + k ≤ c.capErr ∧
      s' = { s with perr := s.perr ++ s.pend.take k, nerr := s.nerr + k, cerr := s.cerr ++ s.pend.take k,
                    pend := s.pend.drop k })) := by
  unfold stepCWrite at h
  split at h
  · rename_i g; simp only [atLeast_iff] at g
    refine ⟨g.1, g.2.1, g.2.2, ?_⟩
    split at h
    · rename_i hd
      split at h
      · rename_i hc; simp at h; exact Or.inl ⟨hd, hc, h.symm⟩
      · simp at h
    · rename_i hd
      split at h
      · rename_i hc; simp at h; exact Or.inr ⟨hd, hc, h.symm⟩
      · simp at h
    · simp at h
  · simp at h

/-- the shapes of a successful `cStep` -/
inductive CStepCase (s s' : St) : Prop where
  | fallOff (hs : s.script = []) (h : s' = { s with status := some (.exited 0) })
  | copyDone (blk : Nat) (dst : Dst) (r : List CAct) (hs : s.script = .copy (some 0) blk dst :: r)
      (h : s' = { s with script := r })
  | emitNull (bs : Bytes) (r : List CAct) (hs : s.script = .emit .null bs :: r) (h : s' = { s with script := r })
  | emit (d : Dst) (bs : Bytes) (r : List CAct) (hs : s.script = .emit d bs :: r) (hd : d ≠ .null)
      (h : s' = { s with script := r, pend := bs, pdst := d })
  | nop (r : List CAct) (hs : s.script = .nop :: r) (h : s' = { s with script := r })
  | exit (code : Nat) (r : List CAct) (hs : s.script = .exit code :: r)
      (h : s' = { s with script := [], status := some (.exited code) })
  | kill (sg : Nat) (r : List CAct) (hs : s.script = .kill sg :: r)
      (h : s' = { s with script := [], status := some (.signaled sg) })

theorem stepCStep_some {c : Cfg} {s s' : St} (h : stepCStep c s = some s') :
    s.status = none ∧ s.pend = [] ∧ CStepCase s s' := by
  unfold stepCStep at h
  split at h
  · rename_i g
    refine ⟨g.1, g.2, ?_⟩
    split at h
    · rename_i hs; simp at h; exact .fallOff hs h.symm
    · rename_i lim blk dst r hs
      split at h
      · rename_i hl; simp at h; subst hl; exact .copyDone blk dst r hs h.symm
      · simp at h
    · rename_i bs r hs; simp at h; exact .emitNull bs r hs h.symm
    · rename_i d bs r hd hs; simp at h
      refine .emit d bs r hs ?_ h.symm
      intro hn; subst hn
      trace_state
      exact hd _ _ hs
    · rename_i r hs; simp at h; exact .nop r hs h.symm
    · rename_i code r hs; simp at h; exact .exit code r hs h.symm
    · rename_i sg r hs; simp at h; exact .kill sg r hs h.symm
  · simp at h

end Compio.ChildIo
