/-
C20 — lemmas about the child-process model (`Compio.Model.ChildIo`).
-/
import Compio.Model.ChildIo

namespace Compio.ChildIo

@[simp] theorem atLeast_iff {α : Type} (l : List α) (k : Nat) : atLeast l k = true ↔ k ≤ l.length := by
  induction l generalizing k with
  | nil => cases k <;> simp [atLeast]
  | cons a r ih => cases k <;> simp [atLeast, ih]

/-! ## one lemma per event: what a successful step looks like -/

theorem stepWr_some {c : Cfg} {s s' : St} {k : Nat} (h : stepWr c s k = some s') :
    depsOk c s .W = true ∧ s.wepipe = false ∧ s.wclosed = false ∧ s.status = none ∧
    1 ≤ k ∧ k ≤ offered c s ∧ k ≤ s.wleft.length ∧ s.nin + k ≤ c.capIn ∧
    s' = { s with pin := s.pin ++ s.wleft.take k, nin := s.nin + k, wleft := s.wleft.drop k,
                  wsent := s.wsent ++ s.wleft.take k,
                  wblock := if c.blocking then offered c s - k else 0 } := by
  unfold stepWr at h
  split at h
  · rename_i g
    simp only [atLeast_iff] at g
    simp at h
    exact ⟨g.1, g.2.1, g.2.2.1, g.2.2.2.1, g.2.2.2.2.1, g.2.2.2.2.2.1, g.2.2.2.2.2.2.1, g.2.2.2.2.2.2.2, h.symm⟩
  · simp at h


theorem stepWrEpipe_some {c : Cfg} {s s' : St} (h : stepWrEpipe c s = some s') :
    depsOk c s .W = true ∧ s.wepipe = false ∧ s.wclosed = false ∧ s.wleft ≠ [] ∧ s.status.isSome = true ∧
    s' = { s with wepipe := true, wblock := 0 } := by
  unfold stepWrEpipe at h
  split at h
  · rename_i g; simp at h
    exact ⟨g.1, g.2.1, g.2.2.1, g.2.2.2.1, g.2.2.2.2, h.symm⟩
  · simp at h

theorem stepWclose_some {c : Cfg} {s s' : St} (h : stepWclose c s = some s') :
    depsOk c s .W = true ∧ s.wblock = 0 ∧ s.wclosed = false ∧ (s.wleft = [] ∨ s.wepipe = true) ∧
    s' = { s with wclosed := true } := by
  unfold stepWclose at h
  split at h
  · rename_i g; simp at h
    exact ⟨g.1, g.2.1, g.2.2.1, g.2.2.2, h.symm⟩
  · simp at h

theorem stepRd_out_some {c : Cfg} {s s' : St} {k : Nat} (h : stepRd c s .out k = some s') :
    depsOk c s .Ro = true ∧ s.wblock = 0 ∧ s.routDone = false ∧ 1 ≤ k ∧ k ≤ c.rchunk ∧ k ≤ s.pout.length ∧
    s' = { s with rout := s.rout ++ s.pout.take k, pout := s.pout.drop k, nout := s.nout - k } := by
  simp only [stepRd] at h
  split at h
  · rename_i g; simp only [atLeast_iff] at g; simp at h
    exact ⟨g.1, g.2.1, g.2.2.1, g.2.2.2.1, g.2.2.2.2.1, g.2.2.2.2.2, h.symm⟩
  · simp at h

theorem stepRd_err_some {c : Cfg} {s s' : St} {k : Nat} (h : stepRd c s .err k = some s') :
    depsOk c s .Re = true ∧ s.wblock = 0 ∧ s.rerrDone = false ∧ 1 ≤ k ∧ k ≤ c.rchunk ∧ k ≤ s.perr.length ∧
    s' = { s with rerr := s.rerr ++ s.perr.take k, perr := s.perr.drop k, nerr := s.nerr - k } := by
  simp only [stepRd] at h
  split at h
  · rename_i g; simp only [atLeast_iff] at g; simp at h
    exact ⟨g.1, g.2.1, g.2.2.1, g.2.2.2.1, g.2.2.2.2.1, g.2.2.2.2.2, h.symm⟩
  · simp at h

theorem stepRd_null {c : Cfg} {s : St} {k : Nat} : stepRd c s .null k = none := rfl

theorem stepRdEof_out_some {c : Cfg} {s s' : St} (h : stepRdEof c s .out = some s') :
    depsOk c s .Ro = true ∧ s.wblock = 0 ∧ s.routDone = false ∧ s.pout = [] ∧ s.status.isSome = true ∧
    s' = { s with routDone := true } := by
  simp only [stepRdEof] at h
  split at h
  · rename_i g; simp at h
    exact ⟨g.1, g.2.1, g.2.2.1, g.2.2.2.1, g.2.2.2.2, h.symm⟩
  · simp at h

theorem stepRdEof_err_some {c : Cfg} {s s' : St} (h : stepRdEof c s .err = some s') :
    depsOk c s .Re = true ∧ s.wblock = 0 ∧ s.rerrDone = false ∧ s.perr = [] ∧ s.status.isSome = true ∧
    s' = { s with rerrDone := true } := by
  simp only [stepRdEof] at h
  split at h
  · rename_i g; simp at h
    exact ⟨g.1, g.2.1, g.2.2.1, g.2.2.2.1, g.2.2.2.2, h.symm⟩
  · simp at h

theorem stepRdEof_null {c : Cfg} {s : St} : stepRdEof c s .null = none := rfl

theorem stepWtStart_some {c : Cfg} {s s' : St} (h : stepWtStart c s = some s') :
    depsOk c s .Wt = true ∧ s.wblock = 0 ∧ s.wt = .idle ∧
    s' = { s with wt := .started, fdRefs := if c.pidfd then s.fdRefs + 1 else s.fdRefs } := by
  unfold stepWtStart at h
  split at h
  · rename_i g; simp at h
    exact ⟨g.1, g.2.1, g.2.2, h.symm⟩
  · simp at h

theorem stepWtReady_some {c : Cfg} {s s' : St} (h : stepWtReady c s = some s') :
    depsOk c s .Wt = true ∧ s.wblock = 0 ∧ c.pidfd = true ∧ s.wt = .started ∧ s.status.isSome = true ∧
    s' = { s with wt := .ready, fdRefs := s.fdRefs - 1 } := by
  unfold stepWtReady at h
  split at h
  · rename_i g; simp at h
    exact ⟨g.1, g.2.1, g.2.2.1, g.2.2.2.1, g.2.2.2.2, h.symm⟩
  · simp at h

theorem stepWtTake_some {c : Cfg} {s s' : St} (h : stepWtTake c s = some s') :
    depsOk c s .Wt = true ∧ s.wblock = 0 ∧ c.pidfd = true ∧ s.wt = .ready ∧ s.fdRefs = 1 ∧
    s' = { s with wt := .taken, fdRefs := 0 } := by
  unfold stepWtTake at h
  split at h
  · rename_i g; simp at h
    exact ⟨g.1, g.2.1, g.2.2.1, g.2.2.2.1, g.2.2.2.2, h.symm⟩
  · simp at h

theorem stepWtDone_some {c : Cfg} {s s' : St} (h : stepWtDone c s = some s') :
    depsOk c s .Wt = true ∧ s.wblock = 0 ∧ s.wt = c.lastPc ∧
    ∃ st, s.status = some st ∧ s' = { s with wt := .done st } := by
  unfold stepWtDone at h
  split at h
  · rename_i g
    split at h
    · rename_i st hst; simp at h
      exact ⟨g.1, g.2.1, g.2.2, st, hst, h.symm⟩
    · simp at h
  · simp at h

theorem stepCRead_some {c : Cfg} {s s' : St} {k : Nat} (h : stepCRead c s k = some s') :
    s.status = none ∧ s.pend = [] ∧ ∃ lim blk dst r, s.script = .copy lim blk dst :: r ∧
    1 ≤ k ∧ k ≤ blk ∧ k ≤ s.pin.length ∧ limOk lim k = true ∧
    s' = (match dst with
      | .null => { s with pin := s.pin.drop k, nin := s.nin - k, got := s.got ++ s.pin.take k,
                          script := .copy (limSub lim k) blk dst :: r, sunk := s.sunk + k }
      | d => { s with pin := s.pin.drop k, nin := s.nin - k, got := s.got ++ s.pin.take k,
                      script := .copy (limSub lim k) blk dst :: r, pend := s.pin.take k, pdst := d }) := by
  unfold stepCRead at h
  split at h
  · rename_i g
    refine ⟨g.1, g.2, ?_⟩
    split at h
    · rename_i lim blk dst r hs
      split at h
      · rename_i g2; simp only [atLeast_iff] at g2
        refine ⟨lim, blk, dst, r, hs, g2.1, g2.2.1, g2.2.2.1, g2.2.2.2, ?_⟩
        cases dst <;> simp at h <;> simp [← h]
      · simp at h
    · simp at h
  · simp at h

theorem stepCEof_some {c : Cfg} {s s' : St} (h : stepCEof c s = some s') :
    s.status = none ∧ s.pend = [] ∧ s.pin = [] ∧ s.wclosed = true ∧
    ∃ lim blk dst r, s.script = .copy lim blk dst :: r ∧ lim ≠ some 0 ∧ s' = { s with script := r } := by
  unfold stepCEof at h
  split at h
  · rename_i g
    refine ⟨g.1, g.2.1, g.2.2.1, g.2.2.2, ?_⟩
    split at h
    · rename_i lim blk dst r hs
      split at h
      · simp at h
      · rename_i hl; simp at h
        exact ⟨lim, blk, dst, r, hs, hl, h.symm⟩
    · simp at h
  · simp at h

theorem stepCWrite_some {c : Cfg} {s s' : St} {k : Nat} (h : stepCWrite c s k = some s') :
    s.status = none ∧ 1 ≤ k ∧ k ≤ s.pend.length ∧
    ((s.pdst = .out ∧ s.nout + k ≤ c.capOut ∧
      s' = { s with pout := s.pout ++ s.pend.take k, nout := s.nout + k, cout := s.cout ++ s.pend.take k,
                    pend := s.pend.drop k }) ∨
     (s.pdst = .err ∧ s.nerr + k ≤ c.capErr ∧
      s' = { s with perr := s.perr ++ s.pend.take k, nerr := s.nerr + k, cerr := s.cerr ++ s.pend.take k,
                    pend := s.pend.drop k })) := by
  unfold stepCWrite at h
  split at h
  · rename_i g; simp only [atLeast_iff] at g
    refine ⟨g.1, g.2.1, g.2.2, ?_⟩
    split at h
    · rename_i hd
      split at h
      · rename_i hc; simp at h; exact Or.inl ⟨hd, hc, h.symm⟩
      · simp at h
    · rename_i hd
      split at h
      · rename_i hc; simp at h; exact Or.inr ⟨hd, hc, h.symm⟩
      · simp at h
    · simp at h
  · simp at h

/-- the shapes of a successful `cStep` -/
inductive CStepCase (s s' : St) : Prop where
  | fallOff (hs : s.script = []) (h : s' = { s with status := some (.exited 0) })
  | copyDone (blk : Nat) (dst : Dst) (r : List CAct) (hs : s.script = .copy (some 0) blk dst :: r)
      (h : s' = { s with script := r })
  | emitNull (bs : Bytes) (r : List CAct) (hs : s.script = .emit .null bs :: r) (h : s' = { s with script := r })
  | emit (d : Dst) (bs : Bytes) (r : List CAct) (hs : s.script = .emit d bs :: r) (hd : d ≠ .null)
      (h : s' = { s with script := r, pend := bs, pdst := d })
  | nop (r : List CAct) (hs : s.script = .nop :: r) (h : s' = { s with script := r })
  | exit (code : Nat) (r : List CAct) (hs : s.script = .exit code :: r)
      (h : s' = { s with script := [], status := some (.exited code) })
  | kill (sg : Nat) (r : List CAct) (hs : s.script = .kill sg :: r)
      (h : s' = { s with script := [], status := some (.signaled sg) })

theorem stepCStep_some {c : Cfg} {s s' : St} (h : stepCStep c s = some s') :
    s.status = none ∧ s.pend = [] ∧ CStepCase s s' := by
  unfold stepCStep at h
  split at h
  · rename_i g
    refine ⟨g.1, g.2, ?_⟩
    split at h
    · rename_i hs; simp at h; exact .fallOff hs h.symm
    · rename_i lim blk dst r hs
      split at h
      · rename_i hl; simp at h; subst hl; exact .copyDone blk dst r hs h.symm
      · simp at h
    · rename_i bs r hs; simp at h; exact .emitNull bs r hs h.symm
    · rename_i d bs r hd hs; simp at h
      refine .emit d bs r hs ?_ h.symm
      intro hn; subst hn
      exact hd rfl
    · rename_i r hs; simp at h; exact .nop r hs h.symm
    · rename_i code r hs; simp at h; exact .exit code r hs h.symm
    · rename_i sg r hs; simp at h; exact .kill sg r hs h.symm
  · simp at h

/-! ## termination: every step decreases `mu` -/

theorem wScript_cons (a : CAct) (r : List CAct) : wScript (a :: r) = wAct a + wScript r := rfl

theorem mu_decrease {c : Cfg} {s s' : St} {e : Ev} (h : step c s e = some s') : mu s' < mu s := by
  cases e with
  | wr k =>
    obtain ⟨-, h2, -, -, h5, -, h7, -, rfl⟩ := stepWr_some h
    simp [mu, h2, List.length_drop]
    omega
  | wrEpipe =>
    obtain ⟨-, g2, -, g4, -, rfl⟩ := stepWrEpipe_some h
    have : 0 < s.wleft.length := List.length_pos_iff.mpr g4
    simp [mu, g2]; omega
  | wclose =>
    obtain ⟨-, -, g3, -, rfl⟩ := stepWclose_some h
    simp [mu, b2n, g3]
  | rd d k =>
    cases d with
    | out =>
      obtain ⟨-, -, -, g4, -, g6, rfl⟩ := stepRd_out_some h
      simp [mu, List.length_drop]; omega
    | err =>
      obtain ⟨-, -, -, g4, -, g6, rfl⟩ := stepRd_err_some h
      simp [mu, List.length_drop]; omega
    | null => simp [step, stepRd_null] at h
  | rdEof d =>
    cases d with
    | out =>
      obtain ⟨-, -, g3, -, -, rfl⟩ := stepRdEof_out_some h
      simp [mu, b2n, g3]
    | err =>
      obtain ⟨-, -, g3, -, -, rfl⟩ := stepRdEof_err_some h
      simp [mu, b2n, g3]
    | null => simp [step, stepRdEof_null] at h
  | wtStart =>
    obtain ⟨-, -, g3, rfl⟩ := stepWtStart_some h
    simp [mu, g3, wtRank]
  | wtReady =>
    obtain ⟨-, -, -, g3, -, rfl⟩ := stepWtReady_some h
    simp [mu, g3, wtRank]
  | wtTake =>
    obtain ⟨-, -, -, g3, -, rfl⟩ := stepWtTake_some h
    simp [mu, g3, wtRank]
  | wtDone =>
    obtain ⟨-, -, g3, st, -, rfl⟩ := stepWtDone_some h
    cases hp : c.pidfd <;> simp [mu, g3, wtRank, Cfg.lastPc, hp]
  | cRead k =>
    obtain ⟨g1, g2, lim, blk, dst, r, hs, g3, g4, g5, g6, rfl⟩ := stepCRead_some (c := c) h
    cases dst <;> simp [mu, hs, g2, wScript_cons, wAct, List.length_drop, List.length_take] <;> omega
  | cEof =>
    obtain ⟨-, -, -, -, lim, blk, dst, r, hs, -, rfl⟩ := stepCEof_some (c := c) h
    simp [mu, hs, wScript_cons, wAct]
  | cWrite k =>
    obtain ⟨-, g2, g3, hh⟩ := stepCWrite_some h
    rcases hh with ⟨-, -, rfl⟩ | ⟨-, -, rfl⟩ <;> simp [mu, List.length_drop, List.length_take] <;> omega
  | cStep =>
    obtain ⟨g1, g2, hc⟩ := stepCStep_some (c := c) h
    cases hc with
    | fallOff hs h => subst h; simp [mu, g1, b2n]
    | copyDone blk dst r hs h => subst h; simp [mu, hs, wScript_cons, wAct]
    | emitNull bs r hs h => subst h; simp [mu, hs, wScript_cons, wAct]; omega
    | emit d bs r hs hd h => subst h; simp [mu, hs, g2, wScript_cons, wAct]; omega
    | nop r hs h => subst h; simp [mu, hs, wScript_cons, wAct]
    | exit code r hs h => subst h; simp [mu, hs, g1, wScript_cons, wAct, b2n, wScript]; omega
    | kill sg r hs h => subst h; simp [mu, hs, g1, wScript_cons, wAct, b2n, wScript]; omega


theorem run_nil (c : Cfg) (s : St) : run c s [] = some s := rfl

theorem run_cons (c : Cfg) (s : St) (e : Ev) (es : List Ev) :
    run c s (e :: es) = (match step c s e with | some s' => run c s' es | none => none) := rfl

theorem run_append {c : Cfg} {s s1 : St} {es1 es2 : List Ev} (h : run c s es1 = some s1) :
    run c s (es1 ++ es2) = run c s1 es2 := by
  induction es1 generalizing s with
  | nil => simp [run] at h; subst h; rfl
  | cons e es ih =>
    simp only [List.cons_append, run_cons] at h ⊢
    cases hs : step c s e with
    | none => simp [hs] at h
    | some s2 => simp only [hs] at h ⊢; exact ih h

/-- a run of `n` steps lowers the measure by at least `n` -/
theorem run_mu {c : Cfg} {s s' : St} {es : List Ev} (h : run c s es = some s') :
    mu s' + es.length ≤ mu s := by
  induction es generalizing s with
  | nil => simp [run] at h; subst h; simp
  | cons e es ih =>
    simp only [run_cons] at h
    cases hs : step c s e with
    | none => simp [hs] at h
    | some s2 =>
      simp only [hs] at h
      have := ih h
      have := mu_decrease hs
      simp only [List.length_cons]; omega

end Compio.ChildIo
