/-
Case-analysis tactics for the steps of the wake-up model and list lemmas for the hot queue.
-/
import Compio.Lemmas.Wake

namespace Compio.Wake
open Compio.TaskWord Compio.Gen

macro "rt_step" h:ident : tactic => `(tactic| (
  unfold rtStep at $h:ident
  try unfold startLocal at $h:ident
  try unfold drainDone at $h:ident
  try unfold afterTick at $h:ident
  repeat' split at $h:ident
  all_goals (try simp only [Option.some.injEq, reduceCtorEq] at $h:ident)
  all_goals (try subst $h:ident)
  all_goals (try simp only [subPending, dropTask, startPoll, kWrite, overflowPush, doSubmit])))

theorem mem_hotPush {d : Nat → Bool} {hot : List Nat} {t x : Nat} :
    x ∈ hotPush d hot t ↔ x ∈ hot ∨ (x = t ∧ d t = false) := by
  unfold hotPush
  by_cases h1 : d t = true
  · simp [h1]
  · have h1' : d t = false := by simpa using h1
    by_cases h2 : t ∈ hot
    · simp [h1', h2]
      rintro rfl; exact h2
    · simp [h1', h2]

theorem hotLive_push {d : Nat → Bool} {hot : List Nat} (x : Nat) (h : ∀ t, t ∈ hot → d t = false) :
    ∀ t, t ∈ hotPush d hot x → d t = false := by
  intro t ht
  rcases mem_hotPush.1 ht with h1 | ⟨rfl, h1⟩
  · exact h t h1
  · exact h1

theorem nodup_hotPush {d : Nat → Bool} {hot : List Nat} (x : Nat) (h : hot.Nodup) : (hotPush d hot x).Nodup := by
  unfold hotPush
  split
  · exact h
  · rename_i hc
    simp only [Bool.or_eq_true, List.contains_eq_mem, decide_eq_true_eq, not_or] at hc
    exact List.nodup_append.2 ⟨h, by simp, by
      intro a ha b hb; simp at hb; subst hb; intro e; subst e; exact hc.2 ha⟩

theorem hotLive_erase_upd {d : Nat → Bool} {hot : List Nat} (x : Nat) (hn : hot.Nodup)
    (h : ∀ t, t ∈ hot → d t = false) : ∀ t, t ∈ hot.erase x → upd d x true t = false := by
  intro t ht
  rw [hn.mem_erase_iff] at ht
  rw [upd_other _ _ _ _ ht.1]
  exact h t ht.2

theorem hotLive_erase {d : Nat → Bool} {hot : List Nat} (x : Nat) (h : ∀ t, t ∈ hot → d t = false) :
    ∀ t, t ∈ hot.erase x → d t = false :=
  fun t ht => h t (List.mem_of_mem_erase ht)


@[simp] theorem kWrite_wk (s : State) : (kWrite s).wk = s.wk := rfl

macro "w_step" h:ident : tactic => `(tactic| (
  unfold wStep at $h:ident
  try unfold mainDone at $h:ident
  try simp only [kWrite_wk] at $h:ident
  repeat' split at $h:ident
  all_goals (try simp only [Option.some.injEq, reduceCtorEq] at $h:ident)
  all_goals (try subst $h:ident)
  all_goals (try simp only [setWk, subPending, kWrite])))

end Compio.Wake
