/- helper lemmas for C08 (buffer shapes, reference file) -/
import Compio.Model.BufShape
import Compio.Model.FileRef

namespace Compio.BufShape

open Compio.Gen.OpTable (Kind)

/-! ## `storeAt` -/

theorem storeAt_length (mem : Bytes) (off : Nat) (data : Bytes) (h : off + data.length ≤ mem.length) :
    (storeAt mem off data).length = mem.length := by
  simp [storeAt, List.length_append, List.length_take, List.length_drop]
  omega

theorem storeAt_take (mem : Bytes) (off : Nat) (data : Bytes) (h : off ≤ mem.length) :
    (storeAt mem off data).take off = mem.take off := by
  unfold storeAt
  rw [List.append_assoc]
  exact List.take_left' (by simp [List.length_take]; omega)

theorem storeAt_drop (mem : Bytes) (off : Nat) (data : Bytes) (h : off ≤ mem.length) :
    (storeAt mem off data).drop (off + data.length) = mem.drop (off + data.length) := by
  unfold storeAt
  exact List.drop_left' (by simp [List.length_append, List.length_take]; omega)

/-- the window `[off, off+w)` after storing `data` (`data.length ≤ w`) at its start -/
theorem storeAt_window (mem : Bytes) (off w : Nat) (data : Bytes) (h : off + w ≤ mem.length)
    (hd : data.length ≤ w) :
    ((storeAt mem off data).drop off).take w = data ++ ((mem.drop off).take w).drop data.length := by
  unfold storeAt
  rw [List.append_assoc, List.drop_left' (by simp [List.length_take]; omega)]
  rw [List.take_append, List.take_of_length_le hd]
  congr 1
  rw [List.drop_take, List.drop_drop]

theorem storeAt_nil (mem : Bytes) (off : Nat) : storeAt mem off [] = mem := by
  simp [storeAt]

/-! ## single buffers -/

theorem endOrCap_le (b : Buf) : b.endOrCap ≤ b.root.cap := by
  unfold Buf.endOrCap; omega

theorem window_length (b : Buf) : b.window.length = b.bufCap := by
  unfold Buf.window Buf.bufCap
  have := endOrCap_le b
  unfold Root.cap at this
  simp [List.length_take, List.length_drop]
  omega

theorem wf_start_le_endOrCap {b : Buf} (h : b.wf) : b.start ≤ b.endOrCap := by
  obtain ⟨h1, h2, h3⟩ := h
  unfold Buf.endOrCap
  cases hs : b.stop with
  | none => simp; omega
  | some e => have := h3 e hs; simp; omega

theorem offered_writable (b : Buf) : b.offered .writable = (b.start, b.bufCap) := rfl
theorem offered_init (b : Buf) : b.offered .init = (b.start, b.bufLen) := rfl

/-- filling does not move or resize anything -/
theorem osFill_shape (k : Kind) (b : Buf) (data : Bytes) :
    (b.osFill k data).start = b.start ∧ (b.osFill k data).stop = b.stop ∧
    (b.osFill k data).root.len = b.root.len := by
  simp [Buf.osFill]

theorem osFill_cap (b : Buf) (data : Bytes) (h : b.wf) :
    (b.osFill .writable data).root.cap = b.root.cap := by
  have h1 := wf_start_le_endOrCap h
  have h2 := endOrCap_le b
  simp only [Buf.osFill, offered_writable, Root.cap]
  apply storeAt_length
  simp [List.length_take]
  unfold Buf.bufCap Root.cap at *
  omega

theorem osFill_bufCap (b : Buf) (data : Bytes) (h : b.wf) :
    (b.osFill .writable data).bufCap = b.bufCap := by
  have hc := osFill_cap b data h
  obtain ⟨h1, h2, _⟩ := osFill_shape .writable b data
  unfold Buf.bufCap Buf.endOrCap
  rw [h1, h2, hc]

theorem osFill_bufLen (k : Kind) (b : Buf) (data : Bytes) : (b.osFill k data).bufLen = b.bufLen := by
  obtain ⟨h1, h2, h3⟩ := osFill_shape k b data
  unfold Buf.bufLen Buf.endOrLen
  rw [h1, h2, h3]

theorem osFill_wf (b : Buf) (data : Bytes) (h : b.wf) : (b.osFill .writable data).wf := by
  have hc := osFill_cap b data h
  obtain ⟨h1, h2, h3⟩ := osFill_shape .writable b data
  unfold Buf.wf
  rw [h1, h2, h3, hc]
  exact h

/-- bytes: the window after the fill is the data followed by the old window content; positions: what lies
before and after the window is untouched, the allocation keeps its size -/
theorem osFill_window (b : Buf) (data : Bytes) (h : b.wf) :
    (b.osFill .writable data).window
      = data.take b.bufCap ++ b.window.drop (min data.length b.bufCap) := by
  have h1 := wf_start_le_endOrCap h
  have h2 := endOrCap_le b
  have hb := osFill_bufCap b data h
  unfold Buf.window
  rw [hb]
  simp only [Buf.osFill, offered_writable]
  rw [storeAt_window _ _ _ _ (by unfold Buf.bufCap Root.cap at *; omega) (by simp [List.length_take]; omega)]
  simp [List.length_take, Nat.min_comm]

theorem osFill_before (b : Buf) (data : Bytes) (h : b.wf) :
    (b.osFill .writable data).root.mem.take b.start = b.root.mem.take b.start := by
  have h1 := wf_start_le_endOrCap h
  have h2 := endOrCap_le b
  simp only [Buf.osFill, offered_writable]
  apply storeAt_take
  unfold Root.cap at *; omega

theorem osFill_after (b : Buf) (data : Bytes) (h : b.wf) :
    (b.osFill .writable data).root.mem.drop (b.start + b.bufCap)
      = b.root.mem.drop (b.start + b.bufCap) := by
  have h1 := wf_start_le_endOrCap h
  have h2 := endOrCap_le b
  simp only [Buf.osFill, offered_writable]
  have hl : (data.take b.bufCap).length ≤ b.bufCap := by simp [List.length_take]; omega
  have hs : b.start ≤ b.root.mem.length := by unfold Root.cap at *; omega
  have e := storeAt_drop b.root.mem b.start (data.take b.bufCap) hs
  -- drop further to the end of the window
  have : b.start + b.bufCap = (b.start + (data.take b.bufCap).length) + (b.bufCap - (data.take b.bufCap).length) := by
    omega
  rw [this, ← List.drop_drop, e, List.drop_drop]

/-! ### `advance_to` -/

theorem setLen_bufLen {b : Buf} (h : b.wf) {n : Nat} (hn : n ≤ b.bufCap) : (b.setLen n).bufLen = n := by
  have h1 := wf_start_le_endOrCap h
  obtain ⟨hlc, hsl, hse⟩ := h
  unfold Buf.bufLen Buf.endOrLen Buf.setLen
  unfold Buf.bufCap Buf.endOrCap at hn h1
  cases hs : b.stop with
  | none => simp
  | some e =>
    have := hse e hs
    simp [hs] at hn h1 ⊢
    omega

theorem setLen_wf {b : Buf} (h : b.wf) {n : Nat} (hn : n ≤ b.bufCap) : (b.setLen n).wf := by
  have h1 := wf_start_le_endOrCap h
  have h2 := endOrCap_le b
  obtain ⟨hlc, hsl, hse⟩ := h
  refine ⟨?_, ?_, ?_⟩
  · show b.start + n ≤ b.root.cap
    unfold Buf.bufCap at hn; omega
  · show b.start ≤ b.start + n
    omega
  · exact hse

/-- `advance_to` never shrinks and never leaves the capacity -/
theorem advanceTo_len {b : Buf} (h : b.wf) {n : Nat} (hn : n ≤ b.bufCap) :
    (b.advanceTo n).root.len = max b.root.len (b.start + n) := by
  have h1 := wf_start_le_endOrCap h
  obtain ⟨hlc, hsl, hse⟩ := h
  unfold Buf.advanceTo
  unfold Buf.bufLen Buf.endOrLen
  unfold Buf.bufCap Buf.endOrCap at hn h1
  cases hs : b.stop with
  | none =>
    simp [hs] at hn h1 ⊢
    split
    · simp [Buf.setLen]; omega
    · omega
  | some e =>
    have := hse e hs
    simp [hs] at hn h1 ⊢
    split
    · simp [Buf.setLen]; omega
    · omega

theorem advanceTo_wf {b : Buf} (h : b.wf) {n : Nat} (hn : n ≤ b.bufCap) : (b.advanceTo n).wf := by
  unfold Buf.advanceTo
  split
  · exact setLen_wf h hn
  · exact h

theorem advanceTo_mem (b : Buf) (n : Nat) : (b.advanceTo n).root.mem = b.root.mem := by
  unfold Buf.advanceTo
  split <;> simp [Buf.setLen]

theorem advanceTo_shape (b : Buf) (n : Nat) :
    (b.advanceTo n).start = b.start ∧ (b.advanceTo n).stop = b.stop := by
  unfold Buf.advanceTo
  split <;> simp [Buf.setLen]

/-- `buf_len` after `advance_to(n)` is `max(buf_len, n)` -/
theorem advanceTo_bufLen {b : Buf} (h : b.wf) {n : Nat} (hn : n ≤ b.bufCap) :
    (b.advanceTo n).bufLen = max b.bufLen n := by
  unfold Buf.advanceTo
  split
  · rw [setLen_bufLen h hn]; omega
  · omega

theorem visible_eq_window_take {b : Buf} (h : b.wf) : b.visible = b.window.take b.bufLen := by
  have h1 := wf_start_le_endOrCap h
  obtain ⟨hlc, hsl, hse⟩ := h
  unfold Buf.visible Buf.window
  rw [List.take_take]
  congr 1
  unfold Buf.bufLen Buf.bufCap Buf.endOrLen Buf.endOrCap
  cases hs : b.stop <;> simp <;> omega

theorem bufLen_le_bufCap {b : Buf} (h : b.wf) : b.bufLen ≤ b.bufCap := by
  obtain ⟨hlc, hsl, hse⟩ := h
  unfold Buf.bufLen Buf.bufCap Buf.endOrLen Buf.endOrCap
  cases hs : b.stop <;> simp <;> omega

/-! ## vectored buffers -/

theorem windowVec_cons (b : Buf) (bs : List Buf) : windowVec (b :: bs) = b.window ++ windowVec bs := by
  simp [windowVec]

theorem visibleVec_cons (b : Buf) (bs : List Buf) : visibleVec (b :: bs) = b.visible ++ visibleVec bs := by
  simp [visibleVec]

theorem totalCap_cons (b : Buf) (bs : List Buf) : totalCap (b :: bs) = b.bufCap + totalCap bs := by
  simp [totalCap]

theorem totalLen_cons (b : Buf) (bs : List Buf) : totalLen (b :: bs) = b.bufLen + totalLen bs := by
  simp [totalLen]

theorem offeredLen_writable (bs : List Buf) : offeredLen .writable bs = totalCap bs := by
  simp [offeredLen, totalCap, offered_writable]

theorem offeredLen_init (bs : List Buf) : offeredLen .init bs = totalLen bs := by
  simp [offeredLen, totalLen, offered_init]

theorem windowVec_length (bs : List Buf) : (windowVec bs).length = totalCap bs := by
  induction bs with
  | nil => simp [windowVec, totalCap]
  | cons b bs ih => rw [windowVec_cons, totalCap_cons, List.length_append, window_length, ih]

/-- readv, bytes and positions: the concatenated windows after the fill are the data followed by the old
content beyond it -/
theorem osFillVec_window (bs : List Buf) (hw : ∀ b ∈ bs, b.wf) (data : Bytes)
    (hd : data.length ≤ totalCap bs) :
    windowVec (osFillVec .writable bs data) = data ++ (windowVec bs).drop data.length := by
  induction bs generalizing data with
  | nil =>
    simp [totalCap] at hd
    simp [osFillVec, windowVec, hd]
  | cons b bs ih =>
    have hb := hw b (by simp)
    have hrest : ∀ x ∈ bs, x.wf := fun x hx => hw x (by simp [hx])
    rw [totalCap_cons] at hd
    simp only [osFillVec, offered_writable]
    rw [windowVec_cons, windowVec_cons, osFill_window b data hb]
    have hdl : (data.drop b.bufCap).length ≤ totalCap bs := by simp [List.length_drop]; omega
    rw [ih hrest (data.drop b.bufCap) hdl]
    have hwl := window_length b
    by_cases hc : data.length ≤ b.bufCap
    · rw [List.take_of_length_le hc, List.drop_of_length_le hc, Nat.min_eq_left hc,
        List.drop_append_of_le_length (by omega)]
      simp
    · have hc' : b.bufCap ≤ data.length := by omega
      rw [Nat.min_eq_right hc', List.drop_of_length_le (l := b.window) (by omega)]
      rw [List.drop_append, List.drop_of_length_le (l := b.window) (by omega)]
      simp only [List.length_drop, List.append_nil, List.nil_append, hwl]
      rw [← List.append_assoc, List.take_append_drop]

theorem osFillVec_length (k : Kind) (bs : List Buf) (data : Bytes) : (osFillVec k bs data).length = bs.length := by
  induction bs generalizing data with
  | nil => simp [osFillVec]
  | cons b bs ih => simp [osFillVec, ih]

/-- `R` holds between the members of two lists of the same length, position by position -/
def AllPairs (R : Buf → Buf → Prop) : List Buf → List Buf → Prop
  | [], [] => True
  | a :: as, b :: bs => R a b ∧ AllPairs R as bs
  | _, _ => False

/-- positions: every member keeps its window (offset, size), its allocation size and its recorded length;
everything outside the windows is untouched -/
theorem osFillVec_members (bs : List Buf) (hw : ∀ b ∈ bs, b.wf) (data : Bytes) :
    AllPairs (fun b b' : Buf => b'.start = b.start ∧ b'.stop = b.stop ∧ b'.root.len = b.root.len ∧
        b'.root.cap = b.root.cap ∧ b'.wf ∧
        b'.root.mem.take b.start = b.root.mem.take b.start ∧
        b'.root.mem.drop (b.start + b.bufCap) = b.root.mem.drop (b.start + b.bufCap))
      bs (osFillVec .writable bs data) := by
  induction bs generalizing data with
  | nil => simp [osFillVec, AllPairs]
  | cons b bs ih =>
    have hb := hw b (by simp)
    have hrest : ∀ x ∈ bs, x.wf := fun x hx => hw x (by simp [hx])
    simp only [osFillVec, AllPairs]
    refine ⟨?_, ih hrest _⟩
    obtain ⟨h1, h2, h3⟩ := osFill_shape .writable b data
    exact ⟨h1, h2, h3, osFill_cap b data hb, osFill_wf b data hb, osFill_before b data hb, osFill_after b data hb⟩

theorem osFillVec_wf (bs : List Buf) (hw : ∀ b ∈ bs, b.wf) (data : Bytes) :
    ∀ b ∈ osFillVec .writable bs data, b.wf := by
  induction bs generalizing data with
  | nil => simp [osFillVec]
  | cons b bs ih =>
    have hb := hw b (by simp)
    have hrest : ∀ x ∈ bs, x.wf := fun x hx => hw x (by simp [hx])
    intro x hx
    simp only [osFillVec, List.mem_cons] at hx
    rcases hx with rfl | hx
    · exact osFill_wf b data hb
    · exact ih hrest _ x hx

theorem osFillVec_totalCap (bs : List Buf) (hw : ∀ b ∈ bs, b.wf) (data : Bytes) :
    totalCap (osFillVec .writable bs data) = totalCap bs := by
  induction bs generalizing data with
  | nil => simp [osFillVec]
  | cons b bs ih =>
    have hb := hw b (by simp)
    have hrest : ∀ x ∈ bs, x.wf := fun x hx => hw x (by simp [hx])
    simp only [osFillVec, totalCap_cons, ih hrest, osFill_bufCap b data hb]

theorem osFillVec_totalLen (k : Kind) (bs : List Buf) (data : Bytes) :
    totalLen (osFillVec k bs data) = totalLen bs := by
  induction bs generalizing data with
  | nil => simp [osFillVec]
  | cons b bs ih => simp only [osFillVec, totalLen_cons, ih, osFill_bufLen]

theorem osFillVec_fresh (k : Kind) (bs : List Buf) (hf : ∀ b ∈ bs, b.bufLen = 0) (data : Bytes) :
    ∀ b ∈ osFillVec k bs data, b.bufLen = 0 := by
  induction bs generalizing data with
  | nil => simp [osFillVec]
  | cons b bs ih =>
    intro x hx
    simp only [osFillVec, List.mem_cons] at hx
    rcases hx with rfl | hx
    · rw [osFill_bufLen]; exact hf b (by simp)
    · exact ih (fun y hy => hf y (by simp [hy])) _ x hx

/-! ### `default_set_len` / `advance_vec_to` -/

theorem defaultSetLen_zero (bs : List Buf) : defaultSetLen bs 0 = bs := by
  cases bs <;> simp [defaultSetLen]

/-- `set_len` stays within every member's capacity and keeps the members well formed -/
theorem defaultSetLen_wf (bs : List Buf) (hw : ∀ b ∈ bs, b.wf) (n : Nat) :
    ∀ b ∈ defaultSetLen bs n, b.wf := by
  induction bs generalizing n with
  | nil => simp [defaultSetLen]
  | cons b bs ih =>
    have hb := hw b (by simp)
    have hrest : ∀ x ∈ bs, x.wf := fun x hx => hw x (by simp [hx])
    intro x hx
    unfold defaultSetLen at hx
    split at hx
    · exact hw x hx
    · simp only [List.mem_cons] at hx
      rcases hx with rfl | hx
      · exact setLen_wf hb (by omega)
      · exact ih hrest _ x hx

theorem advanceVecTo_wf (bs : List Buf) (hw : ∀ b ∈ bs, b.wf) (n : Nat) :
    ∀ b ∈ advanceVecTo bs n, b.wf := by
  unfold advanceVecTo
  split
  · exact defaultSetLen_wf bs hw n
  · exact hw

theorem visibleVec_fresh (bs : List Buf) (hw : ∀ b ∈ bs, b.wf) (hf : ∀ b ∈ bs, b.bufLen = 0) :
    visibleVec bs = [] := by
  induction bs with
  | nil => simp [visibleVec]
  | cons b bs ih =>
    rw [visibleVec_cons, ih (fun x hx => hw x (by simp [hx])) (fun x hx => hf x (by simp [hx]))]
    simp [Buf.visible, hf b (by simp)]

theorem setLen_window (b : Buf) (n : Nat) : (b.setLen n).window = b.window := by
  simp [Buf.setLen, Buf.window, Buf.bufCap, Buf.endOrCap, Root.cap]

/-- new lengths, fresh members: the recorded content is exactly the first `n` bytes of the windows -/
theorem defaultSetLen_visible (bs : List Buf) (hw : ∀ b ∈ bs, b.wf) (hf : ∀ b ∈ bs, b.bufLen = 0)
    (n : Nat) (hn : n ≤ totalCap bs) :
    visibleVec (defaultSetLen bs n) = (windowVec bs).take n := by
  induction bs generalizing n with
  | nil => simp [defaultSetLen, visibleVec, windowVec]
  | cons b bs ih =>
    have hb := hw b (by simp)
    have hrest : ∀ x ∈ bs, x.wf := fun x hx => hw x (by simp [hx])
    have hfrest : ∀ x ∈ bs, x.bufLen = 0 := fun x hx => hf x (by simp [hx])
    rw [totalCap_cons] at hn
    unfold defaultSetLen
    split
    · next h0 =>
      subst h0
      rw [visibleVec_fresh _ hw hf]; simp
    · next h0 =>
      have hsub : min b.bufCap n ≤ b.bufCap := by omega
      rw [visibleVec_cons, windowVec_cons, ih hrest hfrest _ (by omega)]
      rw [visible_eq_window_take (setLen_wf hb hsub), setLen_bufLen hb hsub, setLen_window]
      have hwl := window_length b
      rw [List.take_append, hwl]
      have e1 : n - min b.bufCap n = n - b.bufCap := by omega
      rw [e1]
      congr 1
      by_cases hc : n ≤ b.bufCap
      · rw [Nat.min_eq_right hc]
      · rw [Nat.min_eq_left (by omega), List.take_of_length_le (by omega), List.take_of_length_le (by omega)]

/-- the members' new total length, fresh members -/
theorem defaultSetLen_totalLen (bs : List Buf) (hw : ∀ b ∈ bs, b.wf) (hf : ∀ b ∈ bs, b.bufLen = 0)
    (n : Nat) (hn : n ≤ totalCap bs) :
    totalLen (defaultSetLen bs n) = n := by
  induction bs generalizing n with
  | nil => simp [totalCap] at hn; simp [defaultSetLen, totalLen, hn]
  | cons b bs ih =>
    have hb := hw b (by simp)
    have hrest : ∀ x ∈ bs, x.wf := fun x hx => hw x (by simp [hx])
    have hfrest : ∀ x ∈ bs, x.bufLen = 0 := fun x hx => hf x (by simp [hx])
    rw [totalCap_cons] at hn
    unfold defaultSetLen
    split
    · next h0 =>
      subst h0
      rw [totalLen_cons, hf b (by simp)]
      have : totalLen bs = 0 := by
        clear ih hn hrest
        induction bs with
        | nil => simp [totalLen]
        | cons c cs ih2 =>
          rw [totalLen_cons, hfrest c (by simp), ih2 (fun x hx => hw x (by
            simp only [List.mem_cons] at hx ⊢; rcases hx with h | h <;> simp [h]))
            (fun x hx => hf x (by simp only [List.mem_cons] at hx ⊢; rcases hx with h | h <;> simp [h]))
            (fun x hx => hfrest x (by simp [hx]))]
      omega
    · next h0 =>
      have hsub : min b.bufCap n ≤ b.bufCap := by omega
      rw [totalLen_cons, setLen_bufLen hb hsub, ih hrest hfrest _ (by omega)]
      omega

theorem advanceTo_window (b : Buf) (n : Nat) : (b.advanceTo n).window = b.window := by
  unfold Buf.advanceTo
  split
  · exact setLen_window b n
  · rfl

theorem advanceTo_cap (b : Buf) (n : Nat) : (b.advanceTo n).root.cap = b.root.cap := by
  unfold Root.cap; rw [advanceTo_mem]

theorem defaultSetLen_windowVec (bs : List Buf) (n : Nat) : windowVec (defaultSetLen bs n) = windowVec bs := by
  induction bs generalizing n with
  | nil => simp [defaultSetLen]
  | cons b bs ih =>
    unfold defaultSetLen
    split
    · rfl
    · rw [windowVec_cons, windowVec_cons, setLen_window, ih]

theorem advanceVecTo_windowVec (bs : List Buf) (n : Nat) : windowVec (advanceVecTo bs n) = windowVec bs := by
  unfold advanceVecTo
  split
  · exact defaultSetLen_windowVec bs n
  · rfl

theorem AllPairs.refl {R : Buf → Buf → Prop} (hR : ∀ b, R b b) (bs : List Buf) : AllPairs R bs bs := by
  induction bs with
  | nil => simp [AllPairs]
  | cons b bs ih => exact ⟨hR b, ih⟩

theorem AllPairs.trans {R S T : Buf → Buf → Prop} (h : ∀ a b c, R a b → S b c → T a c) :
    ∀ {as bs cs : List Buf}, AllPairs R as bs → AllPairs S bs cs → AllPairs T as cs
  | [], [], [], _, _ => by simp [AllPairs]
  | a :: as, b :: bs, c :: cs, h1, h2 => ⟨h a b c h1.1 h2.1, AllPairs.trans h h1.2 h2.2⟩
  | [], [], _ :: _, _, h2 => by simp [AllPairs] at h2
  | [], _ :: _, _, h1, _ => by simp [AllPairs] at h1
  | _ :: _, [], _, h1, _ => by simp [AllPairs] at h1
  | _ :: _, _ :: _, [], _, h2 => by simp [AllPairs] at h2

/-- `set_len` touches nothing but the recorded lengths -/
theorem defaultSetLen_members (bs : List Buf) (n : Nat) :
    AllPairs (fun b b' : Buf => b'.start = b.start ∧ b'.stop = b.stop ∧ b'.root.mem = b.root.mem)
      bs (defaultSetLen bs n) := by
  induction bs generalizing n with
  | nil => simp [defaultSetLen, AllPairs]
  | cons b bs ih =>
    unfold defaultSetLen
    split
    · exact AllPairs.refl (fun b => ⟨rfl, rfl, rfl⟩) _
    · exact ⟨by simp [Buf.setLen], ih _⟩

theorem advanceVecTo_members (bs : List Buf) (n : Nat) :
    AllPairs (fun b b' : Buf => b'.start = b.start ∧ b'.stop = b.stop ∧ b'.root.mem = b.root.mem)
      bs (advanceVecTo bs n) := by
  unfold advanceVecTo
  split
  · exact defaultSetLen_members bs n
  · exact AllPairs.refl (fun b => ⟨rfl, rfl, rfl⟩) _

theorem offeredBytes_init {b : Buf} : b.offeredBytes .init = b.visible := rfl

theorem offeredBytesVec_init (bs : List Buf) : offeredBytesVec .init bs = visibleVec bs := rfl

end Compio.BufShape

namespace Compio.FileRef

open Compio.BufShape

theorem pread_length (f : Bytes) (pos n : Nat) : (pread f pos n).length = min n (f.length - pos) := by
  simp [pread, List.length_take, List.length_drop]

theorem pread_length_le (f : Bytes) (pos n : Nat) : (pread f pos n).length ≤ n := by
  rw [pread_length]; omega

/-- beyond the end of file a read returns nothing -/
theorem pread_beyond (f : Bytes) (pos n : Nat) (h : f.length ≤ pos) : pread f pos n = [] := by
  simp [pread, List.drop_of_length_le h]

theorem pread_zero (f : Bytes) (pos : Nat) : pread f pos 0 = [] := by simp [pread]

theorem zeros_length (n : Nat) : (zeros n).length = n := by simp [zeros]

theorem pwrite_nil (f : Bytes) (pos : Nat) : pwrite f pos [] = f := by simp [pwrite]

theorem pwrite_ne (f : Bytes) (pos : Nat) (d : Bytes) (hd : d ≠ []) :
    pwrite f pos d = f.take pos ++ zeros (pos - f.length) ++ d ++ f.drop (pos + d.length) := by
  have : d.isEmpty = false := by cases d <;> simp_all
  simp [pwrite, this]

theorem pwrite_length (f : Bytes) (pos : Nat) (d : Bytes) (hd : d ≠ []) :
    (pwrite f pos d).length = max f.length (pos + d.length) := by
  have : d.isEmpty = false := by cases d <;> simp_all
  simp [pwrite, this, List.length_append, List.length_take, List.length_drop, zeros_length]
  omega

/-- what was written is read back -/
theorem pread_pwrite (f : Bytes) (pos : Nat) (d : Bytes) : pread (pwrite f pos d) pos d.length = d := by
  by_cases hd : d = []
  · subst hd; simp [pread]
  · rw [pwrite_ne f pos d hd]
    simp only [pread]
    have hl : (f.take pos ++ zeros (pos - f.length)).length = pos := by
      simp [List.length_append, List.length_take, zeros_length]; omega
    rw [List.append_assoc, List.append_assoc, ← List.append_assoc (f.take pos), List.drop_left' hl]
    exact List.take_left' rfl

/-- a write does not change the bytes before it -/
theorem pwrite_before (f : Bytes) (pos : Nat) (d : Bytes) :
    (pwrite f pos d).take (min pos f.length) = f.take (min pos f.length) := by
  by_cases hd : d = []
  · subst hd; simp [pwrite]
  · rw [pwrite_ne f pos d hd]
    rw [List.append_assoc, List.append_assoc, List.take_append_of_le_length (by simp [List.length_take])]
    rw [List.take_take]
    congr 1
    omega

/-- ... nor the bytes after it -/
theorem pwrite_after (f : Bytes) (pos : Nat) (d : Bytes) :
    (pwrite f pos d).drop (pos + d.length) = f.drop (pos + d.length) := by
  by_cases hd : d = []
  · subst hd; simp [pwrite]
  · rw [pwrite_ne f pos d hd]
    apply List.drop_left'
    simp [List.length_append, List.length_take, zeros_length]; omega

/-- a vectored write is the writes of its members back to back (`pwritev` = consecutive `pwrite`s) -/
theorem pwrite_append (f : Bytes) (pos : Nat) (a b : Bytes) :
    pwrite f pos (a ++ b) = pwrite (pwrite f pos a) (pos + a.length) b := by
  by_cases ha : a = []
  · subst ha; simp [pwrite_nil]
  by_cases hb : b = []
  · subst hb; simp [pwrite_nil]
  have hab : a ++ b ≠ [] := by simp [ha]
  rw [pwrite_ne _ _ _ hab, pwrite_ne _ _ b hb, pwrite_ne f pos a ha]
  have hl : (f.take pos ++ zeros (pos - f.length) ++ a).length = pos + a.length := by
    simp [List.length_append, List.length_take, zeros_length]; omega
  rw [List.take_left' hl]
  have hz : pos + a.length - (f.take pos ++ zeros (pos - f.length) ++ a ++ f.drop (pos + a.length)).length = 0 := by
    simp [List.length_append, List.length_take, List.length_drop, zeros_length]; omega
  rw [hz]
  have hd : (f.take pos ++ zeros (pos - f.length) ++ a ++ f.drop (pos + a.length)).drop (pos + a.length + b.length)
      = f.drop (pos + (a ++ b).length) := by
    rw [← List.drop_drop, List.drop_left' hl, List.drop_drop, List.length_append]
    congr 1; omega
  rw [hd]
  simp [zeros, List.append_assoc]

theorem ftruncate_length (f : Bytes) (n : Nat) : (ftruncate f n).length = n := by
  simp [ftruncate, List.length_append, List.length_take, zeros_length]; omega

theorem ftruncate_keeps (f : Bytes) (n : Nat) :
    (ftruncate f n).take (min n f.length) = f.take (min n f.length) := by
  simp only [ftruncate]
  rw [List.take_append_of_le_length (by simp [List.length_take]), List.take_take]
  congr 1; omega

/-- the extension reads as zeros -/
theorem ftruncate_extension (f : Bytes) (n : Nat) : (ftruncate f n).drop f.length = zeros (n - f.length) := by
  simp only [ftruncate]
  by_cases h : n ≤ f.length
  · have : n - f.length = 0 := by omega
    rw [this]
    simp [zeros, List.length_take]; omega
  · rw [List.take_of_length_le (by omega)]
    exact List.drop_left' rfl

end Compio.FileRef
