/-
`ProcessGroup` as a sequential object: `join`, `Membership::drop` and `send` each hold the group mutex for their
whole body, so a concurrent history is linearized by the order of the critical sections. Invariants of the
group state over arbitrary sequences of these operations.
-/
import Compio.Lemmas.Group

namespace Compio.Group
set_option linter.unusedSimpArgs false
set_option linter.unusedVariables false

/-- one critical section -/
inductive GEv where
  | join
  | leave (id : Nat)
  | send (status : Nat → Status)

/-- state after the operation and, for a `send`, its outcome -/
def GState.stepEv (g : GState) : GEv → GState × Option (Outcome Nat)
  | .join => (g.join.1, none)
  | .leave id => (g.leave id, none)
  | .send st => let (o, g') := g.send st; (g', some o)

/-- final state and the outcomes of the sends, in order -/
def GState.runEv (g : GState) : List GEv → GState × List (Outcome Nat)
  | [] => (g, [])
  | e :: es =>
    let (g1, o) := g.stepEv e
    let (g2, os) := g1.runEv es
    (g2, o.toList ++ os)

/-- member ids are pairwise different and all were handed out already -/
structure GInv (g : GState) : Prop where
  nodup : g.members.Nodup
  below : ∀ m ∈ g.members, m < g.nextId

theorem ginv_init : GInv {} := ⟨by simp, by simp⟩

/-- `send` may only drop members -/
theorem send_members_sublist (status : Nat → Status) (c : Nat) (ms : List Nat) :
    (send status c ms).2.1.Sublist ms := by
  by_cases hne : ms = []
  · subst hne; simp [send]
  · have hk := scan_wrap status (ms.drop (c % ms.length)) (ms.take (c % ms.length)) [] false (c % ms.length)
      (by
        intro _
        have : c % ms.length < ms.length := Nat.mod_lt _ (List.length_pos_iff.mpr hne)
        simp; omega)
      (by
        intro h
        have hlt : c % ms.length < ms.length := Nat.mod_lt _ (List.length_pos_iff.mpr hne)
        have := congrArg List.length h
        simp at this; omega)
    have hemp : ms.isEmpty = false := by cases ms <;> simp_all
    have hsplit : ms = ms.take (c % ms.length) ++ [] ++ ms.drop (c % ms.length) := by simp
    have hfuel : ms.length = (ms.drop (c % ms.length)).length + (ms.take (c % ms.length)).length := by
      have : c % ms.length < ms.length := Nat.mod_lt _ (List.length_pos_iff.mpr hne)
      simp; omega
    rw [← hsplit, ← hfuel] at hk
    unfold send select
    simp only [hemp, Bool.false_eq_true, if_false, hk]
    have hev : ∀ seg : List Nat, (evictSeg status seg).Sublist seg := by
      intro seg
      unfold evictSeg met
      conv => rhs; rw [← List.takeWhile_append_dropWhile (p := fun m => !isOk status m) (l := seg)]
      exact List.Sublist.append List.filter_sublist (List.Sublist.refl _)
    have hsub : ∀ X : List Nat, X.Sublist (ms.take (c % ms.length) ++ ms.drop (c % ms.length)) → X.Sublist ms := by
      intro X h; rwa [List.take_append_drop] at h
    split
    · apply hsub; simpa using List.Sublist.append (hev (ms.take (c % ms.length))) (hev (ms.drop (c % ms.length)))
    · apply hsub
      simpa using List.Sublist.append (List.Sublist.refl (ms.take (c % ms.length))) (hev (ms.drop (c % ms.length)))

/-- whoever gets the message is a member at that moment -/
theorem send_delivered_mem (status : Nat → Status) (c : Nat) (ms : List Nat) (m : Nat)
    (h : (send status c ms).1 = .delivered m) : m ∈ ms := by
  by_cases hne : ms = []
  · subst hne; simp [send] at h
  · have hk := scan_wrap status (ms.drop (c % ms.length)) (ms.take (c % ms.length)) [] false (c % ms.length)
      (by
        intro _
        have : c % ms.length < ms.length := Nat.mod_lt _ (List.length_pos_iff.mpr hne)
        simp; omega)
      (by
        intro h
        have hlt : c % ms.length < ms.length := Nat.mod_lt _ (List.length_pos_iff.mpr hne)
        have := congrArg List.length h
        simp at this; omega)
    have hemp : ms.isEmpty = false := by cases ms <;> simp_all
    have hsplit : ms = ms.take (c % ms.length) ++ [] ++ ms.drop (c % ms.length) := by simp
    have hfuel : ms.length = (ms.drop (c % ms.length)).length + (ms.take (c % ms.length)).length := by
      have : c % ms.length < ms.length := Nat.mod_lt _ (List.length_pos_iff.mpr hne)
      simp; omega
    rw [← hsplit, ← hfuel] at hk
    unfold send select at h
    simp only [hemp, Bool.false_eq_true, if_false, hk] at h
    rw [segOutcome_eq, segOutcome_eq] at h
    cases h1 : (ms.drop (c % ms.length)).find? (isOk status) with
    | some x =>
      simp [h1] at h; subst h
      exact List.mem_of_mem_drop (List.mem_of_find?_eq_some h1)
    | none =>
      simp only [h1] at h
      cases h2 : (ms.take (c % ms.length)).find? (isOk status) with
      | some x =>
        simp [h2] at h; subst h
        exact List.mem_of_mem_take (List.mem_of_find?_eq_some h2)
      | none => simp [h2, giveUp] at h; split at h <;> cases h

theorem ginv_step (g : GState) (e : GEv) (hi : GInv g) (hw : g.nextId + 1 < usizeMod) : GInv (g.stepEv e).1 := by
  cases e with
  | join =>
    simp only [GState.stepEv, GState.join]
    constructor
    · simp only []
      rw [List.nodup_append]
      refine ⟨hi.nodup, by simp, ?_⟩
      intro a ha b hb
      simp at hb; subst hb
      have := hi.below a ha
      omega
    · intro m hm
      simp only [List.mem_append, List.mem_singleton] at hm
      show m < (g.nextId + 1) % usizeMod
      rw [Nat.mod_eq_of_lt hw]
      rcases hm with hm | hm
      · have := hi.below m hm; omega
      · omega
  | leave id =>
    simp only [GState.stepEv, GState.leave]
    split
    · exact ⟨List.Nodup.sublist (List.eraseIdx_sublist ..) hi.nodup,
        fun m hm => hi.below m ((List.eraseIdx_sublist ..).subset hm)⟩
    · exact hi
  | send st =>
    simp only [GState.stepEv, GState.send]
    have hs := send_members_sublist st g.cursor g.members
    exact ⟨List.Nodup.sublist hs hi.nodup, fun m hm => hi.below m (hs.subset hm)⟩

/-- a member id that is gone (or not yet handed out … but already passed) never comes back -/
def Departed (id : Nat) (g : GState) : Prop := id ∉ g.members ∧ id < g.nextId

theorem departed_step (id : Nat) (g : GState) (e : GEv) (hd : Departed id g) (hw : g.nextId + 1 < usizeMod) :
    Departed id (g.stepEv e).1 ∧ (g.stepEv e).2 ≠ some (.delivered id) := by
  cases e with
  | join =>
    simp only [GState.stepEv, GState.join, Departed]
    refine ⟨⟨?_, ?_⟩, by simp⟩
    · simp only [List.mem_append, List.mem_singleton, not_or]
      exact ⟨hd.1, by have := hd.2; omega⟩
    · show id < (g.nextId + 1) % usizeMod
      rw [Nat.mod_eq_of_lt hw]; have := hd.2; omega
  | leave x =>
    simp only [GState.stepEv, GState.leave, Departed]
    refine ⟨?_, by simp⟩
    split
    · exact ⟨fun h => hd.1 ((List.eraseIdx_sublist ..).subset h), hd.2⟩
    · exact hd
  | send st =>
    simp only [GState.stepEv, GState.send, Departed]
    refine ⟨⟨fun h => hd.1 ((send_members_sublist st g.cursor g.members).subset h), hd.2⟩, ?_⟩
    intro h
    simp only [Option.some.injEq] at h
    exact hd.1 (send_delivered_mem st g.cursor g.members id h)

theorem leave_departs (g : GState) (id : Nat) (hi : GInv g) (hid : id < g.nextId) : Departed id (g.leave id) := by
  refine ⟨?_, ?_⟩
  · unfold GState.leave
    cases hf : g.members.findIdx? (· == id) with
    | none =>
      simp only []
      intro hm
      rw [List.findIdx?_eq_none_iff] at hf
      have := hf id hm
      simp at this
    | some i =>
      simp only []
      have hfi := List.findIdx?_eq_some_iff_getElem.mp hf
      obtain ⟨hlt, hget, _⟩ := hfi
      have hgi : g.members[i] = id := by simpa using hget
      intro hm
      -- `id` occurs once (Nodup), at index `i`, which was erased
      have hnd := hi.nodup
      rw [← List.take_append_drop i g.members] at hnd
      have herase : g.members.eraseIdx i = g.members.take i ++ g.members.drop (i + 1) := List.eraseIdx_eq_take_drop_succ ..
      rw [herase] at hm
      have hdrop : g.members.drop i = id :: g.members.drop (i + 1) := by
        rw [List.drop_eq_getElem_cons hlt, hgi]
      rw [hdrop] at hnd
      rw [List.nodup_append] at hnd
      obtain ⟨_, hn2, hdisj⟩ := hnd
      rcases List.mem_append.mp hm with h | h
      · exact hdisj id h id (by simp) rfl
      · exact (List.nodup_cons.mp hn2).1 h
  · unfold GState.leave
    split <;> exact hid

end Compio.Group

namespace Compio.Group
set_option linter.unusedSimpArgs false
set_option linter.unusedVariables false

theorem stepEv_nextId (g : GState) (e : GEv) (hw : g.nextId + 1 < usizeMod) :
    g.nextId ≤ (g.stepEv e).1.nextId ∧ (g.stepEv e).1.nextId ≤ g.nextId + 1 := by
  cases e with
  | join =>
    show g.nextId ≤ (g.nextId + 1) % usizeMod ∧ (g.nextId + 1) % usizeMod ≤ g.nextId + 1
    rw [Nat.mod_eq_of_lt hw]; omega
  | leave id =>
    simp only [GState.stepEv, GState.leave]
    split <;> simp
  | send st =>
    simp [GState.stepEv, GState.send]

theorem runEv_inv : ∀ (es : List GEv) (g : GState), GInv g → g.nextId + es.length < usizeMod →
    GInv (g.runEv es).1 ∧ g.nextId ≤ (g.runEv es).1.nextId ∧ (g.runEv es).1.nextId ≤ g.nextId + es.length := by
  intro es
  induction es with
  | nil => intro g hi _; simp [GState.runEv, hi]
  | cons e es ih =>
    intro g hi hw
    simp only [List.length_cons] at hw
    have hw1 : g.nextId + 1 < usizeMod := by omega
    have h1 := ginv_step g e hi hw1
    have hn := stepEv_nextId g e hw1
    have := ih (g.stepEv e).1 h1 (by omega)
    simp only [GState.runEv, List.length_cons]
    exact ⟨this.1, by omega, by omega⟩

theorem runEv_departed : ∀ (es : List GEv) (g : GState) (id : Nat), Departed id g →
    g.nextId + es.length < usizeMod → Outcome.delivered id ∉ (g.runEv es).2 := by
  intro es
  induction es with
  | nil => intro g id _ _; simp [GState.runEv]
  | cons e es ih =>
    intro g id hd hw
    simp only [List.length_cons] at hw
    have hw1 : g.nextId + 1 < usizeMod := by omega
    have hs := departed_step id g e hd hw1
    have hn := stepEv_nextId g e hw1
    have := ih (g.stepEv e).1 id hs.1 (by omega)
    simp only [GState.runEv, List.mem_append, not_or]
    refine ⟨?_, this⟩
    intro hm
    cases ho : (g.stepEv e).2 with
    | none => simp [ho] at hm
    | some o =>
      simp [ho] at hm
      exact hs.2 (by rw [ho, hm])

end Compio.Group
