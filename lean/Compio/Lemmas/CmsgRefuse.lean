/- helper lemmas: the cmsg builder with payload encoders that may refuse (session 3, seed C13-5a) -/
import Compio.Lemmas.CmsgRoundtrip
namespace Compio.Cmsg

abbrev Item := Bool × Msg

def acceptedR : List Item → List PushOutcome → List Msg
  | it :: its, .ok :: rs => it.2 :: acceptedR its rs
  | _ :: its, _ :: rs => acceptedR its rs
  | _, _ => []

/-- the messages whose encoder does not refuse -/
def willing (its : List Item) : List Msg := (its.filter (fun it => !it.1)).map (·.2)

theorem pushR_inv (b : Builder) (acc : List Msg) (rf : Bool) (m : Msg) (hb : BInv b acc) (hm : m.wf) :
    ((b.pushR rf m.1 m.2.1 m.2.2).2 = .ok ∧ rf = false ∧ BInv (b.pushR rf m.1 m.2.1 m.2.2).1 (acc ++ [m])) ∨
    ((b.pushR rf m.1 m.2.1 m.2.2).2 ≠ .ok ∧ (b.pushR rf m.1 m.2.1 m.2.2).1 = b) := by
  unfold Builder.pushR
  rw [hb.off]
  by_cases h1 : (flat acc).length + hdr ≤ b.cap
  · simp only [h1, if_true]
    by_cases h2 : (flat acc).length + space m.2.2.length ≤ b.cap
    · simp only [h2, if_true]
      cases rf with
      | true => right; simp
      | false =>
        left
        have hok := push_ok b acc m hb h2
        rcases push_inv b acc m hb hm with ⟨_, hinv⟩ | ⟨hr, _⟩
        · exact ⟨by simp, rfl, by simpa using hinv⟩
        · rw [hok] at hr; cases hr
    · right; simp [h2]
  · right; simp [h1]

theorem pushR_refused_noop (b : Builder) (l t d : Bytes) : (b.pushR true l t d).1 = b := by
  unfold Builder.pushR
  split
  · rfl
  · split <;> rfl

theorem pushR_outcome_of_space (b : Builder) (acc : List Msg) (rf : Bool) (m : Msg) (hb : BInv b acc)
    (hfit : (flat acc).length + space m.2.2.length ≤ b.cap) :
    (b.pushR rf m.1 m.2.1 m.2.2).2 = if rf then .refused else .ok := by
  unfold Builder.pushR
  rw [hb.off]
  have h1 : (flat acc).length + hdr ≤ b.cap := by unfold space at hfit; omega
  cases rf <;> simp [h1, hfit]

theorem pushAllR_cons (b : Builder) (it : Item) (its : List Item) :
    b.pushAllR (it :: its) =
      (((b.pushR it.1 it.2.1 it.2.2.1 it.2.2.2).1.pushAllR its).1,
        (b.pushR it.1 it.2.1 it.2.2.1 it.2.2.2).2 :: ((b.pushR it.1 it.2.1 it.2.2.1 it.2.2.2).1.pushAllR its).2) := by
  obtain ⟨rf, l, t, d⟩ := it
  simp [Builder.pushAllR]

theorem acceptedR_cons_notok (it : Item) (its : List Item) (r : PushOutcome) (rs : List PushOutcome)
    (h : r ≠ .ok) : acceptedR (it :: its) (r :: rs) = acceptedR its rs := by
  cases r with
  | ok => exact absurd rfl h
  | small => simp [acceptedR]
  | refused => simp [acceptedR]

theorem pushAllR_inv : ∀ (its : List Item) (b : Builder) (acc : List Msg), BInv b acc →
    (∀ it ∈ its, it.2.wf) → BInv (b.pushAllR its).1 (acc ++ acceptedR its (b.pushAllR its).2) := by
  intro its
  induction its with
  | nil => intro b acc hb _; simpa [Builder.pushAllR, acceptedR] using hb
  | cons it its ih =>
    intro b acc hb hwf
    rw [pushAllR_cons]
    rcases pushR_inv b acc it.1 it.2 hb (hwf it (by simp)) with ⟨hr, _, hinv⟩ | ⟨hr, hsame⟩
    · simp only [hr, acceptedR]
      have := ih _ _ hinv (fun x hx => hwf x (by simp [hx]))
      simpa [List.append_assoc] using this
    · simp only [acceptedR_cons_notok it its _ _ hr, hsame]
      exact ih b acc hb (fun x hx => hwf x (by simp [hx]))

theorem acceptedR_subset : ∀ (its : List Item) (rs : List PushOutcome) (m : Msg),
    m ∈ acceptedR its rs → ∃ it ∈ its, it.2 = m := by
  intro its
  induction its with
  | nil => intro rs m h; cases rs <;> simp [acceptedR] at h
  | cons x xs ih =>
    intro rs m h
    cases rs with
    | nil => simp [acceptedR] at h
    | cons r rs =>
      cases r with
      | ok =>
        simp only [acceptedR, List.mem_cons] at h
        rcases h with rfl | h
        · exact ⟨x, by simp, rfl⟩
        · obtain ⟨it, hit, e⟩ := ih rs m h
          exact ⟨it, List.mem_cons_of_mem _ hit, e⟩
      | small =>
        simp only [acceptedR] at h
        obtain ⟨it, hit, e⟩ := ih rs m h
        exact ⟨it, List.mem_cons_of_mem _ hit, e⟩
      | refused =>
        simp only [acceptedR] at h
        obtain ⟨it, hit, e⟩ := ih rs m h
        exact ⟨it, List.mem_cons_of_mem _ hit, e⟩

/-- when the messages whose encoder is willing fit the buffer together, exactly they are accepted:
a refused push does not eat a slot -/
theorem pushAllR_willing : ∀ (its : List Item) (b : Builder) (acc : List Msg), BInv b acc →
    (∀ it ∈ its, it.2.wf) → (flat acc).length + (flat (willing its)).length ≤ b.cap →
    acceptedR its (b.pushAllR its).2 = willing its := by
  intro its
  induction its with
  | nil => intro b acc _ _ _; simp [Builder.pushAllR, acceptedR, willing]
  | cons it its ih =>
    intro b acc hb hwf hfit
    have hm := hwf it (by simp)
    rw [pushAllR_cons]
    obtain ⟨rf, m⟩ := it
    have hl : (encodeMsg m).length = space m.2.2.length := length_encodeMsg m hm
    cases rf with
    | true =>
      have hw : willing ((true, m) :: its) = willing its := by simp [willing]
      rw [hw] at hfit ⊢
      have hnoop := pushR_refused_noop b m.1 m.2.1 m.2.2
      have hr : (b.pushR true m.1 m.2.1 m.2.2).2 ≠ .ok := by
        unfold Builder.pushR; split
        · simp
        · split <;> simp
      rw [acceptedR_cons_notok _ _ _ _ hr]
      simp only [hnoop]
      exact ih b acc hb (fun x hx => hwf x (by simp [hx])) hfit
    | false =>
      have hw : willing ((false, m) :: its) = m :: willing its := by simp [willing]
      have hflat : flat (m :: willing its) = encodeMsg m ++ flat (willing its) := by simp [flat]
      rw [hw, hflat, List.length_append, hl] at hfit
      rw [hw]
      have hok := pushR_outcome_of_space b acc false m hb (by omega)
      simp only [Bool.false_eq_true, if_false] at hok
      rcases pushR_inv b acc false m hb hm with ⟨_, _, hinv⟩ | ⟨hr, _⟩
      · simp only [hok, acceptedR]
        congr 1
        apply ih _ _ hinv (fun x hx => hwf x (by simp [hx]))
        have hcap : (b.pushR false m.1 m.2.1 m.2.2).1.cap = b.cap := by
          unfold Builder.pushR; split
          · rfl
          · split
            · simp [push_cap]
            · rfl
        rw [hcap, flat_snoc, List.length_append, hl]
        omega
      · exact absurd hok hr

end Compio.Cmsg
