/-
Helper lemmas for the key life-cycle model: list plumbing, the closed forms of the reference-count
primitives, and the definition of the global invariant `Inv` (proved step by step in
Lemmas/KeyLifeInv.lean).
-/
import Compio.Model.KeyLife

namespace Compio.KeyLife

open Compio.PollQueues

/-! ### `modAt` -/

@[simp] theorem length_modAt {α : Type} (f : α → α) (l : List α) (i : Nat) : (modAt f l i).length = l.length := by
  induction l generalizing i with
  | nil => simp [modAt]
  | cons x xs ih => cases i <;> simp [modAt, ih]

theorem getElem?_modAt {α : Type} (f : α → α) (l : List α) (i j : Nat) :
    (modAt f l i)[j]? = if i = j then (l[j]?).map f else l[j]? := by
  induction l generalizing i j with
  | nil => simp [modAt]
  | cons x xs ih =>
    cases i with
    | zero => cases j <;> simp [modAt]
    | succ i =>
      cases j with
      | zero => simp [modAt]
      | succ j => simp [modAt, ih]

theorem getElem?_modAt_self {α : Type} (f : α → α) (l : List α) (i : Nat) :
    (modAt f l i)[i]? = (l[i]?).map f := by simp [getElem?_modAt]

theorem getElem?_modAt_ne {α : Type} (f : α → α) (l : List α) {i j : Nat} (h : i ≠ j) :
    (modAt f l i)[j]? = l[j]? := by simp [getElem?_modAt, h]

/-- what an element of a modified list is -/
theorem modAt_cases {α : Type} {f : α → α} {l : List α} {i j : Nat} {y : α}
    (h : (modAt f l i)[j]? = some y) :
    (i = j ∧ ∃ x, l[j]? = some x ∧ y = f x) ∨ (i ≠ j ∧ l[j]? = some y) := by
  rw [getElem?_modAt] at h
  by_cases hij : i = j
  · simp [hij] at h
    obtain ⟨x, hx, rfl⟩ := h
    exact Or.inl ⟨hij, x, by simpa [hij] using hx, rfl⟩
  · simp [hij] at h
    exact Or.inr ⟨hij, h⟩

theorem getElem?_append_one {α : Type} {l : List α} {x y : α} {j : Nat} (h : (l ++ [x])[j]? = some y) :
    l[j]? = some y ∨ (j = l.length ∧ y = x) := by
  by_cases hj : j < l.length
  · left
    rw [List.getElem?_append_left hj] at h
    exact h
  · right
    rw [List.getElem?_append_right (by omega)] at h
    have : j - l.length = 0 := by
      cases hk : j - l.length with
      | zero => rfl
      | succ k => simp [hk] at h
    simp [this] at h
    exact ⟨by omega, h.symm⟩

/-! ### reference counting primitives -/

def b2n (b : Bool) : Nat := if b then 1 else 0

@[simp] theorem b2n_true : b2n true = 1 := rfl
@[simp] theorem b2n_false : b2n false = 0 := rfl

theorem b2n_le_one (b : Bool) : b2n b ≤ 1 := by cases b <;> simp

/-- the closed form of `dropRefs` is the iteration of the single drop -/
theorem dropRefs_zero (o : Op) : o.dropRefs 0 = o := by
  cases o
  simp [Op.dropRefs]
  omega

theorem dropRefs_succ (o : Op) (n : Nat) : o.dropRefs (n + 1) = (o.dropRef).dropRefs n := by
  cases o with
  | mk id kind fd dir rc user inFl chan poolRun weak cancelled result multi kstat kcancel cancelSq pendMore pendFinal
      freed returned uaf finalSeen produced cancelDropped =>
    simp only [Op.dropRef, Op.dropRefs]
    congr 1
    · omega
    · by_cases h1 : rc = 0
      · subst h1; simp
      · by_cases h2 : rc = 1
        · subst h2; simp
        · have a1 : (0 < rc ∧ rc ≤ 1) = False := by simp; omega
          have a2 : (0 < rc ∧ rc ≤ n + 1) = (0 < rc - 1 ∧ rc - 1 ≤ n) := by
            apply propext; constructor <;> intro h <;> omega
          simp only [a1, a2, if_false]
    · by_cases h1 : rc < 1
      · have : rc < n + 1 := by omega
        simp [h1, this]
      · have : (rc < n + 1) = (rc - 1 < n) := by apply propext; constructor <;> intro h <;> omega
        simp [h1, this]

/-- occurrences of the op's key in the queue it waits on -/
def qcount (reg : Reg) (o : Op) : Nat := ((reg o.fd).sel o.dir).count o.id

/-- the number of places that own a key of the op -/
def holders (reg : Reg) (o : Op) : Nat :=
  o.user + b2n o.inFl + o.chan.length + b2n o.poolRun + qcount reg o

/-! ### the invariant -/

/-- the release bookkeeping of one op: no key was used or dropped after the storage was released; the
storage is released (freed or handed back to the caller) exactly when the count is zero, and at most once -/
structure RcOk (o : Op) : Prop where
  no_uaf : o.uaf = false
  rel0 : o.rc = 0 → o.freed + o.returned = 1
  rel1 : 0 < o.rc → o.freed + o.returned = 0

theorem rcok_dropRefs {o : Op} {n : Nat} (h : RcOk o) (hn : n ≤ o.rc) : RcOk (o.dropRefs n) := by
  obtain ⟨h1, h2, h3⟩ := h
  constructor
  · simp [Op.dropRefs, h1]; omega
  · intro h0
    simp only [Op.dropRefs] at h0 ⊢
    by_cases hr : 0 < o.rc
    · have : 0 < o.rc ∧ o.rc ≤ n := ⟨hr, by omega⟩
      simp only [this, and_self, if_true]
      have := h3 hr
      omega
    · have h00 : o.rc = 0 := by omega
      have : ¬(0 < o.rc ∧ o.rc ≤ n) := by omega
      simp only [this, if_false]
      exact h2 h00
  · intro h0
    simp only [Op.dropRefs] at h0 ⊢
    have hr : 0 < o.rc := by omega
    have : ¬(0 < o.rc ∧ o.rc ≤ n) := by omega
    simp only [this, if_false]
    exact h3 hr

theorem rcok_dropRef {o : Op} (h : RcOk o) (hn : 0 < o.rc) : RcOk o.dropRef := rcok_dropRefs h hn

theorem rcok_cloneRef {o : Op} (h : RcOk o) (hn : 0 < o.rc) : RcOk o.cloneRef := by
  obtain ⟨h1, h2, h3⟩ := h
  constructor
  · exact h1
  · intro h0; simp [Op.cloneRef] at h0
  · intro _; exact h3 hn

theorem rcok_takeResult {o : Op} (h : RcOk o) (hn : 0 < o.rc) : RcOk o.takeResult := by
  obtain ⟨h1, h2, h3⟩ := h
  constructor
  · exact h1
  · intro _
    have := h3 hn
    simp only [Op.takeResult]
    omega
  · intro h0; simp [Op.takeResult] at h0

/-- per-operation part; `ring` = the io_uring instance is open -/
structure OpOk (drv : Drv) (ring : Bool) (reg : Reg) (o : Op) : Prop where
  /-- the strong count is the number of holders -/
  rc_eq : o.rc = holders reg o
  rcok : RcOk o
  /-- while the ring is open, an op the kernel still works on keeps its leaked reference -/
  kern : ring = true → (o.kstat = .queued ∨ o.kstat = .inflight) → o.inFl = true
  /-- unseen CQEs belong to ops whose leaked reference is still there -/
  pend : (o.pendMore ≠ [] ∨ o.pendFinal.isSome = true) → o.inFl = true
  /-- the polling driver leaks nothing to the kernel -/
  poll_sep : drv = .poll → o.inFl = false ∧ o.kstat = .none
  /-- the final CQE is posted once, when the kernel is done with the op -/
  fin : o.pendFinal.isSome = true → o.kstat = .done
  /-- no CQEs outlive the ring -/
  closed : ring = false → o.pendMore = [] ∧ o.pendFinal = none

def GoodCfg (c : Cfg) : Prop := c.iourDrop = [.drainCq, .closeRing, .freeInFlight]

structure Inv (c : Cfg) (s : State) : Prop where
  ops : ∀ (i : Nat) (o : Op), s.ops[i]? = some o → OpOk s.drv s.ring s.reg o ∧ o.id = i
  /-- fd queues only hold operations waiting on that descriptor in that direction -/
  qmem : ∀ fd d i, i ∈ (s.reg fd).sel d → ∃ o, s.ops[i]? = some o ∧ o.fd = fd ∧ o.dir = d
  iour_reg : s.drv = .iour → ∀ fd, s.reg fd = FdQ.empty
  alive_ok : s.alive = true → s.ring = true ∧ s.dropPc = none ∧ s.chanOpen = true
  pc_ok : ∀ k, s.dropPc = some k →
    s.alive = false ∧ s.chanOpen = true ∧ k < (dropProg c s.drv).length ∧
    s.ring = !(((dropProg c s.drv).take k).contains .closeRing) ∧
    ((((dropProg c s.drv).take k).contains .freeInFlight) = true → ∀ (i : Nat) (o : Op), s.ops[i]? = some o → o.inFl = false)
  dead_ok : s.alive = false → s.dropPc = none →
    s.chanOpen = false ∧ (∀ fd, s.reg fd = FdQ.empty) ∧ (∀ (i : Nat) (o : Op), s.ops[i]? = some o → o.inFl = false)
  chan_ok : s.chanOpen = false → (∀ (i : Nat) (o : Op), s.ops[i]? = some o → o.poolRun = false) →
    ∀ (i : Nat) (o : Op), s.ops[i]? = some o → o.chan = []

theorem inv_init (c : Cfg) (d : Drv) (cap : Nat) : Inv c (init d cap) := by
  constructor <;> simp [init, Reg.empty, FdQ.empty, FdQ.sel]
  intro d i h
  cases d <;> simp at h

end Compio.KeyLife
