/- helper lemmas for Model/SockMap.lean (C14 result mapping) -/
import Compio.Model.SockMap

namespace Compio.Sock

theorem write_vis_take (b : Buf) (w : Bytes) : (b.write w).mem.take w.length = w := by
  simp [Buf.write]

theorem write_mem_length (b : Buf) (w : Bytes) :
    (b.write w).mem.length = max w.length b.mem.length := by
  simp [Buf.write]; omega

theorem write_mem_drop (b : Buf) (w : Bytes) : (b.write w).mem.drop w.length = b.mem.drop w.length := by
  simp [Buf.write]


/-- well-formed, and fixed arrays are full -/
def Buf.WF' (b : Buf) : Prop := b.WF ∧ (b.kind = .arr → b.len = b.cap ∧ b.mem.length = b.cap)

theorem setLen_ok (b : Buf) (n : Nat) (hn : n ≤ b.cap) (hm : n ≤ b.mem.length) :
    ∃ b', b.setLen n = .ok b' ∧ b'.cap = b.cap ∧ b'.mem = b.mem ∧ b'.kind = b.kind ∧
      b'.len = (if b.kind = .arr then b.len else n) := by
  unfold Buf.setLen
  cases hk : b.kind with
  | vec => simp [hm]
  | arr => simp [hn, hk]
  | pool =>
    have : min n b.cap = n := by omega
    simp [this, hm]

/-- single buffer: after the kernel wrote `w` (at most the capacity) `advance_to(|w|)` records
`max len |w|` and changes nothing else -/
theorem advanceTo_write (b : Buf) (w : Bytes) (hwf : b.WF') (hw : w.length ≤ b.cap) :
    advanceTo (b.write w) w.length = .ok { b.write w with len := max b.len w.length } := by
  obtain ⟨⟨h1, h2⟩, h3⟩ := hwf
  unfold advanceTo
  have hl : (b.write w).len = b.len := rfl
  by_cases hgt : w.length > b.len
  · rw [hl, if_pos hgt]
    have hm : w.length ≤ (b.write w).mem.length := by rw [write_mem_length]; omega
    have hc : w.length ≤ (b.write w).cap := hw
    obtain ⟨b', e, c1, c2, c3, c4⟩ := setLen_ok (b.write w) w.length hc hm
    rw [e]
    have hk : (b.write w).kind = b.kind := rfl
    have hna : b.kind ≠ .arr := by
      intro ha; have := (h3 ha).1; omega
    rw [hk, if_neg hna] at c4
    have : max b.len w.length = w.length := by omega
    rw [this]
    cases b'; simp_all [Buf.write]
  · rw [hl, if_neg hgt]
    have : max b.len w.length = b.len := by omega
    rw [this]
    cases b; rfl

theorem totalLen_scatter (bs : List Buf) (w : Bytes) : totalLen (scatter bs w) = totalLen bs := by
  induction bs generalizing w with
  | nil => rfl
  | cons b r ih => simp [scatter, totalLen, ih, Buf.write]

theorem totalCap_scatter (bs : List Buf) (w : Bytes) : totalCap (scatter bs w) = totalCap bs := by
  induction bs generalizing w with
  | nil => rfl
  | cons b r ih => simp [scatter, totalCap, ih, Buf.write]


/-- what a member shows of the bytes the kernel put into it -/
theorem vis_take_of_write (b b' : Buf) (v : Bytes) (k : Nat) (hv : v.length = k)
    (hmem : b'.mem = (b.write v).mem) (hlen : k ≤ b'.len) :
    b'.vis.take k = v := by
  unfold Buf.vis
  rw [List.take_take, hmem]
  have : min k b'.len = k := by omega
  rw [this]
  simp [Buf.write, ← hv]

theorem setLenVec_nil (n : Nat) : setLenVec [] n = .ok [] := rfl

theorem setLenVec_zero (bs : List Buf) : setLenVec bs 0 = .ok bs := by
  cases bs <;> simp [setLenVec]

theorem setLenVec_cons (b : Buf) (r : List Buf) (n : Nat) (hn : n ≠ 0) (b' : Buf) (r' : List Buf)
    (e1 : b.setLen (min b.cap n) = .ok b') (e2 : setLenVec r (n - min b.cap n) = .ok r') :
    setLenVec (b :: r) n = .ok (b' :: r') := by
  simp [setLenVec, hn, e1, e2, Res.bind]

theorem seen_zero (bs : List Buf) : seen bs 0 = [] := by
  cases bs <;> simp [seen]

theorem seen_cons (b : Buf) (r : List Buf) (n : Nat) (hn : n ≠ 0) :
    seen (b :: r) n = b.vis.take (min b.cap n) ++ seen r (n - min b.cap n) := by
  simp [seen, hn]

/-- `default_set_len` after the kernel scattered `w` over the members: every member that received
bytes shows exactly those bytes; capacities are unchanged -/
theorem setLenVec_scatter (bs : List Buf) (w : Bytes) (hwf : ∀ b ∈ bs, b.WF')
    (hw : w.length ≤ totalCap bs) :
    ∃ bs', setLenVec (scatter bs w) w.length = .ok bs' ∧ seen bs' w.length = w ∧
      bs'.map (·.cap) = bs.map (·.cap) := by
  induction bs generalizing w with
  | nil =>
    have : w = [] := by
      cases w with
      | nil => rfl
      | cons a t => simp [totalCap] at hw
    subst this
    exact ⟨[], rfl, rfl, rfl⟩
  | cons b r ih =>
    by_cases hz : w.length = 0
    · have : w = [] := List.eq_nil_of_length_eq_zero hz
      subst this
      refine ⟨scatter (b :: r) [], ?_, ?_, ?_⟩
      · exact setLenVec_zero _
      · exact seen_zero _
      · have := totalCap_scatter (b :: r) []
        clear this
        induction (b :: r) with
        | nil => rfl
        | cons x xs ihx => simp [scatter, Buf.write, ihx]
    · obtain ⟨⟨h1, h2⟩, h3⟩ := hwf b (by simp)
      have hcap : (b.write (w.take b.cap)).cap = b.cap := rfl
      have htl : (w.take b.cap).length = min b.cap w.length := by simp
      have hs1 : min b.cap w.length ≤ (b.write (w.take b.cap)).cap := by rw [hcap]; omega
      have hs2 : min b.cap w.length ≤ (b.write (w.take b.cap)).mem.length := by
        rw [write_mem_length, htl]; omega
      obtain ⟨b', e1, c1, c2, c3, c4⟩ := setLen_ok (b.write (w.take b.cap)) (min b.cap w.length) hs1 hs2
      have hdl : (w.drop b.cap).length = w.length - min b.cap w.length := by
        simp; omega
      have hw' : (w.drop b.cap).length ≤ totalCap r := by
        simp [totalCap] at hw; simp; omega
      obtain ⟨r', e2, s2, m2⟩ := ih (w.drop b.cap) (fun x hx => hwf x (by simp [hx])) hw'
      rw [hdl] at e2 s2
      refine ⟨b' :: r', ?_, ?_, ?_⟩
      · show setLenVec (b.write (w.take b.cap) :: scatter r (w.drop b.cap)) w.length = _
        apply setLenVec_cons _ _ _ hz b' r'
        · rw [hcap]; exact e1
        · rw [hcap]; exact e2
      · rw [seen_cons _ _ _ hz, c1, hcap, s2]
        have hk : (b.write (w.take b.cap)).kind = b.kind := rfl
        have hlen : min b.cap w.length ≤ b'.len := by
          rw [c4, hk]
          by_cases ha : b.kind = .arr
          · rw [if_pos ha]; have := (h3 ha).1
            show min b.cap w.length ≤ (b.write (w.take b.cap)).len
            have : (b.write (w.take b.cap)).len = b.len := rfl
            omega
          · rw [if_neg ha]; omega
        rw [vis_take_of_write b b' (w.take b.cap) (min b.cap w.length) htl c2 hlen]
        exact List.take_append_drop _ _
      · simp [c1, hcap, m2]

/-- the no-op branch of `advance_vec_to`: members whose recorded length covers what they received -/
theorem seen_scatter_of_covers (bs : List Buf) (w : Bytes) (hc : covers bs w.length = true)
    (hw : w.length ≤ totalCap bs) : seen (scatter bs w) w.length = w := by
  induction bs generalizing w with
  | nil =>
    cases w with
    | nil => rfl
    | cons a t => simp [totalCap] at hw
  | cons b r ih =>
    by_cases hz : w.length = 0
    · have : w = [] := List.eq_nil_of_length_eq_zero hz
      subst this
      exact seen_zero _
    · simp [covers, hz] at hc
      obtain ⟨hc1, hc2⟩ := hc
      have hdl : (w.drop b.cap).length = w.length - min b.cap w.length := by
        simp; omega
      have hw' : (w.drop b.cap).length ≤ totalCap r := by
        simp [totalCap] at hw; simp; omega
      show seen (b.write (w.take b.cap) :: scatter r (w.drop b.cap)) w.length = w
      rw [seen_cons _ _ _ hz]
      have hcap : (b.write (w.take b.cap)).cap = b.cap := rfl
      rw [hcap, ← hdl, ih (w.drop b.cap) (by rw [hdl]; exact hc2) hw']
      have htl : (w.take b.cap).length = min b.cap w.length := by simp
      rw [vis_take_of_write b (b.write (w.take b.cap)) (w.take b.cap) (min b.cap w.length) htl rfl
        (by show min b.cap w.length ≤ b.len; exact hc1)]
      exact List.take_append_drop _ _

end Compio.Sock
