/-
Bounded progress for Model/Dispatcher.lean (property C18): a variant `rank` that every event except new
`dispatch` / `dispatch_blocking` calls strictly decreases, and absence of deadlock once `join` was called.
-/
import Compio.Lemmas.Dispatcher

namespace Compio.Dispatcher

/-! ### the variant -/

/-- events still ahead of a task object: be received, be started, one per suspension, end -/
def tcost (st : TStat) (b : Body) : Nat :=
  match st with
  | .queued => b.steps + 3
  | .spawned _ => b.steps + 2
  | .running _ k => k + 1
  | .pooled => 1
  | _ => 0

/-- the caller can still drop the receiver -/
def ccost : Chan → Nat
  | .pending | .value _ | .cancelled => 1
  | _ => 0

def TView.cost (v : TView) : Nat := tcost v.stat v.body + ccost v.chan

def wcost : Main → Nat
  | .idle | .awaiting _ => 4
  | .dying _ => 3
  | .draining => 2
  | _ => 0

theorem ccost_send_le (c : Chan) (x : Nat) : ccost (c.send x) ≤ ccost c := by
  cases c <;> simp [Chan.send, ccost]
theorem ccost_cancel_le (c : Chan) : ccost c.cancel ≤ ccost c := by
  cases c <;> simp [Chan.cancel, ccost]

/-- every transition of a task object after its acceptance brings it closer to its end -/
theorem TTrans.cost_lt {v v' : TView} (h : TTrans false v v') : v'.cost < v.cost := by
  cases h with
  | recv _ w hq => simp [TView.cost, hq, tcost]
  | start _ w hs => simp [TView.cost, hs, tcost]
  | resume _ w k hs => simp [TView.cost, hs, tcost]
  | finishOk _ w x hs ho =>
    have := ccost_send_le v.chan x
    simp [TView.cost, hs, tcost]; omega
  | finishPanic _ w hs ho =>
    have := ccost_cancel_le v.chan
    simp [TView.cost, hs, tcost]; omega
  | dropQueued _ hq =>
    have := ccost_cancel_le v.chan
    simp [TView.cost, hq, tcost]; omega
  | dropActive _ w ha =>
    have := ccost_cancel_le v.chan
    cases hst : v.stat <;> simp [hst, TStat.activeOn] at ha <;>
      (simp [TView.cost, hst, tcost, TStat.dropIt]; omega)
  | blockingOk _ x hs ho =>
    have := ccost_send_le v.chan x
    simp [TView.cost, hs, tcost]; omega
  | blockingPanic _ hs ho =>
    have := ccost_cancel_le v.chan
    simp [TView.cost, hs, tcost]; omega
  | rxDrop _ h1 h2 =>
    cases hc : v.chan <;> simp [hc] at h1 h2 <;> simp [TView.cost, hc, ccost]

def taskRank (s : St) : Nat := (s.accepted.map fun t => (s.view t).cost).sum
def workerRank (s : St) : Nat := ((List.range s.nw).map fun w => wcost (s.main w)).sum

/-- upper bound on the number of events (other than new dispatch calls) that can still happen -/
def rank (s : St) : Nat :=
  taskRank s + workerRank s + (if s.sender then 1 else 0) + (if s.joined.isNone then 1 else 0) +
    (if s.joiner.isNone then 1 else 0)

theorem sum_map_le {α : Type} (l : List α) (f g : α → Nat) (h : ∀ x, x ∈ l → f x ≤ g x) :
    (l.map f).sum ≤ (l.map g).sum := by
  induction l with
  | nil => simp
  | cons a l ih =>
    simp only [List.map_cons, List.sum_cons]
    have := h a (by simp)
    have := ih (fun x hx => h x (by simp [hx]))
    omega

theorem sum_map_lt {α : Type} (l : List α) (f g : α → Nat) (h : ∀ x, x ∈ l → f x ≤ g x)
    (hs : ∃ x, x ∈ l ∧ f x < g x) : (l.map f).sum < (l.map g).sum := by
  induction l with
  | nil => obtain ⟨x, hx, _⟩ := hs; cases hx
  | cons a l ih =>
    simp only [List.map_cons, List.sum_cons]
    obtain ⟨x, hx, hlt⟩ := hs
    have hle := sum_map_le l f g (fun x hx => h x (by simp [hx]))
    have ha := h a (by simp)
    rcases List.mem_cons.mp hx with rfl | hx'
    · omega
    · have := ih (fun x hx => h x (by simp [hx])) ⟨x, hx', hlt⟩
      omega

/-- how one event lowers the variant: nothing goes up, something goes down -/
theorem rank_lt_of {s s' : St} (hacc : s'.accepted = s.accepted) (hnw : s'.nw = s.nw)
    (htask : ∀ t, (s'.view t).cost ≤ (s.view t).cost)
    (hwork : ∀ w, w < s.nw → wcost (s'.main w) ≤ wcost (s.main w))
    (hsend : s'.sender = true → s.sender = true)
    (hjoin : s'.joined.isNone = true → s.joined.isNone = true)
    (hjr : s'.joiner.isNone = true → s.joiner.isNone = true)
    (strict : (∃ t, t ∈ s.accepted ∧ (s'.view t).cost < (s.view t).cost) ∨
              (∃ w, w < s.nw ∧ wcost (s'.main w) < wcost (s.main w)) ∨
              (s.sender = true ∧ s'.sender = false) ∨
              (s.joined.isNone = true ∧ s'.joined.isNone = false) ∨
              (s.joiner.isNone = true ∧ s'.joiner.isNone = false)) : rank s' < rank s := by
  have ht : taskRank s' ≤ taskRank s := by
    unfold taskRank; rw [hacc]; exact sum_map_le _ _ _ (fun t _ => htask t)
  have hwk : workerRank s' ≤ workerRank s := by
    unfold workerRank; rw [hnw]
    exact sum_map_le _ _ _ (fun w hw => hwork w (List.mem_range.mp hw))
  have hs1 : (if s'.sender then 1 else 0) ≤ (if s.sender then 1 else 0) := by
    cases h1 : s'.sender <;> cases h2 : s.sender <;> simp
    exact absurd (hsend h1) (by simp [h2])
  have hj1 : (if s'.joined.isNone then 1 else 0) ≤ (if s.joined.isNone then 1 else 0) := by
    cases h1 : s'.joined.isNone <;> cases h2 : s.joined.isNone <;> simp
    exact absurd (hjoin h1) (by simp [h2])
  have hn1 : (if s'.joiner.isNone then 1 else 0) ≤ (if s.joiner.isNone then 1 else 0) := by
    cases h1 : s'.joiner.isNone <;> cases h2 : s.joiner.isNone <;> simp
    exact absurd (hjr h1) (by simp [h2])
  unfold rank
  rcases strict with ⟨t, hta, hlt⟩ | ⟨w, hw, hlt⟩ | ⟨h1, h2⟩ | ⟨h1, h2⟩ | ⟨h1, h2⟩
  · have : taskRank s' < taskRank s := by
      unfold taskRank; rw [hacc]
      exact sum_map_lt _ _ _ (fun t _ => htask t) ⟨t, hta, hlt⟩
    omega
  · have : workerRank s' < workerRank s := by
      unfold workerRank; rw [hnw]
      exact sum_map_lt _ _ _ (fun w hw => hwork w (List.mem_range.mp hw)) ⟨w, List.mem_range.mpr hw, hlt⟩
    omega
  · simp only [h1, h2] at hs1 ⊢; simp at *; omega
  · simp only [h1, h2] at hj1 ⊢; simp at *; omega
  · simp only [h1, h2] at hn1 ⊢; simp at *; omega

/-- task costs never go up in an internal event -/
theorem cost_le_of_step {s s' : St} {e : Event} (hq : QInv s) (he : e.external = false)
    (hs : step? s e = some s') (t : Nat) : (s'.view t).cost ≤ (s.view t).cost := by
  rcases step_view hq hs t with h | h
  · rw [h]; exact Nat.le_refl _
  · rw [he] at h; exact Nat.le_of_lt h.cost_lt

/-- ... and go down for a task whose place changes -/
theorem cost_lt_of_step {s s' : St} {e : Event} (hq : QInv s) (he : e.external = false)
    (hs : step? s e = some s') (t : Nat) (hne : s'.view t ≠ s.view t) : (s'.view t).cost < (s.view t).cost := by
  rcases step_view hq hs t with h | h
  · exact (hne h).elim
  · rw [he] at h; exact h.cost_lt

theorem mem_accepted_of_stat {s : St} (h : TInv s) {t : Nat} (hne : s.stat t ≠ .absent) : t ∈ s.accepted := by
  have := ((h.ok t).acc).mpr (by simpa [St.view] using hne)
  simpa [St.view] using this

theorem wcost_upd_le {main : Nat → Main} {w : Nat} {m : Main} (h : wcost m ≤ wcost (main w)) (w' : Nat) :
    wcost (upd main w m w') ≤ wcost (main w') := by
  rw [upd_apply]; split
  · rename_i he; rw [he]; exact h
  · exact Nat.le_refl _

/-- Every event other than a new `dispatch` / `dispatch_blocking` call strictly decreases `rank`: from any
reachable state at most `rank s` such events can follow. -/
theorem rank_decreases {s s' : St} {e : Event} (h : Inv s) (he : e.external = false)
    (hwk : e.isWake = false) (hs : step? s e = some s') : rank s' < rank s := by
  have hq := h.t.q
  have htask := cost_le_of_step hq he hs
  cases e with
  | dispatch d t b => simp [Event.external] at he
  | dispatchBlocking d t b ok => simp [Event.external] at he
  | runBlocking t =>
    have hlt : (s'.view t).cost < (s.view t).cost := by
      apply cost_lt_of_step hq he hs
      obtain ⟨hp, hc | hc⟩ := runBlocking?_some hs
      · obtain ⟨v, _, rfl⟩ := hc; intro heq
        have := congrArg TView.stat heq; simp [St.view, hp] at this
      · obtain ⟨_, rfl⟩ := hc; intro heq
        have := congrArg TView.stat heq; simp [St.view, hp] at this
    obtain ⟨hp, hc | hc⟩ := runBlocking?_some hs
    · obtain ⟨v, _, rfl⟩ := hc
      exact rank_lt_of rfl rfl htask (fun _ _ => Nat.le_refl _) id id id
        (Or.inl ⟨t, mem_accepted_of_stat h.t (by rw [hp]; simp), hlt⟩)
    · obtain ⟨_, rfl⟩ := hc
      exact rank_lt_of rfl rfl htask (fun _ _ => Nat.le_refl _) id id id
        (Or.inl ⟨t, mem_accepted_of_stat h.t (by rw [hp]; simp), hlt⟩)
  | rxDrop t =>
    obtain ⟨h1, h2, rfl⟩ := rxDrop?_some hs
    have hlt := cost_lt_of_step hq he hs t (by
      intro heq
      have := congrArg TView.chan heq; simp [St.view] at this; exact h2 this.symm)
    have hne : s.stat t ≠ .absent := by
      intro ha
      have := (h.t.ok t).chan
      simp [St.view, ha, chanOk] at this
      exact h1 this
    exact rank_lt_of rfl rfl htask (fun _ _ => Nat.le_refl _) id id id
      (Or.inl ⟨t, mem_accepted_of_stat h.t hne, hlt⟩)
  | recv w t =>
    obtain ⟨hlt', hi, hmem, rfl⟩ := recv?_some hs
    have hst := (hq.mem t).mp hmem
    have hlt := cost_lt_of_step hq he hs t (by
      intro heq
      have := congrArg TView.stat heq; simp [St.view, hst] at this)
    refine rank_lt_of rfl rfl htask ?_ id id id (Or.inl ⟨t, mem_accepted_of_stat h.t (by rw [hst]; simp), hlt⟩)
    intro w' _
    show wcost ((if s.conc then s.main else upd s.main w (.awaiting t)) w') ≤ _
    split
    · exact Nat.le_refl _
    · exact wcost_upd_le (by simp [hi, wcost]) w'
  | poll w t =>
    obtain ⟨hlt', hcp, hc | hc | hc | hc⟩ := poll?_some hs
    · obtain ⟨hst, rfl⟩ := hc
      have hlt := cost_lt_of_step hq he hs t (by
        intro heq
        have := congrArg TView.stat heq; simp [St.view, hst] at this)
      exact rank_lt_of rfl rfl htask (fun _ _ => Nat.le_refl _) id id id
        (Or.inl ⟨t, mem_accepted_of_stat h.t (by rw [hst]; simp), hlt⟩)
    · obtain ⟨k, hst, rfl⟩ := hc
      have hlt := cost_lt_of_step hq he hs t (by
        intro heq
        have := congrArg TView.stat heq; simp [St.view, hst] at this)
      exact rank_lt_of rfl rfl htask (fun _ _ => Nat.le_refl _) id id id
        (Or.inl ⟨t, mem_accepted_of_stat h.t (by rw [hst]; simp), hlt⟩)
    · obtain ⟨v, hst, _, rfl⟩ := hc
      have hlt := cost_lt_of_step hq he hs t (by
        intro heq
        have := congrArg TView.stat heq; simp [St.view, hst] at this)
      refine rank_lt_of rfl rfl htask ?_ id id id
        (Or.inl ⟨t, mem_accepted_of_stat h.t (by rw [hst]; simp), hlt⟩)
      intro w' _
      show wcost (resume s.main w (decide (s.main w = .awaiting t)) w') ≤ _
      unfold resume; split
      · rename_i hk
        exact wcost_upd_le (by simp [of_decide_eq_true hk, wcost]) w'
      · exact Nat.le_refl _
    · obtain ⟨hst, _, rfl⟩ := hc
      have hlt := cost_lt_of_step hq he hs t (by
        intro heq
        have := congrArg TView.stat heq; simp [St.view, hst] at this)
      refine rank_lt_of rfl rfl htask ?_ id id id
        (Or.inl ⟨t, mem_accepted_of_stat h.t (by rw [hst]; simp), hlt⟩)
      intro w' _
      show wcost (resume s.main w (decide (s.main w = .awaiting t)) w') ≤ _
      unfold resume; split
      · rename_i hk
        exact wcost_upd_le (by simp [of_decide_eq_true hk, wcost]) w'
      · exact Nat.le_refl _
  | remoteWake t => simp [Event.isWake] at hwk
  | die w p =>
    obtain ⟨hlt', hil, rfl⟩ := die?_some hs
    have hw4 : wcost (s.main w) = 4 := by cases hm : s.main w <;> simp [hm, Main.inLoop, wcost] at hil ⊢
    refine rank_lt_of rfl rfl htask (fun w' _ => wcost_upd_le (by rw [hw4]; simp [wcost]) w') id id id
      (Or.inr (Or.inl ⟨w, hlt', ?_⟩))
    show wcost (upd s.main w (.dying p) w) < _
    rw [upd_same, hw4]; simp [wcost]
  | reap w =>
    obtain ⟨p, hlt', hdy, rfl⟩ := reap?_some hs
    refine rank_lt_of (by simp) (by simp) htask ?_ (by simp) (by simp) (by simp) (Or.inr (Or.inl ⟨w, hlt', ?_⟩))
    · intro w' _
      simp only [gc_main, clearExec_main]
      exact wcost_upd_le (by simp [hdy, wcost]) w'
    · simp [hdy, wcost]
  | joinStart =>
    obtain ⟨hsend, rfl⟩ := joinStart?_some hs
    exact rank_lt_of (by simp) (by simp) htask (fun _ _ => by simp) (by simp) (by simp) (by simp)
      (Or.inr (Or.inr (Or.inl ⟨hsend, by simp⟩)))
  | joinPool =>
    obtain ⟨_, hn, rfl⟩ := joinHand?_some hs
    exact rank_lt_of rfl rfl htask (fun _ _ => Nat.le_refl _) id id (by simp)
      (Or.inr (Or.inr (Or.inr (Or.inr ⟨by simp [hn], by simp⟩))))
  | joinFallbackThread =>
    obtain ⟨_, hn, rfl⟩ := joinHand?_some hs
    exact rank_lt_of rfl rfl htask (fun _ _ => Nat.le_refl _) id id (by simp)
      (Or.inr (Or.inr (Or.inr (Or.inr ⟨by simp [hn], by simp⟩))))
  | exitLoop w =>
    obtain ⟨hlt', hi, _, _, rfl⟩ := exitLoop?_some hs
    refine rank_lt_of rfl rfl htask (fun w' _ => wcost_upd_le (by simp [hi, wcost]) w') id id id
      (Or.inr (Or.inl ⟨w, hlt', ?_⟩))
    show wcost (upd s.main w .draining w) < _
    simp [hi, wcost]
  | teardown w =>
    obtain ⟨hlt', hdr, rfl⟩ := teardown?_some hs
    refine rank_lt_of rfl rfl htask ?_ id id id (Or.inr (Or.inl ⟨w, hlt', ?_⟩))
    · intro w' _
      simp only [clearExec_main]
      exact wcost_upd_le (by simp [hdr, wcost]) w'
    · simp [hdr, wcost]
  | joinReturn =>
    obtain ⟨_, hj, _, rfl⟩ := joinReturn?_some hs
    exact rank_lt_of rfl rfl htask (fun _ _ => Nat.le_refl _) id (by simp) id
      (Or.inr (Or.inr (Or.inr (Or.inl ⟨by simp [hj], by simp⟩))))

/-- a wake-up leaves the variant alone -/
theorem rank_wake {s s' : St} {t : Nat} (hs : step? s (.remoteWake t) = some s') : rank s' = rank s := by
  obtain ⟨_, rfl⟩ := remoteWake?_some hs
  rfl

/-- the events of a schedule that do work (everything but wake-ups) -/
def workEvents (evs : List Event) : List Event := evs.filter fun e => !e.isWake

/-- a schedule without new dispatch calls does at most `rank s` events of work, however many wake-ups are
interspersed -/
theorem internal_run_bounded {s s' : St} {evs : List Event} (h : Inv s)
    (hint : ∀ e, e ∈ evs → e.external = false) (hr : run? s evs = some s') :
    (workEvents evs).length + rank s' ≤ rank s := by
  induction evs generalizing s with
  | nil => simp [run?] at hr; subst hr; simp [workEvents]
  | cons e es ih =>
    obtain ⟨s1, h1, h2⟩ := run?_cons hr
    have := ih (h.step h1) (fun e' he' => hint e' (by simp [he'])) h2
    cases hwk : e.isWake with
    | true =>
      have hr : rank s1 = rank s := by
        cases e <;> simp [Event.isWake] at hwk
        exact rank_wake h1
      simp only [workEvents, List.filter_cons, hwk] at this ⊢
      simp at this ⊢; omega
    | false =>
      have hd := rank_decreases h (hint e (by simp)) hwk h1
      simp only [workEvents, List.filter_cons, hwk] at this ⊢
      simp at this ⊢; omega

/-! ### no deadlock once `join` was called -/

theorem exists_not_gone {s : St} (h : allGone s = false) : ∃ w, w < s.nw ∧ (s.main w).gone = false := by
  unfold allGone at h
  rw [List.all_eq_false] at h
  obtain ⟨w, hw, hg⟩ := h
  exact ⟨w, List.mem_range.mp hw, by simpa using hg⟩

/-- After `join` was called (`sender = false`) and until it returns, some event is enabled -- provided that in
sequential mode no task body hangs forever (then `join` really waits forever: it awaits the task). -/
theorem join_never_stuck {s : St} (h : Inv s) (hsend : s.sender = false) (hj : s.joined = none)
    (hterm : s.conc = false → ∀ t, (s.body t).out ≠ .never) :
    ∃ e, e.external = false ∧ (step? s e).isSome = true := by
  cases hjr : s.joiner with
  | none => exact ⟨.joinFallbackThread, rfl, by simp [step?, joinHand?, hsend, hjr]⟩
  | some onPool =>
  cases hall : allGone s with
  | true => exact ⟨.joinReturn, rfl, by simp [step?, joinReturn?, hsend, hj, hall, hjr]⟩
  | false =>
    obtain ⟨w, hw, hg⟩ := exists_not_gone hall
    cases hm : s.main w with
    | idle =>
      cases hqe : s.queue with
      | nil => exact ⟨.exitLoop w, rfl, by simp [step?, exitLoop?, hw, hm, hsend, hqe]⟩
      | cons t q => exact ⟨.recv w t, rfl, by simp [step?, recv?, hw, hm, hqe]⟩
    | awaiting t =>
      obtain ⟨hc, ha⟩ := h.w.awaiting w t hm
      refine ⟨.poll w t, rfl, ?_⟩
      cases hst : s.stat t <;> simp [St.active, hst, TStat.activeOn] at ha
      · subst ha; simp [step?, poll?, hw, hm, Main.canPoll, hst]
      · subst ha
        rename_i k
        cases k with
        | succ k => simp [step?, poll?, hw, hm, Main.canPoll, hst]
        | zero =>
          have := hterm hc t
          cases ho : (s.body t).out <;> simp [ho] at this <;>
            simp [step?, poll?, hw, hm, Main.canPoll, hst, ho]
    | draining => exact ⟨.teardown w, rfl, by simp [step?, teardown?, hw, hm]⟩
    | exited => simp [hm, Main.gone] at hg
    | dying p => exact ⟨.reap w, rfl, by simp [step?, reap?, hw, hm]⟩
    | dead p => simp [hm, Main.gone] at hg

end Compio.Dispatcher
