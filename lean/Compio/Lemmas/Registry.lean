/-
Invariant of the registry transition system of Model/Registry.lean: the map is exactly the image of the
live registration tokens, and live tokens have pairwise different names and owners.
-/
import Compio.Model.Registry

namespace Compio.Registry
set_option linter.unusedSimpArgs false
set_option linter.unusedVariables false

/-- the map entry a live token stands for -/
def entryOf (t : Token) : Name × Option Nat := (t.name, if t.active then some t.owner else none)

structure Inv (s : RSt) : Prop where
  image : s.map = s.live.map entryOf
  names : (s.live.map (·.name)).Nodup
  owners : (s.live.map (·.owner)).Nodup
  sane : s.panicked = false

theorem inv_init : Inv {} := by
  constructor <;> simp

theorem inj_of_nodup_map {α β : Type} (f : α → β) : ∀ (l : List α), (l.map f).Nodup →
    ∀ x ∈ l, ∀ y ∈ l, f x = f y → x = y := by
  intro l
  induction l with
  | nil => intro _ x hx; simp at hx
  | cons a l ih =>
    intro hn x hx y hy hxy
    simp only [List.map_cons, List.nodup_cons, List.mem_map, not_exists, not_and] at hn
    simp only [List.mem_cons] at hx hy
    rcases hx with rfl | hx <;> rcases hy with rfl | hy
    · rfl
    · exact absurd hxy.symm (hn.1 y hy)
    · exact absurd hxy (hn.1 x hx)
    · exact ih hn.2 x hx y hy hxy

theorem has_image (live : List Token) (n : Name) :
    Map.has (live.map entryOf) n = live.any (fun t => t.name == n) := by
  simp [Map.has, entryOf, List.any_map, Function.comp_def]

theorem tokenOf_mem (s : RSt) (a : Nat) (t : Token) (h : s.tokenOf a = some t) : t ∈ s.live ∧ t.owner = a := by
  unfold RSt.tokenOf at h
  have := List.find?_some h
  exact ⟨List.mem_of_find?_eq_some h, by simpa using this⟩

theorem tokenOf_none (s : RSt) (a : Nat) (h : s.tokenOf a = none) : a ∉ s.live.map (·.owner) := by
  unfold RSt.tokenOf at h
  simp only [List.find?_eq_none] at h
  intro hm
  simp only [List.mem_map] at hm
  obtain ⟨t, ht, hta⟩ := hm
  have := h t ht
  simp [hta] at this

/-- among live tokens, same name ⇔ same owner ⇔ same token -/
theorem same_name_iff (s : RSt) (hi : Inv s) (t : Token) (ht : t ∈ s.live) (u : Token) (hu : u ∈ s.live) :
    (u.name == t.name) = (u.owner == t.owner) := by
  by_cases h1 : u.name = t.name
  · have := inj_of_nodup_map (·.name) s.live hi.names u hu t ht h1
    subst this; simp
  · by_cases h2 : u.owner = t.owner
    · have := inj_of_nodup_map (·.owner) s.live hi.owners u hu t ht h2
      subst this; exact absurd rfl h1
    · have e1 : (u.name == t.name) = false := beq_eq_false_iff_ne.mpr h1
      have e2 : (u.owner == t.owner) = false := beq_eq_false_iff_ne.mpr h2
      rw [e1, e2]

theorem inv_step (s : RSt) (e : REv) (s' : RSt) (hi : Inv s) (h : s.step e = some s') : Inv s' := by
  cases e with
  | reserve a n =>
    simp only [RSt.step] at h
    cases ht : s.tokenOf a with
    | some t => simp [ht] at h
    | none =>
      simp only [ht] at h
      have hown := tokenOf_none s a ht
      cases hr : reserve s.map n with
      | none => simp [hr] at h; subst h; exact hi
      | some m =>
        simp only [hr] at h
        cases h
        unfold reserve at hr
        split at hr
        · cases hr
        · rename_i hhas
          cases hr
          have hn : n ∉ s.live.map (·.name) := by
            rw [hi.image, has_image] at hhas
            simp only [Bool.not_eq_true, List.any_eq_false, beq_iff_eq] at hhas
            intro hm
            simp only [List.mem_map] at hm
            obtain ⟨t, ht, htn⟩ := hm
            exact hhas t ht htn
          constructor
          · simp [hi.image, entryOf]
          · simp only [List.map_append, List.map_cons, List.map_nil]
            rw [List.nodup_append]
            refine ⟨hi.names, by simp, ?_⟩
            intro x hx y hy
            simp at hy; subst hy
            intro hxy; subst hxy; exact hn hx
          · simp only [List.map_append, List.map_cons, List.map_nil]
            rw [List.nodup_append]
            refine ⟨hi.owners, by simp, ?_⟩
            intro x hx y hy
            simp at hy; subst hy
            intro hxy; subst hxy; exact hown hx
          · exact hi.sane
  | activate a =>
    simp only [RSt.step] at h
    cases ht : s.tokenOf a with
    | none => simp [ht] at h
    | some t =>
      simp only [ht] at h
      obtain ⟨htm, hta⟩ := tokenOf_mem s a t ht
      have hhas : Map.has s.map t.name = true := by
        rw [hi.image, has_image]
        simp only [List.any_eq_true, beq_iff_eq]
        exact ⟨t, htm, rfl⟩
      unfold activate at h
      simp only [hhas, if_true] at h
      cases h
      constructor
      · simp only [hi.image, List.map_map]
        apply List.map_congr_left
        intro u hu
        have := same_name_iff s hi t htm u hu
        simp only [Function.comp, entryOf]
        rw [hta] at this
        by_cases hc : u.owner = a
        · have hn : (u.name == t.name) = true := by rw [this]; simpa using hc
          simp [hn, hc]
        · have hn : (u.name == t.name) = false := by rw [this]; simpa using hc
          simp [hn, hc]
      · have : (s.live.map fun u => if u.owner == a then { u with active := true } else u).map (·.name)
            = s.live.map (·.name) := by
          rw [List.map_map]; apply List.map_congr_left; intro u _; simp only [Function.comp]; split <;> rfl
        simp only [this]; exact hi.names
      · have : (s.live.map fun u => if u.owner == a then { u with active := true } else u).map (·.owner)
            = s.live.map (·.owner) := by
          rw [List.map_map]; apply List.map_congr_left; intro u _; simp only [Function.comp]; split <;> rfl
        simp only [this]; exact hi.owners
      · exact hi.sane
  | drop a =>
    simp only [RSt.step] at h
    cases ht : s.tokenOf a with
    | none => simp [ht] at h
    | some t =>
      simp only [ht] at h
      cases h
      obtain ⟨htm, hta⟩ := tokenOf_mem s a t ht
      constructor
      · simp only [release, hi.image, List.filter_map]
        congr 1
        apply List.filter_congr
        intro u hu
        have := same_name_iff s hi t htm u hu
        simp only [Function.comp, entryOf]
        rw [this, hta]
      · exact List.Nodup.sublist (List.Sublist.map _ List.filter_sublist) hi.names
      · exact List.Nodup.sublist (List.Sublist.map _ List.filter_sublist) hi.owners
      · exact hi.sane

theorem inv_run (s s' : RSt) (es : List REv) (hi : Inv s) (h : s.run es = some s') : Inv s' := by
  induction es generalizing s with
  | nil => simp [RSt.run] at h; subst h; exact hi
  | cons e es ih =>
    simp only [RSt.run] at h
    cases hs : s.step e with
    | none => simp [hs] at h
    | some s1 => simp [hs] at h; exact ih s1 (inv_step s e s1 hi hs) h

/-- `get` on the image of the live tokens -/
theorem get_image (live : List Token) (hn : (live.map (·.name)).Nodup) (n : Name) (a : Nat) :
    get (live.map entryOf) n = some a ↔ ∃ t ∈ live, t.name = n ∧ t.owner = a ∧ t.active = true := by
  induction live with
  | nil => simp [get]
  | cons t l ih =>
    simp only [List.map_cons, List.nodup_cons, List.mem_map, not_exists, not_and] at hn
    by_cases hname : t.name = n
    · have hfind : get (entryOf t :: l.map entryOf) n = (entryOf t).2 := by
        simp [get, entryOf, hname]
      rw [List.map_cons, hfind]
      constructor
      · intro h
        refine ⟨t, by simp, hname, ?_⟩
        simp only [entryOf] at h
        split at h <;> simp_all
      · rintro ⟨u, hu, hun, huo, hua⟩
        simp only [List.mem_cons] at hu
        rcases hu with rfl | hu
        · simp [entryOf, hua, huo]
        · exact absurd (hname.trans hun.symm) (fun h => hn.1 u hu h.symm)
    · have hfind : get (entryOf t :: l.map entryOf) n = get (l.map entryOf) n := by
        simp [get, entryOf, hname]
      rw [List.map_cons, hfind, ih hn.2]
      constructor
      · rintro ⟨u, hu, h⟩; exact ⟨u, by simp [hu], h⟩
      · rintro ⟨u, hu, hun, h⟩
        simp only [List.mem_cons] at hu
        rcases hu with rfl | hu
        · exact absurd hun hname
        · exact ⟨u, hu, hun, h⟩

end Compio.Registry
