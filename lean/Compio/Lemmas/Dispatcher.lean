/-
Helper lemmas for Model/Dispatcher.lean (property C18).

1. effect lemmas: what `e? s .. = some s'` says about the guard and about `s'`;
2. the life cycle of one task object (`TTrans`) and the per-task invariant `TView.Ok`;
3. global invariants of reachable states (`Inv`): queue, accepted list, workers, join.
-/
import Compio.Model.Dispatcher

namespace Compio.Dispatcher

@[simp] theorem upd_same {α : Type} (f : Nat → α) (i : Nat) (x : α) : upd f i x i = x := by simp [upd]
theorem upd_other {α : Type} (f : Nat → α) {i k : Nat} (x : α) (h : k ≠ i) : upd f i x k = f k := by
  simp [upd, h]
theorem upd_apply {α : Type} (f : Nat → α) (i k : Nat) (x : α) :
    upd f i x k = if k = i then x else f k := rfl

/-! ### effect lemmas -/

theorem fresh_iff {s : St} {t : Nat} : fresh s t = true ↔ s.stat t = .absent ∧ t ∉ s.rejected := by
  simp [fresh]

theorem dispatch?_some {s s' : St} {t : Nat} {b : Body} (h : dispatch? s t b = some s') :
    s.sender = true ∧ s.stat t = .absent ∧ t ∉ s.rejected ∧
    ((anyRx s = true ∧ s' = { s with queue := s.queue ++ [t], body := upd s.body t b, stat := upd s.stat t .queued, chan := upd s.chan t .pending, accepted := s.accepted ++ [t] }) ∨
     (anyRx s = false ∧ s' = { s with rejected := s.rejected ++ [t] })) := by
  unfold dispatch? at h
  split at h
  · rename_i hg
    simp only [Bool.and_eq_true, fresh_iff] at hg
    obtain ⟨hs, ha, hr⟩ := hg
    refine ⟨hs, ha, hr, ?_⟩
    split at h
    · rename_i hr; left; exact ⟨hr, (Option.some.inj h).symm⟩
    · rename_i hr; right; exact ⟨by simpa using hr, (Option.some.inj h).symm⟩
  · cases h

theorem dispatchBlocking?_some {s s' : St} {t : Nat} {b : Body} {ok : Bool}
    (h : dispatchBlocking? s t b ok = some s') :
    s.sender = true ∧ s.stat t = .absent ∧ t ∉ s.rejected ∧
    ((ok = true ∧ s' = { s with body := upd s.body t b, stat := upd s.stat t .pooled, chan := upd s.chan t .pending, accepted := s.accepted ++ [t] }) ∨
     (ok = false ∧ s' = { s with rejected := s.rejected ++ [t] })) := by
  unfold dispatchBlocking? at h
  split at h
  · rename_i hg
    simp only [Bool.and_eq_true, fresh_iff] at hg
    obtain ⟨hs, ha, hr⟩ := hg
    refine ⟨hs, ha, hr, ?_⟩
    split at h
    · rename_i hr; left; exact ⟨hr, (Option.some.inj h).symm⟩
    · rename_i hr; right; exact ⟨by simpa using hr, (Option.some.inj h).symm⟩
  · cases h

theorem runBlocking?_some {s s' : St} {t : Nat} (h : runBlocking? s t = some s') :
    s.stat t = .pooled ∧
    ((∃ v, (s.body t).out = .ok v ∧ s' = { s with stat := upd s.stat t .poolDone, chan := upd s.chan t ((s.chan t).send v), started := upd s.started t (s.started t + 1), ended := upd s.ended t (s.ended t + 1), sent := upd s.sent t (s.sent t + 1) }) ∨
     ((s.body t).out = .panic ∧ s' = { s with stat := upd s.stat t .poolDone, chan := upd s.chan t (s.chan t).cancel, started := upd s.started t (s.started t + 1), ended := upd s.ended t (s.ended t + 1) })) := by
  unfold runBlocking? at h
  split at h
  · rename_i hp
    refine ⟨hp, ?_⟩
    split at h
    · rename_i v hv; left; exact ⟨v, hv, (Option.some.inj h).symm⟩
    · rename_i hv; right; exact ⟨hv, (Option.some.inj h).symm⟩
    · cases h
  · cases h

theorem rxDrop?_some {s s' : St} {t : Nat} (h : rxDrop? s t = some s') :
    s.chan t ≠ .none ∧ s.chan t ≠ .closed ∧ s' = { s with chan := upd s.chan t .closed } := by
  unfold rxDrop? at h
  split at h
  · rename_i hg
    simp only [Bool.and_eq_true, decide_eq_true_eq] at hg
    exact ⟨hg.1, hg.2, (Option.some.inj h).symm⟩
  · cases h

theorem recv?_some {s s' : St} {w t : Nat} (h : recv? s w t = some s') :
    w < s.nw ∧ s.main w = .idle ∧ t ∈ s.queue ∧
    s' = { s with queue := s.queue.erase t, stat := upd s.stat t (.spawned w), main := if s.conc then s.main else upd s.main w (.awaiting t) } := by
  unfold recv? at h
  split at h
  · rename_i hg
    simp only [Bool.and_eq_true, decide_eq_true_eq, List.contains_iff_mem] at hg
    exact ⟨hg.1.1, hg.1.2, hg.2, (Option.some.inj h).symm⟩
  · cases h

theorem poll?_some {s s' : St} {w t : Nat} (h : poll? s w t = some s') :
    w < s.nw ∧ (s.main w).canPoll = true ∧
    ((s.stat t = .spawned w ∧ s' = { s with stat := upd s.stat t (.running w (s.body t).steps), started := upd s.started t (s.started t + 1), startedOn := upd s.startedOn t (w :: s.startedOn t), woken := upd s.woken t false }) ∨
     (∃ k, s.stat t = .running w (k + 1) ∧ s' = { s with stat := upd s.stat t (.running w k), woken := upd s.woken t false }) ∨
     (∃ v, s.stat t = .running w 0 ∧ (s.body t).out = .ok v ∧
        s' = { s with stat := upd s.stat t (.done w), chan := upd s.chan t ((s.chan t).send v), main := resume s.main w (decide (s.main w = .awaiting t)), ended := upd s.ended t (s.ended t + 1), sent := upd s.sent t (s.sent t + 1), woken := upd s.woken t false }) ∨
     (s.stat t = .running w 0 ∧ (s.body t).out = .panic ∧
        s' = { s with stat := upd s.stat t (.done w), chan := upd s.chan t (s.chan t).cancel, main := resume s.main w (decide (s.main w = .awaiting t)), ended := upd s.ended t (s.ended t + 1), woken := upd s.woken t false })) := by
  unfold poll? at h
  split at h
  · rename_i hg
    simp only [Bool.and_eq_true, decide_eq_true_eq] at hg
    refine ⟨hg.1, hg.2, ?_⟩
    split at h
    · rename_i w' hst
      split at h
      · rename_i hw; subst hw; left; exact ⟨hst, (Option.some.inj h).symm⟩
      · cases h
    · rename_i w' k hst
      split at h
      · rename_i hw; subst hw; right; left; exact ⟨k, hst, (Option.some.inj h).symm⟩
      · cases h
    · rename_i w' hst
      split at h
      · rename_i hw; subst hw
        split at h
        · rename_i v hv; right; right; left; exact ⟨v, hst, hv, (Option.some.inj h).symm⟩
        · rename_i hv; right; right; right; exact ⟨hst, hv, (Option.some.inj h).symm⟩
        · cases h
      · cases h
    · cases h
  · cases h

theorem remoteWake?_some {s s' : St} {t : Nat} (h : remoteWake? s t = some s') :
    s.stat t ≠ .absent ∧ s' = { s with woken := upd s.woken t true } := by
  unfold remoteWake? at h
  split at h
  · rename_i hg; exact ⟨hg, (Option.some.inj h).symm⟩
  · cases h

theorem die?_some {s s' : St} {w p : Nat} (h : die? s w p = some s') :
    w < s.nw ∧ (s.main w).inLoop = true ∧ s' = { s with main := upd s.main w (.dying p) } := by
  unfold die? at h
  split at h
  · rename_i hg
    simp only [Bool.and_eq_true, decide_eq_true_eq] at hg
    exact ⟨hg.1, hg.2, (Option.some.inj h).symm⟩
  · cases h

theorem reap?_some {s s' : St} {w : Nat} (h : reap? s w = some s') :
    ∃ p, w < s.nw ∧ s.main w = .dying p ∧
      s' = gc (clearExec { s with main := upd s.main w (.dead p) } w) := by
  unfold reap? at h
  split at h
  · rename_i p hp
    split at h
    · rename_i hw; exact ⟨p, hw, hp, (Option.some.inj h).symm⟩
    · cases h
  · cases h

theorem joinStart?_some {s s' : St} (h : joinStart? s = some s') :
    s.sender = true ∧ s' = gc { s with sender := false } := by
  unfold joinStart? at h
  split at h
  · rename_i hs; exact ⟨hs, (Option.some.inj h).symm⟩
  · cases h

theorem exitLoop?_some {s s' : St} {w : Nat} (h : exitLoop? s w = some s') :
    w < s.nw ∧ s.main w = .idle ∧ s.sender = false ∧ s.queue = [] ∧
    s' = { s with main := upd s.main w .draining } := by
  unfold exitLoop? at h
  split at h
  · rename_i hg
    simp only [Bool.and_eq_true, decide_eq_true_eq, Bool.not_eq_true', List.isEmpty_iff] at hg
    exact ⟨hg.1.1.1, hg.1.1.2, hg.1.2, hg.2, (Option.some.inj h).symm⟩
  · cases h

theorem teardown?_some {s s' : St} {w : Nat} (h : teardown? s w = some s') :
    w < s.nw ∧ s.main w = .draining ∧ s' = clearExec { s with main := upd s.main w .exited } w := by
  unfold teardown? at h
  split at h
  · rename_i hg
    simp only [Bool.and_eq_true, decide_eq_true_eq] at hg
    exact ⟨hg.1, hg.2, (Option.some.inj h).symm⟩
  · cases h

theorem joinReturn?_some {s s' : St} (h : joinReturn? s = some s') :
    s.sender = false ∧ s.joined = none ∧ allGone s = true ∧ s' = { s with joined := some (firstDead s) } := by
  unfold joinReturn? at h
  split at h
  · rename_i hg
    simp only [Bool.and_eq_true, Bool.not_eq_true', Option.isNone_iff_eq_none] at hg
    exact ⟨hg.1.1.1, hg.1.2, hg.2, (Option.some.inj h).symm⟩
  · cases h

theorem joinReturn?_joiner {s s' : St} (h : joinReturn? s = some s') : s.joiner.isSome = true := by
  unfold joinReturn? at h
  split at h
  · rename_i hg
    simp only [Bool.and_eq_true] at hg
    exact hg.1.1.2
  · cases h

theorem joinHand?_some {s s' : St} {b : Bool} (h : joinHand? s b = some s') :
    s.sender = false ∧ s.joiner = none ∧ s' = { s with joiner := some b } := by
  unfold joinHand? at h
  split at h
  · rename_i hg
    simp only [Bool.and_eq_true, Bool.not_eq_true', Option.isNone_iff_eq_none] at hg
    exact ⟨hg.1, hg.2, (Option.some.inj h).symm⟩
  · cases h

/-! ### `gc` and `clearExec`, field by field -/

/-- the channel is being freed -/
def freed (s : St) : Bool := !s.sender && !anyRx s

theorem gc_eq (s : St) : gc s = if freed s then { s with queue := [], stat := fun t => if t ∈ s.queue then .dropped none else s.stat t, chan := fun t => if t ∈ s.queue then (s.chan t).cancel else s.chan t } else s := rfl

theorem gc_stat (s : St) (t : Nat) :
    (gc s).stat t = if freed s = true ∧ t ∈ s.queue then .dropped none else s.stat t := by
  rw [gc_eq]; by_cases h : freed s = true <;> simp [h]
theorem gc_chan (s : St) (t : Nat) :
    (gc s).chan t = if freed s = true ∧ t ∈ s.queue then (s.chan t).cancel else s.chan t := by
  rw [gc_eq]; by_cases h : freed s = true <;> simp [h]
theorem gc_queue (s : St) : (gc s).queue = if freed s = true then [] else s.queue := by
  rw [gc_eq]; by_cases h : freed s = true <;> simp [h]
@[simp] theorem gc_main (s : St) : (gc s).main = s.main := by rw [gc_eq]; split <;> rfl
@[simp] theorem gc_body (s : St) : (gc s).body = s.body := by rw [gc_eq]; split <;> rfl
@[simp] theorem gc_nw (s : St) : (gc s).nw = s.nw := by rw [gc_eq]; split <;> rfl
@[simp] theorem gc_conc (s : St) : (gc s).conc = s.conc := by rw [gc_eq]; split <;> rfl
@[simp] theorem gc_sender (s : St) : (gc s).sender = s.sender := by rw [gc_eq]; split <;> rfl
@[simp] theorem gc_joined (s : St) : (gc s).joined = s.joined := by rw [gc_eq]; split <;> rfl
@[simp] theorem gc_woken (s : St) : (gc s).woken = s.woken := by rw [gc_eq]; split <;> rfl
@[simp] theorem gc_joiner (s : St) : (gc s).joiner = s.joiner := by rw [gc_eq]; split <;> rfl
@[simp] theorem gc_accepted (s : St) : (gc s).accepted = s.accepted := by rw [gc_eq]; split <;> rfl
@[simp] theorem gc_rejected (s : St) : (gc s).rejected = s.rejected := by rw [gc_eq]; split <;> rfl
@[simp] theorem gc_started (s : St) : (gc s).started = s.started := by rw [gc_eq]; split <;> rfl
@[simp] theorem gc_startedOn (s : St) : (gc s).startedOn = s.startedOn := by rw [gc_eq]; split <;> rfl
@[simp] theorem gc_ended (s : St) : (gc s).ended = s.ended := by rw [gc_eq]; split <;> rfl
@[simp] theorem gc_sent (s : St) : (gc s).sent = s.sent := by rw [gc_eq]; split <;> rfl

theorem clearExec_stat (s : St) (w t : Nat) :
    (clearExec s w).stat t = if (s.stat t).activeOn w then (s.stat t).dropIt else s.stat t := rfl
theorem clearExec_chan (s : St) (w t : Nat) :
    (clearExec s w).chan t = if (s.stat t).activeOn w then (s.chan t).cancel else s.chan t := rfl
@[simp] theorem clearExec_queue (s : St) (w : Nat) : (clearExec s w).queue = s.queue := rfl
@[simp] theorem clearExec_main (s : St) (w : Nat) : (clearExec s w).main = s.main := rfl
@[simp] theorem clearExec_body (s : St) (w : Nat) : (clearExec s w).body = s.body := rfl
@[simp] theorem clearExec_nw (s : St) (w : Nat) : (clearExec s w).nw = s.nw := rfl
@[simp] theorem clearExec_conc (s : St) (w : Nat) : (clearExec s w).conc = s.conc := rfl
@[simp] theorem clearExec_sender (s : St) (w : Nat) : (clearExec s w).sender = s.sender := rfl
@[simp] theorem clearExec_joined (s : St) (w : Nat) : (clearExec s w).joined = s.joined := rfl
@[simp] theorem clearExec_woken (s : St) (w : Nat) : (clearExec s w).woken = s.woken := rfl
@[simp] theorem clearExec_joiner (s : St) (w : Nat) : (clearExec s w).joiner = s.joiner := rfl
@[simp] theorem clearExec_accepted (s : St) (w : Nat) : (clearExec s w).accepted = s.accepted := rfl
@[simp] theorem clearExec_rejected (s : St) (w : Nat) : (clearExec s w).rejected = s.rejected := rfl
@[simp] theorem clearExec_started (s : St) (w : Nat) : (clearExec s w).started = s.started := rfl
@[simp] theorem clearExec_startedOn (s : St) (w : Nat) : (clearExec s w).startedOn = s.startedOn := rfl
@[simp] theorem clearExec_ended (s : St) (w : Nat) : (clearExec s w).ended = s.ended := rfl
@[simp] theorem clearExec_sent (s : St) (w : Nat) : (clearExec s w).sent = s.sent := rfl

theorem anyRx_iff (s : St) : anyRx s = true ↔ ∃ w, w < s.nw ∧ (s.main w).holdsRx = true := by
  simp [anyRx, List.any_eq_true, List.mem_range]

theorem anyRx_false_iff (s : St) : anyRx s = false ↔ ∀ w, w < s.nw → (s.main w).holdsRx = false := by
  rw [← Bool.not_eq_true, anyRx_iff]; simp

theorem allGone_iff (s : St) : allGone s = true ↔ ∀ w, w < s.nw → (s.main w).gone = true := by
  simp [allGone, List.all_eq_true, List.mem_range]

/-! ### the life cycle of one task object -/

/-- everything the state records about task `t` -/
structure TView where
  stat : TStat
  chan : Chan
  body : Body
  started : Nat
  startedOn : List Nat
  ended : Nat
  sent : Nat
  /-- `t ∈ accepted` -/
  acc : Bool
  /-- `t ∈ rejected` -/
  rej : Bool

def St.view (s : St) (t : Nat) : TView :=
  ⟨s.stat t, s.chan t, s.body t, s.started t, s.startedOn t, s.ended t, s.sent t,
   s.accepted.contains t, s.rejected.contains t⟩

/-- the local transitions of a task object: every event changes the view of every task either not at all
or by one of these.
`TTrans ext v v'`: `ext = true` for the transitions made by a `dispatch` / `dispatch_blocking` call (new
work entering the system), `false` for everything the dispatcher does with it afterwards -/
inductive TTrans : Bool → TView → TView → Prop where
  | accept (v : TView) (b : Body) : v.stat = .absent → v.rej = false →
      TTrans true v { v with stat := .queued, chan := .pending, body := b, acc := true }
  | acceptBlocking (v : TView) (b : Body) : v.stat = .absent → v.rej = false →
      TTrans true v { v with stat := .pooled, chan := .pending, body := b, acc := true }
  | reject (v : TView) : v.stat = .absent → TTrans true v { v with rej := true }
  | recv (v : TView) (w : Nat) : v.stat = .queued → TTrans false v { v with stat := .spawned w }
  | start (v : TView) (w : Nat) : v.stat = .spawned w →
      TTrans false v { v with stat := .running w v.body.steps, started := v.started + 1, startedOn := w :: v.startedOn }
  | resume (v : TView) (w k : Nat) : v.stat = .running w (k + 1) → TTrans false v { v with stat := .running w k }
  | finishOk (v : TView) (w x : Nat) : v.stat = .running w 0 → v.body.out = .ok x →
      TTrans false v { v with stat := .done w, chan := v.chan.send x, ended := v.ended + 1, sent := v.sent + 1 }
  | finishPanic (v : TView) (w : Nat) : v.stat = .running w 0 → v.body.out = .panic →
      TTrans false v { v with stat := .done w, chan := v.chan.cancel, ended := v.ended + 1 }
  | dropQueued (v : TView) : v.stat = .queued → TTrans false v { v with stat := .dropped none, chan := v.chan.cancel }
  | dropActive (v : TView) (w : Nat) : v.stat.activeOn w = true →
      TTrans false v { v with stat := v.stat.dropIt, chan := v.chan.cancel }
  | blockingOk (v : TView) (x : Nat) : v.stat = .pooled → v.body.out = .ok x →
      TTrans false v { v with stat := .poolDone, chan := v.chan.send x, started := v.started + 1, ended := v.ended + 1, sent := v.sent + 1 }
  | blockingPanic (v : TView) : v.stat = .pooled → v.body.out = .panic →
      TTrans false v { v with stat := .poolDone, chan := v.chan.cancel, started := v.started + 1, ended := v.ended + 1 }
  | rxDrop (v : TView) : v.chan ≠ .none → v.chan ≠ .closed → TTrans false v { v with chan := .closed }

/-! ### the queue holds exactly the tasks in state `queued`, each once -/

structure QInv (s : St) : Prop where
  nodup : s.queue.Nodup
  mem : ∀ t, t ∈ s.queue ↔ s.stat t = .queued

theorem QInv.gc {s : St} (h : QInv s) : QInv (gc s) := by
  constructor
  · rw [gc_queue]; split
    · exact List.nodup_nil
    · exact h.nodup
  · intro t
    rw [gc_queue, gc_stat]
    by_cases hf : freed s = true
    · by_cases hq : t ∈ s.queue
      · simp [hf, hq]
      · have : ¬ s.stat t = .queued := fun hs => hq ((h.mem t).mpr hs)
        simp [hf, hq, this]
    · simp [hf, h.mem t]

theorem QInv.clearExec {s : St} (h : QInv s) (w : Nat) : QInv (clearExec s w) := by
  constructor
  · exact h.nodup
  · intro t
    rw [clearExec_queue, clearExec_stat, h.mem t]
    by_cases ha : (s.stat t).activeOn w = true
    · have h1 : s.stat t ≠ .queued := by intro hq; simp [hq, TStat.activeOn] at ha
      have h2 : (s.stat t).dropIt ≠ .queued := by cases s.stat t <;> simp [TStat.dropIt]
      simp [ha, h1, h2]
    · simp [ha]

/-- changing the state of a task that is not queued, to something that is not `queued` -/
theorem QInv.setStat {s : St} (h : QInv s) {t : Nat} {x : TStat} (h1 : s.stat t ≠ .queued) (h2 : x ≠ .queued)
    {s' : St} (hq : s'.queue = s.queue) (hs : s'.stat = upd s.stat t x) : QInv s' := by
  constructor
  · rw [hq]; exact h.nodup
  · intro t'
    rw [hq, hs, h.mem t', upd_apply]
    by_cases ht : t' = t
    · subst ht; simp [h1, h2]
    · simp [ht]

theorem QInv.same {s : St} (h : QInv s) {s' : St} (hq : s'.queue = s.queue) (hs : s'.stat = s.stat) :
    QInv s' := by
  constructor
  · rw [hq]; exact h.nodup
  · intro t; rw [hq, hs]; exact h.mem t

theorem QInv.step {s s' : St} {e : Event} (h : QInv s) (hs : step? s e = some s') : QInv s' := by
  cases e with
  | dispatch d t b =>
    obtain ⟨_, ha, _, hc | hc⟩ := dispatch?_some hs
    · obtain ⟨_, rfl⟩ := hc
      have hnq : t ∉ s.queue := by rw [h.mem t, ha]; simp
      constructor
      · show (s.queue ++ [t]).Nodup
        rw [List.nodup_append]
        refine ⟨h.nodup, by simp, ?_⟩
        intro a ha' b hb; simp at hb; subst hb; intro hab; subst hab; exact hnq ha'
      · intro t'
        show t' ∈ s.queue ++ [t] ↔ upd s.stat t .queued t' = .queued
        rw [upd_apply]
        by_cases ht : t' = t
        · subst ht; simp
        · simp [ht, h.mem t']
    · obtain ⟨_, rfl⟩ := hc; exact h.same rfl rfl
  | dispatchBlocking d t b ok =>
    obtain ⟨_, ha, _, hc | hc⟩ := dispatchBlocking?_some hs
    · obtain ⟨_, rfl⟩ := hc
      exact h.setStat (t := t) (x := .pooled) (by rw [ha]; simp) (by simp) rfl rfl
    · obtain ⟨_, rfl⟩ := hc; exact h.same rfl rfl
  | runBlocking t =>
    obtain ⟨hp, hc | hc⟩ := runBlocking?_some hs
    · obtain ⟨v, _, rfl⟩ := hc
      exact h.setStat (t := t) (x := .poolDone) (by rw [hp]; simp) (by simp) rfl rfl
    · obtain ⟨_, rfl⟩ := hc
      exact h.setStat (t := t) (x := .poolDone) (by rw [hp]; simp) (by simp) rfl rfl
  | rxDrop t =>
    obtain ⟨_, _, rfl⟩ := rxDrop?_some hs; exact h.same rfl rfl
  | recv w t =>
    obtain ⟨_, _, hq, rfl⟩ := recv?_some hs
    constructor
    · exact h.nodup.erase t
    · intro t'
      show t' ∈ s.queue.erase t ↔ upd s.stat t (.spawned w) t' = .queued
      rw [upd_apply]
      by_cases ht : t' = t
      · subst ht; simp [h.nodup.mem_erase_iff]
      · simp [ht, List.mem_erase_of_ne ht, h.mem t']
  | poll w t =>
    obtain ⟨_, _, hc | hc | hc | hc⟩ := poll?_some hs
    · obtain ⟨hst, rfl⟩ := hc
      exact h.setStat (t := t) (by rw [hst]; simp) (by simp) rfl rfl
    · obtain ⟨k, hst, rfl⟩ := hc
      exact h.setStat (t := t) (by rw [hst]; simp) (by simp) rfl rfl
    · obtain ⟨v, hst, _, rfl⟩ := hc
      exact h.setStat (t := t) (by rw [hst]; simp) (by simp) rfl rfl
    · obtain ⟨hst, _, rfl⟩ := hc
      exact h.setStat (t := t) (by rw [hst]; simp) (by simp) rfl rfl
  | remoteWake t => obtain ⟨_, rfl⟩ := remoteWake?_some hs; exact h.same rfl rfl
  | die w p => obtain ⟨_, _, rfl⟩ := die?_some hs; exact h.same rfl rfl
  | reap w =>
    obtain ⟨p, _, _, rfl⟩ := reap?_some hs
    exact ((h.same (s' := { s with main := upd s.main w (.dead p) }) rfl rfl).clearExec w).gc
  | joinStart =>
    obtain ⟨_, rfl⟩ := joinStart?_some hs
    exact (h.same (s' := { s with sender := false }) rfl rfl).gc
  | joinPool => obtain ⟨_, _, rfl⟩ := joinHand?_some hs; exact h.same rfl rfl
  | joinFallbackThread => obtain ⟨_, _, rfl⟩ := joinHand?_some hs; exact h.same rfl rfl
  | exitLoop w => obtain ⟨_, _, _, _, rfl⟩ := exitLoop?_some hs; exact h.same rfl rfl
  | teardown w =>
    obtain ⟨_, _, rfl⟩ := teardown?_some hs
    exact (h.same (s' := { s with main := upd s.main w .exited }) rfl rfl).clearExec w
  | joinReturn => obtain ⟨_, _, _, rfl⟩ := joinReturn?_some hs; exact h.same rfl rfl

theorem QInv.init (nw : Nat) (conc : Bool) : QInv (init nw conc) :=
  ⟨List.nodup_nil, by intro t; simp [Compio.Dispatcher.init]⟩

/-! ### every event moves every task along its life cycle (or leaves it alone) -/

theorem view_gc {s : St} (hq : QInv s) (t : Nat) :
    (gc s).view t = s.view t ∨ TTrans false (s.view t) ((gc s).view t) := by
  by_cases h : freed s = true ∧ t ∈ s.queue
  · right
    have := TTrans.dropQueued (s.view t) ((hq.mem t).mp h.2)
    simpa [St.view, gc_stat, gc_chan, h] using this
  · left; simp [St.view, gc_stat, gc_chan, h]

theorem view_clearExec (s : St) (w t : Nat) :
    (clearExec s w).view t = s.view t ∨ TTrans false (s.view t) ((clearExec s w).view t) := by
  by_cases h : (s.stat t).activeOn w = true
  · right
    have := TTrans.dropActive (s.view t) w h
    simpa [St.view, clearExec_stat, clearExec_chan, h] using this
  · left; simp [St.view, clearExec_stat, clearExec_chan, h]

/-- a task dropped by `clearExec` is not queued afterwards, so `gc` after `clearExec` touches a task at most
once -/
theorem view_gc_clearExec {s : St} (hq : QInv s) (w t : Nat) :
    (gc (clearExec s w)).view t = s.view t ∨ TTrans false (s.view t) ((gc (clearExec s w)).view t) := by
  have hq' := hq.clearExec w
  by_cases h : (s.stat t).activeOn w = true
  · -- dropped by clearExec; not in the queue
    have hnq : t ∉ s.queue := by
      have : t ∉ (clearExec s w).queue := by
        rw [hq'.mem t, clearExec_stat]; simp [h]; cases s.stat t <;> simp [TStat.dropIt]
      simpa using this
    have : (gc (clearExec s w)).view t = (clearExec s w).view t := by
      simp [St.view, gc_stat, gc_chan, hnq]
    rw [this]; exact view_clearExec s w t
  · have : (clearExec s w).view t = s.view t := by
      simp [St.view, clearExec_stat, clearExec_chan, h]
    rw [← this]; exact view_gc hq' t

/-- the event is a call that brings new work -/
def Event.external : Event → Bool
  | .dispatch .. | .dispatchBlocking .. => true
  | _ => false

/-- a wake-up of a task's waker (from any thread): not work, and not bounded in number -/
def Event.isWake : Event → Bool
  | .remoteWake _ => true
  | _ => false

theorem step_view {s s' : St} {e : Event} (hq : QInv s) (h : step? s e = some s') (t' : Nat) :
    s'.view t' = s.view t' ∨ TTrans e.external (s.view t') (s'.view t') := by
  cases e with
  | dispatch d t b =>
    obtain ⟨_, ha, hr, hc | hc⟩ := dispatch?_some h
    · obtain ⟨_, rfl⟩ := hc
      by_cases ht : t' = t
      · subst ht; right
        have := TTrans.accept (s.view t') b ha (by simpa [St.view] using hr)
        simpa [St.view, Event.external] using this
      · left; simp [St.view, upd_other _ _ ht, ht]
    · obtain ⟨_, rfl⟩ := hc
      by_cases ht : t' = t
      · subst ht; right
        have := TTrans.reject (s.view t') ha
        simpa [St.view, Event.external] using this
      · left; simp [St.view, ht]
  | dispatchBlocking d t b ok =>
    obtain ⟨_, ha, hr, hc | hc⟩ := dispatchBlocking?_some h
    · obtain ⟨_, rfl⟩ := hc
      by_cases ht : t' = t
      · subst ht; right
        have := TTrans.acceptBlocking (s.view t') b ha (by simpa [St.view] using hr)
        simpa [St.view, Event.external] using this
      · left; simp [St.view, upd_other _ _ ht, ht]
    · obtain ⟨_, rfl⟩ := hc
      by_cases ht : t' = t
      · subst ht; right
        have := TTrans.reject (s.view t') ha
        simpa [St.view, Event.external] using this
      · left; simp [St.view, ht]
  | runBlocking t =>
    obtain ⟨hp, hc | hc⟩ := runBlocking?_some h
    · obtain ⟨v, hv, rfl⟩ := hc
      by_cases ht : t' = t
      · subst ht; right
        have := TTrans.blockingOk (s.view t') v hp hv
        simpa [St.view, Event.external] using this
      · left; simp [St.view, upd_other _ _ ht]
    · obtain ⟨hv, rfl⟩ := hc
      by_cases ht : t' = t
      · subst ht; right
        have := TTrans.blockingPanic (s.view t') hp hv
        simpa [St.view, Event.external] using this
      · left; simp [St.view, upd_other _ _ ht]
  | rxDrop t =>
    obtain ⟨hn, hn2, rfl⟩ := rxDrop?_some h
    by_cases ht : t' = t
    · subst ht; right
      have := TTrans.rxDrop (s.view t') hn hn2
      simpa [St.view, Event.external] using this
    · left; simp [St.view, upd_other _ _ ht]
  | recv w t =>
    obtain ⟨_, _, hmem, rfl⟩ := recv?_some h
    by_cases ht : t' = t
    · subst ht; right
      have := TTrans.recv (s.view t') w ((hq.mem t').mp hmem)
      simpa [St.view, Event.external] using this
    · left; simp [St.view, upd_other _ _ ht]
  | poll w t =>
    obtain ⟨_, _, hc | hc | hc | hc⟩ := poll?_some h
    · obtain ⟨hst, rfl⟩ := hc
      by_cases ht : t' = t
      · subst ht; right
        have := TTrans.start (s.view t') w hst
        simpa [St.view, Event.external] using this
      · left; simp [St.view, upd_other _ _ ht]
    · obtain ⟨k, hst, rfl⟩ := hc
      by_cases ht : t' = t
      · subst ht; right
        have := TTrans.resume (s.view t') w k hst
        simpa [St.view, Event.external] using this
      · left; simp [St.view, upd_other _ _ ht]
    · obtain ⟨v, hst, hv, rfl⟩ := hc
      by_cases ht : t' = t
      · subst ht; right
        have := TTrans.finishOk (s.view t') w v hst hv
        simpa [St.view, Event.external] using this
      · left; simp [St.view, upd_other _ _ ht]
    · obtain ⟨hst, hv, rfl⟩ := hc
      by_cases ht : t' = t
      · subst ht; right
        have := TTrans.finishPanic (s.view t') w hst hv
        simpa [St.view, Event.external] using this
      · left; simp [St.view, upd_other _ _ ht]
  | remoteWake t => obtain ⟨_, rfl⟩ := remoteWake?_some h; left; rfl
  | die w p => obtain ⟨_, _, rfl⟩ := die?_some h; left; rfl
  | reap w =>
    obtain ⟨p, _, _, rfl⟩ := reap?_some h
    exact view_gc_clearExec (s := { s with main := upd s.main w (.dead p) }) (hq.same rfl rfl) w t'
  | joinStart =>
    obtain ⟨_, rfl⟩ := joinStart?_some h
    exact view_gc (s := { s with sender := false }) (hq.same rfl rfl) t'
  | joinPool => obtain ⟨_, _, rfl⟩ := joinHand?_some h; left; rfl
  | joinFallbackThread => obtain ⟨_, _, rfl⟩ := joinHand?_some h; left; rfl
  | exitLoop w => obtain ⟨_, _, _, _, rfl⟩ := exitLoop?_some h; left; rfl
  | teardown w =>
    obtain ⟨_, _, rfl⟩ := teardown?_some h
    exact view_clearExec { s with main := upd s.main w .exited } w t'
  | joinReturn => obtain ⟨_, _, _, rfl⟩ := joinReturn?_some h; left; rfl

/-! ### the per-task invariant: the ghost counters and the channel are functions of the task's place -/

def startedOf : TStat → Nat
  | .running _ _ | .done _ | .poolDone | .dropped (some _) => 1
  | _ => 0

def startedOnOf : TStat → List Nat
  | .running w _ | .done w | .dropped (some w) => [w]
  | _ => []

def endedOf : TStat → Nat
  | .done _ | .poolDone => 1
  | _ => 0

def TStat.isDone : TStat → Bool
  | .done _ | .poolDone => true
  | _ => false

def sentOf (st : TStat) (b : Body) : Nat :=
  match b.out with
  | .ok _ => if st.isDone then 1 else 0
  | _ => 0

/-- the `oneshot::Sender` still exists (inside the task object) -/
def TStat.holdsSender : TStat → Bool
  | .queued | .spawned _ | .running _ _ | .pooled => true
  | _ => false

/-- what the receiver of a task can see, given where the task object is -/
def chanOk (st : TStat) (b : Body) (c : Chan) : Prop :=
  match st with
  | .absent => c = .none
  | .queued | .spawned _ | .running _ _ | .pooled => c = .pending ∨ c = .closed
  | .done _ | .poolDone =>
    c = .closed ∨ (match b.out with | .ok v => c = .value v | .panic => c = .cancelled | .never => False)
  | .dropped _ => c = .cancelled ∨ c = .closed

structure TView.Ok (v : TView) : Prop where
  started : v.started = startedOf v.stat
  startedOn : v.startedOn = startedOnOf v.stat
  ended : v.ended = endedOf v.stat
  sent : v.sent = sentOf v.stat v.body
  chan : chanOk v.stat v.body v.chan
  acc : v.acc = true ↔ v.stat ≠ .absent
  rej : v.rej = true → v.stat = .absent

theorem TTrans.ok {ext : Bool} {v v' : TView} (h : TTrans ext v v') (hv : v.Ok) : v'.Ok := by
  obtain ⟨h1, h2, h3, h4, h5, h6, h7⟩ := hv
  cases h with
  | accept _ b ha hr =>
    simp only [ha] at h1 h2 h3 h4 h5 h6 h7
    exact ⟨by simpa [startedOf] using h1, by simpa [startedOnOf] using h2, by simpa [endedOf] using h3,
      by simp [sentOf, TStat.isDone] at h4 ⊢; cases hb : b.out <;> simp [hb] <;> (cases ho : v.body.out <;> simp_all),
      by simp [chanOk], by simp_all, by simp_all⟩
  | acceptBlocking _ b ha hr =>
    simp only [ha] at h1 h2 h3 h4 h5 h6 h7
    exact ⟨by simpa [startedOf] using h1, by simpa [startedOnOf] using h2, by simpa [endedOf] using h3,
      by simp [sentOf, TStat.isDone] at h4 ⊢; cases hb : b.out <;> simp [hb] <;> (cases ho : v.body.out <;> simp_all),
      by simp [chanOk], by simp_all, by simp_all⟩
  | reject _ ha =>
    exact ⟨h1, h2, h3, h4, h5, h6, fun _ => ha⟩
  | recv _ w hq =>
    simp only [hq] at h1 h2 h3 h4 h5 h6 h7
    exact ⟨by simpa [startedOf] using h1, by simpa [startedOnOf] using h2, by simpa [endedOf] using h3,
      by simpa [sentOf, TStat.isDone] using h4, by simpa [chanOk] using h5, by simp_all, by simp_all⟩
  | start _ w hs =>
    simp only [hs] at h1 h2 h3 h4 h5 h6 h7
    exact ⟨by simp [startedOf] at h1 ⊢; omega, by simp [startedOnOf] at h2 ⊢; exact h2,
      by simpa [endedOf] using h3, by simpa [sentOf, TStat.isDone] using h4, by simpa [chanOk] using h5, by simp_all, by simp_all⟩
  | resume _ w k hs =>
    simp only [hs] at h1 h2 h3 h4 h5 h6 h7
    exact ⟨by simpa [startedOf] using h1, by simpa [startedOnOf] using h2, by simpa [endedOf] using h3,
      by simpa [sentOf, TStat.isDone] using h4, by simpa [chanOk] using h5, by simp_all, by simp_all⟩
  | finishOk _ w x hs ho =>
    simp only [hs] at h1 h2 h3 h4 h5 h6 h7
    refine ⟨by simpa [startedOf] using h1, by simpa [startedOnOf] using h2, by simp [endedOf] at h3 ⊢; omega,
      by simp [sentOf, TStat.isDone, ho] at h4 ⊢; omega, ?_, by simp_all, by simp_all⟩
    simp only [chanOk] at h5 ⊢
    rcases h5 with h5 | h5 <;> simp [h5, Chan.send, ho]
  | finishPanic _ w hs ho =>
    simp only [hs] at h1 h2 h3 h4 h5 h6 h7
    refine ⟨by simpa [startedOf] using h1, by simpa [startedOnOf] using h2, by simp [endedOf] at h3 ⊢; omega,
      by simp [sentOf, TStat.isDone, ho] at h4 ⊢; exact h4, ?_, by simp_all, by simp_all⟩
    simp only [chanOk] at h5 ⊢
    rcases h5 with h5 | h5 <;> simp [h5, Chan.cancel, ho]
  | dropQueued _ hq =>
    simp only [hq] at h1 h2 h3 h4 h5 h6 h7
    refine ⟨by simpa [startedOf] using h1, by simpa [startedOnOf] using h2, by simpa [endedOf] using h3,
      by simpa [sentOf, TStat.isDone] using h4, ?_, by simp_all, by simp_all⟩
    simp only [chanOk] at h5 ⊢
    rcases h5 with h5 | h5 <;> simp [h5, Chan.cancel]
  | dropActive _ w ha =>
    cases hst : v.stat <;> simp [hst, TStat.activeOn] at ha
    · simp only [hst] at h1 h2 h3 h4 h5 h6 h7
      refine ⟨by simpa [startedOf, TStat.dropIt] using h1, by simpa [startedOnOf, TStat.dropIt] using h2,
        by simpa [endedOf, TStat.dropIt] using h3, by simpa [sentOf, TStat.isDone, TStat.dropIt] using h4, ?_,
        by simp_all [TStat.dropIt], by simp_all [TStat.dropIt]⟩
      simp only [chanOk, TStat.dropIt] at h5 ⊢
      rcases h5 with h5 | h5 <;> simp [h5, Chan.cancel]
    · simp only [hst] at h1 h2 h3 h4 h5 h6 h7
      refine ⟨by simpa [startedOf, TStat.dropIt] using h1, by simpa [startedOnOf, TStat.dropIt] using h2,
        by simpa [endedOf, TStat.dropIt] using h3, by simpa [sentOf, TStat.isDone, TStat.dropIt] using h4, ?_,
        by simp_all [TStat.dropIt], by simp_all [TStat.dropIt]⟩
      simp only [chanOk, TStat.dropIt] at h5 ⊢
      rcases h5 with h5 | h5 <;> simp [h5, Chan.cancel]
  | blockingOk _ x hs ho =>
    simp only [hs] at h1 h2 h3 h4 h5 h6 h7
    refine ⟨by simp [startedOf] at h1 ⊢; omega, by simpa [startedOnOf] using h2, by simp [endedOf] at h3 ⊢; omega,
      by simp [sentOf, TStat.isDone, ho] at h4 ⊢; omega, ?_, by simp_all, by simp_all⟩
    simp only [chanOk] at h5 ⊢
    rcases h5 with h5 | h5 <;> simp [h5, Chan.send, ho]
  | blockingPanic _ hs ho =>
    simp only [hs] at h1 h2 h3 h4 h5 h6 h7
    refine ⟨by simp [startedOf] at h1 ⊢; omega, by simpa [startedOnOf] using h2, by simp [endedOf] at h3 ⊢; omega,
      by simp [sentOf, TStat.isDone, ho] at h4 ⊢; exact h4, ?_, by simp_all, by simp_all⟩
    simp only [chanOk] at h5 ⊢
    rcases h5 with h5 | h5 <;> simp [h5, Chan.cancel, ho]
  | rxDrop _ hn hn2 =>
    refine ⟨h1, h2, h3, h4, ?_, h6, h7⟩
    show chanOk v.stat v.body .closed
    cases hst : v.stat <;> simp [chanOk, hst] at h5 ⊢
    exact hn h5

/-! ### task-level invariant of reachable states -/

structure TInv (s : St) : Prop where
  q : QInv s
  ok : ∀ t, (s.view t).Ok

theorem TInv.init (nw : Nat) (conc : Bool) : TInv (init nw conc) := by
  refine ⟨QInv.init nw conc, fun t => ?_⟩
  constructor <;> simp [St.view, Compio.Dispatcher.init, startedOf, startedOnOf, endedOf, sentOf, chanOk,
    TStat.isDone]
  cases (default : Body).out <;> rfl

theorem TInv.step {s s' : St} {e : Event} (h : TInv s) (hs : step? s e = some s') : TInv s' := by
  refine ⟨h.q.step hs, fun t => ?_⟩
  rcases step_view h.q hs t with heq | htr
  · rw [heq]; exact h.ok t
  · exact htr.ok (h.ok t)

theorem run?_cons {s : St} {e : Event} {es : List Event} {s'' : St} (h : run? s (e :: es) = some s'') :
    ∃ s', step? s e = some s' ∧ run? s' es = some s'' := by
  simp only [run?] at h
  split at h
  · rename_i s' hs; exact ⟨s', hs, h⟩
  · cases h

/-- induction principle: a step-invariant holds along every schedule -/
theorem run?_invariant {P : St → Prop} (hstep : ∀ s s' e, P s → step? s e = some s' → P s')
    {s s' : St} {evs : List Event} (h0 : P s) (h : run? s evs = some s') : P s' := by
  induction evs generalizing s with
  | nil => simp [run?] at h; subst h; exact h0
  | cons e es ih =>
    obtain ⟨s1, h1, h2⟩ := run?_cons h
    exact ih (hstep s s1 e h0 h1) h2

theorem Reachable.tinv {nw : Nat} {conc : Bool} {s : St} (h : Reachable nw conc s) : TInv s := by
  obtain ⟨evs, h⟩ := h
  exact run?_invariant (P := TInv) (fun _ _ _ hp hs => hp.step hs) (TInv.init nw conc) h

/-! ### workers: which tasks live in which executor -/

/-- task `t` lives, unfinished, in the executor of worker `w` -/
def St.active (s : St) (t w : Nat) : Prop := (s.stat t).activeOn w = true

theorem activeOn_unique {x : TStat} {w w' : Nat} (h : x.activeOn w = true) (h' : x.activeOn w' = true) :
    w = w' := by
  cases x <;> simp [TStat.activeOn] at h h' <;> omega

theorem dropIt_not_active (x : TStat) (w : Nat) : x.dropIt.activeOn w = false := by
  cases x <;> simp [TStat.dropIt, TStat.activeOn]

theorem active_clearExec {s : St} {w t w' : Nat} :
    (clearExec s w).active t w' ↔ s.active t w' ∧ ¬ s.active t w := by
  unfold St.active
  rw [clearExec_stat]
  by_cases h : (s.stat t).activeOn w = true
  · simp [h, dropIt_not_active]
  · simp [h]

theorem active_gc {s : St} (hq : QInv s) {t w' : Nat} : (gc s).active t w' ↔ s.active t w' := by
  unfold St.active
  rw [gc_stat]
  by_cases h : freed s = true ∧ t ∈ s.queue
  · have := (hq.mem t).mp h.2
    simp [h, this, TStat.activeOn]
  · simp [h]

structure WInv (s : St) : Prop where
  /-- tasks live only in executors of existing, unfinished worker threads -/
  alive : ∀ t w, s.active t w → w < s.nw ∧ (s.main w).gone = false
  /-- the loop awaits a task only in sequential mode, and that task lives in its executor -/
  awaiting : ∀ w t, s.main w = .awaiting t → s.conc = false ∧ s.active t w
  /-- sequential mode: a task lives in an executor only while the loop awaits it (or the thread is dying) -/
  seq : s.conc = false → ∀ t w, s.active t w → s.main w = .awaiting t ∨ ∃ p, s.main w = .dying p
  /-- sequential mode: at most one task per executor -/
  uniq : s.conc = false → ∀ t t' w, s.active t w → s.active t' w → t = t'

theorem WInv.init (nw : Nat) (conc : Bool) : WInv (init nw conc) := by
  constructor <;> simp [St.active, Compio.Dispatcher.init, TStat.activeOn]

/-- events that change neither `stat` nor `main` (nor the configuration) -/
theorem WInv.same {s s' : St} (h : WInv s) (h1 : s'.stat = s.stat) (h2 : s'.main = s.main)
    (h3 : s'.nw = s.nw) (h4 : s'.conc = s.conc) : WInv s' := by
  constructor
  · intro t w; unfold St.active; rw [h1, h2, h3]; exact h.alive t w
  · intro w t; unfold St.active; rw [h1, h2, h4]; exact h.awaiting w t
  · unfold St.active; rw [h1, h2, h4]; exact h.seq
  · unfold St.active; rw [h1, h4]; exact h.uniq

/-- a task that is in no executor changes to a place that is in no executor -/
theorem WInv.setInactive {s s' : St} (h : WInv s) {t : Nat} {x : TStat} (hx : ∀ w, x.activeOn w = false)
    (h0 : ∀ w, (s.stat t).activeOn w = false)
    (h1 : s'.stat = upd s.stat t x) (h2 : s'.main = s.main) (h3 : s'.nw = s.nw) (h4 : s'.conc = s.conc) :
    WInv s' := by
  have key : ∀ t' w, s'.active t' w ↔ s.active t' w := by
    intro t' w; unfold St.active; rw [h1, upd_apply]
    by_cases ht : t' = t
    · subst ht; simp [hx, h0]
    · simp [ht]
  constructor
  · intro t' w; rw [key, h2, h3]; exact h.alive t' w
  · intro w t'; rw [key, h2, h4]; exact h.awaiting w t'
  · rw [h4]; intro hc t' w; rw [key, h2]; exact h.seq hc t' w
  · rw [h4]; intro hc t' t'' w; rw [key, key]; exact h.uniq hc t' t'' w

/-- a task stays in the same executor (start / one suspension less) -/
theorem WInv.setSame {s s' : St} (h : WInv s) {t : Nat} {x : TStat}
    (hx : ∀ w, x.activeOn w = (s.stat t).activeOn w)
    (h1 : s'.stat = upd s.stat t x) (h2 : s'.main = s.main) (h3 : s'.nw = s.nw) (h4 : s'.conc = s.conc) :
    WInv s' := by
  have key : ∀ t' w, s'.active t' w ↔ s.active t' w := by
    intro t' w; unfold St.active; rw [h1, upd_apply]
    by_cases ht : t' = t
    · subst ht; simp [hx]
    · simp [ht]
  constructor
  · intro t' w; rw [key, h2, h3]; exact h.alive t' w
  · intro w t'; rw [key, h2, h4]; exact h.awaiting w t'
  · rw [h4]; intro hc t' w; rw [key, h2]; exact h.seq hc t' w
  · rw [h4]; intro hc t' t'' w; rw [key, key]; exact h.uniq hc t' t'' w

theorem WInv.gc {s : St} (h : WInv s) (hq : QInv s) : WInv (gc s) := by
  constructor
  · intro t w; rw [active_gc hq]; simpa using h.alive t w
  · intro w t; rw [active_gc hq]; simpa using h.awaiting w t
  · intro hc t w; rw [active_gc hq]; simpa using h.seq (by simpa using hc) t w
  · intro hc t t' w; rw [active_gc hq, active_gc hq]; exact h.uniq (by simpa using hc) t t' w

/-- `executor.clear()` of a worker whose thread is finishing -/
theorem WInv.clear {s : St} (h : WInv s) {w : Nat} {m : Main} (hm : ∀ t, m ≠ .awaiting t) :
    WInv (clearExec { s with main := upd s.main w m } w) := by
  have key : ∀ t' w', (clearExec { s with main := upd s.main w m } w).active t' w' ↔
      s.active t' w' ∧ ¬ s.active t' w := fun t' w' => active_clearExec
  have ne : ∀ t' w', s.active t' w' → ¬ s.active t' w → w' ≠ w := by
    intro t' w' h1 h2 he; subst he; exact h2 h1
  constructor
  · intro t' w' ha
    rw [key] at ha
    have := h.alive t' w' ha.1
    simp only [clearExec_nw, clearExec_main]
    rw [upd_other _ _ (ne t' w' ha.1 ha.2)]; exact this
  · intro w' t' hw
    simp only [clearExec_main, clearExec_conc] at hw ⊢
    rw [upd_apply] at hw
    by_cases hww : w' = w
    · simp [hww] at hw; exact (hm t' hw).elim
    · simp [hww] at hw
      have := h.awaiting w' t' hw
      refine ⟨this.1, (key t' w').mpr ⟨this.2, fun ha => hww (activeOn_unique this.2 ha)⟩⟩
  · intro hc t' w' ha
    rw [key] at ha
    simp only [clearExec_main]
    rw [upd_other _ _ (ne t' w' ha.1 ha.2)]
    exact h.seq hc t' w' ha.1
  · intro hc t' t'' w' ha ha'
    rw [key] at ha ha'
    exact h.uniq hc t' t'' w' ha.1 ha'.1

theorem WInv.die {s : St} (h : WInv s) {w p : Nat} : WInv { s with main := upd s.main w (.dying p) } := by
  constructor
  · intro t' w' ha
    have := h.alive t' w' ha
    refine ⟨this.1, ?_⟩
    show (upd s.main w (.dying p) w').gone = false
    rw [upd_apply]; split
    · rfl
    · exact this.2
  · intro w' t' hw
    have hw : upd s.main w (.dying p) w' = .awaiting t' := hw
    rw [upd_apply] at hw
    by_cases hww : w' = w
    · simp [hww] at hw
    · simp [hww] at hw; exact h.awaiting w' t' hw
  · intro hc t' w' ha
    show upd s.main w (.dying p) w' = .awaiting t' ∨ ∃ q, upd s.main w (.dying p) w' = .dying q
    rw [upd_apply]
    by_cases hww : w' = w
    · simp [hww]
    · simp [hww]; exact h.seq hc t' w' ha
  · exact h.uniq

theorem WInv.exitLoop {s : St} (h : WInv s) {w : Nat} (hi : s.main w = .idle) :
    WInv { s with main := upd s.main w .draining } := by
  constructor
  · intro t' w' ha
    have := h.alive t' w' ha
    refine ⟨this.1, ?_⟩
    show (upd s.main w .draining w').gone = false
    rw [upd_apply]; split
    · rfl
    · exact this.2
  · intro w' t' hw
    have hw : upd s.main w .draining w' = .awaiting t' := hw
    rw [upd_apply] at hw
    by_cases hww : w' = w
    · simp [hww] at hw
    · simp [hww] at hw; exact h.awaiting w' t' hw
  · intro hc t' w' ha
    show upd s.main w .draining w' = .awaiting t' ∨ ∃ q, upd s.main w .draining w' = .dying q
    rw [upd_apply]
    by_cases hww : w' = w
    · subst hww
      rcases h.seq hc t' w' ha with h1 | ⟨q, h1⟩ <;> simp [hi] at h1
    · simp [hww]; exact h.seq hc t' w' ha
  · exact h.uniq

theorem WInv.recv {s : St} (h : WInv s) {w t : Nat} (hw : w < s.nw) (hi : s.main w = .idle)
    (hq : s.stat t = .queued) :
    WInv { s with queue := s.queue.erase t, stat := upd s.stat t (.spawned w), main := if s.conc then s.main else upd s.main w (.awaiting t) } := by
  have hna : ∀ w', ¬ s.active t w' := by intro w'; simp [St.active, hq, TStat.activeOn]
  have key : ∀ t' w', St.active { s with queue := s.queue.erase t, stat := upd s.stat t (.spawned w), main := if s.conc then s.main else upd s.main w (.awaiting t) } t' w' ↔
      (t' = t ∧ w' = w) ∨ (t' ≠ t ∧ s.active t' w') := by
    intro t' w'
    show (upd s.stat t (.spawned w) t').activeOn w' = true ↔ _
    rw [upd_apply]
    by_cases ht : t' = t
    · subst ht
      simp only [TStat.activeOn, beq_iff_eq, ne_eq, not_true_eq_false, false_and, or_false, true_and, if_true]
      exact eq_comm
    · simp [ht, St.active]
  have mainw : ∀ w', (if s.conc then s.main else upd s.main w (.awaiting t)) w' =
      if w' = w then (if s.conc then .idle else .awaiting t) else s.main w' := by
    intro w'
    by_cases hc : s.conc = true
    · by_cases hww : w' = w <;> simp [hc, hww, hi]
    · by_cases hww : w' = w <;> simp [hc, hww, upd_apply]
  constructor
  · intro t' w' ha
    rw [key] at ha
    show w' < s.nw ∧ ((if s.conc then s.main else upd s.main w (.awaiting t)) w').gone = false
    rw [mainw]
    rcases ha with ⟨rfl, rfl⟩ | ⟨_, ha⟩
    · refine ⟨hw, ?_⟩; simp; split <;> rfl
    · have := h.alive t' w' ha
      refine ⟨this.1, ?_⟩
      split
      · split <;> rfl
      · exact this.2
  · intro w' t' hm
    have hm : (if s.conc then s.main else upd s.main w (.awaiting t)) w' = .awaiting t' := hm
    rw [mainw] at hm
    show s.conc = false ∧ _
    rw [key]
    by_cases hww : w' = w
    · subst hww
      simp at hm
      by_cases hc : s.conc = true
      · simp [hc] at hm
      · simp [hc] at hm; subst hm
        exact ⟨by simpa using hc, Or.inl ⟨rfl, rfl⟩⟩
    · simp [hww] at hm
      have := h.awaiting w' t' hm
      refine ⟨this.1, Or.inr ⟨?_, this.2⟩⟩
      intro he; subst he; exact hna w' this.2
  · intro hc t' w' ha
    replace hc : s.conc = false := hc
    rw [key] at ha
    show (if s.conc then s.main else upd s.main w (.awaiting t)) w' = .awaiting t' ∨
      ∃ p, (if s.conc then s.main else upd s.main w (.awaiting t)) w' = .dying p
    rw [mainw]
    rcases ha with ⟨rfl, rfl⟩ | ⟨_, ha⟩
    · simp [hc]
    · by_cases hww : w' = w
      · subst hww
        rcases h.seq hc t' w' ha with h1 | ⟨q, h1⟩ <;> simp [hi] at h1
      · simp [hww]; exact h.seq hc t' w' ha
  · intro hc t1 t2 w' h1 h2
    replace hc : s.conc = false := hc
    rw [key] at h1 h2
    rcases h1 with ⟨rfl, rfl⟩ | ⟨hn1, h1⟩
    · rcases h2 with ⟨rfl, _⟩ | ⟨_, h2⟩
      · rfl
      · rcases h.seq hc t2 w' h2 with h3 | ⟨q, h3⟩ <;> simp [hi] at h3
    · rcases h2 with ⟨rfl, rfl⟩ | ⟨_, h2⟩
      · rcases h.seq hc t1 w' h1 with h3 | ⟨q, h3⟩ <;> simp [hi] at h3
      · exact h.uniq hc t1 t2 w' h1 h2

/-- the body of `t` ends on `w` -/
theorem WInv.finish {s s' : St} (h : WInv s) {w t : Nat} (hst : s.stat t = .running w 0)
    (h1 : s'.stat = upd s.stat t (.done w))
    (h2 : s'.main = resume s.main w (decide (s.main w = .awaiting t)))
    (h3 : s'.nw = s.nw) (h4 : s'.conc = s.conc) : WInv s' := by
  have hat : s.active t w := by simp [St.active, hst, TStat.activeOn]
  have key : ∀ t' w', s'.active t' w' ↔ t' ≠ t ∧ s.active t' w' := by
    intro t' w'
    unfold St.active; rw [h1, upd_apply]
    by_cases ht : t' = t
    · subst ht; simp [TStat.activeOn]
    · simp [ht]
  have mainw : ∀ w', s'.main w' = if w' = w ∧ s.main w = .awaiting t then .idle else s.main w' := by
    intro w'; rw [h2]; unfold resume
    by_cases hk : s.main w = .awaiting t
    · by_cases hww : w' = w <;> simp [hk, hww, upd_apply]
    · simp [hk]
  constructor
  · intro t' w' ha
    rw [key] at ha
    have := h.alive t' w' ha.2
    rw [h3, mainw]
    refine ⟨this.1, ?_⟩
    split
    · rfl
    · exact this.2
  · intro w' t' hm
    rw [mainw] at hm
    rw [h4, key]
    split at hm
    · cases hm
    · rename_i hne
      have := h.awaiting w' t' hm
      refine ⟨this.1, ?_, this.2⟩
      intro he; subst he
      have hww := activeOn_unique this.2 hat
      subst hww
      exact hne ⟨rfl, hm⟩
  · rw [h4]; intro hc t' w' ha
    rw [key] at ha
    rw [mainw]
    have := h.seq hc t' w' ha.2
    split
    · rename_i hk
      obtain ⟨rfl, hk⟩ := hk
      rcases this with h5 | ⟨q, h5⟩
      · rw [hk] at h5; cases h5; exact (ha.1 rfl).elim
      · rw [hk] at h5; cases h5
    · exact this
  · rw [h4]; intro hc t1 t2 w' a1 a2
    rw [key] at a1 a2
    exact h.uniq hc t1 t2 w' a1.2 a2.2

theorem WInv.step {s s' : St} {e : Event} (h : WInv s) (hq : QInv s) (hs : step? s e = some s') :
    WInv s' := by
  cases e with
  | dispatch d t b =>
    obtain ⟨_, ha, _, hc | hc⟩ := dispatch?_some hs
    · obtain ⟨_, rfl⟩ := hc
      exact h.setInactive (t := t) (x := .queued) (by simp [TStat.activeOn]) (by simp [ha, TStat.activeOn])
        rfl rfl rfl rfl
    · obtain ⟨_, rfl⟩ := hc; exact h.same rfl rfl rfl rfl
  | dispatchBlocking d t b ok =>
    obtain ⟨_, ha, _, hc | hc⟩ := dispatchBlocking?_some hs
    · obtain ⟨_, rfl⟩ := hc
      exact h.setInactive (t := t) (x := .pooled) (by simp [TStat.activeOn]) (by simp [ha, TStat.activeOn])
        rfl rfl rfl rfl
    · obtain ⟨_, rfl⟩ := hc; exact h.same rfl rfl rfl rfl
  | runBlocking t =>
    obtain ⟨hp, hc | hc⟩ := runBlocking?_some hs
    · obtain ⟨v, _, rfl⟩ := hc
      exact h.setInactive (t := t) (x := .poolDone) (by simp [TStat.activeOn]) (by simp [hp, TStat.activeOn])
        rfl rfl rfl rfl
    · obtain ⟨_, rfl⟩ := hc
      exact h.setInactive (t := t) (x := .poolDone) (by simp [TStat.activeOn]) (by simp [hp, TStat.activeOn])
        rfl rfl rfl rfl
  | rxDrop t => obtain ⟨_, _, rfl⟩ := rxDrop?_some hs; exact h.same rfl rfl rfl rfl
  | recv w t =>
    obtain ⟨hw, hi, hmem, rfl⟩ := recv?_some hs
    exact h.recv hw hi ((hq.mem t).mp hmem)
  | poll w t =>
    obtain ⟨_, _, hc | hc | hc | hc⟩ := poll?_some hs
    · obtain ⟨hst, rfl⟩ := hc
      exact h.setSame (t := t) (by intro w'; simp [hst, TStat.activeOn]) rfl rfl rfl rfl
    · obtain ⟨k, hst, rfl⟩ := hc
      exact h.setSame (t := t) (by intro w'; simp [hst, TStat.activeOn]) rfl rfl rfl rfl
    · obtain ⟨v, hst, _, rfl⟩ := hc
      exact h.finish hst rfl rfl rfl rfl
    · obtain ⟨hst, _, rfl⟩ := hc
      exact h.finish hst rfl rfl rfl rfl
  | remoteWake t => obtain ⟨_, rfl⟩ := remoteWake?_some hs; exact h.same rfl rfl rfl rfl
  | die w p => obtain ⟨_, _, rfl⟩ := die?_some hs; exact h.die
  | reap w =>
    obtain ⟨p, _, _, rfl⟩ := reap?_some hs
    exact (h.clear (m := .dead p) (by simp)).gc ((hq.same (s' := { s with main := upd s.main w (.dead p) }) rfl rfl).clearExec w)
  | joinStart =>
    obtain ⟨_, rfl⟩ := joinStart?_some hs
    exact (h.same (s' := { s with sender := false }) rfl rfl rfl rfl).gc (hq.same rfl rfl)
  | joinPool => obtain ⟨_, _, rfl⟩ := joinHand?_some hs; exact h.same rfl rfl rfl rfl
  | joinFallbackThread => obtain ⟨_, _, rfl⟩ := joinHand?_some hs; exact h.same rfl rfl rfl rfl
  | exitLoop w => obtain ⟨_, hi, _, _, rfl⟩ := exitLoop?_some hs; exact h.exitLoop hi
  | teardown w =>
    obtain ⟨_, _, rfl⟩ := teardown?_some hs
    exact h.clear (m := .exited) (by simp)
  | joinReturn => obtain ⟨_, _, _, rfl⟩ := joinReturn?_some hs; exact h.same rfl rfl rfl rfl

/-! ### join: draining, freeing the channel, the result -/

theorem anyRx_congr {s s' : St} (hn : s'.nw = s.nw)
    (h : ∀ w, w < s.nw → (s'.main w).holdsRx = (s.main w).holdsRx) : anyRx s' = anyRx s := by
  rw [Bool.eq_iff_iff, anyRx_iff, anyRx_iff, hn]
  constructor
  · rintro ⟨w, hw, hr⟩; exact ⟨w, hw, by rw [← h w hw]; exact hr⟩
  · rintro ⟨w, hw, hr⟩; exact ⟨w, hw, by rw [h w hw]; exact hr⟩

@[simp] theorem anyRx_gc (s : St) : anyRx (gc s) = anyRx s := anyRx_congr (by simp) (by simp)
@[simp] theorem anyRx_clearExec (s : St) (w : Nat) : anyRx (clearExec s w) = anyRx s := rfl

def Main.failed : Main → Prop
  | .dying _ | .dead _ => True
  | _ => False

/-- the part of the join invariant that also holds between the two halves of `reap` / `joinStart`
(before the freed channel drops its queue) -/
structure JPre (s : St) : Prop where
  /-- a worker leaves its loop only when the sender is gone and the queue is empty -/
  drained : ∀ w, s.main w = .draining ∨ s.main w = .exited → s.sender = false ∧ s.queue = []
  qpos : s.queue ≠ [] → 0 < s.nw
  /-- `join` returns after every worker thread has finished, with the first panic in thread order -/
  joined : ∀ r, s.joined = some r → s.sender = false ∧ allGone s = true ∧ r = firstDead s
  /-- sequential mode: a task object is dropped unfinished only when a worker thread panicked -/
  seqdrop : s.conc = false → ∀ t o, s.stat t = .dropped o → ∃ w, w < s.nw ∧ (s.main w).failed
  /-- in any mode: a task object is dropped unfinished only after `join` was called or a worker panicked -/
  anydrop : ∀ t o, s.stat t = .dropped o → s.sender = false ∨ ∃ w, w < s.nw ∧ (s.main w).failed

structure JInv (s : St) : Prop extends JPre s where
  /-- once the sender and all receivers are gone, the queue has been dropped -/
  freedq : s.sender = false → anyRx s = false → s.queue = []

theorem JInv.init (nw : Nat) (conc : Bool) : JInv (init nw conc) := by
  refine ⟨⟨?_, ?_, ?_, ?_, ?_⟩, ?_⟩ <;> simp [Compio.Dispatcher.init]

theorem gone_of_allGone {s : St} (h : allGone s = true) {w : Nat} (hw : w < s.nw) : (s.main w).gone = true :=
  (allGone_iff s).mp h w hw

/-- events that leave workers, sender, queue and `joined` alone and drop nothing -/
theorem JPre.same {s s' : St} (h : JPre s) (h1 : s'.main = s.main) (h2 : s'.sender = s.sender)
    (h3 : s.queue = [] → s'.queue = []) (h4 : s'.nw = s.nw) (h5 : s'.conc = s.conc) (h6 : s'.joined = s.joined)
    (h7 : ∀ t o, s'.stat t = .dropped o → ∃ o', s.stat t = .dropped o') : JPre s' := by
  have hall : allGone s' = allGone s := by simp [allGone, h1, h4]
  have hfd : firstDead s' = firstDead s := by simp [firstDead, h1, h4]
  constructor
  · intro w hw; rw [h1] at hw; rw [h2]; exact ⟨(h.drained w hw).1, h3 (h.drained w hw).2⟩
  · intro hq; rw [h4]; exact h.qpos (fun he => hq (h3 he))
  · intro r; rw [h6, h2, hall, hfd]; exact h.joined r
  · rw [h5, h4, h1]; intro hc t o hd
    obtain ⟨o', hd'⟩ := h7 t o hd
    exact h.seqdrop hc t o' hd'
  · rw [h2, h4, h1]; intro t o hd
    obtain ⟨o', hd'⟩ := h7 t o hd
    exact h.anydrop t o' hd'

theorem JInv.same {s s' : St} (h : JInv s) (h1 : s'.main = s.main) (h2 : s'.sender = s.sender)
    (h3 : s.queue = [] → s'.queue = []) (h4 : s'.nw = s.nw) (h5 : s'.conc = s.conc) (h6 : s'.joined = s.joined)
    (h7 : ∀ t o, s'.stat t = .dropped o → ∃ o', s.stat t = .dropped o') : JInv s' := by
  refine ⟨h.toJPre.same h1 h2 h3 h4 h5 h6 h7, ?_⟩
  have hany : anyRx s' = anyRx s := anyRx_congr h4 (by intro w _; rw [h1])
  rw [h2, hany]; intro a b; exact h3 (h.freedq a b)

/-- the loop / thread state of one unfinished worker changes -/
theorem JPre.setMain {s s' : St} (h : JPre s) {w : Nat} {m : Main} (hw : w < s.nw)
    (hng : (s.main w).gone = false) (h1 : s'.main = upd s.main w m) (h2 : s'.sender = s.sender)
    (h3 : s.queue = [] → s'.queue = []) (h4 : s'.nw = s.nw) (h5 : s'.conc = s.conc) (h6 : s'.joined = s.joined)
    (h7 : ∀ t o, s'.stat t = .dropped o → ∃ o', s.stat t = .dropped o')
    (hm : m = .draining ∨ m = .exited → s.sender = false ∧ s.queue = [])
    (hf : (s.main w).failed → m.failed) : JPre s' := by
  constructor
  · intro w' hw'
    rw [h1, upd_apply] at hw'
    rw [h2]
    by_cases hww : w' = w
    · simp [hww] at hw'; exact ⟨(hm hw').1, h3 (hm hw').2⟩
    · simp [hww] at hw'; exact ⟨(h.drained w' hw').1, h3 (h.drained w' hw').2⟩
  · intro hq; rw [h4]; exact h.qpos (fun he => hq (h3 he))
  · intro r hj
    rw [h6] at hj
    have := gone_of_allGone (h.joined r hj).2.1 hw
    rw [hng] at this; cases this
  · rw [h5, h4]; intro hc t o hd
    obtain ⟨o', hd'⟩ := h7 t o hd
    obtain ⟨w0, hw0, hf0⟩ := h.seqdrop hc t o' hd'
    refine ⟨w0, hw0, ?_⟩
    rw [h1, upd_apply]
    by_cases hww : w0 = w
    · subst hww; simp; exact hf hf0
    · simp [hww]; exact hf0
  · rw [h2, h4]; intro t o hd
    obtain ⟨o', hd'⟩ := h7 t o hd
    rcases h.anydrop t o' hd' with hsd | ⟨w0, hw0, hf0⟩
    · exact Or.inl hsd
    · refine Or.inr ⟨w0, hw0, ?_⟩
      rw [h1, upd_apply]
      by_cases hww : w0 = w
      · subst hww; simp; exact hf hf0
      · simp [hww]; exact hf0

/-- ... and the channel stays as connected as it was (or the queue is empty anyway) -/
theorem JInv.setMain {s s' : St} (h : JInv s) {w : Nat} {m : Main} (hw : w < s.nw)
    (hng : (s.main w).gone = false) (h1 : s'.main = upd s.main w m) (h2 : s'.sender = s.sender)
    (h3 : s.queue = [] → s'.queue = []) (h4 : s'.nw = s.nw) (h5 : s'.conc = s.conc) (h6 : s'.joined = s.joined)
    (h7 : ∀ t o, s'.stat t = .dropped o → ∃ o', s.stat t = .dropped o')
    (hm : m = .draining ∨ m = .exited → s.sender = false ∧ s.queue = [])
    (hf : (s.main w).failed → m.failed)
    (hrx : m.holdsRx = (s.main w).holdsRx ∨ s.queue = []) : JInv s' := by
  refine ⟨h.toJPre.setMain hw hng h1 h2 h3 h4 h5 h6 h7 hm hf, ?_⟩
  rcases hrx with hrx | hrx
  · have hany : anyRx s' = anyRx s := by
      apply anyRx_congr h4
      intro w' _; rw [h1, upd_apply]; split
      · rename_i he; rw [he]; exact hrx
      · rfl
    rw [h2, hany]; intro a b; exact h3 (h.freedq a b)
  · intro _ _; exact h3 hrx

/-- `executor.clear()`: in sequential mode only a failed worker has anything to drop -/
theorem JPre.clearExec {s : St} (h : JPre s) {w : Nat}
    (hd : s.conc = false → ∀ t, s.active t w → w < s.nw ∧ (s.main w).failed)
    (hd' : s.sender = false ∨ (w < s.nw ∧ (s.main w).failed)) : JPre (clearExec s w) := by
  constructor
  · intro w'; simpa using h.drained w'
  · simpa using h.qpos
  · intro r; simpa [allGone, firstDead] using h.joined r
  · intro hc t o hdr
    simp only [clearExec_conc, clearExec_nw, clearExec_main] at hc ⊢
    rw [clearExec_stat] at hdr
    by_cases ha : (s.stat t).activeOn w = true
    · exact ⟨w, hd hc t ha⟩
    · simp [ha] at hdr; exact h.seqdrop hc t o hdr
  · intro t o hdr
    simp only [clearExec_sender, clearExec_nw, clearExec_main] at ⊢
    rw [clearExec_stat] at hdr
    by_cases ha : (s.stat t).activeOn w = true
    · rcases hd' with h1 | h1
      · exact Or.inl h1
      · exact Or.inr ⟨w, h1⟩
    · simp [ha] at hdr; exact h.anydrop t o hdr

/-- freeing the channel -/
theorem JPre.gc {s : St} (h : JPre s) : JInv (gc s) := by
  have hfail : s.conc = false → freed s = true → s.queue ≠ [] → ∃ w, w < s.nw ∧ (s.main w).failed := by
    intro _ hf hq
    have h0 := h.qpos hq
    simp only [freed, Bool.and_eq_true, Bool.not_eq_true'] at hf
    have hr := (anyRx_false_iff s).mp hf.2 0 h0
    refine ⟨0, h0, ?_⟩
    cases hm : s.main 0 <;> simp [hm, Main.holdsRx] at hr
    · exact (hq (h.drained 0 (Or.inl hm)).2).elim
    · exact (hq (h.drained 0 (Or.inr hm)).2).elim
    · simp [Main.failed]
  refine ⟨⟨?_, ?_, ?_, ?_, ?_⟩, ?_⟩
  · intro w hw
    simp only [gc_main, gc_sender] at hw ⊢
    have := h.drained w hw
    exact ⟨this.1, by rw [gc_queue, this.2]; simp⟩
  · intro hq; rw [gc_queue] at hq; simp only [gc_nw]
    split at hq
    · exact (hq rfl).elim
    · exact h.qpos hq
  · intro r; simpa [allGone, firstDead] using h.joined r
  · intro hc t o hdr
    simp only [gc_conc, gc_nw, gc_main] at hc ⊢
    rw [gc_stat] at hdr
    by_cases hg : freed s = true ∧ t ∈ s.queue
    · exact hfail hc hg.1 (List.ne_nil_of_mem hg.2)
    · simp [hg] at hdr; exact h.seqdrop hc t o hdr
  · intro t o hdr
    simp only [gc_sender, gc_nw, gc_main] at ⊢
    rw [gc_stat] at hdr
    by_cases hg : freed s = true ∧ t ∈ s.queue
    · left
      have := hg.1
      simp only [freed, Bool.and_eq_true, Bool.not_eq_true'] at this
      exact this.1
    · simp [hg] at hdr; exact h.anydrop t o hdr
  · intro hs hr
    simp only [gc_sender, anyRx_gc] at hs hr
    rw [gc_queue]; simp [freed, hs, hr]

theorem dropped_upd {s : St} {t : Nat} {x : TStat} (hx : ∀ o, x ≠ .dropped o) :
    ∀ t' o, upd s.stat t x t' = .dropped o → ∃ o', s.stat t' = .dropped o' := by
  intro t' o h
  rw [upd_apply] at h
  by_cases ht : t' = t
  · simp [ht] at h; exact (hx o h).elim
  · simp [ht] at h; exact ⟨o, h⟩

theorem JInv.step {s s' : St} {e : Event} (h : JInv s) (hw : WInv s) (hs : step? s e = some s') :
    JInv s' := by
  cases e with
  | dispatch d t b =>
    obtain ⟨hsend, ha, _, hc | hc⟩ := dispatch?_some hs
    · obtain ⟨hrx, rfl⟩ := hc
      refine ⟨⟨?_, ?_, ?_, ?_, ?_⟩, ?_⟩
      · intro w hm
        have := (h.drained w hm).1
        rw [hsend] at this; cases this
      · intro _
        obtain ⟨w, hw', _⟩ := (anyRx_iff s).mp hrx
        exact Nat.lt_of_le_of_lt (Nat.zero_le w) hw'
      · intro r hj
        have := (h.joined r hj).1
        rw [hsend] at this; cases this
      · intro hc t' o hd
        obtain ⟨o', hd'⟩ := dropped_upd (s := s) (t := t) (x := .queued) (by simp) t' o hd
        exact h.seqdrop hc t' o' hd'
      · intro t' o hd
        obtain ⟨o', hd'⟩ := dropped_upd (s := s) (t := t) (x := .queued) (by simp) t' o hd
        exact h.anydrop t' o' hd'
      · intro hf; rw [hsend] at hf; cases hf
    · obtain ⟨_, rfl⟩ := hc
      exact h.same rfl rfl (fun x => x) rfl rfl rfl (fun t o hd => ⟨o, hd⟩)
  | dispatchBlocking d t b ok =>
    obtain ⟨_, ha, _, hc | hc⟩ := dispatchBlocking?_some hs
    · obtain ⟨_, rfl⟩ := hc
      exact h.same rfl rfl (fun x => x) rfl rfl rfl (dropped_upd (by simp))
    · obtain ⟨_, rfl⟩ := hc
      exact h.same rfl rfl (fun x => x) rfl rfl rfl (fun t o hd => ⟨o, hd⟩)
  | runBlocking t =>
    obtain ⟨hp, hc | hc⟩ := runBlocking?_some hs
    · obtain ⟨v, _, rfl⟩ := hc
      exact h.same rfl rfl (fun x => x) rfl rfl rfl (dropped_upd (by simp))
    · obtain ⟨_, rfl⟩ := hc
      exact h.same rfl rfl (fun x => x) rfl rfl rfl (dropped_upd (by simp))
  | rxDrop t =>
    obtain ⟨_, _, rfl⟩ := rxDrop?_some hs
    exact h.same rfl rfl (fun x => x) rfl rfl rfl (fun t o hd => ⟨o, hd⟩)
  | recv w t =>
    obtain ⟨hlt, hi, hmem, rfl⟩ := recv?_some hs
    by_cases hc : s.conc = true
    · exact h.same (by simp [hc]) rfl (by intro hq; simp [hq]) rfl rfl rfl (dropped_upd (by simp))
    · exact h.setMain (w := w) (m := .awaiting t) hlt (by simp [hi, Main.gone]) (by simp [hc]) rfl
        (by intro hq; simp [hq]) rfl rfl rfl (dropped_upd (by simp)) (by simp)
        (by simp [hi, Main.failed]) (Or.inl (by simp [hi, Main.holdsRx]))
  | poll w t =>
    obtain ⟨hlt, hcp, hc | hc | hc | hc⟩ := poll?_some hs
    · obtain ⟨hst, rfl⟩ := hc
      exact h.same rfl rfl (fun x => x) rfl rfl rfl (dropped_upd (by simp))
    · obtain ⟨k, hst, rfl⟩ := hc
      exact h.same rfl rfl (fun x => x) rfl rfl rfl (dropped_upd (by simp))
    · obtain ⟨v, hst, _, rfl⟩ := hc
      by_cases hk : s.main w = .awaiting t
      · exact h.setMain (w := w) (m := .idle) hlt (by simp [hk, Main.gone]) (by simp [resume, hk]) rfl
          (fun x => x) rfl rfl rfl (dropped_upd (by simp)) (by simp) (by simp [hk, Main.failed])
          (Or.inl (by simp [hk, Main.holdsRx]))
      · exact h.same (by simp [resume, hk]) rfl (fun x => x) rfl rfl rfl (dropped_upd (by simp))
    · obtain ⟨hst, _, rfl⟩ := hc
      by_cases hk : s.main w = .awaiting t
      · exact h.setMain (w := w) (m := .idle) hlt (by simp [hk, Main.gone]) (by simp [resume, hk]) rfl
          (fun x => x) rfl rfl rfl (dropped_upd (by simp)) (by simp) (by simp [hk, Main.failed])
          (Or.inl (by simp [hk, Main.holdsRx]))
      · exact h.same (by simp [resume, hk]) rfl (fun x => x) rfl rfl rfl (dropped_upd (by simp))
  | remoteWake t =>
    obtain ⟨_, rfl⟩ := remoteWake?_some hs
    exact h.same rfl rfl (fun x => x) rfl rfl rfl (fun t o hd => ⟨o, hd⟩)
  | die w p =>
    obtain ⟨hlt, hil, rfl⟩ := die?_some hs
    have hng : (s.main w).gone = false := by cases hm : s.main w <;> simp [hm, Main.inLoop, Main.gone] at hil ⊢
    have hrx : (Main.dying p).holdsRx = (s.main w).holdsRx := by
      cases hm : s.main w <;> simp [hm, Main.inLoop, Main.holdsRx] at hil ⊢
    exact h.setMain (w := w) (m := .dying p) hlt hng rfl rfl (fun x => x) rfl rfl rfl
      (fun t o hd => ⟨o, hd⟩) (by simp) (by simp [Main.failed]) (Or.inl hrx)
  | reap w =>
    obtain ⟨p, hlt, hdy, rfl⟩ := reap?_some hs
    have h1 : JPre { s with main := upd s.main w (.dead p) } :=
      h.toJPre.setMain (w := w) (m := .dead p) hlt (by simp [hdy, Main.gone]) rfl rfl (fun x => x) rfl rfl rfl
        (fun t o hd => ⟨o, hd⟩) (by simp) (by simp [Main.failed])
    have h2 : JPre (clearExec { s with main := upd s.main w (.dead p) } w) :=
      h1.clearExec (by intro _ t _; exact ⟨hlt, by simp [Main.failed]⟩) (Or.inr ⟨hlt, by simp [Main.failed]⟩)
    exact h2.gc
  | joinStart =>
    obtain ⟨hsend, rfl⟩ := joinStart?_some hs
    have h1 : JPre { s with sender := false } := by
      constructor
      · intro w hm
        have := (h.drained w hm).1
        rw [hsend] at this; cases this
      · exact h.qpos
      · intro r hj
        have := (h.joined r hj).1
        rw [hsend] at this; cases this
      · exact h.seqdrop
      · intro t o _; exact Or.inl rfl
    exact h1.gc
  | joinPool =>
    obtain ⟨_, _, rfl⟩ := joinHand?_some hs
    exact h.same rfl rfl (fun x => x) rfl rfl rfl (fun t o hd => ⟨o, hd⟩)
  | joinFallbackThread =>
    obtain ⟨_, _, rfl⟩ := joinHand?_some hs
    exact h.same rfl rfl (fun x => x) rfl rfl rfl (fun t o hd => ⟨o, hd⟩)
  | exitLoop w =>
    obtain ⟨hlt, hi, hsend, hq, rfl⟩ := exitLoop?_some hs
    exact h.setMain (w := w) (m := .draining) hlt (by simp [hi, Main.gone]) rfl rfl (fun x => x) rfl rfl rfl
      (fun t o hd => ⟨o, hd⟩) (fun _ => ⟨hsend, hq⟩) (by simp [hi, Main.failed]) (Or.inr hq)
  | teardown w =>
    obtain ⟨hlt, hdr, rfl⟩ := teardown?_some hs
    have h1 : JPre { s with main := upd s.main w .exited } :=
      h.toJPre.setMain (w := w) (m := .exited) hlt (by simp [hdr, Main.gone]) rfl rfl (fun x => x) rfl rfl rfl
        (fun t o hd => ⟨o, hd⟩) (fun _ => h.drained w (Or.inl hdr)) (by simp [hdr, Main.failed])
    have h2 : JPre (clearExec { s with main := upd s.main w .exited } w) := by
      refine h1.clearExec ?_ (Or.inl (h.drained w (Or.inl hdr)).1)
      intro hc t ha
      rcases hw.seq hc t w ha with h3 | ⟨q, h3⟩ <;> simp [hdr] at h3
    refine ⟨h2, ?_⟩
    intro hsd hrx
    have hany : anyRx (clearExec { s with main := upd s.main w .exited } w) = anyRx s := by
      rw [anyRx_clearExec]
      refine anyRx_congr (s := s) rfl ?_
      intro w' _
      show (upd s.main w .exited w').holdsRx = _
      rw [upd_apply]; split
      · rename_i he; rw [he, hdr]; rfl
      · rfl
    rw [hany] at hrx
    exact h.freedq hsd hrx
  | joinReturn =>
    obtain ⟨hsend, hj, hall, rfl⟩ := joinReturn?_some hs
    refine ⟨⟨h.drained, h.qpos, ?_, h.seqdrop, h.anydrop⟩, h.freedq⟩
    intro r hr
    have hr : some (firstDead s) = some r := hr
    exact ⟨hsend, hall, (Option.some.inj hr).symm⟩

/-! ### `firstDead`: the panic `join` resumes -/

def deadPayload (m : Main) : Option Nat := match m with | .dead p => some p | _ => none

theorem findSome_range_spec (f : Nat → Option Nat) (n : Nat) :
    match (List.range n).findSome? f with
    | none => ∀ w, w < n → f w = none
    | some p => ∃ w, w < n ∧ f w = some p ∧ ∀ w', w' < w → f w' = none := by
  induction n with
  | zero => simp
  | succ n ih =>
    rw [List.range_succ, List.findSome?_append]
    cases h : (List.range n).findSome? f with
    | none =>
      rw [h] at ih
      simp only [Option.none_or, List.findSome?_cons, List.findSome?_nil]
      cases hn : f n with
      | none =>
        intro w hw
        by_cases hwn : w = n
        · rw [hwn]; exact hn
        · exact ih w (by omega)
      | some p => exact ⟨n, by omega, hn, fun w' hw' => ih w' hw'⟩
    | some p =>
      rw [h] at ih
      simp only [Option.some_or]
      obtain ⟨w, hw, hf, hlt⟩ := ih
      exact ⟨w, by omega, hf, hlt⟩

theorem firstDead_none {s : St} (h : firstDead s = none) : ∀ w, w < s.nw → ∀ p, s.main w ≠ .dead p := by
  have := findSome_range_spec (fun w => deadPayload (s.main w)) s.nw
  have hfd : firstDead s = (List.range s.nw).findSome? (fun w => deadPayload (s.main w)) := rfl
  rw [← hfd, h] at this
  intro w hw p hm
  have := this w hw
  simp [deadPayload, hm] at this

theorem firstDead_some {s : St} {p : Nat} (h : firstDead s = some p) :
    ∃ w, w < s.nw ∧ s.main w = .dead p ∧ ∀ w', w' < w → ∀ q, s.main w' ≠ .dead q := by
  have := findSome_range_spec (fun w => deadPayload (s.main w)) s.nw
  have hfd : firstDead s = (List.range s.nw).findSome? (fun w => deadPayload (s.main w)) := rfl
  rw [← hfd, h] at this
  obtain ⟨w, hw, hf, hlt⟩ := this
  refine ⟨w, hw, ?_, ?_⟩
  · cases hm : s.main w <;> simp [deadPayload, hm] at hf
    rw [hf]
  · intro w' hw' q hm
    have := hlt w' hw'
    simp [deadPayload, hm] at this

/-! ### worker indices recorded in task places are workers of this dispatcher -/

def widx : TStat → Option Nat
  | .spawned w | .running w _ | .done w | .dropped (some w) => some w
  | _ => none

def XInv (s : St) : Prop := ∀ t w, widx (s.stat t) = some w → w < s.nw

theorem XInv.same {s s' : St} (h : XInv s) (h1 : s'.stat = s.stat) (h2 : s'.nw = s.nw) : XInv s' := by
  intro t w; rw [h1, h2]; exact h t w

theorem XInv.setStat {s s' : St} (h : XInv s) {t : Nat} {x : TStat} (hx : ∀ w, widx x = some w → w < s.nw)
    (h1 : s'.stat = upd s.stat t x) (h2 : s'.nw = s.nw) : XInv s' := by
  intro t' w; rw [h1, h2, upd_apply]
  by_cases ht : t' = t
  · simp [ht]; exact hx w
  · simp [ht]; exact h t' w

theorem XInv.clearExec {s : St} (h : XInv s) (w : Nat) : XInv (clearExec s w) := by
  intro t w'
  rw [clearExec_stat, clearExec_nw]
  by_cases ha : (s.stat t).activeOn w = true
  · simp only [ha, if_true]
    intro hw
    apply h t w'
    cases hst : s.stat t <;> simp [hst, TStat.dropIt, widx] at hw ⊢
    exact hw
  · simp only [ha]; exact h t w'

theorem XInv.gc {s : St} (h : XInv s) : XInv (gc s) := by
  intro t w
  rw [gc_stat, gc_nw]
  by_cases hg : freed s = true ∧ t ∈ s.queue
  · simp [hg, widx]
  · simp only [hg, if_false]; exact h t w

theorem XInv.step {s s' : St} {e : Event} (h : XInv s) (hs : step? s e = some s') : XInv s' := by
  cases e with
  | dispatch d t b =>
    obtain ⟨_, _, _, hc | hc⟩ := dispatch?_some hs
    · obtain ⟨_, rfl⟩ := hc; exact h.setStat (t := t) (x := .queued) (by simp [widx]) rfl rfl
    · obtain ⟨_, rfl⟩ := hc; exact h.same rfl rfl
  | dispatchBlocking d t b ok =>
    obtain ⟨_, _, _, hc | hc⟩ := dispatchBlocking?_some hs
    · obtain ⟨_, rfl⟩ := hc; exact h.setStat (t := t) (x := .pooled) (by simp [widx]) rfl rfl
    · obtain ⟨_, rfl⟩ := hc; exact h.same rfl rfl
  | runBlocking t =>
    obtain ⟨_, hc | hc⟩ := runBlocking?_some hs
    · obtain ⟨v, _, rfl⟩ := hc; exact h.setStat (t := t) (x := .poolDone) (by simp [widx]) rfl rfl
    · obtain ⟨_, rfl⟩ := hc; exact h.setStat (t := t) (x := .poolDone) (by simp [widx]) rfl rfl
  | rxDrop t => obtain ⟨_, _, rfl⟩ := rxDrop?_some hs; exact h.same rfl rfl
  | recv w t =>
    obtain ⟨hlt, _, _, rfl⟩ := recv?_some hs
    exact h.setStat (t := t) (x := .spawned w) (by simp [widx]; exact hlt) rfl rfl
  | poll w t =>
    obtain ⟨hlt, _, hc | hc | hc | hc⟩ := poll?_some hs
    · obtain ⟨_, rfl⟩ := hc; exact h.setStat (t := t) (by simp [widx]; exact hlt) rfl rfl
    · obtain ⟨k, _, rfl⟩ := hc; exact h.setStat (t := t) (by simp [widx]; exact hlt) rfl rfl
    · obtain ⟨v, _, _, rfl⟩ := hc; exact h.setStat (t := t) (by simp [widx]; exact hlt) rfl rfl
    · obtain ⟨_, _, rfl⟩ := hc; exact h.setStat (t := t) (by simp [widx]; exact hlt) rfl rfl
  | remoteWake t => obtain ⟨_, rfl⟩ := remoteWake?_some hs; exact h.same rfl rfl
  | die w p => obtain ⟨_, _, rfl⟩ := die?_some hs; exact h.same rfl rfl
  | reap w =>
    obtain ⟨p, _, _, rfl⟩ := reap?_some hs
    exact ((h.same (s' := { s with main := upd s.main w (.dead p) }) rfl rfl).clearExec w).gc
  | joinStart =>
    obtain ⟨_, rfl⟩ := joinStart?_some hs
    exact (h.same (s' := { s with sender := false }) rfl rfl).gc
  | joinPool => obtain ⟨_, _, rfl⟩ := joinHand?_some hs; exact h.same rfl rfl
  | joinFallbackThread => obtain ⟨_, _, rfl⟩ := joinHand?_some hs; exact h.same rfl rfl
  | exitLoop w => obtain ⟨_, _, _, _, rfl⟩ := exitLoop?_some hs; exact h.same rfl rfl
  | teardown w =>
    obtain ⟨_, _, rfl⟩ := teardown?_some hs
    exact (h.same (s' := { s with main := upd s.main w .exited }) rfl rfl).clearExec w
  | joinReturn => obtain ⟨_, _, _, rfl⟩ := joinReturn?_some hs; exact h.same rfl rfl

/-! ### `join` returns through the joiner closure only -/

/-- `join` has returned only if the closure joining the threads was handed over -- to the pool or to the
fallback thread -/
def NInv (s : St) : Prop := ∀ r, s.joined = some r → s.joiner.isSome = true

theorem NInv.same {s s' : St} (h : NInv s) (h1 : s'.joined = s.joined) (h2 : s'.joiner = s.joiner) : NInv s' := by
  intro r; rw [h1, h2]; exact h r

theorem NInv.step {s s' : St} {e : Event} (h : NInv s) (hs : step? s e = some s') : NInv s' := by
  cases e with
  | dispatch d t b =>
    obtain ⟨_, _, _, hc | hc⟩ := dispatch?_some hs <;> (obtain ⟨_, rfl⟩ := hc; exact h.same rfl rfl)
  | dispatchBlocking d t b ok =>
    obtain ⟨_, _, _, hc | hc⟩ := dispatchBlocking?_some hs <;> (obtain ⟨_, rfl⟩ := hc; exact h.same rfl rfl)
  | runBlocking t =>
    obtain ⟨_, hc | hc⟩ := runBlocking?_some hs
    · obtain ⟨v, _, rfl⟩ := hc; exact h.same rfl rfl
    · obtain ⟨_, rfl⟩ := hc; exact h.same rfl rfl
  | rxDrop t => obtain ⟨_, _, rfl⟩ := rxDrop?_some hs; exact h.same rfl rfl
  | recv w t => obtain ⟨_, _, _, rfl⟩ := recv?_some hs; exact h.same rfl rfl
  | poll w t =>
    obtain ⟨_, _, hc | hc | hc | hc⟩ := poll?_some hs
    · obtain ⟨_, rfl⟩ := hc; exact h.same rfl rfl
    · obtain ⟨k, _, rfl⟩ := hc; exact h.same rfl rfl
    · obtain ⟨v, _, _, rfl⟩ := hc; exact h.same rfl rfl
    · obtain ⟨_, _, rfl⟩ := hc; exact h.same rfl rfl
  | remoteWake t => obtain ⟨_, rfl⟩ := remoteWake?_some hs; exact h.same rfl rfl
  | die w p => obtain ⟨_, _, rfl⟩ := die?_some hs; exact h.same rfl rfl
  | reap w => obtain ⟨p, _, _, rfl⟩ := reap?_some hs; exact h.same (by simp) (by simp)
  | joinStart => obtain ⟨_, rfl⟩ := joinStart?_some hs; exact h.same (by simp) (by simp)
  | joinPool =>
    obtain ⟨_, _, rfl⟩ := joinHand?_some hs
    intro r _; rfl
  | joinFallbackThread =>
    obtain ⟨_, _, rfl⟩ := joinHand?_some hs
    intro r _; rfl
  | exitLoop w => obtain ⟨_, _, _, _, rfl⟩ := exitLoop?_some hs; exact h.same rfl rfl
  | teardown w => obtain ⟨_, _, rfl⟩ := teardown?_some hs; exact h.same rfl rfl
  | joinReturn =>
    have hj := joinReturn?_joiner hs
    obtain ⟨_, _, _, rfl⟩ := joinReturn?_some hs
    intro r _; exact hj

/-! ### all invariants together -/

structure Inv (s : St) : Prop where
  t : TInv s
  w : WInv s
  j : JInv s
  x : XInv s
  n : NInv s

theorem Inv.init (nw : Nat) (conc : Bool) : Inv (init nw conc) :=
  ⟨TInv.init nw conc, WInv.init nw conc, JInv.init nw conc, by intro t w; simp [Compio.Dispatcher.init, widx],
   by intro r; simp [Compio.Dispatcher.init]⟩

theorem Inv.step {s s' : St} {e : Event} (h : Inv s) (hs : step? s e = some s') : Inv s' :=
  ⟨h.t.step hs, h.w.step h.t.q hs, h.j.step h.w hs, h.x.step hs, h.n.step hs⟩

theorem Reachable.inv {nw : Nat} {conc : Bool} {s : St} (h : Reachable nw conc s) : Inv s := by
  obtain ⟨evs, h⟩ := h
  exact run?_invariant (P := Inv) (fun _ _ _ hp hs => hp.step hs) (Inv.init nw conc) h

theorem Reachable.nw_conc {nw : Nat} {conc : Bool} {s : St} (h : Reachable nw conc s) :
    s.nw = nw ∧ s.conc = conc := by
  obtain ⟨evs, h⟩ := h
  refine run?_invariant (P := fun s => s.nw = nw ∧ s.conc = conc) ?_ ⟨rfl, rfl⟩ h
  intro s s' e hp hs
  cases e with
  | dispatch d t b =>
    obtain ⟨_, _, _, hc | hc⟩ := dispatch?_some hs <;> (obtain ⟨_, rfl⟩ := hc; exact hp)
  | dispatchBlocking d t b ok =>
    obtain ⟨_, _, _, hc | hc⟩ := dispatchBlocking?_some hs <;> (obtain ⟨_, rfl⟩ := hc; exact hp)
  | runBlocking t =>
    obtain ⟨_, hc | hc⟩ := runBlocking?_some hs
    · obtain ⟨v, _, rfl⟩ := hc; exact hp
    · obtain ⟨_, rfl⟩ := hc; exact hp
  | rxDrop t => obtain ⟨_, _, rfl⟩ := rxDrop?_some hs; exact hp
  | recv w t => obtain ⟨_, _, _, rfl⟩ := recv?_some hs; exact hp
  | poll w t =>
    obtain ⟨_, _, hc | hc | hc | hc⟩ := poll?_some hs
    · obtain ⟨_, rfl⟩ := hc; exact hp
    · obtain ⟨k, _, rfl⟩ := hc; exact hp
    · obtain ⟨v, _, _, rfl⟩ := hc; exact hp
    · obtain ⟨_, _, rfl⟩ := hc; exact hp
  | remoteWake t => obtain ⟨_, rfl⟩ := remoteWake?_some hs; exact hp
  | die w p => obtain ⟨_, _, rfl⟩ := die?_some hs; exact hp
  | reap w => obtain ⟨p, _, _, rfl⟩ := reap?_some hs; simpa using hp
  | joinStart => obtain ⟨_, rfl⟩ := joinStart?_some hs; simpa using hp
  | joinPool => obtain ⟨_, _, rfl⟩ := joinHand?_some hs; exact hp
  | joinFallbackThread => obtain ⟨_, _, rfl⟩ := joinHand?_some hs; exact hp
  | exitLoop w => obtain ⟨_, _, _, _, rfl⟩ := exitLoop?_some hs; exact hp
  | teardown w => obtain ⟨_, _, rfl⟩ := teardown?_some hs; exact hp
  | joinReturn => obtain ⟨_, _, _, rfl⟩ := joinReturn?_some hs; exact hp

end Compio.Dispatcher
