/-
C05 — Cancellation is prompt, honest and local.

Stated over the key life-cycle LTS (`Compio.KeyLife`, the same `step` the model driver `c05d` executes):
`cancelKey` is `Proactor::cancel(key)` (what dropping a submitted future / a timed-out future does),
`cancelTok` is `Proactor::cancel_token`, `cancelIssue` their common tail that reaches `Driver::cancel`,
`Token` is compio-runtime's `CancelToken` registry.

Thread-pool operations are excluded from promptness (documented as not interruptible): `pollCancel` does
nothing for them and io_uring has nothing to cancel.

io_uring promptness has ONE condition left: the kernel honours `AsyncCancel` (A-K2, an assumption about the
environment: the `kPost` in `iour_cancel_prompt`). The second one — the cancel SQE must find room in the submission
queue (finding F9) — is gone since commit 0f15c6d: `iour::Driver::cancel` goes through `push_raw`, which the extractor
reads from the source (`Gen.iourCancelUsesPushRaw = true`). `Compio.Cex.C05` keeps the pre-fix behaviour
(`iourCancelUnfixed`) as a witness. Note that a cancel whose SQE overflows the queue now submits and reaps completions
INSIDE `cancel` / `cancel_token` (`overflowDrain`).
-/
import Compio.Lemmas.KeyLifeCancel
import Compio.Gen.WithCancel
import Compio.Model.ExtStack
import Compio.Model.KeyLifeScript05

namespace Compio.Props.C05

open Compio Compio.KeyLife Compio.PollQueues

/-! ### idempotence: cancelling twice, or after completion, is harmless -/

/-- `Proactor::cancel` on an op whose `cancelled` flag is set (`set_cancelled()` returned true) only drops the
key that was passed in: no driver action — no SQE, no queue change, no completed-channel entry. -/
theorem cancel_again_no_driver_action (c : Cfg) (s : State) (id : Nat) (o : Op) (posts : List (Nat × Bool × Res))
    (hc : o.cancelled = true) :
    cancelKey c s id o posts = { s with ops := modAt (fun o => { o with user := o.user - 1 }.dropRef) s.ops id } := by
  unfold cancelKey; simp [hc]

/-- `Proactor::cancel_token` on an op that is already cancelled or already completed returns `false` and
leaves the driver and the op as they were (the temporary key from the upgrade is dropped again). -/
theorem cancel_token_again_no_driver_action (c : Cfg) (s : State) (id : Nat) (o : Op)
    (posts : List (Nat × Bool × Res)) (ho : s.ops[id]? = some o)
    (hc : o.cancelled = true ∨ o.result.isSome = true) :
    cancelTokRet o = false ∧
      (cancelTok c s id o posts).sqLen = s.sqLen ∧ (cancelTok c s id o posts).reg = s.reg ∧
      (cancelTok c s id o posts).armed = s.armed ∧
      (∀ j, j ≠ id → (cancelTok c s id o posts).ops[j]? = s.ops[j]?) ∧
      ∃ x, (cancelTok c s id o posts).ops[id]? = some x ∧ x.cancelSq = o.cancelSq ∧ x.chan = o.chan ∧
        x.user = o.user ∧ x.result = o.result ∧ x.kcancel = o.kcancel := by
  refine ⟨?_, ?_, ?_, ?_, ?_, ?_⟩
  · unfold cancelTokRet
    rcases hc with h | h
    · simp [h]
    · cases hr : o.result with
      | none => rw [hr] at h; cases h
      | some r => simp
  all_goals unfold cancelTok; simp only [hc, if_true]
  · intro j hj
    simp only [getElem?_modAt_ne _ _ (Ne.symm hj)]
  · refine ⟨_, modAt_get (modAt_get ho), rfl, rfl, ?_, rfl, rfl⟩
    simp only [Op.dropRef, Op.dropRefs, Op.cloneRef]; omega

/-- **cancel after completion returns the genuine result**: a unique key with a result (`is_unique ∧
has_result`) is not sent to the driver; the op goes back to the caller with exactly the stored result, and
that result is one the kernel / `operate` / the pool closure produced (or ECANCELED from an earlier cancel). -/
theorem cancel_after_complete_returns_genuine_result {c : Cfg} {d : Drv} {cap : Nat} {evs : List Event} {s : State}
    (h : run c (init d cap) evs = some s) {id : Nat} {o : Op} (ho : s.ops[id]? = some o)
    (hc : o.cancelled = false) (hu : o.rc = 1) {r : Res} (hr : o.result = some r) (c' : Cfg)
    (posts : List (Nat × Bool × Res)) :
    (∃ x, (cancelKey c' s id o posts).ops[id]? = some x ∧ x.returned = o.returned + 1 ∧ x.result = some r ∧
        x.freed = o.freed) ∧
      (cancelKey c' s id o posts).sqLen = s.sqLen ∧ (cancelKey c' s id o posts).reg = s.reg ∧
      (r ∈ o.produced ∨ r = ECANCELED) := by
  have hg := (reach_inv2 h id o ho).h_result r hr
  have hcond : o.rc = 1 ∧ o.result.isSome = true := ⟨hu, by rw [hr]; rfl⟩
  refine ⟨?_, ?_, ?_, hg⟩
  · unfold cancelKey
    simp only [hc, hcond, and_self, if_true, Bool.false_eq_true, if_false]
    exact ⟨_, modAt_get ho, rfl, hr, rfl⟩
  all_goals unfold cancelKey; simp only [hc, hcond, and_self, if_true, Bool.false_eq_true, if_false]

/-! ### honesty -/

/-- **never a fabricated result**: in every reachable state, whatever sits in a result slot, in the queue of
multishot results, in an entry of the completed channel or in an unseen CQE is a value that the kernel,
`operate` or the pool closure produced for THIS operation — or ECANCELED. -/
theorem honesty {c : Cfg} {d : Drv} {cap : Nat} {evs : List Event} {s : State}
    (h : run c (init d cap) evs = some s) {i : Nat} {o : Op} (ho : s.ops[i]? = some o) :
    (∀ r, o.result = some r → r ∈ o.produced ∨ r = ECANCELED) ∧
      (∀ r, r ∈ o.multi → r ∈ o.produced ∨ r = ECANCELED) ∧
      (∀ r, r ∈ o.chan → r ∈ o.produced ∨ r = ECANCELED) := by
  have ok := reach_inv2 h i o ho
  exact ⟨ok.h_result, ok.h_multi, ok.h_chan⟩

/-- in particular a reported success is a success the environment produced -/
theorem no_fabricated_success {c : Cfg} {d : Drv} {cap : Nat} {evs : List Event} {s : State}
    (h : run c (init d cap) evs = some s) {i : Nat} {o : Op} (ho : s.ops[i]? = some o) {n : Nat}
    (hr : o.result = some (.ok n)) : Res.ok n ∈ o.produced := by
  rcases (honesty h ho).1 _ hr with h1 | h1
  · exact h1
  · simp [ECANCELED] at h1

/-! ### locality and promptness on the polling driver -/

/-- **locality**: cancelling op `id` (a descriptor op, not yet cancelled) on the polling driver
* filters exactly `id` out of both queues of ITS descriptor and keeps everything else in place and in order,
* leaves the queues of every other descriptor alone,
* re-arms the poller for what remains on that descriptor (`renew`), other descriptors keep their interest,
* touches no other operation,
* emits exactly one completed-channel entry for `id`, carrying ECANCELED. -/
theorem poll_cancel_local (c : Cfg) (s : State) (id : Nat) (o : Op) (posts : List (Nat × Bool × Res))
    (hd : s.drv = .poll) (ho : s.ops[id]? = some o) (hk : o.kind ≠ .blocking) :
    (∀ fd dir, ((cancelIssue c s id o posts).reg fd).sel dir =
        if fd = o.fd then ((s.reg fd).sel dir).filter (· != id) else (s.reg fd).sel dir) ∧
      (cancelIssue c s id o posts).armed o.fd = ((cancelIssue c s id o posts).reg o.fd).event ∧
      (∀ fd, fd ≠ o.fd → (cancelIssue c s id o posts).armed fd = s.armed fd) ∧
      (∀ j, j ≠ id → (cancelIssue c s id o posts).ops[j]? = s.ops[j]?) ∧
      (∃ x, (cancelIssue c s id o posts).ops[id]? = some x ∧ x.chan = o.chan ++ [ECANCELED] ∧ x.cancelled = true) := by
  have hreg : (cancelIssue c s id o posts).reg = upd s.reg o.fd ((s.reg o.fd).remove id) := by
    unfold cancelIssue driverCancel pollCancel; simp [hd, hk]
  have harm : (cancelIssue c s id o posts).armed = upd s.armed o.fd ((s.reg o.fd).remove id).event := by
    unfold cancelIssue driverCancel pollCancel; simp [hd, hk]
  refine ⟨?_, ?_, ?_, fun j hj => cancelIssue_frame_poll c s id o posts hd hj, ?_⟩
  · intro fd dir
    rw [hreg]
    by_cases hf : fd = o.fd
    · subst hf; simp only [upd_same, FdQ.sel_remove, if_true]
    · simp only [upd_other _ _ _ _ hf, hf, if_false]
  · rw [hreg, harm]; simp only [upd_same]
  · intro fd hf; rw [harm]; exact upd_other _ _ _ _ hf
  · unfold cancelIssue driverCancel pollCancel
    simp only [hd, hk, if_false]
    exact ⟨_, modAt_get (modAt_get (modAt_get ho)), rfl, rfl⟩

/-- **promptness (polling)**: after such a cancel the very next `poll` — its first action is to drain the
completed channel — completes the op, whatever the readiness of any descriptor. If nothing else was queued for
it the result is ECANCELED. -/
theorem poll_cancel_prompt {c : Cfg} (s : State) (id : Nat) (o : Op) (posts : List (Nat × Bool × Res))
    (hd : s.drv = .poll) (ho : s.ops[id]? = some o) (hk : o.kind ≠ .blocking) {s' : State}
    (hp : step c (cancelIssue c s id o posts) .pollBlocking = some s') :
    ∃ x, s'.ops[id]? = some x ∧ x.result = some ECANCELED ∧ x.chan = [] := by
  obtain ⟨x, hx, hchan, _⟩ := (poll_cancel_local c s id o posts hd ho hk).2.2.2.2
  simp only [step] at hp
  split at hp
  · obtain rfl := Option.some.inj hp
    refine ⟨x.drainChan, map_get hx, ?_, ?_⟩
    · unfold Op.drainChan
      rw [hchan]; simp [Op.dropRefs]
    · unfold Op.drainChan
      rw [hchan]; simp [Op.dropRefs]
  · cases hp

/-! ### cancel tokens -/

/-- **weak tokens never keep an operation alive**: registering a token changes nothing but the token count;
the strong count and every holder stay as they are (`refcount_eq_holders` of C01 has no term for tokens). -/
theorem token_register_holds_nothing {c : Cfg} {s s' : State} {id : Nat}
    (h : step c s (.tokenRegister id) = some s') :
    s'.reg = s.reg ∧ (∀ j, j ≠ id → s'.ops[j]? = s.ops[j]?) ∧
      ∃ o, s.ops[id]? = some o ∧ s'.ops[id]? = some { o with weak := o.weak + 1 } := by
  simp only [step] at h
  split at h
  · rename_i o ho
    split at h
    · obtain rfl := Option.some.inj h
      exact ⟨rfl, fun j hj => getElem?_modAt_ne _ _ (Ne.symm hj), o, ho, modAt_get ho⟩
    · cases h
  · cases h

/-- a token whose operation is gone (freed or handed back) cannot be upgraded: `cancel_token` does nothing -/
theorem dead_token_does_nothing {c : Cfg} {s s' : State} {id : Nat} {o : Op} {posts : List (Nat × Bool × Res)}
    (ho : s.ops[id]? = some o) (hrc : o.rc = 0) (h : step c s (.tokenCancel id posts) = some s') :
    s' = s ∧ cancelTokRet o = false :=
  ⟨(tokenCancel_effect h).2.2 o ho hrc, by simp [cancelTokRet, hrc]⟩

/-- "dealt with": flagged cancelled, or already released (then there is nothing left to cancel) -/
def Done (x : Op) : Prop := x.cancelled = true ∨ x.rc = 0

/-- **a fired `CancelToken` cancels exactly what was registered with it**: running the events of
`CancelToken::cancel()` (for every order of the registered set — the statement is for every list — and whatever the
kernel posts meanwhile, `env`)
* never touches handles, flags or identity of an operation that is not registered (`Same`; it may progress on
  io_uring, because a cancel that overflows the submission queue submits and reaps completions, but it is not
  cancelled),
* leaves every registered operation flagged cancelled — or released, if it completed and was let go before its turn,
* and un-cancels nothing. -/
theorem token_cancels_exactly_the_registered {c : Cfg} (env : Nat → List (Nat × Bool × Res)) :
    ∀ (regs : List Nat) (s s' : State),
      run c s ((regs.map fun id => [Event.tokenCancel id (env id), Event.tokenDrop id]).flatten) = some s' →
      (∀ (j : Nat) (x : Op), j ∉ regs → s.ops[j]? = some x → ∃ x', s'.ops[j]? = some x' ∧ Same x x') ∧
      (∀ id, id ∈ regs → ∀ o : Op, s.ops[id]? = some o → ∃ x, s'.ops[id]? = some x ∧ Done x) ∧
      (∀ (i : Nat) (x : Op), s.ops[i]? = some x → ∃ x', s'.ops[i]? = some x' ∧ (Done x → Done x')) := by
  intro regs
  induction regs with
  | nil =>
    intro s s' h
    simp [run] at h; subst h
    exact ⟨fun j x _ hx => ⟨x, hx, Same.rfl' x⟩, fun _ hm => (by cases hm), fun i x hx => ⟨x, hx, fun hd => hd⟩⟩
  | cons a rest ih =>
    intro s s' h
    simp only [List.map_cons, List.flatten_cons, List.cons_append, List.nil_append, run] at h
    split at h
    · rename_i s1 hs1
      split at h
      · rename_i s2 hs2
        obtain ⟨f1, c1, d1⟩ := tokenCancel_effect hs1
        obtain ⟨f2, c2⟩ := tokenDrop_effect hs2
        obtain ⟨g1, g2, g3⟩ := ih s2 s' h
        -- every op survives the pair; `Done` is kept; the target is `Done` afterwards
        have pair : ∀ (i : Nat) (x : Op), s.ops[i]? = some x → ∃ x2, s2.ops[i]? = some x2 ∧ (Done x → Done x2) ∧
            (i ≠ a → Same x x2) ∧ (i = a → Done x2) := by
          intro i x hx
          by_cases hia : i = a
          · subst hia
            by_cases hp : 0 < x.rc
            · obtain ⟨y, hy, hyc⟩ := c1 x hx hp
              obtain ⟨z, hz, hzc, _⟩ := c2 y hy
              exact ⟨z, hz, fun _ => Or.inl (by rw [hzc]; exact hyc), fun e => absurd rfl e,
                fun _ => Or.inl (by rw [hzc]; exact hyc)⟩
            · have h0 : x.rc = 0 := by omega
              have := d1 x hx h0
              subst this
              obtain ⟨z, hz, hzc, hzr⟩ := c2 x hx
              exact ⟨z, hz, fun _ => Or.inr (by rw [hzr]; exact h0), fun e => absurd rfl e,
                fun _ => Or.inr (by rw [hzr]; exact h0)⟩
          · obtain ⟨y, hy, hs⟩ := f1 i x hia hx
            refine ⟨y, by rw [f2 i hia]; exact hy, ?_, fun _ => hs, fun e => absurd e hia⟩
            intro hd
            rcases hd with hd | hd
            · exact Or.inl (by rw [hs.cancelled]; exact hd)
            · exact Or.inr (hs.dead hd)
        refine ⟨?_, ?_, ?_⟩
        · intro j x hj hx
          have hja : j ≠ a := fun e => hj (by rw [e]; exact List.mem_cons_self)
          have hjr : j ∉ rest := fun e => hj (List.mem_cons_of_mem _ e)
          obtain ⟨x2, hx2, _, hs, _⟩ := pair j x hx
          obtain ⟨x', hx', hs'⟩ := g1 j x2 hjr hx2
          exact ⟨x', hx', (hs hja).trans hs'⟩
        · intro id hid o ho
          obtain ⟨x2, hx2, _, _, hda⟩ := pair id o ho
          by_cases hir : id ∈ rest
          · exact g2 id hir x2 hx2
          · have hia : id = a := by
              rcases List.mem_cons.mp hid with h1 | h1
              · exact h1
              · exact absurd h1 hir
            obtain ⟨x', hx', hd'⟩ := g3 id x2 hx2
            exact ⟨x', hx', hd' (hda hia)⟩
        · intro i x hx
          obtain ⟨x2, hx2, hd, _, _⟩ := pair i x hx
          obtain ⟨x', hx', hd'⟩ := g3 i x2 hx2
          exact ⟨x', hx', fun h => hd' (hd h)⟩
      · cases h
    · cases h

/-- the events of `CancelToken::cancel()` are exactly one `cancel_token` per registered operation; a second
`cancel()` issues nothing -/
theorem token_cancel_events (t : Token) (env : Nat → List (Nat × Bool × Res)) :
    (t.fired = false →
        (t.cancel env).2 = (t.regs.map fun id => [Event.tokenCancel id (env id), Event.tokenDrop id]).flatten ∧
        (t.cancel env).1.fired = true ∧ (t.cancel env).1.regs = []) ∧
      (t.fired = true → (t.cancel env).2 = [] ∧ (t.cancel env).1 = t) := by
  constructor <;> intro h <;> simp [Token.cancel, h]

/-- **registration after the token fired**: the operation is cancelled at once, through a clone of its key; no other
operation is cancelled -/
theorem late_registration_cancels {c : Cfg} (t : Token) (ht : t.fired = true) (id : Nat)
    (posts : List (Nat × Bool × Res)) {s s' : State} (h : run c s (t.register id posts).2 = some s') :
    (t.register id posts).2 = [.cloneCancel id posts] ∧
      (∀ (j : Nat) (x : Op), j ≠ id → s.ops[j]? = some x → ∃ x', s'.ops[j]? = some x' ∧ Same x x') ∧
      ∃ x, s'.ops[id]? = some x ∧ x.cancelled = true := by
  have he : (t.register id posts).2 = [.cloneCancel id posts] := by simp [Token.register, ht]
  rw [he] at h
  simp only [run] at h
  split at h
  · rename_i s1 hs1
    obtain rfl := Option.some.inj h
    simp only [step] at hs1
    split at hs1
    · rename_i o ho
      split at hs1
      · obtain rfl := Option.some.inj hs1
        have h0 : ({ s with ops := modAt (fun o => ({ o.cloneRef with user := o.user + 1 } : Op)) s.ops id } :
            State).ops[id]? = some { o.cloneRef with user := o.user + 1 } := modAt_get ho
        refine ⟨he, ?_, ?_⟩
        · intro j x hj hx
          refine cancelKey_same c _ id _ posts hj ?_
          show (modAt _ s.ops id)[j]? = some x
          rw [getElem?_modAt_ne _ _ (Ne.symm hj)]; exact hx
        · unfold cancelKey
          split
          · rename_i hc
            exact ⟨_, modAt_get h0, hc⟩
          · split
            · exact ⟨_, modAt_get h0, rfl⟩
            · exact cancelIssue_cancelled c _ id _ posts h0
      · cases hs1
    · cases hs1
  · cases h

/-- the token theorems above reach `Submit::poll` because `WithCancel::poll` / `poll_next` poll the wrapped future ONLY
through an `ExtWaker` that carries the token — the shape of both bodies is checked against the source by the extractor
(target `WithCancel`, fails closed), and the runtime-level cases of the harness (`rt/*`: real `Runtime`, ops submitted
before and after the token fires) are predicted by running `Token.register` / `Token.cancel` through `step` -/
theorem with_cancel_carries_token : Gen.withCancelAlwaysWrapsWaker = true := rfl

/-- every `Ext::with_*` builder of the source (regenerated table `Gen.extBuilders`) either sets the cancel token or
preserves it -/
theorem ext_builders_keep_the_token :
    ∀ r, r ∈ Gen.extBuilders → (r.2.1.contains "cancel" || r.2.2.1.contains "cancel") = true := by decide

/-- … and, more generally, preserves every field it does not set (none is dropped) -/
theorem ext_builders_drop_nothing : ∀ r, r ∈ Gen.extBuilders → r.2.2.2 = [] := by decide

/-- **a token attached by an outer `with_cancel` is visible to `Submit::poll` through any stack of inner combinators**
(and whatever is wrapped around it further out): for every `outer` and `inner` lists of combinators. -/
theorem outer_token_visible_through_any_stack (outer inner : List String) :
    ExtStack.tokenVisible (outer ++ "with_cancel" :: inner) = true := by
  have keep : ∀ (e : ExtStack.Ext) (n : String), e.contains "cancel" = true → (ExtStack.applyBuilder e n).contains "cancel" = true := by
    intro e n he
    unfold ExtStack.applyBuilder
    cases hf : Gen.extBuilders.find? (fun r => r.1 == n) with
    | none => exact he
    | some r =>
      have hm : r ∈ Gen.extBuilders := List.mem_of_find?_eq_some hf
      have := ext_builders_keep_the_token r hm
      simp only [ExtStack.applyRow, List.contains_eq_mem, List.mem_append, List.mem_filter, decide_eq_true_eq,
        Bool.or_eq_true] at this he ⊢
      rcases this with h | h
      · exact Or.inl h
      · exact Or.inr ⟨he, h⟩
  have fold : ∀ (l : List String) (e : ExtStack.Ext), e.contains "cancel" = true →
      (l.foldl ExtStack.applyBuilder e).contains "cancel" = true := by
    intro l
    induction l with
    | nil => intro e he; exact he
    | cons n ns ih => intro e he; exact ih _ (keep e n he)
  unfold ExtStack.tokenVisible ExtStack.bottom
  rw [List.foldl_append, List.foldl_cons]
  apply fold
  -- `with_cancel` sets the field
  have hsets : ∀ r, r ∈ Gen.extBuilders → (r.1 == "with_cancel") = true → r.2.1.contains "cancel" = true := by decide
  have hex : (Gen.extBuilders.find? (fun r => r.1 == "with_cancel")).isSome = true := by decide
  unfold ExtStack.applyBuilder
  cases hf : Gen.extBuilders.find? (fun r => r.1 == "with_cancel") with
  | none => rw [hf] at hex; cases hex
  | some r =>
    have h1 := hsets r (List.mem_of_find?_eq_some hf) (List.find?_some (p := fun (r : String × List String × List String × List String) => r.1 == "with_cancel") hf)
    simp only [ExtStack.applyRow, List.contains_eq_mem, List.mem_append, decide_eq_true_eq] at h1 ⊢
    exact Or.inl h1

/-! ### promptness on io_uring: only the kernel is assumed -/

/-- **the cancel request is never lost** (repair of F9, `c.cancelPushRaw = true` — what the extractor reads from the
source): whatever the occupancy of the submission queue, after `Driver::cancel` the AsyncCancel SQE of the op sits
in the queue, nothing was dropped, and the op is flagged. With a full queue the driver first submitted and drained. -/
theorem iour_cancel_always_queued (c : Cfg) (hc : c.cancelPushRaw = true) (s : State) (id : Nat) (o : Op)
    (posts : List (Nat × Bool × Res)) (hd : s.drv = .iour) (ho : s.ops[id]? = some o) :
    0 < (cancelIssue c s id o posts).sqLen ∧
      ∃ x, (cancelIssue c s id o posts).ops[id]? = some x ∧ 0 < x.cancelSq ∧ x.cancelDropped = o.cancelDropped ∧
        x.cancelled = true := by
  have h1 : ({ s with ops := modAt (fun o => { o with cancelled := true }) s.ops id } : State).ops[id]?
      = some { o with cancelled := true } := modAt_get ho
  obtain ⟨hq, z, hz, hz1, hz2, hz3⟩ :=
    iourCancel_at c hc { s with ops := modAt (fun o => { o with cancelled := true }) s.ops id } id posts h1
  simp only [cancelIssue]
  rw [driverCancel_iour c { s with ops := modAt (fun o => { o with cancelled := true }) s.ops id } id o posts hd]
  exact ⟨hq, _, modAt_get hz, by simp only [Op.dropRef, Op.dropRefs]; exact hz1,
    by simp only [Op.dropRef, Op.dropRefs]; exact hz2, by simp only [Op.dropRef, Op.dropRefs]; exact hz3⟩

/-- **promptness (io_uring)**, without any condition on the submission queue: the AsyncCancel reaches the kernel with
the next submit (`kcancel`), and as soon as the kernel answers for the target — A-K2: it posts a final CQE,
`-ECANCELED` or the genuine result — the same poll completes the op with exactly that value. (If the op already
completed inside the cancel's own overflow round, the kernel has nothing left to post and the hypothesis is void:
the op is complete anyway.) -/
theorem iour_cancel_prompt {c : Cfg} (hc : c.cancelPushRaw = true) (s : State) (id : Nat) (o : Op)
    (posts : List (Nat × Bool × Res)) (hd : s.drv = .iour) (ho : s.ops[id]? = some o) (r : Res) {s' : State}
    (h : run c (cancelIssue c s id o posts) [.submit, .kPost id false r, .pollEntries] = some s') :
    ∃ x, s'.ops[id]? = some x ∧ x.kcancel = true ∧ x.result = some r ∧ x.inFl = false ∧ x.kstat = .done := by
  obtain ⟨_, x0, hx0, hsq, _, _⟩ := iour_cancel_always_queued c hc s id o posts hd ho
  simp only [run] at h
  split at h
  · rename_i s1 hs1
    split at h
    · rename_i s2 hs2
      split at h
      · rename_i s3 hs3
        obtain rfl := Option.some.inj h
        have h3 := pollEntries_op hs3 (kPost_final_op hs2 (submit_op hs1 hx0))
        refine ⟨_, h3, ?_, ?_, ?_, ?_⟩
        · simp [Op.drainCq, Op.dropRef, Op.dropRefs, Op.submit, hsq]
        · simp [Op.drainCq, Op.dropRef, Op.dropRefs, Op.submit]
        · simp [Op.drainCq, Op.dropRef, Op.dropRefs, Op.submit]
        · simp [Op.drainCq, Op.dropRef, Op.dropRefs, Op.submit]
      · cases h
    · cases h
  · cases h

/-- the code as it is (what the extractor reads) is the repaired one -/
theorem gen_cancel_is_repaired : Cfg.gen.cancelPushRaw = true := rfl

/-! ### non-vacuity -/

/-- three receives wait on one descriptor of the polling driver; the middle one is cancelled through a token:
the queue keeps the other two in order, the poller stays armed for the head, one ECANCELED entry is queued -/
example :
    (run Cfg.gen (init .poll 8) [.pushWait .single 0 .rd, .pushWait .single 0 .rd, .pushWait .single 0 .rd,
        .tokenRegister 1, .tokenCancel 1 []]).map
      (fun s => ((s.reg 0).rq, (s.armed 0).key, s.ops.map fun o => (o.cancelled, o.chan, o.rc)))
    = some ([0, 2], some 0, [(false, [], 2), (true, [ECANCELED], 2), (false, [], 2)]) := by rfl

/-- … the next poll completes it; the neighbours complete later with their own data -/
example :
    (run Cfg.gen (init .poll 8) [.pushWait .single 0 .rd, .pushWait .single 0 .rd, .pushWait .single 0 .rd,
        .tokenRegister 1, .tokenCancel 1 [], .pollBlocking, .fdEvent 0 true false (some (.ok 4)),
        .fdEvent 0 true false (some (.ok 4))]).map
      (fun s => ((s.reg 0).rq, s.ops.map fun o => (o.result, o.rc)))
    = some ([], [(some (.ok 4), 1), (some ECANCELED, 1), (some (.ok 4), 1)]) := by rfl

/-- io_uring: cancel, submit, the kernel answers, the poll completes the op -/
example :
    (run Cfg.gen (init .iour 8) [.pushSq .single 0 .rd, .submit, .tokenRegister 0, .tokenCancel 0 [], .submit,
        .kPost 0 false ECANCELED, .pollEntries, .userPop 0]).map
      (fun s => s.ops.map fun o => (o.kcancel, o.result, o.returned, o.cancelDropped))
    = some [(true, some ECANCELED, 1, 0)] := by rfl

/-- cancel after completion: the unique key gets its genuine result back, nothing goes to the driver -/
example :
    (run Cfg.gen (init .iour 8) [.pushSq .single 0 .rd, .submit, .kPost 0 false (.ok 4), .pollEntries,
        .userCancel 0 []]).map
      (fun s => (s.sqLen, s.ops.map fun o => (o.result, o.returned, o.cancelSq, o.freed)))
    = some (0, [(some (.ok 4), 1, 0, 0)]) := by rfl

/-- io_uring with a FULL submission queue (capacity 2, two receives pushed, nothing submitted): the cancel submits
the two receives, queues its SQE, and the next submit carries it to the kernel — the former F9 situation -/
example :
    (run Cfg.gen (init .iour 2) [.pushSq .single 0 .rd, .pushSq .single 1 .rd, .tokenRegister 0, .tokenCancel 0 [],
        .submit, .kPost 0 false ECANCELED, .pollEntries, .userPop 0]).map
      (fun s => s.ops.map fun o => (o.kstat, o.kcancel, o.result, o.returned, o.cancelDropped))
    = some [(.done, true, some ECANCELED, 1, 0), (.inflight, false, none, 0, 0)] := by rfl

/-! ### every submit flavour registers the fresh key unconditionally (table regenerated from future.rs / stream.rs) -/

/-- the three flavours are all there, each exactly once -/
theorem submit_flavours_complete : Gen.submitRegisterSites.map (·.1) = ["plain", "with_extra", "multi"] := by decide

/-- `Submit<T, ()>::poll`, `Submit<T, Extra>::poll`, `SubmitMulti::poll_next`: the `State::Idle` arm is exactly
`if let Some(cancel) = cx.get_cancel() { cancel.register(&key); }` — no condition on the state of the token -/
theorem submit_flavours_register_unconditionally :
    ∀ r ∈ Gen.submitRegisterSites, r.2.2.1 = true ∧ r.2.2.2 = true := by decide

/-- hence the model driver hands the key of every flavour to the token, fired or not -/
theorem every_flavour_reaches_the_token :
    ∀ fl ∈ ["plain", "with_extra", "multi"], ∀ fired : Bool,
      KeyLife.Script05.flavourRegisters Gen.submitRegisterSites fl fired = true := by decide

/-- **late registration, every submit flavour**: the flavour registers the key with the fired token
(`every_flavour_reaches_the_token`, from the source), and `Token.register` on a fired token cancels it at once
(`late_registration_cancels`) -/
theorem late_registration_cancels_every_flavour {c : Cfg} (fl : String) (hfl : fl ∈ ["plain", "with_extra", "multi"])
    (t : Token) (ht : t.fired = true) (id : Nat) (posts : List (Nat × Bool × Res)) {s s' : State}
    (h : run c s (t.register id posts).2 = some s') :
    KeyLife.Script05.flavourRegisters Gen.submitRegisterSites fl t.fired = true ∧
      (t.register id posts).2 = [.cloneCancel id posts] ∧ ∃ x, s'.ops[id]? = some x ∧ x.cancelled = true :=
  ⟨every_flavour_reaches_the_token fl hfl t.fired, (late_registration_cancels t ht id posts h).1,
    (late_registration_cancels t ht id posts h).2.2⟩

/-- a flavour whose registration is conditional (the seeded `cx.get_cancel().filter(|c| !c.is_cancelled())`) loses the late
registration: the obligation above is not vacuous -/
example : KeyLife.Script05.flavourRegisters [("with_extra", "f", true, false)] "with_extra" true = false := by decide

/-! ### operations waiting on several descriptors (polling driver, `Splice`): cancel is local and complete -/

/-- the cancel emits exactly ONE cancelled entry, for the cancelled operation, whatever the number of descriptors -/
theorem multi_cancel_one_entry (w : Multi05.MW) (id : Nat) (o : Multi05.MOp) (h : w.ops[id]? = some o) :
    (Multi05.pollCancelMulti w id).ops = modAt (fun o => { o with chan := o.chan ++ [ECANCELED] }) w.ops id ∧
      (Multi05.pollCancelMulti w id).reg = Multi05.cancelQueues w.reg (o.waits.map (·.1)) id := by
  simp [Multi05.pollCancelMulti, h]

theorem remove_remove (q : FdQ) (id : Nat) : (q.remove id).remove id = q.remove id := by
  simp [FdQ.remove, List.filter_filter]

/-- **locality and completeness of a multi-descriptor cancel, all queue states**: for every registry, every list of
descriptors and every key, each descriptor of the operation gets `remove id` (order of the others kept, `FdQ.remove` is a
filter) and every other descriptor is untouched -/
theorem multi_cancel_queues_eq (fds : List Nat) : ∀ (reg : Reg) (id fd : Nat),
    Multi05.cancelQueues reg fds id fd = if fd ∈ fds then (reg fd).remove id else reg fd := by
  induction fds with
  | nil => intro reg id fd; simp [Multi05.cancelQueues]
  | cons a rest ih =>
    intro reg id fd
    have h : Multi05.cancelQueues reg (a :: rest) id = Multi05.cancelQueues (upd reg a ((reg a).remove id)) rest id := by
      simp [Multi05.cancelQueues]
    rw [h, ih]
    by_cases hfa : fd = a
    · subst hfa
      simp [remove_remove]
    · simp [hfa, upd_other _ _ _ _ hfa]

/-- after the cancel the key is in NO queue of any of its descriptors: no later readiness event can pop it (`fdEvent` only runs
what `popInterest` returns), so nothing of the cancelled operation runs -/
theorem multi_cancel_gone (fds : List Nat) (reg : Reg) (id fd : Nat) (h : fd ∈ fds) :
    id ∉ (Multi05.cancelQueues reg fds id fd).rq ∧ id ∉ (Multi05.cancelQueues reg fds id fd).wq := by
  rw [multi_cancel_queues_eq, if_pos h]
  simp [FdQ.remove]

/-- non-vacuity: a splice (key 0) queued behind nothing on descriptors 0 (read) and 1 (write), a neighbour (key 1) behind it -/
example :
    let reg := Multi05.pushQueues (Multi05.pushQueues Reg.empty [(0, .rd), (1, .wr)] 0) [(0, .rd), (1, .wr)] 1
    ((Multi05.cancelQueues reg [0, 1] 0 0).rq, (Multi05.cancelQueues reg [0, 1] 0 1).wq) = ([1], [1]) := by decide

end Compio.Props.C05
