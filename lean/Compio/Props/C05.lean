/-
C05 — Cancellation is prompt, honest and local.

Stated over the key life-cycle LTS (`Compio.KeyLife`, the same `step` the model driver `c05d` executes):
`cancelKey` is `Proactor::cancel(key)` (what dropping a submitted future / a timed-out future does),
`cancelTok` is `Proactor::cancel_token`, `cancelIssue` their common tail that reaches `Driver::cancel`,
`Token` is compio-runtime's `CancelToken` registry.

Thread-pool operations are excluded from promptness (documented as not interruptible): `pollCancel` does
nothing for them and io_uring has nothing to cancel.

io_uring promptness needs two guards: the kernel honours `AsyncCancel` (A-K2, an assumption about the
environment: the `kPost` in `iour_cancel_prompt`), and the cancel SQE is actually queued — `iour::Driver::cancel`
drops it when the submission queue is full (finding F9, witness in `Compio.Cex.C05`).
-/
import Compio.Lemmas.KeyLifeCancel

namespace Compio.Props.C05

open Compio Compio.KeyLife Compio.PollQueues

/-! ### idempotence: cancelling twice, or after completion, is harmless -/

/-- `Proactor::cancel` on an op whose `cancelled` flag is set (`set_cancelled()` returned true) only drops the
key that was passed in: no driver action — no SQE, no queue change, no completed-channel entry. -/
theorem cancel_again_no_driver_action (s : State) (id : Nat) (o : Op) (hc : o.cancelled = true) :
    cancelKey s id o = { s with ops := modAt (fun o => { o with user := o.user - 1 }.dropRef) s.ops id } := by
  unfold cancelKey; simp [hc]

/-- `Proactor::cancel_token` on an op that is already cancelled or already completed returns `false` and
leaves the driver and the op as they were (the temporary key from the upgrade is dropped again). -/
theorem cancel_token_again_no_driver_action (s : State) (id : Nat) (o : Op) (ho : s.ops[id]? = some o)
    (hc : o.cancelled = true ∨ o.result.isSome = true) :
    cancelTokRet o = false ∧
      (cancelTok s id o).sqLen = s.sqLen ∧ (cancelTok s id o).reg = s.reg ∧ (cancelTok s id o).armed = s.armed ∧
      (∀ j, j ≠ id → (cancelTok s id o).ops[j]? = s.ops[j]?) ∧
      ∃ x, (cancelTok s id o).ops[id]? = some x ∧ x.cancelSq = o.cancelSq ∧ x.chan = o.chan ∧
        x.user = o.user ∧ x.result = o.result ∧ x.kcancel = o.kcancel := by
  refine ⟨?_, ?_, ?_, ?_, fun j hj => cancelTok_frame s id o hj, ?_⟩
  · unfold cancelTokRet
    rcases hc with h | h
    · simp [h]
    · cases hr : o.result with
      | none => rw [hr] at h; cases h
      | some r => simp
  all_goals unfold cancelTok; simp only [hc, if_true]
  refine ⟨_, modAt_get (modAt_get ho), rfl, rfl, ?_, rfl, rfl⟩
  simp only [Op.dropRef, Op.dropRefs, Op.cloneRef]; omega

/-- **cancel after completion returns the genuine result**: a unique key with a result (`is_unique ∧
has_result`) is not sent to the driver; the op goes back to the caller with exactly the stored result, and
that result is one the kernel / `operate` / the pool closure produced (or ECANCELED from an earlier cancel). -/
theorem cancel_after_complete_returns_genuine_result {c : Cfg} {d : Drv} {cap : Nat} {evs : List Event} {s : State}
    (h : run c (init d cap) evs = some s) {id : Nat} {o : Op} (ho : s.ops[id]? = some o)
    (hc : o.cancelled = false) (hu : o.rc = 1) {r : Res} (hr : o.result = some r) :
    (∃ x, (cancelKey s id o).ops[id]? = some x ∧ x.returned = o.returned + 1 ∧ x.result = some r ∧
        x.freed = o.freed) ∧
      (cancelKey s id o).sqLen = s.sqLen ∧ (cancelKey s id o).reg = s.reg ∧
      (r ∈ o.produced ∨ r = ECANCELED) := by
  have hg := (reach_inv2 h id o ho).h_result r hr
  have hcond : o.rc = 1 ∧ o.result.isSome = true := ⟨hu, by rw [hr]; rfl⟩
  refine ⟨?_, ?_, ?_, hg⟩
  · unfold cancelKey
    simp only [hc, hcond, and_self, if_true, Bool.false_eq_true, if_false]
    exact ⟨_, modAt_get ho, rfl, hr, rfl⟩
  all_goals unfold cancelKey; simp only [hc, hcond, and_self, if_true, Bool.false_eq_true, if_false]

/-! ### honesty -/

/-- **never a fabricated result**: in every reachable state, whatever sits in a result slot, in the queue of
multishot results, in an entry of the completed channel or in an unseen CQE is a value that the kernel,
`operate` or the pool closure produced for THIS operation — or ECANCELED. -/
theorem honesty {c : Cfg} {d : Drv} {cap : Nat} {evs : List Event} {s : State}
    (h : run c (init d cap) evs = some s) {i : Nat} {o : Op} (ho : s.ops[i]? = some o) :
    (∀ r, o.result = some r → r ∈ o.produced ∨ r = ECANCELED) ∧
      (∀ r, r ∈ o.multi → r ∈ o.produced ∨ r = ECANCELED) ∧
      (∀ r, r ∈ o.chan → r ∈ o.produced ∨ r = ECANCELED) := by
  have ok := reach_inv2 h i o ho
  exact ⟨ok.h_result, ok.h_multi, ok.h_chan⟩

/-- in particular a reported success is a success the environment produced -/
theorem no_fabricated_success {c : Cfg} {d : Drv} {cap : Nat} {evs : List Event} {s : State}
    (h : run c (init d cap) evs = some s) {i : Nat} {o : Op} (ho : s.ops[i]? = some o) {n : Nat}
    (hr : o.result = some (.ok n)) : Res.ok n ∈ o.produced := by
  rcases (honesty h ho).1 _ hr with h1 | h1
  · exact h1
  · simp [ECANCELED] at h1

/-! ### locality and promptness on the polling driver -/

/-- **locality**: cancelling op `id` (a descriptor op, not yet cancelled) on the polling driver
* filters exactly `id` out of both queues of ITS descriptor and keeps everything else in place and in order,
* leaves the queues of every other descriptor alone,
* re-arms the poller for what remains on that descriptor (`renew`), other descriptors keep their interest,
* touches no other operation,
* emits exactly one completed-channel entry for `id`, carrying ECANCELED. -/
theorem poll_cancel_local (s : State) (id : Nat) (o : Op) (hd : s.drv = .poll) (ho : s.ops[id]? = some o)
    (hk : o.kind ≠ .blocking) :
    (∀ fd dir, ((cancelIssue s id o).reg fd).sel dir =
        if fd = o.fd then ((s.reg fd).sel dir).filter (· != id) else (s.reg fd).sel dir) ∧
      (cancelIssue s id o).armed o.fd = ((cancelIssue s id o).reg o.fd).event ∧
      (∀ fd, fd ≠ o.fd → (cancelIssue s id o).armed fd = s.armed fd) ∧
      (∀ j, j ≠ id → (cancelIssue s id o).ops[j]? = s.ops[j]?) ∧
      (∃ x, (cancelIssue s id o).ops[id]? = some x ∧ x.chan = o.chan ++ [ECANCELED] ∧ x.cancelled = true) := by
  have hreg : (cancelIssue s id o).reg = upd s.reg o.fd ((s.reg o.fd).remove id) := by
    unfold cancelIssue driverCancel pollCancel; simp [hd, hk]
  have harm : (cancelIssue s id o).armed = upd s.armed o.fd ((s.reg o.fd).remove id).event := by
    unfold cancelIssue driverCancel pollCancel; simp [hd, hk]
  refine ⟨?_, ?_, ?_, fun j hj => cancelIssue_frame s id o hj, ?_⟩
  · intro fd dir
    rw [hreg]
    by_cases hf : fd = o.fd
    · subst hf; simp only [upd_same, FdQ.sel_remove, if_true]
    · simp only [upd_other _ _ _ _ hf, hf, if_false]
  · rw [hreg, harm]; simp only [upd_same]
  · intro fd hf; rw [harm]; exact upd_other _ _ _ _ hf
  · unfold cancelIssue driverCancel pollCancel
    simp only [hd, hk, if_false]
    exact ⟨_, modAt_get (modAt_get (modAt_get ho)), rfl, rfl⟩

/-- **promptness (polling)**: after such a cancel the very next `poll` — its first action is to drain the
completed channel — completes the op, whatever the readiness of any descriptor. If nothing else was queued for
it the result is ECANCELED. -/
theorem poll_cancel_prompt {c : Cfg} (s : State) (id : Nat) (o : Op) (hd : s.drv = .poll)
    (ho : s.ops[id]? = some o) (hk : o.kind ≠ .blocking) {s' : State}
    (hp : step c (cancelIssue s id o) .pollBlocking = some s') :
    ∃ x, s'.ops[id]? = some x ∧ x.result = some ECANCELED ∧ x.chan = [] := by
  obtain ⟨x, hx, hchan, _⟩ := (poll_cancel_local s id o hd ho hk).2.2.2.2
  simp only [step] at hp
  split at hp
  · obtain rfl := Option.some.inj hp
    refine ⟨x.drainChan, map_get hx, ?_, ?_⟩
    · unfold Op.drainChan
      rw [hchan]; simp [Op.dropRefs]
    · unfold Op.drainChan
      rw [hchan]; simp [Op.dropRefs]
  · cases hp

/-! ### cancel tokens -/

/-- **weak tokens never keep an operation alive**: registering a token changes nothing but the token count;
the strong count and every holder stay as they are (`refcount_eq_holders` of C01 has no term for tokens). -/
theorem token_register_holds_nothing {c : Cfg} {s s' : State} {id : Nat}
    (h : step c s (.tokenRegister id) = some s') :
    s'.reg = s.reg ∧ (∀ j, j ≠ id → s'.ops[j]? = s.ops[j]?) ∧
      ∃ o, s.ops[id]? = some o ∧ s'.ops[id]? = some { o with weak := o.weak + 1 } := by
  simp only [step] at h
  split at h
  · rename_i o ho
    split at h
    · obtain rfl := Option.some.inj h
      exact ⟨rfl, fun j hj => getElem?_modAt_ne _ _ (Ne.symm hj), o, ho, modAt_get ho⟩
    · cases h
  · cases h

/-- a token whose operation is gone (freed or handed back) cannot be upgraded: `cancel_token` does nothing -/
theorem dead_token_does_nothing {c : Cfg} {s s' : State} {id : Nat} {o : Op} (ho : s.ops[id]? = some o)
    (hrc : o.rc = 0) (h : step c s (.tokenCancel id) = some s') : s' = s ∧ cancelTokRet o = false := by
  simp only [step] at h
  split at h
  · rename_i o' ho'
    rw [ho] at ho'; obtain rfl := Option.some.inj ho'
    split at h
    · exact ⟨(Option.some.inj h).symm, by simp [cancelTokRet, hrc]⟩
    · cases h
  · cases h

/-- **a fired `CancelToken` cancels exactly what was registered with it**: running the events of
`CancelToken::cancel()` leaves every operation that is not registered untouched, and flags every registered
operation that is still live. (For every order of the registered set: the statement holds for every list.) -/
theorem token_cancels_exactly_the_registered {c : Cfg} :
    ∀ (regs : List Nat) (s s' : State),
      run c s ((regs.map fun id => [Event.tokenCancel id, Event.tokenDrop id]).flatten) = some s' →
      (∀ j, j ∉ regs → s'.ops[j]? = s.ops[j]?) ∧
      (∀ id, id ∈ regs → ∀ o, s.ops[id]? = some o → (0 < o.rc ∨ o.cancelled = true) →
        ∃ x, s'.ops[id]? = some x ∧ x.cancelled = true) := by
  intro regs
  induction regs with
  | nil =>
    intro s s' h
    simp [run] at h; subst h
    exact ⟨fun _ _ => rfl, fun _ h => by cases h⟩
  | cons a rest ih =>
    intro s s' h
    simp only [List.map_cons, List.flatten_cons, List.cons_append, List.nil_append, run] at h
    split at h
    · rename_i s1 hs1
      split at h
      · rename_i s2 hs2
        obtain ⟨f1, c1⟩ := tokenCancel_effect hs1
        obtain ⟨f2, c2⟩ := tokenDrop_effect hs2
        obtain ⟨f3, c3⟩ := ih s2 s' h
        constructor
        · intro j hj
          have hja : j ≠ a := fun e => hj (by rw [e]; exact List.mem_cons_self)
          have hjr : j ∉ rest := fun e => hj (List.mem_cons_of_mem _ e)
          rw [f3 j hjr, f2 j hja, f1 j hja]
        · intro id hid o ho hlive
          -- the op at `id` in s2: flagged if id = a, else as in s
          have key : ∃ o2, s2.ops[id]? = some o2 ∧ ((0 < o2.rc ∨ o2.cancelled = true)) := by
            by_cases hia : id = a
            · subst hia
              rcases hlive with hp | hcn
              · obtain ⟨x, hx, hxc⟩ := c1 o ho hp
                obtain ⟨y, hy, hyc, _⟩ := c2 x hx
                exact ⟨y, hy, Or.inr (by rw [hyc]; exact hxc)⟩
              · -- already cancelled: the flag is never cleared
                by_cases hp : 0 < o.rc
                · obtain ⟨x, hx, hxc⟩ := c1 o ho hp
                  obtain ⟨y, hy, hyc, _⟩ := c2 x hx
                  exact ⟨y, hy, Or.inr (by rw [hyc]; exact hxc)⟩
                · have h0 : o.rc = 0 := by omega
                  have := (dead_token_does_nothing ho h0 hs1).1
                  subst this
                  obtain ⟨y, hy, hyc, _⟩ := c2 o ho
                  exact ⟨y, hy, Or.inr (by rw [hyc]; exact hcn)⟩
            · refine ⟨o, ?_, hlive⟩
              rw [f2 id hia, f1 id hia]; exact ho
          obtain ⟨o2, ho2, hl2⟩ := key
          by_cases hir : id ∈ rest
          · exact c3 id hir o2 ho2 hl2
          · -- `id = a` and not registered again: the flag set by the first pair survives
            rw [f3 id hir]
            have hia : id = a := by
              rcases List.mem_cons.mp hid with h1 | h1
              · exact h1
              · exact absurd h1 hir
            subst hia
            rcases hlive with hp | hcn
            · obtain ⟨x, hx, hxc⟩ := c1 o ho hp
              obtain ⟨y, hy, hyc, _⟩ := c2 x hx
              exact ⟨y, hy, by rw [hyc]; exact hxc⟩
            · by_cases hp : 0 < o.rc
              · obtain ⟨x, hx, hxc⟩ := c1 o ho hp
                obtain ⟨y, hy, hyc, _⟩ := c2 x hx
                exact ⟨y, hy, by rw [hyc]; exact hxc⟩
              · have h0 : o.rc = 0 := by omega
                have := (dead_token_does_nothing ho h0 hs1).1
                subst this
                obtain ⟨y, hy, hyc, _⟩ := c2 o ho
                exact ⟨y, hy, by rw [hyc]; exact hcn⟩
      · cases h
    · cases h

/-- the events of `CancelToken::cancel()` are exactly one `cancel_token` per registered operation; a second
`cancel()` issues nothing -/
theorem token_cancel_events (t : Token) :
    (t.fired = false → (t.cancel).2 = (t.regs.map fun id => [Event.tokenCancel id, Event.tokenDrop id]).flatten ∧
        (t.cancel).1.fired = true ∧ (t.cancel).1.regs = []) ∧
      (t.fired = true → (t.cancel).2 = [] ∧ (t.cancel).1 = t) := by
  constructor <;> intro h <;> simp [Token.cancel, h]

/-- **registration after the token fired**: the operation is cancelled at once, through a clone of its key -/
theorem late_registration_cancels {c : Cfg} (t : Token) (ht : t.fired = true) (id : Nat) {s s' : State}
    (h : run c s (t.register id).2 = some s') :
    (t.register id).2 = [.cloneCancel id] ∧ (∀ j, j ≠ id → s'.ops[j]? = s.ops[j]?) ∧
      ∃ x, s'.ops[id]? = some x ∧ x.cancelled = true := by
  have he : (t.register id).2 = [.cloneCancel id] := by simp [Token.register, ht]
  rw [he] at h
  simp only [run] at h
  split at h
  · rename_i s1 hs1
    obtain rfl := Option.some.inj h
    refine ⟨he, ?_, ?_⟩
    · intro j hj
      simp only [step] at hs1
      split at hs1
      · split at hs1
        · obtain rfl := Option.some.inj hs1
          rw [cancelKey_frame _ _ _ hj]
          exact getElem?_modAt_ne _ _ (Ne.symm hj)
        · cases hs1
      · cases hs1
    · simp only [step] at hs1
      split at hs1
      · rename_i o ho
        split at hs1
        · obtain rfl := Option.some.inj hs1
          have h0 : ({ s with ops := modAt (fun o => ({ o.cloneRef with user := o.user + 1 } : Op)) s.ops id } :
              State).ops[id]? = some { o.cloneRef with user := o.user + 1 } := by
            simp only [getElem?_modAt_self, ho, Option.map_some]
          unfold cancelKey
          split
          · rename_i hc
            exact ⟨_, modAt_get h0, hc⟩
          · split
            · exact ⟨_, modAt_get h0, rfl⟩
            · obtain ⟨x, hx, hxc, _⟩ := cancelIssue_cancelled _ id _ h0
              exact ⟨x, hx, hxc⟩
        · cases hs1
      · cases hs1
  · cases h

/-! ### promptness on io_uring, under its two guards -/

/-- what `iour::Driver::cancel` does with the AsyncCancel SQE: queued when the SQ has room, DROPPED when it is
full (the op is flagged cancelled and `cancel_token` reports `true` in both cases) -/
theorem iour_cancel_sqe (s : State) (id : Nat) (o : Op) (hd : s.drv = .iour) (ho : s.ops[id]? = some o) :
    (s.sqLen < s.cap →
        (cancelIssue s id o).sqLen = s.sqLen + 1 ∧
        ∃ x, (cancelIssue s id o).ops[id]? = some x ∧ x.cancelSq = o.cancelSq + 1 ∧ x.cancelDropped = o.cancelDropped ∧
          x.kstat = o.kstat ∧ x.cancelled = true) ∧
      (¬ s.sqLen < s.cap →
        (cancelIssue s id o).sqLen = s.sqLen ∧
        ∃ x, (cancelIssue s id o).ops[id]? = some x ∧ x.cancelSq = o.cancelSq ∧ x.cancelDropped = o.cancelDropped + 1 ∧
          x.kstat = o.kstat ∧ x.cancelled = true) := by
  constructor <;> intro hroom
  all_goals
    unfold cancelIssue driverCancel iourCancel
    simp only [hd, hroom, if_true, if_false]
    refine ⟨?_, _, modAt_get (modAt_get (modAt_get ho)), rfl, rfl, rfl, rfl⟩
    first | rfl | trivial

/-- **promptness (io_uring), guarded**: if the submission queue is NOT full when the cancel is issued, the
AsyncCancel reaches the kernel with the next submit (`kcancel`), and as soon as the kernel answers for the
target — A-K2: it posts a final CQE, `-ECANCELED` or the genuine result — the same poll completes the op with
exactly that value. -/
theorem iour_cancel_prompt {c : Cfg} (s : State) (id : Nat) (o : Op) (hd : s.drv = .iour)
    (ho : s.ops[id]? = some o) (hroom : s.sqLen < s.cap) (r : Res) {s' : State}
    (h : run c (cancelIssue s id o) [.submit, .kPost id false r, .pollEntries] = some s') :
    ∃ x, s'.ops[id]? = some x ∧ x.kcancel = true ∧ x.result = some r ∧ x.inFl = false ∧ x.kstat = .done := by
  obtain ⟨x0, hx0, hsq, _, _, _⟩ := ((iour_cancel_sqe s id o hd ho).1 hroom).2
  simp only [run] at h
  split at h
  · rename_i s1 hs1
    split at h
    · rename_i s2 hs2
      split at h
      · rename_i s3 hs3
        obtain rfl := Option.some.inj h
        have h3 := pollEntries_op hs3 (kPost_final_op hs2 (submit_op hs1 hx0))
        refine ⟨_, h3, ?_, ?_, ?_, ?_⟩
        · simp [Op.drainCq, Op.dropRef, Op.dropRefs, Op.submit, hsq]
        · simp [Op.drainCq, Op.dropRef, Op.dropRefs, Op.submit]
        · simp [Op.drainCq, Op.dropRef, Op.dropRefs, Op.submit]
        · simp [Op.drainCq, Op.dropRef, Op.dropRefs, Op.submit]
      · cases h
    · cases h
  · cases h

/-! ### non-vacuity -/

/-- three receives wait on one descriptor of the polling driver; the middle one is cancelled through a token:
the queue keeps the other two in order, the poller stays armed for the head, one ECANCELED entry is queued -/
example :
    (run Cfg.gen (init .poll 8) [.pushWait .single 0 .rd, .pushWait .single 0 .rd, .pushWait .single 0 .rd,
        .tokenRegister 1, .tokenCancel 1]).map
      (fun s => ((s.reg 0).rq, (s.armed 0).key, s.ops.map fun o => (o.cancelled, o.chan, o.rc)))
    = some ([0, 2], some 0, [(false, [], 2), (true, [ECANCELED], 2), (false, [], 2)]) := by rfl

/-- … the next poll completes it; the neighbours complete later with their own data -/
example :
    (run Cfg.gen (init .poll 8) [.pushWait .single 0 .rd, .pushWait .single 0 .rd, .pushWait .single 0 .rd,
        .tokenRegister 1, .tokenCancel 1, .pollBlocking, .fdEvent 0 true false (some (.ok 4)),
        .fdEvent 0 true false (some (.ok 4))]).map
      (fun s => ((s.reg 0).rq, s.ops.map fun o => (o.result, o.rc)))
    = some ([], [(some (.ok 4), 1), (some ECANCELED, 1), (some (.ok 4), 1)]) := by rfl

/-- io_uring with room in the SQ: cancel, submit, the kernel answers, the poll completes the op -/
example :
    (run Cfg.gen (init .iour 8) [.pushSq .single 0 .rd, .submit, .tokenRegister 0, .tokenCancel 0, .submit,
        .kPost 0 false ECANCELED, .pollEntries, .userPop 0]).map
      (fun s => s.ops.map fun o => (o.kcancel, o.result, o.returned, o.cancelDropped))
    = some [(true, some ECANCELED, 1, 0)] := by rfl

/-- cancel after completion: the unique key gets its genuine result back, nothing goes to the driver -/
example :
    (run Cfg.gen (init .iour 8) [.pushSq .single 0 .rd, .submit, .kPost 0 false (.ok 4), .pollEntries,
        .userCancel 0]).map
      (fun s => (s.sqLen, s.ops.map fun o => (o.result, o.returned, o.cancelSq, o.freed)))
    = some (0, [(some (.ok 4), 1, 0, 0)]) := by rfl

end Compio.Props.C05
