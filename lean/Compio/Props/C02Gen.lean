/-
C02 — tie of the hand model `Model/Completion.lean` to the source through the extractor target `CompletionPath`
(`Gen/CompletionPath.lean` is regenerated from compio-driver/src/{key.rs, lib.rs, sys/driver/iour/mod.rs} by every
`./check C02`).

The generated file lists, per function, its effects in SOURCE ORDER.  Here each effect gets its meaning on the
model state (a small interpreter per function, `run…`), and the theorems say: interpreting the generated list gives,
for ALL states and inputs, exactly the hand-model function the C02 theorems (and the driver `c02d`) are about.
A source edit that reorders / drops / adds an effect either is not recognised (extractor error = broken tie) or
changes the generated list, and then these equalities no longer hold.
-/
import Compio.Lemmas.Completion
import Compio.Gen.CompletionPath

namespace Compio.Props.C02Gen
open Compio.Completion
open Compio.Gen.CompletionPath

/-! ## `ErasedKey::set_result` = `Keys.notify` (store, THEN wake the waker that was taken out) -/

/-- `t` = the waker the `mem::replace` took out of the slot (nothing before the replace ran) -/
def runSetResult : List SetResultAct → Keys → Option WakerId → Id → Res → Keys
  | [], ks, _, _, _ => ks
  | .carrierHook :: rest, ks, t, id, r => runSetResult rest ks t id r
  | .storeReady :: rest, ks, _, id, r => runSetResult rest (ks.storeResult id r).1 (ks.storeResult id r).2 id r
  | .wakeTaken :: rest, ks, some w, id, r => runSetResult rest (ks.wake id w true) none id r
  | .wakeTaken :: rest, ks, none, id, r => runSetResult rest ks none id r

/-- the source of `set_result`, effect by effect, IS the model's `Keys.notify`, for every state / key / result -/
theorem gen_set_result_eq_notify (ks : Keys) (id : Id) (r : Res) :
    runSetResult setResult ks none id r = ks.notify id r := by
  unfold Keys.notify
  cases h : (ks.storeResult id r).2 with
  | none =>
    have e : ks.storeResult id r = ((ks.storeResult id r).1, none) := by rw [← h]
    rw [e]; simp [setResult, runSetResult, h]
  | some w =>
    have e : ks.storeResult id r = ((ks.storeResult id r).1, some w) := by rw [← h]
    rw [e]; simp [setResult, runSetResult, h]

/-- the property-relevant fact directly: the store precedes the wake, and nothing is woken before the store -/
theorem gen_set_result_stores_then_wakes :
    ∃ pre post, setResult = pre ++ .storeReady :: post ∧ SetResultAct.wakeTaken ∈ post ∧
      SetResultAct.wakeTaken ∉ pre ∧ SetResultAct.storeReady ∉ post :=
  ⟨[.carrierHook], [.wakeTaken], rfl, by simp, by simp, by simp⟩

example : (runSetResult setResult ({ slot := upd (fun _ => .free) 3 (.pending (some 7)) } : Keys) none 3 (.ok 5)).wakeLog
    = [⟨3, 7, true, true⟩] := by decide

/-! ## `ErasedKey::set_waker` = `Slot.setWaker` (the latest waker replaces an older one) -/

def runSetWaker : List SetWakerAct → Slot → WakerId → Slot
  | [], s, _ => s
  | .returnUnlessPending :: rest, s, w =>
    match s with
    | .pending _ => runSetWaker rest s w
    | _ => s
  | .returnIfWillWake :: rest, s, w => if s = .pending (some w) then s else runSetWaker rest s w
  | .replace :: rest, _, w => runSetWaker rest (.pending (some w)) w

theorem gen_set_waker_eq (s : Slot) (w : WakerId) : runSetWaker setWaker s w = s.setWaker w := by
  cases s with
  | free => simp [setWaker, runSetWaker, Slot.setWaker]
  | ready r => simp [setWaker, runSetWaker, Slot.setWaker]
  | pending o =>
    simp only [setWaker, runSetWaker, Slot.setWaker]
    split
    · next h => exact h
    · rfl

/-- a DIFFERENT waker always replaces the registered one (what `latest_waker_woken_exactly_once` needs) -/
theorem gen_set_waker_replaces (o : Option WakerId) (w : WakerId) :
    runSetWaker setWaker (.pending o) w = .pending (some w) := by
  rw [gen_set_waker_eq]; rfl

example : runSetWaker setWaker (.pending (some 7)) 8 = .pending (some 8) := by decide
example : runSetWaker setWaker (.ready (.ok 1)) 8 = .ready (.ok 1) := by decide

/-! ## `Entry::notify`, `Proactor::pop`, the `Poll::Ready` arm of `push_with_extra` -/

def runEntryNotify : List NotifyAct → Keys → Id → Res → Keys
  | [], ks, _, _ => ks
  | .copyFlags :: rest, ks, id, r => runEntryNotify rest ks id r
  | .setResultOfOwnKey :: rest, ks, id, r => runEntryNotify rest (runSetResult setResult ks none id r) id r

theorem gen_entry_notify_eq (ks : Keys) (id : Id) (r : Res) :
    runEntryNotify entryNotify ks id r = ks.notify id r := by
  simp [entryNotify, runEntryNotify, gen_set_result_eq_notify]

/-- the ready branch of `pop`: `take_result` consumes the RawOp (`Result not ready` would panic: modelled as "nothing
    handed out"), the value returned is the one taken -/
def runPopReady : List PopAct → Keys → Id → Option Res → Keys × Option Res
  | .takeResult :: rest, ks, id, _ =>
    match ks.slot id with
    | .ready r => runPopReady rest { ks with slot := upd ks.slot id .free, dlv := upd ks.dlv id (ks.dlv id ++ [r]) } id (some r)
    | _ => (ks, none)
  | .readyOwnResAndBuf :: _, ks, _, taken => (ks, taken)
  | _, ks, _, _ => (ks, none)

def runPop : List PopAct → Keys → Id → Keys × Option Res
  | .ifHasResult :: rest, ks, id => if (ks.slot id).isReady then runPopReady rest ks id none else (ks, none)
  | _, ks, _ => (ks, none)

theorem gen_pop_eq (ks : Keys) (id : Id) : runPop pop ks id = ks.pop id := by
  unfold Keys.pop
  cases h : ks.slot id <;> simp [pop, runPop, runPopReady, Slot.isReady, h]

/-- `ErasedKey::take_result` pairs the op's own result with the op's own carrier (buffer), after the uniqueness check -/
theorem gen_take_result_own_buffer :
    takeResult = [.downcast, .unwrapUnique, .takeReady, .pairWithOwnCarrier] ∧ hasResultIsReady = true := ⟨rfl, rfl⟩

def runImmediate : List ImmediateAct → Keys → Id → Res → Keys
  | [], ks, _, _ => ks
  | .setResult :: rest, ks, id, r => runImmediate rest (runSetResult setResult ks none id r) id r
  | .takeResult :: rest, ks, id, r => runImmediate rest (runPop pop ks id).1 id r

/-- `produce` is the ghost event "the driver returned `Poll::Ready(res)` for this key" -/
theorem gen_push_ready_arm_eq (ks : Keys) (id : Id) (r : Res) :
    runImmediate pushReadyArm (ks.produce id r) id r = ks.immediate id r := by
  simp [pushReadyArm, runImmediate, gen_set_result_eq_notify, gen_pop_eq, Keys.immediate]

/-! ## io_uring: user_data values, `poll_entries`, `create_entry` -/

/-- how `poll_entries` reads a CQE's user_data -/
def decodeUd (n : Nat) : UserData := if n = CANCEL then .cancel else if n = NOTIFY then .notify else .key n

theorem gen_cancel_notify_distinct : CANCEL ≠ NOTIFY ∧ CANCEL < 2 ^ 64 ∧ NOTIFY < 2 ^ 64 := by
  unfold CANCEL NOTIFY; omega

/-- a key (`ErasedKey::as_raw`: the address of the operation, at least 2-aligned) is never mistaken for CANCEL / NOTIFY
    unless it is the very last even address; an 8-aligned one never is -/
theorem gen_key_is_not_special (n : Nat) (hal : n % 8 = 0) : decodeUd n = .key n := by
  unfold decodeUd CANCEL NOTIFY
  have h1 : n ≠ 18446744073709551615 := by omega
  have h2 : n ≠ 18446744073709551614 := by omega
  simp [h1, h2]

example : decodeUd 18446744073709551615 = .cancel ∧ decodeUd 18446744073709551614 = .notify ∧ decodeUd 4096 = .key 4096 := by
  decide

def cqeAct (id : Id) (res : Res) (more : Bool) : CqeAct → Ring → Ring
  | .needNotifierUnlessMore, r => if more then r else { r with needNotifier := true }
  | .clearNotifier, r => r
  | .borrowKeyOfUserData, r => r
  | .pushMultishot, r =>
    { r with keys := { r.keys with multi := upd r.keys.multi id (r.keys.multi id ++ [res]),
                                   uaf := r.keys.uaf || (r.keys.slot id == .free) } }
  | .wakeByRef, r =>
    { r with keys := match r.keys.slot id with
                     | .pending (some w) => r.keys.wake id w false
                     | _ => r.keys }
  | .inflightRemove, r => { r with inflight := r.inflight.erase id }
  | .notifyCreatedEntry, r => { r with keys := runEntryNotify entryNotify r.keys id res }

def runArm (acts : List CqeAct) (id : Id) (c : Cqe) (r : Ring) : Ring :=
  acts.foldl (fun acc a => cqeAct id c.res c.more a acc) r

/-- the loop body of `poll_entries`, arm by arm, from the generated effect lists -/
def genHandleCqe (r : Ring) (c : Cqe) : Ring :=
  match c.ud with
  | .cancel => runArm armCancel 0 c r
  | .notify => runArm armNotify 0 c r
  | .key id => if c.more then runArm armKeyMore id c r else runArm armKeyFinal id c r

theorem gen_handle_cqe_eq (r : Ring) (c : Cqe) : genHandleCqe r c = r.handleCqe c := by
  unfold genHandleCqe Ring.handleCqe
  cases hud : c.ud with
  | cancel => simp [runArm, armCancel]
  | notify =>
    cases hm : c.more <;> simp [runArm, armNotify, cqeAct, hm]
  | key id =>
    cases hm : c.more with
    | false =>
      simp [runArm, armKeyFinal, cqeAct, gen_entry_notify_eq]
    | true =>
      simp only [runArm, armKeyMore, cqeAct, List.foldl, Keys.pushMulti, if_true]
      cases hs : r.keys.slot id with
      | free => simp
      | ready x => simp
      | pending o => cases o <;> simp

/-- `poll_entries` over the generated arms = the model's `pollEntries`, for every completion queue -/
theorem gen_poll_entries_eq (r : Ring) :
    r.cq.foldl genHandleCqe { r with cq := [] } = r.pollEntries := by
  unfold Ring.pollEntries
  have : genHandleCqe = Ring.handleCqe := by funext a b; exact gen_handle_cqe_eq a b
  rw [this]

/-- an `Entry` built from a CQE has the CQE's user_data as key and `create_result(cqe.result())` as result — no other
    statement (e.g. a rewrite depending on the `cancelled` flag) is in `create_entry` -/
theorem gen_create_entry_verbatim :
    createEntry = [.resultOfCqe, .createResult, .keyOfUserData, .entryNew, .setFlags, .ret] := rfl

theorem gen_poll_blocking_shape : pollBlocking = [.drainChannelNotifyEach, .retHadEntry] := rfl

/-! ## io_uring: `push_raw_with_key`, `push_raw`, `cancel` -/

/-- `ud` = the user_data computed so far -/
def runPushKey : List PushKeyAct → Ring → Id → Option Id → List Enter → Ring × PushRaw
  | [], r, _, _, _ => (r, .ok)
  | .userDataIsOwnKey :: rest, r, id, _, s => runPushKey rest r id (some id) s
  | .tagEntry :: rest, r, id, ud, s => runPushKey rest r id ud s
  | .pushRawOrReturn :: rest, r, id, some u, s =>
    match r.pushRaw (.op u) s with
    | (r1, .ok) => runPushKey rest r1 id (some u) []
    | (r1, .spin) => (r1, .spin)
  | .pushRawOrReturn :: _, r, _, none, _ => (r, .spin)
  | .inflightInsert :: rest, r, id, some u, s => runPushKey rest { r with inflight := u :: r.inflight } id (some u) s
  | .inflightInsert :: rest, r, id, none, s => runPushKey rest r id none s
  | .leakKey :: rest, r, id, ud, s => runPushKey rest r id ud s
  | .retOk :: _, r, _, _, _ => (r, .ok)

/-- `push_raw_with_key` (user_data = the operation's own key; `in_flight` insert only after the SQE is staged) -/
theorem gen_push_raw_with_key_eq (r : Ring) (id : Id) (script : List Enter) :
    runPushKey pushRawWithKey { r with keys := r.keys.alloc id } id none script = r.pushOp id script := by
  unfold Ring.pushOp
  simp only [pushRawWithKey, runPushKey]
  cases h : Ring.pushRaw { r with keys := r.keys.alloc id } (.op id) script with
  | mk r1 o => cases o <;> simp

def fullAct (en : Enter) : FullAct → Ring → Ring
  | .submitAutoZero, r => r.enter en
  | .pollEntries, r => { (r.cq.foldl genHandleCqe { r with cq := [] }) with drained := r.drained ++ r.cq }

/-- `push_raw` with the full-queue round taken from the generated list -/
def genPushRawAux (e : Sqe) : List Enter → Ring → Ring × PushRaw
  | [], r => if r.sq.length < r.sqCap then ({ r with sq := r.sq ++ [e] }, .ok) else (r, .spin)
  | en :: rest, r =>
    if r.sq.length < r.sqCap then ({ r with sq := r.sq ++ [e] }, .ok)
    else genPushRawAux e rest (pushRawOnFull.foldl (fun acc a => fullAct en a acc) r)

theorem gen_push_raw_eq (e : Sqe) (script : List Enter) (r : Ring) :
    genPushRawAux e script r = pushRawAux e script r := by
  induction script generalizing r with
  | nil => rfl
  | cons en rest ih =>
    unfold genPushRawAux pushRawAux
    split
    · rfl
    · rw [ih]
      simp [pushRawOnFull, fullAct, gen_poll_entries_eq]

/-- a zero-timeout `submit_auto` that merely timed out / was interrupted must not end the loop
    (otherwise `push` reports an error the OS never produced: seeded change C02-b) -/
theorem gen_push_raw_tolerates_timeout : "TimedOut" ∈ pushRawTolerated ∧ "Interrupted" ∈ pushRawTolerated := by
  simp [pushRawTolerated]

/-- `Driver::cancel` as coded: through `push_raw` (submit-and-drain until there is room) or the raw queue push -/
def genCancel (r : Ring) (id : Id) (script : List Enter) : Ring :=
  match cancelVia with
  | .pushRaw => (genPushRawAux (.cancelOf id) script r).1
  | .rawSqueuePush => r.cancel id

theorem gen_cancel_eq_push_raw (r : Ring) (id : Id) (script : List Enter) :
    genCancel r id script = (r.pushRaw (.cancelOf id) script).1 := by
  simp [genCancel, cancelVia, gen_push_raw_eq, Ring.pushRaw]

/-- the model's `Ring.cancel` (used by `RStep.cancel`) is that function for the empty kernel script: with room the
    AsyncCancel SQE is staged, without room and without a kernel round nothing changes -/
theorem gen_cancel_empty_script (r : Ring) (id : Id) : genCancel r id [] = r.cancel id := by
  rw [gen_cancel_eq_push_raw]
  unfold Ring.pushRaw pushRawAux Ring.cancel
  split <;> rfl

/-! ## whole io_uring runs including `Driver::cancel` AS CODED (through `push_raw`, any kernel rounds)

`RStep.cancel` of the hand model is the empty-script case (`gen_cancel_empty_script`).  Here the labelled transition
system is extended by the cancel the source really performs: when the submission queue is full it runs overflow rounds
(`submit_auto` + `poll_entries`), which deliver OTHER operations' completions in the middle of a cancel.  The invariant
and with it own-result / exactly-once / nothing-undelivered hold for every list of such steps. -/

inductive GStep where
  | base (e : RStep)
  | cancelVia (id : Id) (script : List Enter)

def gstep (r : Ring) : GStep → Ring
  | .base e => r.step e
  | .cancelVia id script => genCancel r id script

/-- environment contract per step: as for `RStep`, and the kernel contract for the rounds a cancel runs -/
def GStepOk (r : Ring) : GStep → Prop
  | .base e => RStepOk r e
  | .cancelVia _ script => ScriptOk r script

def grun (r : Ring) : List GStep → Ring
  | [] => r
  | e :: rest => grun (gstep r e) rest

def GRunOk : Ring → List GStep → Prop
  | _, [] => True
  | r, e :: rest => GStepOk r e ∧ GRunOk (gstep r e) rest

/-- the coded cancel keeps the ring invariant, whatever the kernel does in its overflow rounds -/
theorem gen_cancel_inv {r : Ring} (h : RInv r) (id : Id) (script : List Enter) (hs : ScriptOk r script) :
    RInv (genCancel r id script) := by
  rw [gen_cancel_eq_push_raw]
  obtain ⟨r0, hr0, hres, _⟩ := rinv_pushRawAux (.cancelOf id) script r h hs
  unfold Ring.pushRaw
  rcases hres with hres | hres
  · rw [hres]; exact hr0.stageOther _ (by intro x; simp)
  · rw [hres]; exact hr0

theorem grun_inv : ∀ (steps : List GStep) (r : Ring), RInv r → GRunOk r steps → RInv (grun r steps) := by
  intro steps
  induction steps with
  | nil => intro r h _; exact h
  | cons e rest ih =>
    intro r h hok
    refine ih _ ?_ hok.2
    cases e with
    | base e => exact h.step e hok.1
    | cancelVia id script => exact gen_cancel_inv h id script hok.1

def GReachable (r : Ring) : Prop :=
  ∃ (cap : Nat) (steps : List GStep), GRunOk { sqCap := cap } steps ∧ r = grun { sqCap := cap } steps

theorem greachable_inv {r : Ring} (h : GReachable r) : RInv r := by
  obtain ⟨cap, steps, hok, rfl⟩ := h
  exact grun_inv steps _ (RInv.init cap) hok

/-- (b) exactly once, for every run with coded cancels -/
theorem gen_iour_exactly_once_with_coded_cancel {r : Ring} (h : GReachable r) (id : Id) :
    (r.keys.fin id).length ≤ 1 ∧ (r.keys.dlv id).length ≤ 1 ∧
    (r.keys.dlv id = [] ∨ r.keys.dlv id = r.keys.fin id) ∧ r.keys.uaf = false := by
  have hk := (greachable_inv h).k
  obtain ⟨a, b, c⟩ := hk.exactly_once id
  exact ⟨a, b, c, hk.noUaf⟩

/-- (a) own result: a Ready slot holds the single result produced for that key -/
theorem gen_iour_own_result_with_coded_cancel {r : Ring} (h : GReachable r) (id : Id) (res : Res)
    (hs : r.keys.slot id = .ready res) : r.keys.src id = [res] ∧ r.keys.fin id = [res] :=
  (greachable_inv h).k.own_result hs

/-- nothing finished stays undelivered once CQ and channel are drained -/
theorem gen_iour_finished_is_delivered_with_coded_cancel {r : Ring} (h : GReachable r) (id : Id) (res : Res)
    (hcq : r.cq = []) (hch : r.chan = []) (hdone : r.keys.src id = [res]) :
    r.keys.slot id = .ready res ∨ r.keys.dlv id = [res] := by
  have hk := (greachable_inv h).k
  refine hk.finished_is_delivered ?_ hdone
  rw [hcq, hch]; rfl

/-- the cancellation request is never dropped: when the loop ends, the AsyncCancel SQE is the last staged entry
    (the raw `squeue.push` of the earlier code lost it on a full queue: finding F9, fixed in /repo 0f15c6d) -/
theorem gen_cancel_never_dropped (r r' : Ring) (id : Id) (script : List Enter)
    (h : r.pushRaw (.cancelOf id) script = (r', .ok)) :
    ∃ k, (genCancel r id script).sq = r.sq.drop k ++ [.cancelOf id] := by
  rw [gen_cancel_eq_push_raw, h]
  exact pushRaw_keeps_sqe (.cancelOf id) script r r' h

/-- non-vacuity: capacity 1, op 0 staged (queue full), then a coded cancel whose overflow round makes the kernel take the
    SQE and complete op 0 with 5 bytes — the completion is delivered to op 0 inside the cancel, the request is staged -/
def cancelDemo : List GStep :=
  [ .base (.pushOp 0 []), .cancelVia 0 [⟨1, [⟨.key 0, .ok 5, false⟩]⟩], .base (.pop 0) ]

theorem cancelDemo_ok : GRunOk { sqCap := 1 } cancelDemo := by
  refine ⟨⟨⟨rfl, rfl, by unfold Ring.owed; decide, by decide⟩, trivial⟩, ?_, trivial, trivial⟩
  refine ⟨⟨?_, by simp [cqFinals]⟩, trivial⟩
  intro c hc id' hud
  simp only [List.mem_singleton] at hc
  subst hc
  simp only [UserData.key.injEq] at hud
  subst hud
  decide

example :
    let r := grun { sqCap := 1 } cancelDemo
    (r.keys.dlv 0 == [.ok 5] && r.sq == [.cancelOf 0] && r.kern == [] && r.cq == []) = true := by
  decide

end Compio.Props.C02Gen
