/-
C02 — every operation completes exactly once, with its own result.

All theorems are about the functions the line-protocol driver `c02d` executes (`Compio.PollDriver.*`,
`Compio.Completion.*`); they quantify over every list of driver calls / environment actions (`run`), every
behaviour of the operations (`Ops.operate`), every set of descriptors epoll refuses (`Ops.addFails`), every
kernel script of the io_uring submission loop.

Guard of the polling-driver theorems: `Step.single` — each pushed operation waits for at most ONE descriptor.
That is every operation of compio-driver except `Splice`; for `Splice` the arming invariant is false on the
unchanged tree (Cex/C02.lean, finding C02a).
-/
import Compio.Lemmas.PollDriver

namespace Compio.Props.C02
open Compio.Completion Compio.PollDriver

variable {W : Type}

/-- the driver right after `Driver::new` -/
def init (w : W) : St W := { world := w }

/-- reachable: some accepted sequence of single-descriptor steps leads from `init` to `s` -/
def Reachable (ops : Ops W) (s : St W) : Prop :=
  ∃ (w : W) (steps : List Step), (∀ e ∈ steps, e.single) ∧ run ops (init w) steps = .ok s

theorem reachable_inv {ops : Ops W} {s : St W} (h : Reachable ops s) : Inv noPend s := by
  obtain ⟨w, steps, hs, hr⟩ := h
  rcases run_inv ops steps (init w) (Inv.init w) hs with ⟨m, hm⟩ | ⟨s', hs', hinv⟩
  · rw [hm] at hr; cases hr
  · rw [hs'] at hr; cases hr; exact hinv

/-! ## no panic, no failing poll -/

/-- No sequence of calls makes the polling driver panic (`expect("the fd should be submitted")`):
    `run` ends in a state or rejects an impossible environment event. -/
theorem never_panics (ops : Ops W) (w : W) (steps : List Step) (hs : ∀ e ∈ steps, e.single) (msg : String) :
    run ops (init w) steps ≠ .error (.panic msg) := by
  rcases run_inv ops steps (init w) (Inv.init w) hs with ⟨m, hm⟩ | ⟨s', hs', _⟩
  · rw [hm]; simp
  · rw [hs']; simp

/-- `poll` in a reachable state handles every reported event: it returns `Ok` or the timeout, never an
    error that would skip the remaining events, and never takes the "FIXME: should not happen" exit early. -/
theorem poll_handles_all_events (ops : Ops W) {s : St W} (h : Reachable ops s) (t : Bool) (fired : List Fired) :
    (∃ m, poll ops s t fired = .error (.reject m)) ∨
    (∃ s' r, poll ops s t fired = .ok (s', r) ∧ (r = .ok ∨ r = .timedOut) ∧ Inv noPend s') := by
  rcases inv_poll ops (reachable_inv h) t fired with h1 | ⟨s', r, h1, h2, h3⟩
  · exact Or.inl h1
  · exact Or.inr ⟨s', r, h1, h3, h2⟩

/-! ## queued outcomes are delivered by the next poll; a cancel never alters a produced outcome -/

/-- An outcome that is already queued in the driver (thread-pool result, ECANCELED entry of a cancelled
    operation) makes the wait of the next `poll` non-blocking, whatever timeout the caller asked for —
    `has_completed` is read before the wait.  (The cancel path queues its entry WITHOUT waking the poller,
    so this is what keeps `poll(None)` from blocking on an outcome the driver already holds.) -/
theorem queued_outcome_forces_nonblocking_wait (s : St W) (notified : Bool) (timeout : Option Nat)
    (h : s.chan ≠ []) : waitTimeout s notified timeout = some 0 := by
  unfold waitTimeout
  cases hc : s.chan with
  | nil => exact (h hc).elim
  | cons a l => simp

/-- …and that `poll` hands every queued outcome to `set_result`: afterwards the channel is empty and every
    result produced so far is in its slot or delivered. -/
theorem poll_delivers_every_queued_outcome (ops : Ops W) {s s' : St W} {r : PollRes} (h : Reachable ops s)
    (t : Bool) (fired : List Fired) (hp : poll ops s t fired = .ok (s', r)) :
    s'.chan = [] ∧ ∀ id res, s'.keys.src id = [res] → s'.keys.slot id = .ready res ∨ s'.keys.dlv id = [res] := by
  have hinv := reachable_inv h
  have hc := poll_chan_nil ops hinv t fired hp
  refine ⟨hc, ?_⟩
  rcases inv_poll ops hinv t fired with ⟨m, hm⟩ | ⟨s2, r2, h2, hinv2, _⟩
  · rw [hm] at hp; cases hp
  · rw [h2] at hp
    cases hp
    intro id res hsrc
    exact hinv2.k.finished_is_delivered (by rw [hc]; rfl) hsrc

/-- A cancellation is only a request: once the OS / the driver has produced the outcome of an operation
    (`src id ≠ []`: its `operate` succeeded, its job finished, its ECANCELED entry exists), `cancel_token`
    changes neither the slots nor the histories nor the channel — it can only set the `cancelled` mark.
    The result slot is written once, by the completion. -/
theorem cancel_does_not_alter_a_produced_outcome (ops : Ops W) {s : St W} (h : Reachable ops s) (id : Id)
    (hdone : s.keys.src id ≠ []) :
    (cancelToken s id).1.keys = s.keys ∧ (cancelToken s id).1.chan = s.chan := by
  have hinv := reachable_inv h
  unfold cancelToken
  cases hs : s.keys.slot id with
  | free => exact ⟨rfl, rfl⟩
  | ready r => simp [Slot.isReady]
  | pending w =>
    simp only [Slot.isReady, Bool.or_false]
    cases hc : s.cancelled id with
    | true => simp
    | false =>
      simp only [Bool.false_eq_true, if_false]
      unfold driverCancel
      cases ht : s.track id with
      | nil => simp
      | cons t ts =>
        -- a pending, not cancelled operation that waits for a descriptor is queued, hence has no outcome yet
        have hq := hinv.q.live id ⟨w, hs⟩ (by rw [ht]; simp) hc
        exact (hdone (hinv.k.qFresh id hq).1).elim

/-- the same for `Proactor::cancel(key)`: a produced and stored outcome is handed out, never replaced -/
theorem cancel_key_returns_the_stored_outcome (s : St W) (id : Id) (r : Res)
    (hs : s.keys.slot id = .ready r) (hc : s.cancelled id = false) :
    (cancelDrop s id).2 = some r := by
  unfold cancelDrop
  simp only [hc, Bool.false_eq_true, if_false]
  rw [pop_ready _ _ _ (by simpa using hs)]

/-- io_uring: `Driver::cancel` only stages an `AsyncCancel` SQE (or drops it when the queue is full); it
    touches no slot, no history and no queued completion … -/
theorem iour_cancel_only_requests (r : Ring) (id : Id) :
    (r.cancel id).keys = r.keys ∧ (r.cancel id).cq = r.cq ∧ (r.cancel id).chan = r.chan := by
  unfold Ring.cancel
  split <;> exact ⟨rfl, rfl, rfl⟩

/-- … and a final CQE is stored verbatim: whatever was requested in the meantime, the submitter gets the
    result the kernel reported for that operation (bytes moved ⇒ `Ok(n)`), the slot being written once. -/
theorem iour_completion_stored_verbatim (r : Ring) (id : Id) (res : Res) (w : Option WakerId)
    (hs : r.keys.slot id = .pending w) :
    (r.handleCqe ⟨.key id, res, false⟩).keys.slot id = .ready res ∧
    ((r.cancel id).handleCqe ⟨.key id, res, false⟩).keys.slot id = .ready res := by
  have e := (iour_cancel_only_requests r id).1
  constructor
  · simp [Ring.handleCqe, (notify_pending r.keys id res w hs).1]
  · simp [Ring.handleCqe, e, (notify_pending r.keys id res w hs).1]

/-! ## (a) own result -/

/-- The value `Proactor::pop(k)` returns is the one and only result produced for `k`
    (by `k`'s own `operate`, `k`'s own thread-pool job or `k`'s own cancellation), and it is what
    `set_result` stored. -/
theorem own_result (ops : Ops W) {s : St W} (h : Reachable ops s) (id : Id) (r : Res) (s' : St W)
    (hp : pop s id = (s', some r)) : s.keys.src id = [r] ∧ s.keys.fin id = [r] := by
  have hinv := (reachable_inv h).k
  unfold pop at hp
  cases hs : s.keys.slot id with
  | free => rw [pop_not_ready _ _ (by intro r; rw [hs]; simp)] at hp; simp at hp
  | pending w => rw [pop_not_ready _ _ (by intro r; rw [hs]; simp)] at hp; simp at hp
  | ready r' =>
    rw [pop_ready _ _ _ hs] at hp
    simp only [Prod.mk.injEq, Option.some.injEq] at hp
    obtain ⟨_, rfl⟩ := hp
    have hr := hinv.slotRel id
    unfold SlotRel at hr
    rw [hs] at hr
    have hl := hinv.link id
    have hlen := hinv.srcLen id
    rw [hr.1] at hl
    refine ⟨?_, hr.1⟩
    cases hc : chanRes s.chan id with
    | nil => rw [hc] at hl; simpa using hl.symm
    | cons a l => rw [hc] at hl; rw [← hl] at hlen; simp at hlen

/-- A completion resolves only the operation whose key it carries (`user_data` / `Entry::key`):
    `set_result(id, r)` leaves every other operation's slot, history and waker count alone. -/
theorem completion_touches_only_its_key (ks : Keys) (id : Id) (r : Res) (x : Id) (hx : x ≠ id) :
    (ks.notify id r).slot x = ks.slot x ∧ (ks.notify id r).fin x = ks.fin x ∧
    (ks.notify id r).dlv x = ks.dlv x ∧ (ks.notify id r).woken x = ks.woken x := by
  obtain ⟨a, b, _, d, e, _⟩ := notify_frame ks id r x hx
  exact ⟨a, b, d, e⟩

/-- the io_uring side of the same fact: a CQE with `user_data = key id` changes no other operation -/
theorem cqe_touches_only_its_key (r : Ring) (id : Id) (res : Res) (x : Id) (hx : x ≠ id) :
    (r.handleCqe ⟨.key id, res, false⟩).keys.slot x = r.keys.slot x := by
  simp [Ring.handleCqe, (notify_frame r.keys id res x hx).1]

/-! ## (b) exactly once -/

/-- `set_result` runs at most once per operation, the user receives at most one result, and only a
    result that was stored; no `set_result` ever reaches an operation whose storage is gone. -/
theorem exactly_once (ops : Ops W) {s : St W} (h : Reachable ops s) (id : Id) :
    (s.keys.fin id).length ≤ 1 ∧ (s.keys.dlv id).length ≤ 1 ∧
    (s.keys.dlv id = [] ∨ s.keys.dlv id = s.keys.fin id) ∧ s.keys.uaf = false := by
  have hinv := (reachable_inv h).k
  have hf := hinv.finLen id
  have hr := hinv.slotRel id
  unfold SlotRel at hr
  refine ⟨hf, ?_, ?_, hinv.noUaf⟩
  · cases hs : s.keys.slot id with
    | free =>
      rw [hs] at hr
      rcases hr with ⟨_, _, _, d, _⟩ | ⟨_, d⟩
      · simp [d]
      · rw [d]; exact hf
    | pending w => rw [hs] at hr; simp [hr.2]
    | ready r => rw [hs] at hr; simp [hr.2]
  · cases hs : s.keys.slot id with
    | free =>
      rw [hs] at hr
      rcases hr with ⟨_, _, _, d, _⟩ | ⟨_, d⟩
      · exact Or.inl d
      · exact Or.inr d
    | pending w => rw [hs] at hr; exact Or.inl hr.2
    | ready r => rw [hs] at hr; exact Or.inl hr.2

/-- Nothing finished is left undelivered: once the `completed` channel is drained, every result the
    OS / the driver produced for an operation is either waiting in its slot for `pop` (also when the user
    gave the key up) or has been handed to the user. -/
theorem finished_is_delivered (ops : Ops W) {s : St W} (h : Reachable ops s) (id : Id) (r : Res)
    (hq : s.chan = []) (hdone : s.keys.src id = [r]) :
    s.keys.slot id = .ready r ∨ s.keys.dlv id = [r] := by
  have hinv := (reachable_inv h).k
  have hl := hinv.link id
  rw [hq, hdone] at hl
  simp at hl
  have hr := hinv.slotRel id
  unfold SlotRel at hr
  cases hs : s.keys.slot id with
  | free =>
    rw [hs] at hr
    rcases hr with ⟨a, _⟩ | ⟨_, d⟩
    · rw [a] at hdone; cases hdone
    · right; rw [d, hl]
  | pending w => rw [hs] at hr; rw [hr.1] at hl; cases hl
  | ready r' => rw [hs] at hr; rw [hr.1] at hl; simp at hl; left; rw [hl]

/-- An operation that is still owed a completion (queued for readiness or running in the thread pool) has
    had no result produced, notified or delivered yet, and its slot is still allocated and pending. -/
theorem owed_is_pending (ops : Ops W) {s : St W} (h : Reachable ops s) (id : Id)
    (ho : queuedP s id ∨ id ∈ s.pool) :
    s.keys.src id = [] ∧ s.keys.fin id = [] ∧ ∃ w, s.keys.slot id = .pending w := by
  have hinv := (reachable_inv h).k
  have hsrc : s.keys.src id = [] := by
    rcases ho with ho | ho
    · exact (hinv.qFresh id ho).1
    · exact hinv.poolFresh id ho
  exact ⟨hsrc, (hinv.fin_of_src_nil hsrc).1, hinv.pending_of_fresh hsrc ho⟩

/-! ## (c) the arming invariant of the polling driver, and bounded progress -/

/-- After every driver call — including the rollback of a failed `submit` and `cancel` —
    a descriptor is in the registry iff one of its queues is non-empty, it is registered with the poller
    iff it is in the registry, and the armed interest is exactly `FdQueue::event()`:
    readable iff the read queue is non-empty, writable iff the write queue is non-empty. -/
theorem arming_invariant (ops : Ops W) {s : St W} (h : Reachable ops s) (fd : Fd) :
    (s.reg fd = none → s.epoll fd = none) ∧
    (∀ q, s.reg fd = some q →
        (q.readQ ≠ [] ∨ q.writeQ ≠ []) ∧ s.epoll fd = some q.event ∧
        q.event.readable = !q.readQ.isEmpty ∧ q.event.writable = !q.writeQ.isEmpty) := by
  have ha := (reachable_inv h).q.armed fd
  constructor
  · intro hr; exact ha.reg_none hr
  · intro q hr
    obtain ⟨hne, ev, he, _, hev⟩ := ha.reg_some hr
    have : ev = q.event := hev (fun hp => hp)
    exact ⟨(FdQueue.isEmpty_false_iff q).1 hne, by rw [he, this], rfl, rfl⟩

/-- Every queued operation waits for exactly the descriptor and direction of the queue it is in, is in
    no other queue, and appears once. -/
theorem queued_where_it_waits (ops : Ops W) {s : St W} (h : Reachable ops s) (fd : Fd) (d : Dir) (id : Id)
    (hm : id ∈ s.queue fd d) :
    s.track id = [⟨fd, d, false⟩] ∧ (s.queue fd d).Nodup ∧
    ∀ fd' d', id ∈ s.queue fd' d' → fd' = fd ∧ d' = d := by
  have hq := (reachable_inv h).q
  exact ⟨hq.tracked fd d id hm, hq.nodup fd d, fun fd' d' hm' => hq.unique hm' hm⟩

/-- Bounded progress: if the head of a queue waits for a direction that the kernel reports ready, the
    very next `poll` runs it; when its system call succeeds the result is in its slot when `poll` returns.
    (By `arming_invariant` the descriptor IS armed for that direction, so the kernel will report it.) -/
theorem head_runs_at_next_poll (ops : Ops W) {s : St W} (h : Reachable ops s) (t : Bool)
    (fd : Fd) (q : FdQueue) (id : Id) (rest : List Id) (rd wr : Bool) (r : Res) (w' : W)
    (hr : s.reg fd = some q)
    (hhead : (rd = true ∧ q.readQ = id :: rest) ∨
             (wr = true ∧ q.writeQ = id :: rest ∧ (rd = false ∨ q.readQ = [])))
    (hop : ops.operate s.world id = (some r, w')) :
    ∃ s', poll ops s t [⟨fd, rd, wr⟩] = .ok (s', .ok) ∧ s'.keys.slot id = .ready r ∧
      s'.keys.fin id = [r] ∧ Inv noPend s' := by
  have hinv := reachable_inv h
  obtain ⟨hne, ev0, he, _, hev⟩ := (hinv.q.armed fd).reg_some hr
  have hev0 : ev0 = q.event := hev (fun hp => hp)
  subst hev0
  -- `epoll_wait` reports the descriptor
  have harm : (q.event.readable || q.event.writable) = true := by
    have := FdQueue.event_flags_of_nonempty q hne
    cases h1 : q.event.readable <;> cases h2 : q.event.writable <;> simp_all
  have hdel : deliver s [⟨fd, rd, wr⟩] =
      .ok ({ s with epoll := upd s.epoll fd (some { q.event with readable := false, writable := false }) },
           [⟨q.event.key, rd, wr⟩]) := by
    simp [deliver, he, harm]
  obtain ⟨hinv1, _, _, _, _⟩ := inv_deliver hinv _ _ hdel
  -- which operation the event pops
  obtain ⟨d, q', hpop, hget⟩ : ∃ d q', q.popInterest ⟨q.event.key, rd, wr⟩ = some (id, q') ∧ q.get d = id :: q'.get d := by
    rcases hhead with ⟨h1, h2⟩ | ⟨h1, h2, h3⟩
    · exact ⟨.read, _, FdQueue.popInterest_read q _ id rest h2 h1, by simp [FdQueue.get, h2]⟩
    · exact ⟨.write, _, FdQueue.popInterest_write q _ id rest h2 h1 h3, by simp [FdQueue.get, h2]⟩
  have hmemS : id ∈ s.queue fd d := by rw [queue_of_reg_some hr, hget]; simp
  have htr := hinv.q.tracked fd d id hmemS
  have hsrc := (hinv.k.qFresh id ⟨fd, d, hmemS⟩).1
  obtain ⟨w0, hw0⟩ := hinv.k.pending_of_fresh hsrc (Or.inl ⟨fd, d, hmemS⟩)
  have hfin := (hinv.k.fin_of_src_nil hsrc).1
  -- the key of the event is a queue head of this descriptor
  obtain ⟨dk, hkd⟩ := FdQueue.event_key_in q hne
  have hkS : q.event.key ∈ s.queue fd dk := by rw [queue_of_reg_some hr]; exact hkd
  have hktr := hinv.q.tracked fd dk _ hkS
  have hksrc := (hinv.k.qFresh _ ⟨fd, dk, hkS⟩).1
  obtain ⟨wk, hwk⟩ := hinv.k.pending_of_fresh hksrc (Or.inl ⟨fd, dk, hkS⟩)
  -- generic continuation from the state the event loop starts in
  have key : ∀ s2 : St W, Inv (fun x => x ∈ [fd]) s2 → s2.reg = s.reg → s2.track = s.track →
      s2.world = s.world → (∀ x w, queuedP s x → s.keys.slot x = .pending w → s2.keys.slot x = .pending w) →
      s2.keys.fin id = [] →
      ∃ s', eventLoop ops s2 [⟨q.event.key, rd, wr⟩] = .ok (s', .ok) ∧ s'.keys.slot id = .ready r ∧
        s'.keys.fin id = [r] ∧ Inv noPend s' := by
    intro s2 hinv2 hreg htrack hworld hslot hfin2
    have hr2 : s2.reg fd = some q := by rw [hreg]; exact hr
    obtain ⟨_, ev2, he2, _, _⟩ := (hinv2.q.armed fd).reg_some hr2
    obtain ⟨s3, hs3, e1, e2, e3, e4, _⟩ := pollOne_ready ops s2 ⟨q.event.key, rd, wr⟩ fd q q' ev2 id d r w'
      hr2 he2 hpop (by rw [htrack]; exact htr) (by rw [hworld]; exact hop)
    obtain ⟨s3', hs3', hinv3, _, _⟩ := inv_pollOne ops hinv2 fd q ⟨q.event.key, rd, wr⟩ hr2
    rw [hs3] at hs3'
    simp only [Except.ok.injEq, Prod.mk.injEq, and_true] at hs3'
    subst hs3'
    have hnp : (fun x => x ∈ [fd] ∧ x ≠ fd) = noPend := by
      funext x; apply propext; simp [noPend]
    rw [hnp] at hinv3
    refine ⟨s3, ?_, ?_, ?_, hinv3⟩
    · unfold eventLoop
      have hfree : (s2.keys.slot q.event.key == Slot.free) = false := by simp [hslot _ _ ⟨fd, dk, hkS⟩ hwk]
      simp only [hfree, Bool.false_eq_true, if_false, htrack, hktr, nextFd, List.find?, Bool.not_false,
        Option.map_some, hs3]
      rfl
    · rw [e4, (notify_pending (s2.keys.produce id r) id r w0 (by simpa using hslot _ _ ⟨fd, d, hmemS⟩ hw0)).1]; simp
    · rw [e4, (notify_pending (s2.keys.produce id r) id r w0 (by simpa using hslot _ _ ⟨fd, d, hmemS⟩ hw0)).2.1]
      simp [hfin2]
  unfold poll
  rw [hdel]
  simp only [List.isEmpty_cons, Bool.false_eq_true, if_false]
  cases hcc : (!s.chan.isEmpty) with
  | false =>
    simp only [Bool.false_eq_true, if_false]
    exact key _ hinv1 rfl rfl rfl (fun x w _ hx => hx) hfin
  | true =>
    simp only [if_true]
    refine key _ (inv_pollCompleted hinv1) (pollCompleted_reg _) (pollCompleted_track _) (pollCompleted_world _)
      ?_ ?_
    · intro x w hxq hx
      exact (pollCompleted_keeps_queued hinv1 x hxq w hx).1
    · exact (pollCompleted_keeps_queued hinv1 id ⟨fd, d, hmemS⟩ w0 hw0).2

/-- `PollExtra::reset`: afterwards NO tracked descriptor of the operation is marked ready — whatever the
    number of descriptors (one for every operation except `Splice`). -/
theorem reset_marks_every_fd_unready (ts : List Track) : ∀ t ∈ resetTracks ts, t.ready = false := by
  intro t ht
  obtain ⟨t0, _, rfl⟩ := List.mem_map.1 ht
  rfl

/-- Spurious / stolen readiness.  The head of a queue is run on a readiness event but its system call
    answers EAGAIN (`operate` = `Pending`: somebody else took the data, e.g. a receive on another
    descriptor of the same socket).  When `poll` returns the operation is back at the FRONT of the very
    same queue, its tracked descriptor is marked NOT ready (`PollExtra::reset` runs for single-descriptor
    operations too), the descriptor is armed again with `event()`, the slot is still pending, and the
    invariant holds — so `head_runs_at_next_poll` applies again at the next event: the operation is not lost.
    (`head_runs_at_next_poll` needs exactly this: it finds the descriptor of an event through
    `next_fd()` = first not-ready descriptor of the registered key, i.e. through the invariant "a queued
    operation is tracked not-ready", `queued_where_it_waits`.) -/
theorem pending_operate_requeues_unready (ops : Ops W) {s : St W} (h : Reachable ops s) (t : Bool)
    (fd : Fd) (q : FdQueue) (id : Id) (rest : List Id) (rd wr : Bool) (w' : W)
    (hr : s.reg fd = some q)
    (hhead : (rd = true ∧ q.readQ = id :: rest) ∨
             (wr = true ∧ q.writeQ = id :: rest ∧ (rd = false ∨ q.readQ = [])))
    (hop : ops.operate s.world id = (none, w')) :
    ∃ s' d, poll ops s t [⟨fd, rd, wr⟩] = .ok (s', .ok) ∧
      s'.reg fd = some q ∧ q.get d = id :: (match d with | .read => rest | .write => rest) ∧
      s'.track id = [⟨fd, d, false⟩] ∧ nextFd (s'.track id) = some fd ∧
      s'.epoll fd = some q.event ∧ (∃ w, s'.keys.slot id = .pending w) ∧ s'.keys.fin id = [] ∧
      Inv noPend s' := by
  have hinv := reachable_inv h
  obtain ⟨hne, ev0, he, _, hev⟩ := (hinv.q.armed fd).reg_some hr
  have hev0 : ev0 = q.event := hev (fun hp => hp)
  subst hev0
  have harm : (q.event.readable || q.event.writable) = true := by
    have := FdQueue.event_flags_of_nonempty q hne
    cases h1 : q.event.readable <;> cases h2 : q.event.writable <;> simp_all
  have hdel : deliver s [⟨fd, rd, wr⟩] =
      .ok ({ s with epoll := upd s.epoll fd (some { q.event with readable := false, writable := false }) },
           [⟨q.event.key, rd, wr⟩]) := by
    simp [deliver, he, harm]
  obtain ⟨hinv1, _, _, _, _⟩ := inv_deliver hinv _ _ hdel
  obtain ⟨d, q', hpop, hget, hrestd, hqeq⟩ : ∃ d q', q.popInterest ⟨q.event.key, rd, wr⟩ = some (id, q') ∧
      q.get d = id :: q'.get d ∧ q.get d = id :: (match d with | .read => rest | .write => rest) ∧
      q = q'.pushFront id d := by
    rcases hhead with ⟨h1, h2⟩ | ⟨h1, h2, h3⟩
    · refine ⟨.read, _, FdQueue.popInterest_read q _ id rest h2 h1, by simp [FdQueue.get, h2],
        by simp [FdQueue.get, h2], ?_⟩
      cases q; simp only at h2; subst h2; rfl
    · refine ⟨.write, _, FdQueue.popInterest_write q _ id rest h2 h1 h3, by simp [FdQueue.get, h2],
        by simp [FdQueue.get, h2], ?_⟩
      cases q; simp only at h2; subst h2; rfl
  have hmemS : id ∈ s.queue fd d := by rw [queue_of_reg_some hr, hget]; simp
  have htr := hinv.q.tracked fd d id hmemS
  have hsrc := (hinv.k.qFresh id ⟨fd, d, hmemS⟩).1
  obtain ⟨w0, hw0⟩ := hinv.k.pending_of_fresh hsrc (Or.inl ⟨fd, d, hmemS⟩)
  have hfin := (hinv.k.fin_of_src_nil hsrc).1
  obtain ⟨dk, hkd⟩ := FdQueue.event_key_in q hne
  have hkS : q.event.key ∈ s.queue fd dk := by rw [queue_of_reg_some hr]; exact hkd
  have hktr := hinv.q.tracked fd dk _ hkS
  have hksrc := (hinv.k.qFresh _ ⟨fd, dk, hkS⟩).1
  obtain ⟨wk, hwk⟩ := hinv.k.pending_of_fresh hksrc (Or.inl ⟨fd, dk, hkS⟩)
  have key : ∀ s2 : St W, Inv (fun x => x ∈ [fd]) s2 → s2.reg = s.reg → s2.track = s.track →
      s2.world = s.world → (∀ x w, queuedP s x → s.keys.slot x = .pending w → s2.keys.slot x = .pending w) →
      s2.keys.fin id = [] →
      ∃ s', eventLoop ops s2 [⟨q.event.key, rd, wr⟩] = .ok (s', .ok) ∧ s'.reg fd = some q ∧
        s'.track id = [⟨fd, d, false⟩] ∧ s'.epoll fd = some q.event ∧ (∃ w, s'.keys.slot id = .pending w) ∧
        s'.keys.fin id = [] ∧ Inv noPend s' := by
    intro s2 hinv2 hreg htrack hworld hslot hfin2
    have hr2 : s2.reg fd = some q := by rw [hreg]; exact hr
    obtain ⟨_, ev2, he2, _, _⟩ := (hinv2.q.armed fd).reg_some hr2
    obtain ⟨s3, hs3, e1, e2, e3, e4, _⟩ := pollOne_pending ops s2 ⟨q.event.key, rd, wr⟩ fd q q' ev2 id d w'
      hr2 he2 hpop hqeq (by rw [htrack]; exact htr) (by rw [hworld]; exact hop)
    obtain ⟨s3', hs3', hinv3, _, _⟩ := inv_pollOne ops hinv2 fd q ⟨q.event.key, rd, wr⟩ hr2
    rw [hs3] at hs3'
    simp only [Except.ok.injEq, Prod.mk.injEq, and_true] at hs3'
    subst hs3'
    have hnp : (fun x => x ∈ [fd] ∧ x ≠ fd) = noPend := by
      funext x; apply propext; simp [noPend]
    rw [hnp] at hinv3
    refine ⟨s3, ?_, by rw [e1]; exact hr2, by rw [e3, htrack]; exact htr, by rw [e2]; simp,
      ⟨w0, by rw [e4]; exact hslot _ _ ⟨fd, d, hmemS⟩ hw0⟩, by rw [e4]; exact hfin2, hinv3⟩
    unfold eventLoop
    have hfree : (s2.keys.slot q.event.key == Slot.free) = false := by simp [hslot _ _ ⟨fd, dk, hkS⟩ hwk]
    simp only [hfree, Bool.false_eq_true, if_false, htrack, hktr, nextFd, List.find?, Bool.not_false,
      Option.map_some, hs3]
    rfl
  have fin : ∀ s' : St W, s'.track id = [⟨fd, d, false⟩] → nextFd (s'.track id) = some fd := by
    intro s' ht; rw [ht]; simp [nextFd]
  unfold poll
  rw [hdel]
  simp only [List.isEmpty_cons, Bool.false_eq_true, if_false]
  cases hcc : (!s.chan.isEmpty) with
  | false =>
    simp only [Bool.false_eq_true, if_false]
    obtain ⟨s', a, b, c, e, f, g, i⟩ := key _ hinv1 rfl rfl rfl (fun x w _ hx => hx) hfin
    exact ⟨s', d, a, b, hrestd, c, fin s' c, e, f, g, i⟩
  | true =>
    simp only [if_true]
    obtain ⟨s', a, b, c, e, f, g, i⟩ := key _ (inv_pollCompleted hinv1) (pollCompleted_reg _)
      (pollCompleted_track _) (pollCompleted_world _)
      (fun x w hxq hx => (pollCompleted_keeps_queued hinv1 x hxq w hx).1)
      (pollCompleted_keeps_queued hinv1 id ⟨fd, d, hmemS⟩ w0 hw0).2
    exact ⟨s', d, a, b, hrestd, c, fin s' c, e, f, g, i⟩

/-! ## (d) FIFO per (descriptor, direction) -/

/-- Every readiness queue is a subsequence of the submission order of its (descriptor, direction):
    operations are only ever removed (completion, cancel) or put back where they were (not ready after
    all), never reordered. -/
theorem fifo (ops : Ops W) {s : St W} (h : Reachable ops s) (fd : Fd) (d : Dir) :
    (s.queue fd d).Sublist (s.pushed fd d) :=
  (reachable_inv h).q.fifo fd d

/-- `poll_one` runs only the HEAD of a queue (`pop_interest`), read direction first. -/
theorem only_the_head_runs (q q' : FdQueue) (ev : Event) (id : Id) (h : q.popInterest ev = some (id, q')) :
    ∃ d, q.get d = id :: q'.get d ∧ ∀ d', d' ≠ d → q'.get d' = q.get d' := by
  obtain ⟨d, h1, h2, _⟩ := FdQueue.popInterest_some h
  exact ⟨d, h1, h2⟩

/-- hence the operation at the head was submitted before everything behind it -/
theorem head_was_submitted_first (ops : Ops W) {s : St W} (h : Reachable ops s) (fd : Fd) (d : Dir)
    (x y : Id) (rest : List Id) (hq : s.queue fd d = x :: rest) (hy : y ∈ rest) :
    ∃ l1 l2, s.pushed fd d = l1 ++ x :: l2 ∧ y ∈ l2 := by
  have := fifo ops h fd d
  rw [hq] at this
  exact sublist_cons_mem this hy

/-! ## (e) submission-queue overflow (io_uring `push_raw`) -/

/-- `push_raw` terminates with the entry queued as soon as ONE `io_uring_enter` inside the loop consumes
    a staged SQE.  Assumption stated: the kernel eventually does (the Rust loop has no bound of its own). -/
theorem push_raw_terminates (e : Sqe) (script : List Enter) (r : Ring)
    (hlen : r.sq.length ≤ r.sqCap) (hcap : 0 < r.sqCap) (hk : ∃ en ∈ script, 1 ≤ en.taken) :
    (r.pushRaw e script).2 = .ok :=
  pushRaw_terminates e script r hlen hcap hk

/-- The new SQE is staged; the previously staged ones were only consumed from the front, by the kernel. -/
theorem push_raw_keeps_the_sqe (e : Sqe) (script : List Enter) (r r' : Ring)
    (h : r.pushRaw e script = (r', .ok)) : ∃ k, r'.sq = r.sq.drop k ++ [e] :=
  pushRaw_keeps_sqe e script r r' h

/-- Every final completion the loop drains from the completion queue has been passed to `set_result` of
    exactly the operation its `user_data` names (nothing drained is dropped). -/
theorem push_raw_loses_no_completion (e : Sqe) (script : List Enter) (r : Ring) :
    ∃ D, (r.pushRaw e script).1.drained = r.drained ++ D ∧
      ∀ c ∈ D, ∀ id, c.ud = .key id → c.more = false → c.res ∈ (r.pushRaw e script).1.keys.fin id :=
  pushRaw_drained_notified e script r

/-- …and `poll_entries` in general: each final CQE of a key ends up in that key's `set_result`. -/
theorem poll_entries_notifies (r : Ring) (c : Cqe) (id : Id) (hc : c ∈ r.cq) (hud : c.ud = .key id)
    (hm : c.more = false) : c.res ∈ r.pollEntries.keys.fin id := by
  unfold Ring.pollEntries
  exact foldl_handleCqe_notifies _ _ c id hc hud hm

/-! ## (f) `set_result` stores, then wakes -/

/-- If a waker `w` is registered when the operation completes, `set_result` (1) makes the slot `Ready`
    with the result, (2) wakes `w` exactly once, and (3) the wake happens when the slot is already `Ready`
    (the record logged at wake time says so). Without a registered waker nobody is woken. -/
theorem set_result_stores_then_wakes (ks : Keys) (id : Id) (r : Res) (w : WakerId)
    (h : ks.slot id = .pending (some w)) :
    (ks.notify id r).slot id = .ready r ∧ (ks.notify id r).woken id = ks.woken id + 1 ∧
    (ks.notify id r).wakeLog = ks.wakeLog ++ [⟨id, w, true, true⟩] := by
  obtain ⟨e1, _, _, _, _, _, e7⟩ := notify_pending ks id r (some w) h
  simp only at e7
  refine ⟨by rw [e1]; simp, by rw [e7.1]; simp, e7.2⟩

theorem set_result_without_waker (ks : Keys) (id : Id) (r : Res) (h : ks.slot id = .pending none) :
    (ks.notify id r).slot id = .ready r ∧ (ks.notify id r).woken = ks.woken ∧
    (ks.notify id r).wakeLog = ks.wakeLog := by
  obtain ⟨e1, _, _, _, _, _, e7⟩ := notify_pending ks id r none h
  simp only at e7
  exact ⟨by rw [e1]; simp, e7.1, e7.2⟩

/-- In every reachable state: a waker is never woken before its operation's result is stored, never woken
    twice, and every final wake found the slot `Ready`. -/
theorem wake_only_on_completion (ops : Ops W) {s : St W} (h : Reachable ops s) (id : Id) :
    s.keys.woken id ≤ (s.keys.fin id).length ∧ s.keys.woken id ≤ 1 ∧
    ∀ w ∈ s.keys.wakeLog, w.final = true → w.readyAtWake = true := by
  have hinv := (reachable_inv h).k
  have h1 := hinv.wokenLe id
  have h2 := hinv.finLen id
  exact ⟨h1, by omega, hinv.wakeReady⟩

/-- (f) over whole runs.  `hadWaker id` (ghost, written only by `update_waker` on a pending slot, never
    cleared) = "a waker was registered for `id` before it completed".  In every reachable state:
    while the operation is incomplete nobody was woken and the slot holds a waker iff one was registered;
    once it is complete the registered waker has been woken exactly once — and if none was registered,
    nobody.  So a waker registered before completion is woken exactly when the slot becomes `Ready`. -/
theorem registered_waker_woken_exactly_on_completion (ops : Ops W) {s : St W} (h : Reachable ops s) (id : Id) :
    (s.keys.fin id = [] → s.keys.woken id = 0) ∧
    (s.keys.fin id ≠ [] → s.keys.woken id = if s.keys.hadWaker id then 1 else 0) ∧
    (∀ w, s.keys.slot id = .pending w → w.isSome = s.keys.hadWaker id) := by
  have hinv := (reachable_inv h).k
  refine ⟨?_, hinv.wokenEq id, hinv.wakerReg id⟩
  intro hf
  have := hinv.wokenLe id
  rw [hf] at this
  simpa using this

/-- (f) with waker identities.  `lastWaker id` (ghost) = the waker passed to the LATEST `update_waker` made
    while `id` was pending; `finalWakers ks id` = the wakers `set_result` woke for `id` (from the wake log).
    In every reachable state: nobody is woken before completion; on completion exactly the latest registered
    waker is woken, exactly once — never an older one (a future re-polled under a new waker, e.g. after being
    moved into another task); with no registration nobody.  A pending slot holds precisely that latest waker. -/
theorem latest_waker_woken_exactly_once (ops : Ops W) {s : St W} (h : Reachable ops s) (id : Id) :
    finalWakers s.keys id = (if (s.keys.fin id).isEmpty then [] else (s.keys.lastWaker id).toList) ∧
    (∀ w, s.keys.slot id = .pending w → w = s.keys.lastWaker id) := by
  have hinv := (reachable_inv h).k
  exact ⟨hinv.wakersEq id, hinv.lastReg id⟩

/-- `update_waker(k, w)` on a pending operation REPLACES whatever waker was registered before -/
theorem update_waker_replaces (ks : Keys) (id : Id) (w : WakerId) (old : Option WakerId)
    (h : ks.slot id = .pending old) :
    (ks.setWaker id w).slot id = .pending (some w) ∧ (ks.setWaker id w).lastWaker id = some w := by
  refine ⟨by rw [setWaker_slot]; simp [h, Slot.setWaker], ?_⟩
  rw [setWaker_lastWaker]; simp [h]

/-- `Proactor::update_waker` on a pending operation registers the waker (so the completion will wake it) -/
theorem update_waker_registers (ks : Keys) (id : Id) (w : WakerId) (w0 : Option WakerId)
    (h : ks.slot id = .pending w0) :
    (ks.setWaker id w).slot id = .pending (some w) ∧ (ks.setWaker id w).hadWaker id = true := by
  refine ⟨by rw [setWaker_slot]; simp [h, Slot.setWaker], ?_⟩
  rw [setWaker_hadWaker]; simp [h]

section futures
variable {σ : Type} (push : σ → Id → σ × Option Res) (getK : σ → Keys) (setK : σ → Keys → σ)

/-- `Submit::poll` returning `Pending` leaves the task's waker registered in the operation's slot
    (given the driver's `push` allocated the slot), so by `set_result_stores_then_wakes` the completion
    wakes the task; the state is `Submitted`. -/
theorem submit_pending_registers_waker (hlens : ∀ s ks, getK (setK s ks) = ks)
    (hpush : ∀ s s1 id, push s id = (s1, none) → ∃ w0, (getK s1).slot id = .pending w0)
    (s s' : σ) (st st' : FutState) (id : Id) (w : WakerId)
    (hst : st = .idle ∨ (st = .submitted ∧ ∃ w0, (getK s).slot id = .pending w0))
    (h : submitPoll push getK setK s st id w = (s', st', .pending)) :
    st' = .submitted ∧ (getK s').slot id = .pending (some w) := by
  have hpt : ∀ ks ks' (w0 : Option WakerId), ks.slot id = .pending w0 → pollTask ks id w = (ks', none) →
      ks'.slot id = .pending (some w) := by
    intro ks ks' w0 hs hp
    unfold pollTask at hp
    rw [pop_not_ready ks id (by intro r; rw [hs]; simp)] at hp
    simp only [Prod.mk.injEq, and_true] at hp
    rw [← hp]; exact (update_waker_registers ks id w w0 hs).1
  have hpt' : ∀ ks (w0 : Option WakerId), ks.slot id = .pending w0 → (pollTask ks id w).2 = none := by
    intro ks w0 hs
    unfold pollTask
    rw [pop_not_ready ks id (by intro r; rw [hs]; simp)]
  rcases hst with rfl | ⟨rfl, w0, hw0⟩
  · unfold submitPoll at h
    cases hp : push s id with
    | mk s1 o =>
      cases o with
      | some r => simp [hp] at h
      | none =>
        obtain ⟨w0, hw0⟩ := hpush s s1 id hp
        simp only [hp] at h
        cases hq : pollTask (getK s1) id w with
        | mk ks o2 =>
          have := hpt' (getK s1) w0 hw0
          rw [hq] at this
          simp only at this
          subst this
          simp only [hq, Prod.mk.injEq, and_true] at h
          obtain ⟨rfl, rfl⟩ := h
          exact ⟨rfl, by rw [hlens]; exact hpt _ _ w0 hw0 hq⟩
  · unfold submitPoll at h
    cases hq : pollTask (getK s) id w with
    | mk ks o2 =>
      have := hpt' (getK s) w0 hw0
      rw [hq] at this
      simp only at this
      subst this
      simp only [hq, Prod.mk.injEq, and_true] at h
      obtain ⟨rfl, rfl⟩ := h
      exact ⟨rfl, by rw [hlens]; exact hpt _ _ w0 hw0 hq⟩

/-- Once the slot is `Ready(r)`, the next `Submit::poll` returns exactly `r`, consumes the key, and the
    future is finished: polling it again is the documented panic ("Cannot poll after ready") — the result
    is handed out once. -/
theorem submit_ready_returns_own_result (s : σ) (id : Id) (w : WakerId) (r : Res)
    (h : (getK s).slot id = .ready r) :
    ∃ s', submitPoll push getK setK s .submitted id w = (s', .gone, .ready r) ∧
      (submitPoll push getK setK s' .gone id w).2.2 = .panic := by
  unfold submitPoll pollTask
  rw [pop_ready _ _ _ h]
  exact ⟨_, rfl, rfl⟩

/-- `SubmitMulti`: items queued by multishot completions are yielded first, in order; the final result
    is yielded once and moves the stream to `Finished`, after which it reports end-of-stream. -/
theorem submit_multi_yields_items_in_order (ks : Keys) (id : Id) (w : WakerId) (r : Res) (rest : List Res)
    (h : ks.multi id = r :: rest) :
    ∃ ks', multiSubmitted ks id w = (ks', .submitted, .item r) ∧ ks'.multi id = rest := by
  unfold multiSubmitted pollMultishot Keys.popMulti
  simp [h]

theorem submit_multi_final_once (ks : Keys) (id : Id) (w : WakerId) (r : Res)
    (hm : ks.multi id = []) (hs : ks.slot id = .ready r) :
    ∃ ks', multiSubmitted ks id w = (ks', .finished, .item r) := by
  unfold multiSubmitted pollMultishot Keys.popMulti pollTask
  simp only [hm]
  have : (ks.setWaker id w).slot id = .ready r := by rw [setWaker_slot]; simp [hs, Slot.setWaker]
  rw [pop_ready _ _ _ this]
  exact ⟨_, rfl⟩

end futures

/-! ## io_uring: (a) and (b) for every run under the kernel contract

`RunOk` is what the environment has to respect: keys are fresh allocations, `jobDone` names a running job,
and every `io_uring_enter` / asynchronous post honours `EnterOk` — the kernel posts CQEs only with the
user_data of SQEs it consumed and has not finished yet, at most one final CQE each (assumption A-K: the
io_uring ABI).  Under that contract the driver's own logic — overflow loop, `poll_entries`, the `completed`
channel — keeps "exactly once, own result". -/

/-- reachable ring states -/
def RReachable (r : Ring) : Prop :=
  ∃ (cap : Nat) (steps : List RStep), RunOk { sqCap := cap } steps ∧ r = Ring.run { sqCap := cap } steps

theorem rreachable_inv {r : Ring} (h : RReachable r) : RInv r := by
  obtain ⟨cap, steps, hok, rfl⟩ := h
  exact RInv.run steps _ (RInv.init cap) hok

/-- what `pop` hands out on io_uring is the one result the kernel (or the thread pool) produced for that key -/
theorem iour_own_result {r : Ring} (h : RReachable r) (id : Id) (res : Res) (ks' : Keys)
    (hp : r.keys.pop id = (ks', some res)) : r.keys.src id = [res] ∧ r.keys.fin id = [res] := by
  have hk := (rreachable_inv h).k
  cases hs : r.keys.slot id with
  | free => rw [pop_not_ready _ _ (by intro x; rw [hs]; simp)] at hp; simp at hp
  | pending w => rw [pop_not_ready _ _ (by intro x; rw [hs]; simp)] at hp; simp at hp
  | ready r' =>
    rw [pop_ready _ _ _ hs] at hp
    simp only [Prod.mk.injEq, Option.some.injEq] at hp
    obtain ⟨_, rfl⟩ := hp
    exact hk.own_result hs

/-- (f) on io_uring: same statement (multishot `wake_by_ref` nudges are counted separately in `nudged`) -/
theorem iour_registered_waker_woken_exactly_on_completion {r : Ring} (h : RReachable r) (id : Id) :
    (r.keys.fin id = [] → r.keys.woken id = 0) ∧
    (r.keys.fin id ≠ [] → r.keys.woken id = if r.keys.hadWaker id then 1 else 0) ∧
    (∀ w, r.keys.slot id = .pending w → w.isSome = r.keys.hadWaker id) := by
  have hk := (rreachable_inv h).k
  refine ⟨?_, hk.wokenEq id, hk.wakerReg id⟩
  intro hf
  have := hk.wokenLe id
  rw [hf] at this
  simpa using this

theorem iour_latest_waker_woken_exactly_once {r : Ring} (h : RReachable r) (id : Id) :
    finalWakers r.keys id = (if (r.keys.fin id).isEmpty then [] else (r.keys.lastWaker id).toList) ∧
    (∀ w, r.keys.slot id = .pending w → w = r.keys.lastWaker id) := by
  have hk := (rreachable_inv h).k
  exact ⟨hk.wakersEq id, hk.lastReg id⟩

theorem iour_exactly_once {r : Ring} (h : RReachable r) (id : Id) :
    (r.keys.fin id).length ≤ 1 ∧ (r.keys.dlv id).length ≤ 1 ∧
    (r.keys.dlv id = [] ∨ r.keys.dlv id = r.keys.fin id) ∧ r.keys.uaf = false := by
  have hk := (rreachable_inv h).k
  obtain ⟨a, b, c⟩ := hk.exactly_once id
  exact ⟨a, b, c, hk.noUaf⟩

/-- once completion queue and `completed` channel are drained, every result the kernel / the pool produced
    sits in its slot or has been delivered -/
theorem iour_finished_is_delivered {r : Ring} (h : RReachable r) (id : Id) (res : Res)
    (hcq : r.cq = []) (hch : r.chan = []) (hdone : r.keys.src id = [res]) :
    r.keys.slot id = .ready res ∨ r.keys.dlv id = [res] := by
  have hk := (rreachable_inv h).k
  refine hk.finished_is_delivered ?_ hdone
  rw [hcq, hch]; rfl

/-- an operation whose SQE is staged or which the kernel owns has a live, pending slot and no result yet;
    the staged / kernel-owned operations are pairwise distinct -/
theorem iour_owed_is_pending {r : Ring} (h : RReachable r) (id : Id) (ho : r.owed id ∨ id ∈ r.pool) :
    r.keys.src id = [] ∧ r.keys.fin id = [] ∧ (∃ w, r.keys.slot id = .pending w) ∧
    (r.kern ++ opsOf r.sq).Nodup := by
  have hi := rreachable_inv h
  have hsrc : r.keys.src id = [] := by
    rcases ho with ho | ho
    · exact (hi.k.qFresh id ho).1
    · exact hi.k.poolFresh id ho
  exact ⟨hsrc, (hi.k.fin_of_src_nil hsrc).1, hi.k.pending_of_fresh hsrc ho, hi.nod⟩

/-! ## non-vacuity: the hypotheses are met by concrete, non-trivial runs -/

section examples

/-- a world in which every `operate` succeeds with 5 bytes -/
def okOps : Ops Unit := { operate := fun w _ => (some (.ok 5), w), addFails := fun _ => none }
/-- a world in which descriptor 7 is a regular file (epoll refuses it) -/
def fileOps : Ops Unit := { operate := fun w _ => (none, w), addFails := fun fd => if fd = 7 then some EPERM else none }

def demo : List Step :=
  [ .push 0 (.wait [(3, .read)]), .push 1 (.wait [(3, .read)]), .push 2 (.wait [(3, .write)]),
    .push 3 .blocking, .setWaker 0 9, .poll true [⟨3, true, true⟩], .jobDone 3 (.ok 1), .poll true [],
    .cancelToken 1, .poll true [], .pop 0 ]

example : ∀ e ∈ demo, e.single := by
  intro e he
  simp only [demo, List.mem_cons, List.not_mem_nil, or_false] at he
  rcases he with rfl | rfl | rfl | rfl | rfl | rfl | rfl | rfl | rfl | rfl | rfl <;> simp [Step.single]

/-- the demo run is accepted, operation 0 (head of the read queue) completed with its own 5 bytes and was
    delivered, the job and the cancelled read were notified, the write is still queued and armed -/
example :
    (match run okOps (init ()) demo with
     | .ok s => s.keys.dlv 0 == [.ok 5] && s.keys.fin 3 == [.ok 1] && s.keys.fin 1 == [.err ECANCELED] &&
                s.queue 3 .write == [2] && s.queue 3 .read == [] && s.keys.woken 0 == 1 &&
                (s.epoll 3).map (·.writable) == some true && (s.epoll 3).map (·.readable) == some false
     | .error _ => false) = true := by decide

/-- two wakers registered one after the other for the same pending operation: only the second is woken -/
example :
    (match run okOps (init ()) [.push 0 (.wait [(3, .read)]), .setWaker 0 7, .setWaker 0 8,
                               .poll true [⟨3, true, false⟩]] with
     | .ok s => finalWakers s.keys 0 == [8] && s.keys.lastWaker 0 == some 8 && s.keys.woken 0 == 1
     | .error _ => false) = true := by decide

/-- error rollback: a `Read` on a regular file is refused by epoll; nothing stays registered -/
example :
    (match run fileOps (init ()) [.push 0 (.wait [(7, .read)])] with
     | .ok s => s.keys.dlv 0 == [.err EPERM] && (s.reg 7).isNone && (s.epoll 7).isNone
     | .error _ => false) = true := by decide

/-- io_uring overflow: capacity 1, the queue is full, the kernel takes the staged entry and completes it
    inline; the drained completion is notified and the new entry is staged -/
example :
    let r0 : Ring := { sqCap := 1, sq := [.op 0], keys := ({} : Keys).alloc 0 }
    let (r1, res) := r0.pushOp 1 [⟨1, [⟨.key 0, .ok 3, false⟩]⟩]
    (res == .ok && r1.sq == [.op 1] && r1.keys.fin 0 == [.ok 3] && r1.drained.length == 1) = true := by decide

/-- an io_uring run that respects the contract: two reads, a poll whose `io_uring_enter` takes both and the
    notifier and completes the first, the second completing later on its own, a second poll, both popped -/
def ringDemo : List RStep :=
  [ .pushOp 0 [], .pushOp 1 [], .poll [] ⟨3, [⟨.key 0, .ok 3, false⟩]⟩, .kernel [⟨.key 1, .ok 4, false⟩],
    .poll [] ⟨0, []⟩, .pop 0, .pop 1 ]

theorem ringDemo_ok : RunOk { sqCap := 4 } ringDemo := by
  have enterOk : ∀ (r : Ring) (n : Nat) (id : Id) (res : Res), id ∈ r.kern ++ opsOf (r.sq.take n) →
      EnterOk r ⟨n, [⟨.key id, res, false⟩]⟩ := by
    intro r n id res hm
    refine ⟨?_, by simp [cqFinals]⟩
    intro c hc id' hud
    simp only [List.mem_singleton] at hc
    subst hc
    simp only [UserData.key.injEq] at hud
    subst hud
    exact hm
  refine ⟨⟨⟨rfl, rfl, by unfold Ring.owed; decide, by decide⟩, trivial⟩, ?_⟩
  refine ⟨⟨⟨rfl, rfl, by unfold Ring.owed; decide, by decide⟩, trivial⟩, ?_⟩
  refine ⟨?_, ?_⟩
  · -- first poll: nothing in the channel, the notifier is staged without overflow
    unfold RStepOk PollOk
    refine (if_pos (by decide)).mpr ?_
    refine (if_pos (by decide)).mpr ⟨trivial, ?_⟩
    intro r2 h2
    have : r2 = (((({ sqCap := 4 } : Ring).step (.pushOp 0 [])).step (.pushOp 1 [])).pollBlocking.1.pushRaw .notifier []).1 := by
      rw [h2]
    subst this
    exact enterOk _ 3 0 (.ok 3) (by decide)
  refine ⟨enterOk _ 0 1 (.ok 4) (by decide), ?_⟩
  refine ⟨?_, trivial, trivial, trivial⟩
  unfold RStepOk PollOk
  refine (if_pos (by decide)).mpr ?_
  refine (if_neg (by decide)).mpr ⟨(by intro c hc; cases hc), (by decide)⟩

/-- …and it ends with both operations delivered their own result, nothing owed, queues empty -/
example :
    let r := Ring.run { sqCap := 4 } ringDemo
    (r.keys.dlv 0 == [.ok 3] && r.keys.dlv 1 == [.ok 4] && r.kern == [] && r.cq == [] && r.sq == []) = true := by
  decide

end examples

end Compio.Props.C02
