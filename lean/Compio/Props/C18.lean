/-
C18: the dispatcher starts every accepted task exactly once.

Theorems about the transition system of Model/Dispatcher.lean (`step?`, `run?`: the very functions the driver
`c18d` fires), for every number of workers, both modes, every number of dispatching threads (the thread id
of an event is arbitrary) and every interleaving (`∀ evs : List Event`).
-/
import Compio.Lemmas.Dispatcher

namespace Compio.Dispatcher

/-- `func()` of a task is called at most once. -/
theorem started_le_one {nw : Nat} {conc : Bool} {s : St} (h : Reachable nw conc s) (t : Nat) :
    s.started t ≤ 1 := by
  have := (h.tinv.ok t).started
  simp only [St.view] at this
  rw [this]; cases s.stat t <;> simp [startedOf]
  rename_i o; cases o <;> simp

/-- ... and on exactly as many workers as it was started (so: on at most one). -/
theorem startedOn_length {nw : Nat} {conc : Bool} {s : St} (h : Reachable nw conc s) (t : Nat) :
    (s.startedOn t).length ≤ s.started t := by
  have h1 := (h.tinv.ok t).started
  have h2 := (h.tinv.ok t).startedOn
  simp only [St.view] at h1 h2
  rw [h1, h2]; cases s.stat t <;> simp [startedOf, startedOnOf]
  rename_i o; cases o <;> simp

end Compio.Dispatcher
