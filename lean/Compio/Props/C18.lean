/-
C18: the dispatcher starts every accepted task exactly once.

Theorems about the transition system of Model/Dispatcher.lean (`step?`, `run?`: the very functions the driver
`c18d` fires, both for its canonical schedule and for the trace acceptor), for every number of workers, both
modes, every number of dispatching threads (the thread id of an event is arbitrary) and every interleaving
(`∀ evs : List Event`, hidden in `Reachable nw conc s := ∃ evs, run? (init nw conc) evs = some s`).

Reading guide (ghost fields of `St`): `accepted` = tasks whose `dispatch`/`dispatch_blocking` returned `Ok`;
`started t` = number of calls of the closure of `t`; `startedOn t` = the workers it was called on;
`ended t` = number of times its body ended; `chan t` = what the `oneshot::Receiver` of `t` sees;
`joined` = result of `join` once it has returned.
-/
import Compio.Lemmas.Dispatcher
import Compio.Lemmas.DispatcherProgress
import Compio.Lemmas.DispatcherTrace
import Compio.Lemmas.DispatcherGen

namespace Compio.Dispatcher

/-- a task sent with `dispatch` (not `dispatch_blocking`) -/
def St.onWorkers (s : St) (t : Nat) : Prop := s.stat t ≠ .pooled ∧ s.stat t ≠ .poolDone

/-! ### exactly once -/

/-- The closure of a task is called at most once -- on every schedule, with any number of workers and
dispatching threads. -/
theorem started_le_one {nw : Nat} {conc : Bool} {s : St} (h : Reachable nw conc s) (t : Nat) :
    s.started t ≤ 1 := by
  have := (h.inv.t.ok t).started
  simp only [St.view] at this
  rw [this]; cases s.stat t <;> simp [startedOf]
  rename_i o; cases o <;> simp

/-- Only accepted tasks are ever started (a closure handed back in `DispatchError` never runs). -/
theorem started_accepted {nw : Nat} {conc : Bool} {s : St} (h : Reachable nw conc s) (t : Nat)
    (hs : 0 < s.started t) : t ∈ s.accepted ∧ t ∉ s.rejected := by
  have h1 := (h.inv.t.ok t).started
  have h2 := (h.inv.t.ok t).acc
  have h3 := (h.inv.t.ok t).rej
  simp only [St.view] at h1 h2 h3
  have hne : s.stat t ≠ .absent := by
    intro he; rw [h1, he] at hs; simp [startedOf] at hs
  refine ⟨by simpa using h2.mpr hne, ?_⟩
  intro hr
  exact hne (h3 (by simpa using hr))

/-- A task sent with `dispatch` is started on exactly as many workers as it was started: on exactly one
worker when it was started, on none before. -/
theorem started_on_one_worker {nw : Nat} {conc : Bool} {s : St} (h : Reachable nw conc s) (t : Nat)
    (hw : s.onWorkers t) : (s.startedOn t).length = s.started t := by
  have h1 := (h.inv.t.ok t).started
  have h2 := (h.inv.t.ok t).startedOn
  simp only [St.view] at h1 h2
  rw [h1, h2]
  cases hst : s.stat t <;> simp [startedOf, startedOnOf]
  · rename_i o; cases o <;> simp
  · exact hw.2 hst

/-- Blocking closures run on the pool, never on a worker runtime. -/
theorem blocking_not_on_worker {nw : Nat} {conc : Bool} {s : St} (h : Reachable nw conc s) (t : Nat)
    (hb : ¬ s.onWorkers t) : s.startedOn t = [] := by
  have h2 := (h.inv.t.ok t).startedOn
  simp only [St.view] at h2
  rw [h2]
  cases hst : s.stat t <;> simp [startedOnOf] <;> (exfalso; apply hb; constructor <;> simp [hst])

/-- Completeness: an accepted task that has not been started is still waiting to be (in the queue, spawned
but not polled yet, or in the blocking pool) -- or it was dropped, and then `join` had been called or a worker
thread had panicked. -/
theorem accepted_started_or_waiting {nw : Nat} {conc : Bool} {s : St} (h : Reachable nw conc s) (t : Nat)
    (ha : t ∈ s.accepted) :
    s.started t = 1 ∨ t ∈ s.queue ∨ (∃ w, s.stat t = .spawned w ∧ w < s.nw ∧ (s.main w).gone = false) ∨
      s.stat t = .pooled ∨
      (s.stat t = .dropped none ∧ (s.sender = false ∨ ∃ w, w < s.nw ∧ (s.main w).failed)) := by
  have h1 := (h.inv.t.ok t).started
  have h2 := (h.inv.t.ok t).acc
  simp only [St.view] at h1 h2
  have hne : s.stat t ≠ .absent := h2.mp (by simpa using ha)
  cases hst : s.stat t with
  | absent => exact (hne hst).elim
  | queued => right; left; exact (h.inv.t.q.mem t).mpr hst
  | spawned w =>
    right; right; left
    exact ⟨w, rfl, h.inv.w.alive t w (by simp [St.active, hst, TStat.activeOn])⟩
  | running w k => left; rw [h1, hst]; rfl
  | done w => left; rw [h1, hst]; rfl
  | dropped o =>
    cases o with
    | none => right; right; right; right; exact ⟨rfl, h.inv.j.anydrop t none hst⟩
    | some w => left; rw [h1, hst]; rfl
  | pooled => right; right; right; left; rfl
  | poolDone => left; rw [h1, hst]; rfl

/-- "`= 1` for every accepted task once the queue is drained (before workers exit)": while the dispatcher
is alive and no worker thread has panicked, every accepted task that is neither queued nor waiting for its
first poll has been started exactly once. -/
theorem started_eq_one_when_settled {nw : Nat} {conc : Bool} {s : St} (h : Reachable nw conc s)
    (hsend : s.sender = true) (hnf : ∀ w, w < s.nw → ¬ (s.main w).failed) (t : Nat)
    (ha : t ∈ s.accepted) (hq : t ∉ s.queue) (hsp : ∀ w, s.stat t ≠ .spawned w) (hp : s.stat t ≠ .pooled) :
    s.started t = 1 := by
  rcases accepted_started_or_waiting h t ha with h1 | h1 | ⟨w, h1, _⟩ | h1 | ⟨_, h1 | ⟨w, hw, hf⟩⟩
  · exact h1
  · exact (hq h1).elim
  · exact (hsp w h1).elim
  · exact (hp h1).elim
  · rw [hsend] at h1; cases h1
  · exact (hnf w hw hf).elim

/-! ### results -/

/-- A value in the channel of `t` is the value of `t`'s own body, which ended exactly once and sent exactly
once. -/
theorem value_is_own_result {nw : Nat} {conc : Bool} {s : St} (h : Reachable nw conc s) (t v : Nat)
    (hv : s.chan t = .value v) : (s.body t).out = .ok v ∧ s.ended t = 1 ∧ s.sent t = 1 := by
  obtain ⟨_, _, h3, h4, h5, _, _⟩ := h.inv.t.ok t
  simp only [St.view] at h3 h4 h5
  cases hst : s.stat t <;> simp [hst, chanOk, hv] at h5
  all_goals
    cases ho : (s.body t).out <;> simp [ho] at h5
    subst h5
    refine ⟨rfl, by rw [h3, hst]; rfl, by rw [h4, hst]; simp [sentOf, ho, TStat.isDone]⟩

/-- When a task runs to completion its result reaches its own receiver (unless the caller dropped the
receiver). -/
theorem completed_result_delivered {nw : Nat} {conc : Bool} {s : St} (h : Reachable nw conc s) (t v : Nat)
    (hd : (s.stat t).isDone = true) (ho : (s.body t).out = .ok v) :
    s.chan t = .value v ∨ s.chan t = .closed := by
  have h5 := (h.inv.t.ok t).chan
  simp only [St.view] at h5
  cases hst : s.stat t <;> simp [hst, TStat.isDone] at hd <;> simp [hst, chanOk, ho] at h5 <;>
    (rcases h5 with h5 | h5 <;> simp [h5])

/-- A task whose body panicked is reported as cancelled (the panic is contained in the task). -/
theorem panicked_task_cancelled {nw : Nat} {conc : Bool} {s : St} (h : Reachable nw conc s) (t : Nat)
    (hd : (s.stat t).isDone = true) (ho : (s.body t).out = .panic) :
    s.chan t = .cancelled ∨ s.chan t = .closed := by
  have h5 := (h.inv.t.ok t).chan
  simp only [St.view] at h5
  cases hst : s.stat t <;> simp [hst, TStat.isDone] at hd <;> simp [hst, chanOk, ho] at h5 <;>
    (rcases h5 with h5 | h5 <;> simp [h5])

/-- A receiver is cancelled only when the task object was dropped unfinished or its body panicked: never
after the body returned. -/
theorem cancelled_not_completed {nw : Nat} {conc : Bool} {s : St} (h : Reachable nw conc s) (t v : Nat)
    (hc : s.chan t = .cancelled) (ho : (s.body t).out = .ok v) : (s.stat t).isDone = false := by
  have h5 := (h.inv.t.ok t).chan
  simp only [St.view] at h5
  cases hst : s.stat t <;> simp [TStat.isDone] <;> simp [hst, chanOk, ho, hc] at h5

/-! ### join -/

/-- `join` returns only after all worker threads have finished. -/
theorem join_after_all_workers {nw : Nat} {conc : Bool} {s : St} (h : Reachable nw conc s)
    (r : Option Nat) (hj : s.joined = some r) : ∀ w, w < s.nw → (s.main w).gone = true :=
  fun _ hw => gone_of_allGone (h.inv.j.joined r hj).2.1 hw

/-- ... over both paths of `join`: the closure that joins the threads runs on the blocking pool, or -- when the
pool refuses it because its thread limit is reached -- on a fresh thread; `join` never returns without one of
them having joined every worker. -/
theorem join_both_paths_wait_for_workers {nw : Nat} {conc : Bool} {s : St} (h : Reachable nw conc s)
    (r : Option Nat) (hj : s.joined = some r) :
    (s.joiner = some true ∨ s.joiner = some false) ∧ ∀ w, w < s.nw → (s.main w).gone = true := by
  refine ⟨?_, join_after_all_workers h r hj⟩
  have := h.inv.n r hj
  cases hn : s.joiner with
  | none => simp [hn] at this
  | some b => cases b <;> simp

/-- A saturated pool cannot block `join`: once the sender is dropped the fallback thread can always take the
joiner closure. -/
theorem join_fallback_always_possible (s : St) (hsend : s.sender = false) (hn : s.joiner = none) :
    (step? s .joinFallbackThread).isSome = true := by
  simp [step?, joinHand?, hsend, hn]

/-- If the dispatcher is joined first, the receiver observes cancellation instead of hanging: once `join`
has returned, no receiver of a task sent with `dispatch` is pending (the sender half was dropped together
with the task object, or the result was sent). -/
theorem no_receiver_pending_after_join {nw : Nat} {conc : Bool} {s : St} (h : Reachable nw conc s)
    (r : Option Nat) (hj : s.joined = some r) (t : Nat) (hw : s.onWorkers t) : s.chan t ≠ .pending := by
  intro hp
  obtain ⟨hsend, hall, _⟩ := h.inv.j.joined r hj
  have h5 := (h.inv.t.ok t).chan
  simp only [St.view] at h5
  have hnorx : anyRx s = false := by
    rw [anyRx_false_iff]
    intro w hw
    have := gone_of_allGone hall hw
    cases hm : s.main w <;> simp [hm, Main.gone] at this <;> rfl
  cases hst : s.stat t with
  | absent => simp [hst, chanOk, hp] at h5
  | queued =>
    -- the channel has been freed
    have := (h.inv.t.q.mem t).mpr hst
    rw [h.inv.j.freedq hsend hnorx] at this
    cases this
  | spawned w =>
    have := h.inv.w.alive t w (by simp [St.active, hst, TStat.activeOn])
    rw [gone_of_allGone hall this.1] at this
    cases this.2
  | running w k =>
    have := h.inv.w.alive t w (by simp [St.active, hst, TStat.activeOn])
    rw [gone_of_allGone hall this.1] at this
    cases this.2
  | done w => simp [hst, chanOk, hp] at h5; cases ho : (s.body t).out <;> simp [ho] at h5
  | dropped o => simp [hst, chanOk, hp] at h5
  | pooled => exact hw.1 hst
  | poolDone => exact hw.2 hst

/-- A worker panic is re-raised by `join`: it returns `Ok` only if every worker thread finished normally,
and otherwise resumes the panic of the first panicked worker in thread order. -/
theorem join_reraises_worker_panic {nw : Nat} {conc : Bool} {s : St} (h : Reachable nw conc s)
    (r : Option Nat) (hj : s.joined = some r) :
    (r = none → ∀ w, w < s.nw → s.main w = .exited) ∧
    (∀ p, r = some p → ∃ w, w < s.nw ∧ s.main w = .dead p ∧ ∀ w', w' < w → s.main w' = .exited) := by
  obtain ⟨_, hall, hr⟩ := h.inv.j.joined r hj
  have hex : ∀ w, w < s.nw → (∀ q, s.main w ≠ .dead q) → s.main w = .exited := by
    intro w hw hnd
    have := gone_of_allGone hall hw
    cases hm : s.main w with
    | exited => rfl
    | dead q => exact (hnd q hm).elim
    | _ => simp [hm, Main.gone] at this
  constructor
  · intro hn w hw
    exact hex w hw (firstDead_none (by rw [← hr, hn]) w hw)
  · intro p hp
    obtain ⟨w, hw, hd, hlt⟩ := firstDead_some (s := s) (p := p) (by rw [← hr, hp])
    exact ⟨w, hw, hd, fun w' hw' => hex w' (by omega) (hlt w' hw')⟩

/-- ... and a panicked worker thread makes `join` panic. -/
theorem worker_panic_makes_join_panic {nw : Nat} {conc : Bool} {s : St} (h : Reachable nw conc s)
    (r : Option Nat) (hj : s.joined = some r) (w p : Nat) (hw : w < s.nw) (hd : s.main w = .dead p) :
    r ≠ none := by
  intro hn
  have := (join_reraises_worker_panic h r hj).1 hn w hw
  rw [hd] at this; cases this

/-! ### sequential mode -/

/-- Sequential mode: a worker never has two tasks between spawn and completion. -/
theorem sequential_no_overlap {nw : Nat} {s : St} (h : Reachable nw false s) (t t' w : Nat)
    (h1 : s.active t w) (h2 : s.active t' w) : t = t' :=
  h.inv.w.uniq h.nw_conc.2 t t' w h1 h2

/-- Sequential mode: the worker loop does not receive the next task while one is in its executor. -/
theorem sequential_busy_worker_not_receiving {nw : Nat} {s : St} (h : Reachable nw false s) (t w : Nat)
    (h1 : s.active t w) : s.main w ≠ .idle := by
  intro hi
  rcases h.inv.w.seq h.nw_conc.2 t w h1 with h2 | ⟨p, h2⟩ <;> simp [hi] at h2

/-- Sequential mode: when `join` returns `Ok`, every task accepted by `dispatch` has been started once, has
finished, and its result (or the cancellation caused by its own panic) is at its receiver. -/
theorem sequential_all_finished_at_join {nw : Nat} {s : St} (h : Reachable nw false s)
    (hj : s.joined = some none) (t : Nat) (ha : t ∈ s.accepted) (hw : s.onWorkers t) :
    s.started t = 1 ∧ s.ended t = 1 ∧ (∃ w, w < s.nw ∧ s.startedOn t = [w]) ∧
      (∀ v, (s.body t).out = .ok v → s.chan t = .value v ∨ s.chan t = .closed) := by
  obtain ⟨hsend, hall, _⟩ := h.inv.j.joined none hj
  have hexit := (join_reraises_worker_panic h none hj).1 rfl
  obtain ⟨h1, h2, h3, _, h5, h6, _⟩ := h.inv.t.ok t
  simp only [St.view] at h1 h2 h3 h5 h6
  have hne : s.stat t ≠ .absent := h6.mp (by simpa using ha)
  have hpend := no_receiver_pending_after_join h none hj t hw
  cases hst : s.stat t with
  | absent => exact (hne hst).elim
  | queued => simp [hst, chanOk] at h5; rcases h5 with h5 | h5
              · exact (hpend h5).elim
              · exfalso
                have hnorx : anyRx s = false := by
                  rw [anyRx_false_iff]; intro w hw; rw [hexit w hw]; rfl
                have := (h.inv.t.q.mem t).mpr hst
                rw [h.inv.j.freedq hsend hnorx] at this; cases this
  | spawned w =>
    exfalso
    have := h.inv.w.alive t w (by simp [St.active, hst, TStat.activeOn])
    rw [hexit w this.1] at this; cases this.2
  | running w k =>
    exfalso
    have := h.inv.w.alive t w (by simp [St.active, hst, TStat.activeOn])
    rw [hexit w this.1] at this; cases this.2
  | done w =>
    refine ⟨by rw [h1, hst]; rfl, by rw [h3, hst]; rfl, ?_, ?_⟩
    · -- the worker it ran on is one of the dispatcher's workers
      exact ⟨w, h.inv.x t w (by simp [hst, widx]), by rw [h2, hst]; rfl⟩
    · intro v hv
      exact completed_result_delivered h t v (by simp [hst, TStat.isDone]) hv
  | dropped o =>
    exfalso
    obtain ⟨w, hw, hf⟩ := h.inv.j.seqdrop h.nw_conc.2 t o hst
    rw [hexit w hw] at hf; exact hf
  | pooled => exact (hw.1 hst).elim
  | poolDone => exact (hw.2 hst).elim

/-! ### bounded progress: the receiver resolves -/

/-- once the `Dispatcher` has been consumed by `join`, no new work can enter -/
theorem no_dispatch_after_join {s s' : St} {e : Event} (hsend : s.sender = false)
    (hs : step? s e = some s') : e.external = false ∧ s'.sender = false := by
  cases e with
  | dispatch d t b => obtain ⟨h1, _⟩ := dispatch?_some hs; rw [hsend] at h1; cases h1
  | dispatchBlocking d t b ok => obtain ⟨h1, _⟩ := dispatchBlocking?_some hs; rw [hsend] at h1; cases h1
  | runBlocking t =>
    obtain ⟨_, hc | hc⟩ := runBlocking?_some hs
    · obtain ⟨v, _, rfl⟩ := hc; exact ⟨rfl, hsend⟩
    · obtain ⟨_, rfl⟩ := hc; exact ⟨rfl, hsend⟩
  | rxDrop t => obtain ⟨_, _, rfl⟩ := rxDrop?_some hs; exact ⟨rfl, hsend⟩
  | recv w t => obtain ⟨_, _, _, rfl⟩ := recv?_some hs; exact ⟨rfl, hsend⟩
  | poll w t =>
    obtain ⟨_, _, hc | hc | hc | hc⟩ := poll?_some hs
    · obtain ⟨_, rfl⟩ := hc; exact ⟨rfl, hsend⟩
    · obtain ⟨k, _, rfl⟩ := hc; exact ⟨rfl, hsend⟩
    · obtain ⟨v, _, _, rfl⟩ := hc; exact ⟨rfl, hsend⟩
    · obtain ⟨_, _, rfl⟩ := hc; exact ⟨rfl, hsend⟩
  | remoteWake t => obtain ⟨_, rfl⟩ := remoteWake?_some hs; exact ⟨rfl, hsend⟩
  | die w p => obtain ⟨_, _, rfl⟩ := die?_some hs; exact ⟨rfl, hsend⟩
  | reap w => obtain ⟨p, _, _, rfl⟩ := reap?_some hs; exact ⟨rfl, by simpa using hsend⟩
  | joinStart => obtain ⟨h1, _⟩ := joinStart?_some hs; rw [hsend] at h1; cases h1
  | joinPool => obtain ⟨_, _, rfl⟩ := joinHand?_some hs; exact ⟨rfl, hsend⟩
  | joinFallbackThread => obtain ⟨_, _, rfl⟩ := joinHand?_some hs; exact ⟨rfl, hsend⟩
  | exitLoop w => obtain ⟨_, _, _, _, rfl⟩ := exitLoop?_some hs; exact ⟨rfl, hsend⟩
  | teardown w => obtain ⟨_, _, rfl⟩ := teardown?_some hs; exact ⟨rfl, hsend⟩
  | joinReturn => obtain ⟨_, _, _, rfl⟩ := joinReturn?_some hs; exact ⟨rfl, hsend⟩

theorem run_after_join_internal {s s' : St} {evs : List Event} (hsend : s.sender = false)
    (hr : run? s evs = some s') : ∀ e, e ∈ evs → e.external = false := by
  induction evs generalizing s with
  | nil => intro e he; cases he
  | cons a es ih =>
    obtain ⟨s1, h1, h2⟩ := run?_cons hr
    obtain ⟨ha, hs1⟩ := no_dispatch_after_join hsend h1
    intro e he
    rcases List.mem_cons.mp he with rfl | he'
    · exact ha
    · exact ih hs1 h2 e he'

/-- "The receiver resolves" as bounded progress.  From any reachable state in which `join` has been called:
(1) until `join` returns, some event is enabled (no deadlock) -- in sequential mode provided no task body hangs
forever, because `join` then really waits for it; (2) every continuation of the schedule has at most `rank s`
events besides wake-ups of task wakers, which do no work and may come in any number (no infinite run, explicit
bound); (3) when `join` has returned, no receiver of a dispatched task is
pending.  So after at most `rank s` further events of any maximal schedule every receiver has resolved, to
the value or to cancellation. -/
theorem receiver_resolves_bounded {nw : Nat} {conc : Bool} {s : St} (h : Reachable nw conc s)
    (hsend : s.sender = false) :
    (s.joined = none → (s.conc = false → ∀ t, (s.body t).out ≠ .never) →
        ∃ e, e.external = false ∧ (step? s e).isSome = true) ∧
    (∀ evs s', run? s evs = some s' → (workEvents evs).length ≤ rank s) ∧
    (∀ r, s.joined = some r → ∀ t, s.onWorkers t → s.chan t ≠ .pending) := by
  refine ⟨fun hj ht => join_never_stuck h.inv hsend hj ht, ?_, fun r hj t => no_receiver_pending_after_join h r hj t⟩
  intro evs s' hr
  have := internal_run_bounded h.inv (run_after_join_internal hsend hr) hr
  omega

/-- Before `join`, too, work that is already in the system takes a bounded number of events: any schedule
segment without new `dispatch` calls is at most `rank s` long. -/
theorem internal_events_bounded {nw : Nat} {conc : Bool} {s s' : St} (h : Reachable nw conc s)
    (evs : List Event) (hint : ∀ e, e ∈ evs → e.external = false) (hr : run? s evs = some s') :
    (workEvents evs).length ≤ rank s := by
  have := internal_run_bounded h.inv hint hr
  omega

/-! ### wake-ups from other threads -/

/-- A dispatched task may be woken from any thread at any time -- also between two events of its own poll --
and any number of times: `remoteWake t` is enabled in every state of an accepted task. -/
theorem remote_wake_always_possible (s : St) (t : Nat) (h : s.stat t ≠ .absent) :
    (step? s (.remoteWake t)).isSome = true := by
  simp [step?, remoteWake?, h]

/-- A wake-up changes nothing but the pending-wake flag: it can neither start a task a second time nor
resolve or cancel a receiver. -/
theorem remote_wake_only_marks {s s' : St} {t : Nat} (hs : step? s (.remoteWake t) = some s') (t' : Nat) :
    s'.stat t' = s.stat t' ∧ s'.chan t' = s.chan t' ∧ s'.started t' = s.started t' ∧ s'.main = s.main ∧
      s'.woken t = true := by
  obtain ⟨_, rfl⟩ := remoteWake?_some hs
  exact ⟨rfl, rfl, rfl, rfl, by simp⟩

/-- A pending wake is never lost: only a poll of the task itself consumes it. -/
theorem wake_not_lost {s s' : St} {e : Event} (hs : step? s e = some s') (t : Nat) (hw : s.woken t = true) :
    s'.woken t = true ∨ ∃ w, e = .poll w t := by
  cases e with
  | dispatch d t0 b =>
    obtain ⟨_, _, _, hc | hc⟩ := dispatch?_some hs <;> (obtain ⟨_, rfl⟩ := hc; exact Or.inl hw)
  | dispatchBlocking d t0 b ok =>
    obtain ⟨_, _, _, hc | hc⟩ := dispatchBlocking?_some hs <;> (obtain ⟨_, rfl⟩ := hc; exact Or.inl hw)
  | runBlocking t0 =>
    obtain ⟨_, hc | hc⟩ := runBlocking?_some hs
    · obtain ⟨v, _, rfl⟩ := hc; exact Or.inl hw
    · obtain ⟨_, rfl⟩ := hc; exact Or.inl hw
  | rxDrop t0 => obtain ⟨_, _, rfl⟩ := rxDrop?_some hs; exact Or.inl hw
  | recv w t0 => obtain ⟨_, _, _, rfl⟩ := recv?_some hs; exact Or.inl hw
  | poll w t0 =>
    by_cases ht : t0 = t
    · subst ht; exact Or.inr ⟨w, rfl⟩
    · left
      have hne : t ≠ t0 := fun h => ht h.symm
      obtain ⟨_, _, hc | hc | hc | hc⟩ := poll?_some hs
      · obtain ⟨_, rfl⟩ := hc; simpa [upd_other _ _ hne] using hw
      · obtain ⟨k, _, rfl⟩ := hc; simpa [upd_other _ _ hne] using hw
      · obtain ⟨v, _, _, rfl⟩ := hc; simpa [upd_other _ _ hne] using hw
      · obtain ⟨_, _, rfl⟩ := hc; simpa [upd_other _ _ hne] using hw
  | remoteWake t0 =>
    obtain ⟨_, rfl⟩ := remoteWake?_some hs
    left; show upd s.woken t0 true t = true
    rw [upd_apply]; split <;> simp [hw]
  | die w p => obtain ⟨_, _, rfl⟩ := die?_some hs; exact Or.inl hw
  | reap w => obtain ⟨p, _, _, rfl⟩ := reap?_some hs; left; simpa using hw
  | joinStart => obtain ⟨_, rfl⟩ := joinStart?_some hs; left; simpa using hw
  | joinPool => obtain ⟨_, _, rfl⟩ := joinHand?_some hs; exact Or.inl hw
  | joinFallbackThread => obtain ⟨_, _, rfl⟩ := joinHand?_some hs; exact Or.inl hw
  | exitLoop w => obtain ⟨_, _, _, _, rfl⟩ := exitLoop?_some hs; exact Or.inl hw
  | teardown w => obtain ⟨_, _, rfl⟩ := teardown?_some hs; exact Or.inl hw
  | joinReturn => obtain ⟨_, _, _, rfl⟩ := joinReturn?_some hs; exact Or.inl hw

/-- A task with a pending wake is polled again: as long as it lives in the executor of a worker that still
runs, its poll is enabled (whatever was woken, by whom, and when -- also during the previous poll); the only
exception is a body that has nothing left to do but hang for ever.  Together with `wake_not_lost` and the
variant (`internal_events_bounded`): the wake stays pending until that poll happens, and only boundedly many
other events can come first.  If the worker thread is panicking instead, `reap` is enabled and the receiver is
cancelled. -/
theorem woken_task_polled_again {nw : Nat} {conc : Bool} {s : St} (h : Reachable nw conc s) (t w : Nat)
    (ha : s.active t w) (hnever : ¬ (s.stat t = .running w 0 ∧ (s.body t).out = .never)) :
    ((s.main w).canPoll = true → (step? s (.poll w t)).isSome = true) ∧
    ((s.main w).canPoll = false → (step? s (.reap w)).isSome = true) := by
  obtain ⟨hw, hg⟩ := h.inv.w.alive t w ha
  constructor
  · intro hc
    cases hst : s.stat t <;> simp [St.active, hst, TStat.activeOn] at ha
    · subst ha; simp [step?, poll?, hw, hc, hst]
    · subst ha
      rename_i k
      cases k with
      | succ k => simp [step?, poll?, hw, hc, hst]
      | zero =>
        cases ho : (s.body t).out with
        | never => exact (hnever ⟨hst, ho⟩).elim
        | ok v => simp [step?, poll?, hw, hc, hst, ho]
        | panic => simp [step?, poll?, hw, hc, hst, ho]
  · intro hc
    cases hm : s.main w <;> simp [hm, Main.canPoll, Main.gone] at hc hg
    simp [step?, reap?, hm, hw]

/-! ### teardown does not depend on wakes or on runnable tasks -/

/-- wake-ups leave workers, queue, sender and every task's place and channel alone -/
theorem wakes_change_nothing_else {s s' : St} (ts : List Nat) (h : run? s (ts.map .remoteWake) = some s') :
    s'.main = s.main ∧ s'.nw = s.nw ∧ s'.queue = s.queue ∧ s'.sender = s.sender ∧ s'.stat = s.stat ∧
      s'.chan = s.chan ∧ s'.joined = s.joined ∧ s'.joiner = s.joiner := by
  induction ts generalizing s with
  | nil => simp [run?] at h; subst h; simp
  | cons t ts ih =>
    obtain ⟨s1, h1, h2⟩ := run?_cons h
    obtain ⟨_, rfl⟩ := remoteWake?_some h1
    simpa using ih h2

/-- Any number of remote wakes -- of any tasks, in any states of their scheduling, before or after `join` was
called -- leaves the exit path of every worker exactly as enabled as it was: leaving the loop, the teardown
(`executor.clear()`), the unwinding of a panicked worker and the return of `join`. -/
theorem exit_path_independent_of_wakes {s s' : St} (ts : List Nat)
    (h : run? s (ts.map .remoteWake) = some s') (w : Nat) :
    (step? s' (.exitLoop w)).isSome = (step? s (.exitLoop w)).isSome ∧
    (step? s' (.teardown w)).isSome = (step? s (.teardown w)).isSome ∧
    (step? s' (.reap w)).isSome = (step? s (.reap w)).isSome ∧
    (step? s' .joinReturn).isSome = (step? s .joinReturn).isSome := by
  obtain ⟨h1, h2, h3, h4, _, _, h7, h8⟩ := wakes_change_nothing_else ts h
  refine ⟨?_, ?_, ?_, ?_⟩
  · simp only [step?, exitLoop?, h1, h2, h3, h4]; split <;> simp
  · simp only [step?, teardown?, h1, h2]; split <;> simp
  · simp only [step?, reap?, h1, h2]; cases s.main w <;> simp <;> split <;> simp
  · have hall : allGone s' = allGone s := by simp [allGone, h1, h2]
    simp only [step?, joinReturn?, h4, h7, h8, hall]
    cases (!s.sender && s.joiner.isSome && s.joined.isNone && allGone s) <;> simp

/-- A worker that has left its loop can always drop its runtime -- whatever is still in its executor: parked
tasks, tasks that were woken (any number of times) and tasks that are runnable and would go on yielding for
ever.  `block_on` does not wait for them. -/
theorem teardown_always_possible (s : St) (w : Nat) (hw : w < s.nw) (hd : s.main w = .draining) :
    (step? s (.teardown w)).isSome = true := by
  simp [step?, teardown?, hw, hd]

/-- ... and the teardown resolves the receiver of every task that was still in that executor: the task
object is dropped with its `callback`, the receiver reports `Canceled` (unless the caller had dropped it). -/
theorem teardown_cancels_unfinished {nw : Nat} {conc : Bool} {s s' : St} (h : Reachable nw conc s) (w : Nat)
    (hs : step? s (.teardown w) = some s') (t : Nat) (ha : s.active t w) :
    s'.chan t = .cancelled ∨ s'.chan t = .closed := by
  obtain ⟨_, _, rfl⟩ := teardown?_some hs
  have h5 := (h.inv.t.ok t).chan
  simp only [St.view] at h5
  have ha' : (s.stat t).activeOn w = true := ha
  rw [clearExec_chan]
  simp only [ha', if_true]
  cases hst : s.stat t <;> simp [hst, TStat.activeOn] at ha' <;> simp [hst, chanOk] at h5 <;>
    (rcases h5 with h5 | h5 <;> simp [h5, Chan.cancel])

/-! ### the tie to the driver -/

/-- Whatever the canonical scheduler of `c18d` prints (unless it printed `model-stuck`) is read off a
reachable state. -/
theorem driver_schedule_reachable {nw : Nat} {conc : Bool} {d : Sched} (h : d.Valid nw conc)
    (hb : d.bad = false) : Reachable nw conc d.s := h.reachable hb

/-- `accept` of the trace acceptor certifies a schedule of the model for the recorded history. -/
theorem accept_certifies_schedule {nw : Nat} {conc : Bool} {h : List Obs} (ha : accepts nw conc h = true) :
    ∃ s, Reachable nw conc s ∧ run? (init nw conc) (witness nw conc h) = some s := by
  obtain ⟨s, hs⟩ := accepts_sound ha
  exact ⟨s, ⟨_, hs⟩, hs⟩

/-! ### non-vacuity: concrete schedules -/

/-- two workers, concurrent mode: task 1 (one suspension, returns 7) and task 2 (panics) on different
workers; join after both ended -/
def exA : List Event :=
  [.dispatch 0 1 ⟨1, .ok 7⟩, .dispatch 1 2 ⟨0, .panic⟩, .recv 0 1, .recv 1 2, .poll 0 1, .poll 1 2, .poll 1 2,
   .poll 0 1, .poll 0 1, .joinStart, .joinPool, .exitLoop 0, .exitLoop 1, .teardown 0, .teardown 1, .joinReturn]

example : (run? (init 2 true) exA).map (fun s => (s.joined, s.chan 1, s.chan 2)) =
    some (some none, .value 7, .cancelled) := by decide
example : (run? (init 2 true) exA).map (fun s => (s.started 1, s.startedOn 1, s.started 2, s.ended 2)) =
    some (1, [0], 1, 1) := by decide

/-- one worker, sequential mode: the worker thread panics (payload 9) while it awaits task 1; task 2 stays in
the queue until `join` frees the channel; a later dispatch (task 3) is refused; `join` resumes the panic -/
def exB : List Event :=
  [.dispatch 0 1 ⟨0, .never⟩, .dispatch 0 2 ⟨0, .ok 5⟩, .recv 0 1, .poll 0 1, .die 0 9, .reap 0,
   .dispatch 0 3 ⟨0, .ok 1⟩, .joinStart, .joinFallbackThread, .joinReturn]

example : (run? (init 1 false) exB).map (fun s => (s.joined, s.chan 1, s.chan 2)) =
    some (some (some 9), .cancelled, .cancelled) := by decide
example : (run? (init 1 false) exB).map (fun s => (s.started 2, s.accepted, s.rejected)) =
    some (0, [1, 2], [3]) := by decide

/-- the hypotheses of `sequential_all_finished_at_join` are satisfiable: sequential mode, two tasks on one
worker, `join` returns `Ok` -/
def exC : List Event :=
  [.dispatch 0 1 ⟨0, .ok 3⟩, .dispatch 1 2 ⟨1, .ok 4⟩, .joinStart, .recv 0 1, .poll 0 1, .poll 0 1, .recv 0 2,
   .poll 0 2, .poll 0 2, .poll 0 2, .joinFallbackThread, .exitLoop 0, .teardown 0, .joinReturn]

example : (run? (init 1 false) exC).map (fun s => (s.joined, s.chan 1, s.chan 2, s.startedOn 2)) =
    some (some none, .value 3, .value 4, [0]) := by decide

/-- sequential mode: a second `recv` while the worker awaits a task is not a schedule -/
example : run? (init 1 false) [.dispatch 0 1 ⟨0, .ok 3⟩, .dispatch 0 2 ⟨0, .ok 4⟩, .recv 0 1, .recv 0 2] = none := by
  decide

/-- the same item cannot be received twice (MPMC exactly-once) -/
example : run? (init 2 true) [.dispatch 0 1 ⟨0, .ok 3⟩, .recv 0 1, .recv 1 1] = none := by decide

/-- `join` cannot return while a worker is still running -/
example : run? (init 1 true) [.joinStart, .joinPool, .joinReturn] = none := by decide
example : run? (init 1 true) [.joinStart, .joinFallbackThread, .joinReturn] = none := by decide

/-- `join` cannot return before the joiner closure was handed to the pool or to the fallback thread -/
example : run? (init 1 true) [.joinStart, .exitLoop 0, .teardown 0, .joinReturn] = none := by decide

/-- the trace acceptor on small histories: a clean run is accepted, a task started twice is not -/
example : accepts 2 true [.intent 1 ⟨1, .ok 7⟩ false, .acc 1, .start 0 1, .fin 1, .got 1 7, .joinCall false,
    .joinRet none, .alive 0] = true := by decide
example : accepts 2 true [.intent 1 ⟨1, .ok 7⟩ false, .acc 1, .start 0 1, .start 1 1] = false := by decide
example : accepts 2 false [.intent 1 ⟨0, .ok 7⟩ false, .intent 2 ⟨0, .ok 8⟩ false, .acc 1, .acc 2, .start 0 1,
    .start 0 2] = false := by decide

/-! ### session 3: the control structure regenerated from the Rust source (`Gen/DispatcherLoop.lean`)

The extractor target `DispatcherLoop` re-reads `Dispatcher::new_impl` (worker loop), `dispatch`, `join`,
`Concrete::spawn` / `run`, `Runtime::block_on_at` (exit and unwind paths) and `Runtime::drop` on every check; the
theorems below say that the step functions of the hand model -- the ones all theorems above are about and the
driver executes -- do exactly what the generated tables say, for every state.  A source change that alters one of
the constructs changes the generated literal and breaks the corresponding obligation here (or is not recognised
by the extractor, which fails closed). -/

open Compio.Gen.DispatcherLoop in
/-- Worker loop: after `recv_async()` has yielded task `t`, the task object is in w's executor and the loop future
does what the source's `if concurrent { .. } else { .. }` says -- `task.detach()`: stays in `recv_async()`;
`task.await.ok()`: suspended on exactly this task. -/
theorem gen_worker_loop_after_spawn {s s' : St} {w t : Nat} (h : step? s (.recv w t) = some s') :
    s'.main = loopAfter s.main w t (afterSpawn s.conc) ∧ s'.stat t = .spawned w := by
  obtain ⟨_, _, _, rfl⟩ := recv?_some h
  cases hc : s.conc <;> simp [afterSpawn, loopAfter, upd]

open Compio.Gen.DispatcherLoop in
/-- sequential mode really is the `await` arm, concurrent mode really is the `detach` arm (non-vacuity of the tie:
the two modes of the model are the two arms of the source) -/
theorem gen_modes_are_the_two_arms : afterSpawn false = .awaitTask ∧ afterSpawn true = .detach ∧
    defaultConcurrent = true := by decide

open Compio.Gen.DispatcherLoop in
/-- `dispatch`: the two arms of `match self.sender.send(..)` -- `Ok(rx)`: accepted, receiver pending, nothing
handed back; `Err(DispatchError(func))`: closure handed back, nothing accepted, no task object exists.  flume's
`send` succeeds iff a `Receiver` clone is alive. -/
theorem gen_dispatch_arms {s s' : St} {d t : Nat} {b : Body} (h : step? s (.dispatch d t b) = some s') :
    match dispatchArm (anyRx s) with
    | .okReceiver => s'.accepted = s.accepted ++ [t] ∧ s'.rejected = s.rejected ∧ s'.chan t = .pending ∧
        s'.stat t = .queued
    | .errClosureBack => s'.rejected = s.rejected ++ [t] ∧ s'.accepted = s.accepted ∧ s'.stat t = s.stat t ∧
        s'.chan t = s.chan t := by
  obtain ⟨_, _, _, hc | hc⟩ := dispatch?_some h
  · obtain ⟨hr, rfl⟩ := hc; simp [dispatchArm, hr, upd]
  · obtain ⟨hr, rfl⟩ := hc; simp [dispatchArm, hr]

open Compio.Gen.DispatcherLoop in
/-- The last poll of a dispatched task does to its receiver what the statements of the spawned future say:
`let res = func().await; callback.send(res).ok();` -- value sent once when the body returns, `callback` dropped
(cancellation) when it panics. -/
theorem gen_task_body_effect {s s' : St} {w t : Nat} (hst : s.stat t = .running w 0)
    (h : step? s (.poll w t) = some s') :
    bodyEffect taskBody (s.body t).out none (s.chan t) (s.sent t) = some (s'.chan t, s'.sent t) := by
  obtain ⟨_, _, hc | hc | hc | hc⟩ := poll?_some h
  · obtain ⟨h1, _⟩ := hc; rw [hst] at h1; cases h1
  · obtain ⟨k, h1, _⟩ := hc; rw [hst] at h1; cases h1
  · obtain ⟨v, _, ho, rfl⟩ := hc
    simp [taskBody, bodyEffect, ho, upd, Chan.cancel_send]
  · obtain ⟨_, ho, rfl⟩ := hc
    simp [taskBody, bodyEffect, ho, upd]

open Compio.Gen.DispatcherLoop in
/-- the same for `dispatch_blocking` closures (`Concrete::run` on a pool thread) -/
theorem gen_blocking_body_effect {s s' : St} {t : Nat} (h : step? s (.runBlocking t) = some s') :
    bodyEffect blockingBody (s.body t).out none (s.chan t) (s.sent t) = some (s'.chan t, s'.sent t) := by
  obtain ⟨_, hc | hc⟩ := runBlocking?_some h
  · obtain ⟨v, ho, rfl⟩ := hc
    simp [blockingBody, bodyEffect, ho, upd, Chan.cancel_send]
  · obtain ⟨ho, rfl⟩ := hc
    simp [blockingBody, bodyEffect, ho, upd]

open Compio.Gen.DispatcherLoop in
/-- The statements of `Dispatcher::join`, read as model events in source order, are `joinStart`, the hand-over of
the joiner (pool, or -- refused -- the fallback thread: never an early return), `joinReturn`. -/
theorem gen_join_program : joinProgram false = some [.joinStart, .joinPool, .joinReturn] ∧
    joinProgram true = some [.joinStart, .joinFallbackThread, .joinReturn] := by decide

/-- **All histories**: in every schedule the model accepts, from a fresh dispatcher, the join events occur in the
order of the statements of the source's `join` -- `drop(self.sender)` first, then the hand-over of the joiner
closure, `joinReturn` last, each at most once: the join events of the schedule are a prefix of the generated
program (for the pool's answer that schedule saw). -/
theorem join_events_follow_source_order {nw : Nat} {conc : Bool} {evs : List Event} {s : St}
    (h : run? (init nw conc) evs = some s) :
    ∃ refused prog, joinProgram refused = some prog ∧ evs.filter Event.isJoin <+: prog := by
  obtain ⟨_, hp⟩ := joinPhase_run (JGood.init nw conc) h
  have h0 : joinPhase (init nw conc) = [] := by simp [joinPhase, Compio.Dispatcher.init]
  rw [h0, List.nil_append] at hp
  rw [← hp]
  unfold joinPhase
  split
  · exact ⟨false, _, gen_join_program.1, List.nil_prefix⟩
  · split
    · exact ⟨false, _, gen_join_program.1, by simp [List.prefix_iff_eq_append]⟩
    · rename_i b _
      cases b
      · refine ⟨true, _, gen_join_program.2, ?_⟩
        cases s.joined.isSome <;> simp [handEvent, List.prefix_iff_eq_append]
      · refine ⟨false, _, gen_join_program.1, ?_⟩
        cases s.joined.isSome <;> simp [handEvent, List.prefix_iff_eq_append]

open Compio.Gen.DispatcherLoop in
/-- A pool that refuses the joiner closure cannot stop `join`: whatever the pool answers, the event the source
prescribes for that answer is enabled once the sender is dropped. -/
theorem gen_join_refused_never_blocks (s : St) (hsend : s.sender = false) (hn : s.joiner = none) (refused : Bool) :
    ∃ evs : List Event, joinStmtEvents refused .handJoiner = some evs ∧ evs.length = 1 ∧
      ∀ e ∈ evs, (step? s e).isSome = true := by
  cases refused
  · exact ⟨[.joinPool], by decide, rfl, by simp [step?, joinHand?, hsend, hn]⟩
  · exact ⟨[.joinFallbackThread], by decide, rfl, by simp [step?, joinHand?, hsend, hn]⟩

open Compio.Gen.DispatcherLoop in
/-- `join`'s result is what the source's `for res in results { res.unwrap_or_else(|e| resume_unwind(e)) } Ok(())`
gives for the results the joiner collected (`thread.join()` of every worker, in thread order), and the joiner
sends them only after it has joined every thread. -/
theorem gen_join_result {s s' : St} (h : step? s .joinReturn = some s') :
    s'.joined = joinResult joinBody (firstDead s) ∧ joinerWaits joinerBody = true ∧ allGone s = true := by
  obtain ⟨_, _, hg, rfl⟩ := joinReturn?_some h
  refine ⟨?_, by decide, hg⟩
  cases firstDead s <;> simp [joinBody, joinResult]

open Compio.Gen.DispatcherLoop in
/-- `block_on_at` leaves after one tick once the worker loop has ended (no draining loop): a worker in `draining`
can always drop its runtime, whatever is still runnable in its executor; and both ways out of `block_on_at`
(return + `Runtime::drop`, unwinding) clear the executor, which is what `teardown` / `reap` do. -/
theorem gen_block_on_exit_bounded_and_clears :
    exitBounded blockOnReady = true ∧ blockOnUnwind.contains .clearExecutor = true ∧
    runtimeDrop.contains .clearExecutor = true ∧
    (∀ (s : St) (w : Nat), w < s.nw → s.main w = .draining →
      step? s (.teardown w) = some (clearExec { s with main := upd s.main w .exited } w)) ∧
    (∀ (s : St) (w p : Nat), w < s.nw → s.main w = .dying p →
      step? s (.reap w) = some (gc (clearExec { s with main := upd s.main w (.dead p) } w))) := by
  refine ⟨by decide, by decide, by decide, ?_, ?_⟩
  · intro s w hw hd; simp [step?, teardown?, hw, hd]
  · intro s w p hw hd; simp [step?, reap?, hw, hd]

/-- non-vacuity: a schedule with all four join events (fallback path) and its filtered join events -/
example : (run? (init 1 true) [.joinStart, .exitLoop 0, .joinFallbackThread, .teardown 0, .joinReturn]).isSome = true ∧
    [Event.joinStart, .exitLoop 0, .joinFallbackThread, .teardown 0, .joinReturn].filter Event.isJoin =
      [.joinStart, .joinFallbackThread, .joinReturn] := by decide
/-- the order is enforced: handing the joiner over before `drop(self.sender)` is not a schedule -/
example : run? (init 1 true) [.joinPool] = none := by decide
example : bodyEffect Compio.Gen.DispatcherLoop.taskBody (.ok 7) none .pending 0 = some (.value 7, 1) := by decide
example : bodyEffect Compio.Gen.DispatcherLoop.taskBody .panic none .pending 0 = some (.cancelled, 0) := by decide
example : joinResult Compio.Gen.DispatcherLoop.joinBody (some 3) = some (some 3) ∧
    joinResult Compio.Gen.DispatcherLoop.joinBody none = some none := by decide

end Compio.Dispatcher
