import Compio.Model.ChildIo

namespace Compio.ChildIo

theorem init_not_completed (sc : List CAct) (p : Bytes) (b : Bool) : (init sc p b).completed = false := by
  simp [init, St.completed, WaitPc.isDone]

end Compio.ChildIo
