/-
C20 — child processes: complete stdio and the real exit status.

All theorems are about `Compio.ChildIo.step` / `run` / `runCanon` / `denS`, the functions the driver
`c20d` executes. A *schedule* is any `List Ev` accepted by `run`; a schedule is *maximal* (what a fair
scheduler produces) when it ends in a state where no step is possible (`Stuck`). `mu` bounds the length
of every schedule, so there are no infinite ones: "every fair schedule terminates with X" is
"every maximal schedule ends in a state with X".

`s0 = init script payload stdinNull`, `w0 = s0.wleft` (the payload the writer holds, `[]` for `Stdio::null()`).
-/
import Compio.Lemmas.ChildIo
import Compio.Model.SharedFd
import Compio.Model.ChildCmd

namespace Compio.ChildIo

/-! ## termination -/

/-- Every schedule is finite: its length is bounded by the measure of the initial state
(4 per payload byte, 2 per byte the child emits, one per statement and control step). -/
theorem schedule_bounded {c : Cfg} {script : List CAct} {payload : Bytes} {b : Bool} {es : List Ev} {s : St}
    (h : run c (init script payload b) es = some s) : es.length ≤ mu (init script payload b) := by
  have := run_mu h; omega

/-- Every schedule can be extended to a maximal one (the canonical scheduler does it). -/
theorem schedule_extends {c : Cfg} {script : List CAct} {payload : Bytes} {b : Bool} {es : List Ev} {s : St}
    (h : run c (init script payload b) es = some s) :
    ∃ es' s', run c (init script payload b) (es ++ es') = some s' ∧ Stuck c s' := by
  have hi := inv_run (inv_init c script payload b) h
  obtain ⟨es', h'⟩ := runCanon_run c (mu s) s
  exact ⟨es', _, by rw [run_append h]; exact h', runCanon_stuck hi (Nat.le_refl _)⟩

/-! ## both directions at once -/

/-- MAIN. Reader(s) and writer run concurrently (no activity of W, Ro, Re waits for another one; `wait`
may come at any point, e.g. plans `conc`, `drainWait`), operations do not occupy the runtime thread
(io_uring), any pipe capacities ≥ 1, any chunk sizes ≥ 1, any payload, any child program:
every maximal schedule ends with all four activities done, the parent has read exactly what the child
wrote on stdout and on stderr (in order), and these bytes, the bytes the child consumed and the exit
status are the schedule-independent denotation of the child program on the payload. -/
theorem concurrent_complete {c : Cfg} {script : List CAct} {payload : Bytes} {b : Bool} {es : List Ev} {s : St}
    (hp : c.Pos) (hw : wfScript script = true) (hnb : c.blocking = false)
    (hW : ∀ x, c.plan.deps .W x = false) (hRo : ∀ x, c.plan.deps .Ro x = false)
    (hRe : ∀ x, c.plan.deps .Re x = false)
    (hr : run c (init script payload b) es = some s) (hs : Stuck c s) :
    s.completed = true ∧ s.rout = s.cout ∧ s.rerr = s.cerr ∧
    s.rout = (denS script (init script payload b).wleft).out ∧
    s.rerr = (denS script (init script payload b).wleft).err ∧
    s.got = (denS script (init script payload b).wleft).got ∧
    s.sunk = (denS script (init script payload b).wleft).sunk ∧
    s.wt = .done (denS script (init script payload b).wleft).st := by
  have hi := inv_run (inv_init c script payload b) hr
  have hwf := wf_run (s := init script payload b) (by simpa [init] using hw) hr
  have hc := stuck_completed_free hp hi hwf hnb hW hRo hRe hs
  obtain ⟨h1, h2, h3, h4, h5, -, h7, h8⟩ := completed_den hr hc
  exact ⟨hc, h7, h8, h1, h2, h3, h4, h5⟩

/-- What the child read is, in order, what the parent wrote: at every moment
`child-read ++ in-the-pipe = accepted-by-the-pipe` and `accepted ++ not-yet-written = payload`. -/
theorem child_reads_what_parent_wrote {c : Cfg} {script : List CAct} {payload : Bytes} {b : Bool} {es : List Ev}
    {s : St} (hr : run c (init script payload b) es = some s) :
    s.got ++ s.pin = s.wsent ∧ s.wsent ++ s.wleft = (init script payload b).wleft :=
  got_prefix (inv_run (inv_init c script payload b) hr)

/-- …and at every moment `parent-read ++ in-the-pipe = child-written`, for stdout and stderr. -/
theorem parent_reads_what_child_wrote {c : Cfg} {script : List CAct} {payload : Bytes} {b : Bool} {es : List Ev}
    {s : St} (hr : run c (init script payload b) es = some s) :
    s.rout ++ s.pout = s.cout ∧ s.rerr ++ s.perr = s.cerr :=
  ⟨(inv_run (inv_init c script payload b) hr).outs, (inv_run (inv_init c script payload b) hr).errs⟩

/-- A child that consumes its whole input (`cat`, `wc`, …) has received exactly the payload when the run is
finished, and the writer loop ended with `Ok`. -/
theorem child_read_all {c : Cfg} {script : List CAct} {payload : Bytes} {b : Bool} {es : List Ev} {s : St}
    (hr : run c (init script payload b) es = some s) (hc : s.completed = true)
    (hall : (denS script (init script payload b).wleft).got = (init script payload b).wleft) :
    s.got = (init script payload b).wleft ∧ s.wepipe = false := by
  have hi := inv_run (inv_init c script payload b) hr
  obtain ⟨-, -, h3, -⟩ := completed_den hr hc
  refine ⟨by rw [h3, hall], ?_⟩
  cases he : s.wepipe with
  | false => rfl
  | true =>
    have := epipe_short hi he
    rw [h3, hall] at this
    omega

/-- The writer loop ends with `BrokenPipe` only if the child stopped reading before the end of the payload;
it ends with `Ok` only if all but at most one pipe capacity of the payload was read by the child.
(Between the two bounds the result depends on the schedule: the driver prints `racy`.) -/
theorem writer_result {c : Cfg} {script : List CAct} {payload : Bytes} {b : Bool} {es : List Ev} {s : St}
    (hr : run c (init script payload b) es = some s) :
    (s.wepipe = true → s.got.length < (init script payload b).wleft.length) ∧
    (s.wleft = [] → (init script payload b).wleft.length ≤ s.got.length + c.capIn) :=
  ⟨epipe_short (inv_run (inv_init c script payload b) hr), ok_long (inv_run (inv_init c script payload b) hr)⟩

/-- All finished runs of one scenario agree on everything observable, whatever the schedule, the chunk
sizes and the pipe capacities were. -/
theorem schedule_independent {c c' : Cfg} {script : List CAct} {payload : Bytes} {b : Bool} {es es' : List Ev}
    {s s' : St} (hr : run c (init script payload b) es = some s) (hc : s.completed = true)
    (hr' : run c' (init script payload b) es' = some s') (hc' : s'.completed = true) :
    s.rout = s'.rout ∧ s.rerr = s'.rerr ∧ s.got = s'.got ∧ s.sunk = s'.sunk ∧ s.wt = s'.wt := by
  obtain ⟨h1, h2, h3, h4, h5, -⟩ := completed_den hr hc
  obtain ⟨k1, k2, k3, k4, k5, -⟩ := completed_den hr' hc'
  exact ⟨by rw [h1, k1], by rw [h2, k2], by rw [h3, k3], by rw [h4, k4], by rw [h5, k5]⟩

/-! ## orders in which one direction waits for the other -/

/-- If everything the child will ever write fits into the pipes, it never blocks in a write: then the
readers may wait for whatever they like (`wait` first and drain afterwards — plan `waitDrain` —, or
write everything first — plan `seq`), and a `write` may occupy the runtime thread (polling driver).
Only the writer must be free to run. In particular: reading after the child has exited still returns
all buffered bytes. -/
theorem fits_complete {c : Cfg} {script : List CAct} {payload : Bytes} {b : Bool} {es : List Ev} {s : St}
    (hp : c.Pos) (hw : wfScript script = true) (hW : ∀ x, c.plan.deps .W x = false)
    (ho : (denS script (init script payload b).wleft).out.length ≤ c.capOut)
    (he : (denS script (init script payload b).wleft).err.length ≤ c.capErr)
    (hr : run c (init script payload b) es = some s) (hs : Stuck c s) :
    s.completed = true ∧
    s.rout = (denS script (init script payload b).wleft).out ∧
    s.rerr = (denS script (init script payload b).wleft).err ∧
    s.wt = .done (denS script (init script payload b).wleft).st := by
  have hi := inv_run (inv_init c script payload b) hr
  have hwf := wf_run (s := init script payload b) (by simpa [init] using hw) hr
  have hd := den_run (inv_init c script payload b) hr
  rw [den_init] at hd
  have hc := stuck_completed_fits hp hi hwf hW (by rw [hd]; exact ho) (by rw [hd]; exact he) hs
  obtain ⟨h1, h2, -, -, h5, -⟩ := completed_den hr hc
  exact ⟨hc, h1, h2, h5⟩

/-- A reader sees end of file only when the child is gone and every byte it wrote has been read:
nothing that is buffered in the pipe at exit is lost. -/
theorem eof_after_all_bytes {c : Cfg} {script : List CAct} {payload : Bytes} {b : Bool} {es : List Ev} {s : St}
    (hr : run c (init script payload b) es = some s) :
    (s.routDone = true → s.status.isSome = true ∧ s.rout = s.cout) ∧
    (s.rerrDone = true → s.status.isSome = true ∧ s.rerr = s.cerr) := by
  have hi := inv_run (inv_init c script payload b) hr
  constructor
  · intro h
    obtain ⟨h1, h2⟩ := hi.routDone h
    have := hi.outs
    rw [h2, List.append_nil] at this
    exact ⟨h1, this⟩
  · intro h
    obtain ⟨h1, h2⟩ := hi.rerrDone h
    have := hi.errs
    rw [h2, List.append_nil] at this
    exact ⟨h1, this⟩

/-- A payload that fits into the stdin pipe never makes a `write` wait: with free readers every maximal
schedule finishes on either driver. -/
theorem small_payload_complete {c : Cfg} {script : List CAct} {payload : Bytes} {b : Bool} {es : List Ev} {s : St}
    (hp : c.Pos) (hw : wfScript script = true) (hpl : (init script payload b).wleft.length ≤ c.capIn)
    (hW : ∀ x, c.plan.deps .W x = false) (hRo : ∀ x, c.plan.deps .Ro x = false)
    (hRe : ∀ x, c.plan.deps .Re x = false)
    (hr : run c (init script payload b) es = some s) (hs : Stuck c s) : s.completed = true := by
  have hi := inv_run (inv_init c script payload b) hr
  have hwf := wf_run (s := init script payload b) (by simpa [init] using hw) hr
  exact stuck_completed_small hp hi hwf hpl hW hRo hRe hs

/-- The loop configuration: an echoing child (`copy none blk out`, then statements without io), the parent
writes everything — or, on the polling driver, sits in a `write` — before it reads.
(i) If the payload fits into the two pipes (`≤ capIn + capOut`) every maximal schedule finishes. -/
theorem echo_fits_complete {c : Cfg} {blk : Nat} {tail : List CAct} {payload : Bytes} {es : List Ev} {s : St}
    (hp : c.Pos) (hblk : 0 < blk) (hq : quiet tail = true) (hwt : wfScript tail = true)
    (hpl : payload.length ≤ c.capIn + c.capOut)
    (hW : ∀ x, c.plan.deps .W x = false) (hRo : ∀ x, c.plan.deps .Ro x = true → x = .W)
    (hr : run c (init (.copy none blk .out :: tail) payload false) es = some s) (hs : Stuck c s) :
    s.completed = true ∧ s.rout = payload ++ (denS tail []).out := by
  have hi := inv_run (inv_init c _ payload false) hr
  have hc := catInv_run (catInv_init blk tail hq payload false) hr
  have hwf := wf_run (s := init (.copy none blk .out :: tail) payload false)
    (by simp [init, wfScript, hblk, hwt]) hr
  have hdone := stuck_completed_cat hp hi hc hwf (by simpa [init] using hpl) hW hRo hs
  obtain ⟨h1, -⟩ := completed_den hr hdone
  refine ⟨hdone, ?_⟩
  rw [h1]
  simp [init, denS, limTake, limDrop, Den.read, Den.emit]

/-- (ii) If the payload exceeds both pipes and the child's buffer (`> capIn + blk + capOut`) and the
reader waits for the writer (plan `seq`), NO schedule finishes: every maximal schedule is a deadlock
(parent blocked writing, child blocked writing). This is the order of operations, not a compio defect:
both directions must be active at once. (Between the two bounds it depends on how much the child happens
to hold in its buffer — see the two example schedules below.) -/
theorem seq_deadlock {c : Cfg} {blk : Nat} {tail : List CAct} {payload : Bytes} {es : List Ev} {s : St}
    (hq : quiet tail = true) (hbig : c.capIn + blk + c.capOut < payload.length)
    (hseq : c.plan.deps .Ro .W = true)
    (hr : run c (init (.copy none blk .out :: tail) payload false) es = some s) :
    s.completed = false ∧ s.wclosed = false ∧ s.rout = [] ∧ s.status = none := by
  have hk : WriterStuck blk (init (.copy none blk .out :: tail) payload false) :=
    ⟨rfl, rfl, rfl, tail, rfl⟩
  have := seq_never_run (inv_init c _ payload false) (catInv_init blk tail hq payload false) hk
    (by simpa [init] using hbig) hseq hr
  exact ⟨writerStuck_not_completed this, this.open_, this.noRead, this.alive⟩

/-! ## wait -/

/-- `Child::wait(self)` / `wait_with_output(self)` with `stdin` still inside the `Child` (plan `held`, the
code since the repair of F201: stdin is dropped before the wait starts): for every child program — in
particular one that reads stdin to end of file —, every capacity and chunk size and BOTH drivers, every
maximal schedule finishes, the wait returns the status the program denotes on the empty input and the
readers have everything the child wrote. (Before the repair: `Cex.F201_counterexample`.) -/
theorem wait_closes_stdin_first {c : Cfg} {script : List CAct} {es : List Ev} {s : St}
    (hp : c.Pos) (hw : wfScript script = true) (hplan : c.plan = .held)
    (hr : run c (init script [] false) es = some s) (hs : Stuck c s) :
    s.completed = true ∧ s.wt = .done (denS script []).st ∧
    s.rout = (denS script []).out ∧ s.rerr = (denS script []).err := by
  have hi := inv_run (inv_init c script [] false) hr
  have hwf := wf_run (s := init script [] false) (by simpa [init] using hw) hr
  have hc := stuck_completed_small hp hi hwf (by simp [init])
    (by intro x; rw [hplan]; cases x <;> rfl) (by intro x; rw [hplan]; cases x <;> rfl)
    (by intro x; rw [hplan]; cases x <;> rfl) hs
  obtain ⟨h1, h2, -, -, h5, -⟩ := completed_den hr hc
  exact ⟨hc, by simpa [init] using h5, by simpa [init] using h1, by simpa [init] using h2⟩

/-- The parent's read end of stdout / stderr is never released while the child lives — in every reachable
state of every plan a reader is done (= the handle is closed or dropped) only after the child has exited.
So the child never observes EPIPE / SIGPIPE on a pipe that the parent configured as piped. -/
theorem reader_end_outlives_child {c : Cfg} {script : List CAct} {payload : Bytes} {b : Bool} {es : List Ev} {s : St}
    (hr : run c (init script payload b) es = some s) (ha : s.status = none) :
    s.routDone = false ∧ s.rerrDone = false := by
  have hi := inv_run (inv_init c script payload b) hr
  constructor
  · cases h : s.routDone with
    | false => rfl
    | true => have := (hi.routDone h).1; simp [ha] at this
  · cases h : s.rerrDone with
    | false => rfl
    | true => have := (hi.rerrDone h).1; simp [ha] at this

/-- A handle left inside the `Child` (`child.wait()` / `Command::status()` with stdout and/or stderr piped but
not taken: plans `outHeld`, `errHeld`, `allHeld`, and `waitDrain`) lives exactly as long as the wait: it is
released only when the wait has completed (with the child's status), never before. -/
theorem held_handle_released_after_wait {c : Cfg} {script : List CAct} {payload : Bytes} {b : Bool} {es : List Ev}
    {s : St} (hr : run c (init script payload b) es = some s) :
    (c.plan.deps .Ro .Wt = true → s.routDone = true → ∃ st, s.wt = .done st ∧ s.status = some st) ∧
    (c.plan.deps .Re .Wt = true → s.rerrDone = true → ∃ st, s.wt = .done st ∧ s.status = some st) := by
  have hi := inv_run (inv_init c script payload b) hr
  obtain ⟨h1, h2⟩ := heldAfterWait_run (heldAfterWait_init c script payload b) hr
  have key : s.wt.isDone = true → ∃ st, s.wt = .done st ∧ s.status = some st := by
    intro hd
    cases hw : s.wt with
    | done st => exact ⟨st, rfl, hi.wtDone st hw⟩
    | idle => simp [hw, WaitPc.isDone] at hd
    | started => simp [hw, WaitPc.isDone] at hd
    | ready => simp [hw, WaitPc.isDone] at hd
    | taken => simp [hw, WaitPc.isDone] at hd
  exact ⟨fun a b => key (h1 a b), fun a b => key (h2 a b)⟩

/-- `wait` / `status` with handles left inside the `Child` returns the real status: io_uring, any plan in
which the writer is free, and for each output stream either its reader runs concurrently or what the child
writes to it fits into the pipe (the documented limit of an unread pipe, the same as in std): every
maximal schedule finishes with the status the program denotes, and the streams that are read are complete. -/
theorem held_streams_complete {c : Cfg} {script : List CAct} {payload : Bytes} {b : Bool} {es : List Ev} {s : St}
    (hp : c.Pos) (hw : wfScript script = true) (hnb : c.blocking = false) (hW : ∀ x, c.plan.deps .W x = false)
    (ho : (∀ x, c.plan.deps .Ro x = false) ∨ (denS script (init script payload b).wleft).out.length ≤ c.capOut)
    (he : (∀ x, c.plan.deps .Re x = false) ∨ (denS script (init script payload b).wleft).err.length ≤ c.capErr)
    (hr : run c (init script payload b) es = some s) (hs : Stuck c s) :
    s.completed = true ∧ s.wt = .done (denS script (init script payload b).wleft).st ∧
    s.rout = (denS script (init script payload b).wleft).out ∧
    s.rerr = (denS script (init script payload b).wleft).err := by
  have hi := inv_run (inv_init c script payload b) hr
  have hwf := wf_run (s := init script payload b) (by simpa [init] using hw) hr
  have hd := den_run (inv_init c script payload b) hr
  rw [den_init] at hd
  have hc := stuck_completed_mixed hp hi hwf hnb hW (by rw [hd]; exact ho) (by rw [hd]; exact he) hs
  obtain ⟨h1, h2, -, -, h5, -⟩ := completed_den hr hc
  exact ⟨hc, h5, h1, h2⟩

/-- `wait` never makes up a status: what it hands out is the child's status or nothing (the error of
`waitpid` when something else in the process has reaped the child). -/
theorem wait_never_fabricates (reaped : Bool) (st st' : Status) (h : waitOutcome reaped st = some st') : st' = st := by
  cases reaped <;> simp [waitOutcome] at h
  exact h.symm

/-- `wait` returns the child's real status: whenever the wait is done with `st`, the child has exited
with `st` — and in a finished run that is the status the program denotes. -/
theorem wait_real_status {c : Cfg} {script : List CAct} {payload : Bytes} {b : Bool} {es : List Ev} {s : St}
    {st : Status} (hr : run c (init script payload b) es = some s) (hw : s.wt = .done st) :
    s.status = some st :=
  (inv_run (inv_init c script payload b) hr).wtDone st hw

/-- `wait` never returns before the child has exited: the completing step is only possible in a state in
which the child has an exit status, and it returns that status. -/
theorem wait_not_before_exit {c : Cfg} {s s' : St} (h : step c s .wtDone = some s') :
    ∃ st, s.status = some st ∧ s'.wt = .done st := by
  obtain ⟨-, -, -, st, h1, rfl⟩ := stepWtDone_some h
  exact ⟨st, h1, rfl⟩

/-- …so along any schedule no wait (on either route) is past its readiness point while the child runs. -/
theorem waiting_while_alive {c : Cfg} {script : List CAct} {payload : Bytes} {b : Bool} {es : List Ev} {s : St}
    (hr : run c (init script payload b) es = some s) (ha : s.status = none) :
    s.wt = .idle ∨ s.wt = .started := by
  have hi := inv_run (inv_init c script payload b) hr
  cases hw : s.wt with
  | idle => exact Or.inl rfl
  | started => exact Or.inr rfl
  | ready => have := hi.wtExited (Or.inl hw); simp [ha] at this
  | taken => have := hi.wtExited (Or.inr hw); simp [ha] at this
  | done st => have := hi.wtDone st hw; simp [ha] at this

/-- `wait` yields the status exactly once: a schedule contains at most one completed wait, and exactly
one iff the wait is done at its end (the `Child` is moved into the wait: there is no second call). -/
theorem wait_at_most_once {c : Cfg} {script : List CAct} {payload : Bytes} {b : Bool} {es : List Ev} {s : St}
    (hr : run c (init script payload b) es = some s) :
    waits es ≤ 1 ∧ (waits es = 1 ↔ s.wt.isDone = true) := by
  have h := waits_run hr
  have h0 : (init script payload b).wt.isDone = false := rfl
  rw [h0] at h
  cases hd : s.wt.isDone <;> rw [hd] at h <;> simp [b2n] at h ⊢ <;> omega

/-- Route B (pidfd): when the `PollOnce` completion has been popped the operation's clone of the
`SharedFd` is gone, the count is 1, and `take()` succeeds at its first poll. -/
theorem pidfd_take_succeeds {c : Cfg} {script : List CAct} {payload : Bytes} {b : Bool} {es : List Ev} {s : St}
    (hr : run c (init script payload b) es = some s) (hw : s.wt = .ready)
    (hd : depsOk c s .Wt = true) (hb : s.wblock = 0) :
    s.fdRefs = 1 ∧ c.pidfd = true ∧ (step c s .wtTake).isSome = true := by
  have hi := inv_run (inv_init c script payload b) hr
  have h1 : s.fdRefs = 1 := by have := hi.refs; rw [hw] at this; exact this
  have h2 := hi.wtPidfd (Or.inl hw)
  exact ⟨h1, h2, by simp [step, stepWtTake, hd, hb, h2, hw, h1]⟩

/-- The same four steps on C06's model of `SharedFd` (`compio-driver/src/fd.rs`): create, clone into the
operation, drop the operation, `take()`, one poll: the closer gets the descriptor (`doneSome`), nothing
is left registered. -/
theorem sharedFd_take_completes :
    (Compio.SharedFd.run (Compio.SharedFd.init false) [.opStart 0, .drop 1, .take 0, .poll 0]).map
      (fun s => (s.actors, s.count, s.delivered, s.slot)) =
    some ([.closer .doneSome, .gone], 0, 1, none) := by
  decide

/-- …whereas a `take()` polled while the operation still holds its clone parks (this is the state the
model's `wtTake` excludes by `fdRefs = 1`). -/
theorem sharedFd_take_parks_while_op_alive :
    (Compio.SharedFd.run (Compio.SharedFd.init false) [.opStart 0, .take 0, .poll 0]).map
      (fun s => (s.actors, s.count, s.delivered)) =
    some ([.closer .parked, .op .live], 2, 0) := by
  decide

/-! ## the canonical scheduler used by the driver -/

/-- The driver's run is a schedule, it is maximal, and more fuel does not change it. -/
theorem canon_is_maximal_schedule (c : Cfg) (script : List CAct) (payload : Bytes) (b : Bool) :
    (∃ es, run c (init script payload b) es =
      some (runCanon c (mu (init script payload b)) (init script payload b))) ∧
    Stuck c (runCanon c (mu (init script payload b)) (init script payload b)) ∧
    ∀ k, runCanon c (mu (init script payload b) + k) (init script payload b) =
      runCanon c (mu (init script payload b)) (init script payload b) :=
  ⟨runCanon_run _ _ _, runCanon_stuck (inv_init c script payload b) (Nat.le_refl _),
   fun k => runCanon_fuel (inv_init c script payload b) (Nat.le_refl _) k⟩

/-- Hence, when the driver's run finishes, what it prints is what EVERY finished schedule produces. -/
theorem canon_predicts_all {c c' : Cfg} {script : List CAct} {payload : Bytes} {b : Bool} {es : List Ev} {s : St}
    (hcan : (runCanon c' (mu (init script payload b)) (init script payload b)).completed = true)
    (hr : run c (init script payload b) es = some s) (hc : s.completed = true) :
    s.rout = (runCanon c' (mu (init script payload b)) (init script payload b)).rout ∧
    s.rerr = (runCanon c' (mu (init script payload b)) (init script payload b)).rerr ∧
    s.got = (runCanon c' (mu (init script payload b)) (init script payload b)).got ∧
    s.sunk = (runCanon c' (mu (init script payload b)) (init script payload b)).sunk ∧
    s.wt = (runCanon c' (mu (init script payload b)) (init script payload b)).wt := by
  obtain ⟨es', h'⟩ := runCanon_run c' (mu (init script payload b)) (init script payload b)
  exact schedule_independent hr hc h' hcan

/-! ## non-vacuity -/

/-- `exCfg` (Lemmas): 2-byte pipes, io_uring, plan `conc` satisfies the hypotheses of `concurrent_complete` -/

example : exCfg.Pos := ⟨by decide, by decide, by decide, by decide, by decide⟩
example : ∀ x, exCfg.plan.deps .W x = false := by intro x; cases x <;> rfl
example : ∀ x, exCfg.plan.deps .Ro x = false := by intro x; cases x <;> rfl

/-- `head -c 3; printf A >&2; exit 7` fed 7 bytes (more than all pipes together): the canonical schedule
finishes with 3 bytes echoed, `A` on stderr, status 7, and the writer got `BrokenPipe`. -/
example :
    let s := runCanon exCfg 100 (init [.copy (some 3) 2 .out, .emit .err [65], .exit 7] [1, 2, 3, 4, 5, 6, 7] false)
    s.completed = true ∧ s.rout = [1, 2, 3] ∧ s.rerr = [65] ∧ s.wt = .done (.exited 7) ∧ s.wepipe = true ∧
      s.got = [1, 2, 3] := by
  decide

/-- `cat` fed 7 bytes through 2-byte pipes, the child killed by SIGTERM afterwards -/
example :
    let s := runCanon exCfg 100 (init [.copy none 4 .out, .kill 15] [1, 2, 3, 4, 5, 6, 7] false)
    s.completed = true ∧ s.rout = [1, 2, 3, 4, 5, 6, 7] ∧ s.wt = .done (.signaled 15) ∧ s.wepipe = false := by
  decide

/-- the denotation of that program, computed without any schedule -/
example : denS [.copy none 4 .out, .kill 15] [1, 2, 3, 4, 5, 6, 7] =
    ⟨[1, 2, 3, 4, 5, 6, 7], [], [1, 2, 3, 4, 5, 6, 7], 0, .signaled 15⟩ := by
  decide

/-- the loop configuration between the two bounds (capIn = 2, capOut = 1, blk = 2, 5 bytes, plan `seq`):
this schedule (the child takes two bytes into its buffer) finishes … -/

example :
    (run seqCfg (init [.copy none 2 .out] [1, 2, 3, 4, 5] false)
      [.wr 1, .cRead 1, .cWrite 1, .wr 2, .cRead 2, .wr 2, .wclose]).map
      (fun s => (runCanon seqCfg 100 s).completed) = some true := by
  decide

/-- … and this one (the child takes one byte) deadlocks: no step is possible, nothing is finished. -/
example :
    (run seqCfg (init [.copy none 2 .out] [1, 2, 3, 4, 5] false)
      [.wr 1, .cRead 1, .cWrite 1, .wr 1, .cRead 1, .wr 2, .wtStart]).all
      (fun s => (next seqCfg s).isNone && !s.completed && s.wleft == [5] && s.pin == [3, 4] && s.pend == [2] &&
        s.pout == [1]) = true ∧
    (run seqCfg (init [.copy none 2 .out] [1, 2, 3, 4, 5] false)
      [.wr 1, .cRead 1, .cWrite 1, .wr 1, .cRead 1, .wr 2, .wtStart]).isSome = true := by
  decide

/-- `seq_deadlock` is not vacuous: 6 bytes > 2 + 2 + 1 -/
example : seqCfg.capIn + 2 + seqCfg.capOut < ([1, 2, 3, 4, 5, 6] : Bytes).length ∧ seqCfg.plan.deps .Ro .W = true := by
  decide

/-- `cat` with `child.wait().await` and stdin untouched (plan `held`) on the polling driver -/
example :
    let c : Cfg := { exCfg with plan := .held, blocking := true }
    let s := runCanon c 100 (init [.copy none 4 .out, .emit .out [9], .exit 5] [] false)
    s.completed = true ∧ s.rout = [9] ∧ s.wt = .done (.exited 5) := by
  decide

/-- `sh -c 'echo out; echo err >&2; exit 3'` with stdout and stderr piped but not taken (`allHeld`) and with
only stderr left in the `Child` (`errHeld`): the real exit code, and the plans satisfy `held_streams_complete` -/
example :
    let c : Cfg := { exCfg with plan := .allHeld }
    let s := runCanon c 100 (init [.emit .out [1], .emit .err [2], .exit 3] [] true)
    s.completed = true ∧ s.wt = .done (.exited 3) := by
  decide

example : (∀ x, Plan.errHeld.deps .W x = false) ∧ (∀ x, Plan.errHeld.deps .Ro x = false) ∧
    Plan.errHeld.deps .Re .Wt = true ∧ Plan.allHeld.deps .Ro .Wt = true := by
  refine ⟨?_, ?_, rfl, rfl⟩ <;> intro x <;> cases x <;> rfl

/-- more than the pipe holds written to an untaken stdout: the wait cannot complete (std blocks as well) -/
example :
    let c : Cfg := { exCfg with plan := .outHeld }
    let s := runCanon c 100 (init [.emit .out [1, 2, 3], .exit 0] [] true)
    (next c s).isNone = true ∧ s.completed = false ∧ s.pout = [1, 2] ∧ s.pend = [3] := by
  decide

/-- wait-then-drain with outputs that fit (`fits_complete`): both pipes still hold their bytes after exit -/
example :
    let c : Cfg := { exCfg with plan := .waitDrain }
    let s := runCanon c 100 (init [.emit .out [1, 2], .emit .err [3], .exit 1] [] true)
    s.completed = true ∧ s.rout = [1, 2] ∧ s.rerr = [3] ∧ s.wt = .done (.exited 1) := by
  decide

end Compio.ChildIo

/-! ## session 3: the reusable `Command` builder and the buffer-pool read path -/

namespace Compio.ChildCmd

open Compio.ChildIo
open Compio.Gen.CommandShape

/-- `spawn`, `status`, `output` do not touch the stdio configuration of the builder
(over the table GENERATED from compio-process/src/lib.rs: a `self.0.stdout(Stdio::null())` added to
`status` makes this false). -/
theorem run_preserves_config (k : RunKind) (v : Sd) (b : BCfg) : effect k.calls v b = b := by
  cases k <;> rfl

/-- `stdin/stdout/stderr(cfg)` set exactly their own stream to the caller's value -/
theorem set_sets_own_stream (s : Stream) (v : Sd) (b : BCfg) : effect (setCalls s) v b = setSpec b s v := by
  cases s <;> rfl

/-- no other method of `Command` touches the stdio configuration -/
theorem no_other_stdio_mutator : otherStdioMutators = [] := rfl

/-- **Reuse**: for EVERY sequence of configuration and run calls on one `Command`, every child is started with the
configuration the user had set at that moment (earlier `status()/output()/spawn()` calls leave no trace). -/
theorem reuse_gets_configured_stdio (b : BCfg) (l : List BOp) : runSeq b l = specSeq b l := by
  induction l generalizing b with
  | nil => rfl
  | cons op r ih =>
    cases op with
    | set s v => simp only [runSeq, specSeq, set_sets_own_stream, ih]
    | run k => simp only [runSeq, specSeq, run_preserves_config, ih]

/-- in particular: stdout/stderr configured as pipes stay pipes across any number of runs: what a later
`output()`/`spawn()` can collect is what that child wrote -/
theorem piped_survives_runs (b : BCfg) (ks : List RunKind) (k : RunKind) (out : Bytes)
    (h : b.sout = .piped) :
    ∀ p ∈ runSeq b ((ks ++ [k]).map .run), captured p.2.sout out = some out := by
  rw [reuse_gets_configured_stdio]
  generalize ks ++ [k] = l
  induction l with
  | nil => simp [specSeq]
  | cons a r ih =>
    intro p hp
    simp only [List.map, specSeq, List.mem_cons] at hp
    rcases hp with rfl | hp
    · simp [captured, h]
    · exact ih p hp

example : runSeq BCfg.fresh [.set .stdout .piped, .set .stderr .piped, .run .status, .run .output]
    = [(.status, ⟨.inherit, .piped, .piped⟩), (.output, ⟨.inherit, .piped, .piped⟩)] := by decide

/-! ### `read_managed` -/

/-- an exhausted pool is an error, whatever is in the pipe — never end of file -/
theorem pool_exhausted_is_error (src : Bytes) (k : Nat) : readManaged 0 src k = .busy := rfl

/-- end of file is reported only when every byte has been handed out -/
theorem managed_eof_only_at_end {free : Nat} {src : Bytes} {k : Nat} (h : readManaged free src k = .eof) :
    src = [] ∧ 0 < free := by
  unfold readManaged at h
  split at h
  · cases h
  · split at h
    · rename_i h0 h1; exact ⟨h1, by omega⟩
    · cases h

theorem flat_append (a b : List Bytes) : flat (a ++ b) = flat a ++ flat b := by
  induction a with
  | nil => rfl
  | cons x r ih => simp [flat, List.foldr] at ih ⊢; exact ih

theorem readManaged_buf {free : Nat} {src : Bytes} {k : Nat} {bs : Bytes} (h : readManaged free src k = .buf bs) :
    bs = src.take k := by
  unfold readManaged at h
  split at h
  · cases h
  · split at h
    · cases h
    · cases h; rfl

theorem mRead_conserves (pool : Nat) (s : MSt) (k : Nat) :
    (mRead pool s k).out ++ flat (mRead pool s k).held ++ (mRead pool s k).src = s.out ++ flat s.held ++ s.src := by
  unfold mRead
  by_cases hd : s.done = true
  · rw [if_pos hd]
  · rw [if_neg hd]
    cases hr : readManaged s.free s.src k with
    | buf bs =>
      have := readManaged_buf hr
      subst this
      have e : flat (s.held ++ [List.take k s.src]) = flat s.held ++ List.take k s.src := by
        rw [flat_append]; simp [flat]
      simp [e, List.append_assoc, List.take_append_drop]
    | eof => simp [flat]
    | busy => simp [flat]

/-- conserved: consumed ++ held ++ still to come = the child's output -/
theorem mStep_conserves (pool : Nat) (s : MSt) (e : MEv) :
    (mStep pool s e).out ++ flat (mStep pool s e).held ++ (mStep pool s e).src = s.out ++ flat s.held ++ s.src := by
  cases e with
  | read k => exact mRead_conserves pool s k
  | release j =>
    simp only [mStep, mRelease]
    have : flat s.held = flat (s.held.take j) ++ flat (s.held.drop j) := by
      rw [← flat_append, List.take_append_drop]
    rw [this]; simp [List.append_assoc]

theorem mStep_done_src (pool : Nat) (s : MSt) (e : MEv) (h : s.done = true → s.src = [] ∧ s.held = []) :
    (mStep pool s e).done = true → (mStep pool s e).src = [] ∧ (mStep pool s e).held = [] := by
  cases e with
  | read k =>
    simp only [mStep]
    unfold mRead
    by_cases hd : s.done = true
    · rw [if_pos hd]; exact h
    · rw [if_neg hd]
      cases hr : readManaged s.free s.src k with
      | buf bs => intro h'; exact absurd h' hd
      | eof => intro _; exact ⟨(managed_eof_only_at_end hr).1, rfl⟩
      | busy => intro h'; exact absurd h' hd
  | release j =>
    simp only [mStep, mRelease]
    intro hd
    obtain ⟨h1, h2⟩ := h hd
    simp [h1, h2]

theorem mRun_inv (pool : Nat) (es : List MEv) (s : MSt) (h : s.done = true → s.src = [] ∧ s.held = []) :
    (mRun pool s es).out ++ flat (mRun pool s es).held ++ (mRun pool s es).src = s.out ++ flat s.held ++ s.src ∧
    ((mRun pool s es).done = true → (mRun pool s es).src = [] ∧ (mRun pool s es).held = []) := by
  induction es generalizing s with
  | nil => exact ⟨rfl, h⟩
  | cons e r ih =>
    simp only [mRun]
    have := ih (mStep pool s e) (mStep_done_src pool s e h)
    rw [mStep_conserves] at this
    exact this

/-- **Managed reads are complete**: for every pool size, every request size / transfer size and every pattern of
holding and releasing buffers — including a reader that holds ALL buffers of the pool —, once the reader has seen end
of file it has collected exactly the child's output, in order. -/
theorem managed_read_complete (pool : Nat) (src : Bytes) (es : List MEv)
    (hd : (mRun pool (mInit pool src) es).done = true) : (mRun pool (mInit pool src) es).out = src := by
  have := mRun_inv pool es (mInit pool src) (by intro h; cases h)
  obtain ⟨h1, h2⟩ := this
  obtain ⟨h3, h4⟩ := h2 hd
  rw [h3, h4] at h1
  simpa [mInit, flat] using h1

theorem mLoop_is_run (pool hold len : Nat) (f : Nat) (s : MSt) :
    mLoop pool hold len f s = mRun pool s (mLoopEvs pool hold len f s) := by
  induction f generalizing s with
  | zero => rfl
  | succ f ih =>
    unfold mLoop mLoopEvs
    split
    · rfl
    · simp only []
      split
      · simp only [mRun]; exact ih _
      · simp only [mRun]; exact ih _

/-- the driver's reader is one of those schedules: whatever it prints as complete output is the child's output -/
theorem managed_loop_complete (pool hold len f : Nat) (src : Bytes)
    (hd : (mLoop pool hold len f (mInit pool src)).done = true) : (mLoop pool hold len f (mInit pool src)).out = src := by
  rw [mLoop_is_run] at hd ⊢
  exact managed_read_complete pool src _ hd

/-- non-vacuity: a reader holding all 2 buffers of the pool meets `busy` with bytes left and still finishes complete -/
example :
    let s := mLoop 2 9 1 20 (mInit 2 [1, 2, 3, 4, 5])
    s.done = true ∧ s.out = [1, 2, 3, 4, 5] ∧ readManaged 0 [3, 4, 5] 1 = .busy := by decide

end Compio.ChildCmd
