import Compio.Model.ActorWorld
namespace Compio.Props.C19
end Compio.Props.C19
